/-
  ArithTieCuckoo — arithmetic tie, cuckoo filter `getPositions` and the eviction loops: the definitions of Generated/Arith.lean (translated from the Go
  sources by extract/arith.go on every run) agree with the hand-written `Nat` model for ALL inputs.
  One file per structure, so that a change of one structure's arithmetic breaks only the obligations
  of the properties of that structure.  A kernel the translator could not translate is missing from
  Generated/Arith.lean and the theorems about it fail to elaborate.  See Props/ArithTie.lean.
-/
import Gostatix.Generated.Arith
import Gostatix.Proofs.GoArith
import Gostatix.Model.CMS
import Gostatix.Model.HLL
import Gostatix.Model.Cuckoo
import Gostatix.Model.Bloom
import Gostatix.Model.Murmur
set_option linter.unusedSimpArgs false

namespace Gostatix.ArithTie
open Gostatix.Generated.Arith Gostatix.GoArith

/-- closes `A % m = B % m` where `A`, `B` are the same sum of `toNat` products, reduced modulo
    2^64 at different places and with the operands in any order (products become atoms of `omega`). -/
local macro "mod64_congr" : tactic =>
  `(tactic| (congr 1; (try simp only [Nat.mul_comm]); omega))

/-! ### cuckoo filter: `getPositions` and the eviction loops -/

/-- `firstIndex := hash % cuckooFilter.size`. -/
theorem tie_cuckooFirstIndex (hash size : UInt64) (_hs : size ≠ 0) :
    (cuckooFirstIndex hash size).toNat = hash.toNat % size.toNat := by
  simp [cuckooFirstIndex]

/-- `secondIndex := (firstIndex ^ secondHash) % cuckooFilter.size` is `Cuckoo.altOf` of the first
    index, for any fingerprint hash function `H` with `H fp = secondHash`. -/
theorem tie_cuckooSecondIndex {F : Type} (H : F → Nat) (fp : F) (hash secondHash size : UInt64)
    (hH : H fp = secondHash.toNat) (_hs : size ≠ 0) :
    (cuckooSecondIndex hash secondHash size).toNat
      = Cuckoo.altOf H size.toNat (hash.toNat % size.toNat) fp := by
  simp [cuckooSecondIndex, Cuckoo.altOf, hH, Nat.xor_comm]

/-- `Cuckoo.positions` (the model of `getPositions` on the element bytes) computes exactly the
    generated index expressions on the murmur hash words, when the fingerprint length is valid. -/
theorem tie_cuckooPositions (size : UInt64) (fpl : Nat) (data : List UInt8) (_hs : size ≠ 0)
    (hfpl : fpl ≤ (toString (Murmur.getHash data)).length) :
    let hash := (Murmur.sum128 data).1
    let r := Cuckoo.positions size.toNat fpl data
    let secondHash := (Murmur.sum128 r.1.toUTF8.toList).1
    r.2.1 = (cuckooFirstIndex hash size).toNat
      ∧ r.2.2 = (cuckooSecondIndex hash secondHash size).toNat := by
  have h : ¬ fpl > (toString (Murmur.getHash data)).length := by omega
  simp only [Cuckoo.positions, h, ↓reduceIte]
  simp [cuckooFirstIndex, cuckooSecondIndex, Cuckoo.hashStr, Murmur.getHash, Nat.xor_comm]

/-- eviction loop of cuckoo_filter.go: `newIndex := (index ^ hash) % uint64(len(cuckooFilter.buckets))`
    is `Cuckoo.altOf` with modulus `len(buckets)` (a slice length: an `int`, here its 64-bit pattern). -/
theorem tie_cuckooKickIndexMem {F : Type} (H : F → Nat) (fp : F) (index hash len : UInt64)
    (hH : H fp = hash.toNat) (_hl : len ≠ 0) :
    (cuckooKickIndexMem index hash len).toNat = Cuckoo.altOf H len.toNat index.toNat fp := by
  simp [cuckooKickIndexMem, Cuckoo.altOf, hH, Nat.xor_comm]

/-- eviction loop of cuckoo_filter_redis.go: same expression, the modulus is the length of the
    `buckets` MAP (`len(cuckooFilter.buckets)`), not the `size` field. -/
theorem tie_cuckooKickIndexRedis {F : Type} (H : F → Nat) (fp : F) (index hash len : UInt64)
    (hH : H fp = hash.toNat) (_hl : len ≠ 0) :
    (cuckooKickIndexRedis index hash len).toNat = Cuckoo.altOf H len.toNat index.toNat fp := by
  simp [cuckooKickIndexRedis, Cuckoo.altOf, hH, Nat.xor_comm]

/-- the eviction step and the second index of `getPositions` are the same function when
    `len(buckets) = size` (what the constructors establish; not checked by the translator). -/
theorem cuckooKick_eq_second (hash secondHash size : UInt64) :
    cuckooSecondIndex hash secondHash size = cuckooKickIndexMem (cuckooFirstIndex hash size) secondHash size
      ∧ cuckooKickIndexMem = cuckooKickIndexRedis := by
  constructor
  · simp [cuckooSecondIndex, cuckooKickIndexMem, cuckooFirstIndex, UInt64.xor_comm]
  · funext a b c; simp [cuckooKickIndexMem, cuckooKickIndexRedis, UInt64.xor_comm]

example : (cuckooSecondIndex 1000 77 64).toNat = 37
    ∧ Cuckoo.altOf (fun _ : Unit => 77) 64 (1000 % 64) () = 37 := by decide
example : (cuckooKickIndexMem 40 77 64).toNat = 37 := by decide


end Gostatix.ArithTie
