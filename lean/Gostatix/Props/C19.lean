/-
  C19 — structures sharing one Redis database do not interfere.

  Every Redis-backed structure keeps its state under keys derived from 16-letter random base
  keys (`util.GenerateRandomString(16)`).  `Handle.keysOf` lists, for each kind of structure,
  exactly the Redis keys its Go code builds (Model/Redis.lean).  The theorems:

  * `C19_keys_nodup`, `C19_disjoint` — pure string facts: the keys of one handle are pairwise
    distinct, and two handles of ANY kinds and parameters with different base keys have
    disjoint key sets (no bucket/row/metadata key of one can be spelled like a key of the other);
  * `C19_noninterference(_n)` — the frame theorem: operations that read and write only their own
    key set (`SupportedOn K op`) can be interleaved in any way without changing any result or
    any structure's part of the final store;
  * `C19_frame_*` — the modelled scripts (count-min sketch, HyperLogLog, Bloom) satisfy
    `SupportedOn (keysOf handle)`;
  * `C19_import_new_keys` — an import onto fresh keys leaves every other key, in particular the
    exporter's, untouched.
  The hypothesis "base keys pairwise different" is the (probabilistic) assumption that the
  random generator does not repeat a 16-letter string; it is not a theorem.
-/
import Gostatix.Proofs.RedisKeys
import Gostatix.Proofs.RedisFrame
import Gostatix.Proofs.RedisFrameOps
namespace Gostatix.Redis

/-! ### key sets -/

theorem C19_decimal_roundtrip (n : Nat) : parseDecimal (decimal n) = some n := parseDecimal_decimal n

theorem C19_decimal_is_toString (n : Nat) : decimal n = toString n := rfl

/-- all keys of one handle are pairwise distinct. -/
theorem C19_keys_nodup (h : Handle) (hbase : ∀ b ∈ h.bases, IsBase b) (hne : h.bases.Nodup) :
    h.keysOf.Nodup := h.keysOf_nodup hbase hne

/-- handles (any kinds, any parameters) with different 16-letter base keys share no Redis key. -/
theorem C19_disjoint (h₁ h₂ : Handle)
    (hb₁ : ∀ b ∈ h₁.bases, IsBase b) (hb₂ : ∀ b ∈ h₂.bases, IsBase b)
    (hne : ∀ b₁ ∈ h₁.bases, ∀ b₂ ∈ h₂.bases, b₁ ≠ b₂) :
    ∀ k, k ∈ h₁.keysOf → k ∉ h₂.keysOf := h₁.keysOf_disjoint h₂ hb₁ hb₂ hne

/-- the rendering of key shapes is injective over 16-letter base keys. -/
theorem C19_render_injective {d₁ d₂ : KeyD} (h₁ : IsBase d₁.baseOf) (h₂ : IsBase d₂.baseOf)
    (e : d₁.render = d₂.render) : d₁ = d₂ := KeyD.render_inj h₁ h₂ e

/-- the driver-facing `keysOfKind` returns exactly the `keysOf` of the handle (the parameters
    it leaves out do not influence the key set). -/
theorem C19_keysOfKind_bloom (h : BloomHandle) :
    keysOfKind "bloom" [] [h.bitsetKey, h.metadataKey] = some h.keysOf := rfl

theorem C19_keysOfKind_cuckoo (h : CuckooHandle) :
    keysOfKind "cuckoo" [h.n] [h.key, h.metadataKey] = some h.keysOf := rfl

theorem C19_keysOfKind_cms (h : CMSHandle) :
    keysOfKind "cms" [h.rows] [h.key, h.metadataKey] = some h.keysOf := rfl

theorem C19_keysOfKind_hll (h : HLLHandle) :
    keysOfKind "hll" [] [h.key, h.metadataKey] = some h.keysOf := rfl

theorem C19_keysOfKind_topk (h : TopKHandle) :
    keysOfKind "topk" [h.sketch.rows]
      [h.heapKey, h.metadataKey, h.sketch.key, h.sketch.metadataKey] = some h.keysOf := rfl

/-! ### non-interference -/

/-- `n` structures (index type `ι`) on pairwise disjoint key sets; `tr` is any sequence of
    operations, each tagged with the structure it belongs to and supported on that structure's
    keys.  For every structure `i`: its operations return, inside `tr`, exactly what they return
    when run alone from the same initial store, and its part of the final store is the same. -/
theorem C19_noninterference_n {ι : Type} [DecidableEq ι] {ρ : Type} (K : ι → List String)
    (hdisj : ∀ i j, i ≠ j → ∀ k ∈ K i, k ∉ K j)
    (tr : List (ι × Op ρ)) (hsup : ∀ p ∈ tr, SupportedOn (K p.1) p.2) (s : Store) (i : ι) :
    resultsOf i (runTagged tr s).2 = (runOps (opsOf i tr) s).2 ∧
    ∀ k ∈ K i, (runTagged tr s).1 k = (runOps (opsOf i tr) s).1 k :=
  noninterference_aux K hdisj tr hsup i s s (fun _ _ => rfl)

/-- two operation lists on disjoint key sets, ANY interleaving `tr` of them. -/
theorem C19_noninterference {ρ : Type} (K₁ K₂ : List String) (hdisj : ∀ k ∈ K₁, k ∉ K₂)
    (ops₁ ops₂ : List (Op ρ))
    (h₁ : ∀ op ∈ ops₁, SupportedOn K₁ op) (h₂ : ∀ op ∈ ops₂, SupportedOn K₂ op)
    (tr : List (Bool × Op ρ)) (htr : Interleaving ops₁ ops₂ tr) (s : Store) :
    (resultsOf true (runTagged tr s).2 = (runOps ops₁ s).2 ∧
      ∀ k ∈ K₁, (runTagged tr s).1 k = (runOps ops₁ s).1 k) ∧
    (resultsOf false (runTagged tr s).2 = (runOps ops₂ s).2 ∧
      ∀ k ∈ K₂, (runTagged tr s).1 k = (runOps ops₂ s).1 k) := by
  let K : Bool → List String := fun b => if b then K₁ else K₂
  have hd : ∀ i j, i ≠ j → ∀ k ∈ K i, k ∉ K j := by
    intro i j hij k hk hk'
    cases i <;> cases j <;> simp only [K, if_true, if_false, Bool.false_eq_true] at hk hk'
    · exact hij rfl
    · exact hdisj k hk' hk
    · exact hdisj k hk hk'
    · exact hij rfl
  have hsup : ∀ p ∈ tr, SupportedOn (K p.1) p.2 := by
    intro p hp
    have := htr.mem p hp
    rcases p with ⟨b, op⟩
    cases b
    · exact h₂ op (this.2 rfl)
    · exact h₁ op (this.1 rfl)
  have e := htr.opsOf
  have r₁ := C19_noninterference_n K hd tr hsup s true
  have r₂ := C19_noninterference_n K hd tr hsup s false
  rw [e.1] at r₁
  rw [e.2] at r₂
  exact ⟨r₁, r₂⟩

/-- the same for two handles of any kinds: different 16-letter base keys suffice. -/
theorem C19_noninterference_handles {ρ : Type} (g₁ g₂ : Handle)
    (hb₁ : ∀ b ∈ g₁.bases, IsBase b) (hb₂ : ∀ b ∈ g₂.bases, IsBase b)
    (hne : ∀ b₁ ∈ g₁.bases, ∀ b₂ ∈ g₂.bases, b₁ ≠ b₂)
    (ops₁ ops₂ : List (Op ρ))
    (h₁ : ∀ op ∈ ops₁, SupportedOn g₁.keysOf op) (h₂ : ∀ op ∈ ops₂, SupportedOn g₂.keysOf op)
    (tr : List (Bool × Op ρ)) (htr : Interleaving ops₁ ops₂ tr) (s : Store) :
    (resultsOf true (runTagged tr s).2 = (runOps ops₁ s).2 ∧
      ∀ k ∈ g₁.keysOf, (runTagged tr s).1 k = (runOps ops₁ s).1 k) ∧
    (resultsOf false (runTagged tr s).2 = (runOps ops₂ s).2 ∧
      ∀ k ∈ g₂.keysOf, (runTagged tr s).1 k = (runOps ops₂ s).1 k) :=
  C19_noninterference _ _ (C19_disjoint g₁ g₂ hb₁ hb₂ hne) ops₁ ops₂ h₁ h₂ tr htr s

/-- an import writing the fresh key set `K` changes no other key — none of the exporter's keys
    `Kexp` when the two sets are disjoint — and every later answer of the exporter is the same. -/
theorem C19_import_new_keys {ρ ρ' : Type} (K Kexp : List String) (imp : Op ρ)
    (hsup : SupportedOn K imp) (hdisj : ∀ k ∈ Kexp, k ∉ K) (s : Store) :
    (∀ k, k ∉ K → (imp s).1 k = s k) ∧
    (∀ k ∈ Kexp, (imp s).1 k = s k) ∧
    (∀ op : Op ρ', SupportedOn Kexp op → (op (imp s).1).2 = (op s).2) := by
  refine ⟨fun k hk => hsup.1 s k hk, fun k hk => hsup.1 s k (hdisj k hk), ?_⟩
  intro op hop
  exact (hop.2 _ _ (fun k hk => hsup.1 s k (hdisj k hk))).1

/-! ### the modelled scripts are framed by their handle's keys -/

theorem C19_frame_cms_init (h : CMSHandle) : SupportedOn h.keysOf (cmsInit h) := supported_cmsInit h

/-- `pos` is `getPositions(data)`, one column per row (`len(pos) = rows`). -/
theorem C19_frame_cms_update (h : CMSHandle) (pos : List Nat) (count : Nat)
    (hlen : pos.length ≤ h.rows) : SupportedOn h.keysOf (cmsUpdate h pos count) :=
  supported_cmsUpdate h pos count hlen

theorem C19_frame_cms_count (h : CMSHandle) (pos : List Nat) (hlen : pos.length ≤ h.rows) :
    SupportedOn h.keysOf (cmsCount h pos) := supported_cmsCount h pos hlen

/-- `Merge` reads the argument's rows and writes the receiver's. -/
theorem C19_frame_cms_merge (h₁ h₂ : CMSHandle) :
    SupportedOn (h₁.keysOf ++ h₂.keysOf) (cmsMerge h₁ h₂) := supported_cmsMerge h₁ h₂

theorem C19_frame_cms_create (h : CMSHandle) : SupportedOn h.keysOf (cmsCreate h) :=
  supported_cmsCreate h

theorem C19_frame_hll_init (h : HLLHandle) : SupportedOn h.keysOf (hllInit h) := supported_hllInit h

theorem C19_frame_hll_update (h : HLLHandle) (idx val : Nat) :
    SupportedOn h.keysOf (hllUpdate h idx val) := supported_hllUpdate h idx val

theorem C19_frame_hll_merge (h g : HLLHandle) :
    SupportedOn (h.keysOf ++ g.keysOf) (hllMerge h g) := supported_hllMerge h g

theorem C19_frame_bloom_insert (h : BloomHandle) (ps : List Nat) :
    SupportedOn h.keysOf (bloomInsert h ps) := supported_bloomInsert h ps

theorem C19_frame_bloom_lookup (h : BloomHandle) (ps : List Nat) :
    SupportedOn h.keysOf (bloomLookup h ps) := supported_bloomLookup h ps

/-! ### non-vacuity -/

section examples

def exCMS₁ : CMSHandle := { rows := 3, cols := 4, key := "aaaaaaaaaaaaaaaa", metadataKey := "aaaaaaaaaaaaaaab" }
def exCMS₂ : CMSHandle := { rows := 12, cols := 4, key := "aaaaaaaaaaaaaaac", metadataKey := "aaaaaaaaaaaaaaad" }
def exCuckoo : CuckooHandle :=
  { n := 11, bsize := 4, fpl := 2, retries := 500, key := "aaaaaaaaaaaaaaae", metadataKey := "aaaaaaaaaaaaaaaf" }
def exTopK : TopKHandle :=
  { k := 5, errorRate := "0.01", accuracy := "0.01", heapKey := "Zaaaaaaaaaaaaaaa",
    metadataKey := "Zaaaaaaaaaaaaaab", sketch := exCMS₂ }

example : IsBase "aaaaaaaaaaaaaaaa" := by decide
example : ¬ IsBase "aaaaaaaaaaaaaaa" := by decide          -- 15 letters
example : ¬ IsBase "aaaaaaaaaaaaaaa_" := by decide         -- not a letter
example : ¬ IsBase "aaaaaaaaaaaaaaa1" := by decide

/-- the hypotheses of `C19_keys_nodup`/`C19_disjoint` hold for concrete handles … -/
example : (Handle.cuckoo exCuckoo).keysOf.Nodup :=
  C19_keys_nodup _ (by decide) (by decide)

example : ∀ k, k ∈ (Handle.cms exCMS₁).keysOf → k ∉ (Handle.cuckoo exCuckoo).keysOf :=
  C19_disjoint _ _ (by decide) (by decide) (by decide)

example : ∀ k, k ∈ (Handle.cms exCMS₁).keysOf → k ∉ (Handle.topk exTopK).keysOf :=
  C19_disjoint _ _ (by decide) (by decide) (by decide)

/-- … the key lists are what the Go code builds … -/
example : exCMS₁.keysOf =
    ["aaaaaaaaaaaaaaab", "aaaaaaaaaaaaaaaa0", "aaaaaaaaaaaaaaaa1", "aaaaaaaaaaaaaaaa2"] := by decide

example : cuckooBucketKey "aaaaaaaaaaaaaaae" 10 = "cuckoo_aaaaaaaaaaaaaaae_bucket_10" := by decide
example : cuckooLenKey "aaaaaaaaaaaaaaae" 10 = "cuckoo_aaaaaaaaaaaaaaae_bucket_10_len" := by decide
example : (Handle.cuckoo exCuckoo).keysOf.length = 24 := by decide
example : keysOfKind "cms" [3] ["aaaaaaaaaaaaaaaa", "aaaaaaaaaaaaaaab"] = some exCMS₁.keysOf := by decide
example : keysOfKind "hll" [] ["aaaaaaaaaaaaaaaa", "aaaaaaaaaaaaaaab"] =
    some ["aaaaaaaaaaaaaaaa", "aaaaaaaaaaaaaaab"] := by decide
example : keysOfKind "cuckoo" [2] ["k", "m"] =
    some ["k", "m", "cuckoo_k_bucket_0", "cuckoo_k_bucket_1", "cuckoo_k_bucket_0_len",
      "cuckoo_k_bucket_1_len"] := by decide
example : keysOfKind "cms" [] ["a", "b"] = none := by decide
example : keysOfKind "nope" [] [] = none := by decide

/-- … and the `IsBase` hypothesis matters: without it two sketches CAN collide, because the row
    key is `key .. row` with no separator (sketch "x" row 10 and sketch "x1" row 0). -/
example : cmsRowKey "x" 10 = cmsRowKey "x1" 0 := by decide

example :
    let a : CMSHandle := { rows := 11, cols := 1, key := "x", metadataKey := "m" }
    let b : CMSHandle := { rows := 1, cols := 1, key := "x1", metadataKey := "n" }
    "x10" ∈ a.keysOf ∧ "x10" ∈ b.keysOf := by decide

/-- a concrete interleaving of updates/counts on two sketches sharing one store. -/
def exTrace : List (Bool × Op (Option Nat)) :=
  [ (true,  cmsInit exCMS₁ >>=ₛ fun _ => Script.pure 0),
    (false, cmsInit exCMS₂ >>=ₛ fun _ => Script.pure 0),
    (true,  cmsUpdate exCMS₁ [1, 2, 3] 5 >>=ₛ fun _ => Script.pure 0),
    (false, cmsUpdate exCMS₂ [1, 2, 3] 7 >>=ₛ fun _ => Script.pure 0),
    (false, cmsCount exCMS₂ [1, 2, 3]),
    (true,  cmsCount exCMS₁ [1, 2, 3]) ]

example : resultsOf true (runTagged exTrace Store.empty).2 = [some 0, some 0, some 5] := by decide
example : resultsOf false (runTagged exTrace Store.empty).2 = [some 0, some 0, some 7] := by decide
example : (runOps (opsOf true exTrace) Store.empty).2 = [some 0, some 0, some 5] := by decide

end examples

end Gostatix.Redis
