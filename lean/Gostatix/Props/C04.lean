/-
  C04 — Top-K: the tracked heap against the abstract specification `TopK.Step`
  (Gostatix/Model/TopKSpec.lean).

  `Reach k evs heap`: `heap` is a heap the specification can reach from the empty heap by the
  history `evs` of inserts `(x, c, f)` (`f` = sketch estimate of `x` right after the update),
  for ANY resolution of frequency ties.  `EstOK evs` is what the Count-Min theorems provide:
  `trueTotal ≤ f ≤ total` at every insert, and estimates of one element never decrease
  (`CMS.C04_count_update_ge` below).  Neither `k ≥ 1` nor `c ≥ 1` is needed.
  Helper lemmas: Gostatix/Proofs/TopK*.lean, Gostatix/Proofs/GoHeap.lean.
-/
import Gostatix.Proofs.TopKInv
import Gostatix.Proofs.TopKSort
import Gostatix.Proofs.TopKRedis
import Gostatix.Proofs.TopKCMS
import Gostatix.Proofs.TopKMem
import Gostatix.Proofs.TopKRun

namespace Gostatix.TopK

variable {E : Type} [DecidableEq E]

omit [DecidableEq E] in
/-- The decidable guard `Admit` of the specification is the guard of the Go code:
    `len(heap) < k || f >= (the minimal frequency stored in heap)`. -/
theorem C04_admit_iff (k : Nat) (heap : List (E × Nat)) (f : Nat) :
    Admit k heap f ↔ (heap.length < k ∨ ∃ mn, isMinFreq heap mn ∧ f ≥ mn) :=
  admit_iff_isMinFreq k heap f

/-- No element is tracked twice (this one holds for arbitrary estimates). -/
theorem C04_nodup {k : Nat} {evs : List (Event E)} {heap : List (E × Nat)}
    (hr : Reach k evs heap) : (heap.map (·.1)).Nodup :=
  reach_nodup hr

/-- `numDistinct` counts what it should: `distinct l` has no duplicates and the same members. -/
theorem C04_distinct_spec (l : List E) : (distinct l).Nodup ∧ ∀ y, y ∈ distinct l ↔ y ∈ l :=
  ⟨distinct_nodup l, mem_distinct l⟩

/-- The heap holds exactly `min k (number of distinct inserted elements)` entries. -/
theorem C04_size {k : Nat} {evs : List (Event E)} {heap : List (E × Nat)}
    (hr : Reach k evs heap) (he : EstOK evs) : heap.length = min k (numDistinct evs) :=
  inv_size (reach_inv hr he)

/-- Every reported count is at least the element's true total and at most the stream total. -/
theorem C04_count_bounds {k : Nat} {evs : List (Event E)} {heap : List (E × Nat)}
    (hr : Reach k evs heap) (he : EstOK evs) :
    ∀ p ∈ heap, trueTotal evs p.1 ≤ p.2 ∧ p.2 ≤ total evs :=
  fun p hp => lastEst_bounds evs he p.1 p.2 ((reach_inv hr he).stored p hp)

/-- Every inserted element that is NOT reported has a true total of at most every reported
    count (so at most the smallest reported count). -/
theorem C04_unreported_light {k : Nat} {evs : List (Event E)} {heap : List (E × Nat)}
    (hr : Reach k evs heap) (he : EstOK evs) (y : E) (hy : ∃ e ∈ evs, e.x = y)
    (hno : ∀ p ∈ heap, p.1 ≠ y) : ∀ p ∈ heap, trueTotal evs y ≤ p.2 := by
  intro p hp
  obtain ⟨e, hmem, rfl⟩ := hy
  obtain ⟨g, hg⟩ := lastEst_of_mem evs e hmem
  exact Nat.le_trans (lastEst_bounds evs he e.x g hg).1
    ((reach_inv hr he).light e.x g hg hno p hp)

/-- exact estimates satisfy `EstOK` -/
theorem C04_exact_estOK (evs : List (Event E)) (hx : Exact evs) : EstOK evs := exact_estOK evs hx

/-- Without collisions (every estimate exact) the reported counts are the true totals and every
    unreported element's true total is at most every reported element's true total: the reported
    set is a top-k set, up to ties at the boundary. -/
theorem C04_exact_without_collisions {k : Nat} {evs : List (Event E)} {heap : List (E × Nat)}
    (hr : Reach k evs heap) (he : EstOK evs) (hx : Exact evs) :
    (∀ p ∈ heap, p.2 = trueTotal evs p.1) ∧
    (∀ y, (∃ e ∈ evs, e.x = y) → (∀ p ∈ heap, p.1 ≠ y) →
      ∀ p ∈ heap, trueTotal evs y ≤ trueTotal evs p.1) := by
  have hcnt : ∀ p ∈ heap, p.2 = trueTotal evs p.1 :=
    fun p hp => lastEst_exact evs hx p.1 p.2 ((reach_inv hr he).stored p hp)
  refine ⟨hcnt, ?_⟩
  intro y hy hno p hp
  rw [← hcnt p hp]
  exact C04_unreported_light hr he y hy hno p hp

/-- `Values` returns the tracked entries … -/
theorem C04_values_perm (h : List HElem) : (values h).Perm h := values_perm h

/-- … ordered by count descending, then element ascending. -/
theorem C04_values_sorted (h : List HElem) :
    List.Pairwise (fun a b => a.2 > b.2 ∨ (a.2 = b.2 ∧ a.1 ≤ b.1)) (values h) :=
  values_sorted h

/-- With no element tracked twice the order of `Values` is strict. -/
theorem C04_values_sorted_strict (h : List HElem) (hn : (h.map (·.1)).Nodup) :
    List.Pairwise (fun a b => a.2 > b.2 ∨ (a.2 = b.2 ∧ a.1 < b.1)) (values h) := by
  have hn' : ((values h).map (·.1)).Nodup := (((values_perm h).map (·.1)).nodup_iff).2 hn
  have hne : (values h).Pairwise (fun a b => a.1 ≠ b.1) := List.pairwise_map.1 hn'
  refine ((values_sorted h).and hne).imp ?_
  rintro a b ⟨h1 | ⟨h1, h2⟩, h3⟩
  · exact Or.inl h1
  · exact Or.inr ⟨h1, Std.lt_of_le_of_ne h2 h3⟩

/-- `Values` of a reachable heap: exactly `min k distinct` entries, no element twice. -/
theorem C04_values_size {k : Nat} {evs : List (Event String)} {heap : List HElem}
    (hr : Reach k evs heap) (he : EstOK evs) :
    (values heap).length = min k (numDistinct evs) ∧ ((values heap).map (·.1)).Nodup :=
  ⟨by rw [(values_perm heap).length_eq]; exact C04_size hr he,
   (((values_perm heap).map (·.1)).nodup_iff).2 (C04_nodup hr)⟩

/-- The Redis variant refines the specification: on a sorted set (sorted by `zLt`, no member
    twice) `offerRedis` is a `Step`, and the result is again such a sorted set. -/
theorem C04_redis_refines_spec (k : Nat) (z : List HElem) (x : String) (f : Nat)
    (hs : z.Pairwise (fun a b => zLt a b = true)) (hn : (z.map (·.1)).Nodup) :
    Step k z (x, f) (offerRedis k z x f) ∧
    (offerRedis k z x f).Pairwise (fun a b => zLt a b = true) ∧
    ((offerRedis k z x f).map (·.1)).Nodup :=
  redis_refines_spec k z x f hs hn

/-- hence every state of the Redis variant is a reachable heap of the specification -/
theorem C04_redis_reach (k : Nat) (evs : List (Event String)) :
    Reach k evs (evs.foldl (fun z e => offerRedis k z e.x e.f) []) ∧
    (evs.foldl (fun z e => offerRedis k z e.x e.f) []).Pairwise (fun a b => zLt a b = true) ∧
    ((evs.foldl (fun z e => offerRedis k z e.x e.f) []).map (·.1)).Nodup := by
  induction evs using snocInd with
  | nil => exact ⟨Reach.nil, by simp, by simp⟩
  | snoc evs e ih =>
    rw [List.foldl_append]
    simp only [List.foldl_cons, List.foldl_nil]
    obtain ⟨h1, h2, h3⟩ := ih
    obtain ⟨s1, s2, s3⟩ := redis_refines_spec k _ e.x e.f h2 h3
    exact ⟨Reach.snoc h1 s1, s2, s3⟩

/-- the heap-order invariant of `container/heap`, on the frequencies -/
theorem C04_heapInv_def (h : Array HElem) :
    HeapInv h ↔ ∀ i (hi : i < h.size) (_ : 0 < i), (h[(i - 1) / 2]'(by omega)).2 ≤ h[i].2 :=
  Iff.rfl

/-- `heap.Push` / `heap.Pop` / `heap.Remove` keep the heap order; `Push` adds the entry, `Pop`
    removes `h[0]`, `Remove i` removes `h[i]` (multiset reading), and `h[0]` is a minimum. -/
theorem C04_goheap_push (h : Array HElem) (x : HElem) (hi : HeapInv h) :
    (GoHeap.push h x).toList.Perm (h.toList ++ [x]) ∧ HeapInv (GoHeap.push h x) := by
  rw [heapInv_iff] at *
  exact ⟨(GoHeap.push_spec h x hi).2.1, (GoHeap.push_spec h x hi).2.2⟩

theorem C04_goheap_pop (h : Array HElem) (hs : 0 < h.size) (hi : HeapInv h) :
    ((GoHeap.pop h).toList ++ [h[0]]).Perm h.toList ∧ (∀ e ∈ h.toList, h[0].2 ≤ e.2) ∧
      HeapInv (GoHeap.pop h) := by
  rw [heapInv_iff] at *
  have hget : h.getD 0 ("", 0) = h[0] := by simp [Array.getD, hs]
  have := GoHeap.pop_spec h hs hi
  rw [hget] at this
  refine ⟨this.2.1, ?_, this.2.2⟩
  have hr := root_le h hi
  rwa [hget] at hr

theorem C04_goheap_remove (h : Array HElem) (i : Nat) (hlt : i < h.size) (hi : HeapInv h) :
    ((GoHeap.remove h i).toList ++ [h[i]]).Perm h.toList ∧ HeapInv (GoHeap.remove h i) := by
  rw [heapInv_iff] at *
  have hget : h.getD i ("", 0) = h[i] := by simp [Array.getD, hlt]
  have := GoHeap.remove_spec h i hlt hi
  rw [hget] at this
  exact ⟨this.2.1, this.2.2⟩

/-- The in-memory variant refines the specification: on a heap-ordered array without duplicate
    elements `offer` is a `Step` (for every `k`), and the result is again heap-ordered. -/
theorem C04_mem_refines_spec (k : Nat) (h : Array HElem) (x : String) (f : Nat)
    (hinv : HeapInv h) (hn : (h.toList.map (·.1)).Nodup) :
    Step k h.toList (x, f) (offer k h x f).toList ∧ HeapInv (offer k h x f) :=
  mem_refines_spec k h x f hinv hn

/-- hence every state of the in-memory variant is a reachable heap of the specification -/
theorem C04_mem_reach (k : Nat) (evs : List (Event String)) :
    Reach k evs (evs.foldl (fun h e => offer k h e.x e.f) #[]).toList ∧
    HeapInv (evs.foldl (fun h e => offer k h e.x e.f) #[]) := by
  induction evs using snocInd with
  | nil => exact ⟨Reach.nil, fun i hi _ => by simp at hi⟩
  | snoc evs e ih =>
    rw [List.foldl_append]
    simp only [List.foldl_cons, List.foldl_nil]
    obtain ⟨h1, h2⟩ := ih
    obtain ⟨s1, s2⟩ := mem_refines_spec k _ e.x e.f h2 (reach_nodup h1)
    exact ⟨Reach.snoc h1 s1, s2⟩

/-- End to end for the executable model: a run of `TopK.insert` (sketch update, estimate, heap
    part) from a state with an empty heap ends in a reachable heap of the specification for the
    history `sketchEvents` of the run; the heap order holds; and the estimates of one element
    never decrease — the monotonicity half of `EstOK`, discharged from the sketch. -/
theorem C04_insert_run (posOf : String → List Nat) (t : TopK) (ht : t.heap = #[])
    (ops : List (String × Nat)) :
    Reach t.k (sketchEvents posOf t.sketch ops) (runInserts posOf t ops).heap.toList ∧
    HeapInv (runInserts posOf t ops).heap ∧
    (sketchEvents posOf t.sketch ops).Pairwise (fun a b => a.x = b.x → a.f ≤ b.f) := by
  rw [runInserts_heap, ht]
  exact ⟨(C04_mem_reach t.k _).1, (C04_mem_reach t.k _).2, sketchEvents_mono posOf t.sketch ops⟩

/-- `EstOK` is the conjunction of the Count-Min bounds at every insert and that monotonicity. -/
theorem C04_estOK_of_bounds_mono (evs : List (Event String))
    (hb : ∀ i (h : i < evs.length),
      trueTotal (evs.take (i + 1)) evs[i].x ≤ evs[i].f ∧ evs[i].f ≤ total (evs.take (i + 1)))
    (hm : evs.Pairwise (fun a b => a.x = b.x → a.f ≤ b.f)) : EstOK evs :=
  estOK_of_bounds_mono evs hb hm

end Gostatix.TopK

namespace Gostatix.CMS

/-- Estimates never decrease: discharges the monotonicity part of `EstOK` from the sketch. -/
theorem C04_count_update_ge (s : CMS) (p q : List Nat) (c : Nat) :
    (s.update p c).count q ≥ s.count q := count_update_ge s p q c

end Gostatix.CMS

/-! ### non-vacuity -/

namespace Gostatix.TopK

/-- k = 2; `c` ties with `b` at the boundary (both 1) and one of them is evicted; `b` returns. -/
def exampleHistory : List (Event String) :=
  [⟨"a", 2, 2⟩, ⟨"b", 1, 1⟩, ⟨"c", 1, 1⟩, ⟨"b", 1, 2⟩]

example : EstOK exampleHistory := by decide
example : Exact exampleHistory := by decide
example : CountsPos exampleHistory := by decide

/-- the tie is resolved against `b` (as the sorted set does: "b" < "c") -/
theorem exampleReach : Reach 2 exampleHistory [("b", 2), ("a", 2)] :=
  .snoc (.snoc (.snoc (.snoc .nil
    (heap' := [("a", 2)]) (by decide))
    (heap' := [("a", 2), ("b", 1)]) (by decide))
    (heap' := [("a", 2), ("c", 1)]) (by decide))
    (by decide)

/-- … or against `c`: both are reachable heaps of the same history -/
example : Reach 2 (exampleHistory.take 3) [("a", 2), ("b", 1)] :=
  .snoc (.snoc (.snoc .nil
    (heap' := [("a", 2)]) (by decide))
    (heap' := [("a", 2), ("b", 1)]) (by decide))
    (by decide)

example : ([("b", 2), ("a", 2)] : List HElem).length = min 2 (numDistinct exampleHistory) :=
  C04_size exampleReach (by decide)
example : numDistinct exampleHistory = 3 := by decide
example : trueTotal exampleHistory "c" ≤ 2 :=
  C04_unreported_light exampleReach (by decide) "c" (by decide) (by decide) ("a", 2) (by decide)
example : ∀ p ∈ ([("b", 2), ("a", 2)] : List HElem), p.2 = trueTotal exampleHistory p.1 :=
  (C04_exact_without_collisions exampleReach (by decide) (by decide)).1
example : values [("b", 2), ("a", 2)] = [("a", 2), ("b", 2)] := by decide
example : exampleHistory.foldl (fun z e => offerRedis 2 z e.x e.f) [] = [("a", 2), ("b", 2)] := by
  decide
example : HeapInv #[("b", 2), ("a", 2)] := by decide
/-- the in-memory run of the example history is a reachable heap, so all of the above applies -/
example : (exampleHistory.foldl (fun h e => offer 2 h e.x e.f) #[]).size
    = min 2 (numDistinct exampleHistory) := by
  have := C04_size (C04_mem_reach 2 exampleHistory).1 (by decide)
  simpa using this

end Gostatix.TopK
