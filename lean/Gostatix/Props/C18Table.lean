/-
  C18 (no partial load) — decided over the decoder table REGENERATED from /repo's current sources
  on every run (`Gostatix/Generated/DecoderTable.lean`): every fallible read (`binary.Read`,
  `io.ReadFull`, nested `readFrom`, `json.Unmarshal`) inside ReadFrom / readFrom / Import of the
  in-memory structures has its error tested and returned by the very next statement.
-/
import Gostatix.Generated.DecoderTable
namespace Gostatix.Generated

theorem C18_errors_propagated : decoderTable.all (fun r => r.propagated) = true := by decide

/-- the table is not empty and covers all five structures' readers and importers -/
theorem C18_decoder_table_covers :
    ["BloomFilter.ReadFrom", "BitSetMem.readFrom", "CuckooFilter.ReadFrom", "BucketMem.readFrom",
     "CountMinSketch.ReadFrom", "HyperLogLog.ReadFrom", "TopK.ReadFrom",
     "BloomFilter.Import", "CuckooFilter.Import", "CountMinSketch.Import", "HyperLogLog.Import", "TopK.Import"].all
      (fun fn => decoderTable.any (fun r => r.fn == fn)) = true := by decide

end Gostatix.Generated
