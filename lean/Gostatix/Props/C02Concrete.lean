/-
  C02Concrete — C02 ("the cuckoo filter never loses a live element") and C13 (`length` accounting)
  END TO END OVER BYTE STRINGS, closing the gap between `Cuckoo.positions` (the model of
  `getPositions`: murmur3 hash of the element bytes, decimal-prefix fingerprint, `hash % n`,
  `(i1 xor hash(fp)) % n`) and the abstract theorems of Props/C02.lean and Props/C13.lean, which
  quantify over abstract operations `(fp, i1, alt i1 fp)` with `fp ≠ emp`, `i1 < n`.

  WHAT IS PROVED
  * `C02_positions_valid_any_n`, `C02_positions_valid`: for every byte string `data` and every
    fingerprint length with `1 ≤ fpl ≤ #decimal digits of getHash data` (`ValidData fpl data`),
    `positions n fpl data = (fp, i1, i2)` has `fp ≠ ""`, `i1 < n`, `i2 = altOf hashStr n i1 fp`,
    `i2 < n` — for EVERY `n > 0`; for `n = 2^k` in addition `altOf hashStr n i2 fp = i1` (the pair
    of candidate buckets is symmetric).  For `n = 5` the last claim fails on the element "g"
    (`C02_positions_not_symmetric_npow2`).
  * which `fpl` are valid: `C02_fpl_valid_iff` (`fpl = 1`, or `10^(fpl-1) ≤ hash`),
    `C02_fpl_one_always_valid`, `C02_fpl_ge_21_never_valid`; the two ways into finding D3:
    `C02_fpl_zero_is_D3` (fpl = 0: fingerprint "" for EVERY element) and `C02_fpl_too_long_is_D3`
    (fpl > #digits: `("", 0, 0)`), with the concrete consequences
    `C02_fpl_zero_loses_element`, `C02_fpl_too_long_loses_element` (Redis-backed filter; fpl = 20
    and the element "a", whose hash has 19 digits: `Insert` answers true, `length` becomes 1,
    nothing is stored, `Lookup` answers false), `C02_fpl_too_long_loses_element_mem` (the same in
    memory once the bucket is full) and `C02_fpl_zero_mem_finds_everything` (in memory the empty
    fingerprint matches every free slot: a new filter "contains" an element never inserted).
  * `Mem.C02_no_false_negative_concrete`, `Redis.C02_no_false_negative_concrete`: filter built by
    the constructor with `2^k` buckets, any `bsize > 0`, any `fpl`, any `retries`; ANY history of
    `Insert / Remove / Lookup` calls GIVEN AS BYTE STRINGS (`List BOp`), every element valid for
    `fpl`, every insert non-destructive, random choices (`side`, `slots < bsize`) arbitrary and part
    of the history; then every valid element `data` for which the number of successful removes of
    elements with the key of `data` is smaller than the number of successful inserts of elements
    with the key of `data` is found by `Lookup(data)`.  "Key" = (fingerprint, unordered pair of
    candidate buckets): the filter cannot tell apart two elements with the same key, so the
    successful removes that must be counted are those of every such element.
    `C02_inserted_element_found` is the reading "inserted more often than removed": count the
    successful inserts of exactly `data`.
    `C02_no_false_negative_concrete_partial`: destructive inserts allowed as long as none fails.
    These are obtained by translating the history with `toCOp` (`runB_eq`, `okInsertsB_eq`,
    `okRemovesB_eq` in Proofs/C02Concrete.lean, which use `C02_positions_valid_any_n`) and applying
    `C02_no_false_negative` / `C02_no_false_negative_partial` with `alt := altOf hashStr (2^k)`,
    `hInv := C02_alt_involutive_pow2 hashStr k`.
  * the hypotheses are needed, on real byte strings (all by `decide`, the murmur hash is evaluated
    by the kernel): `C02_concrete_npow2_loses_element` (n = 5), `C02_concrete_destructive_failure_loses`
    (a failing destructive insert), `C02_fpl_too_long_loses_element` (invalid element).
    Non-vacuity: `exHistory` (seven operations on words, with an eviction, a failed insert, a
    remove and two different elements with the same key) satisfies every hypothesis of the main
    theorems, which are applied to it.
  * `Mem.C13_length_exact_concrete`, `Redis.C13_length_exact_concrete`: for ANY `n > 0`, any mode
    of insert, after any byte-level history of valid elements `length` = number of occupied slots
    = #successful inserts − #successful removes.

  WHAT IS NOT PROVED / ASSUMED
  * `Murmur.getHash` is used as a function; nothing is proved about its distribution, and that it
    is murmur.go is checked by the differential driver, not here.  No theorem depends on its values
    except the `decide` examples.
  * `toString : Nat → String` is taken to be `strconv.FormatUint(hash, 10)`, `String.ofList
    (… .take fpl)` to be `hashString[:fpl]` (bytes = characters because all are ASCII digits;
    not proved here).
  * The byte-level operations `insertB / lookupB / removeB` (Proofs/C02Concrete.lean) are the
    composition `positions` ; `insert / lookup / remove` that Driver.lean tests against the Go
    code; that Go's `Insert` is this composition is covered by that differential test only.
  * Validity (`fpl ≤ #digits`) is a hypothesis on every element of the history: the code does not
    check it (finding D3), so it cannot be derived.
-/
import Gostatix.Props.C02
import Gostatix.Props.C13
import Gostatix.Proofs.C02Concrete
namespace Gostatix.Cuckoo

/-! ### `getPositions` produces a valid abstract operation -/

/-- **Any `n > 0`.** Fingerprint non-empty, both indices in range, the second index is the
    alternate bucket of the first. -/
theorem C02_positions_valid_any_n (n fpl : Nat) (data : List UInt8) (hn : 0 < n) (h1 : 1 ≤ fpl)
    (h2 : fpl ≤ (toString (Murmur.getHash data)).length) :
    let r := Cuckoo.positions n fpl data
    r.1 ≠ "" ∧ r.2.1 < n ∧ r.2.2 = Cuckoo.altOf Cuckoo.hashStr n r.2.1 r.1 ∧ r.2.2 < n :=
  ⟨positions_fp_ne n fpl data ⟨h1, h2⟩, positions_i1_lt n fpl data hn h2, positions_alt n fpl data h2,
    positions_i2_lt n fpl data hn h2⟩

/-- **`n = 2^k`.** As above, and the first index is the alternate bucket of the second. -/
theorem C02_positions_valid (k fpl : Nat) (data : List UInt8) (h1 : 1 ≤ fpl)
    (h2 : fpl ≤ (toString (Murmur.getHash data)).length) :
    let r := Cuckoo.positions (2^k) fpl data
    r.1 ≠ "" ∧ r.2.1 < 2^k ∧ r.2.2 = Cuckoo.altOf Cuckoo.hashStr (2^k) r.2.1 r.1 ∧ r.2.2 < 2^k ∧
      Cuckoo.altOf Cuckoo.hashStr (2^k) r.2.2 r.1 = r.2.1 := by
  obtain ⟨a, b, c, d⟩ := C02_positions_valid_any_n (2^k) fpl data (Nat.two_pow_pos k) h1 h2
  refine ⟨a, b, c, d, ?_⟩
  rw [c]
  exact (Mem.C02_alt_involutive_pow2 hashStr k _ _ b).2

/-- For `n = 5` the candidate pair is not symmetric: the element "g" has fingerprint "13" and
    buckets (4, 3), but the alternate bucket of 3 for "13" is 2. -/
theorem C02_positions_not_symmetric_npow2 :
    Cuckoo.positions 5 2 "g".toUTF8.toList = ("13", 4, 3) ∧ Cuckoo.altOf Cuckoo.hashStr 5 3 "13" = 2 := by
  decide +kernel

/-! ### which fingerprint lengths are valid; finding D3 -/

/-- **D3, first entrance.** With `fpl = 0` the fingerprint of EVERY element is the empty string
    (the length check `0 > len` never fires). -/
theorem C02_fpl_zero_is_D3 (n : Nat) (data : List UInt8) : (Cuckoo.positions n 0 data).1 = "" := by
  rw [positions_of_le n 0 data (Nat.zero_le _)]
  simp

/-- **D3, second entrance.** If `fpl` exceeds the number of decimal digits of the element's hash,
    `getPositions` returns `("", 0, 0)` (and an error the callers ignore). -/
theorem C02_fpl_too_long_is_D3 (n fpl : Nat) (data : List UInt8)
    (h : (toString (Murmur.getHash data)).length < fpl) : Cuckoo.positions n fpl data = ("", 0, 0) :=
  positions_of_gt n fpl data h

/-- The validity hypothesis in arithmetic form: one digit is always available; `fpl ≥ 2` digits
    are available exactly when `hash ≥ 10^(fpl-1)`. -/
theorem C02_fpl_valid_iff (fpl : Nat) (data : List UInt8) :
    ValidData fpl data ↔ fpl = 1 ∨ (2 ≤ fpl ∧ 10 ^ (fpl - 1) ≤ Murmur.getHash data) := by
  unfold ValidData
  constructor
  · rintro ⟨h1, h2⟩
    rcases (le_digits_iff fpl _ h1).mp h2 with h | h
    · exact Or.inl h
    · by_cases h' : fpl = 1
      · exact Or.inl h'
      · exact Or.inr ⟨by omega, h⟩
  · rintro (h | ⟨h1, h2⟩)
    · subst h; exact ⟨Nat.le_refl _, (le_digits_iff 1 _ (Nat.le_refl _)).mpr (Or.inl rfl)⟩
    · exact ⟨by omega, (le_digits_iff fpl _ (by omega)).mpr (Or.inr h2)⟩

/-- `fpl = 1` is valid for every element. -/
theorem C02_fpl_one_always_valid (data : List UInt8) : ValidData 1 data :=
  (C02_fpl_valid_iff 1 data).mpr (Or.inl rfl)

/-- `fpl ≥ 21` is valid for no element (a `uint64` has at most 20 decimal digits). -/
theorem C02_fpl_ge_21_never_valid (fpl : Nat) (data : List UInt8) (h : 21 ≤ fpl) :
    ¬ ValidData fpl data := by
  rintro ⟨_, h2⟩
  have := digits_getHash_le data
  omega

/-- Validity depends on the element for `2 ≤ fpl ≤ 20`: the hash of "a" has 19 digits, that of "c" 20. -/
theorem C02_fpl_20_depends_on_element :
    ¬ ValidData 20 "a".toUTF8.toList ∧ ValidData 20 "c".toUTF8.toList := by decide +kernel

end Gostatix.Cuckoo

/-! ## in-memory filter -/
namespace Gostatix.Cuckoo.Mem

/-- **No false negative on byte strings, non-destructive API.** -/
theorem C02_no_false_negative_concrete (k bsize fpl retries : Nat) (h : List BOp) (hb : 0 < bsize)
    (hv : ∀ op ∈ h, ValidBOp fpl bsize op) (hnd : NonDestructiveB h)
    (data : List UInt8) (hd : ValidData fpl data)
    (hlive : okRemovesB (BucketMem.ops "") (sameKey (2^k) fpl data) (empty "" (2^k) bsize fpl retries) h
           < okInsertsB (BucketMem.ops "") (sameKey (2^k) fpl data) (empty "" (2^k) bsize fpl retries) h) :
    lookupB (BucketMem.ops "") (runB (BucketMem.ops "") (empty "" (2^k) bsize fpl retries) h) data
      = true := by
  have hp := runB_params (o := BucketMem.ops "") (empty "" (2^k) bsize fpl retries) h
  have e1 : (runB (BucketMem.ops "") (empty "" (2^k) bsize fpl retries) h).n = 2^k := hp.1
  have e2 : (runB (BucketMem.ops "") (empty "" (2^k) bsize fpl retries) h).fpl = fpl := hp.2.2.1
  obtain ⟨p1, p2, p3, _⟩ := C02_positions_valid_any_n (2^k) fpl data (Nat.two_pow_pos k) hd.1 hd.2
  have hs : ∀ op ∈ h, SelAgree (2^k) fpl (sameKey (2^k) fpl data)
      (keySel (altOf hashStr (2^k)) (positions (2^k) fpl data).1 (positions (2^k) fpl data).2.1) op :=
    fun op hop => selAgree_sameKey (2^k) fpl bsize data op (hv op hop)
  unfold lookupB
  rw [e1, e2, p3, runB_eq (2^k) fpl bsize _ h rfl rfl hv]
  rw [okInsertsB_eq (2^k) fpl bsize _ _ _ h rfl rfl hv hs,
    okRemovesB_eq (2^k) fpl bsize _ _ _ h rfl rfl hv hs] at hlive
  exact C02_no_false_negative "" (altOf hashStr (2^k)) (2^k) bsize fpl retries _
    (C02_alt_involutive_pow2 hashStr k) hb (validOp_map (2^k) fpl bsize (Nat.two_pow_pos k) h hv)
    (nonDestructive_map (2^k) fpl h hnd) _ _ p1 p2 hlive

/-- **No false negative on byte strings**, destructive inserts allowed as long as none of them fails. -/
theorem C02_no_false_negative_concrete_partial (k bsize fpl retries : Nat) (h : List BOp) (hb : 0 < bsize)
    (hv : ∀ op ∈ h, ValidBOp fpl bsize op)
    (hsafe : NoDestructiveFailB (BucketMem.ops "") (empty "" (2^k) bsize fpl retries) h)
    (data : List UInt8) (hd : ValidData fpl data)
    (hlive : okRemovesB (BucketMem.ops "") (sameKey (2^k) fpl data) (empty "" (2^k) bsize fpl retries) h
           < okInsertsB (BucketMem.ops "") (sameKey (2^k) fpl data) (empty "" (2^k) bsize fpl retries) h) :
    lookupB (BucketMem.ops "") (runB (BucketMem.ops "") (empty "" (2^k) bsize fpl retries) h) data
      = true := by
  have hp := runB_params (o := BucketMem.ops "") (empty "" (2^k) bsize fpl retries) h
  have e1 : (runB (BucketMem.ops "") (empty "" (2^k) bsize fpl retries) h).n = 2^k := hp.1
  have e2 : (runB (BucketMem.ops "") (empty "" (2^k) bsize fpl retries) h).fpl = fpl := hp.2.2.1
  obtain ⟨p1, p2, p3, _⟩ := C02_positions_valid_any_n (2^k) fpl data (Nat.two_pow_pos k) hd.1 hd.2
  have hs : ∀ op ∈ h, SelAgree (2^k) fpl (sameKey (2^k) fpl data)
      (keySel (altOf hashStr (2^k)) (positions (2^k) fpl data).1 (positions (2^k) fpl data).2.1) op :=
    fun op hop => selAgree_sameKey (2^k) fpl bsize data op (hv op hop)
  unfold lookupB
  rw [e1, e2, p3, runB_eq (2^k) fpl bsize _ h rfl rfl hv]
  rw [okInsertsB_eq (2^k) fpl bsize _ _ _ h rfl rfl hv hs,
    okRemovesB_eq (2^k) fpl bsize _ _ _ h rfl rfl hv hs] at hlive
  exact C02_no_false_negative_partial "" (altOf hashStr (2^k)) (2^k) bsize fpl retries _
    (C02_alt_involutive_pow2 hashStr k) hb (validOp_map (2^k) fpl bsize (Nat.two_pow_pos k) h hv)
    (noDestructiveFailB_eq (2^k) fpl bsize _ h rfl rfl hv hsafe) _ _ p1 p2 hlive

/-- **An element inserted more often than removed is found**: `data` itself was successfully
    inserted more often than elements with its key were successfully removed. -/
theorem C02_inserted_element_found (k bsize fpl retries : Nat) (h : List BOp) (hb : 0 < bsize)
    (hv : ∀ op ∈ h, ValidBOp fpl bsize op) (hnd : NonDestructiveB h)
    (data : List UInt8) (hd : ValidData fpl data)
    (hlive : okRemovesB (BucketMem.ops "") (sameKey (2^k) fpl data) (empty "" (2^k) bsize fpl retries) h
           < okInsertsB (BucketMem.ops "") (thisData data) (empty "" (2^k) bsize fpl retries) h) :
    lookupB (BucketMem.ops "") (runB (BucketMem.ops "") (empty "" (2^k) bsize fpl retries) h) data
      = true := by
  apply C02_no_false_negative_concrete k bsize fpl retries h hb hv hnd data hd
  refine Nat.lt_of_lt_of_le hlive (okInsertsB_mono _ _ ?_ _ h)
  intro d hd'
  simp only [thisData, decide_eq_true_eq] at hd'
  subst hd'
  exact sameKey_self _ _ _

/-- **`length` is exact on byte strings**, any number of buckets `n > 0`, any mode of insert. -/
theorem C13_length_exact_concrete (n bsize fpl retries : Nat) (h : List BOp) (hn : 0 < n) (hb : 0 < bsize)
    (hv : ∀ op ∈ h, ValidBOp fpl bsize op) :
    let c0 : Cuckoo (BucketMem String) := empty "" n bsize fpl retries
    let c := runB (BucketMem.ops "") c0 h
    c.length = stored "" c ∧
    c.length + okRemovesB (BucketMem.ops "") allData c0 h = okInsertsB (BucketMem.ops "") allData c0 h := by
  intro c0 c
  have hs : ∀ op ∈ h, SelAgree n fpl allData allSel op := fun op _ => selAgree_all n fpl op
  have := C13_length_exact "" (altOf hashStr n) n bsize fpl retries (h.map (toCOp n fpl))
    (fun j f _ => altOf_lt hashStr n hn j f) hb (validOp_map n fpl bsize hn h hv)
  simp only at this
  rw [← runB_eq n fpl bsize _ h rfl rfl hv, ← okInsertsB_eq n fpl bsize _ _ _ h rfl rfl hv hs,
    ← okRemovesB_eq n fpl bsize _ _ _ h rfl rfl hv hs] at this
  exact this

end Gostatix.Cuckoo.Mem

/-! ## Redis-backed filter -/
namespace Gostatix.Cuckoo.Redis

/-- **No false negative on byte strings, non-destructive API.** -/
theorem C02_no_false_negative_concrete (k bsize fpl retries : Nat) (h : List BOp) (hb : 0 < bsize)
    (hv : ∀ op ∈ h, ValidBOp fpl bsize op) (hnd : NonDestructiveB h)
    (data : List UInt8) (hd : ValidData fpl data)
    (hlive : okRemovesB (BucketRedis.ops "") (sameKey (2^k) fpl data) (empty (2^k) bsize fpl retries) h
           < okInsertsB (BucketRedis.ops "") (sameKey (2^k) fpl data) (empty (2^k) bsize fpl retries) h) :
    lookupB (BucketRedis.ops "") (runB (BucketRedis.ops "") (empty (2^k) bsize fpl retries) h) data
      = true := by
  have hp := runB_params (o := BucketRedis.ops "") (empty (2^k) bsize fpl retries) h
  have e1 : (runB (BucketRedis.ops "") (empty (2^k) bsize fpl retries) h).n = 2^k := hp.1
  have e2 : (runB (BucketRedis.ops "") (empty (2^k) bsize fpl retries) h).fpl = fpl := hp.2.2.1
  obtain ⟨p1, p2, p3, _⟩ := C02_positions_valid_any_n (2^k) fpl data (Nat.two_pow_pos k) hd.1 hd.2
  have hs : ∀ op ∈ h, SelAgree (2^k) fpl (sameKey (2^k) fpl data)
      (keySel (altOf hashStr (2^k)) (positions (2^k) fpl data).1 (positions (2^k) fpl data).2.1) op :=
    fun op hop => selAgree_sameKey (2^k) fpl bsize data op (hv op hop)
  unfold lookupB
  rw [e1, e2, p3, runB_eq (2^k) fpl bsize _ h rfl rfl hv]
  rw [okInsertsB_eq (2^k) fpl bsize _ _ _ h rfl rfl hv hs,
    okRemovesB_eq (2^k) fpl bsize _ _ _ h rfl rfl hv hs] at hlive
  exact C02_no_false_negative "" (altOf hashStr (2^k)) (2^k) bsize fpl retries _
    (Mem.C02_alt_involutive_pow2 hashStr k) hb (validOp_map (2^k) fpl bsize (Nat.two_pow_pos k) h hv)
    (nonDestructive_map (2^k) fpl h hnd) _ _ p1 p2 hlive

/-- **No false negative on byte strings**, destructive inserts allowed as long as none of them fails. -/
theorem C02_no_false_negative_concrete_partial (k bsize fpl retries : Nat) (h : List BOp) (hb : 0 < bsize)
    (hv : ∀ op ∈ h, ValidBOp fpl bsize op)
    (hsafe : NoDestructiveFailB (BucketRedis.ops "") (empty (2^k) bsize fpl retries) h)
    (data : List UInt8) (hd : ValidData fpl data)
    (hlive : okRemovesB (BucketRedis.ops "") (sameKey (2^k) fpl data) (empty (2^k) bsize fpl retries) h
           < okInsertsB (BucketRedis.ops "") (sameKey (2^k) fpl data) (empty (2^k) bsize fpl retries) h) :
    lookupB (BucketRedis.ops "") (runB (BucketRedis.ops "") (empty (2^k) bsize fpl retries) h) data
      = true := by
  have hp := runB_params (o := BucketRedis.ops "") (empty (2^k) bsize fpl retries) h
  have e1 : (runB (BucketRedis.ops "") (empty (2^k) bsize fpl retries) h).n = 2^k := hp.1
  have e2 : (runB (BucketRedis.ops "") (empty (2^k) bsize fpl retries) h).fpl = fpl := hp.2.2.1
  obtain ⟨p1, p2, p3, _⟩ := C02_positions_valid_any_n (2^k) fpl data (Nat.two_pow_pos k) hd.1 hd.2
  have hs : ∀ op ∈ h, SelAgree (2^k) fpl (sameKey (2^k) fpl data)
      (keySel (altOf hashStr (2^k)) (positions (2^k) fpl data).1 (positions (2^k) fpl data).2.1) op :=
    fun op hop => selAgree_sameKey (2^k) fpl bsize data op (hv op hop)
  unfold lookupB
  rw [e1, e2, p3, runB_eq (2^k) fpl bsize _ h rfl rfl hv]
  rw [okInsertsB_eq (2^k) fpl bsize _ _ _ h rfl rfl hv hs,
    okRemovesB_eq (2^k) fpl bsize _ _ _ h rfl rfl hv hs] at hlive
  exact C02_no_false_negative_partial "" (altOf hashStr (2^k)) (2^k) bsize fpl retries _
    (Mem.C02_alt_involutive_pow2 hashStr k) hb (validOp_map (2^k) fpl bsize (Nat.two_pow_pos k) h hv)
    (noDestructiveFailB_eq (2^k) fpl bsize _ h rfl rfl hv hsafe) _ _ p1 p2 hlive

/-- **An element inserted more often than removed is found.** -/
theorem C02_inserted_element_found (k bsize fpl retries : Nat) (h : List BOp) (hb : 0 < bsize)
    (hv : ∀ op ∈ h, ValidBOp fpl bsize op) (hnd : NonDestructiveB h)
    (data : List UInt8) (hd : ValidData fpl data)
    (hlive : okRemovesB (BucketRedis.ops "") (sameKey (2^k) fpl data) (empty (2^k) bsize fpl retries) h
           < okInsertsB (BucketRedis.ops "") (thisData data) (empty (2^k) bsize fpl retries) h) :
    lookupB (BucketRedis.ops "") (runB (BucketRedis.ops "") (empty (2^k) bsize fpl retries) h) data
      = true := by
  apply C02_no_false_negative_concrete k bsize fpl retries h hb hv hnd data hd
  refine Nat.lt_of_lt_of_le hlive (okInsertsB_mono _ _ ?_ _ h)
  intro d hd'
  simp only [thisData, decide_eq_true_eq] at hd'
  subst hd'
  exact sameKey_self _ _ _

/-- **`length` is exact on byte strings**, any number of buckets `n > 0`, any mode of insert. -/
theorem C13_length_exact_concrete (n bsize fpl retries : Nat) (h : List BOp) (hn : 0 < n) (hb : 0 < bsize)
    (hv : ∀ op ∈ h, ValidBOp fpl bsize op) :
    let c0 : Cuckoo (BucketRedis String) := empty n bsize fpl retries
    let c := runB (BucketRedis.ops "") c0 h
    c.length = stored "" c ∧
    c.length + okRemovesB (BucketRedis.ops "") allData c0 h = okInsertsB (BucketRedis.ops "") allData c0 h := by
  intro c0 c
  have hs : ∀ op ∈ h, SelAgree n fpl allData allSel op := fun op _ => selAgree_all n fpl op
  have := C13_length_exact "" (altOf hashStr n) n bsize fpl retries (h.map (toCOp n fpl))
    (fun j f _ => altOf_lt hashStr n hn j f) hb (validOp_map n fpl bsize hn h hv)
  simp only at this
  rw [← runB_eq n fpl bsize _ h rfl rfl hv, ← okInsertsB_eq n fpl bsize _ _ _ h rfl rfl hv hs,
    ← okRemovesB_eq n fpl bsize _ _ _ h rfl rfl hv hs] at this
  exact this

end Gostatix.Cuckoo.Redis

/-! ## the hypotheses are needed; non-vacuity — on real byte strings

  Elements are ASCII words (`bytes "a" = [0x61]`, …); everything is evaluated by the kernel
  (`decide +kernel`, because `String.toUTF8.toList` inside `hashStr` is defined by well-founded
  recursion, which the elaborator's `decide` does not unfold), including the murmur3 hash. -/
namespace Gostatix.Cuckoo

/-- the bytes of a word -/
def bytes (s : String) : List UInt8 := s.toUTF8.toList

/-- `getPositions` on four buckets with two-digit fingerprints: "c" and "f" have the same key
    (fingerprint "10", buckets 3 and 0); "dog" lives in {1, 2}, "a" in {1, 0}, "p" in {3, 0}. -/
example : positions 4 2 (bytes "c") = ("10", 3, 0) ∧ positions 4 2 (bytes "f") = ("10", 3, 0) ∧
    positions 4 2 (bytes "dog") = ("35", 1, 2) ∧ positions 4 2 (bytes "a") = ("96", 1, 0) ∧
    positions 4 2 (bytes "p") = ("14", 3, 0) ∧ Murmur.getHash (bytes "a") = 9607679276477937801 := by
  decide +kernel

/-- the hypotheses of `C02_positions_valid` are satisfiable, and its conclusion is not trivial -/
example : ValidData 2 (bytes "dog") ∧ positions (2^2) 2 (bytes "dog") = ("35", 1, 2) ∧
    altOf hashStr (2^2) 2 "35" = 1 := by decide +kernel

/-- **`1 ≤ fpl` is needed** (D3), Redis-backed filter: with `fpl = 0`, `Insert("a")` into the new
    filter answers true and bumps `length`, nothing is stored, and `Lookup("a")` answers false. -/
theorem C02_fpl_zero_loses_element :
    let c0 : Cuckoo (BucketRedis String) := Redis.empty 4 1 0 3
    let h : List BOp := [.insert (bytes "a") false true [0]]
    okInsertsB (BucketRedis.ops "") (thisData (bytes "a")) c0 h = 1 ∧
    okRemovesB (BucketRedis.ops "") allData c0 h = 0 ∧
    (runB (BucketRedis.ops "") c0 h).length = 1 ∧
    (runB (BucketRedis.ops "") c0 h).buckets = c0.buckets ∧
    lookupB (BucketRedis.ops "") (runB (BucketRedis.ops "") c0 h) (bytes "a") = false := by
  decide +kernel

/-- … and in the in-memory filter, whose free slots ARE the empty string, `fpl = 0` makes `Lookup`
    answer true for an element that was never inserted (the new filter "contains" "zebra"). -/
theorem C02_fpl_zero_mem_finds_everything :
    lookupB (BucketMem.ops "") (Mem.empty "" 4 1 0 3) (bytes "zebra") = true := by decide +kernel

/-- **`fpl ≤ #digits` is needed** (D3): `fpl = 20` and the element "a", whose hash has 19 digits
    (as for about half of all elements: `2^64 ≈ 1.8·10^19`).  Redis-backed filter: `Insert("a")`
    answers true, `length` becomes 1, nothing is stored, `Lookup("a")` answers false. -/
theorem C02_fpl_too_long_loses_element :
    let c0 : Cuckoo (BucketRedis String) := Redis.empty 4 1 20 3
    let h : List BOp := [.insert (bytes "a") false true [0]]
    positions 4 20 (bytes "a") = ("", 0, 0) ∧
    okInsertsB (BucketRedis.ops "") (thisData (bytes "a")) c0 h = 1 ∧
    okRemovesB (BucketRedis.ops "") allData c0 h = 0 ∧
    (runB (BucketRedis.ops "") c0 h).length = 1 ∧
    (runB (BucketRedis.ops "") c0 h).buckets = c0.buckets ∧
    lookupB (BucketRedis.ops "") (runB (BucketRedis.ops "") c0 h) (bytes "a") = false := by
  decide +kernel

/-- The same in the in-memory filter, once bucket 0 has no free slot: "e" (20 digits, bucket 0) is
    inserted after "a"; both inserts answer true, `length = 2`, one slot is occupied, "e" is found
    and "a" is not. -/
theorem C02_fpl_too_long_loses_element_mem :
    let c0 : Cuckoo (BucketMem String) := Mem.empty "" 4 1 20 3
    let h : List BOp := [.insert (bytes "a") false true [0], .insert (bytes "e") false true [0]]
    okInsertsB (BucketMem.ops "") allData c0 h = 2 ∧
    (runB (BucketMem.ops "") c0 h).length = 2 ∧
    Mem.stored "" (runB (BucketMem.ops "") c0 h) = 1 ∧
    lookupB (BucketMem.ops "") (runB (BucketMem.ops "") c0 h) (bytes "e") = true ∧
    lookupB (BucketMem.ops "") (runB (BucketMem.ops "") c0 h) (bytes "a") = false := by
  decide +kernel

/-- **`n = 2^k` is needed**: five buckets of one slot, two-digit fingerprints.  "h" ("15", buckets
    0 and 3) goes to bucket 0; "b" ("88", buckets 0 and 0) evicts it to bucket 3; "dog" ("35",
    buckets 3 and 3) evicts it to bucket `(3 xor hash "15") % 5 = 1`, which is not one of its
    buckets.  Three valid elements, three successful non-destructive inserts, no remove: "h" is
    reported absent. -/
theorem C02_concrete_npow2_loses_element :
    let c0 : Cuckoo (BucketMem String) := Mem.empty "" 5 1 2 3
    let h : List BOp := [.insert (bytes "h") false true [0], .insert (bytes "b") false true [0],
      .insert (bytes "dog") false true [0]]
    (∀ op ∈ h, ValidBOp 2 1 op) ∧ NonDestructiveB h ∧ ValidData 2 (bytes "h") ∧
    okInsertsB (BucketMem.ops "") allData c0 h = 3 ∧
    okInsertsB (BucketMem.ops "") (thisData (bytes "h")) c0 h = 1 ∧
    okRemovesB (BucketMem.ops "") allData c0 h = 0 ∧
    lookupB (BucketMem.ops "") (runB (BucketMem.ops "") c0 h) (bytes "h") = false := by
  decide +kernel

/-- **"No destructive insert fails" is needed**: two buckets of one slot, one-digit fingerprints,
    two retries.  "b" ("8") sits in bucket 0, "a" ("9") in bucket 1; the destructive insert of "k"
    ("5", buckets 0 and 1) evicts "8", which evicts "9", runs out of retries and fails without
    rollback: "a" (inserted once, never removed) is reported absent. -/
theorem C02_concrete_destructive_failure_loses :
    let c0 : Cuckoo (BucketMem String) := Mem.empty "" (2^1) 1 1 2
    let h : List BOp := [.insert (bytes "b") false true [0, 0], .insert (bytes "a") false true [0, 0],
      .insert (bytes "k") true true [0, 0]]
    (∀ op ∈ h, ValidBOp 1 1 op) ∧ ValidData 1 (bytes "a") ∧
    okInsertsB (BucketMem.ops "") (sameKey (2^1) 1 (bytes "a")) c0 h = 1 ∧
    okRemovesB (BucketMem.ops "") (sameKey (2^1) 1 (bytes "a")) c0 h = 0 ∧
    ¬ NoDestructiveFailB (BucketMem.ops "") c0 h ∧
    lookupB (BucketMem.ops "") (runB (BucketMem.ops "") c0 h) (bytes "a") = false := by
  decide +kernel

/-- the history of the non-vacuity examples: four buckets of one slot, two-digit fingerprints.
    "c" → bucket 3; "f" (same key as "c") → bucket 0; "dog" → bucket 1; "a" (buckets 1 and 0, both
    full) evicts "35" from bucket 1 into its alternate bucket 2; "p" (buckets 3 and 0) finds the
    table full, fails and rolls back; "c" is removed; lookups. -/
def exHistory : List BOp :=
  [.insert (bytes "c") false true [0], .insert (bytes "f") false true [0],
   .insert (bytes "dog") false true [0], .insert (bytes "a") false true [0, 0, 0],
   .insert (bytes "p") false true [0, 0, 0], .remove (bytes "c"), .lookup (bytes "dog")]

/-- what happens in `exHistory` (in-memory filter) -/
example :
    let c0 : Cuckoo (BucketMem String) := Mem.empty "" (2^2) 1 2 3
    (runB (BucketMem.ops "") c0 (exHistory.take 4)).buckets
      = [⟨1, ["10"], 1⟩, ⟨1, ["96"], 1⟩, ⟨1, ["35"], 1⟩, ⟨1, ["10"], 1⟩] ∧
    (stepB (BucketMem.ops "") (runB (BucketMem.ops "") c0 (exHistory.take 4)) (exHistory.getD 4 (.lookup []))).2 = false ∧
    runB (BucketMem.ops "") c0 (exHistory.take 5) = runB (BucketMem.ops "") c0 (exHistory.take 4) ∧
    (runB (BucketMem.ops "") c0 exHistory).buckets
      = [⟨1, ["10"], 1⟩, ⟨1, ["96"], 1⟩, ⟨1, ["35"], 1⟩, ⟨1, [""], 0⟩] ∧
    okInsertsB (BucketMem.ops "") allData c0 exHistory = 4 ∧
    okRemovesB (BucketMem.ops "") allData c0 exHistory = 1 ∧
    okInsertsB (BucketMem.ops "") (sameKey (2^2) 2 (bytes "f")) c0 exHistory = 2 ∧
    okRemovesB (BucketMem.ops "") (sameKey (2^2) 2 (bytes "f")) c0 exHistory = 1 := by
  decide +kernel

/-- **non-vacuity of `Mem.C02_no_false_negative_concrete`**: all hypotheses hold for `exHistory`
    (which contains an eviction, a failed insert and a remove); the theorem gives that "f" — whose
    key was inserted twice and removed once — and the evicted "dog" are found. -/
example :
    lookupB (BucketMem.ops "") (runB (BucketMem.ops "") (Mem.empty "" (2^2) 1 2 3) exHistory) (bytes "f") = true ∧
    lookupB (BucketMem.ops "") (runB (BucketMem.ops "") (Mem.empty "" (2^2) 1 2 3) exHistory) (bytes "dog") = true :=
  ⟨Mem.C02_no_false_negative_concrete 2 1 2 3 exHistory (by decide) (by decide +kernel) (by decide +kernel)
      (bytes "f") (by decide +kernel) (by decide +kernel),
   Mem.C02_inserted_element_found 2 1 2 3 exHistory (by decide) (by decide +kernel) (by decide +kernel)
      (bytes "dog") (by decide +kernel) (by decide +kernel)⟩

/-- the theorem's conclusion can fail when `hlive` fails: "c"/"f" removed twice are gone -/
example : lookupB (BucketMem.ops "")
    (runB (BucketMem.ops "") (Mem.empty "" (2^2) 1 2 3) (exHistory ++ [.remove (bytes "f")])) (bytes "f") = false := by
  decide +kernel

/-- **non-vacuity of `Redis.C02_no_false_negative_concrete`** and what the Redis lists look like:
    the eviction `LSET`s "96" over "35" and `LPUSH`es "35" to bucket 2; the remove leaves a hole. -/
example :
    let c0 : Cuckoo (BucketRedis String) := Redis.empty (2^2) 1 2 3
    (runB (BucketRedis.ops "") c0 exHistory).buckets
      = [⟨1, ["10"], 1⟩, ⟨1, ["96"], 1⟩, ⟨1, ["35"], 1⟩, ⟨1, [""], 0⟩] ∧
    lookupB (BucketRedis.ops "") (runB (BucketRedis.ops "") c0 exHistory) (bytes "f") = true :=
  ⟨by decide +kernel,
   Redis.C02_no_false_negative_concrete 2 1 2 3 exHistory (by decide) (by decide +kernel) (by decide +kernel)
      (bytes "f") (by decide +kernel) (by decide +kernel)⟩

/-- **non-vacuity of `C13_length_exact_concrete`** on FIVE buckets (not a power of two) with a
    destructive insert: `length` = occupied slots = 3 = 3 successful inserts − 0 removes, even
    though an element was lost (`C02_concrete_npow2_loses_element`). -/
example :
    let c0 : Cuckoo (BucketMem String) := Mem.empty "" 5 1 2 3
    let h : List BOp := [.insert (bytes "h") false true [0], .insert (bytes "b") true true [0],
      .insert (bytes "dog") false true [0]]
    (runB (BucketMem.ops "") c0 h).length = Mem.stored "" (runB (BucketMem.ops "") c0 h) ∧
    (runB (BucketMem.ops "") c0 h).length + okRemovesB (BucketMem.ops "") allData c0 h
      = okInsertsB (BucketMem.ops "") allData c0 h :=
  Mem.C13_length_exact_concrete 5 1 2 3 _ (by decide) (by decide) (by decide +kernel)

example : (runB (BucketMem.ops "") (Mem.empty "" 5 1 2 3)
    [.insert (bytes "h") false true [0], .insert (bytes "b") true true [0],
      .insert (bytes "dog") false true [0]]).length = 3 := by decide +kernel

end Gostatix.Cuckoo
