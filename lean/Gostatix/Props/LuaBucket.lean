/-
  LuaBucket (task L2a) — the Lua scripts of the cuckoo buckets, as EXTRACTED from the Go sources
  (Generated/LuaScripts.lean, regenerated on every run), interpreted by `Lua.run` (Model/Lua.lean),
  compute the HAND-WRITTEN store-level models (Model/RedisCuckoo.lean, Model/Equals.lean).

  For every script `S` of the group:

      theorem lua_S_eq :  Lua.run fuel Generated.LuaScripts.S <KEYS> <ARGV> st
                            = ((model st).1, <outcome of (model st).2>)

  with KEYS/ARGV exactly as the Go call site builds them (numbers as `decimal`), for EVERY store
  `st` satisfying the listed hypotheses, and for every `fuel` above an explicit bound.  A change of
  a script in the Go sources changes `Generated.LuaScripts.S` and breaks the proof unless the new
  script still computes the model.

  script (Go function)                       theorem                      hand model
  -----------------------------------------  ---------------------------  -------------------------------
  bucket_redis_isFreeScript   (isFree)       lua_isFreeScript_eq          Redis.bucketIsFreeScript
  bucket_redis_addElement     (add)          lua_addElement_eq            Redis.bucketAddScript
  bucket_redis_removeElement  (remove)       lua_removeElement_eq         Redis.bucketRemove
  bucket_redis_exists         (lookup)       lua_exists_eq                Redis.bucketLookupScript
  bucket_redis_equals         (equals)       lua_equals_eq / _RBucket     bucketEqualsScript (here), Equals.RBucket.equals
  cuckoo_filter_redis_initCuckooFilterRedis  lua_initCuckooFilterRedis_eq cuckooInitScript (here; no store-level
                              (initBuckets)                               model existed: Model/Json.lean's
                                                                          `initBuckets` is on another store type)
  All six scripts of the group are covered; the two loops (`equals`, `init…`) for an arbitrary
  number of iterations, through the general lemma `numForLoop_eq` (Proofs/LuaBucket.lean).

  Outcomes.  A hand model `Script Bool` answers `some true`/`some false`/`none` (abort); the
  interpreter's outcome is `boolOutcome msg`: reply `1` / nil reply / Lua error `msg` (the message
  is part of the statement).  `exists`: `lookupOutcome` — the model's abort is a NIL REPLY there
  (`return tonumber(nil)`), as the model's comment says.

  Preconditions (each one is needed: see the `…_differs` theorems; "where from" = what in the
  library establishes it):
    * `size ≤ 2^53` (isFree, add, equals): `tonumber(ARGV[…])` of a larger numeral is `unsupported`
      in the interpreter (float64).  [bucket sizes are small constants of the caller]
    * counter key `bk_len` (isFree, add): `TonumberAgrees` — gopher-lua's `tonumber` and the model's
      `parseInt` read the same number in the stored string (they differ on " 3", "+3", "0x10",
      numerals beyond 2^53).  (add, remove): `IncrAgrees` — miniredis' INCRBY (`Atoi`: accepts
      "007", "+5") and the model's (canonical spellings only) do the same, and the sum stays within
      2^53.  Both hold for the canonical spelling `renderInt n`, |n| < 2^53
      (`tonumberAgrees_renderInt`, `incrAgrees_renderInt`) — which is all `newBucketRedis`
      (`INCRBY bk_len 0`) and the scripts' own INCRBYs ever write; a counter of the WRONG TYPE or an
      absent counter needs no hypothesis (both sides raise the same error).
    * list key `bk` (add): absent or a list (`listAt st bk ≠ none`).  On a wrong-type key the model
      follows real Redis (pcall's error table makes the LSET fail silently, the script goes on and
      answers true) while the interpreter follows miniredis (pcall returns nil, `tonumber(nil)` is
      nil, a nil argument raises): `lua_addElement_differs_wrongtype`.  [the key is only ever written
      by LPUSH/LSET/RPUSH of the library]   (remove, exists: no such hypothesis — both sides abort /
      answer nil.)  (equals): both keys absent or lists, for the same reason (indexing nil raises in
      miniredis, an error table reads as empty in Redis): `lua_equals_differs_wrongtype`.
    * list length `≤ 2^53` (add, remove): the position found by LPOS goes back to Redis as a decimal
      argument, which the interpreter refuses beyond 2^53.  [Redis lists hold < 2^32 entries]
    * (equals) `size < 67108864` or both lists shorter than 67108864, (init) fewer than 67108863
      bucket keys: gopher-lua's array part ends there (the interpreter's documented assumption).
      No small counterexample exists for these two and the previous one, so no `_differs` for them.
  `exists` needs NO precondition at all.

  Corollaries (`…_abs`): the C08 simulation theorems transported to the extracted scripts — on a
  store that represents bucket `b` (`absBucket`), the extracted script answers what
  `BucketRedis.ops ""` answers and leaves a store that represents the model's new bucket.

  Fuel: `20` for the four loop-free scripts, `size + 16` / `n + 15` for the two loops.

  Names live in the namespace `Gostatix.LuaBucket` (helper lemmas: Proofs/LuaCorea.lean — numerals,
  commands, blocks, the symbolic-execution macro `luaA_exec`; Proofs/LuaBucket.lean — per script the
  evaluation of each block of statements, the loop lemma `numForLoop_eq`, the hand models case by
  case).  The file ends with `…_differs` theorems (a precondition dropped, on a small damaged
  store) and non-vacuity examples; concrete runs are evaluated by the kernel (`decide +kernel`
  through `flatOutcome`, since `Outcome` has no `DecidableEq`).
-/
import Gostatix.Proofs.LuaBucket
import Gostatix.Props.C08Bucket
namespace Gostatix.LuaBucket
open Gostatix.Lua
open Gostatix.Redis Gostatix.Generated.LuaScripts

/-! ## isFree -/

/-- `BucketRedis.isFree`: KEYS = `[bucket.key]`, ARGV = `[bucket.size]`. -/
theorem lua_isFreeScript_eq (st : Store) (bk : String) (size fuel : Nat) (hfuel : 20 ≤ fuel)
    (hsize : size ≤ 2 ^ 53)
    (hnum : ∀ b, st (bucketLenKey bk) = some (.str b) → TonumberAgrees (latin1 b)) :
    Lua.run fuel bucket_redis_isFreeScript [bk] [decimal size] st =
      ((bucketIsFreeScript bk size st).1,
        boolOutcome "attempt to compare nil with number" (bucketIsFreeScript bk size st).2) := by
  obtain ⟨f, rfl⟩ : ∃ f, fuel = f + 20 := ⟨fuel - 20, by omega⟩
  have htn := tonumber_getValue st _ hnum
  unfold bucketLenKey at htn
  rw [run_eq, show bucket_redis_isFreeScript = guardPrefix 1 ++ [guardStmt, .ret [.litTrue]] from rfl,
    execBlock_append _ _ (f + 16) 4 rfl, guardPrefix_isFree]
  unfold bucketIsFreeScript bucketLenKey
  rw [try_GET_luaInt]
  simp only []
  rw [execBlock_cons]
  cases hc : counterInt st (bk ++ "_len") with
  | none =>
    rw [hc] at htn
    rw [guard_nil (f + 5) st bk _ size _ hsize htn]
    rfl
  | some n =>
    rw [hc] at htn
    rw [guard_num (f + 5) st bk _ size _ n hsize htn]
    by_cases hn : (size : Int) ≤ n
    · have hn' : ¬ n < (size : Int) := by omega
      simp only [hn, if_true, resultOf_ret_false, guardState_store, Script.pure, hn', decide_false]
      rfl
    · have hn' : n < (size : Int) := by omega
      simp only [hn, if_false, execBlock_cons, execStmt_ret_true, resultOf_ret_true, guardState_store,
        Script.pure, hn', decide_true]
      rfl

/-! ## add -/

/-- `BucketRedis.add` (after the Go guard `element == ""`): KEYS = `[bucket.key]`,
    ARGV = `[element, bucket.size]`. -/
theorem lua_addElement_eq (st : Store) (bk e : String) (size fuel : Nat) (hfuel : 20 ≤ fuel)
    (hsize : size ≤ 2 ^ 53)
    (hlist : listAt st bk ≠ none)
    (hlen : ∀ l, st bk = some (.list l) → l.length ≤ 2 ^ 53)
    (hnum : ∀ b, st (bucketLenKey bk) = some (.str b) → TonumberAgrees (latin1 b))
    (hincr : ∀ b n, st (bucketLenKey bk) = some (.str b) → parseInt (latin1 b) = some n → n < size →
      IncrAgrees (latin1 b) 1) :
    Lua.run fuel bucket_redis_addElement [bk] [e, decimal size] st =
      ((bucketAddScript bk size e st).1,
        boolOutcome "attempt to compare nil with number" (bucketAddScript bk size e st).2) := by
  obtain ⟨f, rfl⟩ : ∃ f, fuel = f + 20 := ⟨fuel - 20, by omega⟩
  have htn := tonumber_getValue st _ hnum
  unfold bucketLenKey at htn hincr
  rw [run_eq, addElement_split, execBlock_append _ _ (f + 16) 4 rfl, guardPrefix_add, bucketAddScript_eq]
  simp only []
  rw [execBlock_cons]
  cases hc : counterInt st (bk ++ "_len") with
  | none =>
    rw [hc] at htn
    rw [guard_nil (f + 5) st bk _ size _ hsize htn]
    rfl
  | some n =>
    rw [hc] at htn
    rw [guard_num (f + 5) st bk _ size _ n hsize htn]
    by_cases hn : (size : Int) ≤ n
    · simp only [hn, if_true, resultOf_ret_false, guardState_store]
      rfl
    · simp only [hn, if_false]
      have hinc : ∀ b, storeElem st bk e (bk ++ "_len") = some (.str b) → IncrAgrees (latin1 b) 1 := by
        intro b hb
        have hne : bk ++ "_len" ≠ bk := bucketLenKey_ne bk
        rw [storeElem_other _ _ _ _ hne] at hb
        have : parseInt (latin1 b) = some n := by
          unfold counterInt at hc; rw [hb] at hc; exact hc
        exact hincr b n hb this (by omega)
      rw [execBlock_append _ _ (f + 12) 3 rfl]
      cases hb : st bk with
      | none =>
        rw [addMid_none (f + 2) st bk e size _ hb]
        simp only []
        rw [addEnd_exec f _ bk e size _ _ _ hinc]
        rfl
      | some w =>
        cases w with
        | list l =>
          cases hp : lpos l "" with
          | none =>
            rw [addMid_push (f + 2) st bk e size _ l hb hp]
            simp only []
            rw [addEnd_exec f _ bk e size _ _ _ hinc]
            rfl
          | some i =>
            have hi : i ≤ numLimit := by
              have := lpos_lt hp
              have := hlen l hb
              show i ≤ 2 ^ 53
              omega
            rw [addMid_set (f + 2) st bk e size _ l i hb hp hi]
            simp only []
            rw [addEnd_exec f _ bk e size _ _ _ hinc]
            rfl
        | _ => exact absurd (by unfold listAt; rw [hb]) hlist

/-! ## remove -/

/-- `BucketRedis.remove`: KEYS = `[bucket.key]`, ARGV = `[element]`.  The error message of an
    aborted script is `removeError`: WRONGTYPE (raised by `redis.call('LPOS', …)`) on a key that is
    not a list, else "Lua redis lib command arguments must be strings or integers" (the `false`
    that LPOS answers for an absent element is not an argument LSET accepts). -/
theorem lua_removeElement_eq (st : Store) (bk e : String) (fuel : Nat) (hfuel : 20 ≤ fuel)
    (hlen : ∀ l, st bk = some (.list l) → l.length ≤ 2 ^ 53)
    (hincr : ∀ b l, st (bucketLenKey bk) = some (.str b) → st bk = some (.list l) → l.contains e = true →
      IncrAgrees (latin1 b) (-1)) :
    Lua.run fuel bucket_redis_removeElement [bk] [e] st =
      ((bucketRemove bk e st).1, boolOutcome (removeError st bk) (bucketRemove bk e st).2) := by
  obtain ⟨f, rfl⟩ : ∃ f, fuel = f + 20 := ⟨fuel - 20, by omega⟩
  unfold bucketLenKey at hincr
  rw [run_eq, removeElement_split, execBlock_append _ _ (f + 15) 5 rfl, bucketRemove_eq]
  unfold removeError listAt
  cases hb : st bk with
  | none =>
    rw [removeMain_none _ st bk e hb]; rfl
  | some w =>
    cases w with
    | list l =>
      cases hp : lpos l e with
      | none => rw [removeMain_absent _ st bk e l hb hp]; simp only [hp]; rfl
      | some i =>
        have hi : i ≤ numLimit := by
          have := lpos_lt hp
          have := hlen l hb
          show i ≤ 2 ^ 53
          omega
        have hc : l.contains e = true := by
          unfold lpos at hp
          by_cases hc : l.contains e = true
          · exact hc
          · rw [if_neg hc] at hp; exact absurd hp (by simp)
        have hne : bk ++ "_len" ≠ bk := bucketLenKey_ne bk
        have hinc : ∀ b, (st.set bk (.list (l.set i ""))) (bk ++ "_len") = some (.str b) →
            IncrAgrees (latin1 b) (-1) := by
          intro b h
          rw [Store.set_ne _ _ hne] at h
          exact hincr b l h hb hc
        rw [removeMain_found _ st bk e l i hb hp hi]
        simp only []
        rw [removeEnd_exec (f + 3) _ bk e _ _ _ hinc]
        simp only [hp]
        rfl
    | _ =>
      rw [removeMain_wrongtype _ st bk e (by unfold listAt; rw [hb])]; rfl

/-! ## exists -/

/-- `BucketRedis.lookup`: KEYS = `[bucket.key]`, ARGV = `[element]`.  No precondition. -/
theorem lua_exists_eq (st : Store) (bk e : String) (fuel : Nat) (hfuel : 20 ≤ fuel) :
    Lua.run fuel bucket_redis_exists [bk] [e] st =
      ((bucketLookupScript bk e st).1, lookupOutcome (bucketLookupScript bk e st).2) := by
  obtain ⟨f, rfl⟩ : ∃ f, fuel = f + 20 := ⟨fuel - 20, by omega⟩
  rw [run_eq, exists_exec]

/-! ## equals -/

/-- Store-level model of the `equals` script of `BucketRedis.equals`, in the style of
    `Redis.hllEquals` (written after real Redis: a failed `pcall`ed LRANGE gives an error table,
    which reads as an empty table): the loop is `Equals.forN size (Equals.luaIdxEq vals1 vals2)` of
    Model/Equals.lean, i.e. the script part of `Equals.RBucket.equals`. -/
def bucketEqualsScript (bk1 bk2 : String) (size : Nat) : Script Bool :=
  Script.try_ (cmdLRANGE bk1) >>=ₛ fun v1 =>
  Script.try_ (cmdLRANGE bk2) >>=ₛ fun v2 =>
  fun s => (s, Equals.forN size (Equals.luaIdxEq (v1.getD []) (v2.getD [])))

theorem cmdLRANGE_listAt (st : Store) (k : String) (l : List String) (h : listAt st k = some l) :
    cmdLRANGE k st = (st, some l) := by
  unfold listAt at h
  unfold cmdLRANGE
  cases hk : st k with
  | none => rw [hk] at h; simp only [Option.some.injEq] at h; subst h; rfl
  | some w =>
    cases w with
    | list l' => rw [hk] at h; simp only [Option.some.injEq] at h; subst h; rfl
    | _ => rw [hk] at h; simp at h

theorem bucketEqualsScript_lists (st : Store) (bk1 bk2 : String) (size : Nat) (l1 l2 : List String)
    (h1 : listAt st bk1 = some l1) (h2 : listAt st bk2 = some l2) :
    bucketEqualsScript bk1 bk2 size st = (st, Equals.forN size (Equals.luaIdxEq l1 l2)) := by
  unfold bucketEqualsScript
  simp only [Script.bind, Script.try_, cmdLRANGE_listAt st bk1 l1 h1, cmdLRANGE_listAt st bk2 l2 h2,
    Option.getD_some]

/-- `BucketRedis.equals` (after the Go guard on the sizes): KEYS = `[bucket.key, other.key]`,
    ARGV = `[bucket.size]`.  (`forN … luaIdxEq` never aborts — `forN_luaIdxEq_ne_none` — so the error
    message of `boolOutcome` is immaterial.) -/
theorem lua_equals_eq (st : Store) (bk1 bk2 : String) (size fuel : Nat) (l1 l2 : List String)
    (hfuel : size + 16 ≤ fuel) (hsize : size ≤ 2 ^ 53)
    (h1 : listAt st bk1 = some l1) (h2 : listAt st bk2 = some l2)
    (hidx : size < 67108864 ∨ (l1.length < 67108864 ∧ l2.length < 67108864)) :
    Lua.run fuel bucket_redis_equals [bk1, bk2] [decimal size] st =
      ((bucketEqualsScript bk1 bk2 size st).1, boolOutcome "" (bucketEqualsScript bk1 bk2 size st).2) := by
  rw [run_eq, equals_exec fuel st bk1 bk2 size l1 l2 hfuel hsize h1 h2 hidx,
    bucketEqualsScript_lists st bk1 bk2 size l1 l2 h1 h2]

theorem forN_luaIdxEq_ne_none (l1 l2 : List String) (size : Nat) :
    Equals.forN size (Equals.luaIdxEq l1 l2) ≠ none :=
  forFrom_luaIdxEq_ne_none l1 l2 0 size

/-- the same against `Equals.RBucket.equals` (Model/Equals.lean), the model the `Equals` theorems
    (C16) are about: two buckets of the same Go-side `size` holding the lists `l1`, `l2`. -/
theorem lua_equals_eq_RBucket (st : Store) (bk1 bk2 : String) (size fuel : Nat) (l1 l2 : List String)
    (hfuel : size + 16 ≤ fuel) (hsize : size ≤ 2 ^ 53)
    (h1 : listAt st bk1 = some l1) (h2 : listAt st bk2 = some l2)
    (hidx : size < 67108864 ∨ (l1.length < 67108864 ∧ l2.length < 67108864)) :
    Lua.run fuel bucket_redis_equals [bk1, bk2] [decimal size] st =
      (st, boolOutcome "" (Equals.RBucket.equals ⟨size, l1⟩ ⟨size, l2⟩)) := by
  rw [run_eq, equals_exec fuel st bk1 bk2 size l1 l2 hfuel hsize h1 h2 hidx]
  simp [Equals.RBucket.equals]

/-! ## initCuckooFilterRedis -/

/-- Store-level model of the constructor's init script (`CuckooFilterRedis.initBuckets`):
    `DEL key`, then `LPUSH key bk` for every bucket key in order, `return true`.  (`redis.call`:
    a failing command aborts; after the `DEL` none fails.) -/
def cuckooInitLoop (key : String) : List String → Script Unit
  | [] => Script.pure ()
  | bk :: bks => cmdLPUSH key [bk] >>=ₛ fun _ => cuckooInitLoop key bks

def cuckooInitScript (key : String) (bks : List String) : Script Bool :=
  cmdDEL key >>=ₛ fun _ => cuckooInitLoop key bks >>=ₛ fun _ => Script.pure true

theorem cuckooInitLoop_eq (key : String) (bks : List String) (st : Store) (h : listAt st key ≠ none) :
    cuckooInitLoop key bks st = (pushAll key bks st, some ()) := by
  induction bks generalizing st with
  | nil => rfl
  | cons bk bks ih =>
    cases hl : listAt st key with
    | none => exact absurd hl h
    | some l =>
      unfold cuckooInitLoop pushAll
      simp only [Script.bind, cmdLPUSH1_ok st key bk l hl, List.foldl_cons, hl, Option.getD_some]
      exact ih _ (by rw [listAt_set_self]; exact Option.some_ne_none _)

theorem cuckooInitScript_eq (key : String) (bks : List String) (st : Store) :
    cuckooInitScript key bks st = (pushAll key bks (st.del key), some true) := by
  unfold cuckooInitScript
  have h : listAt (st.del key) key ≠ none := by
    unfold listAt; rw [Store.del_self]; exact Option.some_ne_none _
  simp only [Script.bind, cmdDEL, cuckooInitLoop_eq key bks _ h, Script.pure]

/-- what the init script leaves: the key holds the bucket keys in reverse order (or nothing). -/
theorem pushAll_eq (key : String) (bks : List String) (st : Store) (l : List String)
    (h : listAt st key = some l) (hne : bks ≠ []) :
    pushAll key bks st = st.set key (.list (bks.reverse ++ l)) := by
  induction bks generalizing st l with
  | nil => exact absurd rfl hne
  | cons bk bks ih =>
    unfold pushAll
    simp only [List.foldl_cons, h, Option.getD_some]
    by_cases hb : bks = []
    · subst hb; simp
    · have := ih (st.set key (.list (bk :: l))) (bk :: l) (listAt_set_self _ _ _) hb
      unfold pushAll at this
      rw [this, Store.set_set]
      simp

theorem cuckooInitScript_store (key : String) (bks : List String) (st : Store) :
    (cuckooInitScript key bks st).1 = if bks = [] then st.del key else st.set key (.list bks.reverse) := by
  rw [cuckooInitScript_eq]
  by_cases hb : bks = []
  · subst hb; rfl
  · have h : listAt (st.del key) key = some [] := by unfold listAt; rw [Store.del_self]
    simp only [hb, if_false]
    rw [pushAll_eq key bks _ [] h hb, Store.del_set, List.append_nil]

/-- `CuckooFilterRedis.initBuckets`: KEYS = `filter.key :: bucketKeys` (one key per bucket),
    ARGV = `[filter.size, filter.bucketSize]` with `filter.size = len(bucketKeys)`. -/
theorem lua_initCuckooFilterRedis_eq (st : Store) (key : String) (bks : List String) (bsize fuel : Nat)
    (hfuel : bks.length + 15 ≤ fuel) (hlen : bks.length + 1 < 67108864) :
    Lua.run fuel cuckoo_filter_redis_initCuckooFilterRedis (key :: bks)
        [decimal bks.length, decimal bsize] st =
      ((cuckooInitScript key bks st).1, boolOutcome "" (cuckooInitScript key bks st).2) := by
  rw [run_eq, init_exec fuel st key bks _ hfuel hlen, cuckooInitScript_eq]
  rfl

/-- with the Go key names: the list at `filter.key` afterwards. -/
theorem lua_initCuckooFilterRedis_keys (st : Store) (h : CuckooHandle) (fuel : Nat)
    (hfuel : h.n + 15 ≤ fuel) (hn : h.n + 1 < 67108864) (hpos : 0 < h.n) :
    (Lua.run fuel cuckoo_filter_redis_initCuckooFilterRedis
        (h.key :: (List.range h.n).map (cuckooBucketKey h.key)) [decimal h.n, decimal h.bsize] st) =
      (st.set h.key (.list ((List.range h.n).map (cuckooBucketKey h.key)).reverse),
        .reply (.int 1)) := by
  have hl : ((List.range h.n).map (cuckooBucketKey h.key)).length = h.n := by simp
  have := lua_initCuckooFilterRedis_eq st h.key ((List.range h.n).map (cuckooBucketKey h.key)) h.bsize fuel
    (by rw [hl]; exact hfuel) (by rw [hl]; exact hn)
  rw [hl] at this
  rw [this, cuckooInitScript_store, cuckooInitScript_eq]
  have hne : (List.range h.n).map (cuckooBucketKey h.key) ≠ [] := by
    intro h0
    have := congrArg List.length h0
    rw [hl] at this
    simp at this; omega
  rw [if_neg hne]
  rfl

/-! ## the C08 simulation theorems, transported to the extracted scripts -/

section abs
variable (st : Store) (bk : String) (size : Nat) (b : BucketRedis String)

/-- what `absBucket` gives for the hypotheses above. -/
theorem abs_hyps (habs : absBucket st bk size = some b) (hlen : b.len < 2 ^ 53) :
    listAt st bk ≠ none ∧
    (∀ l, st bk = some (.list l) → l = b.list) ∧
    (∀ c, st (bucketLenKey bk) = some (.str c) → TonumberAgrees (latin1 c)) ∧
    (∀ c d, d = 1 ∨ d = -1 → st (bucketLenKey bk) = some (.str c) → IncrAgrees (latin1 c) d) := by
  obtain ⟨_, hlist, hcnt⟩ := (C08_bucket_abs_iff st bk size b).mp habs
  have hcnt' : st (bucketLenKey bk) = some (.str (asciiBytes (decimal b.len))) := hcnt
  have hl : numLimit = 2 ^ 53 := rfl
  refine ⟨?_, ?_, ?_, ?_⟩
  · unfold listAt
    rcases hlist with ⟨h0, _⟩ | h0 <;> rw [h0] <;> exact Option.some_ne_none _
  · intro l hl
    rcases hlist with ⟨h0, _⟩ | h0
    · rw [h0] at hl; exact absurd hl (by simp)
    · rw [h0] at hl; simp only [Option.some.injEq, Val.list.injEq] at hl; exact hl.symm
  · intro c hc
    rw [hcnt'] at hc
    simp only [Option.some.injEq, Val.str.injEq] at hc
    subst hc
    rw [latin1_ascii_decimal, ← renderInt_natCast]
    exact tonumberAgrees_renderInt _ (by simp only [Int.natAbs_natCast]; omega)
  · intro c d hd hc
    rw [hcnt'] at hc
    simp only [Option.some.injEq, Val.str.injEq] at hc
    subst hc
    rw [latin1_ascii_decimal, ← renderInt_natCast]
    apply incrAgrees_renderInt
    · simp only [Int.natAbs_natCast]; omega
    · rcases hd with rfl | rfl <;> omega

/-- `C08_bucket_isFree` through `lua_isFreeScript_eq`: the extracted script answers the model's
    `isFree` and leaves the store as it is. -/
theorem lua_isFreeScript_abs (fuel : Nat) (hfuel : 20 ≤ fuel) (hsize : size ≤ 2 ^ 53)
    (habs : absBucket st bk size = some b) (hlen : b.len < 2 ^ 53) :
    Lua.run fuel bucket_redis_isFreeScript [bk] [decimal size] st =
      (st, .reply (boolReply ((BucketRedis.ops "").isFree b))) := by
  obtain ⟨_, _, hnum, _⟩ := abs_hyps st bk size b habs hlen
  rw [lua_isFreeScript_eq st bk size fuel hfuel hsize hnum]
  have hfree := C08_bucket_isFree st bk size b habs
  obtain ⟨_, _, hcnt⟩ := (C08_bucket_abs_iff st bk size b).mp habs
  have hscript : bucketIsFreeScript bk size st = (st, some (decide ((b.len : Int) < (size : Int)))) := by
    unfold bucketIsFreeScript bucketLenKey
    rw [try_GET_luaInt]
    unfold counterInt
    simp only [hcnt, latin1_ascii_decimal, parseInt_decimal]
    rfl
  unfold bucketIsFree goBool at hfree
  rw [hscript] at hfree ⊢
  simp only [Option.getD_some, Prod.mk.injEq, true_and] at hfree
  rw [← hfree]; rfl

/-- `C08_bucket_add` through `lua_addElement_eq`: after the extracted script the store represents
    the model's `add`. -/
theorem lua_addElement_abs (e : String) (fuel : Nat) (hfuel : 20 ≤ fuel) (hsize : size ≤ 2 ^ 53)
    (he : e ≠ "") (habs : absBucket st bk size = some b) (hlen : b.len < 2 ^ 53)
    (hlist : b.list.length ≤ 2 ^ 53) :
    absBucket (Lua.run fuel bucket_redis_addElement [bk] [e, decimal size] st).1 bk size =
      some ((BucketRedis.ops "").add b e) := by
  obtain ⟨h1, h2, h3, h4⟩ := abs_hyps st bk size b habs hlen
  rw [lua_addElement_eq st bk e size fuel hfuel hsize h1 (fun l hl => by rw [h2 l hl]; exact hlist) h3
    (fun c n hc _ _ => h4 c 1 (Or.inl rfl) hc)]
  obtain ⟨st', hadd, habs', _⟩ := C08_bucket_add st bk size b e habs
  unfold bucketAdd goBool at hadd
  rw [if_neg he] at hadd
  rw [show (bucketAddScript bk size e st).1 = st' from congrArg Prod.fst hadd]
  exact habs'

/-- `C08_bucket_remove` through `lua_removeElement_eq`. -/
theorem lua_removeElement_abs (e : String) (fuel : Nat) (hfuel : 20 ≤ fuel)
    (habs : absBucket st bk size = some b) (hlen : b.len < 2 ^ 53) (hlist : b.list.length ≤ 2 ^ 53)
    (hpresent : (BucketRedis.ops "").lookup b e = true) (hpos : 0 < b.len) :
    ∃ st', Lua.run fuel bucket_redis_removeElement [bk] [e] st = (st', .reply (.int 1)) ∧
      absBucket st' bk size = some ((BucketRedis.ops "").remove b e) := by
  obtain ⟨_, h2, _, h4⟩ := abs_hyps st bk size b habs hlen
  obtain ⟨st', hrem, habs', _⟩ := C08_bucket_remove st bk size b e habs hpresent hpos
  refine ⟨st', ?_, habs'⟩
  rw [lua_removeElement_eq st bk e fuel hfuel (fun l hl => by rw [h2 l hl]; exact hlist)
    (fun c l hc _ _ => h4 c (-1) (Or.inr rfl) hc), hrem]
  rfl

/-- `C08_bucket_lookup` through `lua_exists_eq`: the reply is a position `p` with
    `p > -1` iff the model's `lookup`. -/
theorem lua_exists_abs (e : String) (fuel : Nat) (hfuel : 20 ≤ fuel)
    (habs : absBucket st bk size = some b) :
    ∃ p : Int, Lua.run fuel bucket_redis_exists [bk] [e] st = (st, .reply (.int p)) ∧
      decide (p > -1) = (BucketRedis.ops "").lookup b e := by
  have hl := C08_bucket_lookup st bk size b e habs
  rw [lua_exists_eq st bk e fuel hfuel]
  unfold bucketLookup Script.bind at hl
  cases hs : bucketLookupScript bk e st with
  | mk st' r =>
    rw [hs] at hl
    cases r with
    | none => simp at hl
    | some p =>
      simp only [Script.pure, Prod.mk.injEq, Option.some.injEq] at hl
      exact ⟨p, by rw [hl.1]; rfl, hl.2⟩

end abs

/-! ## checking concrete runs -/


/-- outcomes without array replies, with decidable equality (for checking concrete runs in the
    kernel: `Outcome` itself is a nested inductive without `DecidableEq`). -/
inductive FlatOutcome where
  | int (n : Int) | bulk (s : String) | nil | status (s : String) | replyError (m : String)
  | error (m : String) | unsupported (w : String) | outOfFuel | other
  deriving DecidableEq

def flatOutcome : Outcome → FlatOutcome
  | .reply (.int n) => .int n
  | .reply (.bulk s) => .bulk s
  | .reply .nil => .nil
  | .reply (.status s) => .status s
  | .reply (.error m) => .replyError m
  | .reply (.array _) => .other
  | .error m => .error m
  | .unsupported w => .unsupported w
  | .outOfFuel => .outOfFuel

theorem outcome_eq_of_flat {o o' : Outcome} (h : flatOutcome o = flatOutcome o')
    (h' : flatOutcome o' ≠ .other) : o = o' := by
  cases o with
  | reply r =>
    cases o' with
    | reply r' => cases r <;> cases r' <;> simp_all [flatOutcome]
    | _ => cases r <;> simp_all [flatOutcome]
  | _ =>
    cases o' with
    | reply r' => cases r' <;> simp_all [flatOutcome]
    | _ => simp_all [flatOutcome]

/-- evaluate a concrete run in the kernel and compare the outcome. -/
macro "luaA_outcome_eval" : tactic =>
  `(tactic| exact outcome_eq_of_flat (by decide +kernel) (by decide))

/-! ## the preconditions are needed: the two sides differ without them -/

/-- a small store given by its bindings. -/
def storeOf (kvs : List (String × Val)) : Store :=
  fun k => (kvs.find? (fun kv => kv.1 == k)).map (·.2)

/-- counter `" 3"` (a leading blank): gopher-lua's `tonumber` trims it, the model's `parseInt`
    rejects it — `TonumberAgrees` fails. -/
def sBlank : Store := storeOf [("b_len", .str (asciiBytes " 3"))]

/-- without `hnum`: the extracted `isFree` answers true, the hand model aborts. -/
theorem lua_isFreeScript_differs_blank :
    (Lua.run 20 bucket_redis_isFreeScript ["b"] [decimal 4] sBlank).2 = .reply (.int 1) ∧
    (bucketIsFreeScript "b" 4 sBlank).2 = none ∧
    ¬ TonumberAgrees (latin1 (asciiBytes " 3")) :=
  ⟨by luaA_outcome_eval, by decide, fun h => by
    have h1 : luaToNumber (latin1 (asciiBytes " 3")) = .num 3 := rfl
    have h2 : parseInt (latin1 (asciiBytes " 3")) = none := by decide
    unfold TonumberAgrees at h; rw [h1, h2] at h; exact ToNumber.noConfusion h⟩

def sZero : Store := storeOf [("b_len", .str (asciiBytes "0"))]

/-- without `hsize`: a bucket size beyond 2^53 is `unsupported` in the interpreter (float64),
    while the hand model computes with unbounded integers. -/
theorem lua_isFreeScript_differs_size :
    (Lua.run 20 bucket_redis_isFreeScript ["b"] [decimal (2 ^ 53 + 1)] sZero).2 =
      .unsupported "tonumber of a numeral beyond 2^53" ∧
    (bucketIsFreeScript "b" (2 ^ 53 + 1) sZero).2 = some true :=
  ⟨by luaA_outcome_eval, by decide +kernel⟩

/-- the list key holds a string. -/
def sWrong : Store := storeOf [("b", .str []), ("b_len", .str (asciiBytes "0"))]

/-- without `hlist`: on a wrong-type list key the extracted `addElement` raises (miniredis:
    `pcall` returns nil, `tonumber(nil)` is nil, a nil argument raises) and leaves the counter,
    the hand model (real Redis: error table, failed LSET swallowed) answers true and increments. -/
theorem lua_addElement_differs_wrongtype :
    (Lua.run 20 bucket_redis_addElement ["b"] ["x", decimal 4] sWrong).2 =
      .error "Lua redis lib command arguments must be strings or integers" ∧
    (Lua.run 20 bucket_redis_addElement ["b"] ["x", decimal 4] sWrong).1 "b_len" =
      some (.str (asciiBytes "0")) ∧
    (bucketAddScript "b" 4 "x" sWrong).2 = some true ∧
    (bucketAddScript "b" 4 "x" sWrong).1 "b_len" = some (.str (asciiBytes "1")) :=
  ⟨by luaA_outcome_eval, by decide +kernel, by decide +kernel, by decide +kernel⟩

/-- the counter holds `"007"`: a number for `tonumber`, `parseInt` and miniredis' `Atoi`, not for
    the model's INCRBY (Redis' `string2ll`). -/
def sPadded : Store := storeOf [("b", .list ["x"]), ("b_len", .str (asciiBytes "007"))]

/-- without `hincr`: miniredis' INCRBY rewrites `"007"` to `"8"`, the model's fails silently. -/
theorem lua_addElement_differs_noncanonical :
    (Lua.run 20 bucket_redis_addElement ["b"] ["y", decimal 9] sPadded).1 "b_len" =
      some (.str (asciiBytes "8")) ∧
    (bucketAddScript "b" 9 "y" sPadded).1 "b_len" = some (.str (asciiBytes "007")) ∧
    ¬ IncrAgrees (latin1 (asciiBytes "007")) 1 :=
  ⟨by decide +kernel, by decide +kernel, fun h => by
    have h1 : parseIntStrict (latin1 (asciiBytes "007")) = none := by decide
    have h2 : goAtoi (latin1 (asciiBytes "007")) = .num 7 := by decide
    unfold IncrAgrees at h; rw [h1, h2] at h; exact NumParse.noConfusion h⟩

theorem lua_removeElement_differs_noncanonical :
    (Lua.run 20 bucket_redis_removeElement ["b"] ["x"] sPadded).1 "b_len" =
      some (.str (asciiBytes "6")) ∧
    (bucketRemove "b" "x" sPadded).1 "b_len" = some (.str (asciiBytes "007")) :=
  ⟨by decide +kernel, by decide +kernel⟩

/-- the first key of `equals` holds a string. -/
def sEqWrong : Store := storeOf [("a", .str [])]

/-- without the type hypothesis of `lua_equals_eq`: miniredis' `pcall` gives nil and `vals1[1]`
    raises; the Redis-style model reads an empty table on both sides and answers true. -/
theorem lua_equals_differs_wrongtype :
    (Lua.run 20 bucket_redis_equals ["a", "c"] [decimal 1] sEqWrong).2 =
      .error "attempt to index a non-table object(nil)" ∧
    (bucketEqualsScript "a" "c" 1 sEqWrong).2 = some true :=
  ⟨by luaA_outcome_eval, by decide +kernel⟩

/-! ## non-vacuity: the theorems on concrete stores, the results checked by evaluation -/

/-- bucket `b`: one free slot (`""`), counter 1, size 2. -/
def sOne : Store := storeOf [("b", .list ["x", ""]), ("b_len", .str (asciiBytes "1"))]
def bOne : BucketRedis String := ⟨2, ["x", ""], 1⟩

theorem sOne_abs : absBucket sOne "b" 2 = some bOne := by decide +kernel

example : Lua.run 20 bucket_redis_isFreeScript ["b"] [decimal 2] sOne = (sOne, .reply (.int 1)) :=
  lua_isFreeScript_abs sOne "b" 2 bOne 20 (by decide) (by decide) sOne_abs (by decide)
example : (Lua.run 20 bucket_redis_isFreeScript ["b"] [decimal 2] sOne).2 = .reply (.int 1) := by luaA_outcome_eval
example : (bucketIsFreeScript "b" 2 sOne).2 = some true := by decide +kernel

example : absBucket (Lua.run 20 bucket_redis_addElement ["b"] ["y", decimal 2] sOne).1 "b" 2 =
    some ⟨2, ["x", "y"], 2⟩ :=
  lua_addElement_abs sOne "b" 2 bOne "y" 20 (by decide) (by decide) (by decide) sOne_abs (by decide)
    (by decide)
example : (Lua.run 20 bucket_redis_addElement ["b"] ["y", decimal 2] sOne).2 = .reply (.int 1) := by luaA_outcome_eval
example : (Lua.run 20 bucket_redis_addElement ["b"] ["y", decimal 2] sOne).1 "b" =
    some (.list ["x", "y"]) := by decide +kernel
example : (Lua.run 20 bucket_redis_addElement ["b"] ["y", decimal 2] sOne).1 "b_len" =
    some (.str (asciiBytes "2")) := by decide +kernel
/-- a full bucket: the script answers false (a nil reply). -/
example : (Lua.run 20 bucket_redis_addElement ["b"] ["y", decimal 1] sOne).2 = .reply .nil := by luaA_outcome_eval

example : ∃ st', Lua.run 20 bucket_redis_removeElement ["b"] ["x"] sOne = (st', .reply (.int 1)) ∧
    absBucket st' "b" 2 = some ⟨2, ["", ""], 0⟩ :=
  lua_removeElement_abs sOne "b" 2 bOne "x" 20 (by decide) sOne_abs (by decide) (by decide)
    (by decide) (by decide)
example : (Lua.run 20 bucket_redis_removeElement ["b"] ["x"] sOne).1 "b" = some (.list ["", ""]) := by
  decide +kernel
/-- an absent element: the script aborts with the message of `removeError`, nothing is written. -/
example : (Lua.run 20 bucket_redis_removeElement ["b"] ["z"] sOne).2 =
    .error "Lua redis lib command arguments must be strings or integers" := by luaA_outcome_eval
example : (Lua.run 20 bucket_redis_removeElement ["b"] ["z"] sOne).2 =
    boolOutcome (removeError sOne "b") (bucketRemove "b" "z" sOne).2 :=
  congrArg Prod.snd (lua_removeElement_eq sOne "b" "z" 20 (by decide)
    (fun l hl => by
      have : sOne "b" = some (.list ["x", ""]) := by decide +kernel
      rw [this] at hl; simp only [Option.some.injEq, Val.list.injEq] at hl; subst hl; decide)
    (fun c l _ hl hc => by
      have : sOne "b" = some (.list ["x", ""]) := by decide +kernel
      rw [this] at hl; simp only [Option.some.injEq, Val.list.injEq] at hl; subst hl
      exact absurd hc (by decide)))

example : (Lua.run 20 bucket_redis_exists ["b"] [""] sOne).2 = .reply (.int 1) := by luaA_outcome_eval
example : (Lua.run 20 bucket_redis_exists ["b"] ["z"] sOne).2 = .reply (.int (-1)) := by luaA_outcome_eval
example : (Lua.run 20 bucket_redis_exists ["b"] ["z"] sWrong).2 = .reply .nil := by luaA_outcome_eval
example : Lua.run 20 bucket_redis_exists ["b"] ["z"] sWrong =
    ((bucketLookupScript "b" "z" sWrong).1, lookupOutcome (bucketLookupScript "b" "z" sWrong).2) :=
  lua_exists_eq sWrong "b" "z" 20 (by decide)
example : ∃ p : Int, Lua.run 20 bucket_redis_exists ["b"] ["x"] sOne = (sOne, .reply (.int p)) ∧
    decide (p > -1) = true :=
  lua_exists_abs sOne "b" 2 bOne "x" 20 (by decide) sOne_abs

/-- two bucket lists that agree on the first two slots and differ in the third. -/
def sTwo : Store := storeOf [("a", .list ["x", "y", "z"]), ("c", .list ["x", "y"])]

example : Lua.run 40 bucket_redis_equals ["a", "c"] [decimal 2] sTwo =
    (sTwo, boolOutcome "" (Equals.RBucket.equals ⟨2, ["x", "y", "z"]⟩ ⟨2, ["x", "y"]⟩)) :=
  lua_equals_eq_RBucket sTwo "a" "c" 2 40 _ _ (by decide) (by decide) (by decide +kernel)
    (by decide +kernel) (Or.inl (by decide))
example : (Lua.run 40 bucket_redis_equals ["a", "c"] [decimal 2] sTwo).2 = .reply (.int 1) := by luaA_outcome_eval
example : (Lua.run 40 bucket_redis_equals ["a", "c"] [decimal 3] sTwo).2 = .reply .nil := by luaA_outcome_eval
example : Equals.RBucket.equals ⟨3, ["x", "y", "z"]⟩ ⟨3, ["x", "y"]⟩ = some false := by decide
/-- an absent key is an empty list; slots beyond both lists compare equal (`nil ~= nil` is false). -/
example : (Lua.run 40 bucket_redis_equals ["nokey", "nokey2"] [decimal 5] sTwo).2 = .reply (.int 1) := by luaA_outcome_eval

example : Lua.run 40 cuckoo_filter_redis_initCuckooFilterRedis ["k", "k0", "k1", "k2"]
      [decimal 3, decimal 4] sTwo =
    ((cuckooInitScript "k" ["k0", "k1", "k2"] sTwo).1,
      boolOutcome "" (cuckooInitScript "k" ["k0", "k1", "k2"] sTwo).2) :=
  lua_initCuckooFilterRedis_eq sTwo "k" ["k0", "k1", "k2"] 4 40 (by decide) (by decide)
example : (Lua.run 40 cuckoo_filter_redis_initCuckooFilterRedis ["k", "k0", "k1", "k2"]
    [decimal 3, decimal 4] sTwo).2 = .reply (.int 1) := by luaA_outcome_eval
example : (Lua.run 40 cuckoo_filter_redis_initCuckooFilterRedis ["k", "k0", "k1", "k2"]
    [decimal 3, decimal 4] sTwo).1 "k" = some (.list ["k2", "k1", "k0"]) := by decide +kernel
/-- an existing list at the key is deleted first. -/
example : (Lua.run 40 cuckoo_filter_redis_initCuckooFilterRedis ["a", "k0"]
    [decimal 1, decimal 4] sTwo).1 "a" = some (.list ["k0"]) := by decide +kernel
/-- with the Go key names (`cuckooBucketKey`). -/
example : (Lua.run 40 cuckoo_filter_redis_initCuckooFilterRedis
      ("k" :: (List.range 2).map (cuckooBucketKey "k")) [decimal 2, decimal 4] Store.empty).1 "k" =
    some (.list ["cuckoo_k_bucket_1", "cuckoo_k_bucket_0"]) := by
  rw [lua_initCuckooFilterRedis_keys Store.empty ⟨2, 4, 0, 0, "k", "m"⟩ 40 (by decide) (by decide)
    (by decide)]
  decide +kernel

end Gostatix.LuaBucket
