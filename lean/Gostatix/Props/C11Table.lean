/-
  C11 (binary WriteTo / ReadFrom) — the field sequences of the Go methods, decided over the table
  REGENERATED from /repo's current sources on every run (`Gostatix/Generated/LayoutTable.lean`,
  extract/layout.go), and compared with the sequences `Model/Codec.lean`'s `enc…` / `dec…` use.

  The codecs of Model/Codec.lean are hand transcriptions.  What they silently assume, and what is
  proved here by `decide` about the CURRENT Go source as the syntactic extractor reads it:
    * `C11_layout_understood`  every stream operation of every WriteTo / writeTo / ReadFrom /
      readFrom had a shape the extractor reads (nothing `unknown`: no conditional write, no use of
      the stream outside `binary.Write/Read`, `stream.Write`, `io.ReadFull`, nested calls), and the
      table covers the seven in-memory types (BitSetRedis' two stubs touch no stream);
    * `C11_one_byte_order`     every `binary.Write` / `binary.Read` names `binary.BigEndian`
      (`encU64` / `beVal` are big-endian: `C11_lean_is_big_endian`, concrete);
    * `C11_write_read_agree`   for each type the write sequence and the read sequence have the same
      length and are pairwise alike: a `uint64` written is a `uint64` read (same for `float64`,
      `[]uint64`, `[]uint8`), raw bytes written (`stream.Write([]byte)`) are raw bytes read
      (`io.ReadFull` into a `[]byte`), a nested `writeTo` of structure T meets a nested `readFrom`
      of T, and the loop depths agree.  The one pairing that is not by name is listed in
      `nestedTarget`;
    * `C11_layout_*`           that common sequence is the one written next to the theorem, which is
      the sequence of `encU64` / `decU64` / … calls of the Lean codec (comment on each list).
  These are statements about the regenerated table.  The link from the expected lists to the Lean
  `enc…` / `dec…` terms is by reading (the comments) plus CHECKS ON CONCRETE DATA
  (`C11_unit_trace_*`): on one image per format in which every loop runs exactly once, the sizes of
  the reads the Lean decoder actually performs (`Dec.trace`) and the length of the Lean encoding are
  the chunk sizes the Go table prescribes (`unitWidths`).  Not covered: loop BOUNDS (that the row
  loop runs `rows` times, the row has `columns` cells, …) — the table records only that an operation
  is inside a loop; the differential tests and the C11 theorems' `WF` hypotheses cover those.
-/
import Gostatix.Generated.LayoutTable
import Gostatix.Model.Codec
namespace Gostatix.Generated
open Gostatix Gostatix.Codec

/-! ### reading the table -/

def entryOf (typ dir : String) : Option LayoutEntry :=
  layoutTable.find? (fun e => e.typ == typ && e.dir == dir)
def opsOf (typ dir : String) : List StreamOp := ((entryOf typ dir).map (·.ops)).getD []

/-- the structure a nested call's receiver type names: `T` and `*T` name `T`.
    The one pairing that is not by name: `BloomFilter.WriteTo` calls `writeTo` on its field of the
    interface type `IBitSet`, after returning an error unless `isBitSetMem(bloomFilter.filter)`
    (bloom_filter.go:289-291, 302); `ReadFrom` builds a `&BitSetMem{}` (bloom_filter.go:322). -/
def nestedTarget (ty : String) : String :=
  if ty == "IBitSet" then "BitSetMem"
  else match ty.toList with
    | '*' :: r => String.ofList r
    | _ => ty

/-- what a write operation and the read operation that consumes it have in common -/
structure Shape where
  cls : String     -- "bin": binary.Write / binary.Read;  "raw": stream.Write / io.ReadFull;
                   -- "nested": writeTo / readFrom;  "Nested": WriteTo / ReadFrom
  ty : String      -- static type of the value; for nested calls the structure
  depth : Nat      -- number of enclosing loops
  deriving Repr, DecidableEq

def StreamOp.shape (o : StreamOp) : Shape :=
  if o.kind == "binary.Write" || o.kind == "binary.Read" then ⟨"bin", o.ty, o.depth⟩
  else if o.kind == "stream.Write" || o.kind == "io.ReadFull" then ⟨"raw", o.ty, o.depth⟩
  else if o.kind == "nested" && (o.callee == "writeTo" || o.callee == "readFrom") then
    ⟨"nested", nestedTarget o.ty, o.depth⟩
  else if o.kind == "nested" && (o.callee == "WriteTo" || o.callee == "ReadFrom") then
    ⟨"Nested", nestedTarget o.ty, o.depth⟩
  else ⟨"?", o.ty, o.depth⟩

def writeShape (typ : String) : List Shape := (opsOf typ "write").map StreamOp.shape
def readShape (typ : String) : List Shape := (opsOf typ "read").map StreamOp.shape

def u64 (d : Nat) : Shape := ⟨"bin", "uint64", d⟩
def f64 (d : Nat) : Shape := ⟨"bin", "float64", d⟩
def bytes (d : Nat) : Shape := ⟨"raw", "[]byte", d⟩

/-- the in-memory types with a binary image -/
def memTypes : List String :=
  ["BloomFilter", "BitSetMem", "CuckooFilter", "BucketMem", "CountMinSketch", "HyperLogLog", "TopK"]

/-! ## the table was understood, one byte order -/

theorem C11_layout_understood :
    layoutTable.all (fun e => !e.unknown && e.ops.all (fun o => !o.unknown)) = true ∧
    layoutTable.map (fun e => (e.typ, e.method, e.dir)) =
      [("BitSetMem", "readFrom", "read"), ("BitSetMem", "writeTo", "write"),
       ("BitSetRedis", "readFrom", "read"), ("BitSetRedis", "writeTo", "write"),
       ("BloomFilter", "ReadFrom", "read"), ("BloomFilter", "WriteTo", "write"),
       ("BucketMem", "readFrom", "read"), ("BucketMem", "writeTo", "write"),
       ("CountMinSketch", "ReadFrom", "read"), ("CountMinSketch", "WriteTo", "write"),
       ("CuckooFilter", "ReadFrom", "read"), ("CuckooFilter", "WriteTo", "write"),
       ("HyperLogLog", "ReadFrom", "read"), ("HyperLogLog", "WriteTo", "write"),
       ("TopK", "ReadFrom", "read"), ("TopK", "WriteTo", "write")] ∧
    -- bitset_redis.go:238-244: the Redis bit set has no image
    opsOf "BitSetRedis" "write" = [] ∧ opsOf "BitSetRedis" "read" = [] := by decide

/-- every `binary.Write` / `binary.Read` uses `binary.BigEndian` (the other operations move raw bytes
    and have no byte order) -/
theorem C11_one_byte_order :
    layoutTable.all (fun e => e.ops.all (fun o =>
      if o.kind == "binary.Write" || o.kind == "binary.Read" then o.order == "binary.BigEndian"
      else o.order == "")) = true := by decide

/-- concrete: the Lean primitives are big-endian -/
theorem C11_lean_is_big_endian :
    encU64 0x0102030405060708 = [1, 2, 3, 4, 5, 6, 7, 8] ∧ beVal [1, 2, 3, 4, 5, 6, 7, 8] = 0x0102030405060708 := by
  decide

/-! ## write and read sequences agree -/

/-- same length, pairwise the same class / type / structure / loop depth -/
theorem C11_write_read_agree : memTypes.all (fun t => writeShape t == readShape t && !(writeShape t).isEmpty) = true := by
  decide

/-! ## … and are the sequences of the Lean codec -/

/-- `encBloom s = encU64 s.size ++ encU64 s.k ++ [encU64 s.bsSize ++ encU64 s.bsLen ++ encList encU64 s.words]`
    `decBloom`: `decU64` (size), `decU64` (k), then the BitSetMem part.
    Go: two uint64, then `filter.writeTo` / `bitSet.readFrom`. -/
def bloomSeq : List Shape := [u64 0, u64 0, ⟨"nested", "BitSetMem", 0⟩]

/-- the BitSetMem part of `encBloom` / `decBloom`: `encU64 s.bsSize` / `decU64` (bsSize), then the image
    of bits-and-blooms/bitset's `WriteTo` / `ReadFrom` (external library, transcribed in the codec as
    `encU64 s.bsLen ++ encList encU64 s.words` / `decU64`, `replicateM (wordsNeeded bsLen) decU64`). -/
def bitsetSeq : List Shape := [u64 0, ⟨"Nested", "bitset.BitSet", 0⟩]

/-- `encCMS s = encU64 s.rows ++ encU64 s.cols ++ encU64 s.allSum ++ encList (encList encU64) s.matrix`
    `decCMS`: three `decU64`, `replicateM rows (replicateM cols decU64)`.
    Go: three uint64, then inside the row loop ONE `binary.Write` / `binary.Read` of a `[]uint64` (the row:
    `encList encU64` / `replicateM cols decU64` — `encoding/binary` moves a slice of uint64 as its
    elements in order, 8 bytes each, in the given byte order). -/
def cmsSeq : List Shape := [u64 0, u64 0, u64 0, ⟨"bin", "[]uint64", 1⟩]

/-- `encHLL s = encU64 s.m ++ encU64 s.nbp ++ encU64 s.bias ++ s.regs`
    `decHLL`: `decU64` (m), `decU64` (nbp), `decU64` (bias — the float64 travels as its 64-bit pattern),
    `.read m` (the registers, one byte each).
    Go: uint64, uint64, float64, then ONE `binary.Write` / `binary.Read` of the `[]uint8`. -/
def hllSeq : List Shape := [u64 0, u64 0, f64 0, ⟨"bin", "[]uint8", 0⟩]

/-- `encBucket b = encU64 b.size ++ encU64 b.length ++ encList encStr b.elements`,
    `encStr s = encU64 s.length ++ s`;  `decBucket`: `decU64`, `decU64`, `replicateM size decStr`,
    `decStr = decU64 >>= fun n => .read n`.
    Go: two uint64, then per slot a uint64 (the string length) and the raw bytes. -/
def bucketSeq : List Shape := [u64 0, u64 0, u64 1, bytes 1]

/-- `encCuckoo s = encU64 s.n ++ encU64 s.bsize ++ encU64 s.fpl ++ encU64 s.length ++ encU64 s.retries ++
      encList encBucket s.buckets`;  `decCuckoo`: five `decU64`, `replicateM n decBucket`.
    Go: size, bucketSize, fingerPrintLength, length, retries, then per bucket its `writeTo` / `readFrom`. -/
def cuckooSeq : List Shape := [u64 0, u64 0, u64 0, u64 0, u64 0, ⟨"nested", "BucketMem", 1⟩]

/-- `encTopK s = encU64 s.k ++ encU64 s.errorRate ++ encU64 s.accuracy ++ encCMS s.sketch ++
      encU64 s.heap.length ++ encList encHeapElem s.heap`, `encHeapElem e = encStr e.1 ++ encU64 e.2`;
    `decTopK`: `decU64` (k), `decU64` (errorRate bits), `decU64` (accuracy bits), `decCMS`, `decU64`
    (heap length), `replicateM hl decHeapElem`, `decHeapElem = decStr >>= … decU64`.
    Go: uint64, float64, float64, the sketch's `WriteTo` / `ReadFrom`, uint64, then per heap entry
    a uint64 (name length), the raw name bytes, a uint64 (frequency). -/
def topkSeq : List Shape :=
  [u64 0, f64 0, f64 0, ⟨"Nested", "CountMinSketch", 0⟩, u64 0, u64 1, bytes 1, u64 1]

theorem C11_layout_bloom : writeShape "BloomFilter" = bloomSeq ∧ readShape "BloomFilter" = bloomSeq := by decide
theorem C11_layout_bitset : writeShape "BitSetMem" = bitsetSeq ∧ readShape "BitSetMem" = bitsetSeq := by decide
theorem C11_layout_cms : writeShape "CountMinSketch" = cmsSeq ∧ readShape "CountMinSketch" = cmsSeq := by decide
theorem C11_layout_hll : writeShape "HyperLogLog" = hllSeq ∧ readShape "HyperLogLog" = hllSeq := by decide
theorem C11_layout_bucket : writeShape "BucketMem" = bucketSeq ∧ readShape "BucketMem" = bucketSeq := by decide
theorem C11_layout_cuckoo : writeShape "CuckooFilter" = cuckooSeq ∧ readShape "CuckooFilter" = cuckooSeq := by decide
theorem C11_layout_topk : writeShape "TopK" = topkSeq ∧ readShape "TopK" = topkSeq := by decide

/-! ## checks on concrete data: the Lean codec moves the chunks the table prescribes

  `Dec.trace d bs`: the sizes of the reads decoder `d` performs on input `bs`, in order.
  `unitWidths typ dir`: the chunk sizes the Go table prescribes when EVERY LOOP RUNS EXACTLY ONCE,
  nested calls expanded: `uint64` / `float64` = 8; a `[]uint64` row = 8 (one column); a `[]uint8` /
  `[]byte` = 2 (the sample images have 2 registers / 2-byte strings); the external bit set image =
  8 (length) + 8 (one word). -/

def _root_.Gostatix.Dec.trace {α : Type} : Dec α → Bytes → List Nat
  | .ret _, _ => []
  | .err, _ => []
  | .read n k, bs => if bs.length < n then [n] else n :: Dec.trace (k (bs.take n)) (bs.drop n)

def unitWidths : Nat → String → String → List Nat
  | 0, _, _ => []
  | fuel + 1, typ, dir =>
    (opsOf typ dir).flatMap (fun o =>
      if o.kind == "nested" then
        (if nestedTarget o.ty == "bitset.BitSet" then [8, 8] else unitWidths fuel (nestedTarget o.ty) dir)
      else if o.ty == "uint64" || o.ty == "float64" || o.ty == "[]uint64" then [8]
      else if o.ty == "[]uint8" || o.ty == "[]byte" then [2]
      else [0])

def sumN (l : List Nat) : Nat := l.foldl (· + ·) 0

/-- one word of bits -/
def unitBloom : BloomImg := ⟨5, 3, 1, 1, [1]⟩
/-- 1 × 1 matrix -/
def unitCMS : CMSImg := ⟨1, 1, 7, [[9]]⟩
/-- 2 registers -/
def unitHLL : HLLImg := ⟨2, 4, 99, [1, 2]⟩
/-- one slot holding "17" -/
def unitBucket : BucketImg := ⟨1, 1, [[0x31, 0x37]]⟩
/-- one bucket -/
def unitCuckoo : CuckooImg := ⟨1, 1, 2, 1, 500, [unitBucket]⟩
/-- one heap entry ("ab", 3) -/
def unitTopK : TopKImg := ⟨1, 11, 12, unitCMS, [([0x61, 0x62], 3)]⟩

theorem C11_unit_trace_bloom :
    Dec.trace decBloom (encBloom unitBloom) = unitWidths 3 "BloomFilter" "read" ∧
    (encBloom unitBloom).length = sumN (unitWidths 3 "BloomFilter" "write") ∧
    unitWidths 3 "BloomFilter" "read" = [8, 8, 8, 8, 8] := by decide +kernel

theorem C11_unit_trace_cms :
    Dec.trace decCMS (encCMS unitCMS) = unitWidths 3 "CountMinSketch" "read" ∧
    (encCMS unitCMS).length = sumN (unitWidths 3 "CountMinSketch" "write") ∧
    unitWidths 3 "CountMinSketch" "read" = [8, 8, 8, 8] := by decide +kernel

theorem C11_unit_trace_hll :
    Dec.trace decHLL (encHLL unitHLL) = unitWidths 3 "HyperLogLog" "read" ∧
    (encHLL unitHLL).length = sumN (unitWidths 3 "HyperLogLog" "write") ∧
    unitWidths 3 "HyperLogLog" "read" = [8, 8, 8, 2] := by decide +kernel

theorem C11_unit_trace_bucket :
    Dec.trace decBucket (encBucket unitBucket) = unitWidths 3 "BucketMem" "read" ∧
    (encBucket unitBucket).length = sumN (unitWidths 3 "BucketMem" "write") ∧
    unitWidths 3 "BucketMem" "read" = [8, 8, 8, 2] := by decide +kernel

theorem C11_unit_trace_cuckoo :
    Dec.trace decCuckoo (encCuckoo unitCuckoo) = unitWidths 3 "CuckooFilter" "read" ∧
    (encCuckoo unitCuckoo).length = sumN (unitWidths 3 "CuckooFilter" "write") ∧
    unitWidths 3 "CuckooFilter" "read" = [8, 8, 8, 8, 8, 8, 8, 8, 2] := by decide +kernel

theorem C11_unit_trace_topk :
    Dec.trace decTopK (encTopK unitTopK) = unitWidths 3 "TopK" "read" ∧
    (encTopK unitTopK).length = sumN (unitWidths 3 "TopK" "write") ∧
    unitWidths 3 "TopK" "read" = [8, 8, 8, 8, 8, 8, 8, 8, 8, 2, 8] := by decide +kernel

/-- the decoders accept these images and return them (so the traces above are traces of successful runs) -/
theorem C11_unit_images_decode :
    Dec.run decBloom (encBloom unitBloom) = some (unitBloom, []) ∧
    Dec.run decCMS (encCMS unitCMS) = some (unitCMS, []) ∧
    Dec.run decHLL (encHLL unitHLL) = some (unitHLL, []) ∧
    Dec.run decCuckoo (encCuckoo unitCuckoo) = some (unitCuckoo, []) ∧
    Dec.run decTopK (encTopK unitTopK) = some (unitTopK, []) := by decide +kernel

end Gostatix.Generated
