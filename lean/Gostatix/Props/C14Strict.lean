/-
  C14Strict — property C14 ("a failed cuckoo insert is signalled and, if non-destructive, changes
  nothing") WITHOUT totalised accesses.

  BACKGROUND.  `Cuckoo.insert` (Model/Cuckoo.lean) reads buckets with `bucketAt bs i = bs.getD i
  default`, slots with `getD i emp` and writes with `modAt` / `List.set`: an index that does not
  exist yields a default value resp. a no-op.  That is why `C14_rollback_exact` (Props/C14.lean)
  has no hypotheses at all.  The Go code is not total there:
    * in memory (cuckoo_filter.go / bucket_mem.go): `cuckooFilter.buckets[i]` and
      `bucket.elements[index]` are slice index expressions — out of range they PANIC; `add` calls
      `set(uint64(nextSlot()), e)` and `nextSlot()` is -1 when no slot is empty — PANIC as well;
    * on Redis (cuckoo_filter_redis.go / bucket_redis.go): `cuckooFilter.buckets[key]` is a map of
      `*BucketRedis`; a key that was never created yields a nil handle and `nil.isFree()` reads
      `bucket.key` — PANIC (nil dereference).  A slot number that does not exist in the list makes
      `LINDEX` answer nil (go-redis: error `redis.Nil`) and `LSET` answer `ERR index out of range`;
      `Insert` DROPS both errors (`prev, _ := …at(i)`, the result of `set` is not looked at), so
      there the model's defaults (`""`, no-op) happen to be what the Go code computes — but it is a
      silently failed command, and the strict version below flags it all the same.

  WHAT IS DEFINED
    * `BucketMem.strictOps emp`, `BucketRedis.strictOps emp` : `get?` / `set?` / `add?` — the
      bucket primitives used by `Insert`, failing (`none`) exactly where Go panics resp. where a
      Redis command fails;
    * `Cuckoo.insertS` (with `kickS`, `rollbackS`; Proofs/C14Strict.lean): `Insert` re-defined on
      `bs[i]?` and the strict primitives, same control flow and order of accesses as `insert`;
    * `Cuckoo.InRange c alt i1 i2 slots`: `0 < n`, `0 < bsize`, `i1 < n`, `i2 < n`,
      `alt j f < n` for `j < n`, every drawn slot `< bsize`;
    * `Cuckoo.WalkInv` — the invariant of the walk: table of walk shape (`n` buckets, a bucket
      without room has exactly `bsize` slots, a bucket with room is well-formed), carried position an
      existing bucket without room, every log entry addresses an existing slot (`EntryIn`).

  WHAT IS PROVED (in-memory filter in `Gostatix.Cuckoo.Mem`, Redis-backed one in
  `Gostatix.Cuckoo.Redis`; arbitrary fingerprint type, arbitrary `alt`, EVERY retry count, EVERY
  random stream, EVERY inserted fingerprint — the empty one included, no `fp ≠ emp` anywhere)
    * `C14_walk_invariant_init / _round / _replay`: the invariant holds when the walk starts, one
      round keeps it and makes only in-range accesses (bucket read, slot read, slot write, the
      alternate bucket), one replay step keeps "every remaining entry addresses an existing slot".
    * `C14_walk_in_range`: for the whole walk of any length `r`: every log entry addresses an
      existing slot of an existing bucket, the bucket tested for room exists; when the walk fails
      the same holds in the table the roll-back replay starts from.
    * `C14_strict_agrees`: `WF` + `InRange` ⇒ `insertS … = some (insert …)`: the strict run never
      fails and is the totalised `insert` (both modes, all three outcomes).
    * `C14_rollback_exact_strict`, `C14_failure_signalled_strict` (hypotheses `WF`, `InRange`):
      C14 on the strict version.  The latter also drops `fp ≠ emp` from `C14_failure_signalled` and
      adds `slot < bsize` / `alt … < n` for every log entry.
    * `C14_rollback_exact_in_range`: on `WF` + `InRange` the strict statement and the
      hypothesis-free `C14_rollback_exact` are the same statement (`insertS … = some (.full c')` ⇔
      `insert … = .full c'`); outside `InRange` the latter speaks about runs the Go code does not have.
    * the hypotheses are needed (`decide`): `C14_strict_needs_slot_range` (slot = bsize),
      `C14_strict_needs_wf` (a bucket with fewer slots than `bsize`), `C14_strict_needs_bucket_range`
      (candidate bucket = n), `C14_strict_needs_alt_range`, `C14_strict_add_needs_wf` (in memory:
      a bucket whose cached length claims room but that has no empty slot: `add` panics); in each
      the strict run is `none` (Go: panic / failed Redis command) while the model returns a value
      computed with a default.

  WHERE `InRange` COMES FROM IN THE CODE
    * `i1`, `i2`: `getPositions` computes `hash % size` and `(i1 ^ hash(fp)) % size`:
      `InRange_of_positions` — for EVERY byte string (also when the fingerprint length check fails:
      `("", 0, 0)`) the positions are `< n` as soon as `0 < n`;
    * `alt`: `(index ^ getHash(prev)) % uint64(len(buckets))` = `altOf`, `< n` for `0 < n`
      (`altOf_lt`);  `0 < n`: otherwise `hash % 0` panics before anything is addressed;
    * the drawn slot: the Go code draws `uint64(math.Ceil(rand.Float64() * float64(getLength()-1)))`
      on a bucket without room (`getLength() = bsize`), which lies in `[0, bsize-1]` PROVIDED
      `rand.Float64()` returns a value in `[0, 1)` (the documented contract of math/rand) and
      `bsize ≥ 1` (for `bsize = 0` the `uint64` subtraction wraps around).  (The task description
      speaks of `rand.Intn(bucketSize)`, whose contract `[0, n)` gives the same bound.)  This is an
      ASSUMPTION about math/rand and float64 rounding, recorded here, not proved.

  WHAT IS NOT PROVED
    * that the Go code is `insertS`: `insertS` is a transcription by hand, like `insert`; the
      differential driver runs `insert`, and by `C14_strict_agrees` both agree on everything the
      driver can produce.
    * `isFree` / `getLength` read a cached counter (in memory a field, on Redis the `_len` key), no
      index is involved; a missing `_len` key is outside this model (Model/RedisCuckoo.lean).
    * the random stream is read with `slots.headD 0` also in the strict run (a draw, not a memory
      access; `0 < bsize` makes 0 a legal draw).  `C14_stream_default_unused`: with at least
      `retries` draws in the stream that default is never looked at either.
-/
import Gostatix.Proofs.C14Strict
import Gostatix.Proofs.C02Concrete
import Gostatix.Props.C14
namespace Gostatix

/-! ## the strict primitives -/

namespace BucketMem
variable {F : Type} [DecidableEq F]

/-- `at(index)`: `bucket.elements[index]` — panics out of range -/
def get? (b : BucketMem F) (i : Nat) : Option F := b.elements[i]?
/-- `set(index, e)`: `bucket.elements[index] = e` — panics out of range -/
def set? (b : BucketMem F) (i : Nat) (e : F) : Option (BucketMem F) :=
  if i < b.elements.length then some (b.set i e) else none
/-- `add(e)`: refuses `""` and a bucket without room; else `set(uint64(nextSlot()), e)` where
    `nextSlot() = indexOf("")` is -1 when no slot is empty — then the index expression panics -/
def add? (emp : F) (b : BucketMem F) (e : F) : Option (BucketMem F) :=
  if e = emp ∨ ¬ b.isFree then some b
  else if b.elements.idxOf emp < b.elements.length then
    some { b with elements := b.elements.set (b.elements.idxOf emp) e, length := b.length + 1 }
  else none

def strictOps (emp : F) : StrictOps (BucketMem F) F := ⟨get?, set?, add? emp⟩

theorem strictLawful (emp : F) [Inhabited (BucketMem F)] :
    Cuckoo.StrictLawful (BucketMem.lawful emp) (strictOps emp) where
  get?_eq := fun b i => by
    show b.elements[i]? = if i < b.elements.length then some (b.elements.getD i emp) else none
    by_cases h : i < b.elements.length
    · simp [h, List.getD_eq_getElem?_getD]
    · simp [h]
  set?_eq := fun b i e => rfl
  add?_ok := fun s b e h hf => by
    obtain ⟨h1, h2, h3⟩ := h
    have hlt : occ emp b.elements < b.elements.length := by
      simp only [ops, isFree, decide_eq_true_eq] at hf; omega
    have hidx := idxOf_lt_of_mem _ _ (mem_emp_of_occ_lt_length emp _ hlt)
    show add? emp b e = some (add emp b e)
    unfold add? add
    by_cases hc : e = emp ∨ ¬ b.isFree = true
    · rw [if_pos hc, if_pos hc]
    · rw [if_neg hc, if_neg hc, if_pos hidx]
  isFree_set := fun b i e => rfl

end BucketMem

namespace BucketRedis
variable {F : Type} [DecidableEq F]

/-- `at(index)`: `LINDEX key index` — nil reply (go-redis error `redis.Nil`) out of range -/
def get? (b : BucketRedis F) (i : Nat) : Option F := b.list[i]?
/-- `set(index, e)`: `LSET key index e` — `ERR index out of range` (or `no such key`) out of range -/
def set? (b : BucketRedis F) (i : Nat) (e : F) : Option (BucketRedis F) :=
  if i < b.list.length then some (b.set i e) else none
/-- `add(e)`: the Lua script positions itself with `LPOS key ''` and falls back to `LPUSH`; none of
    its commands can address a missing slot -/
def add? (emp : F) (b : BucketRedis F) (e : F) : Option (BucketRedis F) := some (add emp b e)

def strictOps (emp : F) : StrictOps (BucketRedis F) F := ⟨get?, set?, add? emp⟩

theorem strictLawful (emp : F) [Inhabited (BucketRedis F)] :
    Cuckoo.StrictLawful (BucketRedis.lawful emp) (strictOps emp) where
  get?_eq := fun b i => by
    show b.list[i]? = if i < b.list.length then some (b.list.getD i emp) else none
    by_cases h : i < b.list.length
    · simp [h, List.getD_eq_getElem?_getD]
    · simp [h]
  set?_eq := fun b i e => rfl
  add?_ok := fun s b e _ _ => rfl
  isFree_set := fun b i e => rfl

end BucketRedis

namespace Cuckoo

/-! ## where `InRange` comes from -/

/-- `getPositions` and the alternate-bucket formula of the Go code produce in-range bucket indices
    for EVERY byte string, every fingerprint length (valid or not) and every table with `0 < n`;
    what remains to be assumed is `0 < bsize` and the range of the drawn slots. -/
theorem InRange_of_positions {B : Type} (c : Cuckoo B) (data : List UInt8) (slots : List Nat)
    (hn : 0 < c.n) (hb : 0 < c.bsize) (hsl : ∀ x ∈ slots, x < c.bsize) :
    InRange c (altOf hashStr c.n) (positions c.n c.fpl data).2.1 (positions c.n c.fpl data).2.2 slots := by
  refine ⟨hn, hb, ?_, ?_, fun j f _ => altOf_lt hashStr c.n hn j f, hsl⟩
  · rcases Nat.lt_or_ge (toString (Murmur.getHash data)).length c.fpl with h | h
    · rw [positions_of_gt c.n c.fpl data h]; exact hn
    · exact positions_i1_lt c.n c.fpl data hn h
  · rcases Nat.lt_or_ge (toString (Murmur.getHash data)).length c.fpl with h | h
    · rw [positions_of_gt c.n c.fpl data h]; exact hn
    · exact positions_i2_lt c.n c.fpl data hn h

/-- the default of the random stream (`slots.headD 0`) is never looked at when the stream holds at
    least `r` draws: the walk only depends on the first `r` draws -/
theorem C14_stream_default_unused {B F : Type} [Inhabited B] (o : BucketOps B F) (alt : Nat → F → Nat) :
    ∀ (r : Nat) (bs : List B) (idx : Nat) (cur : F) (slots ext : List Nat)
      (log : List (F × Nat × Nat)), r ≤ slots.length →
      kick o alt r bs idx cur (slots ++ ext) log = kick o alt r bs idx cur slots log := by
  intro r
  induction r with
  | zero => intro bs idx cur slots ext log _; rfl
  | succ r ih =>
    intro bs idx cur slots ext log h
    cases slots with
    | nil => simp at h
    | cons a as =>
      have hr : r ≤ as.length := by simpa using h
      show kick o alt (r+1) bs idx cur (a :: (as ++ ext)) log = kick o alt (r+1) bs idx cur (a :: as) log
      unfold kick
      simp only [List.headD_cons, List.tail_cons]
      rw [ih _ _ _ as ext _ hr]
      rfl

end Cuckoo

/-! ## in-memory filter -/
namespace Cuckoo.Mem

section
variable {F : Type} [DecidableEq F] [Inhabited (BucketMem F)]

theorem walkShape_of_wf (emp : F) (c : Cuckoo (BucketMem F)) (h : WF emp c) :
    WalkShape (BucketMem.lawful emp) c.n c.bsize c.buckets :=
  WalkShape.of_wf ((wf_iff emp c).mp h).bs

/-- **the invariant holds when the walk starts**: well-formed filter, in-range call, both
    candidate buckets without room -/
theorem C14_walk_invariant_init (emp : F) (alt : Nat → F → Nat) (c : Cuckoo (BucketMem F))
    (i1 i2 : Nat) (side : Bool) (slots : List Nat) (hwf : WF emp c) (hr : InRange c alt i1 i2 slots)
    (hf1 : (bucketAt c.buckets i1).isFree = false) (hf2 : (bucketAt c.buckets i2).isFree = false) :
    WalkInv (BucketMem.lawful emp) c.n c.bsize c.buckets (if side then i1 else i2) [] := by
  refine ⟨walkShape_of_wf emp c hwf, ?_, ?_, by simp⟩
  · cases side
    · simpa using hr.i2_lt
    · simpa using hr.i1_lt
  · cases side
    · exact hf2
    · exact hf1

/-- **one round of the forward walk keeps the invariant and stays in range**: under the invariant,
    for a drawn slot `< s` and any carried fingerprint `cur`: the bucket `idx` exists, the slot
    exists in it (so `at(slot)` and `set(slot, cur)` are in range), the alternate bucket of the
    displaced fingerprint exists; after the slot write every log entry including the new one
    addresses an existing slot, and if the alternate bucket has no room the invariant holds for
    the next round. -/
theorem C14_walk_invariant_round (emp : F) (alt : Nat → F → Nat) (n s : Nat)
    (hAlt : ∀ j f, j < n → alt j f < n) (bs : List (BucketMem F)) (idx : Nat) (cur : F) (slot : Nat)
    (log : List (F × Nat × Nat)) (hI : WalkInv (BucketMem.lawful emp) n s bs idx log)
    (hslot : slot < s) :
    let prev := (bucketAt bs idx).elements.getD slot emp
    let bs1 := modAt bs idx (fun b => b.set slot cur)
    idx < bs.length ∧ slot < (bucketAt bs idx).elements.length ∧ alt idx prev < bs1.length ∧
    (∀ e ∈ (prev, idx, slot) :: log,
      e.2.1 < bs1.length ∧ e.2.2 < (bucketAt bs1 e.2.1).elements.length) ∧
    ((bucketAt bs1 (alt idx prev)).isFree = false →
      WalkInv (BucketMem.lawful emp) n s bs1 (alt idx prev) ((prev, idx, slot) :: log)) := by
  obtain ⟨a, b, c, _, e, _, g⟩ :=
    walk_round (BucketMem.lawful emp) (BucketMem.strictLawful emp) alt n s hAlt bs idx cur slot log
      hI hslot
  exact ⟨a, b, c, e, g⟩

/-- **one step of the roll-back replay**: if every entry of the log addresses an existing slot,
    the newest one does (so `buckets[e0.2.1].set(e0.2.2, e0.1)` is in range), and after that write
    the remaining entries still do -/
theorem C14_walk_invariant_replay (bs : List (BucketMem F)) (e0 : F × Nat × Nat)
    (log : List (F × Nat × Nat))
    (h : ∀ e ∈ e0 :: log, e.2.1 < bs.length ∧ e.2.2 < (bucketAt bs e.2.1).elements.length) :
    (e0.2.1 < bs.length ∧ e0.2.2 < (bucketAt bs e0.2.1).elements.length) ∧
    ∀ e ∈ log, e.2.1 < (modAt bs e0.2.1 (fun b => b.set e0.2.2 e0.1)).length ∧
      e.2.2 < (bucketAt (modAt bs e0.2.1 (fun b => b.set e0.2.2 e0.1)) e.2.1).elements.length :=
  rollback_round (o := BucketMem.ops e0.1) (BucketMem.lawful e0.1) bs e0 log h

/-- **every access of the walk is in range** — forward walk and roll-back replay, for every retry
    count `r`, every start bucket without room, every carried fingerprint, every random stream with
    draws `< bsize`.  The log IS the trace: round `e = (prev, idx, slot)` read and overwrote slot
    `slot` of bucket `idx` and then addressed bucket `alt idx prev` (`isFree`, `add`); the replay
    writes slot `e.2.2` of bucket `e.2.1` for every entry.  No write of the walk changes the number
    of buckets or of slots, so "in the initial table" is also "at the time of the access". -/
theorem C14_walk_in_range (emp : F) (alt : Nat → F → Nat) (c : Cuckoo (BucketMem F))
    (r idx : Nat) (cur : F) (slots : List Nat)
    (bs : List (BucketMem F)) (log : List (F × Nat × Nat)) (found : Bool)
    (hwf : WF emp c) (hAlt : ∀ j f, j < c.n → alt j f < c.n) (hb : 0 < c.bsize)
    (hsl : ∀ x ∈ slots, x < c.bsize) (hidx : idx < c.n)
    (hfull : (bucketAt c.buckets idx).isFree = false)
    (hk : kick (BucketMem.ops emp) alt r c.buckets idx cur slots [] = (bs, log, found)) :
    (∀ e ∈ log, e.2.1 < c.buckets.length ∧ e.2.2 < (bucketAt c.buckets e.2.1).elements.length ∧
      alt e.2.1 e.1 < c.buckets.length) ∧
    (found = false → log.length = r ∧ bs.length = c.buckets.length ∧
      ∀ e ∈ log, e.2.1 < bs.length ∧ e.2.2 < (bucketAt bs e.2.1).elements.length) := by
  obtain ⟨h1, h2⟩ := kick_in_range (BucketMem.lawful emp) (BucketMem.strictLawful emp) alt c.n c.bsize
    hAlt hb r c.buckets idx cur slots bs log found (walkShape_of_wf emp c hwf) hidx hfull hsl hk
  exact ⟨fun e he => ⟨(h1 e he).1.1, (h1 e he).1.2, (h1 e he).2⟩, h2⟩

/-- **the strict run succeeds and is the totalised `insert`.** -/
theorem C14_strict_agrees (emp : F) (alt : Nat → F → Nat) (c : Cuckoo (BucketMem F))
    (fp : F) (i1 i2 : Nat) (d side : Bool) (slots : List Nat)
    (hwf : WF emp c) (hr : InRange c alt i1 i2 slots) :
    insertS (BucketMem.ops emp) (BucketMem.strictOps emp) alt c fp i1 i2 d side slots
      = some (insert (BucketMem.ops emp) alt c fp i1 i2 d side slots) :=
  insertS_eq (BucketMem.lawful emp) (BucketMem.strictLawful emp) alt c fp i1 i2 d side slots
    (walkShape_of_wf emp c hwf) hr

/-- **Rollback is exact, strict version.**  The strict non-destructive insert does not fail to
    run, and when it reports "full" the state is exactly the initial one. -/
theorem C14_rollback_exact_strict (emp : F) (alt : Nat → F → Nat) (c : Cuckoo (BucketMem F))
    (fp : F) (i1 i2 : Nat) (side : Bool) (slots : List Nat)
    (hwf : WF emp c) (hr : InRange c alt i1 i2 slots) :
    insertS (BucketMem.ops emp) (BucketMem.strictOps emp) alt c fp i1 i2 false side slots ≠ none ∧
    ∀ c', insertS (BucketMem.ops emp) (BucketMem.strictOps emp) alt c fp i1 i2 false side slots
        = some (.full c') → c' = c := by
  rw [C14_strict_agrees emp alt c fp i1 i2 false side slots hwf hr]
  refine ⟨by simp, ?_⟩
  intro c' h
  exact C14_rollback_exact emp alt c fp i1 i2 side slots c' (Option.some.inj h)

/-- **Failure is signalled only when no visited bucket had room, strict version** (either mode;
    no `fp ≠ emp`).  If the strict insert reports "full": both candidate buckets had no room, the
    STRICT eviction loop ran all `retries` rounds without failing, and every round `e` overwrote an
    in-range slot (`e.2.2 < bsize`) of an in-range bucket without room and tested an in-range
    bucket without room. -/
theorem C14_failure_signalled_strict (emp : F) (alt : Nat → F → Nat) (c : Cuckoo (BucketMem F))
    (fp : F) (i1 i2 : Nat) (d side : Bool) (slots : List Nat) (c' : Cuckoo (BucketMem F))
    (hwf : WF emp c) (hr : InRange c alt i1 i2 slots)
    (h : insertS (BucketMem.ops emp) (BucketMem.strictOps emp) alt c fp i1 i2 d side slots
      = some (.full c')) :
    (bucketAt c.buckets i1).isFree = false ∧ (bucketAt c.buckets i2).isFree = false ∧
    ∃ bs log, kickS (BucketMem.ops emp) (BucketMem.strictOps emp) alt c.retries c.buckets
        (if side then i1 else i2) fp slots [] = some (bs, log, false) ∧ log.length = c.retries ∧
      ∀ e ∈ log, e.2.1 < c.n ∧ e.2.2 < c.bsize ∧ alt e.2.1 e.1 < c.n ∧
        (bucketAt c.buckets e.2.1).isFree = false ∧
        (bucketAt c.buckets (alt e.2.1 e.1)).isFree = false := by
  rw [C14_strict_agrees emp alt c fp i1 i2 d side slots hwf hr] at h
  have hsh := walkShape_of_wf emp c hwf
  obtain ⟨f1, f2, bs, log, hk, hl, hall⟩ :=
    insert_full_walk (BucketMem.lawful emp) (BucketMem.strictLawful emp) alt c fp i1 i2 d side slots c'
      hsh hr (Option.some.inj h)
  refine ⟨f1, f2, bs, log, ?_, hl, hall⟩
  have hidx : (if side = true then i1 else i2) < c.n := by
    cases side
    · simpa using hr.i2_lt
    · simpa using hr.i1_lt
  have hfull : (BucketMem.ops emp).isFree (bucketAt c.buckets (if side = true then i1 else i2)) = false := by
    cases side
    · simpa using f2
    · simpa using f1
  rw [kickS_eq (BucketMem.lawful emp) (BucketMem.strictLawful emp) alt c.n c.bsize hr.alt_lt
    hr.bsize_pos _ _ _ _ _ _ hsh hidx hfull hr.slots_lt, hk]

/-- **`C14_rollback_exact` is the same statement on the in-range part.**  For a well-formed filter
    and an in-range call "the strict insert reports full with `c'`" and "the totalised insert
    reports full with `c'`" are equivalent, hence `C14_rollback_exact_strict` and the
    hypothesis-free `C14_rollback_exact` say the same there.  Outside `InRange` / `WF` the latter
    also covers runs in which a default was taken, which the Go code does not have
    (`C14_strict_needs_*` below). -/
theorem C14_rollback_exact_in_range (emp : F) (alt : Nat → F → Nat) (c : Cuckoo (BucketMem F))
    (fp : F) (i1 i2 : Nat) (side : Bool) (slots : List Nat) (c' : Cuckoo (BucketMem F))
    (hwf : WF emp c) (hr : InRange c alt i1 i2 slots) :
    (insertS (BucketMem.ops emp) (BucketMem.strictOps emp) alt c fp i1 i2 false side slots
        = some (.full c')
      ↔ insert (BucketMem.ops emp) alt c fp i1 i2 false side slots = .full c') ∧
    (insert (BucketMem.ops emp) alt c fp i1 i2 false side slots = .full c' → c' = c) := by
  rw [C14_strict_agrees emp alt c fp i1 i2 false side slots hwf hr]
  refine ⟨⟨fun h => Option.some.inj h, fun h => by rw [h]⟩, ?_⟩
  intro h
  exact (C14_rollback_exact_strict emp alt c fp i1 i2 side slots hwf hr).2 c'
    (by rw [C14_strict_agrees emp alt c fp i1 i2 false side slots hwf hr, h])

end

/-! ### the hypotheses are needed (in memory): strict run `none` = the Go code panics -/

/-- `alt j f = (j ^^^ f) % 2` -/
def alt2 : Nat → Nat → Nat := fun j f => (j ^^^ f) % 2

/-- slot = bsize.  Go: `buckets[0].at(1)` on `elements` of length 1 — panic `index out of range [1]
    with length 1`.  Model: reads the default `0`, the write is a no-op and the walk goes on; the
    non-destructive insert "fails" with the initial state; in the destructive run whose SECOND draw
    is out of range the fingerprint 5 displaced in round 1 silently vanishes (the write of round 2
    that should have stored it was a no-op). -/
theorem C14_strict_needs_slot_range :
    insertS (BucketMem.ops 0) (BucketMem.strictOps 0) alt2 exFull 9 0 1 false true [1, 0] = none ∧
    insert (BucketMem.ops 0) alt2 exFull 9 0 1 false true [1, 0] = .full exFull ∧
    -- and later in the walk (second round)
    insertS (BucketMem.ops 0) (BucketMem.strictOps 0) alt2 exFull 9 0 1 true true [0, 1] = none ∧
    insert (BucketMem.ops 0) alt2 exFull 9 0 1 true true [0, 1]
      = .full ⟨2, 1, 0, 2, [⟨1, [9], 1⟩, ⟨1, [7], 1⟩], 2⟩ := by decide

/-- a state that is not well-formed: bucket 1 claims to be full (`length = size = 1`) but has no
    slot.  All arguments are in range.  Go: `buckets[1].at(0)` panics; model: default. -/
def exShort : Cuckoo (BucketMem Nat) := ⟨2, 1, 0, 2, [⟨1, [5], 1⟩, ⟨1, [], 1⟩], 2⟩

theorem C14_strict_needs_wf :
    InRange exShort alt2 0 1 [0, 0] ∧
    insertS (BucketMem.ops 0) (BucketMem.strictOps 0) alt2 exShort 9 0 1 false true [0, 0] = none ∧
    insert (BucketMem.ops 0) alt2 exShort 9 0 1 false true [0, 0] = .full exShort ∧
    insert (BucketMem.ops 0) alt2 exShort 9 0 1 true true [0, 0]
      = .full ⟨2, 1, 0, 2, [⟨1, [9], 1⟩, ⟨1, [], 1⟩], 2⟩ := by
  refine ⟨⟨by decide, by decide, by decide, by decide, ?_, by decide⟩, by decide, by decide, by decide⟩
  intro j f _; exact Nat.mod_lt _ (by decide)

/-- candidate bucket = n.  Go: `cuckooFilter.buckets[2]` on a slice of length 2 panics; the model
    reads the default bucket `⟨0, [], 0⟩` (no room) and carries on. -/
theorem C14_strict_needs_bucket_range :
    insertS (BucketMem.ops 0) (BucketMem.strictOps 0) alt2 exFull 9 0 2 false true [0, 0] = none ∧
    insert (BucketMem.ops 0) alt2 exFull 9 0 2 false true [0, 0] = .full exFull ∧
    insertS (BucketMem.ops 0) (BucketMem.strictOps 0) alt2 exFull 9 2 0 false true [0, 0] = none ∧
    insert (BucketMem.ops 0) alt2 exFull 9 2 0 false true [0, 0] = .full exFull := by decide

/-- an alternate-bucket map that leaves the table (`alt j f = j + 2`): Go would index
    `buckets[2]`; the model tests the default bucket for room and continues from it. -/
theorem C14_strict_needs_alt_range :
    insertS (BucketMem.ops 0) (BucketMem.strictOps 0) (fun j _ => j + 2) exFull 9 0 1 false true [0, 0]
      = none ∧
    insert (BucketMem.ops 0) (fun j _ => j + 2) exFull 9 0 1 false true [0, 0] = .full exFull := by
  decide

/-- in memory `add` itself has a hidden access: a bucket whose cached `length` (0) claims room
    although no slot is empty.  Go: `set(uint64(-1), 9)` panics; the model's `List.set` at
    `idxOf = length` is a no-op, `length` is bumped and the insert is acknowledged with nothing
    stored. -/
theorem C14_strict_add_needs_wf :
    let c : Cuckoo (BucketMem Nat) := ⟨2, 1, 0, 2, [⟨1, [5], 0⟩, ⟨1, [7], 1⟩], 1⟩
    InRange c alt2 0 1 [0, 0] ∧
    insertS (BucketMem.ops 0) (BucketMem.strictOps 0) alt2 c 9 0 1 false true [0, 0] = none ∧
    insert (BucketMem.ops 0) alt2 c 9 0 1 false true [0, 0]
      = .ok ⟨2, 1, 0, 2, [⟨1, [5], 1⟩, ⟨1, [7], 1⟩], 2⟩ := by
  refine ⟨⟨by decide, by decide, by decide, by decide, ?_, by decide⟩, by decide, by decide⟩
  intro j f _; exact Nat.mod_lt _ (by decide)

/-! ### non-vacuity (in memory) -/

theorem exFull_wf : WF 0 exFull := by
  refine ⟨rfl, ?_, ?_⟩
  · intro b hb
    simp only [exFull, List.mem_cons, List.not_mem_nil, or_false] at hb
    rcases hb with rfl | rfl <;> decide
  · decide

theorem exFull_inRange : InRange exFull alt2 0 1 [0, 0] :=
  ⟨by decide, by decide, by decide, by decide, fun j f _ => Nat.mod_lt _ (by decide), by decide⟩

/-- the strict non-destructive insert into the full two-bucket table runs, fails, restores -/
example : insertS (BucketMem.ops 0) (BucketMem.strictOps 0) alt2 exFull 9 0 1 false true [0, 0]
    = some (.full exFull) := by decide

example : insertS (BucketMem.ops 0) (BucketMem.strictOps 0) alt2 exFull 9 0 1 false true [0, 0]
    = some (insert (BucketMem.ops 0) alt2 exFull 9 0 1 false true [0, 0]) :=
  C14_strict_agrees 0 alt2 exFull 9 0 1 false true [0, 0] exFull_wf exFull_inRange

/-- four buckets of two slots, all full; `alt j f = (j ^^^ f) % 4`; three retries with the draws
    1, 0, 1: the walk visits buckets 1, 2, 0 -/
def exFour : Cuckoo (BucketMem Nat) :=
  ⟨4, 2, 0, 3, [⟨2, [5, 6], 2⟩, ⟨2, [7, 3], 2⟩, ⟨2, [2, 9], 2⟩, ⟨2, [4, 8], 2⟩], 8⟩
def alt4 : Nat → Nat → Nat := fun j f => (j ^^^ f) % 4

theorem exFour_wf : WF 0 exFour := by
  refine ⟨rfl, ?_, ?_⟩
  · intro b hb
    simp only [exFour, List.mem_cons, List.not_mem_nil, or_false] at hb
    rcases hb with rfl | rfl | rfl | rfl <;> decide
  · decide

theorem exFour_inRange : InRange exFour alt4 1 3 [1, 0, 1] :=
  ⟨by decide, by decide, by decide, by decide, fun j f _ => Nat.mod_lt _ (by decide), by decide⟩

/-- the strict walk: three rounds, log newest first (displaced fingerprint, bucket, slot) -/
example : kickS (BucketMem.ops 0) (BucketMem.strictOps 0) alt4 3 exFour.buckets 1 11 [1, 0, 1] []
    = some ([⟨2, [5, 2], 2⟩, ⟨2, [7, 11], 2⟩, ⟨2, [3, 9], 2⟩, ⟨2, [4, 8], 2⟩],
        [(6, 0, 1), (2, 2, 0), (3, 1, 1)], false) := by decide

/-- non-destructive: strict run = `.full` of the initial state; destructive: the displaced 6 is lost -/
example : insertS (BucketMem.ops 0) (BucketMem.strictOps 0) alt4 exFour 11 1 3 false true [1, 0, 1]
    = some (.full exFour) := by decide

example : insertS (BucketMem.ops 0) (BucketMem.strictOps 0) alt4 exFour 11 1 3 true true [1, 0, 1]
    = some (.full ⟨4, 2, 0, 3,
        [⟨2, [5, 2], 2⟩, ⟨2, [7, 11], 2⟩, ⟨2, [3, 9], 2⟩, ⟨2, [4, 8], 2⟩], 8⟩) := by decide

/-- the theorems applied to it -/
example : ∀ c', insertS (BucketMem.ops 0) (BucketMem.strictOps 0) alt4 exFour 11 1 3 false true [1, 0, 1]
    = some (.full c') → c' = exFour :=
  (C14_rollback_exact_strict 0 alt4 exFour 11 1 3 true [1, 0, 1] exFour_wf exFour_inRange).2

example : ∀ e ∈ [(6, 0, 1), (2, 2, 0), (3, 1, 1)],
    e.2.1 < exFour.buckets.length ∧ e.2.2 < (bucketAt exFour.buckets e.2.1).elements.length ∧
      alt4 e.2.1 e.1 < exFour.buckets.length :=
  (C14_walk_in_range 0 alt4 exFour 3 1 11 [1, 0, 1]
    [⟨2, [5, 2], 2⟩, ⟨2, [7, 11], 2⟩, ⟨2, [3, 9], 2⟩, ⟨2, [4, 8], 2⟩] _ false exFour_wf
    (fun j f _ => Nat.mod_lt _ (by decide)) (by decide) (by decide) (by decide) (by decide)
    (by decide)).1

/-- an insert with room (no walk) and one that succeeds after an eviction: strict = model -/
example :
    let c : Cuckoo (BucketMem Nat) :=
      ⟨4, 2, 0, 3, [⟨2, [5, 6], 2⟩, ⟨2, [7, 3], 2⟩, ⟨2, [2, 0], 1⟩, ⟨2, [4, 8], 2⟩], 7⟩
    insertS (BucketMem.ops 0) (BucketMem.strictOps 0) alt4 c 11 1 3 false true [1, 0, 1]
      = some (.ok ⟨4, 2, 0, 3, [⟨2, [5, 6], 2⟩, ⟨2, [7, 11], 2⟩, ⟨2, [2, 3], 2⟩, ⟨2, [4, 8], 2⟩], 8⟩) ∧
    insertS (BucketMem.ops 0) (BucketMem.strictOps 0) alt4 c 11 2 3 false true []
      = some (.ok ⟨4, 2, 0, 3, [⟨2, [5, 6], 2⟩, ⟨2, [7, 3], 2⟩, ⟨2, [2, 11], 2⟩, ⟨2, [4, 8], 2⟩], 8⟩) := by
  decide

/-- `InRange` for a real element of a real table: "a" in a 4 × 2 table with one-digit fingerprints -/
example : InRange exFour (altOf hashStr exFour.n)
    (positions exFour.n exFour.fpl "a".toUTF8.toList).2.1
    (positions exFour.n exFour.fpl "a".toUTF8.toList).2.2 [1, 0, 1] :=
  InRange_of_positions exFour _ _ (by decide) (by decide) (by decide)

end Cuckoo.Mem

/-! ## Redis-backed filter -/
namespace Cuckoo.Redis

section
variable {F : Type} [DecidableEq F] [Inhabited (BucketRedis F)]

theorem walkShape_of_wf (emp : F) (c : Cuckoo (BucketRedis F)) (h : WF emp c) :
    WalkShape (BucketRedis.lawful emp) c.n c.bsize c.buckets :=
  WalkShape.of_wf ((wf_iff emp c).mp h).bs

/-- **the invariant holds when the walk starts** -/
theorem C14_walk_invariant_init (emp : F) (alt : Nat → F → Nat) (c : Cuckoo (BucketRedis F))
    (i1 i2 : Nat) (side : Bool) (slots : List Nat) (hwf : WF emp c) (hr : InRange c alt i1 i2 slots)
    (hf1 : (bucketAt c.buckets i1).isFree = false) (hf2 : (bucketAt c.buckets i2).isFree = false) :
    WalkInv (BucketRedis.lawful emp) c.n c.bsize c.buckets (if side then i1 else i2) [] := by
  refine ⟨walkShape_of_wf emp c hwf, ?_, ?_, by simp⟩
  · cases side
    · simpa using hr.i2_lt
    · simpa using hr.i1_lt
  · cases side
    · exact hf2
    · exact hf1

/-- **one round of the forward walk keeps the invariant and stays in range** (see the in-memory
    version): the list `idx` exists and has an entry `slot` (`LINDEX`, `LSET` succeed), the
    alternate bucket exists. -/
theorem C14_walk_invariant_round (emp : F) (alt : Nat → F → Nat) (n s : Nat)
    (hAlt : ∀ j f, j < n → alt j f < n) (bs : List (BucketRedis F)) (idx : Nat) (cur : F) (slot : Nat)
    (log : List (F × Nat × Nat)) (hI : WalkInv (BucketRedis.lawful emp) n s bs idx log)
    (hslot : slot < s) :
    let prev := (bucketAt bs idx).list.getD slot emp
    let bs1 := modAt bs idx (fun b => b.set slot cur)
    idx < bs.length ∧ slot < (bucketAt bs idx).list.length ∧ alt idx prev < bs1.length ∧
    (∀ e ∈ (prev, idx, slot) :: log,
      e.2.1 < bs1.length ∧ e.2.2 < (bucketAt bs1 e.2.1).list.length) ∧
    ((bucketAt bs1 (alt idx prev)).isFree = false →
      WalkInv (BucketRedis.lawful emp) n s bs1 (alt idx prev) ((prev, idx, slot) :: log)) := by
  obtain ⟨a, b, c, _, e, _, g⟩ :=
    walk_round (BucketRedis.lawful emp) (BucketRedis.strictLawful emp) alt n s hAlt bs idx cur slot log
      hI hslot
  exact ⟨a, b, c, e, g⟩

/-- **one step of the roll-back replay** -/
theorem C14_walk_invariant_replay (bs : List (BucketRedis F)) (e0 : F × Nat × Nat)
    (log : List (F × Nat × Nat))
    (h : ∀ e ∈ e0 :: log, e.2.1 < bs.length ∧ e.2.2 < (bucketAt bs e.2.1).list.length) :
    (e0.2.1 < bs.length ∧ e0.2.2 < (bucketAt bs e0.2.1).list.length) ∧
    ∀ e ∈ log, e.2.1 < (modAt bs e0.2.1 (fun b => b.set e0.2.2 e0.1)).length ∧
      e.2.2 < (bucketAt (modAt bs e0.2.1 (fun b => b.set e0.2.2 e0.1)) e.2.1).list.length :=
  rollback_round (o := BucketRedis.ops e0.1) (BucketRedis.lawful e0.1) bs e0 log h

/-- **every access of the walk is in range** (Redis): every `LINDEX` / `LSET` of the forward walk
    and of the replay addresses an existing entry of an existing list, every bucket handle looked
    up exists.  Note that a well-formed Redis bucket may have FEWER than `bsize` list entries (the
    list grows by `LPUSH`); the walk only touches buckets without room, and those have exactly
    `bsize` entries. -/
theorem C14_walk_in_range (emp : F) (alt : Nat → F → Nat) (c : Cuckoo (BucketRedis F))
    (r idx : Nat) (cur : F) (slots : List Nat)
    (bs : List (BucketRedis F)) (log : List (F × Nat × Nat)) (found : Bool)
    (hwf : WF emp c) (hAlt : ∀ j f, j < c.n → alt j f < c.n) (hb : 0 < c.bsize)
    (hsl : ∀ x ∈ slots, x < c.bsize) (hidx : idx < c.n)
    (hfull : (bucketAt c.buckets idx).isFree = false)
    (hk : kick (BucketRedis.ops emp) alt r c.buckets idx cur slots [] = (bs, log, found)) :
    (∀ e ∈ log, e.2.1 < c.buckets.length ∧ e.2.2 < (bucketAt c.buckets e.2.1).list.length ∧
      alt e.2.1 e.1 < c.buckets.length) ∧
    (found = false → log.length = r ∧ bs.length = c.buckets.length ∧
      ∀ e ∈ log, e.2.1 < bs.length ∧ e.2.2 < (bucketAt bs e.2.1).list.length) := by
  obtain ⟨h1, h2⟩ := kick_in_range (BucketRedis.lawful emp) (BucketRedis.strictLawful emp) alt c.n
    c.bsize hAlt hb r c.buckets idx cur slots bs log found (walkShape_of_wf emp c hwf) hidx hfull hsl hk
  exact ⟨fun e he => ⟨(h1 e he).1.1, (h1 e he).1.2, (h1 e he).2⟩, h2⟩

/-- **the strict run succeeds and is the totalised `insert`.** -/
theorem C14_strict_agrees (emp : F) (alt : Nat → F → Nat) (c : Cuckoo (BucketRedis F))
    (fp : F) (i1 i2 : Nat) (d side : Bool) (slots : List Nat)
    (hwf : WF emp c) (hr : InRange c alt i1 i2 slots) :
    insertS (BucketRedis.ops emp) (BucketRedis.strictOps emp) alt c fp i1 i2 d side slots
      = some (insert (BucketRedis.ops emp) alt c fp i1 i2 d side slots) :=
  insertS_eq (BucketRedis.lawful emp) (BucketRedis.strictLawful emp) alt c fp i1 i2 d side slots
    (walkShape_of_wf emp c hwf) hr

/-- **Rollback is exact, strict version.** -/
theorem C14_rollback_exact_strict (emp : F) (alt : Nat → F → Nat) (c : Cuckoo (BucketRedis F))
    (fp : F) (i1 i2 : Nat) (side : Bool) (slots : List Nat)
    (hwf : WF emp c) (hr : InRange c alt i1 i2 slots) :
    insertS (BucketRedis.ops emp) (BucketRedis.strictOps emp) alt c fp i1 i2 false side slots ≠ none ∧
    ∀ c', insertS (BucketRedis.ops emp) (BucketRedis.strictOps emp) alt c fp i1 i2 false side slots
        = some (.full c') → c' = c := by
  rw [C14_strict_agrees emp alt c fp i1 i2 false side slots hwf hr]
  refine ⟨by simp, ?_⟩
  intro c' h
  exact C14_rollback_exact emp alt c fp i1 i2 side slots c' (Option.some.inj h)

/-- **Failure is signalled only when no visited bucket had room, strict version** (either mode;
    no `fp ≠ emp`). -/
theorem C14_failure_signalled_strict (emp : F) (alt : Nat → F → Nat) (c : Cuckoo (BucketRedis F))
    (fp : F) (i1 i2 : Nat) (d side : Bool) (slots : List Nat) (c' : Cuckoo (BucketRedis F))
    (hwf : WF emp c) (hr : InRange c alt i1 i2 slots)
    (h : insertS (BucketRedis.ops emp) (BucketRedis.strictOps emp) alt c fp i1 i2 d side slots
      = some (.full c')) :
    (bucketAt c.buckets i1).isFree = false ∧ (bucketAt c.buckets i2).isFree = false ∧
    ∃ bs log, kickS (BucketRedis.ops emp) (BucketRedis.strictOps emp) alt c.retries c.buckets
        (if side then i1 else i2) fp slots [] = some (bs, log, false) ∧ log.length = c.retries ∧
      ∀ e ∈ log, e.2.1 < c.n ∧ e.2.2 < c.bsize ∧ alt e.2.1 e.1 < c.n ∧
        (bucketAt c.buckets e.2.1).isFree = false ∧
        (bucketAt c.buckets (alt e.2.1 e.1)).isFree = false := by
  rw [C14_strict_agrees emp alt c fp i1 i2 d side slots hwf hr] at h
  have hsh := walkShape_of_wf emp c hwf
  obtain ⟨f1, f2, bs, log, hk, hl, hall⟩ :=
    insert_full_walk (BucketRedis.lawful emp) (BucketRedis.strictLawful emp) alt c fp i1 i2 d side
      slots c' hsh hr (Option.some.inj h)
  refine ⟨f1, f2, bs, log, ?_, hl, hall⟩
  have hidx : (if side = true then i1 else i2) < c.n := by
    cases side
    · simpa using hr.i2_lt
    · simpa using hr.i1_lt
  have hfull : (BucketRedis.ops emp).isFree (bucketAt c.buckets (if side = true then i1 else i2)) = false := by
    cases side
    · simpa using f2
    · simpa using f1
  rw [kickS_eq (BucketRedis.lawful emp) (BucketRedis.strictLawful emp) alt c.n c.bsize hr.alt_lt
    hr.bsize_pos _ _ _ _ _ _ hsh hidx hfull hr.slots_lt, hk]

/-- **`C14_rollback_exact` is the same statement on the in-range part** (Redis). -/
theorem C14_rollback_exact_in_range (emp : F) (alt : Nat → F → Nat) (c : Cuckoo (BucketRedis F))
    (fp : F) (i1 i2 : Nat) (side : Bool) (slots : List Nat) (c' : Cuckoo (BucketRedis F))
    (hwf : WF emp c) (hr : InRange c alt i1 i2 slots) :
    (insertS (BucketRedis.ops emp) (BucketRedis.strictOps emp) alt c fp i1 i2 false side slots
        = some (.full c')
      ↔ insert (BucketRedis.ops emp) alt c fp i1 i2 false side slots = .full c') ∧
    (insert (BucketRedis.ops emp) alt c fp i1 i2 false side slots = .full c' → c' = c) := by
  rw [C14_strict_agrees emp alt c fp i1 i2 false side slots hwf hr]
  refine ⟨⟨fun h => Option.some.inj h, fun h => by rw [h]⟩, ?_⟩
  intro h
  exact (C14_rollback_exact_strict emp alt c fp i1 i2 side slots hwf hr).2 c'
    (by rw [C14_strict_agrees emp alt c fp i1 i2 false side slots hwf hr, h])

end

/-! ### the hypotheses are needed (Redis): strict run `none` = a failed command or a nil handle -/

def alt2 : Nat → Nat → Nat := fun j f => (j ^^^ f) % 2

/-- two full one-entry lists -/
def exFull : Cuckoo (BucketRedis Nat) := ⟨2, 1, 0, 2, [⟨1, [5], 1⟩, ⟨1, [7], 1⟩], 2⟩

/-- slot = bsize.  Redis: `LINDEX key 1` on a one-entry list answers nil, `LSET key 1 …` answers
    `ERR index out of range`; the Go code drops both errors and goes on with `""` — which is what
    the model computes with its defaults; the strict run flags the failed command. -/
theorem C14_strict_needs_slot_range :
    insertS (BucketRedis.ops 0) (BucketRedis.strictOps 0) alt2 exFull 9 0 1 false true [1, 0] = none ∧
    insert (BucketRedis.ops 0) alt2 exFull 9 0 1 false true [1, 0] = .full exFull := by decide

/-- a state that is not well-formed: the `_len` counter of bucket 1 says 1 (= size, no room) but
    its list is empty (e.g. the list key was deleted behind the filter's back).  All arguments in
    range; `LINDEX key 0` answers nil. -/
def exShort : Cuckoo (BucketRedis Nat) := ⟨2, 1, 0, 2, [⟨1, [5], 1⟩, ⟨1, [], 1⟩], 2⟩

theorem C14_strict_needs_wf :
    InRange exShort alt2 0 1 [0, 0] ∧
    insertS (BucketRedis.ops 0) (BucketRedis.strictOps 0) alt2 exShort 9 0 1 false true [0, 0] = none ∧
    insert (BucketRedis.ops 0) alt2 exShort 9 0 1 false true [0, 0] = .full exShort := by
  refine ⟨⟨by decide, by decide, by decide, by decide, ?_, by decide⟩, by decide, by decide⟩
  intro j f _; exact Nat.mod_lt _ (by decide)

/-- candidate bucket = n.  Go: the map `cuckooFilter.buckets` has no entry for
    `cuckoo_<key>_bucket_2`, the lookup yields a nil `*BucketRedis` and `isFree()` dereferences it:
    panic.  The model reads the default bucket. -/
theorem C14_strict_needs_bucket_range :
    insertS (BucketRedis.ops 0) (BucketRedis.strictOps 0) alt2 exFull 9 0 2 false true [0, 0] = none ∧
    insert (BucketRedis.ops 0) alt2 exFull 9 0 2 false true [0, 0] = .full exFull := by decide

theorem C14_strict_needs_alt_range :
    insertS (BucketRedis.ops 0) (BucketRedis.strictOps 0) (fun j _ => j + 2) exFull 9 0 1 false true [0, 0]
      = none ∧
    insert (BucketRedis.ops 0) (fun j _ => j + 2) exFull 9 0 1 false true [0, 0] = .full exFull := by
  decide

/-! ### non-vacuity (Redis) -/

theorem exFull_wf : WF 0 exFull := by
  refine ⟨rfl, ?_, ?_⟩
  · intro b hb
    simp only [exFull, List.mem_cons, List.not_mem_nil, or_false] at hb
    rcases hb with rfl | rfl <;> decide
  · decide

theorem exFull_inRange : InRange exFull alt2 0 1 [0, 0] :=
  ⟨by decide, by decide, by decide, by decide, fun j f _ => Nat.mod_lt _ (by decide), by decide⟩

example : insertS (BucketRedis.ops 0) (BucketRedis.strictOps 0) alt2 exFull 9 0 1 false true [0, 0]
    = some (.full exFull) := by decide

example : insertS (BucketRedis.ops 0) (BucketRedis.strictOps 0) alt2 exFull 9 0 1 false true [0, 0]
    = some (insert (BucketRedis.ops 0) alt2 exFull 9 0 1 false true [0, 0]) :=
  C14_strict_agrees 0 alt2 exFull 9 0 1 false true [0, 0] exFull_wf exFull_inRange

/-- four buckets of size two: three full lists and one list that is SHORTER than `bsize` (one
    entry, room for one more: well-formed on Redis).  `alt j f = (j ^^^ f) % 4`. -/
def exFour : Cuckoo (BucketRedis Nat) :=
  ⟨4, 2, 0, 3, [⟨2, [5, 6], 2⟩, ⟨2, [7, 3], 2⟩, ⟨2, [2, 9], 2⟩, ⟨2, [4], 1⟩], 7⟩
def alt4 : Nat → Nat → Nat := fun j f => (j ^^^ f) % 4

theorem exFour_wf : WF 0 exFour := by
  refine ⟨rfl, ?_, ?_⟩
  · intro b hb
    simp only [exFour, List.mem_cons, List.not_mem_nil, or_false] at hb
    rcases hb with rfl | rfl | rfl | rfl <;> decide
  · decide

theorem exFour_inRange : InRange exFour alt4 1 2 [1, 0, 1] :=
  ⟨by decide, by decide, by decide, by decide, fun j f _ => Nat.mod_lt _ (by decide), by decide⟩

/-- candidates 1 and 2 are full; the walk (three rounds, buckets 1, 2, 0) never reaches the short
    list 3 and fails; strict run = `.full` of the initial state -/
example : insertS (BucketRedis.ops 0) (BucketRedis.strictOps 0) alt4 exFour 11 1 2 false true [1, 0, 1]
    = some (.full exFour) := by decide

example : kickS (BucketRedis.ops 0) (BucketRedis.strictOps 0) alt4 3 exFour.buckets 1 11 [1, 0, 1] []
    = some ([⟨2, [5, 2], 2⟩, ⟨2, [7, 11], 2⟩, ⟨2, [3, 9], 2⟩, ⟨2, [4], 1⟩],
        [(6, 0, 1), (2, 2, 0), (3, 1, 1)], false) := by decide

example : ∀ c', insertS (BucketRedis.ops 0) (BucketRedis.strictOps 0) alt4 exFour 11 1 2 false true [1, 0, 1]
    = some (.full c') → c' = exFour :=
  (C14_rollback_exact_strict 0 alt4 exFour 11 1 2 true [1, 0, 1] exFour_wf exFour_inRange).2

/-- a walk that ends in the short list (draws `[1, 1, 0]`): 13 displaces 3 (slot 1 of bucket 1),
    whose alternate bucket `(1 ^^^ 3) % 4 = 2` is full; 3 displaces 9 (slot 1 of bucket 2), whose
    alternate bucket `(2 ^^^ 9) % 4 = 3` has room and no hole: `LPUSH` -/
example : insertS (BucketRedis.ops 0) (BucketRedis.strictOps 0) alt4 exFour 13 1 2 false true [1, 1, 0]
    = some (.ok ⟨4, 2, 0, 3, [⟨2, [5, 6], 2⟩, ⟨2, [7, 13], 2⟩, ⟨2, [2, 3], 2⟩, ⟨2, [9, 4], 2⟩], 8⟩) := by
  decide

end Cuckoo.Redis

end Gostatix
