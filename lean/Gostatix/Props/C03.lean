/-
  C03 — the Count-Min estimate never under-counts and is bounded by the stream total.

  Elements are an abstract type `E`; `pos : E → List Nat` is an ARBITRARY position function
  (column of the element in each row) that is well formed for a `rows × cols` sketch (`PosOK`);
  a history is a list of `(element, count)` updates.  The correspondence suite checks that the
  implementation's `getPositions` is the instance `CMS.positionsOf` (see `C03_concrete`).
  Counters are `Nat` (no overflow): the Go counters are uint64, so the statements hold for the
  code as long as `total h < 2^64`.

  Helper lemmas: `Gostatix/Proofs/CMS.lean`.
-/
import Gostatix.Proofs.CMS
namespace Gostatix.CMS

/-! ### definitions used by the statements -/

section defs
variable {E : Type}

/-- the sketch after the updates of history `h`, starting from `s`. -/
def run (pos : E → List Nat) (s : CMS) (h : List (E × Nat)) : CMS :=
  h.foldl (fun s ec => s.update (pos ec.1) ec.2) s

/-- the true frequency of `x` in the history. -/
def trueCount [DecidableEq E] (h : List (E × Nat)) (x : E) : Nat :=
  sumL ((h.filter (·.1 = x)).map (·.2))

/-- the total of all counts in the history. -/
def total (h : List (E × Nat)) : Nat := sumL (h.map (·.2))

/-- every element has one column per row, each in range. -/
def PosOK (pos : E → List Nat) (rows cols : Nat) : Prop :=
  ∀ e, (pos e).length = rows ∧ ∀ p ∈ pos e, p < cols

/-- the matrix of `s` really is `s.rows × s.cols` (true of every sketch built by `new`/`update`/
    `merge`, see `C03_wf_new`, `C03_wf_run`). -/
def WF (s : CMS) : Prop := s.m.length = s.rows ∧ ∀ row ∈ s.m, row.length = s.cols

end defs

section props
variable {E : Type}

/-! ### well-formedness is an invariant -/

theorem C03_wf_new (rows cols : Nat) : WF (CMS.new rows cols) := new_shape rows cols

theorem C03_wf_run (pos : E → List Nat) (s : CMS) (h : List (E × Nat)) (hs : WF s) :
    WF (run pos s h) := by
  have hd := foldl_update_rows pos s h
  have := foldl_update_shape pos s.rows s.cols s hs h
  unfold WF run; rw [hd.1, hd.2]; exact this

theorem C03_run_dims (pos : E → List Nat) (s : CMS) (h : List (E × Nat)) :
    (run pos s h).rows = s.rows ∧ (run pos s h).cols = s.cols := foldl_update_rows pos s h

/-! ### general-state versions (any well-formed start state) -/

/-- From ANY well-formed state: the estimate of `x` grows by at least the true count of `x` in
    the updates applied since (in particular `count` is monotone and never under-counts).
    `1 ≤ rows` is necessary: a sketch without rows estimates 0 (see `C03_lower_needs_rows`). -/
theorem C03_lower_general [DecidableEq E] (pos : E → List Nat) (s : CMS) (h : List (E × Nat))
    (x : E) (hs : WF s) (hrows : 1 ≤ s.rows) (hpos : PosOK pos s.rows s.cols) :
    s.count (pos x) + trueCount h x ≤ (run pos s h).count (pos x) :=
  foldl_count_lower pos s.rows s.cols hrows hpos s hs h x

/-- From ANY well-formed state: the estimate of `x` grows by at most the total of the updates
    applied since. -/
theorem C03_upper_general (pos : E → List Nat) (s : CMS) (h : List (E × Nat)) (x : E)
    (hs : WF s) (hpos : PosOK pos s.rows s.cols) :
    (run pos s h).count (pos x) ≤ s.count (pos x) + total h :=
  foldl_count_upper pos s.rows s.cols hpos s hs h x

/-- From ANY well-formed state: if only `x` is updated, its estimate grows by exactly the total. -/
theorem C03_exact_single_general [DecidableEq E] (pos : E → List Nat) (s : CMS)
    (h : List (E × Nat)) (x : E) (hall : ∀ ec ∈ h, ec.1 = x)
    (hs : WF s) (hrows : 1 ≤ s.rows) (hpos : PosOK pos s.rows s.cols) :
    (run pos s h).count (pos x) = s.count (pos x) + total h := by
  have lo := C03_lower_general pos s h x hs hrows hpos
  have hi := C03_upper_general pos s h x hs hpos
  have e : trueCount h x = total h := trueCount_eq_total_of_all h x hall
  omega

/-- the cell-level invariant behind all of the above: cell `(r,c)` of the sketch after `h` is the
    old cell plus the sum of the counts of the entries `ec` of `h` with `(pos ec.1)[r] = c`. -/
theorem C03_cell_invariant (pos : E → List Nat) (s : CMS) (h : List (E × Nat))
    (hs : WF s) (hpos : PosOK pos s.rows s.cols) (r c : Nat) (hr : r < s.rows) :
    ((run pos s h).m.getD r []).getD c 0
      = (s.m.getD r []).getD c 0
        + sumL ((h.filter (fun ec => (pos ec.1).getD r 0 = c)).map (·.2)) :=
  foldl_update_cell pos s.rows s.cols hpos s hs h r c hr

/-! ### the fresh sketch -/

/-- A fresh sketch estimates 0 for every position list (of any length / any range). -/
theorem C03_empty_zero (rows cols : Nat) (p : List Nat) : (CMS.new rows cols).count p = 0 :=
  count_new rows cols p

/-- **Never under-counts**: `Count(x) ≥` true frequency of `x`, for every history of updates of
    arbitrary elements.  Needs at least one row (`NewCountMinSketch*` guarantee it). -/
theorem C03_lower [DecidableEq E] (pos : E → List Nat) (rows cols : Nat) (h : List (E × Nat))
    (x : E) (hrows : 1 ≤ rows) (hpos : PosOK pos rows cols) :
    trueCount h x ≤ (run pos (CMS.new rows cols) h).count (pos x) := by
  have := C03_lower_general pos (CMS.new rows cols) h x (C03_wf_new rows cols) hrows hpos
  rw [C03_empty_zero] at this; omega

/-- `1 ≤ rows` cannot be dropped from `C03_lower`: with 0 rows the estimate is 0. -/
theorem C03_lower_needs_rows :
    ¬ (∀ (pos : Unit → List Nat) (rows cols : Nat) (h : List (Unit × Nat)) (x : Unit),
        PosOK pos rows cols → trueCount h x ≤ (run pos (CMS.new rows cols) h).count (pos x)) := by
  intro H
  have := H (fun _ => []) 0 1 [((), 1)] () (by intro e; simp)
  revert this; decide

/-- **Bounded by the stream total** (no hypothesis on `rows`, `cols` is needed). -/
theorem C03_upper (pos : E → List Nat) (rows cols : Nat) (h : List (E × Nat)) (x : E)
    (hpos : PosOK pos rows cols) :
    (run pos (CMS.new rows cols) h).count (pos x) ≤ total h := by
  have := C03_upper_general pos (CMS.new rows cols) h x (C03_wf_new rows cols) hpos
  rw [C03_empty_zero] at this; omega

/-- **Exact when `x` is the only distinct element updated** (`1 ≤ cols` follows from `PosOK`
    and `1 ≤ rows`, so it is not a hypothesis). -/
theorem C03_exact_single [DecidableEq E] (pos : E → List Nat) (rows cols : Nat)
    (h : List (E × Nat)) (x : E) (hall : ∀ ec ∈ h, ec.1 = x)
    (hrows : 1 ≤ rows) (hpos : PosOK pos rows cols) :
    (run pos (CMS.new rows cols) h).count (pos x) = total h := by
  have := C03_exact_single_general pos (CMS.new rows cols) h x hall (C03_wf_new rows cols)
    hrows hpos
  rw [C03_empty_zero] at this; omega

/-! ### the concrete position scheme of the code -/

/-- `getPositions` is in range once `columns ≥ 1` (no out-of-range matrix access). -/
theorem C03_position_in_range (h1 h2 r cols : Nat) (hc : 1 ≤ cols) :
    CMS.position h1 h2 r cols < cols := by
  unfold position; exact Nat.mod_lt _ (by omega)

theorem C03_positionsOf_ok (h1 h2 rows cols : Nat) (hc : 1 ≤ cols) :
    (CMS.positionsOf h1 h2 rows cols).length = rows
    ∧ ∀ p ∈ CMS.positionsOf h1 h2 rows cols, p < cols := by
  refine ⟨by simp [positionsOf], ?_⟩
  intro p hp
  simp only [positionsOf, List.mem_map, List.mem_range] at hp
  obtain ⟨r, _, rfl⟩ := hp
  exact C03_position_in_range h1 h2 r cols hc

theorem C03_positionsOf_PosOK (hash : E → Nat × Nat) (rows cols : Nat) (hc : 1 ≤ cols) :
    PosOK (fun e => CMS.positionsOf (hash e).1 (hash e).2 rows cols) rows cols :=
  fun e => C03_positionsOf_ok (hash e).1 (hash e).2 rows cols hc

/-- End-to-end for the concrete scheme: any two hash words per element, any `rows, cols ≥ 1`. -/
theorem C03_concrete [DecidableEq E] (hash : E → Nat × Nat) (rows cols : Nat)
    (h : List (E × Nat)) (x : E) (hrows : 1 ≤ rows) (hcols : 1 ≤ cols) :
    let pos := fun e => CMS.positionsOf (hash e).1 (hash e).2 rows cols
    trueCount h x ≤ (run pos (CMS.new rows cols) h).count (pos x)
    ∧ (run pos (CMS.new rows cols) h).count (pos x) ≤ total h := by
  intro pos
  have hpos := C03_positionsOf_PosOK hash rows cols hcols
  exact ⟨C03_lower pos rows cols h x hrows hpos, C03_upper pos rows cols h x hpos⟩

theorem C03_concrete_exact_single [DecidableEq E] (hash : E → Nat × Nat) (rows cols : Nat)
    (h : List (E × Nat)) (x : E) (hall : ∀ ec ∈ h, ec.1 = x) (hrows : 1 ≤ rows)
    (hcols : 1 ≤ cols) :
    let pos := fun e => CMS.positionsOf (hash e).1 (hash e).2 rows cols
    (run pos (CMS.new rows cols) h).count (pos x) = total h := by
  intro pos
  exact C03_exact_single pos rows cols h x hall hrows (C03_positionsOf_PosOK hash rows cols hcols)

end props

/-! ### non-vacuity: a concrete 3×4 sketch with colliding elements -/

/-- positions used by the examples: 3 rows, 4 columns; 1, 5, 9, 13 all collide in row 0. -/
def exPos (e : Nat) : List Nat := [e % 4, (e / 2) % 4, (3 * e + e / 4) % 4]

example : PosOK exPos 3 4 := by
  intro e
  refine ⟨rfl, ?_⟩
  intro p hp
  simp only [exPos, List.mem_cons, List.not_mem_nil, or_false] at hp
  omega

/-- the estimate of 1 is exact (5) although 5, 9, 13 collide with it in some rows; the estimate
    of 13 over-counts (true count 6, estimate 7) but stays below the total 19; a single distinct
    element is counted exactly. -/
example :
    let h := [(1, 2), (5, 4), (9, 1), (1, 3), (2, 1), (5, 2), (13, 6)]
    let s := run exPos (CMS.new 3 4) h
    trueCount h 1 = 5 ∧ s.count (exPos 1) = 5 ∧
    trueCount h 13 = 6 ∧ s.count (exPos 13) = 7 ∧ total h = 19 ∧
    (run exPos (CMS.new 3 4) [(7, 2), (7, 5)]).count (exPos 7) = 7 := by decide

end Gostatix.CMS
