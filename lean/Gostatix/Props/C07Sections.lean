/-
  C07 (premise 1, continued) — HOW MANY critical sections a method call consists of, decided over
  `sectionTable`, which /verif/extract regenerates from /repo's current sources on every run
  (`Gostatix/Generated/LockTable.lean`, second table; record types in `Model/Sections.lean`;
  analysis and the list of shapes it understands in `extract/gen.go`, "Section table").

  The gap this closes.  `Props/C07Lock.lean` decides, per method, that every access to mutable
  state is dominated by `Lock()`/`RLock()` on the instance's mutex.  `Props/C07.lean` proves that
  every schedule of calls OF THE FORM `acquire ; body ; release` is serializable, and
  `Props/C07Merge.lean` treats a call that is TWO sections `snap ; app`.  Nothing said that the Go
  methods have these forms: a method that compares under `RLock`, releases, and stores under a
  separate `Lock` without re-checking has every access guarded (the lock table accepts it), and is
  neither form.  Here the form is read off the source and decided:

   * `C07_section_table_aligned` — `sectionTable` lists exactly the methods of `lockTable`, in the
     same order (so the two tables can be read side by side with `List.zip`).
   * `C07_sections_understood` — the extractor understood the shape of EVERY method of the five
     types (no `sectionsUnknown`): locks taken as statements of the function body, released by a
     paired `Unlock` on every path or by `defer`, no lock in a loop / branch / closure, no mutex
     handed to anything.  A shape outside the list in `extract/gen.go` fails this theorem; it is
     never guessed.
   * `C07_single_section` — every method is one of (the exceptions are the explicit lists below):
       - exempt from the property's call classes (`exemptNames`: Import, ReadFrom, Equals,
         GetBitSet), or an unexported helper that takes no lock at all and is charged to its callers;
       - one of `mergeMethods` (see `C07_merge_two_sections`);
       - one of `delegatingMethods` (`InsertString`, `LookupString`, `UpdateOnce`, `UpdateString`,
         `CountString`): touches nothing itself and makes exactly ONE call, on the receiver, of a
         method that is itself a single section — so the call is that one section;
       - a method that touches no mutable state and takes no lock (getters);
       - otherwise: exactly ONE critical section, on the RECEIVER, opened at the top level, in write
         mode (read mode only if nothing is written), with NO access to tracked mutable state
         outside it, and nothing else except calls — made inside that section — of locking
         methods of a structure the receiver OWNS (`ownedStructures`: Top-K's `sketch`).  The
         section may be conditional (`if isBitSetMem(..) { Lock; defer Unlock }`) only for the
         types in `conditionalLockTypes` (BloomFilter: the Redis-backed bit set is outside C07).
     This is the call model of `Props/C07.lean`: `call t i = [acq t, body t i, rel t]`
     (Model/Conc.lean), with `body` = everything the method does to the instance.
     `C07_single_section_covers`: the operations the property names (`singleSectionMethods` =
     `requiredMethods` of C07Lock minus the two merges) are in the table, not exempt, and of the last kind — the
     theorem is not vacuous for them.
   * `C07_merge_two_sections` — `CountMinSketch.Merge` and `HyperLogLog.Merge` are exactly: one
     section on the ARGUMENT that reads it and does not write it (the snapshot), released before
     the next one starts, then one write-mode section on the RECEIVER that writes it (the apply);
     neither nested, no access outside.  This is `secsOf (Op.merge) = [Sec.snap, Sec.app]` of
     Proofs/C07Merge.lean.
       Discharged for `C07_self_merge_linearizable` / `C07_self_merge_any_schedule` /
       `C07_cross_merge_h_side` / `_g_side`: the SHAPE — that the threads' programs are
       `M.threadsC ops` / `taggedSecs ops` with a merge = snapshot section (on the argument's
       mutex, only reading: `C07_cross_merge_g_side` says the merge leaves g alone) followed by an
       apply section (on the receiver's mutex), the two locks never held together, so every section
       is one `acq ; body ; rel` of the one-mutex model and `validMutex` is the only constraint on
       schedules.  (The second bullet of "NOT proved / assumed" in Props/C07Merge.lean.)
       NOT discharged here: `hc : OtherUpdatesCommute` / `OtherHUpdatesCommute` and
       `haa` (apply/apply commutation) — these are properties of what the bodies COMPUTE; they are
       proved in the model (`cmsTP_commute`, `hllTP_commute`, `cms_hStepL_commute`,
       `hll_hStepL_commute`, hence `cmsTP_other`, `hllTP_other`); `hno : mergesDoNotOverlap` — a
       property of the schedule (automatic with one merging thread:
       `mergesDoNotOverlap_of_single_merger`); that the copy lives in a local variable and that the
       loops compute `addRows` / `mergeRegs` — read off the source (Model/CMS.lean, Model/HLL.lean).
   * `C07_lock_order` — the only nesting anywhere in the five types is: a Top-K method holds the
     Top-K lock (receiver) and, inside, calls a locking method of its `sketch` (a Count-Min
     sketch).  No method takes them in the other order: no section of any method starts on a
     Top-K while a sketch lock is held, and no Count-Min method ever touches a lock of another
     type or holds two locks.  Calls are not expanded in the table, so the second half is what
     makes the statement about the callee's sections too.  `C07_no_two_locks_of_one_type`: no two
     mutexes of the same type are ever held together (`a.Merge(b)` with `b.Merge(a)` cannot
     deadlock: the two sections of a merge are sequential).

  What is NOT proved / assumed:
   * the extractor is syntactic (go/ast, no types): instances are the receiver, parameters,
     `recv.f` for fields declared with one of the five types, and locals `a := recv.f`; shadowing,
     method values, reflection are not modelled.  Accesses through an owned structure's fields
     (`t.sketch.matrix` in `TopK.Export`) count as accesses of the OWNER, as in the lock table.
   * closures are taken to run where they are written (`sort.Slice` comparators); `go` is refused.
   * a panic raised by a callee while a not-deferred lock is held is not modelled (a `panic(..)`
     statement is).
   * sync.Mutex / RWMutex semantics and the Go memory model, as in Props/C07.lean.
-/
import Gostatix.Generated.LockTable
import Gostatix.Model.Sections
namespace Gostatix.Conc
open Gostatix.Generated

/-! ### the explicit lists -/

/-- methods outside the property's call classes (the same names the extractor marks exempt) -/
def exemptNames : List String := ["Import", "ReadFrom", "Equals", "GetBitSet"]

/-- two sections: snapshot of the argument, then apply to the receiver -/
def mergeMethods : List (String × String) := [("CountMinSketch", "Merge"), ("HyperLogLog", "Merge")]

/-- methods that only convert their argument and call ONE locked method of the receiver -/
def delegatingMethods : List (String × String) := [
  ("BloomFilter", "InsertString"), ("BloomFilter", "LookupString"),
  ("CountMinSketch", "UpdateOnce"), ("CountMinSketch", "UpdateString"), ("CountMinSketch", "CountString")]

/-- types whose lock is taken conditionally (`if isBitSetMem(filter) { Lock; defer Unlock }`) -/
def conditionalLockTypes : List String := ["BloomFilter"]

/-- (owner type, field, type of the field): structures with their own mutex that an instance owns
    and only reaches while holding its own lock -/
def ownedStructures : List (String × Inst × String) := [("TopK", .field "sketch", "CountMinSketch")]

/-! ### alignment, understood -/

theorem C07_section_table_aligned :
    sectionTable.map (fun s => (s.typ, s.method)) = lockTable.map (fun f => (f.typ, f.method)) := by decide

/-- no method of the five types has a lock shape the extractor does not understand -/
theorem C07_sections_understood : sectionTable.all (fun s => !s.sectionsUnknown) = true := by decide

/-! ### one call = one critical section -/

/-- the one section of an `acquire ; body ; release` call: on the receiver, at the top level, in
    write mode unless nothing is written -/
def plainSection (typ : String) (writes : Bool) (c : SectionFact) : Bool :=
  c.inst == .recv && c.instTyp == typ && !c.nested && c.outer == .none &&
  (c.mode == .W || (c.mode == .R && !c.writes && !writes)) &&
  (!c.conditional || conditionalLockTypes.contains typ)

/-- a call, made while holding the receiver's lock, of a locking method of a structure the
    receiver owns -/
def ownedCall (typ : String) (c : SectionFact) : Bool :=
  c.mode == .call && c.nested && c.outer == .recv && c.outerTyp == typ &&
  ownedStructures.contains (typ, c.inst, c.instTyp)

def oneSectionOnRecv (f : MethodFact) (s : MethodSections) : Bool :=
  !s.sectionsUnknown && !s.bare &&
  (match s.sections with
   | c :: rest => plainSection s.typ f.writesMutable c && rest.all (ownedCall s.typ)
   | [] => false)

/-- exactly one call, on the receiver, of a method that is itself in the table as a not exempt,
    state-touching method outside `mergeMethods` / `delegatingMethods` (hence, by
    `C07_single_section`, one section) -/
def delegatesOnce (s : MethodSections) : Bool :=
  !s.sectionsUnknown && !s.bare &&
  (match s.sections with
   | [c] => c.mode == .call && c.inst == .recv && c.instTyp == s.typ && !c.nested &&
       !mergeMethods.contains (s.typ, c.callee) && !delegatingMethods.contains (s.typ, c.callee) &&
       lockTable.any (fun f => f.typ == s.typ && f.method == c.callee && !f.exempt && f.touchesMutable)
   | _ => false)

/-- exempt: by name, or a helper that takes no lock and calls no locking method (its accesses are
    charged to the sections of its callers) -/
def exemptOK (f : MethodFact) (s : MethodSections) : Bool :=
  f.exempt && (exemptNames.contains f.method || s.sections.isEmpty)

def shapeOK (f : MethodFact) (s : MethodSections) : Bool :=
  exemptOK f s || mergeMethods.contains (s.typ, s.method) ||
  (if delegatingMethods.contains (s.typ, s.method) then delegatesOnce s
   else if f.touchesMutable || !s.sections.isEmpty then oneSectionOnRecv f s
   else !s.bare)

/-- **one call = one critical section**, for every method of the five types outside the explicit
    exception lists above -/
theorem C07_single_section :
    (lockTable.zip sectionTable).all (fun p =>
      p.1.typ == p.2.typ && p.1.method == p.2.method && shapeOK p.1 p.2) = true := by decide

/-- the operations the property names, the two merges aside (`requiredMethods` of Props/C07Lock.lean
    minus `mergeMethods`; repeated here so that this file and C07Lock build, and fail, independently) -/
def singleSectionMethods : List (String × String) := [
  ("BloomFilter", "Insert"), ("BloomFilter", "Lookup"), ("BloomFilter", "Export"), ("BloomFilter", "WriteTo"), ("BloomFilter", "BloomPositiveRate"),
  ("CuckooFilter", "Insert"), ("CuckooFilter", "Lookup"), ("CuckooFilter", "Remove"), ("CuckooFilter", "Length"), ("CuckooFilter", "Export"), ("CuckooFilter", "WriteTo"),
  ("CountMinSketch", "Update"), ("CountMinSketch", "Count"), ("CountMinSketch", "Export"), ("CountMinSketch", "WriteTo"),
  ("HyperLogLog", "Update"), ("HyperLogLog", "Count"), ("HyperLogLog", "Reset"), ("HyperLogLog", "Export"), ("HyperLogLog", "WriteTo"),
  ("TopK", "Insert"), ("TopK", "Values"), ("TopK", "Export"), ("TopK", "WriteTo")]

/-- not vacuous: the operations the property names (the merges aside) are there, are not exempt,
    touch mutable state and consist of exactly one section on the receiver -/
theorem C07_single_section_covers :
    singleSectionMethods.all (fun r =>
      (lockTable.zip sectionTable).any (fun p =>
        p.1.typ == r.1 && p.1.method == r.2 && p.2.typ == r.1 && p.2.method == r.2 &&
        !p.1.exempt && p.1.touchesMutable && oneSectionOnRecv p.1 p.2)) = true := by decide

/-! ### Merge = snapshot section on the argument ; apply section on the receiver -/

def isMergeShape (s : MethodSections) : Bool :=
  !s.sectionsUnknown && !s.bare &&
  (match s.sections with
   | [a, b] =>
       -- the snapshot: on the argument (same type), either mode, only reads, released before the apply starts
       a.inst.isArg && a.instTyp == s.typ && a.mode != .call && !a.nested && a.outer == .none &&
       a.seq && a.reads && !a.writes && !a.conditional &&
       -- the apply: on the receiver, exclusive, writes
       b.inst == .recv && b.instTyp == s.typ && b.mode == .W && !b.nested && b.outer == .none &&
       b.writes && !b.conditional
   | _ => false)

/-- the two merges have the shape `Sec.snap ; Sec.app` that Props/C07Merge.lean models -/
theorem C07_merge_two_sections :
    mergeMethods.all (fun k =>
      (sectionTable.filter (fun s => s.typ == k.1 && s.method == k.2)).map isMergeShape == [true]) = true := by
  decide

/-- and they are in the lock table as guarded, exclusive writers (so: each of the two sections is
    on the right mutex for what it touches) -/
theorem C07_merge_guarded :
    mergeMethods.all (fun k => lockTable.any (fun f =>
      f.typ == k.1 && f.method == k.2 && !f.exempt && f.touchesMutable && f.writesMutable && f.guarded && f.exclusive)) = true := by
  decide

/-! ### lock order -/

/-- the only nesting: Top-K lock (receiver) outside, the lock of its sketch inside -/
def nestedOK (s : MethodSections) (c : SectionFact) : Bool :=
  if c.nested then
    s.typ == "TopK" && c.outer == .recv && c.outerTyp == "TopK" &&
    c.inst == .field "sketch" && c.instTyp == "CountMinSketch"
  else c.outer == .none

/-- a method of the INNER type only ever locks instances of its own type, one at a time -/
def innerTypeOK (s : MethodSections) : Bool :=
  s.typ != "CountMinSketch" || s.sections.all (fun c => c.instTyp == "CountMinSketch" && !c.nested)

theorem C07_lock_order :
    sectionTable.all (fun s => s.sections.all (nestedOK s) && innerTypeOK s) = true := by decide

/-- no two mutexes of one type are ever held together -/
theorem C07_no_two_locks_of_one_type :
    sectionTable.all (fun s => s.sections.all (fun c => !c.nested || c.outerTyp != c.instTyp)) = true := by
  decide

end Gostatix.Conc
