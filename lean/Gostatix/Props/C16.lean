/-
  C16 — concurrent updates through Redis are not lost.

  Granularity: one Redis command or one Lua script is one atomic step on the shared store (Redis
  executes commands and scripts one at a time — an assumption, not a theorem).  A client
  operation is the list of steps it issues, an execution is an interleaving of the clients' lists.

   * Bloom `Insert`  = k `SETBIT p 1` steps (pipelined, NOT a transaction): `setBit`.
   * Count-Min `Update` = ONE script step: `cmsStep` (`CMS.update`).
   * HyperLogLog `Update` = ONE script step: `HLL.upd`.
  For these every interleaving ends in the store of the sequential application in any order.

   * Cuckoo `Insert` and Top-K `Insert` are check-then-act over SEVERAL commands; the programs are
     transcribed below and a concrete interleaving is exhibited that violates what both
     sequential orders guarantee (finding D21).
-/
import Gostatix.Proofs.Conc
import Gostatix.Props.C01
import Gostatix.Model.Cuckoo
import Gostatix.Model.TopK
namespace Gostatix
open Conc

/-! ### Bloom: every interleaving of the single-bit steps -/

theorem foldl_setBits_eq (bits : List Bool) (order : List (List Nat)) :
    order.foldl Bloom.setBits bits = exec setBit bits order.flatten := by
  simp only [exec, List.foldl_flatten]; rfl

theorem foldl_insert_bits (b : Bloom) (order : List (List Nat)) :
    order.foldl Bloom.insert b = { b with bits := order.foldl Bloom.setBits b.bits } := by
  induction order generalizing b with
  | nil => rfl
  | cons p order ih => simp only [List.foldl_cons]; rw [ih]; rfl

/-- `clients[c]` is the sequence of inserts client `c` issues, each insert given by its probe
    positions; the client's step list is the concatenation of the inserts' `SETBIT` steps.
    EVERY interleaving of the single-bit steps ends in the same bits as applying all the inserts
    one after another in ANY order. -/
theorem C16_bloom (bits : List Bool) (clients : List (List (List Nat))) (w : List Nat)
    (hi : Interleaving (clients.map List.flatten) w)
    (order : List (List Nat)) (ho : order.Perm clients.flatten) :
    exec setBit bits w = order.foldl Bloom.setBits bits := by
  rw [foldl_setBits_eq]
  apply exec_perm_of_commute setBit_commute
  refine hi.perm.trans ?_
  rw [← List.flatten_flatten]
  exact ho.symm.flatten

/-- the same on the filter record -/
theorem C16_bloom_filter (b : Bloom) (clients : List (List (List Nat))) (w : List Nat)
    (hi : Interleaving (clients.map List.flatten) w)
    (order : List (List Nat)) (ho : order.Perm clients.flatten) :
    { b with bits := exec setBit b.bits w } = order.foldl Bloom.insert b := by
  rw [foldl_insert_bits, C16_bloom b.bits clients w hi order ho]

/-- the final bits are the union: bit `q` is set iff it was set before or some step set it.
    (This is where idempotence of `SETBIT` shows: how often a position occurs is irrelevant.) -/
theorem exec_setBit_getElem? (bits : List Bool) (w : List Nat) (q : Nat) :
    (exec setBit bits w)[q]? = (bits[q]?).map (fun b => b || decide (q ∈ w)) := by
  induction w generalizing bits with
  | nil => simp [exec]
  | cons p w ih =>
    have : exec setBit bits (p :: w) = exec setBit (setBit bits p) w := rfl
    rw [this, ih, setBit, List.getElem?_set]
    by_cases e : p = q
    · subst e
      by_cases hl : p < bits.length
      · simp [hl]
      · simp [hl]
    · have e' : ¬ q = p := fun h => e h.symm
      simp [e, e']

/-- duplicated / retried steps are harmless: two schedules that set the same SET of positions
    end in the same bits. -/
theorem C16_bloom_idempotent (bits : List Bool) (w w' : List Nat) (h : ∀ p, p ∈ w ↔ p ∈ w') :
    exec setBit bits w = exec setBit bits w' := by
  apply List.ext_getElem?
  intro q
  rw [exec_setBit_getElem?, exec_setBit_getElem?]
  simp [h q]

/-- nothing is lost: after ANY interleaving every inserted element is found. -/
theorem C16_bloom_not_lost (b : Bloom) (clients : List (List (List Nat))) (w : List Nat)
    (hi : Interleaving (clients.map List.flatten) w)
    (ps : List Nat) (hps : ps ∈ clients.flatten) (hr : ∀ p ∈ ps, p < b.bits.length) :
    Bloom.lookup { b with bits := exec setBit b.bits w } ps = true := by
  simp only [Bloom.lookup, List.all_eq_true]
  intro p hp
  have hmem : p ∈ w := by
    rw [hi.perm.mem_iff, ← List.flatten_flatten]
    exact List.mem_flatten.2 ⟨ps, hps, hp⟩
  exact Bloom.setBits_sets b.bits w p hmem (hr p hp)

/-! ### Count-Min and HyperLogLog: the update is one script step -/

/-- every interleaving of whole-update steps = sequential application in any order -/
theorem C16_cms (s : CMS) (clients : List (List (List Nat × Nat))) (w : List (List Nat × Nat))
    (hi : Interleaving clients w) (order : List (List Nat × Nat)) (ho : order.Perm clients.flatten) :
    exec cmsStep s w = order.foldl (fun s u => s.update u.1 u.2) s :=
  exec_perm_of_commute cmsStep_commute (hi.perm.trans ho.symm) s

theorem C16_hll (regs : List Nat) (clients : List (List (Nat × Nat))) (w : List (Nat × Nat))
    (hi : Interleaving clients w) (order : List (Nat × Nat)) (ho : order.Perm clients.flatten) :
    exec HLL.upd regs w = order.foldl HLL.upd regs :=
  exec_perm_of_commute HLL.upd_commute (hi.perm.trans ho.symm) regs

/-! ### Cuckoo: `CuckooFilterRedis.Insert` is check-then-act over several commands

  Go (cuckoo_filter_redis.go:117):
      if buckets[f].isFree() { buckets[f].add(fp) }            // script isFree ; script add, RESULT IGNORED
      else if buckets[s].isFree() { buckets[s].add(fp) }       // script isFree ; script add, RESULT IGNORED
      else { …eviction loop… }
      incrLength(); return true                                 // HINCRBY length 1
  The `add` script re-checks fullness and returns false on a full bucket, but `Insert` drops that
  result and still increments the length and acknowledges.
-/
namespace C16Cuckoo

/-- fingerprints are numbers here, `0` plays the empty string -/
abbrev Fp := Nat

/-- the Go locals of a running `Insert` -/
structure Local where
  free1 : Option Bool := none      -- result of `isFree` on the first bucket (none: not run yet)
  free2 : Option Bool := none      -- result of `isFree` on the second bucket
  acked : Bool := false            -- `Insert` returned true
  evicting : Bool := false         -- entered the eviction loop (not modelled further)
  deriving Repr, DecidableEq

/-- the Redis store (bucket lists, their `_len` counters, the metadata `length`) and the two
    clients' locals -/
structure St where
  buckets : List (BucketRedis Fp)
  length : Nat
  la : Local := {}
  lb : Local := {}
  deriving Repr, DecidableEq

def St.loc (s : St) (c : Bool) : Local := if c then s.lb else s.la
def St.setLoc (s : St) (c : Bool) (l : Local) : St := if c then { s with lb := l } else { s with la := l }
def St.bucket (s : St) (i : Nat) : BucketRedis Fp := s.buckets.getD i ⟨0, [], 0⟩

/-- one Redis round trip (or nothing, when the Go control flow skips it) of client `c` -/
inductive Cmd where
  | isFree1 (c : Bool) (i1 : Nat)
  | add1 (c : Bool) (i1 : Nat) (fp : Fp)
  | isFree2 (c : Bool) (i2 : Nat)
  | add2 (c : Bool) (i2 : Nat) (fp : Fp)
  | finish (c : Bool)
  deriving Repr, DecidableEq

def step (s : St) : Cmd → St
  | .isFree1 c i => s.setLoc c { s.loc c with free1 := some (s.bucket i).isFree }
  | .add1 c i fp =>
    if (s.loc c).free1 = some true then
      { s with buckets := modAt s.buckets i (fun b => BucketRedis.add 0 b fp) }   -- result ignored
    else s
  | .isFree2 c i =>
    if (s.loc c).free1 = some false then s.setLoc c { s.loc c with free2 := some (s.bucket i).isFree }
    else s
  | .add2 c i fp =>
    if (s.loc c).free1 = some false ∧ (s.loc c).free2 = some true then
      { s with buckets := modAt s.buckets i (fun b => BucketRedis.add 0 b fp) }   -- result ignored
    else s
  | .finish c =>
    if (s.loc c).free1 = some true ∨ (s.loc c).free2 = some true then
      ({ s with length := s.length + 1 }).setLoc c { s.loc c with acked := true }
    else s.setLoc c { s.loc c with evicting := true }

/-- the command sequence of `Insert` for an element with fingerprint `fp` and buckets `i1`, `i2` -/
def insertProg (c : Bool) (fp : Fp) (i1 i2 : Nat) : List Cmd :=
  [.isFree1 c i1, .add1 c i1 fp, .isFree2 c i2, .add2 c i2 fp, .finish c]

def found (s : St) (fp : Fp) (i1 i2 : Nat) : Bool :=
  (s.bucket i1).lookup fp || (s.bucket i2).lookup fp

/-- number of fingerprints actually stored -/
def stored (s : St) : Nat := sumL (s.buckets.map (fun b => (b.list.filter (· != 0)).length))

/-- what every sequential order guarantees: an acknowledged insert is findable, and the length
    counts the stored fingerprints.  `reqA`, `reqB` are the two clients' (fp, i1, i2). -/
def post (reqA reqB : Fp × Nat × Nat) (s : St) : Bool :=
  (!s.la.acked || found s reqA.1 reqA.2.1 reqA.2.2) &&
  (!s.lb.acked || found s reqB.1 reqB.2.1 reqB.2.2) &&
  s.length == stored s

/-- two buckets of size 1, both empty -/
def s0 : St := { buckets := [BucketRedis.new 1, BucketRedis.new 1], length := 0 }

/-- client A inserts an element with fingerprint 7, client B one with fingerprint 9; both have
    first bucket 0 and second bucket 1 -/
def pA : List Cmd := insertProg false 7 0 1
def pB : List Cmd := insertProg true 9 0 1

/-- both clients run `isFree(0)` before either runs `add` -/
def bad : List Cmd :=
  [.isFree1 false 0, .isFree1 true 0, .add1 false 0 7, .add1 true 0 9,
   .isFree2 false 1, .add2 false 1 7, .finish false, .isFree2 true 1, .add2 true 1 9, .finish true]

theorem bad_interleaving : Interleaving [pA, pB] bad :=
  Interleaving.of_pick (is := [0, 1, 0, 1, 0, 0, 0, 1, 1, 1]) (by decide)

instance : Inhabited (BucketRedis Fp) := ⟨⟨0, [], 0⟩⟩

/-- the sequential model `Cuckoo.insert` over `BucketRedis` for the same two inserts -/
def modelSeq (first second : Fp) : CRes (Cuckoo (BucketRedis Fp)) :=
  let c0 : Cuckoo (BucketRedis Fp) := ⟨2, 1, 1, 0, s0.buckets, 0⟩
  match Cuckoo.insert (BucketRedis.ops 0) (fun i _ => i) c0 first 0 1 false true [] with
  | .ok c1 => Cuckoo.insert (BucketRedis.ops 0) (fun i _ => i) c1 second 0 1 false true []
  | r => r

end C16Cuckoo

open C16Cuckoo in
/-- **D21 (cuckoo).**  There are a store, two client `Insert` programs and an interleaving of
    their Redis commands whose final store violates the postcondition that BOTH sequential orders
    satisfy: both inserts are acknowledged and `length = 2`, but only one fingerprint is stored and
    the other acknowledged element is not findable (a false negative). -/
theorem C16_cuckoo_counterexample :
    ∃ (s0 : St) (pA pB w : List Cmd) (reqA reqB : Fp × Nat × Nat),
      pA = insertProg false reqA.1 reqA.2.1 reqA.2.2 ∧ pB = insertProg true reqB.1 reqB.2.1 reqB.2.2 ∧
      Interleaving [pA, pB] w ∧
      post reqA reqB (exec step s0 w) = false ∧
      post reqA reqB (exec step s0 (pA ++ pB)) = true ∧
      post reqA reqB (exec step s0 (pB ++ pA)) = true :=
  ⟨C16Cuckoo.s0, pA, pB, bad, (7, 0, 1), (9, 0, 1), rfl, rfl, bad_interleaving,
    by decide, by decide, by decide⟩

namespace C16Cuckoo

/-- the bad run in detail: both acknowledged, nobody entered the eviction loop, `length = 2`,
    one fingerprint stored, B's element is not findable, A's is -/
theorem bad_run_detail :
    let s := exec step s0 bad
    s.la.acked = true ∧ s.lb.acked = true ∧ s.la.evicting = false ∧ s.lb.evicting = false ∧
    s.length = 2 ∧ stored s = 1 ∧ found s 9 0 1 = false ∧ found s 7 0 1 = true := by decide

/-- both sequential orders: both acknowledged, both findable, `length = 2 = stored`, no eviction;
    and the store is the one the sequential model `Cuckoo.insert` (Model/Cuckoo.lean) computes -/
theorem seq_runs_detail :
    (let s := exec step s0 (pA ++ pB)
     s.la.acked = true ∧ s.lb.acked = true ∧ s.la.evicting = false ∧ s.lb.evicting = false ∧
     s.length = 2 ∧ stored s = 2 ∧ found s 7 0 1 = true ∧ found s 9 0 1 = true ∧
     modelSeq 7 9 = .ok ⟨2, 1, 1, 0, s.buckets, s.length⟩) ∧
    (let s := exec step s0 (pB ++ pA)
     s.la.acked = true ∧ s.lb.acked = true ∧ s.la.evicting = false ∧ s.lb.evicting = false ∧
     s.length = 2 ∧ stored s = 2 ∧ found s 7 0 1 = true ∧ found s 9 0 1 = true ∧
     modelSeq 9 7 = .ok ⟨2, 1, 1, 0, s.buckets, s.length⟩) := by decide

/-- one client alone, first bucket free: the command program computes what the sequential model
    computes (for every store, fingerprint and bucket pair) -/
theorem insertProg_alone_free1 (s : St) (fp : Fp) (i1 i2 : Nat) (hl : s.la = {})
    (hf : (s.bucket i1).isFree = true) :
    exec step s (insertProg false fp i1 i2) =
      { s with buckets := modAt s.buckets i1 (fun b => BucketRedis.add 0 b fp), length := s.length + 1,
               la := { free1 := some true, acked := true } } := by
  cases s with
  | mk buckets length la lb =>
    simp only at hl; subst hl
    simp [exec, insertProg, step, St.loc, St.setLoc, hf]

end C16Cuckoo

/-! ### Top-K: `TopKRedis.Insert` is check-then-act over several commands

  Go (top_k_redis.go:82), after `sketch.Update` / `sketch.Count` gave the estimate `f`:
      heapLength = ZCARD heap
      minElement = ZRANGE heap 0 0 WITHSCORES
      if heapLength < k || (len(minElement) > 0 && f >= minElement[0].Score) {
          if ZSCORE heap x > 0 { ZREM heap x }
          ZADD heap f x
          heapLength = ZCARD heap
          if heapLength > k { ZPOPMIN heap }
      }
  The estimate `f` is a parameter of the program: the sketch part is `C16_cms`.
-/
namespace C16TopK

structure Local where
  card : Nat := 0
  go : Bool := false        -- the outer `if`
  score : Nat := 0          -- ZSCORE (0: absent)
  card2 : Nat := 0
  deriving Repr, DecidableEq

structure St where
  z : List HElem            -- the sorted set, ascending by (score, member)
  la : Local := {}
  lb : Local := {}
  deriving Repr, DecidableEq

def St.loc (s : St) (c : Bool) : Local := if c then s.lb else s.la
def St.setLoc (s : St) (c : Bool) (l : Local) : St := if c then { s with lb := l } else { s with la := l }

inductive Cmd where
  | zcard (c : Bool)
  | zrange (c : Bool) (f : Nat)
  | zscore (c : Bool) (x : String)
  | zrem (c : Bool) (x : String)
  | zadd (c : Bool) (x : String) (f : Nat)
  | zcard2 (c : Bool)
  | zpopmin (c : Bool)
  deriving Repr, DecidableEq

def step (k : Nat) (s : St) : Cmd → St
  | .zcard c => s.setLoc c { s.loc c with card := s.z.length }
  | .zrange c f =>
    s.setLoc c { s.loc c with
      go := decide ((s.loc c).card < k) ||
        (match s.z.head? with | some mn => decide (f ≥ mn.2) | none => false) }
  | .zscore c x =>
    if (s.loc c).go then
      s.setLoc c { s.loc c with score := match s.z.find? (fun e => e.1 == x) with | some e => e.2 | none => 0 }
    else s
  | .zrem c x =>
    if (s.loc c).go ∧ (s.loc c).score > 0 then { s with z := s.z.filter (fun e => e.1 != x) } else s
  | .zadd c x f => if (s.loc c).go then { s with z := TopK.zadd s.z x f } else s
  | .zcard2 c => if (s.loc c).go then s.setLoc c { s.loc c with card2 := s.z.length } else s
  | .zpopmin c => if (s.loc c).go ∧ (s.loc c).card2 > k then { s with z := s.z.tail } else s

def insertProg (c : Bool) (x : String) (f : Nat) : List Cmd :=
  [.zcard c, .zrange c f, .zscore c x, .zrem c x, .zadd c x f, .zcard2 c, .zpopmin c]

/-- the sorted set holds exactly the `k` heaviest of the offered (element, estimate) pairs -/
def post (k : Nat) (offered : List HElem) (z : List HElem) : Bool :=
  z == (TopK.sortBy TopK.zLt offered).drop (offered.length - k)

def s0 : St := { z := [] }
/-- k = 1; client A offers ("a", 5), client B offers ("b", 1) -/
def pA : List Cmd := insertProg false "a" 5
def pB : List Cmd := insertProg true "b" 1

/-- both see an empty set, both add, both then see two members, both pop -/
def bad : List Cmd :=
  [.zcard false, .zrange false 5, .zcard true, .zrange true 1,
   .zscore false "a", .zrem false "a", .zadd false "a" 5,
   .zscore true "b", .zrem true "b", .zadd true "b" 1,
   .zcard2 false, .zcard2 true, .zpopmin false, .zpopmin true]

theorem bad_interleaving : Interleaving [pA, pB] bad :=
  Interleaving.of_pick (is := [0, 0, 1, 1, 0, 0, 0, 1, 1, 1, 0, 1, 0, 1]) (by decide)

end C16TopK

open C16TopK in
/-- **D21 (Top-K).**  k = 1, two clients offering a heavy and a light element: there is an
    interleaving of the `Insert` command sequences after which the sorted set does not hold the
    heaviest element (it is EMPTY: both clients popped), while both sequential orders end with
    exactly the heavy element. -/
theorem C16_topk_counterexample :
    ∃ (k : Nat) (s0 : St) (a b : HElem) (pA pB w : List Cmd),
      pA = insertProg false a.1 a.2 ∧ pB = insertProg true b.1 b.2 ∧
      Interleaving [pA, pB] w ∧
      post k [a, b] (exec (step k) s0 w).z = false ∧
      post k [a, b] (exec (step k) s0 (pA ++ pB)).z = true ∧
      post k [a, b] (exec (step k) s0 (pB ++ pA)).z = true :=
  ⟨1, C16TopK.s0, ("a", 5), ("b", 1), pA, pB, bad, rfl, rfl, bad_interleaving,
    by decide, by decide, by decide⟩

namespace C16TopK

theorem bad_run_detail : (exec (step 1) s0 bad).z = [] := by decide

/-- both sequential orders end with the heavy element and agree with the sequential model
    `TopK.offerRedis` (Model/TopK.lean) -/
theorem seq_runs_detail :
    (exec (step 1) s0 (pA ++ pB)).z = [("a", 5)] ∧
    (exec (step 1) s0 (pB ++ pA)).z = [("a", 5)] ∧
    TopK.offerRedis 1 (TopK.offerRedis 1 [] "a" 5) "b" 1 = [("a", 5)] ∧
    TopK.offerRedis 1 (TopK.offerRedis 1 [] "b" 1) "a" 5 = [("a", 5)] := by decide

/-- one client alone: the command program computes `TopK.offerRedis`, for every `k`, sorted set,
    element and estimate -/
theorem insertProg_alone (k : Nat) (z : List HElem) (x : String) (f : Nat) :
    (exec (step k) { z := z } (insertProg false x f)).z = TopK.offerRedis k z x f := by
  have hz : ∀ z' : List HElem, TopK.zadd (z'.filter (fun e => e.1 != x)) x f = TopK.zadd z' x f := by
    intro z'; simp [TopK.zadd]
  simp only [exec, insertProg, List.foldl_cons, List.foldl_nil, step, St.loc, St.setLoc,
    TopK.offerRedis, Bool.false_eq_true, if_false]
  generalize (decide (z.length < k) ||
    match z.head? with | some mn => decide (f ≥ mn.snd) | none => false) = go
  generalize (match List.find? (fun e => e.fst == x) z with | some e => e.snd | none => 0) = sc
  cases go <;> by_cases hs : sc > 0 <;> by_cases hk : (TopK.zadd z x f).length > k <;>
    simp [hs, hk, hz]

end C16TopK

/-! ### non-vacuity -/
namespace C16Example

/-- two clients, two Bloom inserts each; one interleaving of the 8 SETBIT steps -/
def clients : List (List (List Nat)) := [[[0, 1], [2, 5]], [[1, 3], [0, 4]]]
def w : List Nat := [0, 1, 1, 3, 2, 0, 5, 4]

theorem w_interleaving : Interleaving (clients.map List.flatten) w :=
  Interleaving.of_pick (is := [0, 1, 0, 1, 0, 1, 0, 1]) (by decide)

example : exec setBit (List.replicate 8 false) w
    = [[0, 4], [0, 1], [2, 5], [1, 3]].foldl Bloom.setBits (List.replicate 8 false) :=
  C16_bloom _ clients w w_interleaving _ (by decide)

example : exec setBit (List.replicate 8 false) w = [true, true, true, true, true, true, false, false] := by
  decide

example : Bloom.lookup { Bloom.new 8 2 with bits := exec setBit (Bloom.new 8 2).bits w } [0, 4] = true :=
  C16_bloom_not_lost (Bloom.new 8 2) clients w w_interleaving [0, 4] (by decide) (by decide)

/-- two clients updating a 2×4 Count-Min sketch: both orders of the interleaving agree -/
example : exec cmsStep (CMS.new 2 4) [([1, 2], 3), ([1, 0], 2), ([3, 3], 1)]
    = [([3, 3], 1), ([1, 2], 3), ([1, 0], 2)].foldl (fun s u => s.update u.1 u.2) (CMS.new 2 4) :=
  C16_cms _ [[([1, 2], 3), ([3, 3], 1)], [([1, 0], 2)]] _
    (Interleaving.of_pick (is := [0, 1, 0]) (by decide)) _ (by decide)

example : (exec cmsStep (CMS.new 2 4) [([1, 2], 3), ([1, 0], 2), ([3, 3], 1)]).m
    = [[0, 5, 0, 1], [2, 0, 3, 1]] := by decide

example : exec HLL.upd [0, 0, 0, 0] [(1, 7), (1, 3), (2, 4)] = [(2, 4), (1, 3), (1, 7)].foldl HLL.upd [0, 0, 0, 0] :=
  C16_hll _ [[(1, 7), (2, 4)], [(1, 3)]] _
    (Interleaving.of_pick (is := [0, 1, 0]) (by decide)) _ (by decide)

example : exec HLL.upd [0, 0, 0, 0] [(1, 7), (1, 3), (2, 4)] = [0, 7, 4, 0] := by decide

end C16Example

end Gostatix
