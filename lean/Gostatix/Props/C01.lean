/-
  C01 — Bloom filter never returns a false negative.
  Theorems are for an ARBITRARY probe function `probes : E → List Nat` whose positions are in
  range; the correspondence suite `bloom` checks that the implementation is an instance.
-/
import Gostatix.Model.Bloom
namespace Gostatix.Bloom

/-! ### helper lemmas -/

theorem setBits_length (bits : List Bool) (ps : List Nat) : (setBits bits ps).length = bits.length := by
  induction ps generalizing bits with
  | nil => rfl
  | cons p ps ih => simp [setBits, List.foldl_cons] at *; rw [ih]; simp

theorem setBits_mono (bits : List Bool) (ps : List Nat) (q : Nat) (h : bits.getD q false = true) :
    (setBits bits ps).getD q false = true := by
  induction ps generalizing bits with
  | nil => simpa [setBits] using h
  | cons p ps ih =>
    simp only [setBits, List.foldl_cons]
    apply ih
    by_cases e : p = q
    · subst e
      by_cases hl : p < bits.length
      · simp [List.getD_eq_getElem?_getD, List.getElem?_set_self hl]
      · have : bits.getD p false = false := by simp [List.getD_eq_getElem?_getD, List.getElem?_eq_none (by omega : bits.length ≤ p)]
        rw [this] at h; cases h
    · simp [List.getD_eq_getElem?_getD, List.getElem?_set_ne e] at h ⊢; exact h

theorem setBits_sets (bits : List Bool) (ps : List Nat) (q : Nat) (hq : q ∈ ps) (hr : q < bits.length) :
    (setBits bits ps).getD q false = true := by
  induction ps generalizing bits with
  | nil => cases hq
  | cons p ps ih =>
    simp only [setBits, List.foldl_cons]
    by_cases e : q = p
    · subst e
      apply setBits_mono
      simp [List.getD_eq_getElem?_getD, List.getElem?_set_self hr]
    · have : q ∈ ps := by
        cases hq with
        | head => exact absurd rfl e
        | tail _ h => exact h
      exact ih (bits.set p true) this (by simpa using hr)

theorem lookup_mono (b b' : Bloom) (ps : List Nat)
    (hle : ∀ q, b.bits.getD q false = true → b'.bits.getD q false = true)
    (h : b.lookup ps = true) : b'.lookup ps = true := by
  simp only [lookup, List.all_eq_true] at *
  intro p hp; exact hle p (h p hp)

theorem insert_bits_mono (b : Bloom) (ps : List Nat) (q : Nat) (h : b.bits.getD q false = true) :
    (b.insert ps).bits.getD q false = true := setBits_mono b.bits ps q h

theorem step_bits_mono {E} (probes : E → List Nat) (b : Bloom) (op : BloomOp E) (q : Nat)
    (h : b.bits.getD q false = true) : (step probes b op).bits.getD q false = true := by
  cases op with
  | insert e => exact insert_bits_mono b _ q h
  | lookup e => exact h

theorem run_bits_mono {E} (probes : E → List Nat) (b : Bloom) (h : List (BloomOp E)) (q : Nat)
    (hq : b.bits.getD q false = true) : (run probes b h).bits.getD q false = true := by
  induction h generalizing b with
  | nil => exact hq
  | cons op h ih => exact ih _ (step_bits_mono probes b op q hq)

theorem step_length {E} (probes : E → List Nat) (b : Bloom) (op : BloomOp E) :
    (step probes b op).bits.length = b.bits.length := by
  cases op with
  | insert e => exact setBits_length _ _
  | lookup e => rfl

theorem run_length {E} (probes : E → List Nat) (b : Bloom) (h : List (BloomOp E)) :
    (run probes b h).bits.length = b.bits.length := by
  induction h generalizing b with
  | nil => rfl
  | cons op h ih => simp only [run, List.foldl_cons] at *; rw [ih]; exact step_length probes b op

/-! ### property theorems -/

/-- Immediately after `Insert x`, `Lookup x` is true (probes in range). -/
theorem C01_insert_then_lookup (b : Bloom) (ps : List Nat) (hr : ∀ p ∈ ps, p < b.bits.length) :
    (b.insert ps).lookup ps = true := by
  simp only [lookup, insert, List.all_eq_true]
  intro p hp
  exact setBits_sets b.bits ps p hp (hr p hp)

/-- **No false negatives**: for every history `h₁ ++ [insert x] ++ h₂` of inserts and lookups of
    arbitrary elements, starting from any filter state `b`, `Lookup x` on the resulting state is
    true — for every probe function whose positions for `x` are in range. -/
theorem C01_no_false_negative {E} (probes : E → List Nat) (b : Bloom)
    (h₁ h₂ : List (BloomOp E)) (x : E)
    (hr : ∀ p ∈ probes x, p < b.bits.length) :
    (run probes b (h₁ ++ [BloomOp.insert x] ++ h₂)).lookup (probes x) = true := by
  have e : run probes b (h₁ ++ [BloomOp.insert x] ++ h₂)
      = run probes ((run probes b h₁).insert (probes x)) h₂ := by
    simp [run, List.foldl_append, step]
  rw [e]
  apply lookup_mono ((run probes b h₁).insert (probes x))
  · intro q hq; exact run_bits_mono probes _ h₂ q hq
  · apply C01_insert_then_lookup
    intro p hp; rw [run_length]; exact hr p hp

/-- A filter into which nothing was inserted reports every element absent
    (the element has at least one probe, i.e. `numHashes ≥ 1`, which the constructors clamp). -/
theorem C01_empty_absent (size k : Nat) (ps : List Nat) (hne : ps ≠ []) :
    (Bloom.new size k).lookup ps = false := by
  cases ps with
  | nil => exact absurd rfl hne
  | cons p ps =>
    simp only [lookup, new, List.all_cons, Bool.and_eq_false_iff]
    left
    simp only [List.getD_eq_getElem?_getD, List.getElem?_replicate]
    split <;> rfl

/-- lookups (of anything) never change the filter, so a fresh filter stays "all absent"
    under any number of lookups. -/
theorem C01_lookups_keep_empty {E} (probes : E → List Nat) (size k : Nat) (xs : List E) (y : E)
    (hne : probes y ≠ []) :
    (run probes (Bloom.new size k) (xs.map BloomOp.lookup)).lookup (probes y) = false := by
  have : run probes (Bloom.new size k) (xs.map BloomOp.lookup) = Bloom.new size k := by
    induction xs with
    | nil => rfl
    | cons x xs ih => simpa [run, step] using ih
  rw [this]; exact C01_empty_absent size k _ hne

/-- The transcribed `getIndex` is always in range for `size ≥ 1`: `bitset.Set` never has to grow
    the set and `Test` never reads past the end. -/
theorem C01_probe_in_range (h1 h2 i size : Nat) (hs : 1 ≤ size) : getIndex h1 h2 i size < size := by
  unfold getIndex; exact Nat.mod_lt _ (by omega)

theorem C01_probesOf_in_range (h1 h2 k size : Nat) (hs : 1 ≤ size) :
    ∀ p ∈ probesOf h1 h2 k size, p < size := by
  intro p hp
  simp only [probesOf, List.mem_map, List.mem_range] at hp
  obtain ⟨i, _, rfl⟩ := hp
  exact C01_probe_in_range h1 h2 i size hs

/-- `probesOf` has `k` probes, so it is non-empty once `k ≥ 1`. -/
theorem C01_probesOf_nonempty (h1 h2 k size : Nat) (hk : 1 ≤ k) : probesOf h1 h2 k size ≠ [] := by
  intro h
  have : (probesOf h1 h2 k size).length = k := by simp [probesOf]
  rw [h] at this; simp at this; omega

/-- The end-to-end statement for the concrete probing scheme of the code: any constructor
    parameters (clamped to ≥ 1), any two hash words per element. -/
theorem C01_no_false_negative_concrete {E} (hash : E → Nat × Nat) (size k : Nat)
    (h₁ h₂ : List (BloomOp E)) (x : E) :
    let b := Bloom.new size k
    let probes := fun e => probesOf (hash e).1 (hash e).2 b.k b.size
    (run probes b (h₁ ++ [BloomOp.insert x] ++ h₂)).lookup (probes x) = true := by
  intro b probes
  apply C01_no_false_negative
  intro p hp
  have : b.bits.length = b.size := by simp [b, new]
  rw [this]
  exact C01_probesOf_in_range _ _ _ _ (by simp [b, new]; omega) p hp

/-- non-vacuity: a concrete non-trivial state and history meet the hypotheses. -/
example : (run (fun (e : Nat) => [e % 5, (e + 2) % 5]) (Bloom.new 5 2)
    [.insert 1, .insert 7, .lookup 3, .insert 4]).lookup [7 % 5, (7+2) % 5] = true := by decide

end Gostatix.Bloom
