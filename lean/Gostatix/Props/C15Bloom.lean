/-
  C15 (Bloom clause) — the false-positive rate of the Bloom filter under IDEAL hashing, by
  counting.  Companion of `Props/C15Prob.lean` (Count-Min clause); helper lemmas in
  `Gostatix/Proofs/BloomProb.lean`.

  SETTING.  `E` a finite universe of elements (`Fintype`, `DecidableEq`), `m` bits, `k` probes.
  The ideal hash family is the finite type of ALL functions `g : E → Fin k → Fin m`: drawing `g`
  uniformly means every probe of every element is uniform on the `m` bits and all probes are
  independent.  "Probability" = fraction of this finite family (no measure theory).  The filter is
  the executable model of `Model/Bloom.lean` (`Bloom.new m k`, `insert`, `lookup`, `run`), run
  with the probe function `idealProbes g x = [g x 0, …, g x (k-1)]`, which is an in-range probe
  function in the sense of `Props/C01.lean` (`idealProbes_in_range`).
  `presentSet m k h y` = the set of `g` for which `Lookup y` answers "present" after the history
  `h` (inserts and lookups) was run on the empty filter; for `y` never inserted by `h` it is the
  false-positive event.  `insertsOf h` = the elements `h` inserts; for `h = S.map insert` it is `S`.

  WHAT IS PROVED (all for every `m k`, also the degenerate `m = 0`, `k = 0`, where both sides
  degenerate consistently; the only hypothesis is that `y` is not inserted).
   1. `C15_bloom_fp_union_bound`       #FP · m^k ≤ (k·|S|)^k · #family      (ℕ, multiplication only)
      `C15_bloom_fp_union_bound'`      the same with the event spelled out on the model;
      `…_history`                      for any history of inserts/lookups, n = number of inserts;
      `…_distinct`                     sharpest: (min m (k · #distinct inserted))^k.
      Proof: double counting (`card_mem_mul_card`): the set `B g` of set bits does not depend on
      `g y` (`bitSet_update`), `Lookup y` ⇔ all `k` probes of `y` lie in `B g`
      (`lookup_iff_forall_mem`, from the model's `lookup`/`run`, using the exact description of
      the set bits `run_getD_iff`), and `#B g ≤ k · n` (`card_bitSet_le`).
      `C15_bloom_member_always_present`, `C15_bloom_fp_union_bound_needs_not_mem`: the hypothesis
      `y ∉ S` is necessary — an inserted `y` is present for EVERY `g` (C01), so the bound fails
      whenever it is non-trivial (`k·|S| < m`, `0 < k`).
      `C15_bloom_fp_union_bound_tight`: for `k = 1`, `|S| = 1` the bound is an equality.
   2. `C15_bloom_fp_fraction_le`       #FP / #family ≤ (k·|S| / m)^k         (ℝ)
      `…_capacity` (|S| ≤ n ⇒ ≤ (k·n/m)^k), `…_distinct`, `…_history`.
   3. Constructor sizing.  `NewMemBloomFilterWithParameters(n, p)` takes
      `m = bloomSize n p = ⌈n·ln(1/p)/ln²2⌉`, `k = bloomK m n = ⌈⌊m/n⌋·ln 2⌉` (`Props/C15.lean`).
      `C15_bloom_load_le`              k·n/m ≤ ln 2 + n/m
      `C15_bloom_inv_load_le`          n/m ≤ ln²2 / ln(1/p)                  (0 < p < 1)
      `C15_bloom_k_ge`                 k ≥ log₂(1/p) − ln 2
      `C15_bloom_fp_sized`             fraction ≤ (ln 2 + n/m)^k             (|S| ≤ n, n ≥ 1)
      `C15_bloom_fp_sized_p`           fraction ≤ (ln 2 + ln²2/ln(1/p))^k    (0 < p < 1)
      `C15_bloom_base_lt_one`          that base is < 1 for p ≤ 1/5 (exactly: p < 0.2089…)
      `C15_bloom_fp_sized_rpow`        fraction ≤ c^(log₂(1/p) − ln 2), c = ln 2 + ln²2/ln(1/p)
      `C15_bloom_rate_exponent`        c^(log₂(1/p)) = p^(log₂(1/c))
      `C15_bloom_example_dims/_bound`  n = 100, p = 1/16: m = 578, k = 4, fraction ≤ (400/578)^4
                                       < 0.23 — the advertised rate is 0.0625.
   4. `C15_bloom_fp_exact_sum`         #FP · m^k = Σ_g (#B g)^k              (exact)
      `C15_bloom_fp_occupancy`         #FP · m^k = Σ_B #{g | B g = B} · (#B)^k
      i.e. P(FP) = E[(occupied fraction)^k]; the occupancy distribution `#{g | B g = B}` is left
      as it is (no closed form is proved).

  HOW FAR THIS IS FROM THE ADVERTISED `p`.  The union bound is a real but LOOSE guarantee.  With
  `k ≈ (m/n)·ln 2` it gives `(ln 2 + n/m)^k`, and since `c → ln 2` as `p → 0` this is about
  `p^(log₂(1/ln 2)) = p^0.5288…`: roughly the SQUARE ROOT of the advertised rate (n = 100,
  p = 1/16: 0.229 against 0.0625; the numeric value 0.5288 of the exponent is a remark, not a
  theorem).  The reason is that the union bound charges `k` distinct bits per inserted element,
  i.e. bounds the occupied fraction by `k·n/m ≈ ln 2 ≈ 0.69`, whereas the typical occupied
  fraction is `1 − e^{−kn/m} ≈ 1/2`.  The classical estimate `(1 − e^{−kn/m})^k ≈ p` is an
  APPROXIMATION (it replaces the random occupancy by its mean and `(1−1/m)^{kn}` by `e^{−kn/m}`)
  and is NOT proved here; an exact statement needs the occupancy distribution of item 4.
  Nothing here shows that the constructor's filter achieves rate `p`, not even for ideal hashing.

  WHAT IS NOT PROVED / NOT IN SCOPE.  The code does NOT hash like this.  `getPositions` computes ONE
  128-bit metro hash `(h1, h2)` per element and derives the `k` probes by enhanced double hashing
  `(h1 + i·h2 + (i³−i)/6) mod 2^64 mod m` (`C15_probes_scheme`): the `k` probes of one element
  are functions of two words and NOT independent, and nothing is known here about the
  distribution of metro hash outputs.  Float rounding of the sizing formulas is not modelled
  (`bloomSize`, `bloomK` are over ℝ).  So these theorems are about the filter ALGORITHM and the
  sizing FORMULAS under an idealised hash family; the false-positive frequency of the actual hash
  scheme is only MEASURED, by the harness suite `sizing`.
-/
import Mathlib.Analysis.Complex.ExponentialBounds
import Mathlib.Analysis.SpecialFunctions.Pow.Real
import Gostatix.Props.C15
import Gostatix.Proofs.BloomProb
namespace Gostatix.Sizing
open Real Finset Gostatix.Bloom

section ideal
variable {E : Type} [Fintype E] [DecidableEq E]

/-- the members `g` of the ideal hash family `E → Fin k → Fin m` for which, after running the
    history `h` on the empty `m`-bit filter with the probes of `g`, `Lookup y` answers "present".
    For `y` not inserted by `h` this is the FALSE-POSITIVE event of `y`. -/
def presentSet (m k : ℕ) (h : List (BloomOp E)) (y : E) : Finset (E → Fin k → Fin m) :=
  univ.filter (fun g =>
    (run (idealProbes g) (Bloom.new m k) h).lookup (idealProbes g y) = true)

theorem mem_presentSet (m k : ℕ) (h : List (BloomOp E)) (y : E) (g : E → Fin k → Fin m) :
    g ∈ presentSet m k h y
      ↔ (run (idealProbes g) (Bloom.new m k) h).lookup (idealProbes g y) = true := by
  simp [presentSet]

/-- size of the ideal family: `m^k` probe vectors per element. -/
theorem card_family (m k : ℕ) :
    Fintype.card (E → Fin k → Fin m) = (m ^ k) ^ Fintype.card E := by
  rw [Fintype.card_fun, Fintype.card_fun, Fintype.card_fin, Fintype.card_fin]

/-- **exact count, first form** (item 4): for `y` never inserted,
    `#FP · m^k = Σ_g #(bits set under g)^k`, i.e. the false-positive probability is the MEAN over
    the family of `(occupied fraction)^k`. -/
theorem C15_bloom_fp_exact_sum (m k : ℕ) (h : List (BloomOp E)) (y : E)
    (hy : y ∉ insertsOf h) :
    (presentSet m k h y).card * m ^ k
      = ∑ g : E → Fin k → Fin m, (bitSet g h).card ^ k := by
  have key := card_mem_mul_card (F := Fin k → Fin m) y
    (fun g => Fintype.piFinset (fun _ : Fin k => bitSet g h))
    (fun g v => by rw [bitSet_update g h y hy v])
  have hset : presentSet m k h y
      = univ.filter (fun g : E → Fin k → Fin m =>
          g y ∈ Fintype.piFinset (fun _ : Fin k => bitSet g h)) := by
    ext g
    simp only [mem_presentSet, lookup_iff_forall_mem, mem_filter, mem_univ, true_and,
      Fintype.mem_piFinset]
  rw [hset]
  simpa [Fintype.card_piFinset] using key

/-- **exact count, occupancy form** (item 4): grouping the family by the bit set `B` that the
    inserted elements produce,
    `#FP · m^k = Σ_B #{g | the inserts set exactly the bits B} · #B^k`.
    This is `P(FP) = Σ_B P(bit set = B) · (#B/m)^k`: the dependence on the occupancy distribution
    is explicit; no closed form for `#{g | bitSet g h = B}` is proved. -/
theorem C15_bloom_fp_occupancy (m k : ℕ) (h : List (BloomOp E)) (y : E)
    (hy : y ∉ insertsOf h) :
    (presentSet m k h y).card * m ^ k
      = ∑ B : Finset (Fin m),
          (univ.filter (fun g : E → Fin k → Fin m => bitSet g h = B)).card * B.card ^ k := by
  rw [C15_bloom_fp_exact_sum m k h y hy]
  exact sum_card_fiberwise (fun g : E → Fin k → Fin m => bitSet g h) (fun B => B.card ^ k)

/-- union bound, sharpest form: `n` = number of DISTINCT inserted elements, and the occupied set
    can never exceed `m` bits. -/
theorem C15_bloom_fp_union_bound_distinct (m k : ℕ) (h : List (BloomOp E)) (y : E)
    (hy : y ∉ insertsOf h) :
    (presentSet m k h y).card * m ^ k
      ≤ (min m (k * (insertsOf h).toFinset.card)) ^ k
          * Fintype.card (E → Fin k → Fin m) := by
  rw [C15_bloom_fp_exact_sum m k h y hy, ← Finset.card_univ, Nat.mul_comm,
    ← smul_eq_mul, ← Finset.sum_const]
  apply Finset.sum_le_sum
  intro g _
  apply Nat.pow_le_pow_left
  apply le_min (card_bitSet_le_m g h)
  rw [Nat.mul_comm]
  exact card_bitSet_le g h

/-- union bound for an arbitrary history of inserts and lookups in which `y` is never inserted;
    `n` = number of insert operations. -/
theorem C15_bloom_fp_union_bound_history (m k : ℕ) (h : List (BloomOp E)) (y : E)
    (hy : y ∉ insertsOf h) :
    (presentSet m k h y).card * m ^ k
      ≤ (k * (insertsOf h).length) ^ k * Fintype.card (E → Fin k → Fin m) := by
  refine le_trans (C15_bloom_fp_union_bound_distinct m k h y hy) ?_
  apply Nat.mul_le_mul_right
  apply Nat.pow_le_pow_left
  exact le_trans (min_le_right _ _) (Nat.mul_le_mul_left _ (List.toFinset_card_le _))

/-- **C15, Bloom clause, ideal hashing: the union bound** (item 1).  Insert the elements of `S`
    into the empty `m`-bit filter with `k` probes per element, every probe of every element drawn
    uniformly and independently (`g` ranges over ALL functions `E → Fin k → Fin m`).  For `y ∉ S`
    the number of `g` with a false positive at `y`, times `m^k`, is at most `(k·|S|)^k` times the
    size of the family: the false-positive probability is at most `(k·|S|/m)^k`. -/
theorem C15_bloom_fp_union_bound (m k : ℕ) (S : List E) (y : E) (hy : y ∉ S) :
    (presentSet m k (S.map BloomOp.insert) y).card * m ^ k
      ≤ (k * S.length) ^ k * Fintype.card (E → Fin k → Fin m) := by
  have := C15_bloom_fp_union_bound_history m k (S.map BloomOp.insert) y (by simpa using hy)
  simpa using this

/-- the same with the event written out (no auxiliary definition in the statement). -/
theorem C15_bloom_fp_union_bound' (m k : ℕ) (S : List E) (y : E) (hy : y ∉ S) :
    (univ.filter (fun g : E → Fin k → Fin m =>
        (run (fun x => List.ofFn (fun i => (g x i : ℕ))) (Bloom.new m k)
            (S.map BloomOp.insert)).lookup (List.ofFn (fun i => (g y i : ℕ))) = true)).card
      * m ^ k
      ≤ (k * S.length) ^ k * Fintype.card (E → Fin k → Fin m) :=
  C15_bloom_fp_union_bound m k S y hy

/-- the hypothesis `y ∉ S` is needed, in the strongest way: an inserted element is reported
    present by EVERY member of the family (this is C01, no false negatives) … -/
theorem C15_bloom_member_always_present (m k : ℕ) (h₁ h₂ : List (BloomOp E)) (y : E) :
    presentSet m k (h₁ ++ [BloomOp.insert y] ++ h₂) y = univ := by
  ext g
  simp only [mem_presentSet, mem_univ, iff_true]
  exact C01_no_false_negative (idealProbes g) (Bloom.new m k) h₁ h₂ y (idealProbes_in_range g y)

/-- … so for `y ∈ S` the bound is false as soon as it is non-trivial (`k·|S| < m`, `0 < k`). -/
theorem C15_bloom_fp_union_bound_needs_not_mem (m k : ℕ) (S : List E) (y : E) (hy : y ∈ S)
    (hk : 0 < k) (hlt : k * S.length < m) :
    ¬ (presentSet m k (S.map BloomOp.insert) y).card * m ^ k
      ≤ (k * S.length) ^ k * Fintype.card (E → Fin k → Fin m) := by
  obtain ⟨s, t, rfl⟩ := List.append_of_mem hy
  have e : (s ++ y :: t).map BloomOp.insert
      = s.map BloomOp.insert ++ [BloomOp.insert y] ++ t.map BloomOp.insert := by simp
  rw [e, C15_bloom_member_always_present, Finset.card_univ, Nat.mul_comm, not_le]
  have hm : 0 < m := by omega
  have hW : 0 < Fintype.card (E → Fin k → Fin m) := by
    rw [card_family]; positivity
  exact Nat.mul_lt_mul_of_pos_right (Nat.pow_lt_pow_left hlt (by omega)) hW

/-- the union bound is attained: one probe, one inserted element — exactly a `1/m` fraction of
    the family has a false positive at any other element. -/
theorem C15_bloom_fp_union_bound_tight (m : ℕ) (x y : E) (hxy : y ≠ x) :
    (presentSet m 1 [BloomOp.insert x] y).card * m ^ 1
      = (1 * [x].length) ^ 1 * Fintype.card (E → Fin 1 → Fin m) := by
  have h := C15_bloom_fp_exact_sum m 1 [BloomOp.insert x] y (by simpa [insertsOf] using hxy)
  rw [h, List.length_singleton, Nat.mul_one, Nat.pow_one, Nat.one_mul, ← Finset.card_univ,
    Finset.card_eq_sum_ones]
  apply Finset.sum_congr rfl
  intro g _
  rw [pow_one, bitSet_eq_biUnion]
  simp [insertsOf]

/-! ### the same bounds as fractions, in ℝ (item 2) -/

/-- a multiplication-only count bound as a bound on the fraction; no positivity hypotheses: with
    an empty family or `m = 0` both sides degenerate consistently (`x / 0 = 0` in ℝ). -/
theorem fraction_le_of_count (m k : ℕ) (A c : ℕ) (y : E)
    (hA : A ≤ Fintype.card (E → Fin k → Fin m))
    (hcount : A * m ^ k ≤ c ^ k * Fintype.card (E → Fin k → Fin m)) :
    (A : ℝ) / (Fintype.card (E → Fin k → Fin m) : ℝ) ≤ ((c : ℝ) / m) ^ k := by
  set W := Fintype.card (E → Fin k → Fin m) with hWdef
  rcases Nat.eq_zero_or_pos W with hW | hW
  · rw [hW]; simp; positivity
  have hWr : (0 : ℝ) < W := by exact_mod_cast hW
  rcases Nat.eq_zero_or_pos k with hk | hk
  · subst hk
    rw [pow_zero, div_le_one hWr]
    exact_mod_cast hA
  rcases Nat.eq_zero_or_pos m with hm | hm
  · exfalso
    have hE : 0 < Fintype.card E := Fintype.card_pos_iff.mpr ⟨y⟩
    have : W = 0 := by
      rw [hWdef, card_family, hm, zero_pow (by omega), zero_pow (by omega)]
    omega
  have hmr : (0 : ℝ) < (m : ℝ) ^ k := by positivity
  rw [div_pow, div_le_div_iff₀ hWr hmr]
  exact_mod_cast hcount

/-- **the union bound as a probability** (item 2): the fraction of the ideal family with a false
    positive at `y ∉ S` is at most `(k·|S|/m)^k`. -/
theorem C15_bloom_fp_fraction_le (m k : ℕ) (S : List E) (y : E) (hy : y ∉ S) :
    ((presentSet m k (S.map BloomOp.insert) y).card : ℝ)
        / (Fintype.card (E → Fin k → Fin m) : ℝ)
      ≤ (((k * S.length : ℕ) : ℝ) / m) ^ k :=
  fraction_le_of_count m k _ _ y (Finset.card_le_univ _)
    (C15_bloom_fp_union_bound m k S y hy)

/-- the same for a filter dimensioned for `n` elements that holds at most `n`: `(k·n/m)^k`. -/
theorem C15_bloom_fp_fraction_le_capacity (m k n : ℕ) (S : List E) (y : E) (hy : y ∉ S)
    (hn : S.length ≤ n) :
    ((presentSet m k (S.map BloomOp.insert) y).card : ℝ)
        / (Fintype.card (E → Fin k → Fin m) : ℝ)
      ≤ ((k : ℝ) * n / m) ^ k := by
  refine le_trans (C15_bloom_fp_fraction_le m k S y hy) ?_
  apply pow_le_pow_left₀ (by positivity)
  apply div_le_div_of_nonneg_right _ (Nat.cast_nonneg m)
  rw [Nat.cast_mul]
  exact mul_le_mul_of_nonneg_left (by exact_mod_cast hn) (Nat.cast_nonneg k)

/-- distinct-element, capped form as a fraction: `(min m (k·#distinct) / m)^k` — never above 1. -/
theorem C15_bloom_fp_fraction_le_distinct (m k : ℕ) (S : List E) (y : E) (hy : y ∉ S) :
    ((presentSet m k (S.map BloomOp.insert) y).card : ℝ)
        / (Fintype.card (E → Fin k → Fin m) : ℝ)
      ≤ (((min m (k * S.toFinset.card) : ℕ) : ℝ) / m) ^ k := by
  have := C15_bloom_fp_union_bound_distinct m k (S.map BloomOp.insert) y (by simpa using hy)
  rw [insertsOf_map_insert] at this
  exact fraction_le_of_count m k _ _ y (Finset.card_le_univ _) this

/-- the fraction form for an arbitrary history (`n` = number of insert operations). -/
theorem C15_bloom_fp_fraction_le_history (m k : ℕ) (h : List (BloomOp E)) (y : E)
    (hy : y ∉ insertsOf h) :
    ((presentSet m k h y).card : ℝ) / (Fintype.card (E → Fin k → Fin m) : ℝ)
      ≤ (((k * (insertsOf h).length : ℕ) : ℝ) / m) ^ k :=
  fraction_le_of_count m k _ _ y (Finset.card_le_univ _)
    (C15_bloom_fp_union_bound_history m k h y hy)

end ideal

/-! ### the constructor's sizing (item 3) -/

/-- `k·n/m ≤ ln 2 + n/m` for the `k` of `CalculateNumHashes`: `k = ⌈⌊m/n⌋·ln 2⌉ < (m/n)·ln 2 + 1`.
    (For `m = 0` both sides are read with `x / 0 = 0`.) -/
theorem C15_bloom_load_le (m n : ℕ) (hn : 0 < n) :
    (bloomK m n : ℝ) * n / m ≤ log 2 + (n : ℝ) / m := by
  have hl2 : 0 < log 2 := log_pos (by norm_num)
  rcases Nat.eq_zero_or_pos m with hm | hm
  · subst hm; simp; exact hl2.le
  have hmr : (0 : ℝ) < m := by exact_mod_cast hm
  have hnr : (0 : ℝ) < n := by exact_mod_cast hn
  have h1 : (bloomK m n : ℝ) < ((m / n : ℕ) : ℝ) * log 2 + 1 :=
    Nat.ceil_lt_add_one (mul_nonneg (Nat.cast_nonneg _) hl2.le)
  have h2 : ((m / n : ℕ) : ℝ) ≤ (m : ℝ) / n := Nat.cast_div_le
  have h3 : (bloomK m n : ℝ) ≤ (m : ℝ) / n * log 2 + 1 := by nlinarith
  rw [div_le_iff₀ hmr]
  calc (bloomK m n : ℝ) * n ≤ ((m : ℝ) / n * log 2 + 1) * n :=
        mul_le_mul_of_nonneg_right h3 hnr.le
    _ = (log 2 + (n : ℝ) / m) * m := by field_simp

/-- `n/m ≤ ln²2 / ln(1/p)` for the `m` of `CalculateFilterSize` (from `C15_bloom_size`). -/
theorem C15_bloom_inv_load_le (n : ℕ) (p : ℝ) (hp : 0 < p) (hp1 : p < 1) :
    (n : ℝ) / (bloomSize n p : ℝ) ≤ (log 2) ^ 2 / log (1 / p) := by
  have hl2 : 0 < log 2 := log_pos (by norm_num)
  have hlp : 0 < log (1 / p) := by
    apply log_pos; rw [one_div]; exact (one_lt_inv₀ hp).mpr hp1
  have hsz := C15_bloom_size n p
  have hlog : log (1 / p) = -log p := by rw [one_div, log_inv]
  rcases Nat.eq_zero_or_pos (bloomSize n p) with hm | hm
  · rw [hm, Nat.cast_zero, div_zero]; exact (div_pos (by positivity) hlp).le
  have hmr : (0 : ℝ) < (bloomSize n p : ℝ) := by exact_mod_cast hm
  rw [div_le_div_iff₀ hmr hlp]
  rw [div_le_iff₀ (by positivity)] at hsz
  rw [hlog]; linarith

/-- the filter the constructor builds for `n ≥ 1`, `0 < p < 1` has at least one bit per element
    times `ln(1/p)/ln²2`; in particular `m ≥ 1`. -/
theorem C15_bloom_size_pos (n : ℕ) (p : ℝ) (hn : 0 < n) (hp : 0 < p) (hp1 : p < 1) :
    0 < bloomSize n p := by
  apply Nat.ceil_pos.mpr
  have hl2 : 0 < log 2 := log_pos (by norm_num)
  have hlp : log p < 0 := log_neg hp hp1
  have hnr : (0 : ℝ) < n := by exact_mod_cast hn
  apply div_pos _ (by positivity)
  nlinarith

/-- lower bound on the number of probes the constructor chooses:
    `k ≥ ⌊m/n⌋·ln 2 > (m/n − 1)·ln 2 ≥ log₂(1/p) − ln 2`. -/
theorem C15_bloom_k_ge (n : ℕ) (p : ℝ) (hn : 0 < n) :
    log (1 / p) / log 2 - log 2 ≤ (bloomK (bloomSize n p) n : ℝ) := by
  have hl2 : 0 < log 2 := log_pos (by norm_num)
  have hnr : (0 : ℝ) < n := by exact_mod_cast hn
  set m := bloomSize n p with hm
  have h1 : ((m / n : ℕ) : ℝ) * log 2 ≤ (bloomK m n : ℝ) := Nat.le_ceil _
  -- ⌊m/n⌋ > m/n - 1
  have h2 : (m : ℝ) / n - 1 < ((m / n : ℕ) : ℝ) := by
    have hlt : m < (m / n + 1) * n := by
      have := Nat.lt_div_mul_add hn (a := m)
      nlinarith [Nat.div_add_mod m n, Nat.mod_lt m hn]
    have hltr : (m : ℝ) < (((m / n : ℕ) : ℝ) + 1) * n := by exact_mod_cast hlt
    rw [sub_lt_iff_lt_add, div_lt_iff₀ hnr]
    exact hltr
  have hsz : -(n * log p) / (log 2) ^ 2 ≤ (m : ℝ) := C15_bloom_size n p
  have hlog : log (1 / p) = -log p := by rw [one_div, log_inv]
  have h3 : log (1 / p) / (log 2) ^ 2 ≤ (m : ℝ) / n := by
    rw [le_div_iff₀ hnr, hlog]
    calc -log p / log 2 ^ 2 * n = -(n * log p) / (log 2) ^ 2 := by ring
      _ ≤ (m : ℝ) := hsz
  have h4 : log (1 / p) / log 2 - log 2 = (log (1 / p) / (log 2) ^ 2 - 1) * log 2 := by
    field_simp
  rw [h4]
  have h5 : (log (1 / p) / (log 2) ^ 2 - 1) * log 2 ≤ ((m / n : ℕ) : ℝ) * log 2 :=
    mul_le_mul_of_nonneg_right (by linarith) hl2.le
  linarith

section sized
variable {E : Type} [Fintype E] [DecidableEq E]

/-- **the union bound for the filter the constructor builds** (item 3).
    `NewMemBloomFilterWithParameters(n, p)` creates `m = bloomSize n p` bits and
    `k = bloomK m n` probes.  If at most `n` elements are inserted, then under ideal hashing the
    false-positive fraction of any `y ∉ S` is at most `(k·n/m)^k ≤ (ln 2 + n/m)^k`. -/
theorem C15_bloom_fp_sized (n : ℕ) (p : ℝ) (hn : 0 < n) (S : List E) (y : E) (hy : y ∉ S)
    (hS : S.length ≤ n) :
    let m := bloomSize n p; let k := bloomK m n
    ((presentSet m k (S.map BloomOp.insert) y).card : ℝ)
        / (Fintype.card (E → Fin k → Fin m) : ℝ)
      ≤ (log 2 + (n : ℝ) / m) ^ k := by
  intro m k
  refine le_trans (C15_bloom_fp_fraction_le_capacity m k n S y hy hS) ?_
  exact pow_le_pow_left₀ (by positivity) (C15_bloom_load_le m n hn) k

/-- … and in terms of the requested error rate only:
    `≤ (ln 2 + ln²2/ln(1/p))^k`, with `k ≥ log₂(1/p) − ln 2` (`C15_bloom_k_ge`). -/
theorem C15_bloom_fp_sized_p (n : ℕ) (p : ℝ) (hn : 0 < n) (hp : 0 < p) (hp1 : p < 1)
    (S : List E) (y : E) (hy : y ∉ S) (hS : S.length ≤ n) :
    let m := bloomSize n p; let k := bloomK m n
    ((presentSet m k (S.map BloomOp.insert) y).card : ℝ)
        / (Fintype.card (E → Fin k → Fin m) : ℝ)
      ≤ (log 2 + (log 2) ^ 2 / log (1 / p)) ^ k := by
  intro m k
  refine le_trans (C15_bloom_fp_sized n p hn S y hy hS) ?_
  have hl2 : 0 < log 2 := log_pos (by norm_num)
  apply pow_le_pow_left₀ (by positivity)
  have := C15_bloom_inv_load_le n p hp hp1
  linarith

/-- the base of that bound is below 1 (so the bound decays with `k`) once
    `ln(1/p)·(1 − ln 2) > ln²2` (`p < 0.2089…`), in particular for every `p ≤ 1/5`. -/
theorem C15_bloom_base_lt_one (p : ℝ) (hp : 0 < p) (hp5 : p ≤ 1 / 5) :
    log 2 + (log 2) ^ 2 / log (1 / p) < 1 := by
  have hl2 : 0 < log 2 := log_pos (by norm_num)
  have hlo := log_two_gt_d9
  have hhi := log_two_lt_d9
  -- ln(1/p) ≥ ln 5 = ln(5/4) + 2 ln 2 ≥ 1/5 + 2 ln 2
  have h5 : 1 / 5 + 2 * log 2 ≤ log (1 / p) := by
    have h4 : log 4 = 2 * log 2 := by
      rw [show (4 : ℝ) = 2 ^ 2 by norm_num, log_pow]; norm_num
    have h54 : 1 / 5 ≤ log (5 / 4 : ℝ) := by
      have := one_sub_inv_le_log_of_pos (show (0 : ℝ) < 5 / 4 by norm_num)
      norm_num at this ⊢; linarith
    have hsplit : log 5 = log (5 / 4 : ℝ) + log 4 := by
      rw [← log_mul (by norm_num) (by norm_num)]; norm_num
    have hmono : log 5 ≤ log (1 / p) := by
      apply log_le_log (by norm_num)
      rw [one_div, le_inv_comm₀ (by norm_num) hp]
      linarith
    linarith
  have hlp : 0 < log (1 / p) := by linarith
  have : (log 2) ^ 2 / log (1 / p) < 1 - log 2 := by
    rw [div_lt_iff₀ hlp]
    nlinarith [mul_lt_mul_of_pos_left hhi hl2]
  linarith

/-- reading the exponent: `c^(log₂(1/p)) = p^(log₂(1/c))`.  With `c → ln 2` the union bound of
    the constructor's filter behaves like `p^(log₂(1/ln 2))`, `log₂(1/ln 2) = 0.5288…`. -/
theorem C15_bloom_rate_exponent (c p : ℝ) (hc : 0 < c) (hp : 0 < p) :
    c ^ (log (1 / p) / log 2) = p ^ (log (1 / c) / log 2) := by
  rw [rpow_def_of_pos hc, rpow_def_of_pos hp, one_div, one_div, log_inv, log_inv]
  congr 1; ring

/-- **p-only form**: for `p ≤ 1/5` the union bound is at most
    `c^(log₂(1/p) − ln 2)` with `c = ln 2 + ln²2/ln(1/p) < 1`.  As `p → 0`, `c → ln 2` and this is
    `≈ p^(log₂(1/ln 2)) = p^0.5288…` — the advertised rate is `p` itself. -/
theorem C15_bloom_fp_sized_rpow (n : ℕ) (p : ℝ) (hn : 0 < n) (hp : 0 < p) (hp5 : p ≤ 1 / 5)
    (S : List E) (y : E) (hy : y ∉ S) (hS : S.length ≤ n) :
    let m := bloomSize n p; let k := bloomK m n
    ((presentSet m k (S.map BloomOp.insert) y).card : ℝ)
        / (Fintype.card (E → Fin k → Fin m) : ℝ)
      ≤ (log 2 + (log 2) ^ 2 / log (1 / p)) ^ (log (1 / p) / log 2 - log 2) := by
  intro m k
  have hp1 : p < 1 := by linarith
  refine le_trans (C15_bloom_fp_sized_p n p hn hp hp1 S y hy hS) ?_
  have hl2 : 0 < log 2 := log_pos (by norm_num)
  have hlp : 0 < log (1 / p) := by
    apply log_pos; rw [one_div]; exact (one_lt_inv₀ hp).mpr hp1
  have hc0 : 0 < log 2 + (log 2) ^ 2 / log (1 / p) := by positivity
  have hc1 := C15_bloom_base_lt_one p hp hp5
  rw [← rpow_natCast]
  exact rpow_le_rpow_of_exponent_ge hc0 hc1.le (C15_bloom_k_ge n p hn)

end sized

/-! ### a worked instance of the constructor: n = 100, p = 1/16 -/

/-- `NewMemBloomFilterWithParameters(100, 1/16)`: 578 bits, 4 probes (over ℝ; the float
    evaluation of the Go code is tie-checked by suite `sizing`). -/
theorem C15_bloom_example_dims : bloomSize 100 (1 / 16) = 578 ∧ bloomK 578 100 = 4 := by
  have hlo := log_two_gt_d9
  have hhi := log_two_lt_d9
  have hl2 : 0 < log 2 := log_pos (by norm_num)
  constructor
  · have h16 : log (1 / 16 : ℝ) = -(4 * log 2) := by
      rw [one_div, log_inv, show (16 : ℝ) = 2 ^ 4 by norm_num, log_pow]; norm_num
    unfold bloomSize
    rw [Nat.ceil_eq_iff (by norm_num), h16]
    have e : -((100 : ℕ) * -(4 * log 2)) / log 2 ^ 2 = 400 / log 2 := by
      field_simp; push_cast; ring
    rw [e]
    constructor
    · rw [lt_div_iff₀ hl2]; norm_num; linarith
    · rw [div_le_iff₀ hl2]; norm_num; linarith
  · unfold bloomK
    rw [Nat.ceil_eq_iff (by norm_num)]
    norm_num
    constructor <;> linarith

/-- for that filter the union bound guarantees a false-positive fraction below 0.23 as long as
    at most 100 elements are inserted; the advertised rate is 1/16 = 0.0625 (and the classical
    approximation `(1 − e^{−400/578})^4 ≈ 0.0622`). -/
theorem C15_bloom_example_bound {E : Type} [Fintype E] [DecidableEq E] (S : List E) (y : E)
    (hy : y ∉ S) (hS : S.length ≤ 100) :
    ((presentSet 578 4 (S.map BloomOp.insert) y).card : ℝ)
        / (Fintype.card (E → Fin 4 → Fin 578) : ℝ) ≤ 0.23 := by
  refine le_trans (C15_bloom_fp_fraction_le_capacity 578 4 100 S y hy hS) ?_
  norm_num

/-! ### non-vacuity and counterexamples on small concrete instances -/

/-- `E = Fin 2`, 3 bits, 2 probes, `S = [0]`, `y = 1`: exactly 27 of the 81 members of the family
    have a false positive (`27 · 3² = 243 = Σ_g #B²`); the union bound allows `(2·1)² · 81 = 324`. -/
example : (presentSet 3 2 [BloomOp.insert (0 : Fin 2)] 1).card = 27 := by decide

example : Fintype.card (Fin 2 → Fin 2 → Fin 3) = 81 := by decide

example : (presentSet 3 2 ([(0 : Fin 2)].map BloomOp.insert) 1).card * 3 ^ 2
    ≤ (2 * [(0 : Fin 2)].length) ^ 2 * Fintype.card (Fin 2 → Fin 2 → Fin 3) :=
  C15_bloom_fp_union_bound 3 2 [0] 1 (by decide)

/-- the hypothesis `y ∉ S` cannot be dropped: with `y = 0 ∈ S` all 81 members answer "present"
    and `81 · 9 > 4 · 81`. -/
example : ¬ (presentSet 3 2 ([(0 : Fin 2)].map BloomOp.insert) 0).card * 3 ^ 2
    ≤ (2 * [(0 : Fin 2)].length) ^ 2 * Fintype.card (Fin 2 → Fin 2 → Fin 3) := by decide

example : ¬ (presentSet 3 2 ([(0 : Fin 2)].map BloomOp.insert) 0).card * 3 ^ 2
    ≤ (2 * [(0 : Fin 2)].length) ^ 2 * Fintype.card (Fin 2 → Fin 2 → Fin 3) :=
  C15_bloom_fp_union_bound_needs_not_mem 3 2 [0] 0 (by decide) (by decide) (by decide)

/-- the capacity hypothesis `|S| ≤ n` of `C15_bloom_fp_fraction_le_capacity` cannot be dropped:
    a filter "dimensioned for n = 0" that holds one element has false positives (2 of 4). -/
example : ¬ (presentSet 2 1 ([(0 : Fin 2)].map BloomOp.insert) 1).card * 2 ^ 1
    ≤ (1 * 0) ^ 1 * Fintype.card (Fin 2 → Fin 1 → Fin 2) := by decide

/-- the exact formula on the same instance (both sides are 243). -/
example : (presentSet 3 2 [BloomOp.insert (0 : Fin 2)] 1).card * 3 ^ 2
    = ∑ g : Fin 2 → Fin 2 → Fin 3, (bitSet g [BloomOp.insert (0 : Fin 2)]).card ^ 2 :=
  C15_bloom_fp_exact_sum 3 2 _ 1 (by decide)

/-- the sized theorem with satisfiable hypotheses: universe `Fin 3`, two inserted elements,
    constructor parameters `n = 100`, `p = 1/16`. -/
example :
    let m := bloomSize 100 (1 / 16); let k := bloomK m 100
    ((presentSet m k ([(0 : Fin 3), 1].map BloomOp.insert) 2).card : ℝ)
        / (Fintype.card (Fin 3 → Fin k → Fin m) : ℝ)
      ≤ (log 2 + (log 2) ^ 2 / log (1 / (1 / 16 : ℝ))) ^ k :=
  C15_bloom_fp_sized_p 100 (1 / 16) (by norm_num) (by norm_num) (by norm_num) [0, 1] 2
    (by decide) (by simp)

end Gostatix.Sizing
