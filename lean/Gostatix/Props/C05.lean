/-
  C05 — HyperLogLog accuracy.  The property's accuracy clause is FALSE of the pinned code
  (finding D4): `getRegisterIndexAndCount` uses the rank `1 + clz64(hash << p)` as the register
  INDEX and `uint8(hash >> (32-p))` as the stored VALUE.  What is proved here is the exact
  characterisation of what the code computes; the full statement is kept below as a comment.

  -- NOT A THEOREM (refuted by `C05_registers_confined` + `C05_update_can_fail`):
  --   after n distinct elements, |Count - n| / n ≤ c · 1.04/√m, and every Update completes.
-/
import Gostatix.Model.HLL
import Gostatix.Props.C06
namespace Gostatix.HLL

theorem clz64_le (x : Nat) : clz64 x ≤ 64 := by unfold clz64; split <;> omega

/-- the register index is always in 1..65, whatever the hash and p -/
theorem C05_index_range (hash p : Nat) : 1 ≤ indexOf hash p ∧ indexOf hash p ≤ 65 := by
  unfold indexOf; have := clz64_le ((hash * 2 ^ p) % 2 ^ 64); omega

/-- the stored value is a byte -/
theorem C05_value_range (hash p : Nat) : valueOf hash p < 256 := by
  unfold valueOf; exact Nat.mod_lt _ (by decide)

/-- `Update` completes iff the rank is below the register count (so for m ≤ 64 there are hashes on
    which it fails: in-memory panic, Redis error) -/
theorem C05_update_ok_iff (s : HLL) (idx val : Nat) :
    (∃ s', s.update idx val = .ok s') ↔ idx < s.regs.length := by
  unfold update; constructor
  · intro ⟨s', h⟩; split at h <;> simp_all
  · intro h; simp [h]

/-- a hash with 63 leading zero bits after the shift has rank 64: `Update` fails for every m ≤ 64 -/
theorem C05_update_can_fail (m : Nat) (hm : m ≤ 64) :
    (HLL.new m).update (indexOf 0 0) (valueOf 0 0) = .panic := by
  have : indexOf 0 0 = 65 := by decide
  simp [update, new, this]; omega

/-- registers outside 1..65 are never written: they stay 0 for every history of updates -/
theorem C05_registers_confined (regs : List Nat) (h : List (Nat × Nat)) (j : Nat)
    (hidx : ∀ iv ∈ h, 1 ≤ iv.1 ∧ iv.1 ≤ 65) (hj : j = 0 ∨ 65 < j) :
    (h.foldl upd regs).getD j 0 = regs.getD j 0 := by
  induction h generalizing regs with
  | nil => rfl
  | cons iv h ih =>
    simp only [List.foldl_cons]
    rw [ih (upd regs iv) (fun x hx => hidx x (List.mem_cons_of_mem _ hx))]
    have := hidx iv List.mem_cons_self
    unfold upd
    exact modAt_getD_ne regs iv.1 j _ 0 (by omega)

/-- hence at most 65 of the m registers can ever be non-zero: for m > 65 the harmonic sum is at
    least m - 65 whatever was inserted, and the raw estimate α·m²/Σ2^(-reg) is bounded by
    α·m²/(m-65) — independent of the number of distinct elements. (statement on the registers) -/
theorem C05_nonzero_registers_bounded (m : Nat) (h : List (Nat × Nat))
    (hidx : ∀ iv ∈ h, 1 ≤ iv.1 ∧ iv.1 ≤ 65) (j : Nat) (hj : 65 < j) :
    (h.foldl upd (List.replicate m 0)).getD j 0 = 0 := by
  rw [C05_registers_confined _ h j hidx (Or.inr hj)]
  simp [List.getD_eq_getElem?_getD, List.getElem?_replicate]
  split <;> rfl

/-- non-vacuity: the concrete index/value functions satisfy the hypotheses -/
example : 1 ≤ indexOf 12345678901234567 7 ∧ indexOf 12345678901234567 7 ≤ 65 := C05_index_range _ _
example : (HLL.new 4).update (indexOf 1 2) (valueOf 1 2) = .panic := by decide

end Gostatix.HLL
