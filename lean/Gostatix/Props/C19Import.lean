/-
  C19Import — the import clause of C19 instantiated on the string-keyed Redis store
  (`Redis.Store`, Model/Redis.lean), and the frames an audit found missing in Props/C19.lean.

  `C19_import_new_keys` (Props/C19.lean) is generic in the import `imp` and assumes
  `SupportedOn K imp`.  Here that hypothesis is PROVED for the `Import(data, withNewKey = true)`
  of the four Redis-backed structures that have one, and the conclusion is drawn for handles with
  distinct 16-letter base keys (`IsBase`, the hypothesis of `C19_disjoint`).

  What an import is here.  Everything after the JSON decoding (the decoding itself does not touch
  Redis; Model/Json.lean and C16 treat it), as an operation `Op ρ = Store → Store × ρ`:

    cmsImportOp   count_min_sketch_redis.go Import → setMatrix
                  = the EXTRACTED script `count_min_sketch_redis_setMatrixScript` run by the
                    interpreter of Model/Lua.lean (`luaOp`), KEYS = [new key],
                    ARGV = len(matrix[0]), flattened matrix.
    hllImportOp   hyperloglog_redis.go Import → importRegisters
                  = the EXTRACTED script `hyperloglog_redis_importRegistersScript`,
                    KEYS = [new key], ARGV = the registers.
    topkImportOp  top_k_redis.go Import (Proofs/C19Import.lean)
                  = the EXTRACTED `top_k_redis_importHeapScript` on the new heap key; then
                    `NewCountMinSketchRedis`: `HSET` of the new sketch's metadata (a go-redis
                    command, no Lua: hand model `cmsCreate` = `cmdHSET`) and the EXTRACTED
                    `count_min_sketch_redis_initMatrixRedis`; then the EXTRACTED `setMatrixScript`;
                    with the Go early returns.
    cuckooImportOp cuckoo_filter_redis.go Import (Proofs/C19Import.lean)
                  = `setMetadata` (`HSET`, hand model `cuckooSetMetadata`); `initBuckets`: the
                    EXTRACTED `cuckoo_filter_redis_initCuckooFilterRedis` and one `newBucketRedis`
                    (`INCRBY …_len 0`, hand model `bucketNew`) per bucket; then per bucket of the
                    document `newBucketRedis`, `RPUSH` per element, `INCRBY …_len n` (go-redis
                    commands, no Lua: hand models `cmdRPUSH`, `cmdINCRBY`), errors dropped.

  LEVELS.  All five scripts involved are covered at the level of the EXTRACTED LUA: the statement
  is about `Lua.run fuel Generated.LuaScripts.<script> KEYS ARGV`, and the proof goes through the
  Lua tie theorems (`lua_setMatrixScript_store`, `lua_importRegisters_eq`, `lua_importHeap_eq`,
  `lua_count_min_sketch_redis_initMatrixRedis_eq`, `lua_initCuckooFilterRedis_eq`), which hold for
  EVERY store, so the closed forms they give (`setRowsLoop`, `cmdRPUSH`, `zaddAll`, `cmsInit`,
  `cuckooInitScript`) transfer their frame to the interpreter run.  The commands the Go code sends
  directly (`HSET`, `RPUSH`, `INCRBY`) exist only as hand models (`cmd…` of Model/Redis.lean,
  Model/RedisCuckoo.lean); there is no extracted artefact for them.  `C19_frame_cuckoo_init_buckets`
  (hand model `cuckooInitScript`) and `C19_frame_cms_equals` (hand model `cmsEquals`, defined in
  Proofs/C19Import.lean and tied to the extracted `compareMatrixScript` on canonical rows by
  `lua_compareMatrixScript_cmsEquals`) are at the level of the hand model;
  `C19_frame_hll_equals`, `C19_frame_bloom_init`, `C19_frame_cuckoo_create`,
  `C19_frame_topk_create`, `C19_frame_hll_create`, `C19_frame_bloom_create` are about the hand
  models of Model/Redis.lean (`hllEquals` is tied to the extracted script by
  `LuaHLL.lua_hllEquals_eq`; the others are plain go-redis commands `SET`/`HSET`).

  PROVED
   1. `supported_cmsSetMatrix`, `supported_cmsImport`, `supported_hllImport`,
      `supported_topkImport`, `supported_cuckooImport`: each import is `SupportedOn` the key set
      `keysOf` of the NEW handle (it reads and writes nothing else) — and on the smaller set of
      keys it really writes (`…_written`).
   2. `C19_import_cms_untouched`, `C19_import_hll_untouched`, `C19_import_topk_untouched`,
      `C19_import_cuckoo_untouched`: if the new handle and any other live handle `g` (the exporter
      or any structure of any kind) have `IsBase` base keys, pairwise different, then after the
      import (a) every key outside the new handle's key set, (b) in particular every key of `g`,
      holds the value it held before, and (c) every operation supported on `g`'s keys returns
      what it would have returned without the import.  Via `C19_import_new_keys` + `C19_disjoint`.
      `C19_import_*_fresh`: the same when only the FRESHLY GENERATED base keys (`key`; `heapKey`,
      `sketch.key`, `sketch.metadataKey`) are assumed different from `g`'s — the metadata key that
      `Import` keeps may be shared, e.g. when a structure imports its own export.
      `C19_import_cms_exporter_abs`, `C19_import_hll_exporter_abs`: the exporter's abstract state
      (`absCMS`, `absHLL`) is the same before and after.
   3. `C19_frame_hll_equals`, `C19_frame_cms_equals`, `C19_frame_bloom_init`,
      `C19_frame_bloom_create`, `C19_frame_hll_create`, `C19_frame_cuckoo_create`,
      `C19_frame_cuckoo_set_metadata`, `C19_frame_cuckoo_init_buckets(_lua)`,
      `C19_frame_topk_create`.  (The bucket, length and heap operations already have frames:
      `C19_frame_bucket_*`, `C19_frame_bucket_in_handle`, `C19_frame_cuckoo_length*` in
      Props/C08Bucket.lean, `C19_frame_topk_insert_cmds`, `C19_frame_topk_values`,
      `C19_frame_topk_in_handle` in Props/C08ZSet.lean.)  `cmsEquals_canon` and
      `lua_compareMatrixScript_cmsEquals` tie the new hand model `cmsEquals` to
      `Equals.CMSRedis.equals` and to the extracted `compareMatrixScript`.

  HYPOTHESES (each with a counterexample at the end, or a remark why it is only a proof device)
   * the document is consistent with the new handle: `len(matrix) ≤ rows`
     (`cmsImport_rows_needed`), `len(buckets) ≤ size` (`cuckooImport_size_needed`); a document with
     more rows/buckets than it declares makes the import write keys outside `keysOf`.
   * distinct `IsBase` base keys (`import_same_key_touches`, `import_not_IsBase_touches`).
   * the preconditions of the Lua ties: `1 ≤ columns ≤ 4800`, rectangular matrix, at most 4800
     registers, scores `≤ 2^53`, array sizes below 2^26, fuel.  They are NOT needed for the truth
     of the frame (outside them the interpreter answers `unsupported`, or `unpack` raises), only to
     identify the interpreter run with its closed form; `supported_hllImport_overflow` shows the
     frame for ≥ 5120 registers as well.

  NOT PROVED / not modelled: the JSON decoding; `Import(data, false)` (keys taken from the
  document: no freshness); that `util.GenerateRandomString` returns unused keys (an assumption,
  as in C19); Bloom's import (`BloomFilter.Import` of a Redis filter: not asked for; its bitset
  commands are framed by `C19_frame_bloom_*`); the panic of `setMatrix` on an empty matrix
  (`matrix[0]`); the order in which Go iterates the frequency map (any order `ps` is covered).
-/
import Gostatix.Proofs.C19Import
namespace Gostatix.Redis
open Gostatix.Generated.LuaScripts

/-! ## 1. the imports are supported on the keys of the new handle -/

/-! ### Count-Min Sketch -/

/-- the script of `setMatrix` on raw arguments: framed by the new handle's keys when it rewrites at
    most `rows` rows. -/
theorem supported_cmsSetMatrix (h : CMSHandle) (cols iters : Nat) (cells : List String) (fuel : Nat)
    (hfuel : iters + cols + 60 ≤ fuel) (hcols : 1 ≤ cols) (hcols' : cols ≤ Lua.unpackSafe)
    (hcells : cells.length = iters * cols) (hn : 2 + cells.length < Lua.maxArrayIndex)
    (hiters : iters ≤ h.rows) :
    SupportedOn h.keysOf
      (luaOp fuel count_min_sketch_redis_setMatrixScript [h.key] (decimal cols :: cells)) :=
  supported_luaSetMatrix _ _ cols iters cells fuel hfuel hcols hcols' hcells hn
    (fun _ hr => h.rowKey_mem (by omega))

/-- `CountMinSketchRedis.Import(data, true)` once `data` is decoded and the new key generated:
    `setMatrix(matrix)` — KEYS = `[key]`, ARGV = `len(matrix[0])`, then the flattened matrix. -/
def cmsImportOp (fuel : Nat) (key : String) (matrix : List (List Nat)) : Op Lua.Outcome :=
  luaOp fuel count_min_sketch_redis_setMatrixScript [key]
    (decimal (matrix.headD []).length :: matrix.flatten.map decimal)

theorem flatten_length_rect (m : List (List Nat)) (c : Nat) (h : ∀ row ∈ m, row.length = c) :
    m.flatten.length = m.length * c := by
  induction m with
  | nil => simp
  | cons r m ih =>
    rw [List.flatten_cons, List.length_append, ih (fun row hr => h row (List.mem_cons_of_mem _ hr)),
      h r List.mem_cons_self, List.length_cons, Nat.succ_mul, Nat.add_comm]

/-- the rows `setMatrix` writes, as key descriptions. -/
def cmsWritten (key : String) (iters : Nat) : List KeyD := (List.range iters).map (KeyD.row key)

theorem cmsWritten_mem (key : String) {iters r : Nat} (hr : r < iters) :
    cmsRowKey key r ∈ (cmsWritten key iters).map KeyD.render :=
  List.mem_map.mpr ⟨KeyD.row key r, List.mem_map.mpr ⟨r, List.mem_range.mpr hr, rfl⟩, rfl⟩

theorem supported_cmsImport_on (K : List String) (key : String) (matrix : List (List Nat)) (fuel : Nat)
    (hrect : ∀ row ∈ matrix, row.length = (matrix.headD []).length)
    (hcols : 1 ≤ (matrix.headD []).length) (hcols' : (matrix.headD []).length ≤ Lua.unpackSafe)
    (hfuel : matrix.length + (matrix.headD []).length + 60 ≤ fuel)
    (hn : 2 + matrix.length * (matrix.headD []).length < Lua.maxArrayIndex)
    (hK : ∀ r, r < matrix.length → cmsRowKey key r ∈ K) :
    SupportedOn K (cmsImportOp fuel key matrix) := by
  have hl : (matrix.flatten.map decimal).length = matrix.length * (matrix.headD []).length := by
    rw [List.length_map, flatten_length_rect matrix _ hrect]
  exact supported_luaSetMatrix K key _ matrix.length _ fuel hfuel hcols hcols' hl (by rw [hl]; exact hn) hK

/-- the import of a rectangular matrix with `1 ≤ columns ≤ 4800` and at most `h.rows` rows reads
    and writes only keys of the new handle `h` … -/
theorem supported_cmsImport (h : CMSHandle) (matrix : List (List Nat)) (fuel : Nat)
    (hrect : ∀ row ∈ matrix, row.length = (matrix.headD []).length)
    (hcols : 1 ≤ (matrix.headD []).length) (hcols' : (matrix.headD []).length ≤ Lua.unpackSafe)
    (hfuel : matrix.length + (matrix.headD []).length + 60 ≤ fuel)
    (hn : 2 + matrix.length * (matrix.headD []).length < Lua.maxArrayIndex)
    (hrows : matrix.length ≤ h.rows) :
    SupportedOn h.keysOf (cmsImportOp fuel h.key matrix) :=
  supported_cmsImport_on _ _ matrix fuel hrect hcols hcols' hfuel hn (fun _ hr => h.rowKey_mem (by omega))

/-- … more precisely only the row keys `key0 … key(len(matrix)-1)` (whatever the handle says). -/
theorem supported_cmsImport_written (key : String) (matrix : List (List Nat)) (fuel : Nat)
    (hrect : ∀ row ∈ matrix, row.length = (matrix.headD []).length)
    (hcols : 1 ≤ (matrix.headD []).length) (hcols' : (matrix.headD []).length ≤ Lua.unpackSafe)
    (hfuel : matrix.length + (matrix.headD []).length + 60 ≤ fuel)
    (hn : 2 + matrix.length * (matrix.headD []).length < Lua.maxArrayIndex) :
    SupportedOn ((cmsWritten key matrix.length).map KeyD.render) (cmsImportOp fuel key matrix) :=
  supported_cmsImport_on _ _ matrix fuel hrect hcols hcols' hfuel hn (fun _ hr => cmsWritten_mem key hr)

/-! ### HyperLogLog -/

/-- `HyperLogLogRedis.Import(data, true)` once decoded: `importRegisters(registers)` —
    KEYS = `[key]`, ARGV = the registers. -/
def hllImportOp (fuel : Nat) (key : String) (regs : List Nat) : Op Lua.Outcome :=
  luaOp fuel hyperloglog_redis_importRegistersScript [key] (regs.map decimal)

theorem supported_hllImport (h : HLLHandle) (regs : List Nat) (fuel : Nat)
    (hfuel : regs.length + 18 ≤ fuel) (hn : regs.length ≤ 4800) (hr : ∀ r ∈ regs, r ≤ 2 ^ 53) :
    SupportedOn h.keysOf (hllImportOp fuel h.key regs) :=
  supported_luaImportRegisters _ _ h.key_mem regs fuel hfuel hn hr

theorem supported_hllImport_written (key : String) (regs : List Nat) (fuel : Nat)
    (hfuel : regs.length + 18 ≤ fuel) (hn : regs.length ≤ 4800) (hr : ∀ r ∈ regs, r ≤ 2 ^ 53) :
    SupportedOn ([KeyD.base key].map KeyD.render) (hllImportOp fuel key regs) :=
  supported_luaImportRegisters _ _ List.mem_cons_self regs fuel hfuel hn hr

/-- 5120 registers or more: `unpack` raises before the `RPUSH`, nothing is read or written. -/
theorem supported_hllImport_overflow (K : List String) (key : String) (regs : List Nat) (fuel : Nat)
    (hfuel : regs.length + 18 ≤ fuel) (hbig : 5120 ≤ regs.length) (hmax : regs.length < 67108864)
    (hr : ∀ r ∈ regs, r ≤ 2 ^ 53) : SupportedOn K (hllImportOp fuel key regs) := by
  have e : hllImportOp fuel key regs = Op.ret (Lua.Outcome.error "registry overflow") :=
    funext fun st => LuaHLL.lua_importRegisters_overflow st key regs fuel hfuel hbig hmax hr
  rw [e]
  exact supported_ret K _

/-! ### Top-K -/

/-- the keys `TopKRedis.Import` writes: the new heap, the new sketch's metadata and rows (NOT the
    Top-K's own metadata key, which `Import` neither regenerates nor rewrites). -/
def topkWritten (t : TopKHandle) : List KeyD :=
  [KeyD.base t.heapKey, KeyD.base t.sketch.metadataKey] ++ cmsWritten t.sketch.key t.sketch.rows

/-- `TopKRedis.Import(data, true)` (`topkImportOp`, Proofs/C19Import.lean) for the new handle `t`;
    `iters` = the number of rows of the document's matrix, `cols` the length of its first row. -/
theorem supported_topkImport (fuel : Nat) (t : TopKHandle) (ps : List (String × Nat))
    (cols iters : Nat) (cells : List String)
    (hf₁ : ps.length + 15 ≤ fuel) (hlen : 2 * ps.length < 67108864) (hsc : ∀ p ∈ ps, p.2 ≤ 2 ^ 53)
    (hf₂ : t.sketch.rows + t.sketch.cols + 45 ≤ fuel) (hc₂ : t.sketch.cols ≤ Lua.unpackSafe)
    (hr₂ : t.sketch.rows ≤ Lua.numLimit)
    (hf₃ : iters + cols + 60 ≤ fuel) (hcols : 1 ≤ cols) (hcols' : cols ≤ Lua.unpackSafe)
    (hcells : cells.length = iters * cols) (hn : 2 + cells.length < Lua.maxArrayIndex)
    (hiters : iters ≤ t.sketch.rows) :
    SupportedOn t.keysOf (topkImportOp fuel t ps cols cells) :=
  supported_topkImportOp _ fuel t ps cols iters cells t.heapKey_mem
    (t.sketch_mem t.sketch.metadataKey_mem) (fun _ hr => t.sketch_mem (t.sketch.rowKey_mem hr))
    hf₁ hlen hsc hf₂ hc₂ hr₂ hf₃ hcols hcols' hcells hn hiters

theorem supported_topkImport_written (fuel : Nat) (t : TopKHandle) (ps : List (String × Nat))
    (cols iters : Nat) (cells : List String)
    (hf₁ : ps.length + 15 ≤ fuel) (hlen : 2 * ps.length < 67108864) (hsc : ∀ p ∈ ps, p.2 ≤ 2 ^ 53)
    (hf₂ : t.sketch.rows + t.sketch.cols + 45 ≤ fuel) (hc₂ : t.sketch.cols ≤ Lua.unpackSafe)
    (hr₂ : t.sketch.rows ≤ Lua.numLimit)
    (hf₃ : iters + cols + 60 ≤ fuel) (hcols : 1 ≤ cols) (hcols' : cols ≤ Lua.unpackSafe)
    (hcells : cells.length = iters * cols) (hn : 2 + cells.length < Lua.maxArrayIndex)
    (hiters : iters ≤ t.sketch.rows) :
    SupportedOn ((topkWritten t).map KeyD.render) (topkImportOp fuel t ps cols cells) := by
  refine supported_topkImportOp _ fuel t ps cols iters cells ?_ ?_ ?_
    hf₁ hlen hsc hf₂ hc₂ hr₂ hf₃ hcols hcols' hcells hn hiters
  · exact List.mem_map.mpr ⟨KeyD.base t.heapKey, by simp [topkWritten], rfl⟩
  · exact List.mem_map.mpr ⟨KeyD.base t.sketch.metadataKey, by simp [topkWritten], rfl⟩
  · intro r hr
    unfold topkWritten
    rw [List.map_append]
    exact List.mem_append_right _ (cmsWritten_mem _ hr)

/-! ### cuckoo filter -/

/-- `CuckooFilterRedis.Import(data, true)` (`cuckooImportOp`, Proofs/C19Import.lean) for the new
    handle `h`; `buckets` = the element lists of the document's buckets (at most `h.n` of them). -/
theorem supported_cuckooImport (fuel : Nat) (h : CuckooHandle) (length : Nat) (buckets : List (List String))
    (hfuel : h.n + 15 ≤ fuel) (hn : h.n + 1 < 67108864) (hb : buckets.length ≤ h.n) :
    SupportedOn h.keysOf (cuckooImportOp fuel h length buckets) :=
  supported_cuckooImportOp _ fuel h length buckets h.key_mem h.metadataKey_mem
    (fun _ hi => ⟨h.bucketKey_memI hi, h.lenKey_memI hi⟩) hfuel hn hb

/-! ## 2. nothing of any other structure changes -/

/-- `C19_import_new_keys` + `C19_disjoint`: an import supported on the keys of the new handle
    `new` leaves (a) every key outside them, (b) every key of a handle `g` with different base
    keys, untouched, and (c) does not change the answer of any operation on `g`. -/
theorem C19_import_untouched {ρ ρ' : Type} (new g : Handle) (imp : Op ρ)
    (hsup : SupportedOn new.keysOf imp)
    (hb₁ : ∀ b ∈ new.bases, IsBase b) (hb₂ : ∀ b ∈ g.bases, IsBase b)
    (hne : ∀ b₁ ∈ new.bases, ∀ b₂ ∈ g.bases, b₁ ≠ b₂) (s : Store) :
    (∀ k, k ∉ new.keysOf → (imp s).1 k = s k) ∧
    (∀ k ∈ g.keysOf, (imp s).1 k = s k) ∧
    (∀ op : Op ρ', SupportedOn g.keysOf op → (op (imp s).1).2 = (op s).2) :=
  C19_import_new_keys new.keysOf g.keysOf imp hsup
    (fun k hk hk' => C19_disjoint new g hb₁ hb₂ hne k hk' hk) s

/-- the same when the import is supported on keys `D` built on FRESH base keys (`IsBase`, and not
    base keys of `g`). -/
theorem C19_import_fresh_keys {ρ ρ' : Type} (D : List KeyD) (g : Handle) (imp : Op ρ)
    (hsup : SupportedOn (D.map KeyD.render) imp)
    (hD : ∀ d ∈ D, IsBase d.baseOf ∧ d.baseOf ∉ g.bases) (hg : ∀ b ∈ g.bases, IsBase b) (s : Store) :
    (∀ k, k ∉ D.map KeyD.render → (imp s).1 k = s k) ∧
    (∀ k ∈ g.keysOf, (imp s).1 k = s k) ∧
    (∀ op : Op ρ', SupportedOn g.keysOf op → (op (imp s).1).2 = (op s).2) :=
  C19_import_new_keys (D.map KeyD.render) g.keysOf imp hsup (fresh_disjoint D g hg hD) s

/-- Count-Min: `new` is the importer's handle after `Import(data, true)` (`key` fresh), `g` the
    exporter or any other live structure. -/
theorem C19_import_cms_untouched {ρ' : Type} (new : CMSHandle) (g : Handle) (matrix : List (List Nat))
    (fuel : Nat)
    (hrect : ∀ row ∈ matrix, row.length = (matrix.headD []).length)
    (hcols : 1 ≤ (matrix.headD []).length) (hcols' : (matrix.headD []).length ≤ Lua.unpackSafe)
    (hfuel : matrix.length + (matrix.headD []).length + 60 ≤ fuel)
    (hn : 2 + matrix.length * (matrix.headD []).length < Lua.maxArrayIndex)
    (hrows : matrix.length ≤ new.rows)
    (hb₁ : ∀ b ∈ new.bases, IsBase b) (hb₂ : ∀ b ∈ g.bases, IsBase b)
    (hne : ∀ b₁ ∈ new.bases, ∀ b₂ ∈ g.bases, b₁ ≠ b₂) (s : Store) :
    (∀ k, k ∉ new.keysOf → (cmsImportOp fuel new.key matrix s).1 k = s k) ∧
    (∀ k ∈ g.keysOf, (cmsImportOp fuel new.key matrix s).1 k = s k) ∧
    (∀ op : Op ρ', SupportedOn g.keysOf op →
      (op (cmsImportOp fuel new.key matrix s).1).2 = (op s).2) :=
  C19_import_untouched (Handle.cms new) g _
    (supported_cmsImport new matrix fuel hrect hcols hcols' hfuel hn hrows) hb₁ hb₂ hne s

/-- only the freshly generated `key` needs to differ from `g`'s base keys. -/
theorem C19_import_cms_fresh {ρ' : Type} (key : String) (g : Handle) (matrix : List (List Nat))
    (fuel : Nat)
    (hrect : ∀ row ∈ matrix, row.length = (matrix.headD []).length)
    (hcols : 1 ≤ (matrix.headD []).length) (hcols' : (matrix.headD []).length ≤ Lua.unpackSafe)
    (hfuel : matrix.length + (matrix.headD []).length + 60 ≤ fuel)
    (hn : 2 + matrix.length * (matrix.headD []).length < Lua.maxArrayIndex)
    (hkey : IsBase key) (hfresh : key ∉ g.bases) (hg : ∀ b ∈ g.bases, IsBase b) (s : Store) :
    (∀ k ∈ g.keysOf, (cmsImportOp fuel key matrix s).1 k = s k) ∧
    (∀ op : Op ρ', SupportedOn g.keysOf op → (op (cmsImportOp fuel key matrix s).1).2 = (op s).2) := by
  refine (C19_import_fresh_keys (cmsWritten key matrix.length) g _
    (supported_cmsImport_written key matrix fuel hrect hcols hcols' hfuel hn) ?_ hg s).2
  intro d hd
  obtain ⟨r, _, rfl⟩ := List.mem_map.mp hd
  exact ⟨hkey, hfresh⟩

/-- HyperLogLog. -/
theorem C19_import_hll_untouched {ρ' : Type} (new : HLLHandle) (g : Handle) (regs : List Nat) (fuel : Nat)
    (hfuel : regs.length + 18 ≤ fuel) (hn : regs.length ≤ 4800) (hr : ∀ r ∈ regs, r ≤ 2 ^ 53)
    (hb₁ : ∀ b ∈ new.bases, IsBase b) (hb₂ : ∀ b ∈ g.bases, IsBase b)
    (hne : ∀ b₁ ∈ new.bases, ∀ b₂ ∈ g.bases, b₁ ≠ b₂) (s : Store) :
    (∀ k, k ∉ new.keysOf → (hllImportOp fuel new.key regs s).1 k = s k) ∧
    (∀ k ∈ g.keysOf, (hllImportOp fuel new.key regs s).1 k = s k) ∧
    (∀ op : Op ρ', SupportedOn g.keysOf op → (op (hllImportOp fuel new.key regs s).1).2 = (op s).2) :=
  C19_import_untouched (Handle.hll new) g _ (supported_hllImport new regs fuel hfuel hn hr) hb₁ hb₂ hne s

theorem C19_import_hll_fresh {ρ' : Type} (key : String) (g : Handle) (regs : List Nat) (fuel : Nat)
    (hfuel : regs.length + 18 ≤ fuel) (hn : regs.length ≤ 4800) (hr : ∀ r ∈ regs, r ≤ 2 ^ 53)
    (hkey : IsBase key) (hfresh : key ∉ g.bases) (hg : ∀ b ∈ g.bases, IsBase b) (s : Store) :
    (∀ k ∈ g.keysOf, (hllImportOp fuel key regs s).1 k = s k) ∧
    (∀ op : Op ρ', SupportedOn g.keysOf op → (op (hllImportOp fuel key regs s).1).2 = (op s).2) := by
  refine (C19_import_fresh_keys [KeyD.base key] g _
    (supported_hllImport_written key regs fuel hfuel hn hr) ?_ hg s).2
  intro d hd
  rw [List.mem_singleton.mp hd]
  exact ⟨hkey, hfresh⟩

/-- in particular the exporter (a sketch `exp`) represents the same matrix after the import … -/
theorem C19_import_cms_exporter_abs (new exp : CMSHandle) (matrix : List (List Nat)) (fuel : Nat)
    (hrect : ∀ row ∈ matrix, row.length = (matrix.headD []).length)
    (hcols : 1 ≤ (matrix.headD []).length) (hcols' : (matrix.headD []).length ≤ Lua.unpackSafe)
    (hfuel : matrix.length + (matrix.headD []).length + 60 ≤ fuel)
    (hn : 2 + matrix.length * (matrix.headD []).length < Lua.maxArrayIndex)
    (hkey : IsBase new.key) (hfresh : new.key ∉ exp.bases) (hg : ∀ b ∈ exp.bases, IsBase b) (s : Store) :
    absCMS (cmsImportOp fuel new.key matrix s).1 exp = absCMS s exp :=
  absCMS_of_agree exp _ _
    (C19_import_cms_fresh (ρ' := Unit) new.key (Handle.cms exp) matrix fuel hrect hcols hcols' hfuel hn
      hkey hfresh hg s).1

/-- … and an exporting HyperLogLog the same registers. -/
theorem C19_import_hll_exporter_abs (new exp : HLLHandle) (regs : List Nat) (fuel : Nat)
    (hfuel : regs.length + 18 ≤ fuel) (hn : regs.length ≤ 4800) (hr : ∀ r ∈ regs, r ≤ 2 ^ 53)
    (hkey : IsBase new.key) (hfresh : new.key ∉ exp.bases) (hg : ∀ b ∈ exp.bases, IsBase b) (s : Store) :
    absHLL (hllImportOp fuel new.key regs s).1 exp = absHLL s exp :=
  absHLL_of_agree exp _ _
    (C19_import_hll_fresh (ρ' := Unit) new.key (Handle.hll exp) regs fuel hfuel hn hr hkey hfresh hg s).1

/-- Top-K. -/
theorem C19_import_topk_untouched {ρ' : Type} (new : TopKHandle) (g : Handle) (fuel : Nat)
    (ps : List (String × Nat)) (cols iters : Nat) (cells : List String)
    (hf₁ : ps.length + 15 ≤ fuel) (hlen : 2 * ps.length < 67108864) (hsc : ∀ p ∈ ps, p.2 ≤ 2 ^ 53)
    (hf₂ : new.sketch.rows + new.sketch.cols + 45 ≤ fuel) (hc₂ : new.sketch.cols ≤ Lua.unpackSafe)
    (hr₂ : new.sketch.rows ≤ Lua.numLimit)
    (hf₃ : iters + cols + 60 ≤ fuel) (hcols : 1 ≤ cols) (hcols' : cols ≤ Lua.unpackSafe)
    (hcells : cells.length = iters * cols) (hn : 2 + cells.length < Lua.maxArrayIndex)
    (hiters : iters ≤ new.sketch.rows)
    (hb₁ : ∀ b ∈ new.bases, IsBase b) (hb₂ : ∀ b ∈ g.bases, IsBase b)
    (hne : ∀ b₁ ∈ new.bases, ∀ b₂ ∈ g.bases, b₁ ≠ b₂) (s : Store) :
    (∀ k, k ∉ new.keysOf → (topkImportOp fuel new ps cols cells s).1 k = s k) ∧
    (∀ k ∈ g.keysOf, (topkImportOp fuel new ps cols cells s).1 k = s k) ∧
    (∀ op : Op ρ', SupportedOn g.keysOf op →
      (op (topkImportOp fuel new ps cols cells s).1).2 = (op s).2) :=
  C19_import_untouched (Handle.topk new) g _
    (supported_topkImport fuel new ps cols iters cells hf₁ hlen hsc hf₂ hc₂ hr₂ hf₃ hcols hcols' hcells hn
      hiters) hb₁ hb₂ hne s

/-- only `heapKey`, `sketch.key`, `sketch.metadataKey` (the three keys `Import` generates) need to
    differ from `g`'s base keys; the Top-K's own `metadataKey` may be one of them. -/
theorem C19_import_topk_fresh {ρ' : Type} (new : TopKHandle) (g : Handle) (fuel : Nat)
    (ps : List (String × Nat)) (cols iters : Nat) (cells : List String)
    (hf₁ : ps.length + 15 ≤ fuel) (hlen : 2 * ps.length < 67108864) (hsc : ∀ p ∈ ps, p.2 ≤ 2 ^ 53)
    (hf₂ : new.sketch.rows + new.sketch.cols + 45 ≤ fuel) (hc₂ : new.sketch.cols ≤ Lua.unpackSafe)
    (hr₂ : new.sketch.rows ≤ Lua.numLimit)
    (hf₃ : iters + cols + 60 ≤ fuel) (hcols : 1 ≤ cols) (hcols' : cols ≤ Lua.unpackSafe)
    (hcells : cells.length = iters * cols) (hn : 2 + cells.length < Lua.maxArrayIndex)
    (hiters : iters ≤ new.sketch.rows)
    (hfresh : ∀ b ∈ [new.heapKey, new.sketch.key, new.sketch.metadataKey], IsBase b ∧ b ∉ g.bases)
    (hg : ∀ b ∈ g.bases, IsBase b) (s : Store) :
    (∀ k ∈ g.keysOf, (topkImportOp fuel new ps cols cells s).1 k = s k) ∧
    (∀ op : Op ρ', SupportedOn g.keysOf op →
      (op (topkImportOp fuel new ps cols cells s).1).2 = (op s).2) := by
  refine (C19_import_fresh_keys (topkWritten new) g _
    (supported_topkImport_written fuel new ps cols iters cells hf₁ hlen hsc hf₂ hc₂ hr₂ hf₃ hcols hcols'
      hcells hn hiters) ?_ hg s).2
  intro d hd
  unfold topkWritten at hd
  rcases List.mem_append.mp hd with hd | hd
  · simp only [List.mem_cons, List.not_mem_nil, or_false] at hd
    rcases hd with rfl | rfl
    · exact hfresh _ (by simp [KeyD.baseOf])
    · exact hfresh _ (by simp [KeyD.baseOf])
  · obtain ⟨r, _, rfl⟩ := List.mem_map.mp hd
    exact hfresh _ (by simp [KeyD.baseOf])

/-- cuckoo filter (both of its base keys are regenerated by `Import(data, true)`). -/
theorem C19_import_cuckoo_untouched {ρ' : Type} (new : CuckooHandle) (g : Handle) (fuel : Nat)
    (length : Nat) (buckets : List (List String))
    (hfuel : new.n + 15 ≤ fuel) (hn : new.n + 1 < 67108864) (hb : buckets.length ≤ new.n)
    (hb₁ : ∀ b ∈ new.bases, IsBase b) (hb₂ : ∀ b ∈ g.bases, IsBase b)
    (hne : ∀ b₁ ∈ new.bases, ∀ b₂ ∈ g.bases, b₁ ≠ b₂) (s : Store) :
    (∀ k, k ∉ new.keysOf → (cuckooImportOp fuel new length buckets s).1 k = s k) ∧
    (∀ k ∈ g.keysOf, (cuckooImportOp fuel new length buckets s).1 k = s k) ∧
    (∀ op : Op ρ', SupportedOn g.keysOf op →
      (op (cuckooImportOp fuel new length buckets s).1).2 = (op s).2) :=
  C19_import_untouched (Handle.cuckoo new) g _
    (supported_cuckooImport fuel new length buckets hfuel hn hb) hb₁ hb₂ hne s

/-! ## 3. frames missing from Props/C19.lean -/

/-- `HyperLogLogRedis.Equals` reads the registers of both (and writes nothing). -/
theorem C19_frame_hll_equals (h g : HLLHandle) : SupportedOn (h.keysOf ++ g.keysOf) (hllEquals h g) :=
  supported_hllEqualsI h g

/-- `CountMinSketchRedis.Equals` (`compareMatrix`; hand model `cmsEquals`, Proofs/C19Import.lean)
    reads the rows of both. -/
theorem C19_frame_cms_equals (h g : CMSHandle) : SupportedOn (h.keysOf ++ g.keysOf) (cmsEquals h g) :=
  supported_cmsEquals h g

/-- on canonical rows (`LuaCMS.CanonRows`, the precondition of the Lua tie of `compareMatrixScript`)
    the hand model `cmsEquals` does not write and answers `Equals.CMSRedis.equals` (Model/Equals.lean,
    the model C16 is about) of the two matrices … -/
theorem cmsEquals_canon (st : Store) (h g : CMSHandle) (m₁ m₂ : List (List Nat))
    (h₁ : LuaCMS.CanonRows st h.key h.rows m₁) (h₂ : LuaCMS.CanonRows st g.key h.rows m₂) :
    cmsEquals h g st =
      (st, Equals.CMSRedis.equals ⟨h.rows, h.cols, m₁⟩ ⟨g.rows, g.cols, m₂⟩) := by
  unfold cmsEquals Equals.CMSRedis.equals
  by_cases hd : h.rows ≠ g.rows ∨ h.cols ≠ g.cols
  · rw [if_pos hd, if_pos hd]; rfl
  · rw [if_neg hd, if_neg hd]
    exact cmsCompareLoop_canon st h.key g.key h.cols m₁ m₂ h.rows 0
      (fun i _ hi => h₁ i (by omega)) (fun i _ hi => h₂ i (by omega))

/-- … hence the EXTRACTED `compareMatrixScript`, called as `Equals` calls it after its dimension
    guard, computes `cmsEquals`: same (unchanged) store, reply `1` for `true`, nil otherwise. -/
theorem lua_compareMatrixScript_cmsEquals (st : Store) (h g : CMSHandle) (m₁ m₂ : List (List Nat))
    (hr : h.rows = g.rows) (hc : h.cols = g.cols)
    (fuel : Nat) (hfuel : h.rows + h.cols + 60 ≤ fuel)
    (hcols : h.cols + 1 < Lua.maxArrayIndex) (hrows : h.rows ≤ Lua.numLimit)
    (h₁ : LuaCMS.CanonRows st h.key h.rows m₁) (h₂ : LuaCMS.CanonRows st g.key h.rows m₂) :
    Lua.run fuel count_min_sketch_redis_compareMatrixScript [h.key, g.key]
        [decimal h.rows, decimal h.cols] st =
      ((cmsEquals h g st).1, match (cmsEquals h g st).2 with
        | some true => .reply (.int 1)
        | _ => .reply .nil) := by
  rw [cmsEquals_canon st h g m₁ m₂ h₁ h₂]
  exact LuaCMS.lua_count_min_sketch_redis_compareMatrixScript_eq st h.key g.key
    ⟨h.rows, h.cols, m₁⟩ ⟨g.rows, g.cols, m₂⟩ hr hc fuel hfuel hcols hrows h₁ h₂

theorem C19_frame_bloom_init (h : BloomHandle) : SupportedOn h.keysOf (bloomInit h) :=
  supported_bloomInit h

theorem C19_frame_bloom_create (h : BloomHandle) : SupportedOn h.keysOf (bloomCreate h) :=
  supported_bloomCreate h

theorem C19_frame_hll_create (h : HLLHandle) : SupportedOn h.keysOf (hllCreate h) :=
  supported_hllCreate h

/-- `NewCuckooFilterRedisWithRetries`: `setMetadata(0)` … -/
theorem C19_frame_cuckoo_create (h : CuckooHandle) : SupportedOn h.keysOf (cuckooCreate h) :=
  supported_cuckooSetMetadata h 0

theorem C19_frame_cuckoo_set_metadata (h : CuckooHandle) (length : Nat) :
    SupportedOn h.keysOf (cuckooSetMetadata h length) := supported_cuckooSetMetadata h length

/-- … and `initBuckets()`: hand model (`cuckooInitScript` + `bucketNew` per bucket) … -/
theorem C19_frame_cuckoo_init_buckets (h : CuckooHandle) : SupportedOn h.keysOf (cuckooInitBuckets h) :=
  supported_cuckooInitBuckets _ h h.key_mem (fun _ hi => h.lenKey_memI hi)

/-- … and with the extracted script. -/
theorem C19_frame_cuckoo_init_buckets_lua (fuel : Nat) (h : CuckooHandle)
    (hfuel : h.n + 15 ≤ fuel) (hn : h.n + 1 < 67108864) :
    SupportedOn h.keysOf (cuckooInitBucketsOp fuel h) :=
  supported_cuckooInitBucketsOp _ fuel h h.key_mem (fun _ hi => h.lenKey_memI hi) hfuel hn

/-- `NewTopKRedis`: the nested sketch's metadata, then its own. -/
theorem C19_frame_topk_create (t : TopKHandle) : SupportedOn t.keysOf (topkCreate t) :=
  supported_topkCreate t

/-! ## non-vacuity and counterexamples -/

section examples

/-- an exporter with two updates (`exS₂` of Props/C08.lean: sketch `exH`, rows `[0,7,0]`, `[2,0,5]`),
    and the importer's handle after `Import(export, true)`. -/
def impNew : CMSHandle := { rows := 2, cols := 3, key := "dddddddddddddddd", metadataKey := "ddddddddddddddde" }
def impMatrix : List (List Nat) := [[0, 7, 0], [2, 0, 5]]
def impS : Store := (cmsImportOp 100 impNew.key impMatrix exS₂).1

/-- the import does write (through the interpreter on the extracted script) … -/
example : impS "dddddddddddddddd0" = some (.list ["0", "7", "0"]) ∧
    impS "dddddddddddddddd1" = some (.list ["2", "0", "5"]) := by decide +kernel
example : absCMS impS impNew = some { rows := 2, cols := 3, m := impMatrix } := by decide +kernel
example : exS₂ "dddddddddddddddd0" = none := by decide +kernel

/-- … the theorem applies (all hypotheses hold) … -/
theorem imp_cms_example :
    (∀ k ∈ (Handle.cms exH).keysOf, impS k = exS₂ k) ∧
    (∀ op : Op (Option Nat), SupportedOn (Handle.cms exH).keysOf op → (op impS).2 = (op exS₂).2) :=
  (C19_import_cms_untouched impNew (Handle.cms exH) impMatrix 100 (by decide) (by decide) (by decide)
    (by decide) (by decide) (by decide) (by decide) (by decide) (by decide) exS₂).2

/-- … so the exporter still counts what it counted (`Count` at positions `[1, 2]`: 5). -/
example : (cmsCount exH [1, 2] impS).2 = some 5 := by
  rw [imp_cms_example.2 _ (C19_frame_cms_count exH [1, 2] (by decide))]
  decide

/-- … and still represents the same matrix. -/
example : absCMS impS exH = some { rows := 2, cols := 3, m := impMatrix } := by
  rw [show absCMS impS exH = absCMS exS₂ exH from
    C19_import_cms_exporter_abs impNew exH impMatrix 100 (by decide) (by decide) (by decide) (by decide)
      (by decide) (by decide) (by decide) (by decide) exS₂]
  decide

/-- the sharper form: the importer is the exporter's own object (same metadata key). -/
example : ∀ k ∈ (Handle.cms exH).keysOf, (cmsImportOp 100 "dddddddddddddddd" impMatrix exS₂).1 k = exS₂ k :=
  (C19_import_cms_fresh (ρ' := Unit) "dddddddddddddddd" (Handle.cms exH) impMatrix 100 (by decide)
    (by decide) (by decide) (by decide) (by decide) (by decide) (by decide) (by decide) exS₂).1

/-- hypothesis `len(matrix) ≤ rows`: a document with more rows than the handle makes the import
    write a key outside `keysOf` — the script derives the row count from ARGV. -/
def impBadCMS : CMSHandle := { rows := 1, cols := 1, key := "k", metadataKey := "m" }

theorem cmsImport_rows_written :
    (cmsImportOp 100 impBadCMS.key [[1], [2]] Store.empty).1 "k1" = some (.list ["2"]) := by decide +kernel

theorem cmsImport_rows_needed :
    "k1" ∉ impBadCMS.keysOf ∧ ¬ SupportedOn impBadCMS.keysOf (cmsImportOp 100 impBadCMS.key [[1], [2]]) := by
  refine ⟨by decide, fun hs => ?_⟩
  have h1 := hs.1 Store.empty "k1" (by decide)
  rw [cmsImport_rows_written] at h1
  exact nomatch h1

/-- hypothesis "different base keys": `Import(data, false)` takes the exporter's key from the
    document; for a HyperLogLog the registers are then pushed behind the exporter's own. -/
def impHll : HLLHandle := { m := 4, key := "bbbbbbbbbbbbbbbb", metadataKey := "bbbbbbbbbbbbbbbc" }
def impHS : Store := (hllInit impHll Store.empty).1

theorem import_same_key_touches :
    impHS impHll.key = some (.list ["0", "0", "0", "0"]) ∧
    (hllImportOp 100 impHll.key [0, 0, 0, 0] impHS).1 impHll.key =
      some (.list ["0", "0", "0", "0", "0", "0", "0", "0"]) := by decide +kernel

/-- with a new key the exporter's registers stay, and the importer gets its own. -/
def impHllNew : HLLHandle := { m := 4, key := "eeeeeeeeeeeeeeee", metadataKey := "eeeeeeeeeeeeeeef" }

example : (hllImportOp 100 impHllNew.key [3, 0, 7, 1] impHS).1 impHllNew.key =
    some (.list ["3", "0", "7", "1"]) := by decide +kernel

example : ∀ k ∈ (Handle.hll impHll).keysOf, (hllImportOp 100 impHllNew.key [3, 0, 7, 1] impHS).1 k = impHS k :=
  (C19_import_hll_untouched (ρ' := Unit) impHllNew (Handle.hll impHll) [3, 0, 7, 1] 100 (by decide)
    (by decide) (by decide) (by decide) (by decide) (by decide) impHS).2.1

/-- hypothesis `IsBase`: keys that are not 16 letters can collide although they differ — importing
    under the key `"x1"` rewrites row 10 of the sketch with key `"x"` (no separator in row keys). -/
theorem import_not_IsBase_touches :
    let g : CMSHandle := { rows := 11, cols := 1, key := "x", metadataKey := "m" }
    "x" ≠ "x1" ∧ cmsRowKey "x" 10 ∈ g.keysOf ∧
    (cmsImportOp 100 "x1" [[9]] (cmsInit g Store.empty).1).1 (cmsRowKey "x" 10) = some (.list ["9"]) ∧
    (cmsInit g Store.empty).1 (cmsRowKey "x" 10) = some (.list ["0"]) := by
  refine ⟨by decide, by decide, by decide +kernel, by decide +kernel⟩

/-- Top-K: a new handle, the import on a store that holds the Count-Min exporter of above. -/
def impTopK : TopKHandle :=
  { k := 2, errorRate := "0.5", accuracy := "0.5", heapKey := "ffffffffffffffff",
    metadataKey := "fffffffffffffffg",
    sketch := { rows := 2, cols := 3, key := "gggggggggggggggg", metadataKey := "gggggggggggggggh" } }
def impPairs : List (String × Nat) := [("x", 7), ("y", 5)]
def impTS : Store := (topkImportOp 100 impTopK impPairs 3 (impMatrix.flatten.map decimal) exS₂).1

example : (topkImportOp 100 impTopK impPairs 3 (impMatrix.flatten.map decimal) exS₂).2 = true := by
  decide +kernel
example : impTS "ffffffffffffffff" = some (.zset [("y", 5), ("x", 7)]) := by decide +kernel
example : impTS "gggggggggggggggg1" = some (.list ["2", "0", "5"]) := by decide +kernel
example : (cmsAttach impTS "gggggggggggggggh") = some impTopK.sketch := by decide +kernel

example : ∀ k ∈ (Handle.cms exH).keysOf, impTS k = exS₂ k :=
  (C19_import_topk_untouched (ρ' := Unit) impTopK (Handle.cms exH) 100 impPairs 3 2
    (impMatrix.flatten.map decimal) (by decide) (by decide) (by decide) (by decide) (by decide) (by decide)
    (by decide) (by decide) (by decide) (by decide) (by decide) (by decide) (by decide) (by decide)
    (by decide) exS₂).2.1

/-- cuckoo filter: a new handle with 3 buckets, a document with two non-empty buckets. -/
def impCuckoo : CuckooHandle :=
  { n := 3, bsize := 2, fpl := 1, retries := 500, key := "hhhhhhhhhhhhhhhh", metadataKey := "hhhhhhhhhhhhhhhi" }
def impBuckets : List (List String) := [["a", ""], [], ["b", "c"]]
def impCS : Store := (cuckooImportOp 100 impCuckoo 3 impBuckets exS₂).1

example : impCS "hhhhhhhhhhhhhhhh" =
    some (.list ["cuckoo_hhhhhhhhhhhhhhhh_bucket_2", "cuckoo_hhhhhhhhhhhhhhhh_bucket_1",
      "cuckoo_hhhhhhhhhhhhhhhh_bucket_0"]) := by decide +kernel
example : impCS "cuckoo_hhhhhhhhhhhhhhhh_bucket_0" = some (.list ["a", ""]) := by decide +kernel
example : absBucket impCS (cuckooBucketKey impCuckoo.key 0) 2 = some ⟨2, ["a", ""], 1⟩ := by decide +kernel
example : absBucket impCS (cuckooBucketKey impCuckoo.key 2) 2 = some ⟨2, ["b", "c"], 2⟩ := by decide +kernel
example : absCuckooLength impCS impCuckoo = some 3 := by decide +kernel
example : cuckooAttach impCS impCuckoo.metadataKey = some impCuckoo := by decide +kernel

example : ∀ k ∈ (Handle.cms exH).keysOf, impCS k = exS₂ k :=
  (C19_import_cuckoo_untouched (ρ' := Unit) impCuckoo (Handle.cms exH) 100 3 impBuckets (by decide)
    (by decide) (by decide) (by decide) (by decide) (by decide) exS₂).2.1

/-- hypothesis `len(buckets) ≤ size`: a document with more buckets than its `size` field makes
    `Import` write the keys of bucket `size`, which are not keys of the handle. -/
def impBadCuckoo : CuckooHandle :=
  { n := 1, bsize := 2, fpl := 1, retries := 500, key := "k", metadataKey := "m" }

theorem cuckooImport_size_written :
    (cuckooImportOp 100 impBadCuckoo 0 [["a"], ["b"]] Store.empty).1 "cuckoo_k_bucket_1" =
      some (.list ["b"]) := by decide +kernel

theorem cuckooImport_size_needed :
    "cuckoo_k_bucket_1" ∉ impBadCuckoo.keysOf ∧
    ¬ SupportedOn impBadCuckoo.keysOf (cuckooImportOp 100 impBadCuckoo 0 [["a"], ["b"]]) := by
  refine ⟨by decide, fun hs => ?_⟩
  have h1 := hs.1 Store.empty "cuckoo_k_bucket_1" (by decide)
  rw [cuckooImport_size_written] at h1
  exact nomatch h1

/-- `cmsEquals` on a concrete store: the exporter against itself and against the import. -/
example : (cmsEquals exH exH exS₂).2 = some true := by decide +kernel
example : (cmsEquals exH impNew impS).2 = some true := by decide +kernel
example : (cmsEquals exH impNew exS₂).2 = some false := by decide +kernel
/-- … and the extracted script gives the corresponding replies. -/
example : ((Lua.run 100 count_min_sketch_redis_compareMatrixScript [exH.key, impNew.key]
    [decimal 2, decimal 3] impS).2).cmsIsInt 1 = true := by decide +kernel
example : ((Lua.run 100 count_min_sketch_redis_compareMatrixScript [exH.key, impNew.key]
    [decimal 2, decimal 3] exS₂).2).cmsIsNil = true := by decide +kernel

end examples

end Gostatix.Redis
