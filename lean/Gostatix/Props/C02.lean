/-
  C02 — the cuckoo filter never loses a live element.
  In-memory filter (`BucketMem.ops emp`, namespace `Gostatix.Cuckoo.Mem`) and, at the end of the file,
  the Redis-backed filter (`BucketRedis.ops emp`, namespace `Gostatix.Cuckoo.Redis`); arbitrary
  fingerprint type `F` with empty value `emp`.
  An element is given by its positions `(fp, i1, i2)` with `fp ≠ emp`, `i1 < n`, `i2 = alt i1 fp`.
  The alternate-bucket map `alt` is a parameter; the theorems that involve the eviction loop need
    `hInv : ∀ j f, j < n → alt j f < n ∧ alt (alt j f) f = j`
  which holds for the code's `alt j f = (j ^^^ H f) % n` when `n` is a power of two
  (`C02_alt_involutive_pow2`) and fails otherwise (`C02_alt_not_involutive_npow2`).
  The random choices (`side`, `slots`) are universally quantified.
  `kc alt c j f` = number of copies of `f` stored in the candidate pair `{j, alt j f}`.
  Helper lemmas: `Gostatix/Proofs/Cuckoo*.lean`.
-/
import Gostatix.Proofs.CuckooMem
import Gostatix.Proofs.CuckooRedis
namespace Gostatix.Cuckoo.Mem

/-! ### the alternate-bucket map -/

/-- For a power-of-two number of buckets the XOR-mod alternate bucket is an in-range involution. -/
theorem C02_alt_involutive_pow2 {F : Type} (H : F → Nat) (k : Nat) :
    ∀ j f, j < 2^k → altOf H (2^k) j f < 2^k ∧ altOf H (2^k) (altOf H (2^k) j f) f = j := by
  intro j f hj
  unfold altOf
  refine ⟨Nat.mod_lt _ (Nat.two_pow_pos k), ?_⟩
  rw [Nat.xor_mod_two_pow, Nat.mod_mod, Nat.xor_mod_two_pow]
  rw [Nat.xor_assoc, Nat.xor_self, Nat.xor_zero, Nat.mod_eq_of_lt hj]

/-- For `n = 5` it is not: bucket 3 with hash 6 goes to bucket 0 and comes back to bucket 1. -/
theorem C02_alt_not_involutive_npow2 :
    ¬ (∀ j f, j < 5 → altOf (fun x : Nat => x) 5 j f < 5 ∧
        altOf (fun x : Nat => x) 5 (altOf (fun x : Nat => x) 5 j f) f = j) := by
  intro h
  have := (h 3 6 (by decide)).2
  revert this
  decide

section
variable {F : Type} [DecidableEq F] [Inhabited (BucketMem F)]

/-! ### lookup is "orbit count positive" -/

theorem C02_lookup_iff_kc (emp : F) (alt : Nat → F → Nat) (c : Cuckoo (BucketMem F)) (fp : F) (i1 : Nat) :
    lookup (BucketMem.ops emp) c fp i1 (alt i1 fp) = true ↔ 0 < kc alt c i1 fp :=
  lookup_iff_kc (BucketMem.lawful emp) alt c fp i1

/-! ### insert -/

/-- **A successful insert stores its element and moves nothing out of its orbit.** For every
    choice of `side` and `slots` (`< bsize`), in either mode: the orbit count of the inserted key
    grows by one and every other orbit count is unchanged. -/
theorem C02_insert_ok_stored (emp : F) (alt : Nat → F → Nat) (c : Cuckoo (BucketMem F))
    (fp : F) (i1 : Nat) (d side : Bool) (slots : List Nat) (c' : Cuckoo (BucketMem F))
    (hwf : WF emp c) (hInv : ∀ j f, j < c.n → alt j f < c.n ∧ alt (alt j f) f = j)
    (hb : 0 < c.bsize) (hfp : fp ≠ emp) (hi1 : i1 < c.n) (hsl : ∀ x ∈ slots, x < c.bsize)
    (h : insert (BucketMem.ops emp) alt c fp i1 (alt i1 fp) d side slots = .ok c') :
    ∀ j g, j < c.n → g ≠ emp →
      kc alt c' j g = kc alt c j g + (if g = fp ∧ (j = i1 ∨ j = alt i1 fp) then 1 else 0) :=
  insert_ok_kc (BucketMem.lawful emp) alt c fp i1 d side slots c' ((wf_iff emp c).mp hwf) hInv hb hfp
    hi1 hsl h

/-- After a successful insert the element is found. -/
theorem C02_insert_then_lookup (emp : F) (alt : Nat → F → Nat) (c : Cuckoo (BucketMem F))
    (fp : F) (i1 : Nat) (d side : Bool) (slots : List Nat) (c' : Cuckoo (BucketMem F))
    (hwf : WF emp c) (hInv : ∀ j f, j < c.n → alt j f < c.n ∧ alt (alt j f) f = j)
    (hb : 0 < c.bsize) (hfp : fp ≠ emp) (hi1 : i1 < c.n) (hsl : ∀ x ∈ slots, x < c.bsize)
    (h : insert (BucketMem.ops emp) alt c fp i1 (alt i1 fp) d side slots = .ok c') :
    lookup (BucketMem.ops emp) c' fp i1 (alt i1 fp) = true := by
  rw [C02_lookup_iff_kc,
    C02_insert_ok_stored emp alt c fp i1 d side slots c' hwf hInv hb hfp hi1 hsl h i1 fp hi1 hfp]
  simp

/-- Every element that was found before a successful insert is still found after it, whatever
    the eviction loop moved. -/
theorem C02_insert_preserves_lookup (emp : F) (alt : Nat → F → Nat) (c : Cuckoo (BucketMem F))
    (fp : F) (i1 : Nat) (d side : Bool) (slots : List Nat) (c' : Cuckoo (BucketMem F))
    (hwf : WF emp c) (hInv : ∀ j f, j < c.n → alt j f < c.n ∧ alt (alt j f) f = j)
    (hb : 0 < c.bsize) (hfp : fp ≠ emp) (hi1 : i1 < c.n) (hsl : ∀ x ∈ slots, x < c.bsize)
    (h : insert (BucketMem.ops emp) alt c fp i1 (alt i1 fp) d side slots = .ok c')
    (g : F) (j : Nat) (hg : g ≠ emp) (hj : j < c.n)
    (hl : lookup (BucketMem.ops emp) c g j (alt j g) = true) :
    lookup (BucketMem.ops emp) c' g j (alt j g) = true := by
  rw [C02_lookup_iff_kc] at hl ⊢
  rw [C02_insert_ok_stored emp alt c fp i1 d side slots c' hwf hInv hb hfp hi1 hsl h j g hj hg]
  omega

/-- A failed non-destructive insert changes nothing, so nothing is lost (see C14). -/
theorem C02_failed_insert_preserves_lookup (emp : F) (alt : Nat → F → Nat) (c : Cuckoo (BucketMem F))
    (fp : F) (i1 i2 : Nat) (side : Bool) (slots : List Nat) (c' : Cuckoo (BucketMem F))
    (h : insert (BucketMem.ops emp) alt c fp i1 i2 false side slots = .full c')
    (g : F) (j1 j2 : Nat) :
    lookup (BucketMem.ops emp) c' g j1 j2 = lookup (BucketMem.ops emp) c g j1 j2 := by
  rw [insert_full_nondestructive (BucketMem.lawful emp) alt c fp i1 i2 side slots c' h]

/-- **No kick, any `n`** (no involution hypothesis, any `alt`, any `i2`): if one of the two
    candidate buckets has room, the insert succeeds, only adds `fp` to that bucket, the element is
    found, and every lookup (for any pair of positions) that was true stays true. -/
theorem C02_no_kick_any_n_partial (emp : F) (alt : Nat → F → Nat) (c : Cuckoo (BucketMem F))
    (fp : F) (i1 i2 : Nat) (d side : Bool) (slots : List Nat)
    (hwf : WF emp c) (hfp : fp ≠ emp) (hi1 : i1 < c.n) (hi2 : i2 < c.n)
    (hfree : (bucketAt c.buckets i1).isFree = true ∨ (bucketAt c.buckets i2).isFree = true) :
    ∃ c' j0, insert (BucketMem.ops emp) alt c fp i1 i2 d side slots = .ok c' ∧ (j0 = i1 ∨ j0 = i2) ∧
      (∀ j g, g ≠ emp → cnt c' j g = cnt c j g + (if j = j0 ∧ g = fp then 1 else 0)) ∧
      lookup (BucketMem.ops emp) c' fp i1 i2 = true ∧
      (∀ g k1 k2, g ≠ emp → lookup (BucketMem.ops emp) c g k1 k2 = true →
        lookup (BucketMem.ops emp) c' g k1 k2 = true) := by
  obtain ⟨c', j0, h1, h2, h3⟩ := insert_nokick (BucketMem.lawful emp) alt c fp i1 i2 d side slots
    ((wf_iff emp c).mp hwf) hfp hi1 hi2 hfree
  refine ⟨c', j0, h1, h2, ?_, ?_, ?_⟩
  · intro j g hg
    have e : (g = fp) = (fp = g) := propext ⟨Eq.symm, Eq.symm⟩
    simp only [e]; exact h3 j g hg
  · rw [lookup_iff (BucketMem.lawful emp)]
    rcases h2 with e | e
    · left; rw [h3 i1 fp hfp, ← e]; simp
    · right; rw [h3 i2 fp hfp, ← e]; simp
  · intro g k1 k2 hg hl
    rw [lookup_iff (BucketMem.lawful emp)] at hl ⊢
    rw [h3 k1 g hg, h3 k2 g hg]
    omega

/-! ### remove -/

/-- **Effect of `Remove`.** If it returns true, the orbit count of exactly the removed key drops
    by one (every other orbit count is unchanged); if it returns false the state is unchanged. -/
theorem C02_remove_effect (emp : F) (alt : Nat → F → Nat) (c : Cuckoo (BucketMem F)) (fp : F) (i1 : Nat)
    (hwf : WF emp c) (hInv : ∀ j f, j < c.n → alt j f < c.n ∧ alt (alt j f) f = j)
    (hfp : fp ≠ emp) (hi1 : i1 < c.n) :
    ((remove (BucketMem.ops emp) c fp i1 (alt i1 fp)).2 = true →
      ∀ j g, j < c.n → g ≠ emp →
        kc alt (remove (BucketMem.ops emp) c fp i1 (alt i1 fp)).1 j g
          + (if g = fp ∧ (j = i1 ∨ j = alt i1 fp) then 1 else 0) = kc alt c j g) ∧
    ((remove (BucketMem.ops emp) c fp i1 (alt i1 fp)).2 = false →
      (remove (BucketMem.ops emp) c fp i1 (alt i1 fp)).1 = c) := by
  cases hl : lookup (BucketMem.ops emp) c fp i1 (alt i1 fp) with
  | true =>
    refine ⟨fun _ => remove_kc (BucketMem.lawful emp) alt c fp i1 ((wf_iff emp c).mp hwf) hInv hfp hi1 hl,
      fun hf => ?_⟩
    have := (remove_present (BucketMem.lawful emp) c fp i1 _ ((wf_iff emp c).mp hwf) hfp hi1
      (hInv i1 fp hi1).1 hl).1
    rw [this] at hf; cases hf
  | false =>
    rw [remove_absent c fp i1 _ hl]
    exact ⟨fun hf => (by simp at hf), fun _ => rfl⟩

/-! ### histories -/

/-- **Live count.** Run any history of inserts (with their choices), removes and lookups of valid
    elements from the new filter; if no destructive insert failed, then for every key
    (fingerprint `g`, orbit of bucket `j`) the number of stored copies in the orbit is exactly
    #successful inserts − #successful removes of elements with that key. -/
theorem C02_live_count_exact_partial (emp : F) (alt : Nat → F → Nat) (n bsize fpl retries : Nat)
    (h : List (COp F)) (hInv : ∀ j f, j < n → alt j f < n ∧ alt (alt j f) f = j) (hb : 0 < bsize)
    (hv : ∀ op ∈ h, ValidOp emp n bsize op)
    (hsafe : NoDestructiveFail (BucketMem.ops emp) alt (empty emp n bsize fpl retries) h)
    (g : F) (j : Nat) (hg : g ≠ emp) (hj : j < n) :
    kc alt (run (BucketMem.ops emp) alt (empty emp n bsize fpl retries) h) j g
      + okRemoves (BucketMem.ops emp) alt (keySel alt g j) (empty emp n bsize fpl retries) h
      = okInserts (BucketMem.ops emp) alt (keySel alt g j) (empty emp n bsize fpl retries) h := by
  have hI : Inv (BucketMem.lawful emp) n bsize (empty emp n bsize fpl retries) :=
    ⟨(wf_iff emp _).mp (empty_wf emp n bsize fpl retries), rfl, rfl⟩
  have := run_kc (BucketMem.lawful emp) alt n bsize hInv hb _ h hI hv hsafe j g hj hg
  rw [← kc_eq, ← kc_eq, empty_kc emp alt n bsize fpl retries j g hj (hInv j g hj).1 hg] at this
  omega

/-- **No false negative** (histories in which no destructive insert fails): an element whose key
    was successfully inserted more often than successfully removed is found. -/
theorem C02_no_false_negative_partial (emp : F) (alt : Nat → F → Nat) (n bsize fpl retries : Nat)
    (h : List (COp F)) (hInv : ∀ j f, j < n → alt j f < n ∧ alt (alt j f) f = j) (hb : 0 < bsize)
    (hv : ∀ op ∈ h, ValidOp emp n bsize op)
    (hsafe : NoDestructiveFail (BucketMem.ops emp) alt (empty emp n bsize fpl retries) h)
    (g : F) (j : Nat) (hg : g ≠ emp) (hj : j < n)
    (hlive : okRemoves (BucketMem.ops emp) alt (keySel alt g j) (empty emp n bsize fpl retries) h
           < okInserts (BucketMem.ops emp) alt (keySel alt g j) (empty emp n bsize fpl retries) h) :
    lookup (BucketMem.ops emp) (run (BucketMem.ops emp) alt (empty emp n bsize fpl retries) h)
      g j (alt j g) = true := by
  rw [C02_lookup_iff_kc]
  have := C02_live_count_exact_partial emp alt n bsize fpl retries h hInv hb hv hsafe g j hg hj
  omega

/-- **No false negative** for the non-destructive API: in ANY history whose inserts are all
    non-destructive (they may fail, with any choices), an element whose key was successfully
    inserted more often than successfully removed is found. -/
theorem C02_no_false_negative (emp : F) (alt : Nat → F → Nat) (n bsize fpl retries : Nat)
    (h : List (COp F)) (hInv : ∀ j f, j < n → alt j f < n ∧ alt (alt j f) f = j) (hb : 0 < bsize)
    (hv : ∀ op ∈ h, ValidOp emp n bsize op) (hnd : NonDestructive h)
    (g : F) (j : Nat) (hg : g ≠ emp) (hj : j < n)
    (hlive : okRemoves (BucketMem.ops emp) alt (keySel alt g j) (empty emp n bsize fpl retries) h
           < okInserts (BucketMem.ops emp) alt (keySel alt g j) (empty emp n bsize fpl retries) h) :
    lookup (BucketMem.ops emp) (run (BucketMem.ops emp) alt (empty emp n bsize fpl retries) h)
      g j (alt j g) = true :=
  C02_no_false_negative_partial emp alt n bsize fpl retries h hInv hb hv
    (noDestructiveFail_of_nonDestructive alt _ h hnd) g j hg hj hlive

end

/-! ### the restriction is needed; non-vacuity -/

/-- The restriction "no destructive insert fails" cannot be dropped: with `n = 2` (a power of two,
    so `alt` is an involution), one slot per bucket and 2 retries, a failing destructive insert of
    `9` displaces the live element `7` (inserted once, never removed), which is then reported
    absent. -/
theorem C02_destructive_failure_can_lose :
    let alt : Nat → Nat → Nat := fun j f => (j ^^^ f) % 2
    let c0 : Cuckoo (BucketMem Nat) := empty 0 2 1 0 2
    let h : List (COp Nat) :=
      [.insert 5 0 false true [0, 0], .insert 7 1 false true [0, 0], .insert 9 0 true true [0, 0]]
    okInserts (BucketMem.ops 0) alt (keySel alt 7 1) c0 h = 1 ∧
    okRemoves (BucketMem.ops 0) alt (keySel alt 7 1) c0 h = 0 ∧
    lookup (BucketMem.ops 0) (run (BucketMem.ops 0) alt c0 h) 7 1 (alt 1 7) = false := by
  decide

/-- The hypothesis `hInv` cannot be dropped either: with `n = 5` buckets (not a power of two) three
    successful non-destructive inserts lose a live element.  `8` goes to bucket 3; `6` (candidates
    3 and 0) goes to bucket 0; inserting `3` (candidates 0 and 3, both full) kicks `6` out of bucket 0
    into bucket `(0 ^^^ 6) % 5 = 1`, which is not one of its candidate buckets: `6` is reported absent. -/
theorem C02_npow2_kick_loses_element :
    let alt : Nat → Nat → Nat := fun j f => (j ^^^ f) % 5
    let c0 : Cuckoo (BucketMem Nat) := empty 0 5 1 0 3
    let h : List (COp Nat) :=
      [.insert 8 3 false true [0], .insert 6 3 false true [0], .insert 3 0 false true [0]]
    okInserts (BucketMem.ops 0) alt allSel c0 h = 3 ∧
    lookup (BucketMem.ops 0) (run (BucketMem.ops 0) alt c0 h) 6 3 (alt 3 6) = false := by
  decide

/-- a filter with 4 buckets of one slot: `5` in bucket 0, `6` in bucket 1 -/
def exKick : Cuckoo (BucketMem Nat) :=
  ⟨4, 1, 0, 3, [⟨1, [5], 1⟩, ⟨1, [6], 1⟩, ⟨1, [0], 0⟩, ⟨1, [0], 0⟩], 2⟩

/-- non-vacuity: inserting `9` (candidate buckets 0 and 1, both full) succeeds through two kicks:
    `9` evicts `5` from bucket 0, `5` evicts `6` from bucket 1, `6` lands in its alternate bucket 3 -/
example : insert (BucketMem.ops 0) (fun j f => (j ^^^ f) % 4) exKick 9 0 ((0 ^^^ 9) % 4) false true [0, 0, 0]
    = .ok ⟨4, 1, 0, 3, [⟨1, [9], 1⟩, ⟨1, [5], 1⟩, ⟨1, [0], 0⟩, ⟨1, [6], 1⟩], 3⟩ := by decide

example : WF 0 exKick := by
  refine ⟨rfl, ?_, ?_⟩
  · intro b hb
    simp only [exKick, List.mem_cons, List.not_mem_nil, or_false] at hb
    rcases hb with rfl | rfl | rfl | rfl <;> decide
  · decide

/-- the hypothesis `hInv` is satisfiable for the model's `altOf` -/
example : ∀ j f, j < 4 → altOf (fun x : Nat => x) 4 j f < 4 ∧
    altOf (fun x : Nat => x) 4 (altOf (fun x : Nat => x) 4 j f) f = j :=
  C02_alt_involutive_pow2 (fun x : Nat => x) 2

/-- a history with a kick, a failed non-destructive insert and a remove; all live elements found -/
example :
    let alt : Nat → Nat → Nat := fun j f => (j ^^^ f) % 4
    let c := run (BucketMem.ops 0) alt (empty 0 4 1 0 3)
      [.insert 5 0 false true [0], .insert 6 1 false true [0], .insert 9 0 false true [0, 0, 0],
       .insert 13 0 false false [0, 0, 0], .remove 5 0, .lookup 9 0]
    lookup (BucketMem.ops 0) c 9 0 (alt 0 9) = true ∧ lookup (BucketMem.ops 0) c 6 1 (alt 1 6) = true ∧
    lookup (BucketMem.ops 0) c 5 0 (alt 0 5) = false ∧ c.length = 2 := by decide

end Gostatix.Cuckoo.Mem

/-! ## the same theorems for the Redis-backed filter (`BucketRedis.ops emp`) -/
namespace Gostatix.Cuckoo.Redis

section
variable {F : Type} [DecidableEq F] [Inhabited (BucketRedis F)]

/-! ### lookup is "orbit count positive" -/

theorem C02_lookup_iff_kc (emp : F) (alt : Nat → F → Nat) (c : Cuckoo (BucketRedis F)) (fp : F) (i1 : Nat) :
    lookup (BucketRedis.ops emp) c fp i1 (alt i1 fp) = true ↔ 0 < kc alt c i1 fp :=
  lookup_iff_kc (BucketRedis.lawful emp) alt c fp i1

/-! ### insert -/

/-- **A successful insert stores its element and moves nothing out of its orbit.** For every
    choice of `side` and `slots` (`< bsize`), in either mode: the orbit count of the inserted key
    grows by one and every other orbit count is unchanged. -/
theorem C02_insert_ok_stored (emp : F) (alt : Nat → F → Nat) (c : Cuckoo (BucketRedis F))
    (fp : F) (i1 : Nat) (d side : Bool) (slots : List Nat) (c' : Cuckoo (BucketRedis F))
    (hwf : WF emp c) (hInv : ∀ j f, j < c.n → alt j f < c.n ∧ alt (alt j f) f = j)
    (hb : 0 < c.bsize) (hfp : fp ≠ emp) (hi1 : i1 < c.n) (hsl : ∀ x ∈ slots, x < c.bsize)
    (h : insert (BucketRedis.ops emp) alt c fp i1 (alt i1 fp) d side slots = .ok c') :
    ∀ j g, j < c.n → g ≠ emp →
      kc alt c' j g = kc alt c j g + (if g = fp ∧ (j = i1 ∨ j = alt i1 fp) then 1 else 0) :=
  insert_ok_kc (BucketRedis.lawful emp) alt c fp i1 d side slots c' ((wf_iff emp c).mp hwf) hInv hb hfp
    hi1 hsl h

/-- After a successful insert the element is found. -/
theorem C02_insert_then_lookup (emp : F) (alt : Nat → F → Nat) (c : Cuckoo (BucketRedis F))
    (fp : F) (i1 : Nat) (d side : Bool) (slots : List Nat) (c' : Cuckoo (BucketRedis F))
    (hwf : WF emp c) (hInv : ∀ j f, j < c.n → alt j f < c.n ∧ alt (alt j f) f = j)
    (hb : 0 < c.bsize) (hfp : fp ≠ emp) (hi1 : i1 < c.n) (hsl : ∀ x ∈ slots, x < c.bsize)
    (h : insert (BucketRedis.ops emp) alt c fp i1 (alt i1 fp) d side slots = .ok c') :
    lookup (BucketRedis.ops emp) c' fp i1 (alt i1 fp) = true := by
  rw [C02_lookup_iff_kc,
    C02_insert_ok_stored emp alt c fp i1 d side slots c' hwf hInv hb hfp hi1 hsl h i1 fp hi1 hfp]
  simp

/-- Every element that was found before a successful insert is still found after it, whatever
    the eviction loop moved. -/
theorem C02_insert_preserves_lookup (emp : F) (alt : Nat → F → Nat) (c : Cuckoo (BucketRedis F))
    (fp : F) (i1 : Nat) (d side : Bool) (slots : List Nat) (c' : Cuckoo (BucketRedis F))
    (hwf : WF emp c) (hInv : ∀ j f, j < c.n → alt j f < c.n ∧ alt (alt j f) f = j)
    (hb : 0 < c.bsize) (hfp : fp ≠ emp) (hi1 : i1 < c.n) (hsl : ∀ x ∈ slots, x < c.bsize)
    (h : insert (BucketRedis.ops emp) alt c fp i1 (alt i1 fp) d side slots = .ok c')
    (g : F) (j : Nat) (hg : g ≠ emp) (hj : j < c.n)
    (hl : lookup (BucketRedis.ops emp) c g j (alt j g) = true) :
    lookup (BucketRedis.ops emp) c' g j (alt j g) = true := by
  rw [C02_lookup_iff_kc] at hl ⊢
  rw [C02_insert_ok_stored emp alt c fp i1 d side slots c' hwf hInv hb hfp hi1 hsl h j g hj hg]
  omega

/-- A failed non-destructive insert changes nothing, so nothing is lost (see C14). -/
theorem C02_failed_insert_preserves_lookup (emp : F) (alt : Nat → F → Nat) (c : Cuckoo (BucketRedis F))
    (fp : F) (i1 i2 : Nat) (side : Bool) (slots : List Nat) (c' : Cuckoo (BucketRedis F))
    (h : insert (BucketRedis.ops emp) alt c fp i1 i2 false side slots = .full c')
    (g : F) (j1 j2 : Nat) :
    lookup (BucketRedis.ops emp) c' g j1 j2 = lookup (BucketRedis.ops emp) c g j1 j2 := by
  rw [insert_full_nondestructive (BucketRedis.lawful emp) alt c fp i1 i2 side slots c' h]

/-- **No kick, any `n`** (no involution hypothesis, any `alt`, any `i2`): if one of the two
    candidate buckets has room, the insert succeeds, only adds `fp` to that bucket, the element is
    found, and every lookup (for any pair of positions) that was true stays true. -/
theorem C02_no_kick_any_n_partial (emp : F) (alt : Nat → F → Nat) (c : Cuckoo (BucketRedis F))
    (fp : F) (i1 i2 : Nat) (d side : Bool) (slots : List Nat)
    (hwf : WF emp c) (hfp : fp ≠ emp) (hi1 : i1 < c.n) (hi2 : i2 < c.n)
    (hfree : (bucketAt c.buckets i1).isFree = true ∨ (bucketAt c.buckets i2).isFree = true) :
    ∃ c' j0, insert (BucketRedis.ops emp) alt c fp i1 i2 d side slots = .ok c' ∧ (j0 = i1 ∨ j0 = i2) ∧
      (∀ j g, g ≠ emp → cnt c' j g = cnt c j g + (if j = j0 ∧ g = fp then 1 else 0)) ∧
      lookup (BucketRedis.ops emp) c' fp i1 i2 = true ∧
      (∀ g k1 k2, g ≠ emp → lookup (BucketRedis.ops emp) c g k1 k2 = true →
        lookup (BucketRedis.ops emp) c' g k1 k2 = true) := by
  obtain ⟨c', j0, h1, h2, h3⟩ := insert_nokick (BucketRedis.lawful emp) alt c fp i1 i2 d side slots
    ((wf_iff emp c).mp hwf) hfp hi1 hi2 hfree
  refine ⟨c', j0, h1, h2, ?_, ?_, ?_⟩
  · intro j g hg
    have e : (g = fp) = (fp = g) := propext ⟨Eq.symm, Eq.symm⟩
    simp only [e]; exact h3 j g hg
  · rw [lookup_iff (BucketRedis.lawful emp)]
    rcases h2 with e | e
    · left; rw [h3 i1 fp hfp, ← e]; simp
    · right; rw [h3 i2 fp hfp, ← e]; simp
  · intro g k1 k2 hg hl
    rw [lookup_iff (BucketRedis.lawful emp)] at hl ⊢
    rw [h3 k1 g hg, h3 k2 g hg]
    omega

/-! ### remove -/

/-- **Effect of `Remove`.** If it returns true, the orbit count of exactly the removed key drops
    by one (every other orbit count is unchanged); if it returns false the state is unchanged. -/
theorem C02_remove_effect (emp : F) (alt : Nat → F → Nat) (c : Cuckoo (BucketRedis F)) (fp : F) (i1 : Nat)
    (hwf : WF emp c) (hInv : ∀ j f, j < c.n → alt j f < c.n ∧ alt (alt j f) f = j)
    (hfp : fp ≠ emp) (hi1 : i1 < c.n) :
    ((remove (BucketRedis.ops emp) c fp i1 (alt i1 fp)).2 = true →
      ∀ j g, j < c.n → g ≠ emp →
        kc alt (remove (BucketRedis.ops emp) c fp i1 (alt i1 fp)).1 j g
          + (if g = fp ∧ (j = i1 ∨ j = alt i1 fp) then 1 else 0) = kc alt c j g) ∧
    ((remove (BucketRedis.ops emp) c fp i1 (alt i1 fp)).2 = false →
      (remove (BucketRedis.ops emp) c fp i1 (alt i1 fp)).1 = c) := by
  cases hl : lookup (BucketRedis.ops emp) c fp i1 (alt i1 fp) with
  | true =>
    refine ⟨fun _ => remove_kc (BucketRedis.lawful emp) alt c fp i1 ((wf_iff emp c).mp hwf) hInv hfp hi1 hl,
      fun hf => ?_⟩
    have := (remove_present (BucketRedis.lawful emp) c fp i1 _ ((wf_iff emp c).mp hwf) hfp hi1
      (hInv i1 fp hi1).1 hl).1
    rw [this] at hf; cases hf
  | false =>
    rw [remove_absent c fp i1 _ hl]
    exact ⟨fun hf => (by simp at hf), fun _ => rfl⟩

/-! ### histories -/

/-- **Live count.** Run any history of inserts (with their choices), removes and lookups of valid
    elements from the new filter; if no destructive insert failed, then for every key
    (fingerprint `g`, orbit of bucket `j`) the number of stored copies in the orbit is exactly
    #successful inserts − #successful removes of elements with that key. -/
theorem C02_live_count_exact_partial (emp : F) (alt : Nat → F → Nat) (n bsize fpl retries : Nat)
    (h : List (COp F)) (hInv : ∀ j f, j < n → alt j f < n ∧ alt (alt j f) f = j) (hb : 0 < bsize)
    (hv : ∀ op ∈ h, ValidOp emp n bsize op)
    (hsafe : NoDestructiveFail (BucketRedis.ops emp) alt ((empty n bsize fpl retries : Cuckoo (BucketRedis F))) h)
    (g : F) (j : Nat) (hg : g ≠ emp) (hj : j < n) :
    kc alt (run (BucketRedis.ops emp) alt ((empty n bsize fpl retries : Cuckoo (BucketRedis F))) h) j g
      + okRemoves (BucketRedis.ops emp) alt (keySel alt g j) ((empty n bsize fpl retries : Cuckoo (BucketRedis F))) h
      = okInserts (BucketRedis.ops emp) alt (keySel alt g j) ((empty n bsize fpl retries : Cuckoo (BucketRedis F))) h := by
  have hI : Inv (BucketRedis.lawful emp) n bsize ((empty n bsize fpl retries : Cuckoo (BucketRedis F))) :=
    ⟨(wf_iff emp _).mp (empty_wf emp n bsize fpl retries), rfl, rfl⟩
  have := run_kc (BucketRedis.lawful emp) alt n bsize hInv hb _ h hI hv hsafe j g hj hg
  rw [← kc_eq, ← kc_eq, empty_kc alt n bsize fpl retries j g hj (hInv j g hj).1] at this
  omega

/-- **No false negative** (histories in which no destructive insert fails): an element whose key
    was successfully inserted more often than successfully removed is found. -/
theorem C02_no_false_negative_partial (emp : F) (alt : Nat → F → Nat) (n bsize fpl retries : Nat)
    (h : List (COp F)) (hInv : ∀ j f, j < n → alt j f < n ∧ alt (alt j f) f = j) (hb : 0 < bsize)
    (hv : ∀ op ∈ h, ValidOp emp n bsize op)
    (hsafe : NoDestructiveFail (BucketRedis.ops emp) alt ((empty n bsize fpl retries : Cuckoo (BucketRedis F))) h)
    (g : F) (j : Nat) (hg : g ≠ emp) (hj : j < n)
    (hlive : okRemoves (BucketRedis.ops emp) alt (keySel alt g j) ((empty n bsize fpl retries : Cuckoo (BucketRedis F))) h
           < okInserts (BucketRedis.ops emp) alt (keySel alt g j) ((empty n bsize fpl retries : Cuckoo (BucketRedis F))) h) :
    lookup (BucketRedis.ops emp) (run (BucketRedis.ops emp) alt ((empty n bsize fpl retries : Cuckoo (BucketRedis F))) h)
      g j (alt j g) = true := by
  rw [C02_lookup_iff_kc]
  have := C02_live_count_exact_partial emp alt n bsize fpl retries h hInv hb hv hsafe g j hg hj
  omega

/-- **No false negative** for the non-destructive API: in ANY history whose inserts are all
    non-destructive (they may fail, with any choices), an element whose key was successfully
    inserted more often than successfully removed is found. -/
theorem C02_no_false_negative (emp : F) (alt : Nat → F → Nat) (n bsize fpl retries : Nat)
    (h : List (COp F)) (hInv : ∀ j f, j < n → alt j f < n ∧ alt (alt j f) f = j) (hb : 0 < bsize)
    (hv : ∀ op ∈ h, ValidOp emp n bsize op) (hnd : NonDestructive h)
    (g : F) (j : Nat) (hg : g ≠ emp) (hj : j < n)
    (hlive : okRemoves (BucketRedis.ops emp) alt (keySel alt g j) ((empty n bsize fpl retries : Cuckoo (BucketRedis F))) h
           < okInserts (BucketRedis.ops emp) alt (keySel alt g j) ((empty n bsize fpl retries : Cuckoo (BucketRedis F))) h) :
    lookup (BucketRedis.ops emp) (run (BucketRedis.ops emp) alt ((empty n bsize fpl retries : Cuckoo (BucketRedis F))) h)
      g j (alt j g) = true :=
  C02_no_false_negative_partial emp alt n bsize fpl retries h hInv hb hv
    (noDestructiveFail_of_nonDestructive alt _ h hnd) g j hg hj hlive

end

/-! ### non-vacuity (Redis): the same two-kick insert as for the in-memory filter -/

example : insert (BucketRedis.ops 0) (fun j f => (j ^^^ f) % 4)
    (⟨4, 1, 0, 3, [⟨1, [5], 1⟩, ⟨1, [6], 1⟩, ⟨1, [], 0⟩, ⟨1, [], 0⟩], 2⟩ : Cuckoo (BucketRedis Nat))
    9 0 ((0 ^^^ 9) % 4) false true [0, 0, 0]
    = .ok ⟨4, 1, 0, 3, [⟨1, [9], 1⟩, ⟨1, [5], 1⟩, ⟨1, [], 0⟩, ⟨1, [6], 1⟩], 3⟩ := by decide

end Gostatix.Cuckoo.Redis
