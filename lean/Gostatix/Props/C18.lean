/-
  C18 — a truncated persisted image is rejected.

  Every strict prefix of a well-formed image makes the decoder fail (`Dec.run … = none`, i.e.
  ReadFrom returns an error) instead of producing some state.  Derived from the exact round
  trip (C11, `rest = []`) and the generic `Dec.prefix_rejected` (Proofs/Codec.lean): a decoder
  of the free monad `Dec` that consumed `n` bytes of an input fails on every prefix of that
  input shorter than `n`.
-/
import Gostatix.Props.C11
namespace Gostatix.Codec
open Dec

theorem C18_truncated_bloom (s : BloomImg) (h : s.WF) :
    ∀ p, p <+: encBloom s → p ≠ encBloom s → Dec.run decBloom p = none := by
  intro p hpre hne
  have hrt := C11_roundtrip_bloom s h []
  rw [List.append_nil] at hrt
  exact Dec.strict_prefix_rejected hrt hpre hne

theorem C18_truncated_cms (s : CMSImg) (h : s.WF) :
    ∀ p, p <+: encCMS s → p ≠ encCMS s → Dec.run decCMS p = none := by
  intro p hpre hne
  have hrt := C11_roundtrip_cms s h []
  rw [List.append_nil] at hrt
  exact Dec.strict_prefix_rejected hrt hpre hne

theorem C18_truncated_hll (s : HLLImg) (h : s.WF) :
    ∀ p, p <+: encHLL s → p ≠ encHLL s → Dec.run decHLL p = none := by
  intro p hpre hne
  have hrt := C11_roundtrip_hll s h []
  rw [List.append_nil] at hrt
  exact Dec.strict_prefix_rejected hrt hpre hne

theorem C18_truncated_cuckoo (s : CuckooImg) (h : s.WF) :
    ∀ p, p <+: encCuckoo s → p ≠ encCuckoo s → Dec.run decCuckoo p = none := by
  intro p hpre hne
  have hrt := C11_roundtrip_cuckoo s h []
  rw [List.append_nil] at hrt
  exact Dec.strict_prefix_rejected hrt hpre hne

theorem C18_truncated_topk (s : TopKImg) (h : s.WF) :
    ∀ p, p <+: encTopK s → p ≠ encTopK s → Dec.run decTopK p = none := by
  intro p hpre hne
  have hrt := C11_roundtrip_topk s h []
  rw [List.append_nil] at hrt
  exact Dec.strict_prefix_rejected hrt hpre hne

/-! ### non-vacuity: the well-formed example images of C11 have strict prefixes, and cutting
    them anywhere (in a header, inside a string, one byte before the end) is rejected -/

/-- bloom image cut one byte before the end -/
example : Dec.run decBloom ((encBloom exBloom).take 47) = none := by
  apply C18_truncated_bloom exBloom (by decide) _ (List.take_prefix _ _)
  intro e
  have hl := congrArg List.length e
  rw [List.length_take, C11_count_bloom exBloom (by decide)] at hl
  revert hl; decide

/-- CMS image cut in the middle of the matrix -/
example : Dec.run decCMS ((encCMS exCMS).take 40) = none := by
  apply C18_truncated_cms exCMS (by decide) _ (List.take_prefix _ _)
  intro e
  have hl := congrArg List.length e
  rw [List.length_take, C11_count_cms exCMS (by decide)] at hl
  revert hl; decide

/-- HLL image with the last register missing -/
example : Dec.run decHLL ((encHLL exHLL).take 27) = none := by
  apply C18_truncated_hll exHLL (by decide) _ (List.take_prefix _ _)
  intro e
  have hl := congrArg List.length e
  rw [List.length_take, C11_count_hll exHLL (by decide)] at hl
  revert hl; decide

/-- cuckoo image cut inside the first bucket (after the length prefix of its first string) -/
example : Dec.run decCuckoo ((encCuckoo exCuckoo).take 64) = none := by
  apply C18_truncated_cuckoo exCuckoo (by decide) _ (List.take_prefix _ _)
  intro e
  have hl := congrArg List.length e
  rw [List.length_take, C11_count_cuckoo exCuckoo (by decide)] at hl
  revert hl; decide

/-- top-k image cut before the last heap entry's frequency -/
example : Dec.run decTopK ((encTopK exTopK).take 98) = none := by
  apply C18_truncated_topk exTopK (by decide) _ (List.take_prefix _ _)
  intro e
  have hl := congrArg List.length e
  rw [List.length_take, C11_count_topk exTopK (by decide)] at hl
  revert hl; decide

/-- the empty input is rejected by every decoder of a well-formed image (all images are
    non-empty: they start with a uint64 header) -/
example : Dec.run decTopK [] = none := by
  apply C18_truncated_topk exTopK (by decide) [] (List.nil_prefix)
  intro e
  have hl := congrArg List.length e
  rw [C11_count_topk exTopK (by decide)] at hl
  revert hl; decide

end Gostatix.Codec
