/-
  LoopTieHLL — the in-memory HyperLogLog `Update` and `Merge` as WHOLE functions.

  extract/loops.go translates hyperloglog.go `HyperLogLog.Update` (with `getRegisterIndexAndCount`
  of base_hyperloglog.go and `util.Max` of internal/util inlined) and `HyperLogLog.Merge` from the
  CURRENT source into `Generated.LoopsHLL.hllUpdate` / `hllMerge` (second namespace of
  Generated/Loops.lean; record `HllState`: `numRegisters numBytesPerHash : UInt64`,
  `registers : List UInt64`).  Semantics: Model/GoLoop.lean (`none` = Go panic), lock calls
  skipped, `metro.Hash128` an arbitrary function `H`.

  CONVERSION.  Go's registers are `uint8`; the translator keeps a `uint8` as the zero-extended
  `UInt64` (as arith.go does) and makes every conversion to `uint8` explicit (`GoArith.trunc8`).
  The model `HLL` (Model/HLL.lean) has `Nat` registers: `toH s = ⟨numRegisters.toNat,
  registers.map toNat⟩`.  Invariant `WFH s := len(registers) = numRegisters ∧ every register < 256`
  (decidable; established by `newHll`, kept by both operations).

  PROVED for every `H`, `data`, every `WFH` state:
   * `tie_loop_hll_update`      `hllUpdate H s data` is `some s'` with `toH s' = t` when the model's
                                `(toH s).update idx val = .ok t`, and `none` (the Go PANIC) when the model says
                                `.panic`; `idx = regIndex ..`, `val = regValue ..` are the expressions of
                                `getRegisterIndexAndCount` / `uint8(count)`, and `regIndex_toNat`, `regValue_toNat`
                                identify them with `HLL.indexOf` / `HLL.valueOf` (p ≤ 32);
   * `tie_loop_hll_update_ok / _panic`   the two cases spelled out on the record.  The panic case is finding D4:
                                the index is `1 + clz(hash << p)`, up to 65, whatever the number of registers:
                                `hll_update_panics_small_m` (16 registers, hash word 1: index 60) by `decide`;
   * `tie_loop_hll_merge`       equal register counts: `(a with registers := register-wise maximum, nil)`, and
                                `toH` of it is the model's `HLL.merge (toH a) (toH b) = .ok ..`;
   * `tie_loop_hll_merge_rejected`   different register counts: `(a, err)`, receiver unchanged, model `.err`;
   * `WFH_new`, `WFH_update`, `WFH_merge`, `loops_hll_all_translated`.
  Outside `WFH` (registers shorter than `numRegisters`, as after a bad `Import`): `Merge` panics on the
  first missing register - `decide` example at the end.
-/
import Gostatix.Proofs.LoopTieHLL
import Gostatix.Proofs.GoArith
set_option linter.unusedSimpArgs false
set_option linter.unusedVariables false

namespace Gostatix.LoopTie
open Gostatix Gostatix.GoLoop Gostatix.Generated.LoopsHLL

abbrev HashFn := List UInt8 → UInt64 → UInt64 × UInt64

/-- the invariant of the structure -/
def WFH (s : HllState) : Prop :=
  s.registers.length = s.numRegisters.toNat ∧ ∀ r ∈ s.registers, r < 256

instance (s : HllState) : Decidable (WFH s) := by unfold WFH; infer_instance

/-- the record as a state of the model (`uint8` registers read as numbers) -/
def toH (s : HllState) : HLL := { m := s.numRegisters.toNat, regs := s.registers.map UInt64.toNat }

/-- `NewHyperLogLog(m)` with `p = log2 m` -/
def newHll (m p : UInt64) : HllState :=
  { numRegisters := m, numBytesPerHash := p, registers := List.replicate m.toNat 0 }

theorem toH_new (m p : UInt64) : toH (newHll m p) = HLL.new m.toNat := by
  simp [toH, newHll, HLL.new]

theorem WFH_new (m p : UInt64) : WFH (newHll m p) := by
  refine ⟨by simp [newHll], ?_⟩
  intro r hr
  simp [newHll] at hr
  rw [hr.2]; decide

/-- the register index `getRegisterIndexAndCount` computes: `uint64(1 + bits.LeadingZeros64(hash << p))` -/
def regIndex (H : HashFn) (s : HllState) (data : List UInt8) : UInt64 :=
  1 + GoArith.clz64u (GoArith.goShl (H data 1373).1 s.numBytesPerHash)

/-- the stored value: `uint8(hash >> uint(32 - p))` -/
def regValue (H : HashFn) (s : HllState) (data : List UInt8) : UInt64 :=
  GoArith.trunc8 (GoArith.goShr (H data 1373).1 (32 - s.numBytesPerHash))

theorem regIndex_toNat (H : HashFn) (s : HllState) (data : List UInt8) :
    (regIndex H s data).toNat = HLL.indexOf (H data 1373).1.toNat s.numBytesPerHash.toNat := by
  have h : HLL.clz64 (((H data 1373).1.toNat * 2 ^ s.numBytesPerHash.toNat) % 2 ^ 64) ≤ 64 := by
    unfold HLL.clz64; split <;> omega
  simp [regIndex, HLL.indexOf, GoArith.toNat_clz64u, GoArith.toNat_goShl] at h ⊢
  omega

theorem regValue_toNat (H : HashFn) (s : HllState) (data : List UInt8) (hp : s.numBytesPerHash.toNat ≤ 32) :
    (regValue H s data).toNat = HLL.valueOf (H data 1373).1.toNat s.numBytesPerHash.toNat := by
  have hk : ((32 : UInt64) - s.numBytesPerHash).toNat = 32 - s.numBytesPerHash.toNat := by
    rw [UInt64.toNat_sub]
    have : (32 : UInt64).toNat = 32 := rfl
    omega
  simp [regValue, GoArith.toNat_trunc8, GoArith.toNat_goShr, hk, HLL.valueOf]

/-! ### Update -/

/-- in range: the register becomes the maximum of its old value and the new one -/
theorem tie_loop_hll_update_ok (H : HashFn) (s : HllState) (data : List UInt8) (h : WFH s)
    (hi : (regIndex H s data).toNat < s.registers.length) :
    hllUpdate H s data
      = some { s with registers := modAt s.registers (regIndex H s data).toNat (fun o => maxU o (regValue H s data)) } := by
  have ho := h.2 _ (List.getElem_mem hi)
  have ht := trunc8_of_lt (maxU (s.registers[(regIndex H s data).toNat]) (regValue H s data))
    (maxU_lt _ _ ho (trunc8_lt _))
  rw [← set_eq_modAt _ _ (fun o => maxU o (regValue H s data)) hi]
  unfold hllUpdate
  unfold maxU regValue regIndex at *
  simp only []
  generalize (1 + GoArith.clz64u (GoArith.goShl (H data 1373).1 s.numBytesPerHash)) = I at *
  simp only [Option.bind_some, idx_of_lt hi]
  generalize GoArith.trunc8 (GoArith.goShr (H data 1373).1 (32 - s.numBytesPerHash)) = V at *
  by_cases hc : V < s.registers[I.toNat]
  · simp only [hc, if_true] at ht
    simp [idx_of_lt, set1_of_lt, hi, hc, ht]
  · simp only [hc, if_false] at ht
    simp [idx_of_lt, set1_of_lt, hi, hc, ht]

/-- out of range: the Go code PANICS (finding D4: the index is a leading-zero count, up to 65,
    unrelated to the number of registers) -/
theorem tie_loop_hll_update_panic (H : HashFn) (s : HllState) (data : List UInt8)
    (hi : ¬ (regIndex H s data).toNat < s.registers.length) :
    hllUpdate H s data = none := by
  unfold hllUpdate
  unfold regIndex at hi
  simp only []
  generalize (1 + GoArith.clz64u (GoArith.goShl (H data 1373).1 s.numBytesPerHash)) = I at *
  simp [idx_eq_none (Nat.le_of_not_lt hi)]

theorem modAt_map {α β} (l : List α) (i : Nat) (f : α → α) (g : β → β) (t : α → β)
    (h : ∀ a, t (f a) = g (t a)) : (modAt l i f).map t = modAt (l.map t) i g := by
  induction l generalizing i with
  | nil => rfl
  | cons a as ih => cases i <;> simp [modAt, h, ih]

/-- **`Update`, the whole function, against the model** (`.ok` / `.panic` of `HLL.update`) -/
theorem tie_loop_hll_update (H : HashFn) (s : HllState) (data : List UInt8) (h : WFH s) :
    match (toH s).update (regIndex H s data).toNat (regValue H s data).toNat with
    | .ok t => ∃ s', hllUpdate H s data = some s' ∧ toH s' = t ∧ s'.numBytesPerHash = s.numBytesPerHash
    | .panic => hllUpdate H s data = none
    | .err => False := by
  by_cases hi : (regIndex H s data).toNat < s.registers.length
  · have : (toH s).update (regIndex H s data).toNat (regValue H s data).toNat
        = .ok { toH s with regs := modAt (toH s).regs (regIndex H s data).toNat (fun o => max o (regValue H s data).toNat) } := by
      simp [HLL.update, toH, hi]
    rw [this]
    refine ⟨_, tie_loop_hll_update_ok H s data h hi, ?_, rfl⟩
    simp only [toH]
    congr 1
    exact modAt_map _ _ _ _ _ (fun a => maxU_toNat a _)
  · have : (toH s).update (regIndex H s data).toNat (regValue H s data).toNat = .panic := by
      simp [HLL.update, toH, hi]
    rw [this]
    exact tie_loop_hll_update_panic H s data hi

theorem WFH_update (H : HashFn) (s : HllState) (data : List UInt8) (h : WFH s) (s' : HllState)
    (hs : hllUpdate H s data = some s') : WFH s' := by
  by_cases hi : (regIndex H s data).toNat < s.registers.length
  · rw [tie_loop_hll_update_ok H s data h hi] at hs
    cases hs
    refine ⟨by simp [h.1], ?_⟩
    intro r hr
    obtain ⟨j, hj, hget⟩ := List.mem_iff_getElem.1 hr
    have hj' : j < s.registers.length := by simpa using hj
    have := modAt_getD s.registers (regIndex H s data).toNat j (fun o => maxU o (regValue H s data)) 0 hi
    simp only [List.getD_eq_getElem?_getD, List.getElem?_eq_getElem hj, List.getElem?_eq_getElem hj',
      List.getElem?_eq_getElem hi, Option.getD_some, hget] at this
    rw [this]
    split
    · exact maxU_lt _ _ (h.2 _ (List.getElem_mem hi)) (trunc8_lt _)
    · exact h.2 _ (List.getElem_mem hj')
  · rw [tie_loop_hll_update_panic H s data hi] at hs
    cases hs

/-! ### Merge -/

/-- **`Merge`, the whole function**, equal register counts -/
theorem tie_loop_hll_merge (a b : HllState) (ha : WFH a) (hb : WFH b) (hm : a.numRegisters = b.numRegisters) :
    hllMerge a b = some ({ a with registers := List.zipWith maxU a.registers b.registers }, hllMergeErr.nil)
    ∧ HLL.merge (toH a) (toH b)
        = .ok (toH { a with registers := List.zipWith maxU a.registers b.registers }) := by
  have hlen : b.registers.length = a.registers.length := by rw [ha.1, hb.1, hm]
  constructor
  · have hl := hll_merge_loop a b.registers hlen ha.1 ha.2 hb.2
    simp [hllMerge, hm, hl]
  · have : a.registers.drop b.registers.length = [] := by simp [hlen]
    simp [HLL.merge, toH, hm, mergeRegs_map, this]

/-- **`Merge` rejected**: different register counts - the error exit, the receiver is unchanged,
    the model says `.err` -/
theorem tie_loop_hll_merge_rejected (a b : HllState) (hm : a.numRegisters ≠ b.numRegisters) :
    hllMerge a b = some (a, hllMergeErr.err) ∧ HLL.merge (toH a) (toH b) = .err := by
  constructor
  · simp [hllMerge, hm]
  · have : a.numRegisters.toNat ≠ b.numRegisters.toNat := fun h => hm (UInt64.toNat_inj.1 h)
    simp [HLL.merge, toH, this]

theorem WFH_merge (a b : HllState) (ha : WFH a) (hb : WFH b) (hm : a.numRegisters = b.numRegisters) :
    WFH { a with registers := List.zipWith maxU a.registers b.registers } := by
  have hlen : b.registers.length = a.registers.length := by rw [ha.1, hb.1, hm]
  refine ⟨by simp [hlen, ha.1], ?_⟩
  intro r hr
  obtain ⟨j, hj, hget⟩ := List.mem_iff_getElem.1 hr
  simp at hj
  rw [← hget, List.getElem_zipWith]
  exact maxU_lt _ _ (ha.2 _ (List.getElem_mem _)) (hb.2 _ (List.getElem_mem _))

theorem loops_hll_all_translated : Generated.LoopsHLL.unsupported = [] := rfl

/-! ### examples -/

/-- a hash for the examples: the first word is the first byte -/
def exHH : HashFn := fun data _ => ((data.getD 0 0).toUInt64, 0)

/-- finding D4 kept visible: 16 registers (p = 4), hash word 1: the "index" is 1 + clz(1 << 4) = 60 ≥ 16,
    the Go code panics, and so does the generated definition -/
theorem hll_update_panics_small_m : hllUpdate exHH (newHll 16 4) [1] = none := by decide

example : (regIndex exHH (newHll 16 4) [1]).toNat = 60 := by decide
example : (toH (newHll 16 4)).update 60 0 = .panic := by decide
/-- with 64 registers the same update goes through -/
example : (hllUpdate exHH (newHll 64 6) [1]).isSome = true := by decide

example : hllMerge { numRegisters := 2, numBytesPerHash := 1, registers := [3, 9] }
                   { numRegisters := 2, numBytesPerHash := 1, registers := [7, 2] }
    = some ({ numRegisters := 2, numBytesPerHash := 1, registers := [7, 9] }, hllMergeErr.nil) := by decide
example : hllMerge (newHll 2 1) (newHll 4 2) = some (newHll 2 1, hllMergeErr.err) := by decide
/-- outside `WFH`: fewer registers than the argument has - `Merge` panics -/
example : hllMerge { numRegisters := 2, numBytesPerHash := 1, registers := [3] }
                   { numRegisters := 2, numBytesPerHash := 1, registers := [7, 2] } = none := by decide

end Gostatix.LoopTie
