/-
  C09 — a Redis-backed structure can be re-attached through its metadata key.

  `…Create` is the `HSET` a constructor issues on its metadata key (field names and values as in
  the Go code, numbers in decimal); `…Attach` is `New…FromKey`: `HGETALL` + `strconv` parsing.
  The theorems: attaching right after creating gives back the same handle — parameters and base
  keys — and therefore the same Redis keys (`keysOf`), so by C08/C19 the same answers.
  `HashOrAbsent s k`: the metadata key is fresh or already holds a hash (else `HSET` fails).
  Numeric hypotheses are the ranges of Go's `int`/`uint32` parsers.

  (`NewRedisBloomFilterWithParameters` used to store the unclamped `size`/`numHashes`, so that a
  re-attached filter could have 0 hash functions; fixed in the Go code by commit fa61ac6, and
  `C09_attach_roundtrip_bloom_params` now holds for every input.)
-/
import Gostatix.Proofs.RedisAttach
namespace Gostatix.Redis

/-! ### Bloom filter -/

/-- the metadata `HSET` of a handle's own values (`NewRedisBloomFilterFromBitSet`). -/
theorem C09_attach_roundtrip_bloom (h : BloomHandle) (s : Store)
    (hs : HashOrAbsent s h.metadataKey) (h1 : h.size < 2 ^ 63) (h2 : h.k < 2 ^ 63) :
    bloomAttach (bloomCreate h s).1 h.metadataKey = some h :=
  bloom_roundtrip h s hs h1 h2

/-- `NewRedisBloomFilterWithParameters` (after fix fa61ac6, which stores `util.Max(size, 1)` and
    `util.Max(numHashes, 1)`): for ANY computed `size`/`numHashes` — zero included — attaching
    through the metadata key gives exactly the handle the constructor returned, i.e. the clamped
    parameters the created filter works with.  (`< 2^63` is the range of `strconv.Atoi`.) -/
theorem C09_attach_roundtrip_bloom_params (size numHashes : Nat) (bk mk : String) (s : Store)
    (hs : HashOrAbsent s mk) (h1 : size < 2 ^ 63) (h2 : numHashes < 2 ^ 63) :
    bloomAttach (bloomCreateRaw size numHashes bk mk s).1 mk =
      (bloomCreateRaw size numHashes bk mk s).2 ∧
    (bloomCreateRaw size numHashes bk mk s).2 =
      some { size := max size 1, k := max numHashes 1, bitsetKey := bk, metadataKey := mk } := by
  rw [bloom_roundtrip_raw size numHashes bk mk s hs h1 h2, bloomCreateRaw_result _ _ _ _ _ hs]
  exact ⟨rfl, rfl⟩

/-! ### Cuckoo filter -/

/-- `setMetadata(length)` (constructor: length 0; `Import`: the exported length). -/
theorem C09_attach_roundtrip_cuckoo (h : CuckooHandle) (length : Nat) (s : Store)
    (hs : HashOrAbsent s h.metadataKey)
    (h1 : h.n < 2 ^ 63) (h2 : h.bsize < 2 ^ 63) (h3 : h.fpl < 2 ^ 63) (h4 : h.retries < 2 ^ 63) :
    cuckooAttach (cuckooSetMetadata h length s).1 h.metadataKey = some h :=
  cuckoo_roundtrip h length s hs h1 h2 h3 h4

/-- hence the re-created bucket handles (`localInitBuckets`) name the same Redis keys. -/
theorem C09_attach_cuckoo_same_keys (h : CuckooHandle) (s : Store)
    (hs : HashOrAbsent s h.metadataKey)
    (h1 : h.n < 2 ^ 63) (h2 : h.bsize < 2 ^ 63) (h3 : h.fpl < 2 ^ 63) (h4 : h.retries < 2 ^ 63) :
    (cuckooAttach (cuckooCreate h s).1 h.metadataKey).map CuckooHandle.keysOf = some h.keysOf := by
  unfold cuckooCreate
  rw [cuckoo_roundtrip h 0 s hs h1 h2 h3 h4]; rfl

/-! ### Count-Min Sketch -/

/-- `NewCountMinSketchRedisFromKey` demands `rows > 0` and `columns > 0`, as the constructor does. -/
theorem C09_attach_roundtrip_cms (h : CMSHandle) (s : Store) (hs : HashOrAbsent s h.metadataKey)
    (h1 : 0 < h.rows) (h2 : 0 < h.cols) (h3 : h.rows < 2 ^ 63) (h4 : h.cols < 2 ^ 63) :
    cmsAttach (cmsCreate h s).1 h.metadataKey = some h :=
  cms_roundtrip h s hs h1 h2 h3 h4

/-! ### HyperLogLog -/

/-- `numBytesPerHash` and `correctionBias` are recomputed from `m` by `makeAbstractHyperLogLog`
    in both paths; `m` must be a positive power of two in both. -/
theorem C09_attach_roundtrip_hll (h : HLLHandle) (s : Store) (hs : HashOrAbsent s h.metadataKey)
    (h1 : 0 < h.m) (h2 : h.m &&& (h.m - 1) = 0) (h3 : h.m < 2 ^ 63) :
    hllAttach (hllCreate h s).1 h.metadataKey = some h :=
  hll_roundtrip h s hs h1 h2 h3

/-! ### Top-K -/

/-- `NewTopKRedis` writes the nested sketch's metadata and its own (`sketchKey` = the sketch's
    metadata key); `NewTopKRedisFromKey` follows `sketchKey`.  `k` is parsed as a 32-bit value. -/
theorem C09_attach_roundtrip_topk (h : TopKHandle) (s : Store)
    (hs : HashOrAbsent s h.metadataKey) (hs' : HashOrAbsent s h.sketch.metadataKey)
    (hne : h.metadataKey ≠ h.sketch.metadataKey) (hk : h.k < 2 ^ 32)
    (h1 : 0 < h.sketch.rows) (h2 : 0 < h.sketch.cols)
    (h3 : h.sketch.rows < 2 ^ 63) (h4 : h.sketch.cols < 2 ^ 63) :
    topkAttach (topkCreate h s).1 h.metadataKey = some h :=
  topk_roundtrip h s hs hs' hne hk h1 h2 h3 h4

/-- `k` is written as a (64-bit) `uint` but read back with `ParseUint(…, 10, 32)`: from `2^32`
    on the re-attached structure tracks `2^32 - 1` elements. -/
theorem C09_attach_topk_k_overflow :
    parseUint32 (decimal (2 ^ 32)) = 2 ^ 32 - 1 ∧ parseUint32 (decimal (2 ^ 32)) ≠ 2 ^ 32 := by
  decide

/-! ### attach looks at the metadata key only -/

theorem C09_other_keys_irrelevant_bloom (s s' : Store) (mk : String) (e : s mk = s' mk) :
    bloomAttach s mk = bloomAttach s' mk := bloomAttach_congr e

theorem C09_other_keys_irrelevant_cuckoo (s s' : Store) (mk : String) (e : s mk = s' mk) :
    cuckooAttach s mk = cuckooAttach s' mk := cuckooAttach_congr e

theorem C09_other_keys_irrelevant_cms (s s' : Store) (mk : String) (e : s mk = s' mk) :
    cmsAttach s mk = cmsAttach s' mk := cmsAttach_congr e

theorem C09_other_keys_irrelevant_hll (s s' : Store) (mk : String) (e : s mk = s' mk) :
    hllAttach s mk = hllAttach s' mk := hllAttach_congr e

/-- Top-K also reads the sketch's metadata key named in its own hash, and nothing else. -/
theorem C09_other_keys_irrelevant_topk (s s' : Store) (mk : String) (e : s mk = s' mk)
    (e' : ∀ vals, (cmdHGETALL mk s).2 = some vals →
      s (field vals "sketchKey") = s' (field vals "sketchKey")) :
    topkAttach s mk = topkAttach s' mk := topkAttach_congr e e'

theorem C09_other_keys_irrelevant (s s' : Store) (mk : String) (e : s mk = s' mk) :
    bloomAttach s mk = bloomAttach s' mk ∧ cuckooAttach s mk = cuckooAttach s' mk ∧
    cmsAttach s mk = cmsAttach s' mk ∧ hllAttach s mk = hllAttach s' mk :=
  ⟨bloomAttach_congr e, cuckooAttach_congr e, cmsAttach_congr e, hllAttach_congr e⟩

/-- in particular any operation of another structure on disjoint keys (C19) cannot change what
    a later attach returns. -/
theorem C09_attach_after_foreign_op {ρ : Type} (K : List String) (op : Op ρ)
    (hsup : SupportedOn K op) (mk : String) (hmk : mk ∉ K) (s : Store) :
    cmsAttach (op s).1 mk = cmsAttach s mk ∧ hllAttach (op s).1 mk = hllAttach s mk ∧
    bloomAttach (op s).1 mk = bloomAttach s mk ∧ cuckooAttach (op s).1 mk = cuckooAttach s mk :=
  have e := hsup.1 s mk hmk
  ⟨cmsAttach_congr e, hllAttach_congr e, bloomAttach_congr e, cuckooAttach_congr e⟩

/-! ### non-vacuity -/

section examples

def exBloom : BloomHandle := { size := 75, k := 3, bitsetKey := "aaaaaaaaaaaaaaaa", metadataKey := "aaaaaaaaaaaaaaab" }
def exCk : CuckooHandle :=
  { n := 100, bsize := 4, fpl := 2, retries := 500, key := "aaaaaaaaaaaaaaac", metadataKey := "aaaaaaaaaaaaaaad" }
def exSk : CMSHandle := { rows := 5, cols := 272, key := "aaaaaaaaaaaaaaae", metadataKey := "aaaaaaaaaaaaaaaf" }
def exHy : HLLHandle := { m := 64, key := "aaaaaaaaaaaaaaag", metadataKey := "aaaaaaaaaaaaaaah" }
def exTk : TopKHandle :=
  { k := 10, errorRate := "0.01", accuracy := "0.01", heapKey := "aaaaaaaaaaaaaaai",
    metadataKey := "aaaaaaaaaaaaaaaj", sketch := exSk }

example : HashOrAbsent Store.empty "aaaaaaaaaaaaaaab" := Or.inl rfl

/-- the former defect's witness, `NewRedisBloomFilterWithParameters(100, 0.7)`: `size = 75`, raw
    `numHashes = ceil(float64(75/100) * ln 2) = 0`, clamped to 1.  The metadata now says 1 and
    the re-attached filter has one hash function, like the created one. -/
example :
    let r := bloomCreateRaw 75 0 "aaaaaaaaaaaaaaaa" "aaaaaaaaaaaaaaab" Store.empty
    r.1 "aaaaaaaaaaaaaaab" =
      some (.hash [("size", "75"), ("numHashes", "1"), ("bitsetKey", "aaaaaaaaaaaaaaaa")]) ∧
    r.2 = some { size := 75, k := 1, bitsetKey := "aaaaaaaaaaaaaaaa", metadataKey := "aaaaaaaaaaaaaaab" } ∧
    bloomAttach r.1 "aaaaaaaaaaaaaaab" =
      some { size := 75, k := 1, bitsetKey := "aaaaaaaaaaaaaaaa", metadataKey := "aaaaaaaaaaaaaaab" } ∧
    bloomAttach r.1 "aaaaaaaaaaaaaaab" = r.2 := by
  decide

/-- the hash the constructor writes, field by field. -/
example : (cmsCreate exSk Store.empty).1 "aaaaaaaaaaaaaaaf" =
    some (.hash [("rows", "5"), ("columns", "272"), ("key", "aaaaaaaaaaaaaaae")]) := by decide
example : (cuckooCreate exCk Store.empty).1 "aaaaaaaaaaaaaaad" =
    some (.hash [("size", "100"), ("bucketSize", "4"), ("fingerPrintLength", "2"), ("retries", "500"),
      ("key", "aaaaaaaaaaaaaaac"), ("length", "0")]) := by decide

example : bloomAttach (bloomCreate exBloom Store.empty).1 exBloom.metadataKey = some exBloom := by decide
example : cuckooAttach (cuckooCreate exCk Store.empty).1 exCk.metadataKey = some exCk := by decide
example : cmsAttach (cmsCreate exSk Store.empty).1 exSk.metadataKey = some exSk := by decide
example : hllAttach (hllCreate exHy Store.empty).1 exHy.metadataKey = some exHy := by decide
example : topkAttach (topkCreate exTk Store.empty).1 exTk.metadataKey = some exTk := by decide

/-- the hypotheses matter: not a power of two / zero rows / nothing stored ⇒ error … -/
example : hllAttach (hllCreate { exHy with m := 48 } Store.empty).1 exHy.metadataKey = none := by decide
example : cmsAttach (cmsCreate { exSk with rows := 0 } Store.empty).1 exSk.metadataKey = none := by decide
example : cmsAttach Store.empty "aaaaaaaaaaaaaaaf" = none := by decide
/-- … while the Bloom and Cuckoo `FromKey` accept a key that holds nothing and hand out a
    zero-sized structure (the Go code then divides by zero on first use). -/
example : bloomAttach Store.empty "zzzzzzzzzzzzzzzz" =
    some { size := 0, k := 0, bitsetKey := "", metadataKey := "zzzzzzzzzzzzzzzz" } := by decide
/-- attach goes through the metadata key only: the wrong key does not find the sketch. -/
example : cmsAttach (cmsCreate exSk Store.empty).1 exSk.key = none := by decide

end examples

end Gostatix.Redis
