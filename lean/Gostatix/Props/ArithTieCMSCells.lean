/-
  ArithTieCMSCells — arithmetic tie, count-min sketch counters: the three read-modify-write
  statements of count_min_sketch.go

      Update:  cms.matrix[r][c] += count        ->  Generated.Arith.cmsCellUpdate   cell   count
               cms.allSum += count              ->  Generated.Arith.cmsAllSumUpdate allSum count
      Merge:   cms.matrix[i][j] += other[i][j]  ->  Generated.Arith.cmsCellMerge    a      b

  as extract/arith.go translates them from the CURRENT Go source on every run (`UInt64`, wrapping),
  agree with the arithmetic of the machine model `CMSM` (Model/CMSM.lean) for ALL inputs, and the
  model's `Update` / `Merge` steps are the steps built from the generated kernels.

  The translator emits a definition only while the statement keeps its shape (see the header of
  extract/arith.go, "Store kernels"): one unconditional store per function, alone in its loop body,
  no guard on its operands before it, no helper call (`satAdd(...)`), operands of type `uint64`.
  Otherwise the kernel is listed in `Generated.Arith.unsupported`, has NO definition, and the
  theorems below (and `all_cms_store_kernels_translated`) no longer elaborate.  A different
  operator (`-=`, `|=`, ...) or different operands are translated and break the `rfl`s.

  NOT tied: the loops around the statements (that `Update` visits exactly the cells
  `(r, getPositions(data)[r])` and `Merge` every cell) and `Count`'s comparison loop — these are
  the list recursions `updRowsM`, `addRowsM`, `minInitM` of the model, checked against the code by
  the correspondence suite.  `getPositions` itself is tied in Props/ArithTieCMS.lean.
-/
import Gostatix.Generated.Arith
import Gostatix.Model.CMSM

namespace Gostatix.ArithTie
open Gostatix.Generated.Arith

/-- `cms.matrix[r][c] += count` is the model's `cellUpdate` (wrapping `uint64` addition). -/
theorem tie_cmsCellUpdate (cell count : UInt64) :
    cmsCellUpdate cell count = CMSM.cellUpdate cell count := rfl

/-- `cms.allSum += count` is the model's `allSumUpdate`. -/
theorem tie_cmsAllSumUpdate (allSum count : UInt64) :
    cmsAllSumUpdate allSum count = CMSM.allSumUpdate allSum count := rfl

/-- `cms.matrix[i][j] += other[i][j]` is the model's `cellMerge`. -/
theorem tie_cmsCellMerge (a b : UInt64) : cmsCellMerge a b = CMSM.cellMerge a b := rfl

/-- read as numbers: the sum modulo 2^64 (so the statement is exact iff `cell + count < 2^64`). -/
theorem tie_cmsCellUpdate_toNat (cell count : UInt64) :
    (cmsCellUpdate cell count).toNat = (cell.toNat + count.toNat) % 2 ^ 64 :=
  UInt64.toNat_add cell count

theorem tie_cmsAllSumUpdate_toNat (allSum count : UInt64) :
    (cmsAllSumUpdate allSum count).toNat = (allSum.toNat + count.toNat) % 2 ^ 64 :=
  UInt64.toNat_add allSum count

theorem tie_cmsCellMerge_toNat (a b : UInt64) :
    (cmsCellMerge a b).toNat = (a.toNat + b.toNat) % 2 ^ 64 :=
  UInt64.toNat_add a b

/-! ### the steps of `CMSM` are the steps built from the generated kernels -/

/-- the row loop of `Update` with the generated cell statement -/
def updRowsG : List (List UInt64) → List Nat → UInt64 → List (List UInt64)
  | row :: m, p :: pos, c => modAt row p (fun cell => cmsCellUpdate cell c) :: updRowsG m pos c
  | m, _, _ => m

/-- the cell loops of `Merge` with the generated cell statement -/
def addRowsG : List (List UInt64) → List (List UInt64) → List (List UInt64)
  | r1 :: m1, r2 :: m2 => List.zipWith cmsCellMerge r1 r2 :: addRowsG m1 m2
  | m1, _ => m1

theorem tie_updRows (m : List (List UInt64)) (pos : List Nat) (c : UInt64) :
    updRowsG m pos c = CMSM.updRowsM m pos c := by
  induction m generalizing pos with
  | nil => cases pos <;> rfl
  | cons row m ih =>
    cases pos with
    | nil => rfl
    | cons p pos =>
      show modAt row p (fun cell => cmsCellUpdate cell c) :: updRowsG m pos c
        = modAt row p (fun cell => CMSM.cellUpdate cell c) :: CMSM.updRowsM m pos c
      rw [ih pos]
      have : (fun cell => cmsCellUpdate cell c) = (fun cell => CMSM.cellUpdate cell c) :=
        funext (fun cell => tie_cmsCellUpdate cell c)
      rw [this]

theorem tie_addRows (a b : List (List UInt64)) : addRowsG a b = CMSM.addRowsM a b := by
  induction a generalizing b with
  | nil => cases b <;> rfl
  | cons r1 a ih =>
    cases b with
    | nil => rfl
    | cons r2 b =>
      show List.zipWith cmsCellMerge r1 r2 :: addRowsG a b
        = List.zipWith CMSM.cellMerge r1 r2 :: CMSM.addRowsM a b
      rw [ih b]
      have : cmsCellMerge = CMSM.cellMerge :=
        funext (fun x => funext (fun y => tie_cmsCellMerge x y))
      rw [this]

/-- **`Update` of the machine model = the Go statements**: the matrix is updated by
    `cmsCellUpdate` at the probed cell of every row, `allSum` by `cmsAllSumUpdate`. -/
theorem tie_cmsUpdateStep (s : CMSM) (pos : List Nat) (count : UInt64) :
    s.updateM pos count
      = { s with m := updRowsG s.m pos count, allSum := cmsAllSumUpdate s.allSum count } := by
  rw [tie_updRows]; rfl

/-- **`Merge` of the machine model = the Go statements**: after the two dimension checks every
    cell is `cmsCellMerge` of the two cells; nothing else changes. -/
theorem tie_cmsMergeStep (a b : CMSM) :
    CMSM.mergeM a b
      = if a.rows ≠ b.rows then .err
        else if a.cols ≠ b.cols then .err
        else .ok { a with m := addRowsG a.m b.m } := by
  rw [tie_addRows]; rfl

/-- all three store kernels were translated (none is in the `unsupported` list). -/
theorem all_cms_store_kernels_translated :
    ∀ k ∈ ["cmsCellUpdate", "cmsAllSumUpdate", "cmsCellMerge"],
      k ∉ Generated.Arith.unsupported.map (·.1) := by decide

example : cmsCellUpdate 18446744073709551615 2 = 1 := by decide
example : cmsCellMerge 9223372036854775808 9223372036854775808 = 0 := by decide
example : cmsAllSumUpdate 7 5 = 12 := by decide

end Gostatix.ArithTie
