/-
  C03Machine — the counters are `uint64`: the machine-integer Count-Min model `CMSM`
  (Model/CMSM.lean: `UInt64` cells, wrapping `+`, `<`/min on `UInt64`, `allSum : UInt64`) REFINES the
  `Nat` model `CMS` (Model/CMS.lean) on which C03 (never under-counts, bounded by the stream
  total) and C12 (merge = union) are proved.  Up to now the boundary between the `Nat` model and
  the code was only a hypothesis (`total < 2^64`) of the image theorems of Props/C11Reach.lean;
  here it is a theorem.

  SETTING
    * `absM : CMSM → CMS` is `toNat` on every cell (`allSum` is not part of `CMS`; it is treated
      separately and compared with `CMSHist.ownSum`).
    * histories: the history trees `Reach.CMSHist` of Proofs/C11Reach.lean (`new`, `update`,
      `merge` with any other history; `state`, `total`, `ownSum`) are REUSED; `runM h` is the
      machine run of `h`.  A count `c : Nat` of a history enters the machine run as the `uint64`
      `UInt64.ofNat c` (= `c` itself when `c < 2^64`, which `total < 2^64` implies; every `uint64`
      argument `u` of the Go `Update` is `UInt64.ofNat u.toNat`, see `C03_machine_uint64_history`).
      List histories (`CMS.run` of Props/C03.lean) are run by `runLM`.
    * positions are `List Nat` exactly as in the `Nat` model (tie of `getPositions`:
      Props/ArithTieCMS.lean); the three arithmetic statements of the machine model are tied to
      the Go source in Props/ArithTieCMSCells.lean.

  WHAT IS PROVED
   1. one step (`NoOvfUpdate`/`NoOvfMerge` = every touched cell + operand < 2^64, the condition of
      THAT step only):
        `C03_machine_refines_update`, `C03_machine_refines_allSum`, `C03_machine_refines_merge`
        commute with `absM`; `C03_machine_refines_count` needs no hypothesis at all.
        The hypotheses are necessary: `C03_machine_refines_update_needs_noovf`,
        `C03_machine_refines_merge_needs_noovf` (`decide`).
        Without them: `C03_machine_mod_update`, `C03_machine_mod_merge` (the `Nat` step followed by
        `% 2^64`).
   2. histories: `C03_machine_no_overflow` (if `h.total < 2^64`, every step of the machine run
      satisfies its no-overflow condition: `StepsOK`), `C03_machine_refines_history`
      (`absM (runM h) = h.state`), `C03_machine_allSum_history` (`allSum = ownSum`),
      `C03_machine_count_history`; the bound is sharp (`C03_machine_bound_sharp`: total = 2^64).
   3. transfer: `C03_machine_lower`, `C03_machine_exact_single`, `C12_machine_merge_union`
      (+ `C12_machine_merged_bounds`) under `total < 2^64`, each by citing the `Nat` theorem
      (`C03_lower`, `C03_exact_single`, `C12_merge_union`, `C12_merged_bounds`);
      `C03_machine_upper` holds WITHOUT the bound (a `uint64` is below 2^64 ≤ total).
   4. beyond the bound: `C03_machine_wraps` / `C03_machine_lower_needs_bound` /
      `C12_machine_wraps` — the machine model UNDER-counts (two updates of 2^63 of one element
      estimate 0; merging two sketches that hold 2^63 each estimates 0), so C03's lower bound and
      exactness are FALSE of the code once the stream total reaches 2^64, while each single
      `uint64` argument is perfectly legal.  What always holds, for every history and any totals:
      `C03_machine_mod` (every cell is the `Nat` cell modulo 2^64, `allSum` is `ownSum` modulo
      2^64), `C03_machine_mod_cell`, `C03_machine_mod_count`, `C03_machine_mod_collision_free`
      (estimate = true count modulo 2^64 when the element collides with nothing in any row),
      `C03_machine_mod_single`, and `C12_machine_merge_union_mod` (merge = union on the matrices
      for ANY totals, because wrapping addition is still commutative and associative; but
      `allSum` is not merged: `C12_machine_merge_allSum_differs`).
   5. Top-K: `C04_machine_sketch`, `C04_machine_estimate_drops` and the note `C04_machine_note`
      at the end.

  WHAT IS NOT PROVED
    * that the Go loops are the list recursions of `CMSM` (only the arithmetic statements are tied
      to the source, Props/ArithTieCMSCells.lean; the loop structure is checked by the
      correspondence suite of the harness);
    * anything about the Redis variant (Lua doubles, exact below 2^53): out of scope;
    * `rows`/`cols` are `Nat` in both models (Go `uint`); out-of-range positions are no-ops in both
      models whereas the Go code would panic (`C03_position_in_range` shows they do not occur).
-/
import Gostatix.Proofs.C03Machine
import Gostatix.Props.ArithTieCMSCells

namespace Gostatix.CMSM
open Gostatix.CMS (Res run total trueCount PosOK)
open Gostatix.Reach (CMSHist)

/-! ## 1. one step of the machine model -/

/-- **Update refines**: under the no-overflow condition of this one step (every touched cell
    plus `count` fits a `uint64`), the machine `Update` commutes with the abstraction. -/
theorem C03_machine_refines_update (s : CMSM) (pos : List Nat) (c : UInt64)
    (hno : NoOvfUpdate s pos c) :
    absM (s.updateM pos c) = (absM s).update pos c.toNat :=
  CMS.cms_ext _ _ rfl rfl (updRowsM_abs s.m pos c hno)

/-- the `allSum` statement of `Update` under ITS no-overflow condition -/
theorem C03_machine_refines_allSum (s : CMSM) (pos : List Nat) (c : UInt64)
    (hno : (allSumM s).toNat + c.toNat < 2 ^ 64) :
    (allSumM (s.updateM pos c)).toNat = (allSumM s).toNat + c.toNat := by
  have hno' : s.allSum.toNat + c.toNat < 2 ^ 64 := hno
  show (s.allSum + c).toNat = s.allSum.toNat + c.toNat
  rw [UInt64.toNat_add, Nat.mod_eq_of_lt hno']

/-- **Count refines**, unconditionally: the `uint64` minimum is the `Nat` minimum. -/
theorem C03_machine_refines_count (s : CMSM) (pos : List Nat) :
    (s.countM pos).toNat = (absM s).count pos :=
  countM_abs s pos

/-- **Merge refines**: same result (`.err` on a dimension mismatch in both models), and under the
    no-overflow condition of this merge (cell-wise `a + b < 2^64`) the merged sketches agree. -/
theorem C03_machine_refines_merge (a b : CMSM) (hno : NoOvfMerge a b) :
    resAbs (mergeM a b) = CMS.merge (absM a) (absM b) := by
  by_cases hd : a.rows = b.rows ∧ a.cols = b.cols
  · rw [mergeM_ok a b hd.1 hd.2, CMS.merge_ok (absM a) (absM b) hd.1 hd.2]
    show Res.ok _ = Res.ok _
    congr 1
    exact CMS.cms_ext _ _ rfl rfl (addRowsM_abs a.m b.m hno)
  · have hd' : a.rows ≠ b.rows ∨ a.cols ≠ b.cols := by
      by_cases hr : a.rows = b.rows
      · exact Or.inr (fun hc => hd ⟨hr, hc⟩)
      · exact Or.inl hr
    rw [mergeM_err a b hd', CMS.merge_err (absM a) (absM b) hd']; rfl

/-- `Merge` does not touch `allSum` (nor the dimensions) of the receiver. -/
theorem C03_machine_merge_allSum (a b s : CMSM) (h : mergeM a b = .ok s) :
    allSumM s = allSumM a ∧ s.rows = a.rows ∧ s.cols = a.cols := by
  unfold mergeM at h
  split at h
  · cases h
  · split at h
    · cases h
    · cases h; exact ⟨rfl, rfl, rfl⟩

/-- the no-overflow hypothesis of `C03_machine_refines_update` cannot be dropped
    (1×1 sketch holding 2^63, update by 2^63: the machine cell is 0, the `Nat` cell 2^64). -/
theorem C03_machine_refines_update_needs_noovf :
    ¬ (∀ (s : CMSM) (pos : List Nat) (c : UInt64),
        absM (s.updateM pos c) = (absM s).update pos c.toNat) := by
  intro H
  have := H ⟨1, 1, 0, [[9223372036854775808]]⟩ [0] 9223372036854775808
  revert this; decide

/-- the no-overflow hypothesis of `C03_machine_refines_merge` cannot be dropped. -/
theorem C03_machine_refines_merge_needs_noovf :
    ¬ (∀ (a b : CMSM), resAbs (mergeM a b) = CMS.merge (absM a) (absM b)) := by
  intro H
  have := H ⟨1, 1, 0, [[9223372036854775808]]⟩ ⟨1, 1, 0, [[9223372036854775808]]⟩
  revert this; decide

/-- without any hypothesis: one machine `Update` is the `Nat` update followed by `% 2^64`. -/
theorem C03_machine_mod_update (s : CMSM) (pos : List Nat) (c : UInt64) :
    absM (s.updateM pos c) = modM ((absM s).update pos c.toNat) :=
  CMS.cms_ext _ _ rfl rfl (updRowsM_mod s.m pos c)

/-- without any hypothesis: one machine `Merge` is the `Nat` merge followed by `% 2^64`. -/
theorem C03_machine_mod_merge (a b : CMSM) :
    resAbs (mergeM a b) = resMod (CMS.merge (absM a) (absM b)) := by
  by_cases hd : a.rows = b.rows ∧ a.cols = b.cols
  · rw [mergeM_ok a b hd.1 hd.2, CMS.merge_ok (absM a) (absM b) hd.1 hd.2]
    show Res.ok _ = Res.ok _
    congr 1
    exact CMS.cms_ext _ _ rfl rfl (addRowsM_mod a.m b.m)
  · have hd' : a.rows ≠ b.rows ∨ a.cols ≠ b.cols := by
      by_cases hr : a.rows = b.rows
      · exact Or.inr (fun hc => hd ⟨hr, hc⟩)
      · exact Or.inl hr
    rw [mergeM_err a b hd', CMS.merge_err (absM a) (absM b) hd']; rfl

/-! ## 2. histories: below 2^64 in total nothing overflows and the machine run IS the `Nat` run -/

/-- **No overflow**: if everything that reaches the matrix sums to less than 2^64 (`h.total`:
    own updates plus the totals of the successfully merged sketches), then every step of the
    machine run satisfies the no-overflow condition of that step (`StepsOK`: each count is a
    `uint64`, `NoOvfUpdate` / `NoOvfMerge` hold, `allSum + count < 2^64`). -/
theorem C03_machine_no_overflow (h : CMSHist) (hT : h.total < 2 ^ 64) : StepsOK h :=
  (runM_refines h hT).1

/-- **Refinement**: under the same bound the machine state abstracts to the `Nat` state. -/
theorem C03_machine_refines_history (h : CMSHist) (hT : h.total < 2 ^ 64) :
    absM (runM h) = h.state :=
  (runM_refines h hT).2.1

/-- ... and the `allSum` field is `ownSum` (the value `C11_reachable_wf_cms_ownSum` and
    `C10_roundtrip_reachable_cms` assume for it). -/
theorem C03_machine_allSum_history (h : CMSHist) (hT : h.total < 2 ^ 64) :
    (allSumM (runM h)).toNat = h.ownSum :=
  (runM_refines h hT).2.2

/-- every estimate of the machine run is the estimate of the `Nat` run. -/
theorem C03_machine_count_history (h : CMSHist) (hT : h.total < 2 ^ 64) (p : List Nat) :
    ((runM h).countM p).toNat = h.state.count p := by
  rw [C03_machine_refines_count, C03_machine_refines_history h hT]

/-- the estimate never exceeds `h.total` — for EVERY history: below 2^64 by refinement and
    `Reach.count_le_of_bounded`, from 2^64 on because a `uint64` is below 2^64. -/
theorem C03_machine_count_le_total (h : CMSHist) (p : List Nat) :
    ((runM h).countM p).toNat ≤ h.total := by
  by_cases hT : h.total < 2 ^ 64
  · rw [C03_machine_count_history h hT]
    exact Reach.count_le_of_bounded _ _ _ (CMSHist.inv h).2.2.2
  · have := ((runM h).countM p).toNat_lt
    omega

/-- the bound `total < 2^64` is sharp: a history of two legal `uint64` updates with total exactly
    2^64 whose machine run is NOT the `Nat` run (and which violates `StepsOK`). -/
theorem C03_machine_bound_sharp :
    let h : CMSHist := .update (.update (.new 1 1) [0] (2 ^ 63)) [0] (2 ^ 63)
    h.total = 2 ^ 64 ∧ absM (runM h) ≠ h.state ∧ ¬ StepsOK h
      ∧ (runM h).m = [[0]] ∧ h.state.m = [[2 ^ 64]] := by
  refine ⟨by decide, by decide, ?_, by decide, by decide⟩
  intro hs
  have := hs.2.2.1 (9223372036854775808 : UInt64) (by decide)
  revert this; decide

/-! ### list histories -/

section lists
variable {E : Type}

/-- a machine history whose counts are given as `uint64` values is the run of its `toNat`
    history: `UInt64.ofNat` in `runLM`/`runM` loses nothing on actual arguments of `Update`. -/
theorem C03_machine_uint64_history (pos : E → List Nat) (s : CMSM) (h : List (E × UInt64)) :
    runLM pos s (h.map (fun ec => (ec.1, ec.2.toNat)))
      = h.foldl (fun s ec => s.updateM (pos ec.1) ec.2) s := by
  induction h generalizing s with
  | nil => rfl
  | cons ec h ih =>
    simp only [runLM, List.map_cons, List.foldl_cons, UInt64.ofNat_toNat] at ih ⊢
    exact ih _

/-- refinement for a list of updates applied to any reachable machine state. -/
theorem C03_machine_refines_run (pos : E → List Nat) (t : CMSHist) (h : List (E × Nat))
    (hT : t.total + total h < 2 ^ 64) :
    absM (runLM pos (runM t) h) = run pos t.state h := by
  obtain ⟨a, b, c, _, _, _⟩ := histOf_facts pos t h
  rw [← b, ← a]
  exact C03_machine_refines_history _ (by rw [c]; exact hT)

/-- ... in particular from the fresh sketch. -/
theorem C03_machine_refines_run_new (pos : E → List Nat) (rows cols : Nat) (h : List (E × Nat))
    (hT : total h < 2 ^ 64) :
    absM (runLM pos (CMSM.new rows cols) h) = run pos (CMS.new rows cols) h := by
  have := C03_machine_refines_run pos (.new rows cols) h (by simpa [CMSHist.total] using hT)
  exact this

/-- modulo 2^64, for any list of updates applied to any reachable machine state. -/
theorem C03_machine_mod_run (pos : E → List Nat) (t : CMSHist) (h : List (E × Nat)) :
    absM (runLM pos (runM t) h) = modM (run pos t.state h) := by
  obtain ⟨a, b, _, _, _, _⟩ := histOf_facts pos t h
  rw [← b, ← a]
  exact (runM_mod _).1

/-! ## 3. C03 and C12 transferred to the machine model -/

/-- **C03, lower bound, on `uint64` counters**: if the stream total is below 2^64 the machine
    estimate never under-counts (cites `C03_lower`). -/
theorem C03_machine_lower [DecidableEq E] (pos : E → List Nat) (rows cols : Nat)
    (h : List (E × Nat)) (x : E) (hrows : 1 ≤ rows) (hpos : PosOK pos rows cols)
    (hT : total h < 2 ^ 64) :
    trueCount h x ≤ ((runLM pos (CMSM.new rows cols) h).countM (pos x)).toNat := by
  rw [C03_machine_refines_count, C03_machine_refines_run_new pos rows cols h hT]
  exact CMS.C03_lower pos rows cols h x hrows hpos

/-- **C03, upper bound, on `uint64` counters**: NO bound on the total is needed — below 2^64 by
    refinement (cites `C03_upper`), from 2^64 on because the estimate is a `uint64`. -/
theorem C03_machine_upper (pos : E → List Nat) (rows cols : Nat) (h : List (E × Nat)) (x : E)
    (hpos : PosOK pos rows cols) :
    ((runLM pos (CMSM.new rows cols) h).countM (pos x)).toNat ≤ total h := by
  by_cases hT : total h < 2 ^ 64
  · rw [C03_machine_refines_count, C03_machine_refines_run_new pos rows cols h hT]
    exact CMS.C03_upper pos rows cols h x hpos
  · have := ((runLM pos (CMSM.new rows cols) h).countM (pos x)).toNat_lt
    omega

/-- **C03, exactness for a single distinct element, on `uint64` counters** (cites
    `C03_exact_single`). -/
theorem C03_machine_exact_single [DecidableEq E] (pos : E → List Nat) (rows cols : Nat)
    (h : List (E × Nat)) (x : E) (hall : ∀ ec ∈ h, ec.1 = x) (hrows : 1 ≤ rows)
    (hpos : PosOK pos rows cols) (hT : total h < 2 ^ 64) :
    ((runLM pos (CMSM.new rows cols) h).countM (pos x)).toNat = total h := by
  rw [C03_machine_refines_count, C03_machine_refines_run_new pos rows cols h hT]
  exact CMS.C03_exact_single pos rows cols h x hall hrows hpos

theorem total_append (a b : List (E × Nat)) : total (a ++ b) = total a + total b := by
  simp [total, sumL_append]

/-- the tree `Merge(run a, run b)` and its facts (used by the C12 transfers) -/
theorem mergeTree_facts (pos : E → List Nat) (rows cols : Nat) (a b : List (E × Nat))
    (hpos : PosOK pos rows cols) :
    let T : CMSHist := .merge (histOf pos (.new rows cols) a) (histOf pos (.new rows cols) b)
    mergeM (runLM pos (CMSM.new rows cols) a) (runLM pos (CMSM.new rows cols) b) = .ok (runM T)
      ∧ T.state = run pos (CMS.new rows cols) (a ++ b)
      ∧ T.total = total a + total b := by
  intro T
  obtain ⟨a1, a2, a3, _, a5, a6⟩ := histOf_facts pos (.new rows cols) a
  obtain ⟨b1, b2, b3, _, b5, b6⟩ := histOf_facts pos (.new rows cols) b
  have hd : (histOf pos (.new rows cols) a).rows = (histOf pos (.new rows cols) b).rows
      ∧ (histOf pos (.new rows cols) a).cols = (histOf pos (.new rows cols) b).cols := by
    rw [a5, a6, b5, b6]; exact ⟨rfl, rfl⟩
  have da := runM_dims (histOf pos (.new rows cols) a)
  have db := runM_dims (histOf pos (.new rows cols) b)
  have e1 := mergeM_ok (runM (histOf pos (.new rows cols) a)) (runM (histOf pos (.new rows cols) b))
    (by rw [da.1, db.1, hd.1]) (by rw [da.2, db.2, hd.2])
  have a2' : runM (histOf pos (.new rows cols) a) = runLM pos (CMSM.new rows cols) a := a2
  have b2' : runM (histOf pos (.new rows cols) b) = runLM pos (CMSM.new rows cols) b := b2
  have hT : runM T = { runM (histOf pos (.new rows cols) a) with
      m := addRowsM (runM (histOf pos (.new rows cols) a)).m
        (runM (histOf pos (.new rows cols) b)).m } := by
    show (match mergeM (runM (histOf pos (.new rows cols) a))
      (runM (histOf pos (.new rows cols) b)) with | .ok s => s | .err => _) = _
    rw [e1]
  refine ⟨?_, ?_, ?_⟩
  · rw [← a2', ← b2', hT]; exact e1
  · show (match CMS.merge (histOf pos (.new rows cols) a).state
        (histOf pos (.new rows cols) b).state with | .ok s => s | .err => _) = _
    rw [a1, b1]
    show (match CMS.merge (run pos (CMS.new rows cols) a) (run pos (CMS.new rows cols) b) with
      | .ok s => s | .err => _) = _
    rw [CMS.C12_merge_union pos rows cols a b hpos]
  · rw [total_merge_ok hd, a3, b3]; simp [CMSHist.total]

/-- **C12, merge = union, on `uint64` counters**: if the two stream totals together stay below
    2^64, `Merge` succeeds and the merged machine sketch abstracts to the `Nat` sketch of the
    combined stream (cites `C12_merge_union`); its matrix is literally the matrix of the machine
    sketch of the combined stream. -/
theorem C12_machine_merge_union (pos : E → List Nat) (rows cols : Nat) (a b : List (E × Nat))
    (hpos : PosOK pos rows cols) (hT : total a + total b < 2 ^ 64) :
    ∃ s, mergeM (runLM pos (CMSM.new rows cols) a) (runLM pos (CMSM.new rows cols) b) = .ok s
      ∧ absM s = run pos (CMS.new rows cols) (a ++ b)
      ∧ s.m = (runLM pos (CMSM.new rows cols) (a ++ b)).m := by
  obtain ⟨f1, f2, f3⟩ := mergeTree_facts pos rows cols a b hpos
  have hr := C03_machine_refines_history _ (by rw [f3]; exact hT)
  rw [f2] at hr
  refine ⟨_, f1, hr, ?_⟩
  apply absMat_inj
  have hab := C03_machine_refines_run_new pos rows cols (a ++ b) (by rw [total_append]; exact hT)
  exact (congrArg CMS.m hr).trans (congrArg CMS.m hab).symm

/-- hence the merged machine estimate obeys the C03 bounds w.r.t. the combined stream (cites
    `C12_merged_bounds`). -/
theorem C12_machine_merged_bounds [DecidableEq E] (pos : E → List Nat) (rows cols : Nat)
    (a b : List (E × Nat)) (x : E) (hrows : 1 ≤ rows) (hpos : PosOK pos rows cols)
    (hT : total a + total b < 2 ^ 64) :
    ∃ s, mergeM (runLM pos (CMSM.new rows cols) a) (runLM pos (CMSM.new rows cols) b) = .ok s
      ∧ trueCount a x + trueCount b x ≤ (s.countM (pos x)).toNat
      ∧ (s.countM (pos x)).toNat ≤ total a + total b := by
  obtain ⟨s, h1, h2, _⟩ := C12_machine_merge_union pos rows cols a b hpos hT
  obtain ⟨s', h1', lo, hi⟩ := CMS.C12_merged_bounds pos rows cols a b x hrows hpos
  rw [CMS.C12_merge_union pos rows cols a b hpos] at h1'
  cases h1'
  refine ⟨s, h1, ?_, ?_⟩
  · rw [C03_machine_refines_count, h2]; exact lo
  · rw [C03_machine_refines_count, h2]; exact hi

/-! ## 4. beyond the bound -/

/-- **merge = union for ANY totals** (matrices): wrapping addition is still commutative and
    associative, so the merged machine matrix is the machine matrix of the combined stream even
    when cells wrap (proved through `C03_machine_mod` and `C12_merge_union`). -/
theorem C12_machine_merge_union_mod (pos : E → List Nat) (rows cols : Nat) (a b : List (E × Nat))
    (hpos : PosOK pos rows cols) :
    ∃ s, mergeM (runLM pos (CMSM.new rows cols) a) (runLM pos (CMSM.new rows cols) b) = .ok s
      ∧ s.m = (runLM pos (CMSM.new rows cols) (a ++ b)).m := by
  obtain ⟨f1, f2, _⟩ := mergeTree_facts pos rows cols a b hpos
  have hr := (runM_mod (.merge (histOf pos (.new rows cols) a) (histOf pos (.new rows cols) b))).1
  rw [f2] at hr
  refine ⟨_, f1, ?_⟩
  apply absMat_inj
  have hab := C03_machine_mod_run pos (.new rows cols) (a ++ b)
  exact (congrArg CMS.m hr).trans (congrArg CMS.m hab).symm

end lists

/-- ... but `Merge` does not merge `allSum`: the merged sketch and the sketch of the combined
    stream differ in that field (already below the bound). -/
theorem C12_machine_merge_allSum_differs :
    let pos : Unit → List Nat := fun _ => [0]
    ∃ s, mergeM (runLM pos (CMSM.new 1 1) [((), 1)]) (runLM pos (CMSM.new 1 1) [((), 2)]) = .ok s
      ∧ s.m = (runLM pos (CMSM.new 1 1) [((), 1), ((), 2)]).m
      ∧ allSumM s = 1 ∧ allSumM (runLM pos (CMSM.new 1 1) [((), 1), ((), 2)]) = 3 :=
  ⟨_, rfl, by decide, by decide, by decide⟩

/-- **the machine model under-counts once the total reaches 2^64**: two legal updates of 2^63 of
    the same element (a 1×1 sketch; the same happens in any sketch) give the estimate 0, while
    the true count, the stream total and the `Nat` estimate are 2^64. -/
theorem C03_machine_wraps :
    let pos : Unit → List Nat := fun _ => [0]
    let h : List (Unit × Nat) := [((), 2 ^ 63), ((), 2 ^ 63)]
    (∀ ec ∈ h, ec.2 < 2 ^ 64) ∧ total h = 2 ^ 64 ∧ trueCount h () = 2 ^ 64
      ∧ (run pos (CMS.new 1 1) h).count (pos ()) = 2 ^ 64
      ∧ (runLM pos (CMSM.new 1 1) h).countM (pos ()) = 0
      ∧ allSumM (runLM pos (CMSM.new 1 1) h) = 0 := by
  refine ⟨by decide, by decide, by decide, by decide, by decide, by decide⟩

/-- so the hypothesis `total h < 2^64` of `C03_machine_lower` (and of `C03_machine_exact_single`)
    cannot even be weakened to `total h ≤ 2^64`, although every single count is a `uint64`. -/
theorem C03_machine_lower_needs_bound :
    ¬ (∀ (pos : Unit → List Nat) (rows cols : Nat) (h : List (Unit × Nat)) (x : Unit),
        1 ≤ rows → PosOK pos rows cols → (∀ ec ∈ h, ec.2 < 2 ^ 64) → total h ≤ 2 ^ 64 →
        trueCount h x ≤ ((runLM pos (CMSM.new rows cols) h).countM (pos x)).toNat) := by
  intro H
  have := H (fun _ => [0]) 1 1 [((), 2 ^ 63), ((), 2 ^ 63)] () (Nat.le_refl _)
    (by intro e; simp) (by decide) (by decide)
  revert this; decide

/-- the same through `Merge`: two sketches that each hold 2^63 of one element (each far from
    overflowing) merge into a sketch that estimates 0. -/
theorem C12_machine_wraps :
    let pos : Unit → List Nat := fun _ => [0]
    let a : List (Unit × Nat) := [((), 2 ^ 63)]
    total a < 2 ^ 64 ∧ trueCount (a ++ a) () = 2 ^ 64
      ∧ ∃ s, mergeM (runLM pos (CMSM.new 1 1) a) (runLM pos (CMSM.new 1 1) a) = .ok s
          ∧ s.countM (pos ()) = 0 :=
  ⟨by decide, by decide, _, rfl, by decide⟩

/-- **what holds for every history, whatever the totals**: every cell of the machine run is the
    cell of the `Nat` run modulo 2^64, and `allSum` is `ownSum` modulo 2^64. -/
theorem C03_machine_mod (h : CMSHist) :
    absM (runM h) = modM h.state ∧ (allSumM (runM h)).toNat = h.ownSum % 2 ^ 64 :=
  runM_mod h

/-- cell by cell. -/
theorem C03_machine_mod_cell (h : CMSHist) (r c : Nat) :
    (cellM (runM h).m r c).toNat = CMS.cell h.state.m r c % 2 ^ 64 := by
  rw [← cell_absMat, ← cell_modMat]
  exact congrArg (fun s : CMS => CMS.cell s.m r c) (runM_mod h).1

/-- the estimate is the minimum of the probed `Nat` cells reduced modulo 2^64 (NOT the reduced
    minimum: the reduction does not preserve the order). -/
theorem C03_machine_mod_count (h : CMSHist) (p : List Nat) :
    ((runM h).countM p).toNat = CMS.minInit ((CMS.cells h.state.m p).map (· % 2 ^ 64)) := by
  rw [C03_machine_refines_count, (runM_mod h).1]
  show CMS.minInit (CMS.cells (modMat h.state.m) p) = _
  rw [cells_modMat]

section modlists
variable {E : Type}

/-- **estimate = true count modulo 2^64** when `x` collides with no other element in any row
    (in every row the weight of `x`'s cell is the true count of `x`); any totals. -/
theorem C03_machine_mod_collision_free [DecidableEq E] (pos : E → List Nat) (rows cols : Nat)
    (h : List (E × Nat)) (x : E) (hrows : 1 ≤ rows) (hpos : PosOK pos rows cols)
    (hfree : ∀ r, r < rows → CMS.weight pos h r ((pos x).getD r 0) = trueCount h x) :
    ((runLM pos (CMSM.new rows cols) h).countM (pos x)).toNat = trueCount h x % 2 ^ 64 := by
  have hm := C03_machine_mod_run pos (.new rows cols) h
  rw [C03_machine_refines_count]
  have hm' : absM (runLM pos (CMSM.new rows cols) h) = modM (run pos (CMS.new rows cols) h) := hm
  rw [hm']
  show CMS.minInit (CMS.cells (modMat (run pos (CMS.new rows cols) h).m) (pos x)) = _
  rw [cells_modMat]
  have hs := CMS.foldl_update_shape pos rows cols (CMS.new rows cols) (CMS.new_shape rows cols) h
  have hall : ∀ v ∈ CMS.cells (run pos (CMS.new rows cols) h).m (pos x), v = trueCount h x := by
    intro v hv
    obtain ⟨r, h1, _, rfl⟩ := (CMS.mem_cells _ _ v).mp hv
    have hr : r < rows := by
      have : (run pos (CMS.new rows cols) h).m.length = rows := hs.1
      omega
    have := CMS.foldl_update_cell pos rows cols hpos (CMS.new rows cols)
      (CMS.new_shape rows cols) h r ((pos x).getD r 0) hr
    rw [CMS.new_cell, Nat.zero_add, hfree r hr] at this
    exact this
  have hne : CMS.cells (run pos (CMS.new rows cols) h).m (pos x) ≠ [] :=
    CMS.cells_ne_nil _ _ (by rw [show (run pos (CMS.new rows cols) h).m.length = rows from hs.1]; exact hrows)
      (by rw [(hpos x).1]; exact hrows)
  have hmem := CMS.minInit_mem ((CMS.cells (run pos (CMS.new rows cols) h).m (pos x)).map
    (· % 2 ^ 64)) (by simpa using hne)
  obtain ⟨v, hv, e⟩ := List.mem_map.1 hmem
  rw [← e, hall v hv]

/-- in particular, when `x` is the only distinct element: estimate = total modulo 2^64. -/
theorem C03_machine_mod_single [DecidableEq E] (pos : E → List Nat) (rows cols : Nat)
    (h : List (E × Nat)) (x : E) (hall : ∀ ec ∈ h, ec.1 = x) (hrows : 1 ≤ rows)
    (hpos : PosOK pos rows cols) :
    ((runLM pos (CMSM.new rows cols) h).countM (pos x)).toNat = total h % 2 ^ 64 := by
  have ht : trueCount h x = total h := CMS.trueCount_eq_total_of_all h x hall
  rw [← ht]
  apply C03_machine_mod_collision_free pos rows cols h x hrows hpos
  intro r _
  rw [ht]
  unfold CMS.weight total
  have : h.filter (fun ec => (pos ec.1).getD r 0 = (pos x).getD r 0) = h := by
    apply List.filter_eq_self.mpr
    intro ec hec; simp [hall ec hec]
  rw [this]

end modlists

/-! ## non-vacuity -/

/-- the 3×4 example of Props/C03.lean on `uint64` counters: the machine run abstracts to the
    `Nat` run, the estimates agree, the merge of the two halves is the run of the whole. -/
example :
    let h := [(1, 2), (5, 4), (9, 1), (1, 3), (2, 1), (5, 2), (13, 6)]
    let s := runLM CMS.exPos (CMSM.new 3 4) h
    absM s = run CMS.exPos (CMS.new 3 4) h ∧ s.countM (CMS.exPos 1) = 5
      ∧ s.countM (CMS.exPos 13) = 7 ∧ allSumM s = 19 ∧ total h = 19
      ∧ s.m ≠ (CMSM.new 3 4).m := by decide

example :
    let a := [(1, 2), (5, 4), (9, 1)]
    let b := [(1, 3), (2, 1), (5, 2), (13, 6)]
    ∃ s, mergeM (runLM CMS.exPos (CMSM.new 3 4) a) (runLM CMS.exPos (CMSM.new 3 4) b) = .ok s
      ∧ s.m = (runLM CMS.exPos (CMSM.new 3 4) (a ++ b)).m ∧ s.countM (CMS.exPos 13) = 7
      ∧ mergeM (runLM CMS.exPos (CMSM.new 3 4) a) (CMSM.new 3 5) = .err :=
  ⟨_, rfl, by decide, by decide, by decide⟩

/-- the hypotheses of the history theorems are satisfiable by a tree with a merge; and a wrapped
    history (total 2^64 + 5): the cell is 5 = (2^64 + 5) mod 2^64. -/
example :
    let h : CMSHist := .merge (.update (.update (.new 2 3) [0, 1] 5) [1, 0] 7)
      (.update (.new 2 3) [2, 0] 4)
    h.total = 16 ∧ (runM h).m = [[5, 7, 4], [11, 5, 0]] ∧ allSumM (runM h) = 12
      ∧ absM (runM h) = h.state := by decide

example :
    let h : CMSHist := .update (.update (.update (.new 1 1) [0] (2 ^ 63)) [0] (2 ^ 63)) [0] 5
    h.total = 2 ^ 64 + 5 ∧ (runM h).countM [0] = 5 ∧ h.state.count [0] = 2 ^ 64 + 5 := by decide

/-! ## 5. Top-K

  `C04_machine_note`.  The sketch inside `TopK` (top_k.go: `sketch *CountMinSketch`) IS a
  `CountMinSketch`; `TopK.Insert(x, c)` calls `sketch.Update(x, c)` and then offers
  `sketch.Count(x)` to the heap (Model/TopK.lean: `TopK.insert`).  Hence everything above applies
  verbatim to it: as long as the inserted counts sum to less than 2^64 (`Reach.tkTotal ops < 2^64`,
  the hypothesis `hno` of `C11_reachable_wf_topk`), the `uint64` sketch of the code abstracts to
  the `Nat` sketch of the Top-K model (`C04_machine_sketch` below) and the frequency offered to
  the heap is the `Nat` estimate (`C03_machine_refines_count`), so the C04 theorems
  (Props/C04*.lean, stated on the `Nat` model) hold of the code.  From a total of 2^64 on they do
  NOT: `CMS.count_update_ge` (Proofs/TopKCMS.lean: estimates never decrease under updates — the monotonicity
  part of `EstOK`, Model/TopKSpec.lean) fails when a cell wraps (`C04_machine_estimate_drops`: the
  estimate drops from 2^63 to 0), and a wrapped element would be offered with a frequency below that of elements it
  dominates.  The Redis Top-K (Lua doubles) is out of scope.
-/

section topk
open Gostatix.Reach (TKOp tkRun tkInit tkTotal tkStep)

/-- positions and counts of the inserts, as a list history of the sketch -/
def tkHist (ops : List TKOp) : List (TKOp × Nat) := ops.map (fun o => (o, o.2.2))

theorem tkRun_sketch (t : TopK) (ops : List TKOp) :
    (tkRun t ops).sketch = run (fun o : TKOp => o.2.1) t.sketch (tkHist ops) := by
  induction ops generalizing t with
  | nil => rfl
  | cons o ops ih =>
    simp only [tkRun, List.foldl_cons, tkHist, List.map_cons, run] at ih ⊢
    rw [ih]; rfl

/-- **the sketch inside Top-K**: while the inserted counts sum to less than 2^64, the `uint64`
    sketch maintained by the inserts abstracts to the sketch of the Top-K model, so every
    frequency offered to the heap is the `Nat` estimate. -/
theorem C04_machine_sketch (k rows cols : Nat) (ops : List TKOp) (hT : tkTotal ops < 2 ^ 64) :
    absM (runLM (fun o : TKOp => o.2.1) (CMSM.new rows cols) (tkHist ops))
        = (tkRun (tkInit k rows cols) ops).sketch
    ∧ ∀ p, ((runLM (fun o : TKOp => o.2.1) (CMSM.new rows cols) (tkHist ops)).countM p).toNat
        = (tkRun (tkInit k rows cols) ops).sketch.count p := by
  have ht : total (tkHist ops) = tkTotal ops := by
    simp [total, tkHist, tkTotal, List.map_map, Function.comp_def]
  have h1 := C03_machine_refines_run_new (fun o : TKOp => o.2.1) rows cols (tkHist ops)
    (by rw [ht]; exact hT)
  rw [tkRun_sketch]
  refine ⟨h1, fun p => ?_⟩
  rw [C03_machine_refines_count, h1]; rfl

/-- on `uint64` counters an update can LOWER an estimate (the `Nat` model's `CMS.count_update_ge`
    is false of the code beyond the bound). -/
theorem C04_machine_estimate_drops :
    let s := (CMSM.new 1 1).updateM [0] 9223372036854775808
    (s.updateM [0] 9223372036854775808).countM [0] < s.countM [0] := by decide

end topk

end Gostatix.CMSM
