/-
  ArithTieBloom — arithmetic tie, the integer part of Bloom `getIndex`: the definitions of Generated/Arith.lean (translated from the Go
  sources by extract/arith.go on every run) agree with the hand-written `Nat` model for ALL inputs.
  One file per structure, so that a change of one structure's arithmetic breaks only the obligations
  of the properties of that structure.  A kernel the translator could not translate is missing from
  Generated/Arith.lean and the theorems about it fail to elaborate.  See Props/ArithTie.lean.
-/
import Gostatix.Generated.Arith
import Gostatix.Proofs.GoArith
import Gostatix.Model.CMS
import Gostatix.Model.HLL
import Gostatix.Model.Cuckoo
import Gostatix.Model.Bloom
import Gostatix.Model.Murmur
set_option linter.unusedSimpArgs false

namespace Gostatix.ArithTie
open Gostatix.Generated.Arith Gostatix.GoArith

/-- closes `A % m = B % m` where `A`, `B` are the same sum of `toNat` products, reduced modulo
    2^64 at different places and with the operands in any order (products become atoms of `omega`). -/
local macro "mod64_congr" : tactic =>
  `(tactic| (congr 1; (try simp only [Nat.mul_comm]); omega))

/-! ### Bloom filter: the integer part of `getIndex` -/

/-- `(hashes[0] + j*hashes[1] + cubic) % uint64(size)` with `j = uint64(i)` is `Bloom.getIndex`,
    PROVIDED the float sub-term `uint64(math.Floor((j^3 - j)/6))` (an opaque input `cubic` of the
    generated definition; floats are not modelled) has the value the model assumes. -/
theorem tie_bloomIndexInt (h0 h1 i cubic size : UInt64) (_hs : size ≠ 0)
    (hcubic : cubic.toNat = (i.toNat ^ 3 - i.toNat) / 6) :
    (bloomIndexInt h0 h1 i cubic size).toNat
      = Bloom.getIndex h0.toNat h1.toNat i.toNat size.toNat := by
  unfold Bloom.getIndex
  rw [← hcubic]
  simp only [bloomIndexInt, UInt64.toNat_mod, UInt64.toNat_add, UInt64.toNat_mul]
  mod64_congr

example : (bloomIndexInt 18446744073709551610 7 5 20 11).toNat = 5
    ∧ Bloom.getIndex 18446744073709551610 7 5 11 = 5 ∧ (5 ^ 3 - 5) / 6 = 20 := by decide


end Gostatix.ArithTie
