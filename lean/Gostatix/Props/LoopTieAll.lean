/- the whole-function ties (extract/loops.go): Count-Min (with the link to arith.go's kernels) and HyperLogLog -/
import Gostatix.Props.LoopTieCMSKernels
import Gostatix.Props.LoopTieHLL
