/-
  C08TopK — Top-K: the Redis-backed and the in-memory variant report identical entries, up to
  the choice among entries tied at the smallest reported count.

  Both variants are refinements of ONE specification step (`TopK.Step`, Model/TopKSpec.lean),
  which reads heaps as multisets and leaves exactly one thing open: WHICH entry of minimal
  frequency is evicted.  `container/heap` evicts the root of its array, the sorted set evicts the
  least (score, member); they agree whenever the minimal frequency is carried by a single entry.

  * `C08_topk_same_spec`        both `offer` and `offerRedis` are `Step`s from the same heap
                                 when the two states are permutations of each other;
  * `C08_topk_step_unique`      the successor of `Step` is unique (as a multiset) under `NoTie`;
  * `C08_topk_values_eq_of_perm` `Values` is a function of the multiset of entries;
  * `C08_topk_no_tie_equal`     one insert without a tie: the results are permutations again
                                 and `Values` returns EQUAL lists;
  * `C08_topk_history`, `C08_topk_history_insert`  the same after every insert of a history;
  * `C08_topk_step_up_to_tie`, `C08_topk_step_counts_equal`  with a tie: the two results are
                                 the same multiset minus two victims of the same (minimal)
                                 count, so the reported COUNTS are still the same multiset;
  * `C08_topk_tie_differs`      concrete history where a tie makes the reported elements differ
                                 (so `NoTie` cannot be dropped).

  `NoTie k heap x f`: if the insert is admitted and an entry must be evicted, only one entry of
  `upsert heap x f` has the minimal frequency (vacuous for rejected inserts and when nothing is
  evicted).  Helper lemmas: Gostatix/Proofs/TopKAgree.lean.
-/
import Gostatix.Props.C04
import Gostatix.Proofs.TopKAgree
import Gostatix.Proofs.TopKE2E
namespace Gostatix.TopK

/-- the correspondence of the two states: heap-ordered array without duplicate names, sorted
    duplicate-free list, same multiset of entries -/
theorem C08_topk_agree_def (h : Array HElem) (z : List HElem) :
    Agree h z ↔ (HeapInv h ∧ (h.toList.map (·.1)).Nodup ∧
      z.Pairwise (fun a b => zLt a b = true) ∧ h.toList.Perm z) :=
  ⟨fun a => ⟨a.heapInv, a.nodup, a.sorted, a.perm⟩, fun ⟨a, b, c, d⟩ => ⟨a, b, c, d⟩⟩

theorem C08_topk_agree_empty : Agree #[] [] := agree_empty

/-- **Both variants are steps of the same specification from permutation-equal heaps.**
    (The duplicate-freeness of `z` follows from that of `h`.) -/
theorem C08_topk_same_spec (k : Nat) (h : Array HElem) (z : List HElem) (x : String) (f : Nat)
    (hinv : HeapInv h) (hn : (h.toList.map (·.1)).Nodup)
    (hs : z.Pairwise (fun a b => zLt a b = true)) (hp : h.toList.Perm z) :
    Step k z (x, f) (offer k h x f).toList ∧ Step k z (x, f) (offerRedis k z x f) ∧
    Step k h.toList (x, f) (offer k h x f).toList ∧
    Step k h.toList (x, f) (offerRedis k z x f) := by
  obtain ⟨s1, s2⟩ := both_step k h z x f ⟨hinv, hn, hs, hp⟩
  exact ⟨s1, s2, step_perm_left hp.symm s1, step_perm_left hp.symm s2⟩

/-- the specification step does not distinguish permuted source heaps -/
theorem C08_topk_step_perm {E : Type} [DecidableEq E] {k : Nat} {h1 h2 h' : List (E × Nat)}
    {xf : E × Nat} (hp : h1.Perm h2) : Step k h1 xf h' ↔ Step k h2 xf h' :=
  ⟨step_perm_left hp, step_perm_left hp.symm⟩

/-- **Uniqueness of the successor**: without a tie to break, any two results of the
    specification step are permutations of each other. -/
theorem C08_topk_step_unique {E : Type} [DecidableEq E] {k : Nat} {heap h1 h2 : List (E × Nat)}
    {x : E} {f : Nat} (hnt : NoTie k heap x f)
    (s1 : Step k heap (x, f) h1) (s2 : Step k heap (x, f) h2) : h1.Perm h2 :=
  step_unique (xf := (x, f)) hnt s1 s2

/-- sufficient conditions for `NoTie`: the insert is rejected; nothing is evicted; or no two
    entries of `upsert heap x f` share the minimal frequency. -/
theorem C08_topk_noTie_of {E : Type} [DecidableEq E] (k : Nat) (heap : List (E × Nat)) (x : E)
    (f : Nat) :
    (¬ Admit k heap f → NoTie k heap x f) ∧
    ((upsert heap x f).length ≤ k → NoTie k heap x f) ∧
    ((∀ a ∈ upsert heap x f, ∀ b ∈ upsert heap x f,
        (∀ e ∈ upsert heap x f, a.2 ≤ e.2) → a.2 = b.2 → a = b) → NoTie k heap x f) :=
  ⟨noTie_of_not_admit, noTie_of_no_eviction, noTie_of_unique_min⟩

/-- `NoTie` may be checked on either state -/
theorem C08_topk_noTie_perm {k : Nat} {h : Array HElem} {z : List HElem} (hp : h.toList.Perm z)
    (x : String) (f : Nat) : NoTie k h.toList x f ↔ NoTie k z x f :=
  ⟨noTie_perm hp x f, noTie_perm hp.symm x f⟩

/-- **`Values` is a function of the multiset of entries**: it sorts by (count descending,
    element ascending), a total order on entries, so permuted heaps give EQUAL lists. -/
theorem C08_topk_values_eq_of_perm {l1 l2 : List HElem} (hp : l1.Perm l2) :
    values l1 = values l2 := values_eq_of_perm hp

/-- **One insert, no tie**: from permutation-equal states the two results are permutations of
    each other again (and satisfy the state invariants again), hence `Values` of both are EQUAL
    lists. -/
theorem C08_topk_no_tie_equal (k : Nat) (h : Array HElem) (z : List HElem) (x : String) (f : Nat)
    (hinv : HeapInv h) (hn : (h.toList.map (·.1)).Nodup)
    (hs : z.Pairwise (fun a b => zLt a b = true)) (hp : h.toList.Perm z)
    (hnt : NoTie k z x f) :
    (offer k h x f).toList.Perm (offerRedis k z x f) ∧
    values (offer k h x f).toList = values (offerRedis k z x f) ∧
    Agree (offer k h x f) (offerRedis k z x f) := by
  have ha := agree_step k h z x f ⟨hinv, hn, hs, hp⟩ hnt
  exact ⟨ha.perm, values_eq_of_perm ha.perm, ha⟩

/-- **History level**: run the same estimates through both variants from the empty states.  As
    long as no eviction had to choose between tied minimal entries (`NoTieRun`), after EVERY
    insert the two states are permutations of each other and `Values` returns equal lists. -/
theorem C08_topk_history (k : Nat) (evs : List (Event String)) (hnt : NoTieRun k [] evs) (n : Nat) :
    let hm := (evs.take n).foldl (fun h e => offer k h e.x e.f) #[]
    let zr := (evs.take n).foldl (fun z e => offerRedis k z e.x e.f) []
    hm.toList.Perm zr ∧ values hm.toList = values zr := by
  intro hm zr
  have ha := agree_run k evs #[] [] agree_empty hnt n
  exact ⟨ha.perm, values_eq_of_perm ha.perm⟩

/-- only the inserts up to the first tie matter: if the first `m` inserts have no tie to break,
    the two variants agree after each of the first `m` inserts, whatever comes later -/
theorem C08_topk_history_until (k : Nat) (evs : List (Event String)) (m : Nat)
    (hnt : NoTieRun k [] (evs.take m)) (n : Nat) (hn : n ≤ m) :
    values ((evs.take n).foldl (fun h e => offer k h e.x e.f) #[]).toList =
      values ((evs.take n).foldl (fun z e => offerRedis k z e.x e.f) []) := by
  have := (C08_topk_history k (evs.take m) hnt n).2
  rwa [List.take_take, Nat.min_eq_left hn] at this

/-- **History level, whole `Insert`s**: both variants run from fresh states over the same
    insertion history with the same position function (hence the same sketch and the same
    estimates).  Without a tie to break, `Values()` agree after every insert. -/
theorem C08_topk_history_insert (pos : String → List Nat) (rows cols k : Nat)
    (ops : List (String × Nat))
    (hnt : NoTieRun k [] (sketchEvents pos (CMS.new rows cols) ops)) (n : Nat) :
    let t := (ops.take n).foldl (fun t o => t.insert o.1 (pos o.1) o.2)
      (⟨k, CMS.new rows cols, #[]⟩ : TopK)
    let st := (ops.take n).foldl (fun st o => insertRedis k st o.1 (pos o.1) o.2)
      (CMS.new rows cols, [])
    t.sketch = st.1 ∧ t.heap.toList.Perm st.2 ∧ values t.heap.toList = values st.2 := by
  intro t st
  have h1 : t.heap = _ := runInserts_heap pos ⟨k, CMS.new rows cols, #[]⟩ (ops.take n)
  have h2 : st.2 = _ := runInsertsRedis_zset pos k (CMS.new rows cols, []) (ops.take n)
  have h3 : t.sketch = _ := runInserts_sketch pos ⟨k, CMS.new rows cols, #[]⟩ (ops.take n)
  have h4 : st.1 = _ := runInsertsRedis_sketch pos k (CMS.new rows cols, []) (ops.take n)
  have := C08_topk_history k _ hnt n
  rw [sketchEvents_take] at this
  rw [h1, h2, h3, h4]
  exact ⟨rfl, this.1, this.2⟩

/-! ### with a tie -/

/-- erasing entries of equal count leaves the same multiset of counts -/
theorem map_snd_erase_perm {l : List HElem} {v1 v2 : HElem} (h1 : v1 ∈ l) (h2 : v2 ∈ l)
    (he : v1.2 = v2.2) : ((l.erase v1).map (·.2)).Perm ((l.erase v2).map (·.2)) := by
  have a := (List.perm_cons_erase h1).map (·.2)
  have b := (List.perm_cons_erase h2).map (·.2)
  simp only [List.map_cons] at a b
  rw [he] at a
  exact (a.symm.trans b).cons_inv

/-- **One insert, possibly with a tie**: from permutation-equal states either the results are
    permutations of each other, or both are `upsert z x f` minus one victim each, and the two
    victims carry the same, minimal, count. -/
theorem C08_topk_step_up_to_tie (k : Nat) (h : Array HElem) (z : List HElem) (x : String)
    (f : Nat) (ha : Agree h z) :
    (offer k h x f).toList.Perm (offerRedis k z x f) ∨
    ∃ v1 ∈ upsert z x f, ∃ v2 ∈ upsert z x f,
      (∀ e ∈ upsert z x f, v1.2 ≤ e.2) ∧ v1.2 = v2.2 ∧
      (offer k h x f).toList.Perm ((upsert z x f).erase v1) ∧
      (offerRedis k z x f).Perm ((upsert z x f).erase v2) := by
  obtain ⟨s1, s2⟩ := both_step k h z x f ha
  by_cases hA : Admit k z f
  · obtain ⟨ev1, keep1⟩ := s1.1 hA
    obtain ⟨ev2, keep2⟩ := s2.1 hA
    by_cases hgt : k < (upsert z x f).length
    · obtain ⟨v1, hv1, hmin1, hp1⟩ := ev1 hgt
      obtain ⟨v2, hv2, hmin2, hp2⟩ := ev2 hgt
      exact Or.inr ⟨v1, hv1, v2, hv2, hmin1,
        Nat.le_antisymm (hmin1 v2 hv2) (hmin2 v1 hv1), hp1, hp2⟩
    · exact Or.inl ((keep1 hgt).trans (keep2 hgt).symm)
  · exact Or.inl ((s1.2 hA).trans (s2.2 hA).symm)

/-- hence, tie or not, one insert from permutation-equal states leaves the same multiset of
    reported COUNTS (the elements may differ only in the victim chosen among the tied ones). -/
theorem C08_topk_step_counts_equal (k : Nat) (h : Array HElem) (z : List HElem) (x : String)
    (f : Nat) (ha : Agree h z) :
    ((offer k h x f).toList.map (·.2)).Perm ((offerRedis k z x f).map (·.2)) := by
  rcases C08_topk_step_up_to_tie k h z x f ha with hp | ⟨v1, hv1, v2, hv2, _, he, hp1, hp2⟩
  · exact hp.map _
  · exact ((hp1.map _).trans (map_snd_erase_perm hv1 hv2 he)).trans (hp2.map _).symm

/-- and with ties anywhere in the history BOTH final states are still reachable heaps of the
    specification for the same events, so every C04 guarantee holds for both of them. -/
theorem C08_topk_both_reach (k : Nat) (evs : List (Event String)) :
    Reach k evs (evs.foldl (fun h e => offer k h e.x e.f) #[]).toList ∧
    Reach k evs (evs.foldl (fun z e => offerRedis k z e.x e.f) []) :=
  ⟨(C04_mem_reach k evs).1, (C04_redis_reach k evs).1⟩

/-! ### non-vacuity, and the counterexample for ties -/

/-- k = 2; "c" evicts "b" (the only entry with the minimal count 2), then "b" evicts "a" -/
def exNoTie : List (Event String) := [⟨"a", 3, 3⟩, ⟨"b", 2, 2⟩, ⟨"c", 4, 4⟩, ⟨"b", 3, 5⟩]

example : NoTieRun 2 [] exNoTie := by decide

example : exNoTie.foldl (fun z e => offerRedis 2 z e.x e.f) [] = [("c", 4), ("b", 5)] := by decide

example : exNoTie.foldl (fun h e => offer 2 h e.x e.f) #[] = #[("c", 4), ("b", 5)] := by
  rw [offer_eq_offerL]; decide

example : values [("c", 4), ("b", 5)] = [("b", 5), ("c", 4)] := by decide

/-- the theorem on the example: equal `Values` after each of the four inserts -/
example : ∀ n, values ((exNoTie.take n).foldl (fun h e => offer 2 h e.x e.f) #[]).toList =
    values ((exNoTie.take n).foldl (fun z e => offerRedis 2 z e.x e.f) []) :=
  fun n => (C08_topk_history 2 exNoTie (by decide) n).2

/-- k = 2; "b" arrives with count 1 while "c" is stored with count 1: a tie at the minimum -/
def exTie : List (Event String) := [⟨"a", 2, 2⟩, ⟨"c", 1, 1⟩, ⟨"b", 1, 1⟩]

/-- **`NoTie` cannot be dropped**: on `exTie` the heap evicts its root "c", the sorted set evicts
    its least member "b"; the reported elements differ (the reported counts do not). -/
theorem C08_topk_tie_differs :
    ¬ NoTieRun 2 [] exTie ∧
    values (exTie.foldl (fun h e => offer 2 h e.x e.f) #[]).toList = [("a", 2), ("b", 1)] ∧
    values (exTie.foldl (fun z e => offerRedis 2 z e.x e.f) []) = [("a", 2), ("c", 1)] := by
  refine ⟨by decide, ?_, by decide⟩
  rw [offer_eq_offerL]; decide

/-- so the unconditional statement is false -/
theorem C08_topk_values_not_always_equal :
    ¬ ∀ (k : Nat) (evs : List (Event String)),
      values (evs.foldl (fun h e => offer k h e.x e.f) #[]).toList =
        values (evs.foldl (fun z e => offerRedis k z e.x e.f) []) := by
  intro H
  have := H 2 exTie
  rw [C08_topk_tie_differs.2.1, C08_topk_tie_differs.2.2] at this
  revert this; decide

end Gostatix.TopK
