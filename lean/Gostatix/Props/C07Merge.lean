/-
  C07 (continued) — serializability for the TWO-PHASE `Merge` of the in-memory Count-Min sketch
  and HyperLogLog.

  The gap this closes.  `C07_serializable` (Props/C07.lean) models every method call as ONE
  critical section `acq ; body ; rel`, and the lock table (Props/C07Lock.lean) marks `Merge` as
  guarded.  After the lock fixes `CountMinSketch.Merge(other)` and `HyperLogLog.Merge(other)` are
  guarded — but by TWO critical sections:
      other.lock.Lock(); copy := snapshot of other's matrix / registers; other.lock.Unlock()
      recv.lock.Lock();  recv := recv (+ cell-wise | max register-wise) copy; recv.lock.Unlock()
  The two locks are never held together.  Every access is under the right mutex (so the lock
  table is right), but the call is not one critical section (so `C07_serializable` does not speak
  about it).  For `s.Merge(s)` both sections are on the same mutex and other calls can run in
  between; for `h.Merge(g)` the sections are on different mutexes.

  The model (Proofs/C07Merge.lean).  A thread is a list of operations `Op.upd a | Op.merge`; an
  update is one critical section, a merge is the two sections `Sec.snap ; Sec.app`.  The
  semantics `TwoPhase` has `f` (update), `snap` (what the first section copies into the
  THREAD-LOCAL `loc t`) and `ap v` (what the second section does with the copy).  `threadsC` turns
  the threads into call bodies of the mutex model of Model/Conc.lean on the state
  `σ × (thread ↦ copy)`: every critical section is one `acq ; body ; rel`, so schedules, validity
  (`validMutex`), `execConc`, `execSerial`, `acqOrder` are the EXISTING definitions, and
  `C07_serializable` applies to the sections.  `threadsA` are the same threads with ATOMIC merges:
  same call ids, the snapshot section's body is `s ↦ ap (snap s) s`, the apply section's body is
  the identity.

  What is proved (all schedules, all thread counts, all operation lists):
   * `C07_self_merge_linearizable` — one instance.  For every schedule that respects the mutex, in
     which no merge takes its snapshot while another merge is between its two sections
     (`mergesDoNotOverlap`, decidable), and with `ap v` commuting with the updates of the threads
     OTHER than a merging one (`OtherUpdatesCommute`; updates need not commute with each other):
     final state of the two-phase run = final state of `execSerial threadsA` in lock-acquisition
     order, i.e. of the serial execution in which every merge is ONE call placed at its SNAPSHOT
     section.  (`C07_self_merge_eq_atomic_run`: = the same schedule run with atomic merges.)
   * `mergesDoNotOverlap_of_single_merger`, `C07_self_merge_single_merger` — when one thread
     issues the merges (any number, mixed with its own updates; any number of updating threads),
     `mergesDoNotOverlap` holds for EVERY valid schedule, so the conclusion holds for every valid
     schedule.
   * `C07_self_merge_any_schedule` — every valid schedule, overlapping merges allowed, `ap`/`ap`
     commutation in addition: final state = serial execution with each merge at its snapshot
     section applying THE VALUE IT RECORDED.  `C07_self_merge_all_applied` — with all steps
     commuting: final state = initial state with all updates of all threads and, for each merge,
     the recorded value applied, in ANY order; exactly one recorded value per merge; the recorded
     values are the results of the snapshot calls in the run's log.
   * instances against Model/CMS.lean (`addRows`, `update`) and Model/HLL.lean (`mergeRegs`,
     `upd`), from `cmsStepM_commute` / `hllStepM_commute`: `cmsTP`, `hllTP`, `cmsTP_ap_update`,
     `hllTP_ap_upd`, `C07_cms_self_merge`, `C07_hll_self_merge`, `C07_*_self_merge_all_applied`.
     The atomic self-merge is `CMS.merge s s` (`cmsTP_self_merge`), resp. the identity
     (`hllTP_self_merge`).
   * `h.Merge(g)` (`crossTP`): `C07_cross_merge_g_side` (g ends with its own updates; the merge
     only reads it), `C07_cross_merge_h_side` / `_single_merger` (h ends as the result of the
     serial history `hHist`: its updates in the order of their sections and, per merge, `ap v` at
     the snapshot section with `v` = the value g has at that point), `C07_cross_merge_all_applied`,
     `C07_cross_merge_updates_plus_snapshots` (all h-updates, then the values g had at the
     snapshot points), `C07_cms_cross_merge`, `C07_hll_cross_merge`.  So each instance sees a
     serial history of atomic calls (g: a read, h: "add the value v"); the final state of the pair
     is that of an atomic merge at the SNAPSHOT section — not at the apply section: an update of
     g that completes before the apply section runs is not in h (last example).
   * the hypotheses are needed: `C07_two_phase_needs_commutation` (apply = overwrite: all other
     hypotheses hold, an update is lost, the result differs from every serial order),
     `C07_overlapping_self_merges_not_atomic` (Count-Min, everything commutes, two overlapping
     self-merges: `3·s` instead of `4·s`).

  What is NOT proved / assumed:
   * only FINAL STATES (and the recorded values) are compared.  A reading call (`Count`) between
     the two sections of a merge sees the receiver without the merge; reads do not commute with
     `ap`, so such calls are outside `OtherUpdatesCommute` unless issued by the merging thread.
   * that the Go methods have this shape (two sections, each under the right mutex, the copy in a
     local variable) is read off the source; the lock table checks "guarded" per access only.
   * for `h.Merge(g)` the schedule is an `Interleaving` of the threads' critical SECTIONS (each
     atomic): sections of one instance are totally ordered by its mutex (that is
     `bodies_eq_acqOrder`, one mutex), sections of different instances touch disjoint state
     (g + own local, resp. h + own local).  A two-mutex version of `validMutex` is not modelled.
   * the dimension checks of `Merge` run before the first section on fields no guarded method
     writes; `addRows` / `mergeRegs` are the models of the loops (Model/CMS.lean, Model/HLL.lean).
   * the Go memory model (a mutex orders its critical sections), as in Props/C07.lean.
-/
import Gostatix.Proofs.C07Merge
import Gostatix.Props.C07
namespace Gostatix
open Conc

universe u v w

/-! ### 2. self-merge `s.Merge(s)`: two critical sections on ONE mutex -/
section self
variable {σ : Type u} {ν : Type v} {α : Type w}

/-- "no snapshot section of a merge is entered while another merge is between its two sections",
    read off the lock-acquisition order of the schedule -/
def mergesDoNotOverlap (ops : List (List (Op α))) (wa : List Act) : Prop :=
  noOverlapFrom false (traceOf ops (acqOrder wa)) = true

instance (ops : List (List (Op α))) (wa : List Act) : Decidable (mergesDoNotOverlap ops wa) := by
  unfold mergesDoNotOverlap; infer_instance

/-- `ap v` commutes with every update of every thread OTHER than a merging one -/
def OtherUpdatesCommute (M : TwoPhase σ ν α) (ops : List (List (Op α))) : Prop :=
  ∀ (m t : Nat) (a : α), m ≠ t → Op.merge ∈ (ops[m]?).getD [] → Op.upd a ∈ (ops[t]?).getD [] →
    ∀ v s, M.ap v (M.f s a) = M.f (M.ap v s) a

theorem OtherUpdatesCommute.on_trace {M : TwoPhase σ ν α} {ops : List (List (Op α))}
    (hc : OtherUpdatesCommute M ops) (order : List CallId) :
    ∀ m t a, m ≠ t → (m, Sec.app) ∈ traceOf ops order → (t, Sec.upd a) ∈ traceOf ops order →
      ∀ v s, M.ap v (M.f s a) = M.f (M.ap v s) a :=
  fun m t a hmt hm hu =>
    (show ∀ (m t : Nat) (a : α), m ≠ t → Op.merge ∈ (ops[m]?).getD [] → Op.upd a ∈ (ops[t]?).getD [] →
      ∀ v s, M.ap v (M.f s a) = M.f (M.ap v s) a from hc) m t a hmt (mem_secsOf_app (mem_traceOf hm)) (mem_secsOf_upd (mem_traceOf hu))

/-- the two-phase run of a valid schedule, on the section trace in lock-acquisition order -/
theorem execConc_threadsC (M : TwoPhase σ ν α) (ops : List (List (Op α))) (s : σ) (loc : Loc ν)
    (wa : List Act) (hi : Interleaving (sched (M.threadsC ops)) wa) (hv : validMutex wa) :
    (execConc (M.threadsC ops) (s, loc) wa).1 = exec M.stepC (s, loc) (traceOf ops (acqOrder wa)) := by
  rw [C07_serializable _ _ wa hi hv, execSerial, exec_runCall_threadsC]

/-- the trace in lock-acquisition order keeps every thread's program order -/
theorem projT_acqOrder (M : TwoPhase σ ν α) (ops : List (List (Op α))) (wa : List Act)
    (hi : Interleaving (sched (M.threadsC ops)) wa) (hv : validMutex wa) (t : Nat) :
    projT (traceOf ops (acqOrder wa)) t = secsOf ((ops[t]?).getD []) := by
  rw [sched_threadsC] at hi
  rw [← bodies_eq_acqOrder hi hv]
  exact projT_traceOf_bodies ops wa hi t

/-- **C07 for two-phase merges on one instance.**  Threads run updates (one critical section)
    and merges (two critical sections `snap ; app` on the same mutex; other calls may run between
    them).  For every schedule that respects the mutex, in which no merge takes its snapshot while
    another merge is between its two sections, and with `ap v` commuting with the updates of the
    other threads: the final state is the final state of the SERIAL execution, in lock-acquisition
    order, of the calls of `threadsA` — the same threads in which every merge is ONE atomic call
    `s ↦ ap (snap s) s` placed at its snapshot section (the linearization point) and the apply
    section is a no-op. -/
theorem C07_self_merge_linearizable (M : TwoPhase σ ν α) (ops : List (List (Op α))) (s : σ)
    (loc : Loc ν) (wa : List Act)
    (hi : Interleaving (sched (M.threadsC ops)) wa) (hv : validMutex wa)
    (hno : mergesDoNotOverlap ops wa) (hc : OtherUpdatesCommute M ops) :
    (execConc (M.threadsC ops) (s, loc) wa).1.1
      = (execSerial (M.threadsA ops) s (acqOrder wa)).1 := by
  rw [execConc_threadsC M ops s loc wa hi hv, execSerial, exec_runCall_threadsA]
  exact exec_stepC_eq_stepA M (fun t => (ops[t]?).getD []) _
    (projT_acqOrder M ops wa hi hv) hno (hc.on_trace _) s loc

/-- the same, against the SAME schedule run with atomic merges (`C07_serializable` for
    `threadsA`) -/
theorem C07_self_merge_eq_atomic_run (M : TwoPhase σ ν α) (ops : List (List (Op α))) (s : σ)
    (loc : Loc ν) (wa : List Act)
    (hi : Interleaving (sched (M.threadsC ops)) wa) (hv : validMutex wa)
    (hno : mergesDoNotOverlap ops wa) (hc : OtherUpdatesCommute M ops) :
    (execConc (M.threadsC ops) (s, loc) wa).1.1 = (execConc (M.threadsA ops) s wa).1 := by
  rw [C07_self_merge_linearizable M ops s loc wa hi hv hno hc]
  have hi' : Interleaving (sched (M.threadsA ops)) wa := by
    rw [sched_threadsA, ← sched_threadsC M]; exact hi
  rw [C07_serializable _ _ wa hi' hv]

/-- when a single thread `m` issues the merges (any number of them, between its own updates; the
    other threads only update), merges cannot overlap: the hypothesis `mergesDoNotOverlap` holds
    for EVERY valid schedule -/
theorem mergesDoNotOverlap_of_single_merger (M : TwoPhase σ ν α) (ops : List (List (Op α)))
    (wa : List Act) (hi : Interleaving (sched (M.threadsC ops)) wa) (hv : validMutex wa) (m : Nat)
    (hm : ∀ t, t ≠ m → Op.merge ∉ (ops[t]?).getD []) : mergesDoNotOverlap ops wa := by
  have hwt : WT (fun _ => false) (traceOf ops (acqOrder wa)) :=
    WT.of_proj _ _ (fun t => (ops[t]?).getD []) (by
      intro t; simpa using projT_acqOrder M ops wa hi hv t)
  exact noOverlap_of_single_merger hwt m
    (fun t ht h => hm t ht (mem_secsOf_snap (mem_traceOf h))) (fun _ _ => rfl)

/-- **one merging thread, any number of updating threads, every valid schedule.** -/
theorem C07_self_merge_single_merger (M : TwoPhase σ ν α) (ops : List (List (Op α))) (s : σ)
    (loc : Loc ν) (wa : List Act)
    (hi : Interleaving (sched (M.threadsC ops)) wa) (hv : validMutex wa) (m : Nat)
    (hm : ∀ t, t ≠ m → Op.merge ∉ (ops[t]?).getD [])
    (hc : ∀ t a, t ≠ m → Op.upd a ∈ (ops[t]?).getD [] → ∀ v s, M.ap v (M.f s a) = M.f (M.ap v s) a) :
    (execConc (M.threadsC ops) (s, loc) wa).1.1
      = (execSerial (M.threadsA ops) s (acqOrder wa)).1 := by
  refine C07_self_merge_linearizable M ops s loc wa hi hv
    (mergesDoNotOverlap_of_single_merger M ops wa hi hv m hm) ?_
  unfold OtherUpdatesCommute
  intro m' t a hne hmm hu
  have : m' = m := by
    rcases Classical.em (m' = m) with e | e
    · exact e
    · exact absurd hmm (hm m' e)
  subst this
  exact hc t a (fun e => hne e.symm) hu

/-- **every valid schedule, overlapping merges allowed.**  With `ap`/`ap` commutation in
    addition, the final state is the final state of the serial execution, in lock-acquisition
    order, in which every merge sits at its snapshot section and applies THE VALUE IT RECORDED
    there (`linHist`: that value is the state of the two-phase run at that point; when merges
    overlap it is not the state the atomic run would have there, see
    `C07_overlapping_self_merges_not_atomic`). -/
theorem C07_self_merge_any_schedule (M : TwoPhase σ ν α) (ops : List (List (Op α))) (s : σ)
    (loc : Loc ν) (wa : List Act)
    (hi : Interleaving (sched (M.threadsC ops)) wa) (hv : validMutex wa)
    (haa : ∀ v v' s, M.ap v (M.ap v' s) = M.ap v' (M.ap v s)) (hc : OtherUpdatesCommute M ops) :
    (execConc (M.threadsC ops) (s, loc) wa).1.1
      = exec M.stepL s (M.linHist (s, loc) (traceOf ops (acqOrder wa))) := by
  rw [execConc_threadsC M ops s loc wa hi hv]
  exact exec_stepC_eq_lin M haa (fun t => (ops[t]?).getD []) _
    (projT_acqOrder M ops wa hi hv) (hc.on_trace _) s loc

/-- the results of the snapshot calls in the result log of the two-phase run = the values the
    linearised history applies -/
theorem C07_self_merge_logged_values (M : TwoPhase σ ν α) (ops : List (List (Op α))) (s : σ)
    (loc : Loc ν) (wa : List Act)
    (hi : Interleaving (sched (M.threadsC ops)) wa) (hv : validMutex wa) :
    (execConc (M.threadsC ops) (s, loc) wa).2.filterMap (·.2)
      = M.snapVals (s, loc) (traceOf ops (acqOrder wa)) := by
  rw [C07_serializable _ _ wa hi hv, execSerial, log_threadsC]
  rfl

/-- **"all updates applied and, for each merge, the snapshot value applied".**  When all steps
    commute (`Commute M.stepL`: updates with updates, `ap v` with updates, `ap v` with `ap v'`),
    for EVERY valid schedule (overlapping merges allowed): let `vals` be the values recorded by
    the snapshot sections (the results of the snapshot calls in the log of the run).  There is
    exactly one per merge, and the final state is the initial state with all updates of all
    threads and `ap v` for every `v ∈ vals` applied, in ANY order. -/
theorem C07_self_merge_all_applied (M : TwoPhase σ ν α) (ops : List (List (Op α))) (s : σ)
    (loc : Loc ν) (wa : List Act)
    (hi : Interleaving (sched (M.threadsC ops)) wa) (hv : validMutex wa)
    (hcomm : Commute M.stepL) :
    ((execConc (M.threadsC ops) (s, loc) wa).2.filterMap (·.2)).length
        = ops.flatten.countP Op.isMerge ∧
    ∀ order : List (α ⊕ ν),
      order.Perm ((ops.flatten.filterMap Op.upd?).map .inl
        ++ ((execConc (M.threadsC ops) (s, loc) wa).2.filterMap (·.2)).map .inr) →
      (execConc (M.threadsC ops) (s, loc) wa).1.1 = order.foldl M.stepL s := by
  have hi' := hi
  rw [sched_threadsC] at hi'
  rw [C07_self_merge_logged_values M ops s loc wa hi hv]
  refine ⟨?_, ?_⟩
  · rw [M.snapVals_length, countP_isSnap_acqOrder ops wa hi' hv]
  · intro order ho
    have haa : ∀ v v' s, M.ap v (M.ap v' s) = M.ap v' (M.ap v s) :=
      fun v v' s => hcomm s (.inr v') (.inr v)
    have hc : OtherUpdatesCommute M ops :=
      fun _ _ a _ _ _ v s => hcomm s (.inl a) (.inr v)
    rw [C07_self_merge_any_schedule M ops s loc wa hi hv haa hc]
    refine exec_perm_of_commute hcomm ?_ s
    refine (M.linHist_perm _ _).trans (List.Perm.trans ?_ ho.symm)
    exact List.Perm.append_right _ ((updsOf_acqOrder_perm ops wa hi' hv).map _)

end self

/-! ### the two instances: Count-Min and HyperLogLog -/

/-- Count-Min (count_min_sketch.go `Merge`): the snapshot section copies the matrix, the apply
    section adds the copy cell-wise (`CMS.addRows`).  The single-section calls are the whole steps
    of `Proofs/ConcMerge.lean` (`Update`, and atomic merges of VALUES). -/
def cmsTP : TwoPhase CMS (List (List Nat)) CMSStep where
  f := cmsStepM
  snap s := s.m
  ap v s := cmsStepM s (.mergeFrom v)

/-- HyperLogLog (hyperloglog.go `Merge`): the snapshot section copies the registers, the apply
    section takes the register-wise maximum with the copy (`HLL.mergeRegs`). -/
def hllTP : TwoPhase (List Nat) (List Nat) HLLStep where
  f := hllStepM
  snap r := r
  ap v r := hllStepM r (.mergeFrom v)

theorem cmsTP_ap (v : List (List Nat)) (s : CMS) : cmsTP.ap v s = { s with m := CMS.addRows s.m v } := rfl
theorem hllTP_ap (v r : List Nat) : hllTP.ap v r = HLL.mergeRegs r v := rfl

/-- adding a matrix commutes with `CMS.update` (against Model/CMS.lean) -/
theorem cmsTP_ap_update (v : List (List Nat)) (s : CMS) (pos : List Nat) (c : Nat) :
    cmsTP.ap v (s.update pos c) = (cmsTP.ap v s).update pos c :=
  cmsStepM_commute s (.update pos c) (.mergeFrom v)

/-- maximum with a register file commutes with `HLL.upd` (against Model/HLL.lean) -/
theorem hllTP_ap_upd (v r : List Nat) (x : Nat × Nat) :
    hllTP.ap v (HLL.upd r x) = HLL.upd (hllTP.ap v r) x :=
  hllStepM_commute r (.update x.1 x.2) (.mergeFrom v)

theorem cmsTP_stepL (s : CMS) (x : CMSStep ⊕ List (List Nat)) :
    cmsTP.stepL s x = cmsStepM s (match x with | .inl a => a | .inr v => .mergeFrom v) := by
  cases x <;> rfl

theorem hllTP_stepL (r : List Nat) (x : HLLStep ⊕ List Nat) :
    hllTP.stepL r x = hllStepM r (match x with | .inl a => a | .inr v => .mergeFrom v) := by
  cases x <;> rfl

/-- all steps of the Count-Min instance commute (from `cmsStepM_commute`) -/
theorem cmsTP_commute : Commute cmsTP.stepL := by
  intro s a b; simp only [cmsTP_stepL]; exact cmsStepM_commute s _ _

/-- all steps of the HyperLogLog instance commute (from `hllStepM_commute`) -/
theorem hllTP_commute : Commute hllTP.stepL := by
  intro s a b; simp only [hllTP_stepL]; exact hllStepM_commute s _ _

theorem cmsTP_other (ops : List (List (Op CMSStep))) : OtherUpdatesCommute cmsTP ops :=
  fun _ _ a _ _ _ v s => cmsStepM_commute s a (.mergeFrom v)

theorem hllTP_other (ops : List (List (Op HLLStep))) : OtherUpdatesCommute hllTP ops :=
  fun _ _ a _ _ _ v s => hllStepM_commute s a (.mergeFrom v)

/-- the atomic self-merge of a Count-Min sketch is `CMS.merge s s` (every cell doubled) -/
theorem cmsTP_self_merge (s : CMS) : CMS.merge s s = .ok (cmsTP.ap (cmsTP.snap s) s) := by
  simp [CMS.merge, cmsTP, cmsStepM]

theorem HLL.mergeRegs_self (r : List Nat) : HLL.mergeRegs r r = r := by
  induction r with
  | nil => rfl
  | cons x r ih => simp [HLL.mergeRegs, ih]

/-- the atomic self-merge of a HyperLogLog changes nothing -/
theorem hllTP_self_merge (r : List Nat) : hllTP.ap (hllTP.snap r) r = r := HLL.mergeRegs_self r

/-- Count-Min, `s.Merge(s)` by one thread `m` concurrently with any number of updating threads,
    EVERY valid schedule: the final sketch is that of the serial execution in lock-acquisition
    order with each self-merge atomic at its snapshot section. -/
theorem C07_cms_self_merge (ops : List (List (Op CMSStep))) (s : CMS) (loc : Loc (List (List Nat)))
    (wa : List Act) (hi : Interleaving (sched (cmsTP.threadsC ops)) wa) (hv : validMutex wa) (m : Nat)
    (hm : ∀ t, t ≠ m → Op.merge ∉ (ops[t]?).getD []) :
    (execConc (cmsTP.threadsC ops) (s, loc) wa).1.1
      = (execSerial (cmsTP.threadsA ops) s (acqOrder wa)).1 :=
  C07_self_merge_single_merger cmsTP ops s loc wa hi hv m hm
    (fun _ a _ _ v s => cmsStepM_commute s a (.mergeFrom v))

/-- HyperLogLog, the same. -/
theorem C07_hll_self_merge (ops : List (List (Op HLLStep))) (r : List Nat) (loc : Loc (List Nat))
    (wa : List Act) (hi : Interleaving (sched (hllTP.threadsC ops)) wa) (hv : validMutex wa) (m : Nat)
    (hm : ∀ t, t ≠ m → Op.merge ∉ (ops[t]?).getD []) :
    (execConc (hllTP.threadsC ops) (r, loc) wa).1.1
      = (execSerial (hllTP.threadsA ops) r (acqOrder wa)).1 :=
  C07_self_merge_single_merger hllTP ops r loc wa hi hv m hm
    (fun _ a _ _ v s => hllStepM_commute s a (.mergeFrom v))

/-- Count-Min, any number of merging threads, EVERY valid schedule: all updates and, for each
    merge, the recorded matrix are added, in any order. -/
theorem C07_cms_self_merge_all_applied (ops : List (List (Op CMSStep))) (s : CMS)
    (loc : Loc (List (List Nat))) (wa : List Act)
    (hi : Interleaving (sched (cmsTP.threadsC ops)) wa) (hv : validMutex wa) :
    ((execConc (cmsTP.threadsC ops) (s, loc) wa).2.filterMap (·.2)).length
        = ops.flatten.countP Op.isMerge ∧
    ∀ order : List (CMSStep ⊕ List (List Nat)),
      order.Perm ((ops.flatten.filterMap Op.upd?).map .inl
        ++ ((execConc (cmsTP.threadsC ops) (s, loc) wa).2.filterMap (·.2)).map .inr) →
      (execConc (cmsTP.threadsC ops) (s, loc) wa).1.1 = order.foldl cmsTP.stepL s :=
  C07_self_merge_all_applied cmsTP ops s loc wa hi hv cmsTP_commute

/-- HyperLogLog, the same. -/
theorem C07_hll_self_merge_all_applied (ops : List (List (Op HLLStep))) (r : List Nat)
    (loc : Loc (List Nat)) (wa : List Act)
    (hi : Interleaving (sched (hllTP.threadsC ops)) wa) (hv : validMutex wa) :
    ((execConc (hllTP.threadsC ops) (r, loc) wa).2.filterMap (·.2)).length
        = ops.flatten.countP Op.isMerge ∧
    ∀ order : List (HLLStep ⊕ List Nat),
      order.Perm ((ops.flatten.filterMap Op.upd?).map .inl
        ++ ((execConc (hllTP.threadsC ops) (r, loc) wa).2.filterMap (·.2)).map .inr) →
      (execConc (hllTP.threadsC ops) (r, loc) wa).1.1 = order.foldl hllTP.stepL r :=
  C07_self_merge_all_applied hllTP ops r loc wa hi hv hllTP_commute

/-! ### 3. merge from ANOTHER instance: `h.Merge(g)` -/
section cross
variable {σg σh : Type u} {ν : Type v} {αg αh : Type w}
variable (G : σg → αg → σg) (H : σh → αh → σh) (snap : σg → ν) (ap : ν → σh → σh)

/-- `ap v` commutes with every update of `h` issued by a thread other than a merging one -/
def OtherHUpdatesCommute (ops : List (List (Op (αg ⊕ αh)))) : Prop :=
  ∀ (m t : Nat) (b : αh), m ≠ t → Op.merge ∈ (ops[m]?).getD [] →
    Op.upd (.inr b) ∈ (ops[t]?).getD [] → ∀ v s, ap v (H s b) = H (ap v s) b

theorem OtherHUpdatesCommute.on_trace {H : σh → αh → σh} {ap : ν → σh → σh}
    {ops : List (List (Op (αg ⊕ αh)))} (hc : OtherHUpdatesCommute H ap ops)
    (tr : List (Nat × Sec (αg ⊕ αh))) (hi : Interleaving (taggedSecs ops) tr) :
    ∀ m t a, m ≠ t → (m, Sec.app) ∈ tr → (t, Sec.upd a) ∈ tr →
      ∀ v s, (crossTP G H snap ap).ap v ((crossTP G H snap ap).f s a)
        = (crossTP G H snap ap).f ((crossTP G H snap ap).ap v s) a := by
  intro m t a hmt hm hu v s
  cases a with
  | inl a => rfl
  | inr b =>
    have h1 := mem_of_projT hm
    have h2 := mem_of_projT hu
    rw [projT_of_interleaving ops tr hi] at h1 h2
    have := (show ∀ (m t : Nat) (b : αh), m ≠ t → Op.merge ∈ (ops[m]?).getD [] →
      Op.upd (.inr b) ∈ (ops[t]?).getD [] → ∀ v s, ap v (H s b) = H (ap v s) b from hc)
      m t b hmt (mem_secsOf_app h1) (mem_secsOf_upd h2) v s.2
    show (s.1, ap v (H s.2 b)) = (s.1, H (ap v s.2) b)
    rw [this]

/-- **g-side**: whatever the schedule, `g` ends as its initial value with its own updates applied
    in the order of their critical sections — the merge only READS `g`. -/
theorem C07_cross_merge_g_side (tr : List (Nat × Sec (αg ⊕ αh))) (g0 : σg) (h0 : σh) (loc : Loc ν) :
    (exec (crossTP G H snap ap).stepC ((g0, h0), loc) tr).1.1 = exec G g0 (gUpds tr) :=
  crossTP_exec_g G H snap ap ((g0, h0), loc) tr

/-- **h-side, every schedule.**  Threads update `g`, update `h`, and call `h.Merge(g)` (snapshot
    section on g, apply section on h); `tr` is any interleaving of the threads' critical
    sections.  With `ap`/`ap` commutation and `ap v` commuting with the h-updates of the other
    threads, `h` ends as the result of the SERIAL history `hHist`: h's updates in the order of
    their critical sections and, for every merge, `ap v` placed at the merge's snapshot section
    with `v` = the value `g` has at that point (`g0` with g's updates so far applied).  No
    hypothesis on g's updates. -/
theorem C07_cross_merge_h_side (ops : List (List (Op (αg ⊕ αh)))) (tr : List (Nat × Sec (αg ⊕ αh)))
    (hi : Interleaving (taggedSecs ops) tr)
    (haa : ∀ v v' s, ap v (ap v' s) = ap v' (ap v s)) (hc : OtherHUpdatesCommute H ap ops)
    (g0 : σg) (h0 : σh) (loc : Loc ν) :
    (exec (crossTP G H snap ap).stepC ((g0, h0), loc) tr).1.2
      = exec (hStepL H ap) h0 (hHist G snap g0 tr) := by
  have := exec_stepC_eq_lin (crossTP G H snap ap)
    (fun v v' s => by show (s.1, ap v (ap v' s.2)) = (s.1, ap v' (ap v s.2)); rw [haa])
    (fun t => (ops[t]?).getD []) tr (projT_of_interleaving ops tr hi)
    (hc.on_trace G snap tr hi) (g0, h0) loc
  rw [this, crossTP_lin_h]

/-- **h-side, one merging thread** (any number of threads updating `g` and `h`): the same
    conclusion without `ap`/`ap` commutation. -/
theorem C07_cross_merge_h_side_single_merger (ops : List (List (Op (αg ⊕ αh))))
    (tr : List (Nat × Sec (αg ⊕ αh))) (hi : Interleaving (taggedSecs ops) tr) (m : Nat)
    (hm : ∀ t, t ≠ m → Op.merge ∉ (ops[t]?).getD [])
    (hc : OtherHUpdatesCommute H ap ops) (g0 : σg) (h0 : σh) (loc : Loc ν) :
    (exec (crossTP G H snap ap).stepC ((g0, h0), loc) tr).1.2
      = exec (hStepL H ap) h0 (hHist G snap g0 tr) := by
  have hproj := projT_of_interleaving ops tr hi
  have hwt : WT (fun _ => false) tr :=
    WT.of_proj _ _ (fun t => (ops[t]?).getD []) (by intro t; simpa using hproj t)
  have hno : noOverlapFrom false tr = true :=
    noOverlap_of_single_merger hwt m
      (fun t ht h => hm t ht (mem_secsOf_snap (by
        have := mem_of_projT h; rwa [hproj] at this)))
      (fun _ _ => rfl)
  have := exec_stepC_eq_stepA (crossTP G H snap ap) (fun t => (ops[t]?).getD []) tr hproj hno
    (hc.on_trace G snap tr hi) (g0, h0) loc
  rw [this, crossTP_stepA_h]

/-- when all steps on `h` commute: `h` ends as its initial value with the steps of `hHist` —
    all its updates and, per merge, the value `g` had at the snapshot point — applied in ANY
    order -/
theorem C07_cross_merge_all_applied (ops : List (List (Op (αg ⊕ αh)))) (tr : List (Nat × Sec (αg ⊕ αh)))
    (hi : Interleaving (taggedSecs ops) tr) (hcomm : Commute (hStepL H ap))
    (g0 : σg) (h0 : σh) (loc : Loc ν) (order : List (αh ⊕ ν)) (ho : order.Perm (hHist G snap g0 tr)) :
    (exec (crossTP G H snap ap).stepC ((g0, h0), loc) tr).1.2 = order.foldl (hStepL H ap) h0 := by
  rw [C07_cross_merge_h_side G H snap ap ops tr hi (fun v v' s => hcomm s (.inr v') (.inr v))
    (fun _ _ b _ _ _ v s => hcomm s (.inl b) (.inr v)) g0 h0 loc]
  exact exec_perm_of_commute hcomm ho.symm h0

/-- the same with the history split: h's updates (`hUpds`), and the values `g` had at the
    snapshot sections (`gSnaps`) -/
theorem C07_cross_merge_updates_plus_snapshots (ops : List (List (Op (αg ⊕ αh))))
    (tr : List (Nat × Sec (αg ⊕ αh)))
    (hi : Interleaving (taggedSecs ops) tr) (hcomm : Commute (hStepL H ap))
    (g0 : σg) (h0 : σh) (loc : Loc ν) :
    (exec (crossTP G H snap ap).stepC ((g0, h0), loc) tr).1.2
      = (gSnaps G snap g0 tr).foldl (fun s v => ap v s) ((hUpds tr).foldl H h0) := by
  rw [C07_cross_merge_all_applied G H snap ap ops tr hi hcomm g0 h0 loc _ (hHist_perm G snap g0 tr).symm,
    List.foldl_append, List.foldl_map, List.foldl_map]
  rfl

end cross

/-- Count-Min `h.Merge(g)`: h's steps and "add the matrix `v`" -/
theorem cms_hStepL_commute :
    Commute (hStepL cmsStepM (fun (v : List (List Nat)) (s : CMS) => cmsStepM s (.mergeFrom v))) := by
  intro s a b
  cases a <;> cases b <;> simp only [hStepL] <;> exact cmsStepM_commute s _ _

/-- HyperLogLog `h.Merge(g)` -/
theorem hll_hStepL_commute :
    Commute (hStepL hllStepM (fun (v : List Nat) (r : List Nat) => hllStepM r (.mergeFrom v))) := by
  intro s a b
  cases a <;> cases b <;> simp only [hStepL] <;> exact hllStepM_commute s _ _

/-- Count-Min, `h.Merge(g)` with concurrent updates of `g` and of `h`, every schedule: `h` ends
    with all its updates and, per merge, the matrix `g` had at the snapshot point added, in any
    order. -/
theorem C07_cms_cross_merge (ops : List (List (Op (CMSStep ⊕ CMSStep))))
    (tr : List (Nat × Sec (CMSStep ⊕ CMSStep))) (hi : Interleaving (taggedSecs ops) tr)
    (g0 h0 : CMS) (loc : Loc (List (List Nat))) (order : List (CMSStep ⊕ List (List Nat)))
    (ho : order.Perm (hHist cmsStepM (fun g : CMS => g.m) g0 tr)) :
    (exec (crossTP cmsStepM cmsStepM (fun g : CMS => g.m)
        (fun v s => cmsStepM s (.mergeFrom v))).stepC ((g0, h0), loc) tr).1.2
      = order.foldl (hStepL cmsStepM (fun v s => cmsStepM s (.mergeFrom v))) h0 :=
  C07_cross_merge_all_applied _ _ _ _ ops tr hi cms_hStepL_commute g0 h0 loc order ho

/-- HyperLogLog, the same. -/
theorem C07_hll_cross_merge (ops : List (List (Op (HLLStep ⊕ HLLStep))))
    (tr : List (Nat × Sec (HLLStep ⊕ HLLStep))) (hi : Interleaving (taggedSecs ops) tr)
    (g0 h0 : List Nat) (loc : Loc (List Nat)) (order : List (HLLStep ⊕ List Nat))
    (ho : order.Perm (hHist hllStepM (fun g : List Nat => g) g0 tr)) :
    (exec (crossTP hllStepM hllStepM (fun g : List Nat => g)
        (fun v r => hllStepM r (.mergeFrom v))).stepC ((g0, h0), loc) tr).1.2
      = order.foldl (hStepL hllStepM (fun v r => hllStepM r (.mergeFrom v))) h0 :=
  C07_cross_merge_all_applied _ _ _ _ ops tr hi hll_hStepL_commute g0 h0 loc order ho

/-! ### 4. the commutation hypothesis is needed; so is "merges do not overlap" -/
namespace C07MergeCounter

/-- a read-modify-write self-merge: the apply section OVERWRITES the matrix with the doubled copy
    (instead of adding the copy to the current matrix) -/
def cmsOverwriteTP : TwoPhase CMS (List (List Nat)) CMSStep where
  f := cmsStepM
  snap s := s.m
  ap v s := { s with m := CMS.addRows v v }

/-- run with nothing between its two sections, the overwriting merge computes exactly the
    self-merge of `cmsTP` -/
theorem overwrite_alone (s : CMS) :
    cmsOverwriteTP.ap (cmsOverwriteTP.snap s) s = cmsTP.ap (cmsTP.snap s) s := rfl

/-- thread 0: one self-merge; thread 1: one `Update` -/
def ops : List (List (Op CMSStep)) := [[.merge], [.upd (.update [0, 1] 5)]]
/-- snapshot section of the merge, the whole update, apply section of the merge -/
def wa : List Act :=
  [.acq 0, .body 0 0, .rel 0, .acq 1, .body 1 0, .rel 1, .acq 0, .body 0 1, .rel 0]
def s0 : CMS := ⟨2, 2, [[1, 2], [3, 4]]⟩

theorem wa_interleaving : Interleaving (sched (cmsOverwriteTP.threadsC ops)) wa :=
  Interleaving.of_pick (is := [0, 0, 0, 1, 1, 1, 0, 0, 0]) (by decide)

theorem wa_valid : validMutex wa := by decide
theorem wa_no_overlap : mergesDoNotOverlap ops wa := by decide

/-- the overwriting apply does not commute with the update -/
theorem not_commute : ¬ OtherUpdatesCommute cmsOverwriteTP ops := by
  intro h
  have := (show ∀ (m t : Nat) (a : CMSStep), m ≠ t → Op.merge ∈ (ops[m]?).getD [] →
      Op.upd a ∈ (ops[t]?).getD [] →
      ∀ v s, cmsOverwriteTP.ap v (cmsOverwriteTP.f s a) = cmsOverwriteTP.f (cmsOverwriteTP.ap v s) a
      from h) 0 1 (.update [0, 1] 5) (by decide) (by decide) (by decide) [[0, 0], [0, 0]] s0
  revert this
  decide

/-- the two-phase run ends in `2·s0`: the update's 5 is in neither cell `(0,0)` nor `(1,1)`;
    both serial orders of the atomic calls contain it -/
theorem run_detail :
    (execConc (cmsOverwriteTP.threadsC ops) (s0, fun _ => none) wa).1.1.m = [[2, 4], [6, 8]] ∧
    (execSerial (cmsOverwriteTP.threadsA ops) s0 [(0, 0), (0, 1), (1, 0)]).1.m = [[7, 4], [6, 13]] ∧
    (execSerial (cmsOverwriteTP.threadsA ops) s0 [(1, 0), (0, 0), (0, 1)]).1.m = [[12, 4], [6, 18]] := by
  decide

/-- two overlapping self-merges of `cmsTP` (thread 1 takes its snapshot between the two sections
    of thread 0's merge) -/
def ops2 : List (List (Op CMSStep)) := [[.merge], [.merge]]
def wa2 : List Act :=
  [.acq 0, .body 0 0, .rel 0, .acq 1, .body 1 0, .rel 1, .acq 0, .body 0 1, .rel 0,
   .acq 1, .body 1 1, .rel 1]
def s2 : CMS := ⟨1, 2, [[1, 2]]⟩

theorem wa2_interleaving : Interleaving (sched (cmsTP.threadsC ops2)) wa2 :=
  Interleaving.of_pick (is := [0, 0, 0, 1, 1, 1, 0, 0, 0, 1, 1, 1]) (by decide)

theorem wa2_valid : validMutex wa2 := by decide

end C07MergeCounter

open C07MergeCounter in
/-- **without commutation the two-phase shape loses an update.**  All hypotheses of
    `C07_self_merge_linearizable` except `OtherUpdatesCommute` hold (valid schedule of one
    self-merge and one update; merges do not overlap; run alone the merge computes the Count-Min
    self-merge), the apply section overwrites instead of adding — and the final sketch differs
    from the serial execution in lock order AND from the serial execution of the atomic calls in
    EVERY order (all 6 orders of the 3 call ids): the update that ran between the two sections is
    overwritten; cell `(0,0)` lacks exactly its count. -/
theorem C07_two_phase_needs_commutation :
    ∃ (M : TwoPhase CMS (List (List Nat)) CMSStep) (ops : List (List (Op CMSStep))) (wa : List Act)
      (s : CMS),
      Interleaving (sched (M.threadsC ops)) wa ∧ validMutex wa ∧ mergesDoNotOverlap ops wa ∧
      (∀ s, M.ap (M.snap s) s = cmsTP.ap (cmsTP.snap s) s) ∧
      ¬ OtherUpdatesCommute M ops ∧
      (execConc (M.threadsC ops) (s, fun _ => none) wa).1.1
        ≠ (execSerial (M.threadsA ops) s (acqOrder wa)).1 ∧
      (∀ order ∈ [[((0 : Nat), (0 : Nat)), (0, 1), (1, 0)], [(0, 0), (1, 0), (0, 1)],
            [(1, 0), (0, 0), (0, 1)], [(0, 1), (0, 0), (1, 0)], [(0, 1), (1, 0), (0, 0)],
            [(1, 0), (0, 1), (0, 0)]],
        (execConc (M.threadsC ops) (s, fun _ => none) wa).1.1
          ≠ (execSerial (M.threadsA ops) s order).1) ∧
      CMS.cell (execConc (M.threadsC ops) (s, fun _ => none) wa).1.1.m 0 0 + 5
        = CMS.cell (execSerial (M.threadsA ops) s (acqOrder wa)).1.m 0 0 :=
  ⟨cmsOverwriteTP, ops, wa, s0, wa_interleaving, wa_valid, wa_no_overlap, overwrite_alone,
    not_commute, by decide, by decide, by decide⟩

open C07MergeCounter in
/-- **overlapping self-merges are not atomic** (Count-Min, everything commutes): thread 1 takes
    its snapshot between the two sections of thread 0's merge; both merges add the ORIGINAL matrix,
    the sketch ends as `3·s`, while atomic self-merges give `4·s` in every order.  So
    `mergesDoNotOverlap` cannot be dropped from `C07_self_merge_linearizable`; what holds for
    such schedules is `C07_self_merge_any_schedule` / `C07_self_merge_all_applied` (each merge
    adds the value it recorded: here twice `s`). -/
theorem C07_overlapping_self_merges_not_atomic :
    ∃ (ops : List (List (Op CMSStep))) (wa : List Act) (s : CMS),
      Interleaving (sched (cmsTP.threadsC ops)) wa ∧ validMutex wa ∧ OtherUpdatesCommute cmsTP ops ∧
      ¬ mergesDoNotOverlap ops wa ∧
      (execConc (cmsTP.threadsC ops) (s, fun _ => none) wa).1.1
        ≠ (execSerial (cmsTP.threadsA ops) s (acqOrder wa)).1 ∧
      (execConc (cmsTP.threadsC ops) (s, fun _ => none) wa).1.1.m = [[3, 6]] ∧
      (execSerial (cmsTP.threadsA ops) s (acqOrder wa)).1.m = [[4, 8]] ∧
      (execSerial (cmsTP.threadsA ops) s [(1, 0), (1, 1), (0, 0), (0, 1)]).1.m = [[4, 8]] ∧
      (execConc (cmsTP.threadsC ops) (s, fun _ => none) wa).1.1
        = [Sum.inr [[1, 2]], Sum.inr [[1, 2]]].foldl cmsTP.stepL s :=
  ⟨ops2, wa2, s2, wa2_interleaving, wa2_valid, cmsTP_other _, by decide, by decide, by decide,
    by decide, by decide, by decide⟩

/-! ### non-vacuity -/
namespace C07MergeExample

/-- a 2×3 sketch.  Thread 0: `Update`, `s.Merge(s)`, `Update` (4 critical sections); thread 1: an
    `Update` and an atomic merge of a value (2 critical sections). -/
def s0 : CMS := ⟨2, 3, [[1, 0, 2], [0, 4, 0]]⟩
def ops : List (List (Op CMSStep)) :=
  [[.upd (.update [0, 2] 5), .merge, .upd (.update [1, 1] 7)],
   [.upd (.update [2, 0] 1), .upd (.mergeFrom [[1, 1, 1], [1, 1, 1]])]]

/-- both calls of thread 1 run between the snapshot and the apply section of the merge -/
def wa : List Act :=
  [.acq 0, .body 0 0, .rel 0, .acq 0, .body 0 1, .rel 0,
   .acq 1, .body 1 0, .rel 1, .acq 1, .body 1 1, .rel 1,
   .acq 0, .body 0 2, .rel 0, .acq 0, .body 0 3, .rel 0]

theorem wa_interleaving : Interleaving (sched (cmsTP.threadsC ops)) wa :=
  Interleaving.of_pick (is := [0, 0, 0, 0, 0, 0, 1, 1, 1, 1, 1, 1, 0, 0, 0, 0, 0, 0]) (by decide)

theorem wa_valid : validMutex wa := by decide

theorem wa_order : acqOrder wa = [(0, 0), (0, 1), (1, 0), (1, 1), (0, 2), (0, 3)] := by decide

/-- the section trace in lock order: the merge's two sections are NOT adjacent -/
example : traceOf ops (acqOrder wa)
    = [(0, .upd (.update [0, 2] 5)), (0, .snap), (1, .upd (.update [2, 0] 1)),
       (1, .upd (.mergeFrom [[1, 1, 1], [1, 1, 1]])), (0, .app), (0, .upd (.update [1, 1] 7))] := by
  decide

/-- the theorem instantiated (thread 0 is the only merging thread) -/
example : (execConc (cmsTP.threadsC ops) (s0, fun _ => none) wa).1.1
    = (execSerial (cmsTP.threadsA ops) s0 (acqOrder wa)).1 :=
  C07_cms_self_merge ops s0 _ wa wa_interleaving wa_valid 0 (by
    intro t ht
    match t, ht with
    | 1, _ => decide
    | t + 2, _ => simp [ops])

/-- both sides, concretely: `s0` + update, doubled by the merge at the snapshot point, then the
    two steps of thread 1 and the last update (NOT doubled) -/
example : (execConc (cmsTP.threadsC ops) (s0, fun _ => none) wa).1.1.m = [[13, 8, 6], [2, 16, 11]] ∧
    (execSerial (cmsTP.threadsA ops) s0 (acqOrder wa)).1.m = [[13, 8, 6], [2, 16, 11]] := by decide

/-- the serial execution that puts the merge at its APPLY section is different: the snapshot
    section is the linearization point -/
example : (execSerial (cmsTP.threadsA ops) s0 [(0, 0), (1, 0), (1, 1), (0, 1), (0, 2), (0, 3)]).1.m
    ≠ (execConc (cmsTP.threadsC ops) (s0, fun _ => none) wa).1.1.m := by decide

example : mergesDoNotOverlap ops wa := by decide

/-- the recorded value is in the result log, and "all updates + the recorded value, in any
    order" gives the same sketch -/
example : (execConc (cmsTP.threadsC ops) (s0, fun _ => none) wa).2.filterMap (·.2)
    = [[[6, 0, 2], [0, 4, 5]]] := by decide

example : (execConc (cmsTP.threadsC ops) (s0, fun _ => none) wa).1.1
    = [Sum.inr [[6, 0, 2], [0, 4, 5]], .inl (.update [1, 1] 7), .inl (.mergeFrom [[1, 1, 1], [1, 1, 1]]),
       .inl (.update [2, 0] 1), .inl (.update [0, 2] 5)].foldl cmsTP.stepL s0 :=
  (C07_cms_self_merge_all_applied ops s0 _ wa wa_interleaving wa_valid).2 _ (by decide)

/-- HyperLogLog: 4 registers; thread 0 self-merges, thread 1 does two updates between the two
    sections of the merge -/
def hops : List (List (Op HLLStep)) := [[.merge], [.upd (.update 1 7), .upd (.update 2 4)]]
def hwa : List Act :=
  [.acq 0, .body 0 0, .rel 0, .acq 1, .body 1 0, .rel 1, .acq 1, .body 1 1, .rel 1,
   .acq 0, .body 0 1, .rel 0]

theorem hwa_interleaving : Interleaving (sched (hllTP.threadsC hops)) hwa :=
  Interleaving.of_pick (is := [0, 0, 0, 1, 1, 1, 1, 1, 1, 0, 0, 0]) (by decide)

theorem hwa_valid : validMutex hwa := by decide

example : (execConc (hllTP.threadsC hops) ([0, 2, 0, 5], fun _ => none) hwa).1.1
    = (execSerial (hllTP.threadsA hops) [0, 2, 0, 5] (acqOrder hwa)).1 :=
  C07_hll_self_merge hops _ _ hwa hwa_interleaving hwa_valid 0 (by
    intro t ht
    match t, ht with
    | 1, _ => decide
    | t + 2, _ => simp [hops])

example : (execConc (hllTP.threadsC hops) ([0, 2, 0, 5], fun _ => none) hwa).1.1 = [0, 7, 4, 5] ∧
    (execConc (hllTP.threadsC hops) ([0, 2, 0, 5], fun _ => none) hwa).2.filterMap (·.2)
      = [[0, 2, 0, 5]] := by decide

/-- `h.Merge(g)` on two Count-Min sketches: thread 0 merges, thread 1 updates `g`, thread 2
    updates `h`; both updates run between the snapshot section (on g) and the apply section
    (on h) -/
def g0 : CMS := ⟨2, 2, [[1, 2], [3, 4]]⟩
def h0 : CMS := ⟨2, 2, [[10, 0], [0, 10]]⟩
def xops : List (List (Op (CMSStep ⊕ CMSStep))) :=
  [[.merge], [.upd (.inl (.update [0, 0] 9))], [.upd (.inr (.update [1, 1] 3))]]
def xtr : List (Nat × Sec (CMSStep ⊕ CMSStep)) :=
  [(0, .snap), (1, .upd (.inl (.update [0, 0] 9))), (2, .upd (.inr (.update [1, 1] 3))), (0, .app)]

theorem xtr_interleaving : Interleaving (taggedSecs xops) xtr :=
  Interleaving.of_pick (is := [0, 1, 2, 0]) (by decide)

/-- h's serial history: the matrix `g` had at the snapshot point (without thread 1's 9), then h's
    own update -/
example : hHist cmsStepM (fun g : CMS => g.m) g0 xtr
    = [.inr [[1, 2], [3, 4]], .inl (.update [1, 1] 3)] := by decide

example : (exec (crossTP cmsStepM cmsStepM (fun g : CMS => g.m)
      (fun v s => cmsStepM s (.mergeFrom v))).stepC ((g0, h0), fun _ => none) xtr).1.2
    = [Sum.inl (.update [1, 1] 3), .inr [[1, 2], [3, 4]]].foldl
        (hStepL cmsStepM (fun v s => cmsStepM s (.mergeFrom v))) h0 :=
  C07_cms_cross_merge xops xtr xtr_interleaving g0 h0 _ _ (by decide)

/-- concretely: `h` = h0 + g0 + its update; `g` = g0 + its update.  `g`'s 9 was in `g` before
    the apply section ran, and is not in `h`: the pair (h, g) is atomic at the snapshot section,
    not at the apply section -/
example : (exec (crossTP cmsStepM cmsStepM (fun g : CMS => g.m)
      (fun v s => cmsStepM s (.mergeFrom v))).stepC ((g0, h0), fun _ => none) xtr).1.2.m
      = [[11, 5], [3, 17]] ∧
    (exec (crossTP cmsStepM cmsStepM (fun g : CMS => g.m)
      (fun v s => cmsStepM s (.mergeFrom v))).stepC ((g0, h0), fun _ => none) xtr).1.1.m
      = [[10, 2], [12, 4]] := by decide

end C07MergeExample

end Gostatix
