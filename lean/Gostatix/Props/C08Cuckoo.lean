/-
  C08Cuckoo — cuckoo filter: the Redis-backed and the in-memory variant answer identically as
  long as no randomly chosen relocation (eviction) has occurred.

  `Sim emp m r` relates an in-memory filter `m : Cuckoo (BucketMem F)` and a Redis-backed filter
  `r : Cuckoo (BucketRedis F)`: same parameters, same `length`, both well-formed, and every bucket
  holds the same MULTISET of non-empty fingerprints (hence the same occupancy, the same cached
  bucket length, the same answer to `isFree`).  The slot ORDER inside a bucket is deliberately not
  related: bucket_mem.go writes the first empty slot of a fixed array, bucket_redis.go `LPUSH`es
  at the head of a list (or re-uses the first hole), so after inserting 1 then 2 into one bucket
  the slots are `[1, 2]` in memory and `[2, 1]` in Redis.

  Proved: `Sim` holds for the two new filters; `Lookup` agrees; `Remove` returns the same Boolean
  and preserves `Sim`; an `Insert` that finds room in one of its two candidate buckets returns
  true on both sides and preserves `Sim`, for any `destructive` / `side` / `slots`;
  `C08_cuckoo_until_kick`: over every history of such operations the two variants return the same
  answer and the same `length` at every step.

  NOT covered: an `Insert` that takes the eviction path (both candidate buckets full).  It evicts
  the fingerprint at a random slot INDEX, and the same index holds different fingerprints in the
  two variants, so the relocation chains differ; `C08_cuckoo_kick_differs` is a concrete run where
  the in-memory `Insert` then succeeds and the Redis one fails.

  Everything holds for any number of buckets `n` and ANY in-range alternate-bucket map `alt` (no
  involution hypothesis), elements being given by their positions `(fp, i1, alt i1 fp)` with
  `fp ≠ emp` and `i1 < n`.  Helper lemmas: Gostatix/Proofs/CuckooSim.lean.
-/
import Gostatix.Proofs.CuckooSim
namespace Gostatix.Cuckoo

section
variable {F : Type} [DecidableEq F] [Inhabited (BucketMem F)] [Inhabited (BucketRedis F)]

/-- the relation, spelled out -/
theorem C08_cuckoo_sim_def (emp : F) (m : Cuckoo (BucketMem F)) (r : Cuckoo (BucketRedis F)) :
    Sim emp m r ↔
      (m.n = r.n ∧ m.bsize = r.bsize ∧ m.fpl = r.fpl ∧ m.retries = r.retries) ∧
      m.length = r.length ∧ Mem.WF emp m ∧ Redis.WF emp r ∧
      ∀ j, j < m.n → ∀ f, f ≠ emp → Mem.cnt m j f = Redis.cnt r j f :=
  ⟨fun h => ⟨⟨h.n, h.bsize, h.fpl, h.retries⟩, h.length, h.wfm, h.wfr, h.cnt⟩,
   fun ⟨⟨a, b, c, d⟩, e, f, g, k⟩ => ⟨a, b, c, d, e, f, g, k⟩⟩

/-- **The two new filters are related.** -/
theorem C08_cuckoo_sim_empty (emp : F) (n bsize fpl retries : Nat) :
    Sim emp (Mem.empty emp n bsize fpl retries) (Redis.empty n bsize fpl retries) :=
  sim_empty emp n bsize fpl retries

/-- **Same occupancy**: related filters have, bucket by bucket, the same number of occupied
    slots, the same cached bucket length and the same answer to "is there room?". -/
theorem C08_cuckoo_sim_occupancy (emp : F) (m : Cuckoo (BucketMem F)) (r : Cuckoo (BucketRedis F))
    (h : Sim emp m r) (j : Nat) (hj : j < m.n) :
    occ emp (bucketAt m.buckets j).elements = occ emp (bucketAt r.buckets j).list ∧
    (bucketAt m.buckets j).length = (bucketAt r.buckets j).len ∧
    BucketMem.isFree (bucketAt m.buckets j) = BucketRedis.isFree (bucketAt r.buckets j) :=
  ⟨h.occ_eq j hj, h.bucketLen j hj, h.isFree j hj⟩

/-- … and the same number of stored fingerprints in total -/
theorem C08_cuckoo_sim_stored (emp : F) (m : Cuckoo (BucketMem F)) (r : Cuckoo (BucketRedis F))
    (h : Sim emp m r) : Mem.stored emp m = Redis.stored emp r := by
  rw [← h.wfm.length, ← h.wfr.length]; exact h.length

/-- **`Lookup` agrees.** -/
theorem C08_cuckoo_lookup (emp : F) (m : Cuckoo (BucketMem F)) (r : Cuckoo (BucketRedis F))
    (h : Sim emp m r) (fp : F) (i1 i2 : Nat) (hfp : fp ≠ emp) (hi1 : i1 < m.n) (hi2 : i2 < m.n) :
    lookup (BucketMem.ops emp) m fp i1 i2 = lookup (BucketRedis.ops emp) r fp i1 i2 :=
  sim_lookup h fp i1 i2 hfp hi1 hi2

/-- **`Remove` returns the same Boolean and preserves the relation.** -/
theorem C08_cuckoo_remove (emp : F) (m : Cuckoo (BucketMem F)) (r : Cuckoo (BucketRedis F))
    (h : Sim emp m r) (fp : F) (i1 i2 : Nat) (hfp : fp ≠ emp) (hi1 : i1 < m.n) (hi2 : i2 < m.n) :
    (remove (BucketMem.ops emp) m fp i1 i2).2 = (remove (BucketRedis.ops emp) r fp i1 i2).2 ∧
    Sim emp (remove (BucketMem.ops emp) m fp i1 i2).1 (remove (BucketRedis.ops emp) r fp i1 i2).1 :=
  sim_remove h fp i1 i2 hfp hi1 hi2

/-- **An `Insert` that does not take the eviction path** (bucket `i1` or bucket `i2` has room)
    **returns true on both sides and preserves the relation** — for any `destructive`, `side`,
    `slots` and `alt`, which may even differ between the two sides: they are not read on this
    path. -/
theorem C08_cuckoo_insert_nokick (emp : F) (m : Cuckoo (BucketMem F)) (r : Cuckoo (BucketRedis F))
    (h : Sim emp m r) (alt alt' : Nat → F → Nat) (fp : F) (i1 i2 : Nat)
    (d side d' side' : Bool) (slots slots' : List Nat) (hfp : fp ≠ emp)
    (hi1 : i1 < m.n) (hi2 : i2 < m.n)
    (hfree : BucketMem.isFree (bucketAt m.buckets i1) = true ∨
      BucketMem.isFree (bucketAt m.buckets i2) = true) :
    ∃ m' r', insert (BucketMem.ops emp) alt m fp i1 i2 d side slots = .ok m' ∧
      insert (BucketRedis.ops emp) alt' r fp i1 i2 d' side' slots' = .ok r' ∧ Sim emp m' r' :=
  sim_insert_nokick h alt alt' fp i1 i2 d side d' side' slots slots' hfp hi1 hi2 hfree

/-- whether an operation takes the eviction path can be read off either variant -/
theorem C08_cuckoo_nokick_iff (emp : F) (m : Cuckoo (BucketMem F)) (r : Cuckoo (BucketRedis F))
    (h : Sim emp m r) (alt : Nat → F → Nat) (op : COp F)
    (hAlt : ∀ j f, j < m.n → alt j f < m.n) (hv : ValidPos emp m.n op) :
    NoKickOp (BucketMem.ops emp) alt m op ↔ NoKickOp (BucketRedis.ops emp) alt r op :=
  sim_noKickOp_iff h alt op hAlt hv

omit [DecidableEq F] [Inhabited (BucketMem F)] [Inhabited (BucketRedis F)] in
/-- the observable trace, unfolded: the Boolean each operation returns (`Insert` panicking with
    "filter is full" counts as false) and `length` after it -/
theorem C08_cuckoo_trace_def {B : Type} [Inhabited B] (o : BucketOps B F) (alt : Nat → F → Nat)
    (c : Cuckoo B) (op : COp F) (h : List (COp F)) :
    trace o alt c [] = [] ∧
    trace o alt c (op :: h) =
      ((step o alt c op).2, (step o alt c op).1.length) :: trace o alt (step o alt c op).1 h :=
  ⟨rfl, rfl⟩

/-- **Until the first eviction the two variants are indistinguishable.**  From related states,
    over every history of (insert that finds room / remove / lookup) operations on elements with
    valid positions, both variants return the same answer at every step and show the same
    `length` after every step, and they end in related states (so this continues to hold). -/
theorem C08_cuckoo_until_kick (emp : F) (alt : Nat → F → Nat) (m : Cuckoo (BucketMem F))
    (r : Cuckoo (BucketRedis F)) (ops : List (COp F)) (hsim : Sim emp m r)
    (hAlt : ∀ j f, j < m.n → alt j f < m.n) (hv : ∀ op ∈ ops, ValidPos emp m.n op)
    (hnk : NoKick (BucketMem.ops emp) alt m ops) :
    trace (BucketMem.ops emp) alt m ops = trace (BucketRedis.ops emp) alt r ops ∧
    (run (BucketMem.ops emp) alt m ops).length = (run (BucketRedis.ops emp) alt r ops).length ∧
    Sim emp (run (BucketMem.ops emp) alt m ops) (run (BucketRedis.ops emp) alt r ops) := by
  obtain ⟨h1, h2⟩ := sim_run alt ops m r hsim hAlt hv hnk
  exact ⟨h1, h2.length, h2⟩

/-- the same from the two new filters -/
theorem C08_cuckoo_until_kick_new (emp : F) (alt : Nat → F → Nat) (n bsize fpl retries : Nat)
    (ops : List (COp F)) (hAlt : ∀ j f, j < n → alt j f < n)
    (hv : ∀ op ∈ ops, ValidPos emp n op)
    (hnk : NoKick (BucketMem.ops emp) alt (Mem.empty emp n bsize fpl retries) ops) :
    trace (BucketMem.ops emp) alt (Mem.empty emp n bsize fpl retries) ops
      = trace (BucketRedis.ops emp) alt (Redis.empty n bsize fpl retries) ops ∧
    Sim emp (run (BucketMem.ops emp) alt (Mem.empty emp n bsize fpl retries) ops)
      (run (BucketRedis.ops emp) alt (Redis.empty n bsize fpl retries) ops) := by
  obtain ⟨h1, _, h3⟩ := C08_cuckoo_until_kick emp alt _ _ ops
    (sim_empty emp n bsize fpl retries) hAlt hv hnk
  exact ⟨h1, h3⟩

/-- after such a history every later `Lookup` agrees too -/
theorem C08_cuckoo_until_kick_lookup (emp : F) (alt : Nat → F → Nat) (n bsize fpl retries : Nat)
    (ops : List (COp F)) (hAlt : ∀ j f, j < n → alt j f < n)
    (hv : ∀ op ∈ ops, ValidPos emp n op)
    (hnk : NoKick (BucketMem.ops emp) alt (Mem.empty emp n bsize fpl retries) ops)
    (fp : F) (i1 : Nat) (hfp : fp ≠ emp) (hi1 : i1 < n) :
    lookup (BucketMem.ops emp) (run (BucketMem.ops emp) alt (Mem.empty emp n bsize fpl retries) ops)
        fp i1 (alt i1 fp)
      = lookup (BucketRedis.ops emp)
        (run (BucketRedis.ops emp) alt (Redis.empty n bsize fpl retries) ops) fp i1 (alt i1 fp) := by
  obtain ⟨_, hs⟩ := C08_cuckoo_until_kick_new emp alt n bsize fpl retries ops hAlt hv hnk
  have hn : (run (BucketMem.ops emp) alt (Mem.empty emp n bsize fpl retries) ops).n = n :=
    (run_params alt _ ops).1
  exact sim_lookup hs fp i1 (alt i1 fp) hfp (by rw [hn]; exact hi1) (by rw [hn]; exact hAlt i1 fp hi1)

end

/-! ### non-vacuity (F = Nat, emp = 0) -/

/-- 4 buckets of 2 slots, `alt j f = (j xor f) mod 4` (an involution, as in the code) -/
def exAlt (j f : Nat) : Nat := (j ^^^ f) % 4

theorem exAlt_lt (j f : Nat) (_ : j < 4) : exAlt j f < 4 := Nat.mod_lt _ (by decide)

/-- fill bucket 0 with 1, 2; look both up; remove 1; put 9 into bucket 2; a lookup that misses;
    re-insert 1 -/
def exOpsC : List (COp Nat) :=
  [.insert 1 0 false true [0], .insert 2 0 false true [0], .lookup 1 0, .lookup 2 2,
   .remove 1 1, .insert 9 2 true false [1], .lookup 1 0, .remove 7 3, .insert 1 1 false true []]

example : ∀ op ∈ exOpsC, ValidPos 0 4 op := by decide
example : NoKick (BucketMem.ops 0) exAlt (Mem.empty 0 4 2 1 3) exOpsC := by decide

/-- the common trace: answers and `length` after each step -/
example : trace (BucketMem.ops 0) exAlt (Mem.empty 0 4 2 1 3) exOpsC =
    [(true, 1), (true, 2), (true, 2), (true, 2), (true, 1), (true, 2), (false, 2), (false, 2),
     (true, 3)] := by decide

example : trace (BucketRedis.ops 0) exAlt (Redis.empty 4 2 1 3 : Cuckoo (BucketRedis Nat)) exOpsC =
    [(true, 1), (true, 2), (true, 2), (true, 2), (true, 1), (true, 2), (false, 2), (false, 2),
     (true, 3)] := by decide

/-- the final states are related but NOT equal: e.g. bucket 0 is the slot array `[0, 2]` in memory
    and the list `[2, 0]` in Redis -/
example : (run (BucketMem.ops 0) exAlt (Mem.empty 0 4 2 1 3) exOpsC).buckets =
    [⟨2, [0, 2], 1⟩, ⟨2, [1, 0], 1⟩, ⟨2, [9, 0], 1⟩, ⟨2, [0, 0], 0⟩] := by decide

example : (run (BucketRedis.ops 0) exAlt (Redis.empty 4 2 1 3 : Cuckoo (BucketRedis Nat))
    exOpsC).buckets = [⟨2, [2, 0], 1⟩, ⟨2, [1], 1⟩, ⟨2, [9], 1⟩, ⟨2, [], 0⟩] := by decide

/-- the theorem on the example -/
example :=
  C08_cuckoo_until_kick_new 0 exAlt 4 2 1 3 exOpsC exAlt_lt (by decide) (by decide)

/-! ### the eviction path is not covered: a concrete divergence -/

/-- buckets 0, 2, 3 are filled (no eviction needed), bucket 1 stays empty; then `3` is inserted
    with candidate buckets 0 and 3, both full, `retries = 1`, evicting slot 0 of bucket 0 -/
def exFill : List (COp Nat) :=
  [.insert 1 0 false true [0], .insert 2 0 false true [0],
   .insert 5 3 false true [0], .insert 6 3 false true [0],
   .insert 9 2 false true [0], .insert 10 2 false true [0]]

def exKick : COp Nat := .insert 3 0 false true [0]

/-- **With an eviction the variants diverge.**  After `exFill` (which has no eviction, so the
    states are related) slot 0 of bucket 0 holds 1 in memory and 2 in Redis.  The in-memory
    insert evicts 1, whose alternate bucket 1 has room: `Insert` returns true, `length` 7.
    The Redis insert evicts 2, whose alternate bucket 2 is full: with `retries = 1` it gives up,
    rolls back and reports "filter is full": false, `length` 6. -/
theorem C08_cuckoo_kick_differs :
    NoKick (BucketMem.ops 0) exAlt (Mem.empty 0 4 2 1 1) exFill ∧
    ¬ NoKick (BucketMem.ops 0) exAlt (Mem.empty 0 4 2 1 1) (exFill ++ [exKick]) ∧
    (bucketAt (run (BucketMem.ops 0) exAlt (Mem.empty 0 4 2 1 1) exFill).buckets 0).elements
      = [1, 2] ∧
    (bucketAt (run (BucketRedis.ops 0) exAlt (Redis.empty 4 2 1 1 : Cuckoo (BucketRedis Nat))
      exFill).buckets 0).list = [2, 1] ∧
    (trace (BucketMem.ops 0) exAlt (Mem.empty 0 4 2 1 1) (exFill ++ [exKick])).getLast?
      = some (true, 7) ∧
    (trace (BucketRedis.ops 0) exAlt (Redis.empty 4 2 1 1 : Cuckoo (BucketRedis Nat))
      (exFill ++ [exKick])).getLast? = some (false, 6) := by
  decide

/-- so `C08_cuckoo_until_kick` is false without the `NoKick` hypothesis -/
theorem C08_cuckoo_nokick_needed :
    ¬ ∀ (ops : List (COp Nat)), (∀ op ∈ ops, ValidPos 0 4 op) →
      trace (BucketMem.ops 0) exAlt (Mem.empty 0 4 2 1 1) ops
        = trace (BucketRedis.ops 0) exAlt (Redis.empty 4 2 1 1 : Cuckoo (BucketRedis Nat)) ops := by
  intro H
  have h := H (exFill ++ [exKick]) (by decide)
  have h5 := C08_cuckoo_kick_differs.2.2.2.2.1
  have h6 := C08_cuckoo_kick_differs.2.2.2.2.2
  rw [h, h6] at h5
  revert h5; decide

end Gostatix.Cuckoo
