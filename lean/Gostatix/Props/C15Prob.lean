/-
  C15 (Count-Min clause) — the (ε, δ) guarantee of the Count-Min sketch under IDEAL hashing.

  WHAT IS PROVED.  Let `E` be a finite universe of elements, `h` any history of `(element, count)`
  updates and `x` any element.  Build the sketch the constructor builds from `(ε, δ)`:
  `d = cmsRows δ = ⌈ln(1/δ)⌉` rows and `w = cmsCols ε = ⌈e/ε⌉` columns.  Draw the hash function of
  every row UNIFORMLY and INDEPENDENTLY from ALL functions `E → Fin w`, i.e. draw
  `g : Fin d → E → Fin w` uniformly from that finite type.  Then the fraction of the family for
  which the estimate of `x` exceeds its true count by more than `ε · total h` is at most `δ`
  (`C15_cms_eps_delta_ideal`).  "Probability" is the fraction of a finite family; the proof is the
  classical Count-Min analysis done by counting: cell invariant (`C03_cell_invariant`), Markov by
  double counting per row, product set for the independent rows, `(1/e)^d ≤ δ`.
  The sketch, `run`, `count`, `trueCount`, `total` are those of `Model/CMS.lean` / `Props/C03.lean`
  (natural-number counters, no overflow).

  WHAT IS NOT PROVED.  The code does NOT hash like this.  `getPositions` computes ONE 128-bit metro
  hash `(h1, h2)` of the element and uses double hashing, column of row `r` = `(h1 + r·h2) mod 2^64
  mod w` (`C15_cms_scheme`).  The rows of that scheme are NOT independent: all `d` columns of an
  element are determined by the two words `h1, h2`, and two elements with equal `(h1 mod w, h2 mod
  w)`-behaviour collide in every row at once.  Moreover nothing is known (or provable here) about
  the distribution of metro hash outputs.  So this theorem is a statement about the sizing
  formulas and the sketch algorithm under an idealised hash family, not about the concrete hash
  functions of the implementation; the frequencies for the concrete scheme are only measured by the
  test suite.

  Helper lemmas: `Gostatix/Proofs/CMSProb.lean`.
-/
import Gostatix.Props.C15
import Gostatix.Proofs.CMSProb
namespace Gostatix.Sizing
open Real Finset Gostatix.CMS

section ideal
variable {E : Type} {d w : ℕ}

/-- position function of a member of the ideal hash family: row `r` sends `x` to column `g r x`. -/
def posOf (g : Fin d → E → Fin w) (x : E) : List Nat := List.ofFn (fun r => (g r x : Nat))

theorem posOf_length (g : Fin d → E → Fin w) (x : E) : (posOf g x).length = d := by
  simp [posOf]

theorem posOf_getD (g : Fin d → E → Fin w) (x : E) (r : Fin d) :
    (posOf g x).getD r 0 = (g r x : Nat) := by
  have hr : (r : Nat) < (posOf g x).length := by rw [posOf_length]; exact r.isLt
  rw [List.getD_eq_getElem?_getD, List.getElem?_eq_getElem hr]
  simp [posOf]

/-- every member of the family is a well-formed position function for a `d × w` sketch. -/
theorem posOf_PosOK (g : Fin d → E → Fin w) : PosOK (posOf g) d w := by
  intro e
  refine ⟨posOf_length g e, ?_⟩
  intro p hp
  simp only [posOf, List.mem_ofFn] at hp
  obtain ⟨r, rfl⟩ := hp
  exact (g r e).isLt

/-- by how much the estimate of `x` exceeds its true count after the history `h` (no truncation
    when `0 < d`, by `C03_lower`; with `d = 0` the estimate is 0). -/
def overshoot [DecidableEq E] (g : Fin d → E → Fin w) (h : List (E × Nat)) (x : E) : Nat :=
  (run (posOf g) (CMS.new d w) h).count (posOf g x) - trueCount h x

/-- no truncation in `overshoot`: estimate = true count + overshoot. -/
theorem overshoot_spec [DecidableEq E] (g : Fin d → E → Fin w) (h : List (E × Nat)) (x : E)
    (hd : 0 < d) :
    (run (posOf g) (CMS.new d w) h).count (posOf g x) = trueCount h x + overshoot g h x := by
  have := C03_lower (posOf g) d w h x hd (posOf_PosOK g)
  unfold overshoot; omega

variable [Fintype E] [DecidableEq E]

/-- the cell of row `r` probed by `x` holds the true count of `x` plus the collision mass. -/
theorem probed_cell (g : Fin d → E → Fin w) (h : List (E × Nat)) (x : E) (r : Fin d) :
    cell (run (posOf g) (CMS.new d w) h).m r ((posOf g x).getD r 0)
      = trueCount h x + rowOver (trueCount h) x (g r) := by
  have hinv := C03_cell_invariant (posOf g) (CMS.new d w) h (C03_wf_new d w) (posOf_PosOK g)
    r ((posOf g x).getD r 0) r.isLt
  have hnew := new_cell d w r ((posOf g x).getD r 0)
  unfold cell at hnew ⊢
  rw [hinv, hnew, Nat.zero_add,
    sumL_filter_eq_sum (fun y => (posOf g y).getD r 0 = (posOf g x).getD r 0) h,
    ← sum_same_col (trueCount h) x (g r)]
  apply Finset.sum_congr _ (fun _ _ => rfl)
  ext y
  simp only [mem_filter, mem_univ, true_and, posOf_getD]
  exact Fin.val_inj

/-- the estimate is a minimum over the rows, so the overshoot is at most every row's collision
    mass. -/
theorem overshoot_le_rowOver (g : Fin d → E → Fin w) (h : List (E × Nat)) (x : E) (r : Fin d) :
    overshoot g h x ≤ rowOver (trueCount h) x (g r) := by
  have hlen : (run (posOf g) (CMS.new d w) h).m.length = d :=
    (foldl_update_shape (posOf g) d w _ (new_shape d w) h).1
  have hc := count_le_cell (run (posOf g) (CMS.new d w) h) (posOf g x) r
    (by rw [hlen]; exact r.isLt) (by rw [posOf_length]; exact r.isLt)
  rw [probed_cell] at hc
  unfold overshoot; omega

/-- Core statement for an arbitrary `d × w` sketch: if `e ≤ ε·w` and `exp(-d) ≤ δ`, at most a
    `δ` fraction of the ideal hash family over-estimates `x` by more than `ε · total h`. -/
theorem C15_cms_ideal_core (d w : ℕ) (ε δ : ℝ) (hw : exp 1 ≤ ε * w) (hd : exp (-(d : ℝ)) ≤ δ)
    (h : List (E × Nat)) (x : E) :
    ((Finset.univ.filter (fun g : Fin d → E → Fin w =>
        ε * (total h : ℝ) < (overshoot g h x : ℝ))).card : ℝ)
      ≤ δ * (Fintype.card (Fin d → E → Fin w) : ℝ) := by
  -- the per-row bad set
  set B : Finset (E → Fin w) :=
    Finset.univ.filter (fun f => ε * (total h : ℝ) < (rowOver (trueCount h) x f : ℝ)) with hBdef
  have hB : ∀ f ∈ B, ε * ((∑ y : E, trueCount h y : ℕ) : ℝ) < (rowOver (trueCount h) x f : ℝ) := by
    intro f hf
    rw [← total_eq_sum]
    exact (mem_filter.mp hf).2
  have h1 := card_bad_row_mul_exp (trueCount h) x w ε hw B hB
  -- the bad set is contained in the product set
  have h2 : (Finset.univ.filter (fun g : Fin d → E → Fin w =>
        ε * (total h : ℝ) < (overshoot g h x : ℝ))).card ≤ B.card ^ d := by
    apply card_le_pow_of_forall
    intro g hg r
    have hlt := (mem_filter.mp hg).2
    have hle : (overshoot g h x : ℝ) ≤ (rowOver (trueCount h) x (g r) : ℝ) := by
      exact_mod_cast overshoot_le_rowOver g h x r
    exact mem_filter.mpr ⟨mem_univ _, lt_of_lt_of_le hlt hle⟩
  have h3 := pow_le_delta_mul (B.card : ℝ) (Fintype.card (E → Fin w) : ℝ) δ d
    (Nat.cast_nonneg _) h1 hd
  have hcard : Fintype.card (Fin d → E → Fin w) = Fintype.card (E → Fin w) ^ d :=
    (Fintype.card_fun (α := Fin d) (β := E → Fin w)).trans (by rw [Fintype.card_fin])
  rw [hcard, Nat.cast_pow]
  refine le_trans ?_ h3
  exact_mod_cast h2

/-- **C15, Count-Min clause, ideal hashing.**  A Count-Min sketch created from `(ε, δ)`
    (`cmsRows δ` rows, `cmsCols ε` columns) whose row hash functions are drawn uniformly and
    independently from all functions `E → Fin (cmsCols ε)` over-estimates an element by more than
    `ε` times the total count with probability (= fraction of the family) at most `δ`.
    No upper bound on `δ` is needed: for `δ ≥ 1` the sketch has 0 rows, the estimate is 0 and the
    claim is trivial. -/
theorem C15_cms_eps_delta_ideal (ε δ : ℝ) (hε : 0 < ε) (hδ : 0 < δ)
    (h : List (E × Nat)) (x : E) :
    let d := cmsRows δ; let w := cmsCols ε
    ((Finset.univ.filter (fun g : Fin d → E → Fin w =>
        ε * (total h : ℝ) < (overshoot g h x : ℝ))).card : ℝ)
      ≤ δ * (Fintype.card (Fin d → E → Fin w) : ℝ) := by
  intro d w
  have hceil : exp 1 / ε ≤ (cmsCols ε : ℝ) := Nat.le_ceil _
  have hw : exp 1 ≤ ε * (w : ℝ) := by
    rw [div_le_iff₀ hε] at hceil
    linarith [mul_comm ε (cmsCols ε : ℝ)]
  exact C15_cms_ideal_core d w ε δ hw (C15_cms_rows δ hδ) h x

/-- the same guarantee stated on the estimate itself (no natural-number subtraction): the
    fraction of the ideal family with `Count(x) > trueCount x + ε · total` is at most `δ`. -/
theorem C15_cms_eps_delta_ideal_count (ε δ : ℝ) (hε : 0 < ε) (hδ : 0 < δ)
    (h : List (E × Nat)) (x : E) :
    let d := cmsRows δ; let w := cmsCols ε
    ((Finset.univ.filter (fun g : Fin d → E → Fin w =>
        (trueCount h x : ℝ) + ε * (total h : ℝ)
          < ((run (posOf g) (CMS.new d w) h).count (posOf g x) : ℝ))).card : ℝ)
      ≤ δ * (Fintype.card (Fin d → E → Fin w) : ℝ) := by
  intro d w
  refine le_trans ?_ (C15_cms_eps_delta_ideal ε δ hε hδ h x)
  apply Nat.cast_le.mpr
  apply Finset.card_le_card
  intro g hg
  have hlt := (mem_filter.mp hg).2
  refine mem_filter.mpr ⟨mem_univ _, ?_⟩
  have hnat : (run (posOf g) (CMS.new d w) h).count (posOf g x)
      ≤ trueCount h x + overshoot g h x := by unfold overshoot; omega
  have hreal : ((run (posOf g) (CMS.new d w) h).count (posOf g x) : ℝ)
      ≤ (trueCount h x : ℝ) + (overshoot g h x : ℝ) := by exact_mod_cast hnat
  linarith

/-- the constructor's sketch has at least one column and, for `δ < 1`, at least one row (so that
    `overshoot` is not truncated, `overshoot_spec`). -/
theorem C15_cms_dims_pos (ε δ : ℝ) (hε : 0 < ε) (hδ : 0 < δ) (hδ1 : δ < 1) :
    0 < cmsCols ε ∧ 0 < cmsRows δ := by
  constructor
  · exact Nat.ceil_pos.mpr (div_pos (exp_pos 1) hε)
  · apply Nat.ceil_pos.mpr
    apply log_pos
    rw [one_div]
    exact (one_lt_inv₀ hδ).mpr hδ1

end ideal

/-! ### non-vacuity: a concrete instance -/

/-- `E = Fin 3`, two updates, ε = 1/2 (6 columns), δ = 1/10 (3 rows): at most a tenth of the
    `(6^3)^3` hash families over-estimate element 0 by more than half of the total 7. -/
example :
    let h : List (Fin 3 × Nat) := [(0, 2), (1, 5)]
    let d := cmsRows (1 / 10); let w := cmsCols (1 / 2)
    ((Finset.univ.filter (fun g : Fin d → Fin 3 → Fin w =>
        (1 / 2 : ℝ) * (total h : ℝ) < (overshoot g h 0 : ℝ))).card : ℝ)
      ≤ (1 / 10 : ℝ) * (Fintype.card (Fin d → Fin 3 → Fin w) : ℝ) :=
  C15_cms_eps_delta_ideal (1 / 2) (1 / 10) (by norm_num) (by norm_num) [(0, 2), (1, 5)] 0

example : 0 < cmsCols (1 / 2) ∧ 0 < cmsRows (1 / 10) :=
  C15_cms_dims_pos (1 / 2) (1 / 10) (by norm_num) (by norm_num) (by norm_num)

end Gostatix.Sizing
