/-
  C05 (estimate) — the refutation of the HyperLogLog accuracy clause (finding D4) and its true
  half, over the real numbers.

  THE CODE (base_hyperloglog.go, hyperloglog.go, pinned version).
    getRegisterIndexAndCount:  registerIndex := 1 + bits.LeadingZeros64(hash << p)     -- the RANK
                               count         := hash >> (32 - p)                       -- hash bits
    Update:                    registers[registerIndex] = max(registers[registerIndex], uint8(count))
    Count:                     harmonicMean = Σ_j 2^(-registers[j]);
                               estimation   = alpha · m² / harmonicMean   (+ large-range correction
                                                                            and rounding)
  Index and value are swapped with respect to the HyperLogLog algorithm: the rank (1..65) selects
  the register and a byte of hash bits is stored in it.  The models are `HLL.indexOf`, `HLL.valueOf`,
  `HLL.update` (partial, as coded) and `HLL.upd` (total) of `Model/HLL.lean`, used unchanged; runs
  are `runR` / `run` / `runU` of `Props/C06.lean` with `iv := hashIV p`.

  WHAT IS PROVED  (m = number of registers = `regs.length`, `rawEstimate α regs = α·m²/Σ_j 2^(-reg_j)`)
   * `C05_untouched_stay`            positions outside the touched index set keep their value under
                                     every history of updates;
   * `C05_harmonic_ge`               if all positions outside a finite set T hold 0, Σ ≥ m - #T;
   * `C05_harmonic_ge_any_history`   any history with indices in 1..65 on a fresh sketch: Σ ≥ m - 65;
   * `C05_estimate_independent_of_n` for m > 65, 0 ≤ α and ANY such history:
                                         rawEstimate α regs ≤ α·m²/(m - 65);
   * `C05_estimate_independent_of_n_hashes`  the same for ANY list of hashes (of any length, with any
                                     number of distinct elements) and any precision p, no hypothesis
                                     on the hashes at all (`C05_index_range` discharges it);
   * `C05_empty_not_zero`            rawEstimate α (replicate m 0) = α·m  (every m, every α);
   * `C05_lower_bound_any_state`     α·m ≤ rawEstimate α regs for EVERY register state (0 ≤ α);
   * `C05_estimate_window`           both bounds for every hash history: the estimate always lies in
                                     [α·m, α·m²/(m-65)], an interval that does not depend on the input;
   * `C05_cannot_track`              hence for every n ≥ 2·α·m²/(m-65) the error |estimate - n| is at
                                     least n/2, whatever n distinct elements were inserted;
   * `C05_window_16384`              with the code's own α (`alpha`, = `getAlpha`) and m = 2^14 the raw
                                     estimate of EVERY stream lies in (11816, 11865) and is below the
                                     threshold 2^32/30 of the large-range correction;
   * `C05_update_total_of_large`     for ≥ 66 registers every `update (indexOf hash p) (valueOf hash p)`
                                     returns `.ok` (the true half of "every Update completes"), and
                                     `C05_run_total_of_large` lifts this to whole histories (`runU`);
   * `C05_update_panic_iff`          `update` panics iff the index is ≥ the register count;
   * `C05_update_can_fail_small`     p ≤ 5, m = 2^p: the hash 1 makes `Update` panic on a fresh sketch;
   * `C05_update_can_fail_le_65`     for every m ≤ 65 and every p the hash 0 makes `Update` panic,
                                     so the threshold 66 of `C05_update_total_of_large` is sharp.
  Each hypothesis (0 ≤ α, 65 < m, indices in 1..65, p ≤ 5) comes with a counterexample below.

  WHAT IS NOT PROVED
   * nothing about float64: `rawEstimate` is the exact real-number value of
     `correctionBias * m^2 / harmonicMean`; the rounding of `math.Pow` / the float sum, the
     large-range correction `-2^32·ln(1 - E/2^32)` (only applied when E > 2^32/30; `C05_window_16384`
     shows it is not reached for m = 2^14) and `math.Round` / `uint64(·)` are left out;
   * nothing about metro.Hash128: the hash is an arbitrary natural number (the theorems hold for
     every hash, so in particular for the 64-bit outputs of the real function); the witnesses
     `hash = 0`, `hash = 1` are values of the hash, not byte strings known to hash to them;
   * no positive accuracy statement: there is none to prove — the accuracy clause of C05 is false.
   * the constructor only accepts m a power of two (any 2^p ≥ 1) and sets p = log2 m — the theorems
     do not assume it; they are stated for every m and every p.

  Helper lemmas: `Gostatix/Proofs/C05Est.lean`.
-/
import Gostatix.Props.C05
import Gostatix.Proofs.C05Est
namespace Gostatix.HLL

/-! ### definitions used by the statements -/

/-- `getEstimation` before correction and rounding: `α · m² / Σ_j 2^(-reg_j)` over ℝ -/
noncomputable def rawEstimate (α : ℝ) (regs : List Nat) : ℝ :=
  α * (regs.length : ℝ) ^ 2 / (regs.map fun (r : Nat) => (2 : ℝ) ^ (-(r : ℤ))).sum

theorem rawEstimate_eq (α : ℝ) (regs : List Nat) :
    rawEstimate α regs = α * (regs.length : ℝ) ^ 2 / harmonic regs := by
  unfold rawEstimate harmonic; rfl

/-- `getAlpha` (base_hyperloglog.go), decimal constants read as exact rationals -/
noncomputable def alpha (m : Nat) : ℝ :=
  if m = 16 then 0.673 else if m = 32 then 0.697 else if m = 64 then 0.709
  else 0.7213 / (1 + 1.079 / (m : ℝ))

theorem alpha_pos (m : Nat) : 0 < alpha m := by
  unfold alpha
  split_ifs <;> positivity

/-- `getRegisterIndexAndCount` as a map hash ↦ (index, value) at precision `p` -/
def hashIV (p : Nat) (hash : Nat) : Nat × Nat := (indexOf hash p, valueOf hash p)

/-! ### registers: positions outside the touched index set stay as they were -/

/-- positions outside the touched index set keep their value under every history -/
theorem C05_untouched_stay (regs : List Nat) (h : List (Nat × Nat)) (j : Nat)
    (hj : j ∉ h.map Prod.fst) : (h.foldl upd regs).getD j 0 = regs.getD j 0 :=
  foldl_upd_getD_untouched regs h j (fun _ hiv e => hj (e ▸ List.mem_map_of_mem hiv))

/-- if every position outside a finite set `T` holds 0, the harmonic sum is ≥ m - #T -/
theorem C05_harmonic_ge (T : Finset Nat) (regs : List Nat)
    (h : ∀ j, j ∉ T → regs.getD j 0 = 0) :
    (regs.length : ℝ) - T.card ≤ (regs.map fun (r : Nat) => (2 : ℝ) ^ (-(r : ℤ))).sum :=
  harmonic_ge_of_untouched T regs h

/-- any history whose indices lie in 1..65, applied to a fresh sketch of m registers, leaves the
    harmonic sum ≥ m - 65 (at least m - 65 registers are still 0) -/
theorem C05_harmonic_ge_any_history (m : Nat) (h : List (Nat × Nat))
    (hidx : ∀ iv ∈ h, 1 ≤ iv.1 ∧ iv.1 ≤ 65) :
    (m : ℝ) - 65 ≤ harmonic (h.foldl upd (List.replicate m 0)) := by
  have key := harmonic_ge_of_untouched (Finset.Icc 1 65) (h.foldl upd (List.replicate m 0)) (by
    intro j hj
    rw [foldl_upd_getD_untouched _ h j]
    · simp only [List.getD_eq_getElem?_getD, List.getElem?_replicate]; split <;> rfl
    · intro iv hiv e
      exact hj (Finset.mem_Icc.mpr (e ▸ hidx iv hiv)))
  rw [foldl_upd_length', List.length_replicate] at key
  simpa using key

/-! ### the estimate is confined to a window that does not depend on the input -/

/-- for m > 65 registers, ANY history of updates with indices in 1..65 gives a raw estimate of at
    most α·m²/(m - 65) — whatever the number of (distinct) elements -/
theorem C05_estimate_independent_of_n (α : ℝ) (hα : 0 ≤ α) (m : Nat) (hm : 65 < m)
    (h : List (Nat × Nat)) (hidx : ∀ iv ∈ h, 1 ≤ iv.1 ∧ iv.1 ≤ 65) :
    rawEstimate α (h.foldl upd (List.replicate m 0)) ≤ α * (m : ℝ) ^ 2 / ((m : ℝ) - 65) := by
  rw [rawEstimate_eq, foldl_upd_length', List.length_replicate]
  have hpos : (0 : ℝ) < (m : ℝ) - 65 := by
    have : (65 : ℝ) < (m : ℝ) := by exact_mod_cast hm
    linarith
  exact div_le_div_of_nonneg_left (by positivity) hpos (C05_harmonic_ge_any_history m h hidx)

/-- registers after a history of hashes = registers after the corresponding (index, value) pairs -/
theorem runR_hashIV (p : Nat) (regs : List Nat) (hs : List Nat) :
    runR (hashIV p) regs hs = (hs.map (hashIV p)).foldl upd regs := by
  unfold runR; rw [List.foldl_map]

/-- the same for histories of HASHES: no hypothesis on them is needed -/
theorem C05_estimate_independent_of_n_hashes (α : ℝ) (hα : 0 ≤ α) (m : Nat) (hm : 65 < m)
    (p : Nat) (hs : List Nat) :
    rawEstimate α (run (hashIV p) m hs).regs ≤ α * (m : ℝ) ^ 2 / ((m : ℝ) - 65) := by
  show rawEstimate α (runR (hashIV p) (List.replicate m 0) hs) ≤ _
  rw [runR_hashIV]
  apply C05_estimate_independent_of_n α hα m hm
  intro iv hiv
  obtain ⟨x, _, rfl⟩ := List.mem_map.mp hiv
  exact C05_index_range x p

/-- an EMPTY sketch "counts" α·m, not 0 (true for every m and α; for m = 0 both sides are 0) -/
theorem C05_empty_not_zero (α : ℝ) (m : Nat) :
    rawEstimate α (List.replicate m 0) = α * (m : ℝ) := by
  rw [rawEstimate_eq, harmonic_replicate_zero, List.length_replicate]
  rcases Nat.eq_zero_or_pos m with rfl | hm
  · simp
  · have : (m : ℝ) ≠ 0 := by exact_mod_cast hm.ne'
    field_simp

/-- every register state gives an estimate ≥ α·m (all registers ≥ 0, so Σ 2^(-reg) ≤ m) -/
theorem C05_lower_bound_any_state (α : ℝ) (hα : 0 ≤ α) (regs : List Nat) :
    α * (regs.length : ℝ) ≤ rawEstimate α regs := by
  rw [rawEstimate_eq]
  rcases regs with _ | ⟨a, l⟩
  · simp
  · have hpos := harmonic_pos (a :: l) (by simp)
    have hle := harmonic_le_length (a :: l)
    rw [le_div_iff₀ hpos]
    have hL : (0 : ℝ) ≤ ((a :: l).length : ℝ) := Nat.cast_nonneg _
    nlinarith [mul_nonneg (mul_nonneg hα hL) (sub_nonneg.mpr hle)]

/-- the window: for m > 65 the raw estimate after ANY history of hashes lies in
    [α·m, α·m²/(m-65)] -/
theorem C05_estimate_window (α : ℝ) (hα : 0 ≤ α) (m : Nat) (hm : 65 < m) (p : Nat)
    (hs : List Nat) :
    α * (m : ℝ) ≤ rawEstimate α (run (hashIV p) m hs).regs ∧
    rawEstimate α (run (hashIV p) m hs).regs ≤ α * (m : ℝ) ^ 2 / ((m : ℝ) - 65) := by
  refine ⟨?_, C05_estimate_independent_of_n_hashes α hα m hm p hs⟩
  have := C05_lower_bound_any_state α hα (run (hashIV p) m hs).regs
  rwa [show (run (hashIV p) m hs).regs.length = m by
    show (runR (hashIV p) (List.replicate m 0) hs).length = m
    rw [C06_runR_length, List.length_replicate]] at this

/-- the estimate cannot track n: once n is twice the ceiling, the error is at least n/2 -/
theorem C05_cannot_track (α : ℝ) (hα : 0 ≤ α) (m : Nat) (hm : 65 < m) (p : Nat) (hs : List Nat)
    (n : ℝ) (hn : 2 * (α * (m : ℝ) ^ 2 / ((m : ℝ) - 65)) ≤ n) :
    n / 2 ≤ |rawEstimate α (run (hashIV p) m hs).regs - n| := by
  have h := C05_estimate_independent_of_n_hashes α hα m hm p hs
  rw [abs_sub_comm]
  exact le_trans (by linarith) (le_abs_self _)

/-- m = 2^14 = 16384 registers with the code's own α: the raw estimate of EVERY stream of hashes
    lies strictly between 11816 and 11865 and below the large-range threshold 2^32/30 -/
theorem C05_window_16384 (p : Nat) (hs : List Nat) :
    11816 < rawEstimate (alpha 16384) (run (hashIV p) 16384 hs).regs ∧
    rawEstimate (alpha 16384) (run (hashIV p) 16384 hs).regs < 11865 ∧
    rawEstimate (alpha 16384) (run (hashIV p) 16384 hs).regs < 2 ^ 32 / 30 := by
  have h := C05_estimate_window (alpha 16384) (alpha_pos _).le 16384 (by norm_num) p hs
  have ha : alpha 16384 = 0.7213 / (1 + 1.079 / 16384) := by
    unfold alpha; norm_num
  have h1 : (11816 : ℝ) < alpha 16384 * ((16384 : ℕ) : ℝ) := by rw [ha]; norm_num
  have h2 : alpha 16384 * ((16384 : ℕ) : ℝ) ^ 2 / (((16384 : ℕ) : ℝ) - 65) < 11865 := by
    rw [ha]; norm_num
  refine ⟨by linarith [h.1], by linarith [h.2], ?_⟩
  have : (11865 : ℝ) < 2 ^ 32 / 30 := by norm_num
  linarith [h.2]

/-! ### the true half: with at least 66 registers every Update completes -/

/-- for ≥ 66 registers every update succeeds, for every hash and every precision -/
theorem C05_update_total_of_large (s : HLL) (hm : 66 ≤ s.regs.length) (hash p : Nat) :
    s.update (indexOf hash p) (valueOf hash p)
      = .ok { s with regs := upd s.regs (indexOf hash p, valueOf hash p) } :=
  C06_update_ok s _ _ (by have := (C05_index_range hash p).2; omega)

theorem C05_update_total_of_large' (s : HLL) (hm : 66 ≤ s.regs.length) (hash p : Nat) :
    ∃ s', s.update (indexOf hash p) (valueOf hash p) = .ok s' :=
  ⟨_, C05_update_total_of_large s hm hash p⟩

/-- whole histories: on a fresh sketch of m ≥ 66 registers the partial `Update` of the code never
    aborts and computes `run` -/
theorem C05_run_total_of_large (m : Nat) (hm : 66 ≤ m) (p : Nat) (hs : List Nat) :
    runU (hashIV p) (HLL.new m) hs = .ok (run (hashIV p) m hs) :=
  C06_runU_fresh (hashIV p) m hs (fun x _ => by
    have := (C05_index_range x p).2
    show indexOf x p < m
    omega)

/-! ### the false half: small sketches panic -/

/-- `update` panics iff the index is not below the register count (`.err` is never returned by the
    in-memory variant) -/
theorem C05_update_panic_iff (s : HLL) (idx val : Nat) :
    s.update idx val = .panic ↔ s.regs.length ≤ idx := by
  unfold update
  constructor
  · intro h; split at h
    · exact absurd h (by simp)
    · omega
  · intro h; rw [if_neg (by omega)]

/-- … in terms of hashes: Update fails iff the rank of the hash is ≥ m -/
theorem C05_update_fails_iff (s : HLL) (hash p : Nat) :
    s.update (indexOf hash p) (valueOf hash p) = .panic ↔ s.regs.length ≤ indexOf hash p :=
  C05_update_panic_iff s _ _

/-- p ≤ 5 (m = 2^p ≤ 32 registers): the hash 1 (rank 64 - p) makes Update panic -/
theorem C05_update_can_fail_small (p : Nat) (hp : p ≤ 5) :
    (HLL.new (2 ^ p)).update (indexOf 1 p) (valueOf 1 p) = .panic := by
  rw [C05_update_panic_iff, indexOf_one p hp]
  show (List.replicate (2 ^ p) 0).length ≤ 64 - p
  rw [List.length_replicate]
  interval_cases p <;> decide

/-- every sketch with at most 65 registers panics on the all-zero hash, at every precision:
    the threshold 66 of `C05_update_total_of_large` is sharp -/
theorem C05_update_can_fail_le_65 (s : HLL) (hm : s.regs.length ≤ 65) (p : Nat) :
    s.update (indexOf 0 p) (valueOf 0 p) = .panic := by
  rw [C05_update_panic_iff, indexOf_zero]; exact hm

/-! ### counterexamples: every hypothesis is needed -/

/-- without "indices in 1..65" a register above 65 can become non-zero -/
example : (([(70, 3)] : List (Nat × Nat)).foldl upd (List.replicate 80 0)).getD 70 0 = 3 := by
  decide

/-- … and the bound on the estimate fails for such states (m = 130, all registers 8) -/
example : ¬ rawEstimate 1 (List.replicate 130 8) ≤ 1 * ((130 : ℕ) : ℝ) ^ 2 / (((130 : ℕ) : ℝ) - 65) := by
  simp only [rawEstimate, List.map_replicate, List.sum_replicate, List.length_replicate]
  norm_num

/-- `0 ≤ α` is needed for the upper bound (m = 66, empty sketch, α = -1) -/
example : ¬ rawEstimate (-1) (List.replicate 66 0) ≤ (-1) * ((66 : ℕ) : ℝ) ^ 2 / (((66 : ℕ) : ℝ) - 65) := by
  rw [C05_empty_not_zero]; norm_num

/-- `0 ≤ α` is needed for the lower bound (one register holding 1, α = -1) -/
example : ¬ (-1 : ℝ) * (([1] : List Nat).length : ℝ) ≤ rawEstimate (-1) [1] := by
  simp only [rawEstimate]; norm_num

/-- `65 < m` is needed: for m = 65 the right-hand side is `α·65²/0 = 0` but the estimate is 65α -/
example : ¬ rawEstimate 1 (List.replicate 65 0) ≤ 1 * ((65 : ℕ) : ℝ) ^ 2 / (((65 : ℕ) : ℝ) - 65) := by
  rw [C05_empty_not_zero]; norm_num

/-- `p ≤ 5` is needed for the witness hash 1: at p = 6 (m = 64) it has rank 58 < 64 and succeeds
    (there the hash 0 is the failing witness, `C05_update_can_fail_le_65`) -/
example : ∃ s', (HLL.new (2 ^ 6)).update (indexOf 1 6) (valueOf 1 6) = .ok s' :=
  (C05_update_ok_iff _ _ _).mpr (by decide)

/-- `66 ≤ m` is needed for totality: 65 registers, hash 0 -/
example : (HLL.new 65).update (indexOf 0 14) (valueOf 0 14) = .panic := by decide

/-! ### non-vacuity on concrete data -/

/-- five 64-bit hashes at precision p = 7 -/
def exHashes : List Nat :=
  [12345678901234567, 18446744073709551615, 1125901148356608, 77, 0]

/-- their (index, value) pairs: ranks in 1..65, bytes of hash bits -/
example : exHashes.map (hashIV 7) = [(4, 46), (1, 255), (7, 37), (51, 0), (65, 0)] := by decide

/-- a sketch with 128 registers survives them, and only registers 1, 4, 7, 51, 65 were touched -/
example : runU (hashIV 7) (HLL.new 128) exHashes = .ok (run (hashIV 7) 128 exHashes) :=
  C05_run_total_of_large 128 (by decide) 7 exHashes

example : (run (hashIV 7) 128 exHashes).regs.getD 1 0 = 255 := by decide
example : (run (hashIV 7) 128 exHashes).regs.getD 4 0 = 46 := by decide
example : (run (hashIV 7) 128 exHashes).regs.getD 100 0 = 0 := by decide

/-- the window for m = 128 with the code's α: every stream is reported as something in (91, 187) -/
example (hs : List Nat) :
    91 < rawEstimate (alpha 128) (run (hashIV 7) 128 hs).regs ∧
    rawEstimate (alpha 128) (run (hashIV 7) 128 hs).regs < 187 := by
  have h := C05_estimate_window (alpha 128) (alpha_pos _).le 128 (by norm_num) 7 hs
  have ha : alpha 128 = 0.7213 / (1 + 1.079 / 128) := by unfold alpha; norm_num
  have h1 : (91 : ℝ) < alpha 128 * ((128 : ℕ) : ℝ) := by rw [ha]; norm_num
  have h2 : alpha 128 * ((128 : ℕ) : ℝ) ^ 2 / (((128 : ℕ) : ℝ) - 65) < 187 := by rw [ha]; norm_num
  exact ⟨by linarith [h.1], by linarith [h.2]⟩

/-- so a stream of a million distinct elements is off by at least half a million -/
example (hs : List Nat) :
    (500000 : ℝ) ≤ |rawEstimate (alpha 128) (run (hashIV 7) 128 hs).regs - 1000000| := by
  have h := C05_cannot_track (alpha 128) (alpha_pos _).le 128 (by norm_num) 7 hs 1000000 (by
    have ha : alpha 128 = 0.7213 / (1 + 1.079 / 128) := by unfold alpha; norm_num
    rw [ha]; norm_num)
  linarith

/-- the empty sketch of 16 registers reports 0.673 · 16 = 10.768 -/
example : rawEstimate (alpha 16) (List.replicate 16 0) = 10.768 := by
  rw [C05_empty_not_zero]; unfold alpha; norm_num

/-- a small sketch (16 registers, p = 4) panics on the hash 1 -/
example : (HLL.new 16).update (indexOf 1 4) (valueOf 1 4) = .panic :=
  C05_update_can_fail_small 4 (by decide)

end Gostatix.HLL
