/-
  C10 — JSON Export / Import round trip.

  "For every reachable state of every structure, importing the bytes produced by Export into a
   fresh instance yields a structure with the same parameters that answers every query
   identically (including Length and reported counts), compares Equal to the original, and
   behaves identically under further updates.  For the Redis-backed variants this holds when
   importing under new keys, and the original is left untouched."

  Model: Model/Json.lean (what `Export` puts into the `*JSON` mirror struct, what `Import`
  does with it; `encoding/json` itself is trusted).  Lemmas: Proofs/Json.lean.

  Shape of the statements.  For the in-memory variants the imported state is EQUAL to the
  exported one (the overwritten instance `t` is arbitrary).  For the Redis variants the imported
  handle equals the exported one except for the key names (handle-local by design), and its
  *view* — the pure model of Model/*.lean that every operation of the handle reads and writes:
  parameters, payload, `Length`, counters — equals the exporter's view in the store after the
  import.  In the models every query (`lookup`, `count`, `values`, `length`, `equals`) and
  every update (`insert`, `remove`, `update`, `offer`) is a FUNCTION of that state/view, so
  equal states give identical answers, `Equals = true`, and identical behaviour under any further
  operations; one such corollary is spelled out per structure.

  Where the code does not round-trip a state the statement carries the missing hypothesis and
  is called `…_partial`, with a `…_counterexample` on a concrete witness.
-/
import Gostatix.Proofs.Json
namespace Gostatix.Json
open Gostatix.Codec (encU64 beVal)

/-! ## Bloom filter, in memory -/

/-- Every field `Import` assigns is restored; `BitSetMem.size` is recomputed as `set.Len()`. -/
theorem C10_roundtrip_bloomMem (s t : BloomMem) :
    BloomMem.importDoc s.exportDoc t = { s with bsSize := s.bits.length } := rfl

/-- … so the state is reproduced exactly when `BitSetMem.size = set.Len()` (true for every
    filter built by a constructor from a non-empty bitset). -/
theorem C10_roundtrip_bloomMem_exact (s t : BloomMem) (h : s.bsSize = s.bits.length) :
    BloomMem.importDoc s.exportDoc t = s := by
  rw [C10_roundtrip_bloomMem, ← h]

/-- parameters and bit vector — all that `Lookup`, `Insert`, `Equals`, `BloomPositiveRate`
    read — always agree; in particular every lookup and every future history. -/
theorem C10_bloomMem_queries (s t : BloomMem) :
    (BloomMem.importDoc s.exportDoc t).toModel = s.toModel ∧
    (∀ ps, (BloomMem.importDoc s.exportDoc t).toModel.lookup ps = s.toModel.lookup ps) ∧
    (∀ (E : Type) (probes : E → List Nat) (ops : List (BloomOp E)),
      Bloom.run probes (BloomMem.importDoc s.exportDoc t).toModel ops = Bloom.run probes s.toModel ops) :=
  ⟨rfl, fun _ => rfl, fun _ _ _ => rfl⟩

example :
    let s : BloomMem := ⟨8, 3, 8, [true, false, false, true, false, true, false, false]⟩
    let t : BloomMem := ⟨64, 1, 64, List.replicate 64 false⟩
    BloomMem.importDoc s.exportDoc t = s ∧ s.toModel.lookup [0, 3, 5] = true := by decide

/-! ## Bloom filter, Redis -/

/-- `util.ConvertByteToLittleEndianByte` is an involution -/
theorem C10_bloom_redis_revByte : ∀ b : UInt8, revByte (revByte b) = b := revByte_invol

/-- `BitSetRedis.marshal` followed by `BitSetRedis.unmarshal` is the identity on the size and
    on the bitmap string (bytes handed to / received from base64) -/
theorem C10_bloom_redis_codec (size : Nat) (hs : size < 2 ^ 64) (v : Bytes) :
    unmarshalRedis (marshalRedis size v) = some (size, v) := unmarshal_marshal size hs v

/-- Import into an instance `t` (which owns its own bitmap key): same parameters, and `t`'s key
    now holds the exporter's bitmap string, byte for byte. -/
theorem C10_roundtrip_bloomRedis (h t : BloomRedis) (st : Store) (hs : h.bsSize < 2 ^ 64) :
    BloomRedis.importDoc (h.exportDoc st) t st =
      .ok ({ h with key := t.key, metadataKey := t.metadataKey },
           st.set (.rand t.key) (.str (h.bitmap st))) := by
  unfold BloomRedis.importDoc BloomRedis.exportDoc
  simp only [C10_bloom_redis_codec _ hs]

/-- `GETBIT key i`: bit `7 - i%8` of byte `i/8` -/
def getBit (v : Bytes) (i : Nat) : Bool := (v.getD (i / 8) 0).toNat.testBit (7 - i % 8)
/-- `Lookup` of a Redis filter with probe positions `ps` -/
def BloomRedis.lookup (h : BloomRedis) (st : Store) (ps : List Nat) : Bool :=
  ps.all (getBit (h.bitmap st))

theorem C10_bloomRedis_queries (h t : BloomRedis) (st : Store) (hs : h.bsSize < 2 ^ 64) :
    ∃ h' st', BloomRedis.importDoc (h.exportDoc st) t st = .ok (h', st') ∧
      h'.size = h.size ∧ h'.k = h.k ∧ h'.bitmap st' = h.bitmap st ∧
      ∀ ps, h'.lookup st' ps = h.lookup st ps := by
  refine ⟨_, _, C10_roundtrip_bloomRedis h t st hs, rfl, rfl, ?_, ?_⟩
  · simp [BloomRedis.bitmap, Store.getStr, Val.toStr]
  · intro ps
    simp [BloomRedis.lookup, BloomRedis.bitmap, Store.getStr, Val.toStr]

/-- only the importing instance's own bitmap key is written -/
theorem C10_redis_original_untouched_bloom (h t : BloomRedis) (st : Store) (hs : h.bsSize < 2 ^ 64) :
    ∃ h' st', BloomRedis.importDoc (h.exportDoc st) t st = .ok (h', st') ∧
      ∀ k, k ≠ .rand t.key → st' k = st k :=
  ⟨_, _, C10_roundtrip_bloomRedis h t st hs, fun _ hk => Store.set_other _ _ hk⟩

example :
    let st : Store := fun k => if k = .rand 1 then .str [0x80, 0x01, 0x00] else
      if k = .rand 2 then .str [0, 0, 0, 0, 0] else .absent
    let h : BloomRedis := ⟨3, 2, 3, 1, 10⟩
    let t : BloomRedis := ⟨5, 7, 5, 2, 20⟩
    h.exportDoc st = ⟨3, 2, [0, 0, 0, 0, 0, 0, 0, 3, 0x00, 0x80, 0x01]⟩ ∧
    ∃ st', BloomRedis.importDoc (h.exportDoc st) t st = .ok (⟨3, 2, 3, 2, 20⟩, st') ∧
      st' (.rand 2) = .str [0x80, 0x01, 0x00] ∧ st' (.rand 1) = st (.rand 1) := by
  refine ⟨by decide, _, C10_roundtrip_bloomRedis _ _ _ (by decide), by decide, by decide⟩

/-! ## Cuckoo filter, in memory -/

/-- `CuckooMem.WF`: one bucket per index, every bucket has `bucketSize` slots, and the cached
    `length` of a bucket is its number of non-empty slots.  The last clause is what the buckets'
    `add`/`remove`/eviction maintain as long as no EMPTY fingerprint is inserted or removed;
    `Import` does not read the exported `l` but recounts the non-empty slots.
    Holes in the middle of a bucket (removed entries) are covered. -/
theorem C10_roundtrip_cuckooMem_partial (s t : CuckooMem) (wf : CuckooMem.WF s) :
    CuckooMem.importDoc (CuckooMem.exportDoc s) t = .ok s := CuckooMem.import_export s t wf

/-- identical answers and identical future behaviour (one instance of: equal states) -/
theorem C10_cuckooMem_queries (s t : CuckooMem) (wf : CuckooMem.WF s) :
    ∃ s', CuckooMem.importDoc (CuckooMem.exportDoc s) t = .ok s' ∧ s'.length = s.length ∧
      (∀ fp i1 i2, Cuckoo.lookup (BucketMem.ops "") s' fp i1 i2 = Cuckoo.lookup (BucketMem.ops "") s fp i1 i2) ∧
      (∀ alt fp i1 i2 d side slots,
        Cuckoo.insert (BucketMem.ops "") alt s' fp i1 i2 d side slots =
        Cuckoo.insert (BucketMem.ops "") alt s fp i1 i2 d side slots) ∧
      (∀ fp i1 i2, Cuckoo.remove (BucketMem.ops "") s' fp i1 i2 = Cuckoo.remove (BucketMem.ops "") s fp i1 i2) :=
  ⟨s, C10_roundtrip_cuckooMem_partial s t wf, rfl, fun _ _ _ => rfl, fun _ _ _ _ _ _ _ => rfl,
    fun _ _ _ => rfl⟩

/-- The counter clause of `CuckooMem.WF` / `CuckooRedis.WF` is maintained by the three bucket
    mutators the filters use — `add`, `remove`, and the eviction loop's `set` (which only ever
    runs on a bucket that is not free) — as long as the fingerprint involved is not the empty
    string (`add` refuses it; `remove ""` and `set … ""` are what break the counter). -/
theorem C10_cuckoo_bucket_counters :
    (∀ (b : BucketMem String) (e : String), BucketMemInv b → BucketMemInv (BucketMem.add "" b e)) ∧
    (∀ (b : BucketMem String) (e : String), e ≠ "" → BucketMemInv b → BucketMemInv (BucketMem.remove "" b e)) ∧
    (∀ (b : BucketMem String) (i : Nat) (e : String), e ≠ "" → b.isFree = false →
        BucketMemInv b → BucketMemInv (BucketMem.set b i e)) ∧
    (∀ (b : BucketRedis String) (e : String), BucketRedisInv b → BucketRedisInv (BucketRedis.add "" b e)) ∧
    (∀ (b : BucketRedis String) (e : String), e ≠ "" → BucketRedisInv b → BucketRedisInv (BucketRedis.remove "" b e)) ∧
    (∀ (b : BucketRedis String) (i : Nat) (e : String), e ≠ "" → b.isFree = false →
        BucketRedisInv b → BucketRedisInv (BucketRedis.set b i e)) :=
  ⟨fun _ e h => h.add e, fun _ e he h => h.remove e he, fun _ i e he hf h => h.set_full hf i e he,
   fun _ e h => h.add e, fun _ e he h => h.remove e he, fun _ i e he hf h => h.set_full hf i e he⟩

/-- a state the hypothesis excludes and the code does not restore — the state reached in Go by
    `NewCuckooFilterWithRetries(2, 1, 20, 5)` and `Insert("e0"), Insert("e1"), …` (destructive)
    until the filter is full: with `fingerPrintLength = 20` every element whose 64-bit hash has
    19 decimal digits gets the EMPTY fingerprint (`getPositions` returns an error that every
    caller drops), and the eviction loop writes it into a full bucket with `set`, leaving
    `length = 1` over the slot `""`.  After Export/Import the bucket is free again (`l` is
    recounted): `Equals` is false and the next `Insert` goes elsewhere. -/
theorem C10_cuckooMem_counterexample :
    let s : CuckooMem := ⟨2, 1, 20, 5, [⟨1, [""], 1⟩, ⟨1, ["15172694540135229311"], 1⟩], 4⟩
    ∃ s', CuckooMem.importDoc (CuckooMem.exportDoc s) s = .ok s' ∧ s' ≠ s ∧
      BucketMem.isFree (Cuckoo.bucketAt s.buckets 0) = false ∧
      BucketMem.isFree (Cuckoo.bucketAt s'.buckets 0) = true := by
  refine ⟨⟨2, 1, 20, 5, [⟨1, [""], 0⟩, ⟨1, ["15172694540135229311"], 1⟩], 4⟩, ?_, ?_, ?_, ?_⟩ <;> decide

/-- non-vacuity: holes in the middle, a full bucket, an empty bucket -/
example :
    let s : CuckooMem := ⟨3, 3, 2, 500, [⟨3, ["17", "", "42"], 2⟩, ⟨3, ["", "", ""], 0⟩, ⟨3, ["10", "11", "12"], 3⟩], 5⟩
    CuckooMem.WF s ∧ CuckooMem.importDoc (CuckooMem.exportDoc s) (Cuckoo.mk 1 1 1 1 [] 9) = .ok s := by
  intro s
  have wf : CuckooMem.WF s := ⟨by decide, by decide⟩
  exact ⟨wf, C10_roundtrip_cuckooMem_partial s _ wf⟩

/-! ## Count-Min sketch, in memory -/

theorem C10_roundtrip_cmsMem (s t : CMSMem) : CMSMem.importDoc s.exportDoc t = s := rfl

theorem C10_cmsMem_queries (s t : CMSMem) :
    (∀ pos, (CMSMem.importDoc s.exportDoc t).core.count pos = s.core.count pos) ∧
    (∀ pos c, (CMSMem.importDoc s.exportDoc t).core.update pos c = s.core.update pos c) ∧
    CMS.equals (CMSMem.importDoc s.exportDoc t).core s.core = true := by
  refine ⟨fun _ => rfl, fun _ _ => rfl, ?_⟩
  simp [C10_roundtrip_cmsMem, CMS.equals]

/-- non-vacuity, single-column sketch included -/
example :
    CMSMem.importDoc (CMSMem.exportDoc ⟨⟨2, 3, [[1, 0, 4], [0, 5, 0]]⟩, 5⟩) ⟨⟨1, 1, [[9]]⟩, 9⟩
      = ⟨⟨2, 3, [[1, 0, 4], [0, 5, 0]]⟩, 5⟩ ∧
    CMSMem.importDoc (CMSMem.exportDoc ⟨⟨3, 1, [[7], [7], [7]]⟩, 7⟩) ⟨⟨1, 1, [[9]]⟩, 9⟩
      = ⟨⟨3, 1, [[7], [7], [7]]⟩, 7⟩ := by decide

/-! ## HyperLogLog, in memory -/

theorem C10_roundtrip_hllMem (s t : HLLMem) : HLLMem.importDoc s.exportDoc t = s := rfl

theorem C10_hllMem_queries (s t : HLLMem) :
    (HLLMem.importDoc s.exportDoc t).core.regs = s.core.regs ∧
    HLL.equals (HLLMem.importDoc s.exportDoc t).core s.core = true ∧
    (∀ idx v, (HLLMem.importDoc s.exportDoc t).core.update idx v = s.core.update idx v) := by
  refine ⟨rfl, ?_, fun _ _ => rfl⟩
  simp [C10_roundtrip_hllMem, HLL.equals]

example :
    HLLMem.importDoc (HLLMem.exportDoc ⟨⟨4, [0, 17, 3, 255]⟩, 2, 4604418534313441775⟩) ⟨⟨16, List.replicate 16 0⟩, 4, 1⟩
      = ⟨⟨4, [0, 17, 3, 255]⟩, 2, 4604418534313441775⟩ := by decide

/-! ## Cuckoo filter, Redis -/

/-- Import under new names `nk` (filter key) and `nmk` (metadata key), `nk` fresh: the handle is
    the exporter's up to the two names, and its view — parameters, every bucket's list (holes
    included, positions preserved by `RPUSH` in exported order) and `_len` counter, and
    `Length()` — is the exporter's view.
    `CuckooRedis.WF`: every `_len` counter equals the number of non-empty list entries (Import
    recounts instead of using the exported `l`), see `C10_cuckooRedis_counterexample`. -/
theorem C10_roundtrip_cuckooRedis_partial (h t : CuckooRedis) (st : Store) (nk nmk : Nat)
    (wf : CuckooRedis.WF h st) (fresh : Fresh st nk) (hne : nk ≠ nmk) :
    let r := CuckooRedis.importDoc (h.exportDoc st) nk nmk t st
    r.1 = { h with key := nk, metadataKey := nmk } ∧ r.1.view r.2 = h.view st := by
  intro r
  have hh := CuckooRedis.import_export_handle h t st nk nmk wf.nb
  obtain ⟨h1, h2, h3⟩ := CuckooRedis.import_export_store h t st nk nmk fresh hne
  refine ⟨hh, ?_⟩
  show (CuckooRedis.importDoc (h.exportDoc st) nk nmk t st).1.view
      (CuckooRedis.importDoc (h.exportDoc st) nk nmk t st).2 = h.view st
  rw [hh]
  simp only [CuckooRedis.view, h3]
  congr 1
  apply List.map_congr_left
  intro i hi
  simp only [List.mem_range] at hi
  simp only [CuckooRedis.bucketView, h1 i hi, h2 i hi, wf.len i hi]

theorem C10_cuckooRedis_queries (h t : CuckooRedis) (st : Store) (nk nmk : Nat)
    (wf : CuckooRedis.WF h st) (fresh : Fresh st nk) (hne : nk ≠ nmk) :
    let r := CuckooRedis.importDoc (h.exportDoc st) nk nmk t st
    (r.1.view r.2).length = (h.view st).length ∧
    (∀ fp i1 i2, Cuckoo.lookup (BucketRedis.ops "") (r.1.view r.2) fp i1 i2
        = Cuckoo.lookup (BucketRedis.ops "") (h.view st) fp i1 i2) ∧
    (∀ alt fp i1 i2 d side slots,
        Cuckoo.insert (BucketRedis.ops "") alt (r.1.view r.2) fp i1 i2 d side slots =
        Cuckoo.insert (BucketRedis.ops "") alt (h.view st) fp i1 i2 d side slots) := by
  intro r
  have := (C10_roundtrip_cuckooRedis_partial h t st nk nmk wf fresh hne).2
  simp only [r, this]
  exact ⟨trivial, fun _ _ _ => trivial, fun _ _ _ _ _ _ _ => trivial⟩

/-- every key not derived from the two new names keeps its value: the exporter's lists,
    counters, bucket-key list and metadata hash are untouched -/
theorem C10_redis_original_untouched_cuckoo (d : CuckooDoc) (t : CuckooRedis) (st : Store) (nk nmk : Nat) :
    ∀ k : Key, k.id ≠ nk → k.id ≠ nmk → (CuckooRedis.importDoc d nk nmk t st).2 k = st k := by
  intro k h1 h2
  exact CuckooRedis.import_frame d nk nmk t st k (fun h => h.elim h1 h2)

/-- concrete store: filter 0 (metadata 1) with two buckets of size 3, one with a hole -/
def cuckooStore0 : Store := fun k =>
  if k = .rand 1 then .hash [("size", 2), ("bucketSize", 3), ("fingerPrintLength", 2), ("retries", 500), ("key", 0), ("length", 3)]
  else if k = .rand 0 then .keys [.cuckooBucket 0 1, .cuckooBucket 0 0]
  else if k = .cuckooBucket 0 0 then .strs ["17", "", "42"]
  else if k = .cuckooBucketLen 0 0 then .int 2
  else if k = .cuckooBucket 0 1 then .strs ["99"]
  else if k = .cuckooBucketLen 0 1 then .int 1
  else .absent

theorem cuckooStore0_fresh (id : Nat) (h0 : id ≠ 0) (h1 : id ≠ 1) : Fresh cuckooStore0 id := by
  intro k hk
  cases k <;> simp_all [cuckooStore0, Key.id]

/-- non-vacuity: a bucket with a hole in the middle, a partially filled list, imported under
    the new names 7, 8 over an unrelated instance -/
example :
    let h : CuckooRedis := ⟨2, 3, 2, 500, 0, 1, 2⟩
    let t : CuckooRedis := ⟨5, 1, 1, 1, 3, 4, 5⟩
    let r := CuckooRedis.importDoc (h.exportDoc cuckooStore0) 7 8 t cuckooStore0
    CuckooRedis.WF h cuckooStore0 ∧ r.1 = ⟨2, 3, 2, 500, 7, 8, 2⟩ ∧
    r.1.view r.2 = ⟨2, 3, 2, 500, [⟨3, ["17", "", "42"], 2⟩, ⟨3, ["99"], 1⟩], 3⟩ := by
  intro h t r
  have wf : CuckooRedis.WF h cuckooStore0 := ⟨rfl, by decide⟩
  have := C10_roundtrip_cuckooRedis_partial h t cuckooStore0 7 8 wf
    (cuckooStore0_fresh 7 (by decide) (by decide)) (by decide)
  refine ⟨wf, this.1, this.2.trans ?_⟩
  decide

/-- the excluded state (counter says 1, the only list entry is the empty string): the imported
    bucket's counter is 0, so `isFree` flips -/
theorem C10_cuckooRedis_counterexample :
    let st : Store := fun k =>
      if k = .rand 1 then .hash [("length", 1)]
      else if k = .cuckooBucket 0 0 then .strs [""]
      else if k = .cuckooBucketLen 0 0 then .int 1 else .absent
    let h : CuckooRedis := ⟨1, 1, 20, 500, 0, 1, 1⟩
    let r := CuckooRedis.importDoc (h.exportDoc st) 7 8 h st
    r.1.view r.2 ≠ h.view st ∧
    BucketRedis.isFree (Cuckoo.bucketAt (h.view st).buckets 0) = false ∧
    BucketRedis.isFree (Cuckoo.bucketAt (r.1.view r.2).buckets 0) = true := by
  decide

/-! ## Count-Min sketch, Redis -/

/-- Import under a new key `nk` (any number of columns ≥ 1, single-column sketches included —
    `setMatrix` computes `rows = (#ARGV - 1) / columns`): returns nil, same parameters and
    `allSum`, same matrix under the new row keys; only row keys of `nk` are written.
    (No freshness needed: `setMatrix` deletes each row key before pushing.) -/
theorem C10_roundtrip_cmsRedis (h t : CMSRedis) (st : Store) (nk : Nat)
    (wf : CMSRedis.WF h st) :
    ∃ st', CMSRedis.importDoc (h.exportDoc st) nk t st
        = .ok ({ h with key := nk, metadataKey := t.metadataKey }, st') ∧
      CMSRedis.view { h with key := nk, metadataKey := t.metadataKey } st' = h.view st ∧
      ∀ k : Key, k.id ≠ nk → st' k = st k := by
  obtain ⟨hm, hlen, hrow⟩ := CMSRedis.matrix_wf h st wf
  obtain ⟨S, hS, hget, hfr⟩ := CMSRedis.setMatrix_spec st nk (h.matrix st) h.cols hm wf.cols_pos hrow
  refine ⟨S, ?_, ?_, ?_⟩
  · simp only [CMSRedis.importDoc, CMSRedis.exportDoc, hS]
  · simp only [CMSRedis.view, CMSRedis.matrix]
    rw [CMSRedis.matrix_of_rows S nk (h.matrix st) h.rows hlen hget]
    rfl
  · intro k hk
    exact hfr k (fun ⟨j, e⟩ => hk (e ▸ rfl))

/-- a 3×1 sketch under key 0 -/
def cmsStore1 : Store := fun k =>
  if k = .cmsRow 0 0 then .nums [3] else if k = .cmsRow 0 1 then .nums [5]
  else if k = .cmsRow 0 2 then .nums [8] else .absent

/-- SINGLE-COLUMN sketch (3×1) round-trips, by evaluation: Import under the new key 7 returns
    nil and the three rows are there -/
example :
    (match CMSRedis.importDoc (CMSRedis.exportDoc ⟨3, 1, 8, 0, 1⟩ cmsStore1) 7 ⟨4, 4, 0, 2, 3⟩ cmsStore1 with
      | .ok (h, st) => h == ⟨3, 1, 8, 7, 3⟩ && st (.cmsRow 7 0) == .nums [3] &&
          st (.cmsRow 7 1) == .nums [5] && st (.cmsRow 7 2) == .nums [8] &&
          st (.cmsRow 7 3) == .absent && st (.cmsRow 0 1) == .nums [5]
      | _ => false) = true := by decide

/-- … and so do two columns -/
example :
    (match CMSRedis.importDoc ⟨2, 2, 8, [[3, 0], [0, 5]], some 0⟩ 7 ⟨4, 4, 0, 2, 3⟩ cmsStore1 with
      | .ok (h, st) => h == ⟨2, 2, 8, 7, 3⟩ && st (.cmsRow 7 0) == .nums [3, 0] && st (.cmsRow 7 1) == .nums [0, 5]
      | _ => false) = true := by decide

theorem C10_cmsRedis_queries (h t : CMSRedis) (st : Store) (nk : Nat)
    (wf : CMSRedis.WF h st) :
    ∃ h' st', CMSRedis.importDoc (h.exportDoc st) nk t st = .ok (h', st') ∧
      (∀ pos, (h'.view st').core.count pos = (h.view st).core.count pos) ∧
      (∀ pos c, (h'.view st').core.update pos c = (h.view st).core.update pos c) ∧
      CMS.equals (h'.view st').core (h.view st).core = true := by
  obtain ⟨st', h1, h2, _⟩ := C10_roundtrip_cmsRedis h t st nk wf
  refine ⟨_, st', h1, ?_, ?_, ?_⟩ <;> simp only [h2]
  · intro _; trivial
  · intro _ _; trivial
  · simp [CMS.equals]

def cmsStore0 : Store := fun k =>
  if k = .cmsRow 0 0 then .nums [1, 0, 4] else if k = .cmsRow 0 1 then .nums [0, 5, 0] else .absent

/-- non-vacuity: a 2×3 sketch and the 3×1 sketch, through the theorem -/
example :
    let h : CMSRedis := ⟨2, 3, 5, 0, 1⟩
    let h1 : CMSRedis := ⟨3, 1, 8, 0, 1⟩
    CMSRedis.WF h cmsStore0 ∧ h.view cmsStore0 = ⟨⟨2, 3, [[1, 0, 4], [0, 5, 0]]⟩, 5⟩ ∧
    (∃ st', CMSRedis.importDoc (h.exportDoc cmsStore0) 7 ⟨9, 9, 9, 2, 3⟩ cmsStore0 = .ok (⟨2, 3, 5, 7, 3⟩, st') ∧
      CMSRedis.view ⟨2, 3, 5, 7, 3⟩ st' = ⟨⟨2, 3, [[1, 0, 4], [0, 5, 0]]⟩, 5⟩) ∧
    CMSRedis.WF h1 cmsStore1 ∧
    (∃ st', CMSRedis.importDoc (h1.exportDoc cmsStore1) 7 ⟨9, 9, 9, 2, 3⟩ cmsStore1 = .ok (⟨3, 1, 8, 7, 3⟩, st') ∧
      CMSRedis.view ⟨3, 1, 8, 7, 3⟩ st' = ⟨⟨3, 1, [[3], [5], [8]]⟩, 8⟩) := by
  intro h h1
  have wf : CMSRedis.WF h cmsStore0 := ⟨by decide, by decide, by decide⟩
  have hv : h.view cmsStore0 = ⟨⟨2, 3, [[1, 0, 4], [0, 5, 0]]⟩, 5⟩ := by decide
  have wf1 : CMSRedis.WF h1 cmsStore1 := ⟨by decide, by decide, by decide⟩
  have hv1 : h1.view cmsStore1 = ⟨⟨3, 1, [[3], [5], [8]]⟩, 8⟩ := by decide
  obtain ⟨st', a1, a2, _⟩ := C10_roundtrip_cmsRedis h ⟨9, 9, 9, 2, 3⟩ cmsStore0 7 wf
  obtain ⟨st1', b1, b2, _⟩ := C10_roundtrip_cmsRedis h1 ⟨9, 9, 9, 2, 3⟩ cmsStore1 7 wf1
  exact ⟨wf, hv, ⟨st', a1, a2.trans hv⟩, wf1, ⟨st1', b1, b2.trans hv1⟩⟩

/-! ## HyperLogLog, Redis -/

/-- the register list holds `m ≥ 1` byte values -/
structure HLLRedis.WF (h : HLLRedis) (st : Store) : Prop where
  m_pos : 0 < h.m
  len : (st.getNums (.rand h.key)).length = h.m
  byte : ∀ r ∈ st.getNums (.rand h.key), r < 256

/-- Import under a new, fresh key `nk` (`importRegisters` RPUSHes onto the key without
    deleting it, so freshness matters), for sketches whose register count does not exceed what
    Lua's `unpack` can return at once (`limit`): same parameters, same registers; only `nk` is
    written. -/
theorem C10_roundtrip_hllRedis_partial (limit : Nat) (h t : HLLRedis) (st : Store) (nk : Nat)
    (wf : HLLRedis.WF h st) (fresh : Fresh st nk) (hlim : h.m ≤ limit) :
    ∃ st', HLLRedis.importDoc limit (h.exportDoc st) nk t st
        = .ok ({ h with key := nk, metadataKey := t.metadataKey }, st') ∧
      HLLRedis.view { h with key := nk, metadataKey := t.metadataKey } st' = h.view st ∧
      ∀ k : Key, k ≠ .rand nk → st' k = st k := by
  have e1 : ((st.getNums (.rand h.key)).take h.m).map (· % 256) = st.getNums (.rand h.key) := by
    rw [List.take_of_length_le (by rw [wf.len]; exact Nat.le_refl _)]
    conv => rhs; rw [← List.map_id (st.getNums (.rand h.key))]
    apply List.map_congr_left
    intro r hr
    exact Nat.mod_eq_of_lt (wf.byte r hr)
  have e2 : ¬ (st.getNums (.rand h.key) = [] ∨ limit < (st.getNums (.rand h.key)).length) := by
    rw [wf.len]
    intro e
    rcases e with e | e
    · have := wf.len
      rw [e] at this
      have := wf.m_pos
      simp at *; omega
    · omega
  refine ⟨st.rpushNums (.rand nk) (st.getNums (.rand h.key)), ?_, ?_, ?_⟩
  · simp only [HLLRedis.importDoc, HLLRedis.exportDoc, HLLRedis.importRegisters, e1, e2, if_false]
  · simp only [HLLRedis.view, Store.rpushNums, Store.getNums, Store.set_same, fresh (.rand nk) rfl,
      Val.toNums, List.nil_append]
  · intro k hk
    exact Store.set_other _ _ hk

/-- more registers than `unpack` can return (8192 registers against the 8000 of Redis' Lua):
    `Import` returns an error and the new key holds NO registers — the imported sketch is not
    the exported one (and every later `Update`/`Count`/`Equals` on it fails). -/
theorem C10_hllRedis_unpack_counterexample (limit : Nat) (h t : HLLRedis) (st : Store) (nk : Nat)
    (wf : HLLRedis.WF h st) (fresh : Fresh st nk) (hlim : limit < h.m) :
    HLLRedis.importDoc limit (h.exportDoc st) nk t st
        = .err ({ h with key := nk, metadataKey := t.metadataKey }, st) ∧
      (HLLRedis.view { h with key := nk, metadataKey := t.metadataKey } st).core.regs = [] ∧
      HLLRedis.view { h with key := nk, metadataKey := t.metadataKey } st ≠ h.view st := by
  have e1 : (((st.getNums (.rand h.key)).take h.m).map (· % 256)).length = h.m := by
    simp [wf.len]
  have hr : (HLLRedis.view { h with key := nk, metadataKey := t.metadataKey } st).core.regs = [] := by
    simp [HLLRedis.view, Store.getNums, fresh (.rand nk) rfl, Val.toNums]
  refine ⟨?_, hr, ?_⟩
  · simp only [HLLRedis.importDoc, HLLRedis.exportDoc, HLLRedis.importRegisters, e1, hlim, or_true, if_true]
  · intro e
    have := congrArg (fun v => v.core.regs.length) e
    simp only [hr] at this
    simp only [HLLRedis.view, wf.len, List.length_nil] at this
    have := wf.m_pos
    omega

theorem C10_hllRedis_queries (limit : Nat) (h t : HLLRedis) (st : Store) (nk : Nat)
    (wf : HLLRedis.WF h st) (fresh : Fresh st nk) (hlim : h.m ≤ limit) :
    ∃ h' st', HLLRedis.importDoc limit (h.exportDoc st) nk t st = .ok (h', st') ∧
      (h'.view st').core.regs = (h.view st).core.regs ∧
      HLL.equals (h'.view st').core (h.view st).core = true ∧
      (∀ idx v, (h'.view st').core.update idx v = (h.view st).core.update idx v) := by
  obtain ⟨st', h1, h2, _⟩ := C10_roundtrip_hllRedis_partial limit h t st nk wf fresh hlim
  refine ⟨_, st', h1, ?_, ?_, ?_⟩ <;> simp only [h2]
  · simp [HLL.equals]
  · intro _ _; trivial

example :
    let st : Store := fun k => if k = .rand 0 then .nums [0, 17, 3, 255] else .absent
    let h : HLLRedis := ⟨4, 2, 4604418534313441775, 0, 1⟩
    HLLRedis.WF h st ∧
    ∃ st', HLLRedis.importDoc 8000 (h.exportDoc st) 7 ⟨16, 4, 1, 2, 3⟩ st = .ok (⟨4, 2, 4604418534313441775, 7, 3⟩, st') ∧
      st'.getNums (.rand 7) = [0, 17, 3, 255] ∧ st' (.rand 0) = st (.rand 0) := by
  intro st h
  have wf : HLLRedis.WF h st := ⟨by decide, by decide, by decide⟩
  have fr : Fresh st 7 := by
    intro k hk; cases k <;> simp_all [st, Key.id]
  obtain ⟨st', h1, h2, h3⟩ := C10_roundtrip_hllRedis_partial 8000 h ⟨16, 4, 1, 2, 3⟩ st 7 wf fr (by decide)
  refine ⟨wf, st', h1, ?_, h3 _ (by decide)⟩
  have := congrArg (fun v => v.core.regs) h2
  have e : st.getNums (.rand h.key) = [0, 17, 3, 255] := by decide
  simpa [HLLRedis.view, e] using this

/-! ## Top-K, in memory -/

theorem map_fix_id {N : Type} (utf8fix : N → N) (l : List (N × Nat))
    (h : ∀ e ∈ l, utf8fix e.1 = e.1) : l.map (fun e => (utf8fix e.1, e.2)) = l := by
  conv => rhs; rw [← List.map_id l]
  apply List.map_congr_left
  intro e he
  rw [h e he]; rfl

/-- The Top-K round trip needs every tracked element name to be fixed by the UTF-8 coercion of
    `json.Marshal` (i.e. to be valid UTF-8); the sketch dimensions are positive by construction.
    Then the state is reproduced exactly: k, errorRate, accuracy, the sketch (allSum, matrix) and
    the heap slice in the same order — partially filled heaps and heaps after evictions alike. -/
theorem C10_topk_utf8_partial {N : Type} (utf8fix : N → N) (s t : TopKMem N)
    (hr : 0 < s.sketch.core.rows) (hc : 0 < s.sketch.core.cols)
    (hfix : ∀ e ∈ s.heap, utf8fix e.1 = e.1) :
    TopKMem.importDoc (s.exportDoc.jsonTrip utf8fix) t = .ok s := by
  have h1 : ¬ (s.sketch.core.rows = 0 ∨ s.sketch.core.cols = 0) := by omega
  simp only [TopKMem.importDoc, TopKDoc.jsonTrip, TopKMem.exportDoc, CMSMem.exportDoc, h1, if_false,
    map_fix_id utf8fix s.heap hfix]

theorem C10_roundtrip_topkMem_partial {N : Type} (utf8fix : N → N) (s t : TopKMem N)
    (hr : 0 < s.sketch.core.rows) (hc : 0 < s.sketch.core.cols)
    (hfix : ∀ e ∈ s.heap, utf8fix e.1 = e.1) :
    TopKMem.importDoc (s.exportDoc.jsonTrip utf8fix) t = .ok s :=
  C10_topk_utf8_partial utf8fix s t hr hc hfix

/-- a name that the coercion changes (invalid UTF-8) comes back different: the imported heap is
    not the exported one (here: a partially filled heap, 1 entry of k = 3). -/
theorem C10_topk_utf8_counterexample {N : Type} (utf8fix : N → N) (x : N) (hx : utf8fix x ≠ x) :
    let s : TopKMem N := ⟨3, 0, 0, ⟨⟨1, 1, [[1]]⟩, 1⟩, [(x, 1)]⟩
    ∃ s', TopKMem.importDoc (s.exportDoc.jsonTrip utf8fix) s = .ok s' ∧
      s'.heap = [(utf8fix x, 1)] ∧ s'.heap ≠ s.heap := by
  refine ⟨⟨3, 0, 0, ⟨⟨1, 1, [[1]]⟩, 1⟩, [(utf8fix x, 1)]⟩, ?_, rfl, ?_⟩
  · simp [TopKMem.importDoc, TopKDoc.jsonTrip, TopKMem.exportDoc, CMSMem.exportDoc]
  · simp [hx]

/-- two different names with the same coerced form end up as two heap entries with the SAME
    name (in memory) -/
theorem C10_topk_utf8_collision {N : Type} (utf8fix : N → N) (x y : N) (hxy : utf8fix x = utf8fix y) :
    let s : TopKMem N := ⟨3, 0, 0, ⟨⟨1, 1, [[3]]⟩, 3⟩, [(x, 1), (y, 2)]⟩
    ∃ s', TopKMem.importDoc (s.exportDoc.jsonTrip utf8fix) s = .ok s' ∧
      s'.heap = [(utf8fix y, 1), (utf8fix y, 2)] := by
  refine ⟨⟨3, 0, 0, ⟨⟨1, 1, [[3]]⟩, 3⟩, [(utf8fix y, 1), (utf8fix y, 2)]⟩, ?_, rfl⟩
  simp [TopKMem.importDoc, TopKDoc.jsonTrip, TopKMem.exportDoc, CMSMem.exportDoc, hxy]

/-- with `String` names: `Values()` and every further `Insert` of Model/TopK.lean agree -/
theorem C10_topkMem_queries (utf8fix : String → String) (s t : TopKMem String)
    (hr : 0 < s.sketch.core.rows) (hc : 0 < s.sketch.core.cols)
    (hfix : ∀ e ∈ s.heap, utf8fix e.1 = e.1) :
    ∃ s', TopKMem.importDoc (s.exportDoc.jsonTrip utf8fix) t = .ok s' ∧
      TopK.values s'.heap = TopK.values s.heap ∧
      (∀ x pos, s'.toModel.sketch.count pos = s.toModel.sketch.count pos ∧
        ∀ c, s'.toModel.insert x pos c = s.toModel.insert x pos c) :=
  ⟨s, C10_topk_utf8_partial utf8fix s t hr hc hfix, rfl, fun _ _ => ⟨rfl, fun _ => rfl⟩⟩

/-- non-vacuity: a full heap (k = 2, "b" was evicted earlier) and a partially filled one
    (1 of 3), single-column sketch; the coercion fixes ASCII names -/
example (utf8fix : String → String) (hascii : ∀ s ∈ ["a", "c", "zz"], utf8fix s = s) :
    let s1 : TopKMem String := ⟨2, 1, 2, ⟨⟨2, 2, [[5, 1], [2, 4]]⟩, 6⟩, [("a", 2), ("c", 4)]⟩
    let s2 : TopKMem String := ⟨3, 1, 2, ⟨⟨2, 1, [[7], [7]]⟩, 7⟩, [("zz", 7)]⟩
    TopKMem.importDoc (s1.exportDoc.jsonTrip utf8fix) s2 = .ok s1 ∧
    TopKMem.importDoc (s2.exportDoc.jsonTrip utf8fix) s1 = .ok s2 := by
  intro s1 s2
  refine ⟨C10_topk_utf8_partial utf8fix s1 s2 (by decide) (by decide) ?_,
    C10_topk_utf8_partial utf8fix s2 s1 (by decide) (by decide) ?_⟩
  · intro e he
    simp only [s1, List.mem_cons, List.not_mem_nil, or_false] at he
    rcases he with rfl | rfl <;> exact hascii _ (by simp)
  · intro e he
    simp only [s2, List.mem_cons, List.not_mem_nil, or_false] at he
    rcases he with rfl
    exact hascii _ (by simp)

/-! ## Top-K, Redis -/

/-- the sketch is well formed; the sorted set is in `ZRANGE` order with pairwise different
    member names (what a Redis sorted set is) -/
structure TopKRedis.WF {N : Type} (ltN : N → N → Bool) (h : TopKRedis) (st : Store) (z : ZStore N) : Prop where
  sketch : CMSRedis.WF h.sketch st
  sorted : ZSorted ltN (z h.heapKey)
  nodup : ((z h.heapKey).map (·.1)).Nodup

/-- Import under new names (`nhk` heap key with no sorted set yet, `nsk`/`nsmk` for the new
    sketch), whatever order the Go runtime ranges over `frequencyMap` in (`iter`), element names
    fixed by the UTF-8 coercion: returns nil; same k / errorRate / accuracy; same sketch
    (allSum, matrix; `setMatrix`'s result is dropped by `TopKRedis.Import`, which no longer matters
    now that `setMatrix` succeeds for every column count); the same
    sorted set (members and scores, hence the same `Values()`); only keys of the new names are
    written. -/
theorem C10_roundtrip_topkRedis_partial {N : Type} [DecidableEq N] {ltN : N → N → Bool}
    (H : StrictTotal ltN) (utf8fix : N → N) (iter : List (N × Nat) → List (N × Nat))
    (hiter : ∀ m, (iter m).Perm m)
    (h t : TopKRedis) (st : Store) (z : ZStore N) (nhk nsk nsmk : Nat)
    (wf : TopKRedis.WF ltN h st z) (hfix : ∀ e ∈ z h.heapKey, utf8fix e.1 = e.1)
    (fresh : z nhk = []) :
    let h' : TopKRedis := { h with heapKey := nhk, metadataKey := t.metadataKey,
                                   sketch := { h.sketch with key := nsk, metadataKey := nsmk } }
    ∃ st' z', TopKRedis.importDoc ltN iter ((h.exportDoc st z).jsonTrip utf8fix) nhk nsk nsmk t st z
        = .ok (h', st', z') ∧
      (h'.view st' z' : TopKView N) = h.view st z ∧
      (∀ k : Key, k.id ≠ nsk → k.id ≠ nsmk → st' k = st k) ∧
      (∀ k, k ≠ nhk → z' k = z k) := by
  intro h'
  obtain ⟨hm, hlen, hrow⟩ := CMSRedis.matrix_wf h.sketch st wf.sketch
  -- the sketch part
  let st1 := st.hset (.rand nsmk) [("rows", h.sketch.rows), ("columns", h.sketch.cols), ("key", nsk)]
  let st2 := CMSRedis.initMatrix st1 nsk h.sketch.rows h.sketch.cols
  obtain ⟨S, hS, hget, hfr⟩ :=
    CMSRedis.setMatrix_spec st2 nsk (h.sketch.matrix st) h.sketch.cols hm wf.sketch.cols_pos hrow
  -- the heap part
  have hheap : importHeap ltN (z nhk) (iter (freqMap ((z h.heapKey).map (fun e => (utf8fix e.1, e.2)))))
      = z h.heapKey := by
    rw [map_fix_id utf8fix _ hfix, freqMap_nodup _ wf.nodup, fresh]
    exact importHeap_roundtrip H _ _ wf.sorted wf.nodup (hiter _)
  have hrc : ¬ (h.sketch.rows = 0 ∨ h.sketch.cols = 0) := by
    have := wf.sketch.rows_pos; have := wf.sketch.cols_pos; omega
  refine ⟨S, z.set nhk (z h.heapKey), ?_, ?_, ?_, ?_⟩
  · simp only [TopKRedis.importDoc, TopKDoc.jsonTrip, TopKRedis.exportDoc, CMSRedis.exportDoc,
      TopKRedis.newSketch, hrc, if_false, hheap]
    rw [show CMSRedis.setMatrix (CMSRedis.initMatrix (st.hset (.rand nsmk)
          [("rows", h.sketch.rows), ("columns", h.sketch.cols), ("key", nsk)]) nsk h.sketch.rows
          h.sketch.cols) nsk (h.sketch.matrix st) = some (S, true) from hS]
  · simp only [TopKRedis.view, h', CMSRedis.view, CMSRedis.matrix, ZStore.set, if_true]
    rw [CMSRedis.matrix_of_rows S nsk (h.sketch.matrix st) h.sketch.rows hlen hget]
    rfl
  · intro k h1 h2
    rw [hfr k (fun ⟨j, e⟩ => h1 (e ▸ rfl))]
    have f2 : Frame (fun k => ∃ j, k = .cmsRow nsk j) st1 st2 :=
      Frame.forN _ (fun _ i _ => Frame.trans (Frame.set _ ⟨i, rfl⟩) (Frame.set _ ⟨i, rfl⟩)) _
    rw [f2 k (fun ⟨j, e⟩ => h1 (e ▸ rfl))]
    exact Store.set_other _ _ (fun e => h2 (e ▸ rfl))
  · intro k hk
    simp [ZStore.set, hk]

/-- invalid UTF-8 in a tracked name: the imported sorted set differs from the exported one -/
theorem C10_topkRedis_utf8_counterexample {N : Type} [DecidableEq N] (ltN : N → N → Bool)
    (utf8fix : N → N) (x : N) (hx : utf8fix x ≠ x) (iter : List (N × Nat) → List (N × Nat))
    (hiter : ∀ m, (iter m).Perm m) :
    let st : Store := fun k => if k = .cmsRow 0 0 then .nums [1, 0] else .absent
    let z : ZStore N := fun k => if k = 2 then [(x, 1)] else []
    let h : TopKRedis := ⟨3, 0, 0, ⟨1, 2, 1, 0, 1⟩, 2, 3⟩
    ∃ h' st' z', TopKRedis.importDoc ltN iter ((h.exportDoc st z).jsonTrip utf8fix) 7 8 9 h st z
        = .ok (h', st', z') ∧
      (h'.view st' z' : TopKView N).zset = [(utf8fix x, 1)] ∧
      (h'.view st' z' : TopKView N).zset ≠ (h.view st z : TopKView N).zset := by
  intro st z h
  have hp := hiter [(utf8fix x, 1)]
  have hi : iter [(utf8fix x, 1)] = [(utf8fix x, 1)] := List.perm_singleton.1 hp
  have hm : CMSRedis.matrix ⟨1, 2, 1, 0, 1⟩ st = [[1, 0]] := by decide
  obtain ⟨S, hS, _, _⟩ := CMSRedis.setMatrix_spec
    (CMSRedis.initMatrix (st.hset (.rand 9) [("rows", 1), ("columns", 2), ("key", 8)]) 8 1 2) 8
    [[1, 0]] 2 (by simp) (by decide) (by simp)
  refine ⟨⟨3, 0, 0, ⟨1, 2, 1, 8, 9⟩, 7, 3⟩, S, (z.set 7 [(utf8fix x, 1)]), ?_, ?_, ?_⟩
  · simp only [TopKRedis.importDoc, TopKDoc.jsonTrip, TopKRedis.exportDoc, CMSRedis.exportDoc,
      TopKRedis.newSketch, h, hm]
    simp [hS, z, freqMap, hi, importHeap, zadd, insertSorted]
  · simp [TopKRedis.view, ZStore.set]
  · simp [TopKRedis.view, ZStore.set, z, h, hx]

/-- with `String` names and the bytewise order the sorted set is the one of Model/TopK.lean:
    `Values()` and the heap part of every further `Insert` agree -/
theorem C10_topkRedis_queries (utf8fix : String → String)
    (iter : List (String × Nat) → List (String × Nat)) (hiter : ∀ m, (iter m).Perm m)
    (h t : TopKRedis) (st : Store) (z : ZStore String) (nhk nsk nsmk : Nat)
    (wf : TopKRedis.WF strLt h st z) (hfix : ∀ e ∈ z h.heapKey, utf8fix e.1 = e.1)
    (fresh : z nhk = []) :
    ∃ h' st' z', TopKRedis.importDoc strLt iter ((h.exportDoc st z).jsonTrip utf8fix) nhk nsk nsmk t st z
        = .ok (h', st', z') ∧
      h'.k = h.k ∧
      TopK.values (h'.view st' z').zset = TopK.values (h.view st z).zset ∧
      (∀ pos, (h'.view st' z').sketch.core.count pos = (h.view st z).sketch.core.count pos) ∧
      (∀ x f, TopK.offerRedis h'.k (h'.view st' z').zset x f = TopK.offerRedis h.k (h.view st z).zset x f) := by
  obtain ⟨st', z', h1, h2, _, _⟩ := C10_roundtrip_topkRedis_partial strLt_strictTotal utf8fix iter hiter
    h t st z nhk nsk nsmk wf hfix fresh
  refine ⟨_, st', z', h1, rfl, ?_, ?_, ?_⟩ <;> simp only [h2]
  · intro _; trivial
  · intro _ _; trivial

/-- the exporter's sketch rows, metadata and sorted set are untouched by an import under new names -/
theorem C10_redis_original_untouched_topk {N : Type} [DecidableEq N] {ltN : N → N → Bool}
    (H : StrictTotal ltN) (utf8fix : N → N) (iter : List (N × Nat) → List (N × Nat))
    (hiter : ∀ m, (iter m).Perm m)
    (h t : TopKRedis) (st : Store) (z : ZStore N) (nhk nsk nsmk : Nat)
    (wf : TopKRedis.WF ltN h st z) (hfix : ∀ e ∈ z h.heapKey, utf8fix e.1 = e.1)
    (fresh : z nhk = []) :
    ∃ h' st' z', TopKRedis.importDoc ltN iter ((h.exportDoc st z).jsonTrip utf8fix) nhk nsk nsmk t st z
        = .ok (h', st', z') ∧
      (∀ k : Key, k.id ≠ nsk → k.id ≠ nsmk → st' k = st k) ∧ (∀ k, k ≠ nhk → z' k = z k) := by
  obtain ⟨st', z', h1, _, h3, h4⟩ := C10_roundtrip_topkRedis_partial H utf8fix iter hiter h t st z
    nhk nsk nsmk wf hfix fresh
  exact ⟨_, st', z', h1, h3, h4⟩

/-- non-vacuity: SINGLE-COLUMN sketch (2×1), partially filled sorted set (2 of k = 3), the map
    ranged over in reverse order; imported under the new names 7, 8, 9 -/
example (utf8fix : String → String) (hascii : ∀ s ∈ ["a", "c"], utf8fix s = s) :
    let z : ZStore String := fun k => if k = 2 then [("a", 2), ("c", 4)] else []
    let h : TopKRedis := ⟨3, 1, 2, ⟨2, 1, 8, 0, 1⟩, 2, 3⟩
    TopKRedis.WF strLt h cmsStore1 z ∧
    ∃ st' z', TopKRedis.importDoc strLt List.reverse ((h.exportDoc cmsStore1 z).jsonTrip utf8fix) 7 8 9 h cmsStore1 z
        = .ok (⟨3, 1, 2, ⟨2, 1, 8, 8, 9⟩, 7, 3⟩, st', z') ∧
      z' 7 = [("a", 2), ("c", 4)] ∧ z' 2 = [("a", 2), ("c", 4)] ∧
      CMSRedis.view ⟨2, 1, 8, 8, 9⟩ st' = ⟨⟨2, 1, [[3], [5]]⟩, 8⟩ := by
  intro z h
  have wf : TopKRedis.WF strLt h cmsStore1 z :=
    ⟨⟨by decide, by decide, by decide⟩,
      by show List.Pairwise _ [("a", 2), ("c", 4)]; simp [zLt, strLt], by decide⟩
  have hfix : ∀ e ∈ z h.heapKey, utf8fix e.1 = e.1 := by
    intro e he
    have : z h.heapKey = [("a", 2), ("c", 4)] := rfl
    rw [this] at he
    simp only [List.mem_cons, List.not_mem_nil, or_false] at he
    rcases he with rfl | rfl <;> exact hascii _ (by simp)
  obtain ⟨st', z', h1, h2, _, h4⟩ := C10_roundtrip_topkRedis_partial strLt_strictTotal utf8fix
    List.reverse (fun m => List.reverse_perm m) h h cmsStore1 z 7 8 9 wf hfix rfl
  refine ⟨wf, st', z', h1, ?_, ?_, ?_⟩
  · have := congrArg TopKView.zset h2
    exact this
  · exact h4 2 (by decide)
  · have := congrArg TopKView.sketch h2
    exact this.trans (by decide)

/-! ## the original is left untouched -/

/-- Importing under new names writes only keys derived from those names (for Bloom: only the
    importing instance's own bitmap key).  Hence every key of the exporter — whose names are
    different random strings — keeps its value, and so does its view.
    Stated for arbitrary documents, not only exported ones. -/
theorem C10_redis_original_untouched :
    -- Bloom
    (∀ (d : BloomDoc Bytes) (t : BloomRedis) (st : Store) (r : BloomRedis × Store),
      BloomRedis.importDoc d t st = .ok r → ∀ k, k ≠ .rand t.key → r.2 k = st k) ∧
    -- Cuckoo
    (∀ (d : CuckooDoc) (t : CuckooRedis) (st : Store) (nk nmk : Nat) (k : Key),
      k.id ≠ nk → k.id ≠ nmk → (CuckooRedis.importDoc d nk nmk t st).2 k = st k) ∧
    -- Count-Min (nil or error returned alike)
    (∀ (d : CMSDoc) (t : CMSRedis) (st : Store) (nk : Nat) (r : CMSRedis × Store),
      (CMSRedis.importDoc d nk t st = .ok r ∨ CMSRedis.importDoc d nk t st = .err r) →
      ∀ k : Key, k.id ≠ nk → r.2 k = st k) ∧
    -- HyperLogLog
    (∀ (limit : Nat) (d : HLLDoc) (t : HLLRedis) (st : Store) (nk : Nat) (r : HLLRedis × Store),
      (HLLRedis.importDoc limit d nk t st = .ok r ∨ HLLRedis.importDoc limit d nk t st = .err r) →
      ∀ k : Key, k ≠ .rand nk → r.2 k = st k) := by
  refine ⟨?_, ?_, ?_, ?_⟩
  · intro d t st r h k hk
    unfold BloomRedis.importDoc at h
    split at h
    · cases h
    · cases h
      exact Store.set_other _ _ hk
  · exact fun d t st nk nmk k => C10_redis_original_untouched_cuckoo d t st nk nmk k
  · intro d t st nk r h k hk
    have key : ∀ S b, CMSRedis.setMatrix st nk d.m = some (S, b) → S k = st k := by
      intro S b hS
      unfold CMSRedis.setMatrix at hS
      split at hS
      · cases hS
      · simp only [Option.some.injEq] at hS
        have fr : ∀ (cols : Nat) (flat : List Nat) n (acc : Store × Bool),
            (∀ k : Key, k.id ≠ nk → acc.1 k = st k) →
            ∀ k : Key, k.id ≠ nk → (forN n (CMSRedis.setMatrixStep nk cols flat) acc).1 k = st k := by
          intro cols flat n
          induction n with
          | zero => intro acc h; exact h
          | succ n ih =>
            intro acc h k hk
            rw [forN_succ]
            have := ih acc h
            unfold CMSRedis.setMatrixStep
            split
            · simp only
              split
              · simp only [Store.del]
                rw [Store.set_other _ _ (Key.ne_of_id_ne hk)]
                exact this k hk
              · simp only [Store.rpushNums, Store.del]
                rw [Store.set_other _ _ (Key.ne_of_id_ne hk)]
                rw [Store.set_other _ _ (Key.ne_of_id_ne hk)]
                exact this k hk
            · exact this k hk
        have e := congrArg Prod.fst hS
        simp only at e
        rw [← e]
        exact fr _ _ _ (st, true) (fun _ _ => rfl) k hk
    unfold CMSRedis.importDoc at h
    split at h
    · rcases h with h | h <;> cases h
    · rename_i S hS
      rcases h with h | h
      · cases h; exact key _ _ hS
      · cases h
    · rename_i S hS
      rcases h with h | h
      · cases h
      · cases h; exact key _ _ hS
  · intro limit d t st nk r h k hk
    unfold HLLRedis.importDoc HLLRedis.importRegisters at h
    split at h <;> rename_i S hS <;> split at hS <;> rcases h with h | h <;> cases h <;> cases hS
    all_goals first | rfl | exact Store.set_other _ _ hk

end Gostatix.Json
