/-
  C16 (continued) — concurrent updates AND merges through Redis are not lost.

  `Props/C16.lean` proves "every interleaving = sequential application in any order" for step
  alphabets that contain whole-`Update` steps only.  Here the alphabets also contain whole-`Merge`
  steps, for the two structures whose Redis `Merge` is ONE Lua script:

   * Count-Min (count_min_sketch_redis.go `mergeMatrix`: per row, new row = cell-wise sum of the
     target row and the source row): `CMSStep.mergeFrom src`, semantics `CMS.addRows`;
   * HyperLogLog (hyperloglog_redis.go `mergeRegisters`: register-wise maximum):
     `HLLStep.mergeFrom src`, semantics `HLL.mergeRegs`.

  Assumptions (NOT theorems):
   * atomicity: one Redis command / one Lua script = one atomic step on the shared store (Redis
     runs scripts one at a time), exactly as in `Props/C16.lean`;
   * the SOURCE of a merge is a VALUE: `mergeFrom src` carries the source matrix / register file.
     The theorems are about concurrent writers of the TARGET sketch; the source sketch is not
     written while the schedule runs (a merge whose source is updated concurrently reads whatever
     the source holds when the script runs; that is a different alphabet);
   * the dimension check of `Merge` (`CMS.merge` / `HLL.merge`) happens in Go before the script is
     sent; a `mergeFrom` step is a merge that passed it (`cmsStepM_mergeFrom_eq_merge`,
     `hllStepM_mergeFrom_eq_merge`).

  What is proved:
   * `C16_cms_with_merge`, `C16_hll_with_merge`: for every interleaving `w` of the clients' step
     lists (updates and merges mixed) and every order `order` of all the steps,
     `exec step s w = order.foldl step s`.  NO shape hypothesis is needed: the steps commute
     pairwise in every state, for position lists, matrices and sources of any shape
     (`cmsStepM_commute`, `hllStepM_commute` in `Proofs/ConcMerge.lean`).  The reason is that
     out-of-range updates are no-ops and that a cell which a too short source row truncates away
     (`List.zipWith`) is lost in both orders; for HyperLogLog `mergeRegs` keeps the length of the
     target whatever the length of the source.
   * `C16_cms_merge_not_lost`: on a well-formed sketch (`CMS.WF`) with sources of the same shape,
     after any interleaving the cell `(r, c)` is the initial cell + the counts of all updates that
     hit it + the sources' cells.  Here the shape hypothesis IS needed
     (`C16_cms_merge_cell_needs_shape`: a short source row truncates the target row).
   * `C16_hll_merge_not_lost`: after any interleaving, re-applying any of the steps changes
     nothing (every update and every merge is absorbed in the final registers).

  What is NOT an instance: a client-side merge (read the target, add the source on the client,
  write the sum back) is two steps `read ; writeBack`, not one `mergeFrom`.
  `C16_cms_nonatomic_merge_loses_update` exhibits an interleaving with an update between the two
  whose final matrix differs from both sequential orders: the update is lost.

  Helper lemmas: `Gostatix/Proofs/ConcMerge.lean`.
-/
import Gostatix.Proofs.ConcMerge
import Gostatix.Props.C16
import Gostatix.Props.C03
namespace Gostatix
open Conc

/-! ### Count-Min -/

/-- **every interleaving of whole-`Update` and whole-`Merge` steps = sequential application in any
    order.**  `clients[i]` is the step list of client `i`.  No hypothesis on shapes. -/
theorem C16_cms_with_merge (s : CMS) (clients : List (List CMSStep)) (w : List CMSStep)
    (hi : Interleaving clients w) (order : List CMSStep) (ho : order.Perm clients.flatten) :
    exec cmsStepM s w = order.foldl cmsStepM s :=
  exec_perm_of_commute cmsStepM_commute (hi.perm.trans ho.symm) s

/-- in particular: = running the clients one after another -/
theorem C16_cms_with_merge_threads (s : CMS) (clients : List (List CMSStep)) (w : List CMSStep)
    (hi : Interleaving clients w) : exec cmsStepM s w = execThreads cmsStepM s clients :=
  exec_interleaving_of_commute cmsStepM_commute hi s

/-- the update-only alphabet of `C16_cms` is the sub-alphabet without merges -/
theorem cmsStepM_update (s : CMS) (u : List Nat × Nat) :
    cmsStepM s (.update u.1 u.2) = cmsStep s u := rfl

/-- well-formedness (`rows × cols` matrix) is kept by every schedule whose merge sources have the
    shape of the target -/
theorem C16_cms_merge_wf (s : CMS) (w : List CMSStep) (hs : CMS.WF s)
    (hsrc : ∀ a ∈ w, a.SrcOK s.rows s.cols) : CMS.WF (exec cmsStepM s w) := by
  have hd : (exec cmsStepM s w).rows = s.rows ∧ (exec cmsStepM s w).cols = s.cols :=
    exec_invariant (f := cmsStepM) (fun t => t.rows = s.rows ∧ t.cols = s.cols) w
      (fun t ht a _ => by
        have := cmsStepM_rows_cols t a
        exact ⟨this.1.trans ht.1, this.2.trans ht.2⟩) s ⟨rfl, rfl⟩
  have := exec_cmsStepM_shape s.rows s.cols w s hs hsrc
  unfold CMS.WF; rw [hd.1, hd.2]; exact this

/-- **nothing is lost**: on a well-formed sketch, with merge sources of the target's shape, after
    ANY interleaving the cell `(r, c)` equals the initial cell + the sum of the counts of all
    update steps that hit it (`pos[r] = c`) + the sum of the sources' cells `(r, c)`. -/
theorem C16_cms_merge_not_lost (s : CMS) (clients : List (List CMSStep)) (w : List CMSStep)
    (hi : Interleaving clients w) (hs : CMS.WF s)
    (hsrc : ∀ a ∈ clients.flatten, a.SrcOK s.rows s.cols)
    (r c : Nat) (hr : r < s.rows) (hc : c < s.cols) :
    CMS.cell (exec cmsStepM s w).m r c
      = CMS.cell s.m r c
        + sumL (clients.flatten.map (CMSStep.updHit r c))
        + sumL (clients.flatten.map (CMSStep.srcCell r c)) := by
  have hw : ∀ a ∈ w, a.SrcOK s.rows s.cols := fun a ha => hsrc a (hi.perm.mem_iff.1 ha)
  rw [exec_cmsStepM_cell s.rows s.cols w s hs hw r c hr hc,
    sumL_perm (hi.perm.map (CMSStep.updHit r c)), sumL_perm (hi.perm.map (CMSStep.srcCell r c))]

/-- the shape hypothesis on the sources cannot be dropped from `C16_cms_merge_not_lost`: a source
    row shorter than the target row truncates the target row (`List.zipWith`), so cell `(0,2)`,
    initially 3, is gone after the merge.  (The commutation theorem `C16_cms_with_merge` holds
    regardless.) -/
theorem C16_cms_merge_cell_needs_shape :
    ∃ (s : CMS) (src : List (List Nat)) (r c : Nat), CMS.WF s ∧ r < s.rows ∧ c < s.cols ∧
      CMS.cell (exec cmsStepM s [.mergeFrom src]).m r c
        ≠ CMS.cell s.m r c + sumL ([CMSStep.mergeFrom src].map (CMSStep.updHit r c))
          + sumL ([CMSStep.mergeFrom src].map (CMSStep.srcCell r c)) :=
  ⟨⟨1, 3, [[1, 2, 3]]⟩, [[1]], 0, 2, by unfold CMS.WF; decide, by decide, by decide, by decide⟩

/-! ### HyperLogLog -/

/-- **every interleaving of whole-`Update` and whole-`Merge` steps = sequential application in any
    order.**  No hypothesis on the lengths of the register files: a source shorter than the
    target only raises a prefix, the surplus of a longer one is ignored, the target keeps its
    length (`hllStepM_length`), and all steps commute in every state. -/
theorem C16_hll_with_merge (regs : List Nat) (clients : List (List HLLStep)) (w : List HLLStep)
    (hi : Interleaving clients w) (order : List HLLStep) (ho : order.Perm clients.flatten) :
    exec hllStepM regs w = order.foldl hllStepM regs :=
  exec_perm_of_commute hllStepM_commute (hi.perm.trans ho.symm) regs

theorem C16_hll_with_merge_threads (regs : List Nat) (clients : List (List HLLStep))
    (w : List HLLStep) (hi : Interleaving clients w) :
    exec hllStepM regs w = execThreads hllStepM regs clients :=
  exec_interleaving_of_commute hllStepM_commute hi regs

theorem hllStepM_update (regs : List Nat) (iv : Nat × Nat) :
    hllStepM regs (.update iv.1 iv.2) = HLL.upd regs iv := rfl

theorem C16_hll_merge_length (regs : List Nat) (w : List HLLStep) :
    (exec hllStepM regs w).length = regs.length :=
  exec_invariant (f := hllStepM) (fun r => r.length = regs.length) w
    (fun r hr a _ => (hllStepM_length r a).trans hr) regs rfl

/-- every step is idempotent -/
theorem hllStepM_idem (regs : List Nat) (a : HLLStep) : hllStepM (hllStepM regs a) a = hllStepM regs a := by
  cases a with
  | update i v => exact HLL.upd_idem regs (i, v)
  | mergeFrom src =>
    show HLL.mergeRegs (HLL.mergeRegs regs src) src = HLL.mergeRegs regs src
    induction regs generalizing src with
    | nil => cases src <;> rfl
    | cons x regs ih =>
      cases src with
      | nil => rfl
      | cons y src => simp only [HLL.mergeRegs]; rw [ih]; congr 1; omega

/-- **nothing is lost**: after ANY interleaving every step of every client is absorbed in the
    final registers — applying it once more changes nothing (the register already is at least the
    update's value, resp. at least the source's register). -/
theorem C16_hll_merge_not_lost (regs : List Nat) (clients : List (List HLLStep)) (w : List HLLStep)
    (hi : Interleaving clients w) (a : HLLStep) (ha : a ∈ clients.flatten) :
    hllStepM (exec hllStepM regs w) a = exec hllStepM regs w := by
  have haw : a ∈ w := hi.perm.mem_iff.2 ha
  obtain ⟨l, hl⟩ : ∃ l, w.Perm (l ++ [a]) := by
    obtain ⟨l₁, l₂, rfl⟩ := List.append_of_mem haw
    exact ⟨l₁ ++ l₂, List.perm_middle.trans (List.perm_append_singleton a (l₁ ++ l₂)).symm⟩
  rw [exec_perm_of_commute hllStepM_commute hl regs]
  simp only [exec, List.foldl_append, List.foldl_cons, List.foldl_nil]
  exact hllStepM_idem _ a

/-! ### a client-side (non-atomic) merge is NOT an instance

  The seeded change replaced the merge script by: read the target matrix (LRANGE per row), add the
  source on the client, write the sums back (LSET / RPUSH).  At command granularity this is (at
  least) two steps; the coarsest faithful model has the two steps `read` (client-local copy of the
  whole target matrix) and `writeBack src` (target := copy + src).
-/
namespace C16NonAtomicMerge

/-- the shared matrix and the merging client's local copy of it -/
structure St where
  m : List (List Nat)
  copy : List (List Nat) := []
  deriving Repr, DecidableEq

inductive Cmd where
  | update (pos : List Nat) (c : Nat)       -- the update script of ANOTHER client (atomic)
  | read                                    -- merging client: copy := target
  | writeBack (src : List (List Nat))       -- merging client: target := copy + src
  deriving Repr, DecidableEq

def step (s : St) : Cmd → St
  | .update pos c => { s with m := CMS.updRows s.m pos c }
  | .read => { s with copy := s.m }
  | .writeBack src => { s with m := CMS.addRows s.copy src }

/-- the client-side merge -/
def mergeProg (src : List (List Nat)) : List Cmd := [.read, .writeBack src]

/-- alone (nothing between `read` and `writeBack`) the client-side merge computes what the atomic
    merge step computes, in every state -/
theorem mergeProg_alone (s : St) (src : List (List Nat)) :
    (exec step s (mergeProg src)).m = (cmsStepM ⟨0, 0, s.m⟩ (.mergeFrom src)).m := rfl

/-- a 2×3 target -/
def s0 : St := { m := [[1, 0, 2], [0, 4, 0]] }
def src : List (List Nat) := [[1, 2, 3], [4, 5, 6]]
def pM : List Cmd := mergeProg src
def pU : List Cmd := [.update [0, 2] 5]
/-- the update runs between the merging client's `read` and `writeBack` -/
def bad : List Cmd := [.read, .update [0, 2] 5, .writeBack src]

theorem bad_interleaving : Interleaving [pM, pU] bad :=
  Interleaving.of_pick (is := [0, 1, 0]) (by decide)

/-- the bad run ends in `target₀ + src`: the update's 5 is in neither cell `(0,0)` nor `(1,2)`;
    both sequential orders end in `target₀ + src + update` -/
theorem run_detail :
    (exec step s0 bad).m = [[2, 2, 5], [4, 9, 6]] ∧
    (exec step s0 (pM ++ pU)).m = [[7, 2, 5], [4, 9, 11]] ∧
    (exec step s0 (pU ++ pM)).m = [[7, 2, 5], [4, 9, 11]] := by decide

end C16NonAtomicMerge

open C16NonAtomicMerge in
/-- **a non-atomic merge loses a concurrent update.**  There are a target matrix, a source, an
    update and an interleaving of the client-side merge `read ; writeBack` with the update whose
    final matrix differs from BOTH sequential orders (the update that ran between `read` and
    `writeBack` is overwritten), while both sequential orders agree with the atomic alphabet
    `cmsStepM` (whose interleavings all end in that state by `C16_cms_with_merge`). -/
theorem C16_cms_nonatomic_merge_loses_update :
    ∃ (s0 : St) (src : List (List Nat)) (pos : List Nat) (c : Nat) (w : List Cmd),
      Interleaving [mergeProg src, [.update pos c]] w ∧
      (exec step s0 w).m ≠ (exec step s0 (mergeProg src ++ [.update pos c])).m ∧
      (exec step s0 w).m ≠ (exec step s0 ([.update pos c] ++ mergeProg src)).m ∧
      (exec step s0 (mergeProg src ++ [.update pos c])).m
        = (exec cmsStepM ⟨2, 3, s0.m⟩ [.mergeFrom src, .update pos c]).m ∧
      (exec step s0 ([.update pos c] ++ mergeProg src)).m
        = (exec cmsStepM ⟨2, 3, s0.m⟩ [.update pos c, .mergeFrom src]).m ∧
      -- the lost update: the hit cell lacks exactly the update's count
      CMS.cell (exec step s0 w).m 0 0 + c
        = CMS.cell (exec step s0 (mergeProg src ++ [.update pos c])).m 0 0 :=
  ⟨C16NonAtomicMerge.s0, C16NonAtomicMerge.src, [0, 2], 5, bad, bad_interleaving,
    by decide, by decide, by decide, by decide, by decide⟩

/-! ### non-vacuity -/
namespace C16MergeExample

/-- a 2×3 sketch; client 0 merges a non-zero source, client 1 does two updates -/
def s0 : CMS := ⟨2, 3, [[1, 0, 2], [0, 4, 0]]⟩
def src : List (List Nat) := [[1, 2, 3], [4, 5, 6]]
def clients : List (List CMSStep) := [[.mergeFrom src], [.update [0, 2] 5, .update [1, 1] 7]]
/-- the merge runs between the two updates -/
def w : List CMSStep := [.update [0, 2] 5, .mergeFrom src, .update [1, 1] 7]

theorem w_interleaving : Interleaving clients w :=
  Interleaving.of_pick (is := [1, 0, 1]) (by decide)

example : exec cmsStepM s0 w
    = [CMSStep.update [1, 1] 7, .mergeFrom src, .update [0, 2] 5].foldl cmsStepM s0 :=
  C16_cms_with_merge s0 clients w w_interleaving _ (by decide)

example : exec cmsStepM s0 w
    = [CMSStep.update [1, 1] 7, .mergeFrom src, .update [0, 2] 5].foldl cmsStepM s0 := by decide

example : (exec cmsStepM s0 w).m = [[7, 9, 5], [4, 16, 11]] := by decide

example : exec cmsStepM s0 w = execThreads cmsStepM s0 clients :=
  C16_cms_with_merge_threads s0 clients w w_interleaving

/-- the hypotheses of the cell corollary are satisfiable, and its right-hand side is the concrete
    value: cell (1,1) = 4 + 7 (one update hits it) + 5 (the source's cell) -/
example : CMS.cell (exec cmsStepM s0 w).m 1 1
    = CMS.cell s0.m 1 1 + sumL (clients.flatten.map (CMSStep.updHit 1 1))
      + sumL (clients.flatten.map (CMSStep.srcCell 1 1)) :=
  C16_cms_merge_not_lost s0 clients w w_interleaving (by unfold CMS.WF; decide)
    (by
      intro a ha
      simp only [clients, List.flatten_cons, List.flatten_nil, List.cons_append, List.nil_append,
        List.append_nil, List.mem_cons, List.not_mem_nil, or_false] at ha
      rcases ha with rfl | rfl | rfl
      · show CMS.Shape src 2 3
        unfold CMS.Shape; decide
      · trivial
      · trivial)
    1 1 (by decide) (by decide)

example : CMS.cell (exec cmsStepM s0 w).m 1 1 = 16 ∧
    CMS.cell s0.m 1 1 + sumL (clients.flatten.map (CMSStep.updHit 1 1))
      + sumL (clients.flatten.map (CMSStep.srcCell 1 1)) = 16 := by decide

/-- the merge step is `CMS.merge` -/
example : CMS.merge s0 ⟨2, 3, src⟩ = .ok (cmsStepM s0 (.mergeFrom src)) :=
  cmsStepM_mergeFrom_eq_merge s0 ⟨2, 3, src⟩ rfl rfl

/-- ill-shaped operands (never produced by the code: `Merge` checks the dimensions): the steps
    still commute, the short source row truncates the target row in both orders -/
example : exec cmsStepM ⟨1, 3, [[1, 2, 3]]⟩ [.update [2] 5, .mergeFrom [[1]]]
      = exec cmsStepM ⟨1, 3, [[1, 2, 3]]⟩ [.mergeFrom [[1]], .update [2] 5] ∧
    (exec cmsStepM ⟨1, 3, [[1, 2, 3]]⟩ [.update [2] 5, .mergeFrom [[1]]]).m = [[2]] := by decide

/-- HyperLogLog: 4 registers; client 0 merges a non-zero source, client 1 does two updates -/
def hclients : List (List HLLStep) := [[.mergeFrom [3, 0, 9, 1]], [.update 1 7, .update 2 4]]
def hw : List HLLStep := [.update 1 7, .mergeFrom [3, 0, 9, 1], .update 2 4]

theorem hw_interleaving : Interleaving hclients hw :=
  Interleaving.of_pick (is := [1, 0, 1]) (by decide)

example : exec hllStepM [0, 2, 0, 5] hw
    = [HLLStep.update 2 4, .mergeFrom [3, 0, 9, 1], .update 1 7].foldl hllStepM [0, 2, 0, 5] :=
  C16_hll_with_merge _ hclients hw hw_interleaving _ (by decide)

example : exec hllStepM [0, 2, 0, 5] hw
    = [HLLStep.update 2 4, .mergeFrom [3, 0, 9, 1], .update 1 7].foldl hllStepM [0, 2, 0, 5] := by
  decide

example : exec hllStepM [0, 2, 0, 5] hw = [3, 7, 9, 5] := by decide

example : hllStepM (exec hllStepM [0, 2, 0, 5] hw) (.mergeFrom [3, 0, 9, 1]) = exec hllStepM [0, 2, 0, 5] hw :=
  C16_hll_merge_not_lost _ hclients hw hw_interleaving _ (by decide)

/-- sources of another length (never produced by the code: `Merge` checks `m`): a short source
    raises a prefix, the surplus of a long one is ignored, the target keeps its length; the steps
    still commute -/
example : exec hllStepM [0, 2, 0, 5] [.mergeFrom [9], .update 0 3, .mergeFrom [1, 1, 1, 1, 8, 8]]
      = exec hllStepM [0, 2, 0, 5] [.mergeFrom [1, 1, 1, 1, 8, 8], .mergeFrom [9], .update 0 3] ∧
    exec hllStepM [0, 2, 0, 5] [.mergeFrom [9], .update 0 3, .mergeFrom [1, 1, 1, 1, 8, 8]]
      = [9, 2, 1, 5] := by decide

example : HLL.merge ⟨4, [0, 2, 0, 5]⟩ ⟨4, [3, 0, 9, 1]⟩
    = .ok { (⟨4, [0, 2, 0, 5]⟩ : HLL) with regs := hllStepM [0, 2, 0, 5] (.mergeFrom [3, 0, 9, 1]) } :=
  hllStepM_mergeFrom_eq_merge _ _ rfl

end C16MergeExample

end Gostatix
