/-
  LuaHLL — the Lua scripts EXTRACTED from hyperloglog_redis.go and top_k_redis.go
  (`Gostatix/Generated/LuaScripts.lean`, regenerated from the Go sources on every run), run by the
  interpreter of Model/Lua.lean (`Lua.run`), compute the HAND-WRITTEN models of Model/Redis.lean,
  Model/RedisTopK.lean, Model/Json.lean, Model/Equals.lean — so the property theorems about those
  models (C08, C09, C17, C19 …) are theorems about the scripts in the Go sources.  A change of a
  script in the Go sources changes the generated term and breaks the proof below unless the new
  script still computes the model.

  KEYS/ARGV are as the Go call sites build them (`script.Run(ctx, client, []string{keys…}, args…)`,
  numbers spelled in decimal: `Gostatix.Redis.decimal`).  `Numeral c` = "`c` is a non-empty string
  of digits of value ≤ 2^53", the form in which the library itself writes registers
  (`Numeral_decimal`); `ListAt st k l` = "`LRANGE k 0 -1` succeeds with `l`" (the key holds the
  list `l`, or is absent and `l = []`).

  PROVED (for ALL stores / arguments satisfying the stated hypotheses; fuel bound explicit)

  * `lua_updateList_eq`      hyperloglog_redis_updateList  =  `hllUpdate h idx val`
        (store AND outcome, including every failure: missing key, index out of range, wrong type)
        hyp.: `idx, val ≤ 2^53` (Go passes two `uint8`; beyond 2^53 the interpreter answers
        `unsupported`: `lua_updateList_big`); the register read, if any, is a `Numeral`.
        without it: `lua_updateList_differs` (register `"0x10"`: gopher-lua's `tonumber` reads 16,
        the model's `parseDecimal` rejects it).
        transported: `lua_updateList_abs` (C08_hll_update through the extracted script).
  * `lua_initList_eq`        hyperloglog_redis_initList  =  `hllInit h`  (store and outcome, incl.
        `m < 2` → "wrong number of arguments", wrong type → WRONGTYPE)
        hyp.: `m` even (an odd `m` makes `m/2` a float: the interpreter answers `unsupported`,
        `lua_initList_odd`), `m/2 ≤ 4800` (`unpack` on gopher-lua's 5120-slot data stack:
        `lua_initList_overflow` — from `m/2 = 5120` on the script raises "registry overflow" and
        writes nothing, while the model, written after real Redis with LUAI_MAXCSTACK = 8000, succeeds).
        transported: `lua_initList_abs` (C08_hll_init).
  * `lua_mergeRegisters_eq`  hyperloglog_redis_mergeRegistersScript  =  `hllMergeScript key1 key2 m`
        (`lua_merge_eq`: = `hllMerge h g` when `h.m = g.m`, which the Go code checks first);
        store and outcome; on failure (a register missing on either side) both leave the store
        untouched and the script raises `mergeErrorMsg m l1 l2` ("attempt to compare … with …").
        hyp.: `m ≤ 2^53`; both keys hold lists or are absent (`lua_merge_differs_wrongtype`: the model
        follows real Redis where a failed `pcall` gives an error TABLE, the interpreter follows
        miniredis where it gives nil and `unpack(nil)` raises — this only shows for `m = 0`; for
        `m > 0` both sides fail in the first iteration without writing:
        `lua_mergeRegisters_wrongtype`);
        the first `m` entries of both lists
        are `Numeral`s (`lua_merge_differs_numeral`); the receiver has at most 4800 registers
        (`lua_merge_overflow`: from 5120 on, `DEL` is executed and THEN `unpack` raises — the
        receiver's registers are lost; the model succeeds).
        transported: `lua_merge_abs` (C08_hll_merge).
  * `lua_hllEquals_eq`       hyperloglog_redis_equals  =  `hllEquals h g` (for `h.m = g.m`, which the
        Go code checks first), reply `1` for `true`, nil for `false`.
        hyp.: `m < 67108864` (gopher-lua's array part; the interpreter's table model);
        both keys hold lists or are absent (`lua_hllEquals_differs_wrongtype`); `Numeral` entries.
        transported: `lua_hllEquals_abs` (C08_hll_equals).
  * `lua_importRegisters_eq` hyperloglog_redis_importRegistersScript = `RPUSH key r₁ … rₙ`
        (`cmdRPUSH`), for `n ≤ 4800`; `lua_importRegisters_overflow` for `n ≥ 5120`;
        `lua_importRegisters_json`: it simulates `Json.HLLRedis.importRegisters limit` (the hand
        model of Model/Json.lean, whose `limit` is exactly this `unpack` limit) on a store that
        represents the Json-level store (`NumsRepr`).
  * `lua_importHeap_eq`      top_k_redis_importHeapScript = the `ZADD`s of the pairs in order
        (`zaddAll`: `cmdZADD` of Model/RedisTopK.lean), store and outcome, incl. WRONGTYPE;
        `lua_importHeap_json`: on a key holding a sorted set the result is
        `Json.importHeap (bytewise <) z pairs` (= the fold of `TopK.zadd`).
        hyp.: scores `≤ 2^53`, fewer than 2^25 pairs.
  * `lua_topkEquals_eq`      top_k_redis_equals = `Equals.compareHeaps z1 z2` (Model/Equals.lean)
        where `z1`, `z2` are the sorted sets at the two keys.
        hyp.: both keys hold sorted sets or are absent (`lua_topkEquals_differs_wrongtype`).

  NOT COVERED: `hyperloglog_redis_harmonicMeanScript` (float arithmetic `2^(-x)` and
  `string.format('%.17g')`: outside the interpreter's integer subset — it evaluates to
  `unsupported`, `lua_harmonicMean_unsupported`).

  The examples at the end evaluate the interpreter and the hand models on concrete stores in the
  kernel (`decide +kernel`: plain kernel reduction, no `native_decide`, no extra axiom).
  All names live in the namespace `Gostatix.LuaHLL`.

  Helper lemmas: Proofs/LuaCorec.lean (numerals, monad, builtins, commands, tables, the loop lemmas
  `numForLoop_run` / `numForLoop_run_exit`, `execBlock_append`, the tactic `lua_simp_hll`),
  Proofs/LuaHLL.lean, Proofs/LuaTopK.lean (per-script segments).
-/
import Gostatix.Proofs.LuaHLL
import Gostatix.Proofs.LuaTopK
import Gostatix.Props.C08
import Gostatix.Props.C17
namespace Gostatix.LuaHLL
open Gostatix Gostatix.Lua Gostatix.Redis Gostatix.Generated.LuaScripts

/-! ## bookkeeping -/

theorem numeral_of_parse {l : List String} {regs : List Nat}
    (hm : l.map parseDecimal = regs.map some) (hb : ∀ r ∈ regs, r ≤ 2 ^ 53) :
    ∀ c ∈ l, Numeral c := by
  induction l generalizing regs with
  | nil => intro c hc; cases hc
  | cons a l ih =>
    cases regs with
    | nil => simp at hm
    | cons r regs =>
      simp only [List.map_cons, List.cons.injEq] at hm
      intro c hc
      rcases List.mem_cons.mp hc with rfl | hc
      · exact ⟨r, hm.1, hb r List.mem_cons_self⟩
      · exact ih hm.2 (fun x hx => hb x (List.mem_cons_of_mem _ hx)) c hc

/-- a store that represents a HyperLogLog with registers `≤ 2^53` holds a list of `Numeral`s. -/
theorem listAt_of_absHLL {st : Store} {h : HLLHandle} {c : HLL} (habs : absHLL st h = some c)
    (hb : ∀ r ∈ c.regs, r ≤ 2 ^ 53) :
    ∃ l, st h.key = some (.list l) ∧ ListAt st h.key l ∧ l.length = h.m ∧ ∀ x ∈ l, Numeral x := by
  obtain ⟨_, l, hl, hlen, hmap⟩ := (absHLL_eq_some_iff _ _ _).mp habs
  exact ⟨l, hl, cmdLRANGE_list hl, hlen, numeral_of_parse hmap hb⟩

/-! ## `updateList` (HyperLogLogRedis.updateRegisters) -/

/-- the extracted `updateList`, on the arguments `updateRegisters(index, count)` passes, is
    `hllUpdate`: same store, same outcome (reply `1`, or an error exactly when the model fails). -/
theorem lua_updateList_eq (st : Store) (h : HLLHandle) (idx val fuel : Nat) (hfuel : 20 ≤ fuel)
    (hidx : idx ≤ 2 ^ 53) (hval : val ≤ 2 ^ 53)
    (hreg : ∀ l c, st h.key = some (.list l) → l[idx]? = some c → Numeral c) :
    run fuel hyperloglog_redis_updateList [h.key] [decimal idx, decimal val] st =
      ((hllUpdate h idx val st).1,
        unitOutcome (hllUpdate h idx val st).2 (updateListError st h.key)) := by
  obtain ⟨f, rfl⟩ : ∃ f, fuel = f + 20 := ⟨fuel - 20, by omega⟩
  exact updateList_eq st h idx val f hidx hval hreg

/-- `C08_hll_update` through the extracted script: on a store that represents the registers `c`,
    the script answers `1` and leaves a store that represents `HLL.update c idx val`. -/
theorem lua_updateList_abs (st : Store) (h : HLLHandle) (c : HLL) (idx val fuel : Nat)
    (hfuel : 20 ≤ fuel) (hidx' : idx ≤ 2 ^ 53) (hval : val ≤ 2 ^ 53)
    (habs : absHLL st h = some c) (hidx : idx < h.m) (hb : ∀ r ∈ c.regs, r ≤ 2 ^ 53) :
    ∃ s' c', HLL.update c idx val = .ok c' ∧
      run fuel hyperloglog_redis_updateList [h.key] [decimal idx, decimal val] st =
        (s', .reply (.int 1)) ∧
      absHLL s' h = some c' ∧ ∀ k, k ≠ h.key → s' k = st k := by
  obtain ⟨s', c', hu, hrun, habs', hframe⟩ := C08_hll_update h st c idx val habs hidx
  obtain ⟨l, hl, _, _, hnum⟩ := listAt_of_absHLL habs hb
  refine ⟨s', c', hu, ?_, habs', hframe⟩
  rw [lua_updateList_eq st h idx val fuel hfuel hidx' hval, hrun]
  · rfl
  · intro l' x hl' hx
    rw [hl] at hl'; injection hl' with hl'; injection hl' with hl'; subst hl'
    exact hnum x (List.mem_of_getElem? hx)

/-! ## `initList` (HyperLogLogRedis.initRegisters) -/

/-- the extracted `initList` is `hllInit`: same store, same outcome. -/
theorem lua_initList_eq (st : Store) (h : HLLHandle) (fuel : Nat) (hfuel : h.m / 2 + 16 ≤ fuel)
    (heven : h.m % 2 = 0) (hsafe : h.m / 2 ≤ 4800) :
    run fuel hyperloglog_redis_initList [h.key] [decimal h.m] st =
      ((hllInit h st).1, unitOutcome (hllInit h st).2 (initListError h.m)) := by
  obtain ⟨f, rfl⟩ : ∃ f, fuel = f + h.m / 2 + 16 := ⟨fuel - (h.m / 2 + 16), by omega⟩
  have hm : h.m ≤ numLimit := by
    have : numLimit = 2 ^ 53 := rfl
    omega
  exact initList_eq st h f hm heven hsafe

/-- `C08_hll_init` through the extracted script. -/
theorem lua_initList_abs (st : Store) (h : HLLHandle) (fuel : Nat) (hfuel : h.m / 2 + 16 ≤ fuel)
    (hfresh : st h.key = none) (hm : 0 < h.m) (heven : h.m % 2 = 0) (hsafe : h.m / 2 ≤ 4800) :
    ∃ s', run fuel hyperloglog_redis_initList [h.key] [decimal h.m] st = (s', .reply (.int 1)) ∧
      absHLL s' h = some (HLL.new h.m) ∧ ∀ k, k ≠ h.key → s' k = st k := by
  obtain ⟨s', hrun, habs, hframe⟩ := C08_hll_init h st hfresh hm heven
  refine ⟨s', ?_, habs, hframe⟩
  rw [lua_initList_eq st h fuel hfuel heven hsafe, hrun]
  rfl

/-- where the two sides differ: 10240 registers or more.  Under miniredis (gopher-lua's data stack
    of 5120 slots) `unpack` raises and nothing is written; the hand model (`hllInit`, written after
    real Redis' limit of 8000) pushes the zeros. -/
theorem lua_initList_overflow (st : Store) (h : HLLHandle) (fuel : Nat) (hfuel : h.m / 2 + 16 ≤ fuel)
    (heven : h.m % 2 = 0) (hbig : 5120 ≤ h.m / 2) (hmax : h.m / 2 < 67108864) :
    run fuel hyperloglog_redis_initList [h.key] [decimal h.m] st = (st, .error "registry overflow") := by
  obtain ⟨f, rfl⟩ : ∃ f, fuel = f + h.m / 2 + 16 := ⟨fuel - (h.m / 2 + 16), by omega⟩
  have hm : h.m ≤ numLimit := by
    have : numLimit = 2 ^ 53 := rfl
    omega
  exact initList_overflow st h f hm heven hbig hmax

/-! ## `mergeRegistersScript` (HyperLogLogRedis.mergeRegisters) -/

/-- the extracted `mergeRegistersScript` is `hllMergeScript`: same store; reply `1` when the model
    succeeds, an error when it fails. -/
theorem lua_mergeRegisters_eq (st : Store) (key1 key2 : String) (m fuel : Nat) (l1 l2 : List String)
    (hfuel : m + 18 ≤ fuel) (hm : m ≤ 2 ^ 53)
    (h1 : ListAt st key1 l1) (h2 : ListAt st key2 l2) (hlen : l1.length ≤ 4800)
    (hn1 : ∀ c ∈ l1.take m, Numeral c) (hn2 : ∀ c ∈ l2.take m, Numeral c) :
    run fuel hyperloglog_redis_mergeRegistersScript [key1, key2] [decimal m] st =
      ((hllMergeScript key1 key2 m st).1,
        unitOutcome (hllMergeScript key1 key2 m st).2 (mergeErrorMsg m l1 l2)) := by
  obtain ⟨f, rfl⟩ : ∃ f, fuel = f + m + 18 := ⟨fuel - (m + 18), by omega⟩
  exact merge_eq st key1 key2 m f l1 l2 hm h1 h2 hlen hn1 hn2

/-- `Merge`'s script call (`[]string{h.key, g.key}`, `h.numRegisters`) after the Go-side check
    `h.numRegisters == g.numRegisters`: it is `hllMerge h g`. -/
theorem lua_merge_eq (st : Store) (h g : HLLHandle) (fuel : Nat) (l1 l2 : List String)
    (hmm : h.m = g.m) (hfuel : h.m + 18 ≤ fuel) (hm : h.m ≤ 2 ^ 53)
    (h1 : ListAt st h.key l1) (h2 : ListAt st g.key l2) (hlen : l1.length ≤ 4800)
    (hn1 : ∀ c ∈ l1.take h.m, Numeral c) (hn2 : ∀ c ∈ l2.take h.m, Numeral c) :
    run fuel hyperloglog_redis_mergeRegistersScript [h.key, g.key] [decimal h.m] st =
      ((hllMerge h g st).1, unitOutcome (hllMerge h g st).2 (mergeErrorMsg h.m l1 l2)) := by
  have : hllMerge h g = hllMergeScript h.key g.key h.m := by
    unfold hllMerge; rw [if_neg (by simp [hmm])]
  rw [this]
  exact lua_mergeRegisters_eq st h.key g.key h.m fuel l1 l2 hfuel hm h1 h2 hlen hn1 hn2

/-- without the `ListAt` hypotheses, for `size > 0`: a key that is not a list makes both sides fail
    in the first iteration, nothing is written (the hand model: an error table has no entries;
    the interpreter: nil cannot be indexed).  So the two agree on every store when `size > 0`
    and the entries read are `Numeral`s. -/
theorem lua_mergeRegisters_wrongtype (st : Store) (key1 key2 : String) (m fuel : Nat)
    (hfuel : m + 18 ≤ fuel) (hm : m ≤ 2 ^ 53) (hpos : 0 < m)
    (hw : NotListAt st key1 ∨
      (∃ l1, ListAt st key1 l1 ∧ (∀ c ∈ l1.take 1, Numeral c) ∧ NotListAt st key2)) :
    run fuel hyperloglog_redis_mergeRegistersScript [key1, key2] [decimal m] st =
      ((hllMergeScript key1 key2 m st).1,
        unitOutcome (hllMergeScript key1 key2 m st).2 "attempt to index a non-table object(nil)") := by
  obtain ⟨f, rfl⟩ : ∃ f, fuel = f + m + 18 := ⟨fuel - (m + 18), by omega⟩
  obtain ⟨h1, h2⟩ := merge_wrongtype st key1 key2 m f hm hpos hw
  rw [h1, h2]; rfl

/-- `C08_hll_merge` through the extracted script: on a store that represents the registers `a`
    (receiver) and `b`, the script answers `1` and leaves a store that represents the merge. -/
theorem lua_merge_abs (st : Store) (h g : HLLHandle) (a b : HLL) (fuel : Nat)
    (hmm : h.m = g.m) (hfuel : h.m + 18 ≤ fuel) (hpos : 0 < h.m) (hsafe : h.m ≤ 4800)
    (ha : absHLL st h = some a) (hb : absHLL st g = some b)
    (hba : ∀ r ∈ a.regs, r ≤ 2 ^ 53) (hbb : ∀ r ∈ b.regs, r ≤ 2 ^ 53) :
    ∃ s' c, HLL.merge a b = .ok c ∧
      run fuel hyperloglog_redis_mergeRegistersScript [h.key, g.key] [decimal h.m] st =
        (s', .reply (.int 1)) ∧
      absHLL s' h = some c ∧ ∀ k, k ≠ h.key → s' k = st k := by
  obtain ⟨l1, _, hl1, hlen1, hnum1⟩ := listAt_of_absHLL ha hba
  obtain ⟨l2, _, hl2, _, hnum2⟩ := listAt_of_absHLL hb hbb
  have hrun := lua_merge_eq st h g fuel l1 l2 hmm hfuel (by omega) hl1 hl2 (by omega)
    (fun c hc => hnum1 c (List.mem_of_mem_take hc)) (fun c hc => hnum2 c (List.mem_of_mem_take hc))
  have hC := C08_hll_merge h g st a b ha hb hpos
  cases hmerge : HLL.merge a b with
  | ok c =>
    rw [hmerge] at hC
    obtain ⟨s', hm', habs', _, hframe⟩ := hC
    refine ⟨s', c, rfl, ?_, habs', hframe⟩
    rw [hrun, hm']; rfl
  | err =>
    exfalso
    have hma : a.m = h.m := ((absHLL_eq_some_iff _ _ _).mp ha).1
    have hmb : b.m = g.m := ((absHLL_eq_some_iff _ _ _).mp hb).1
    unfold HLL.merge at hmerge
    rw [if_neg (by omega)] at hmerge
    cases hmerge
  | panic => rw [hmerge] at hC; exact hC.elim

/-- where the two sides differ: a receiver with 5120 registers or more.  The loop succeeds, `DEL`
    deletes the receiver's registers, then `unpack` raises (miniredis): the registers are LOST and
    an error is reported, while the hand model (`hllMergeScript`) writes the merged registers. -/
theorem lua_merge_overflow (st : Store) (key1 key2 : String) (m fuel : Nat) (l1 l2 vals : List String)
    (hfuel : m + 18 ≤ fuel) (hm : m ≤ 2 ^ 53)
    (h1 : ListAt st key1 l1) (h2 : ListAt st key2 l2)
    (hbig : 5120 ≤ l1.length) (hmax : l1.length + 1 < 67108864)
    (hn1 : ∀ c ∈ l1.take m, Numeral c) (hn2 : ∀ c ∈ l2.take m, Numeral c)
    (hv : hllMergeVals m l1 l2 st = (st, some vals)) :
    run fuel hyperloglog_redis_mergeRegistersScript [key1, key2] [decimal m] st =
      (st.del key1, .error "registry overflow") := by
  obtain ⟨f, rfl⟩ : ∃ f, fuel = f + m + 18 := ⟨fuel - (m + 18), by omega⟩
  exact merge_overflow st key1 key2 m f l1 l2 vals hm h1 h2 hbig hmax hn1 hn2 hv

/-! ## `equals` (HyperLogLogRedis.compareRegisters) -/

/-- the extracted `equals`, called as `compareRegisters` does after the Go-side check
    `h.numRegisters == g.numRegisters`, is `hllEquals h g`: store untouched, reply `1` for `true`
    and the nil reply for `false` (go-redis: `redis.Nil`, reported as "not equal"). -/
theorem lua_hllEquals_eq (st : Store) (h g : HLLHandle) (fuel : Nat) (l1 l2 : List String)
    (hmm : h.m = g.m) (hfuel : h.m + 18 ≤ fuel) (hm : h.m < 67108864)
    (h1 : ListAt st h.key l1) (h2 : ListAt st g.key l2)
    (hn1 : ∀ c ∈ l1.take h.m, Numeral c) (hn2 : ∀ c ∈ l2.take h.m, Numeral c) :
    run fuel hyperloglog_redis_equals [h.key, g.key] [decimal h.m] st =
      ((hllEquals h g st).1, boolOutcome (hllEquals h g st).2) := by
  obtain ⟨f, rfl⟩ : ∃ f, fuel = f + h.m + 18 := ⟨fuel - (h.m + 18), by omega⟩
  have hm' : h.m ≤ numLimit := by
    have : numLimit = 2 ^ 53 := rfl
    omega
  rw [hllEquals_of_listAt h g st l1 l2 hmm h1 h2]
  exact equals_eq st h.key g.key h.m f l1 l2 hm' hm h1 h2 hn1 hn2

/-- `C08_hll_equals` through the extracted script. -/
theorem lua_hllEquals_abs (st : Store) (h g : HLLHandle) (a b : HLL) (fuel : Nat)
    (hmm : h.m = g.m) (hfuel : h.m + 18 ≤ fuel) (hm : h.m < 67108864)
    (ha : absHLL st h = some a) (hb : absHLL st g = some b)
    (hba : ∀ r ∈ a.regs, r ≤ 2 ^ 53) (hbb : ∀ r ∈ b.regs, r ≤ 2 ^ 53) :
    run fuel hyperloglog_redis_equals [h.key, g.key] [decimal h.m] st =
      (st, boolOutcome (some (HLL.equals a b))) := by
  obtain ⟨l1, _, hl1, _, hnum1⟩ := listAt_of_absHLL ha hba
  obtain ⟨l2, _, hl2, _, hnum2⟩ := listAt_of_absHLL hb hbb
  rw [lua_hllEquals_eq st h g fuel l1 l2 hmm hfuel hm hl1 hl2
    (fun c hc => hnum1 c (List.mem_of_mem_take hc)) (fun c hc => hnum2 c (List.mem_of_mem_take hc)),
    C08_hll_equals h g st a b ha hb]

/-! ## `importRegistersScript` (HyperLogLogRedis.importRegisters) -/

/-- the extracted `importRegistersScript`, on the registers as `Import` passes them, is
    `RPUSH key r₁ … rₙ`: same store, same outcome (no register: "wrong number of arguments"). -/
theorem lua_importRegisters_eq (st : Store) (key : String) (regs : List Nat) (fuel : Nat)
    (hfuel : regs.length + 18 ≤ fuel) (hn : regs.length ≤ 4800) (hr : ∀ r ∈ regs, r ≤ 2 ^ 53) :
    run fuel hyperloglog_redis_importRegistersScript [key] (regs.map decimal) st =
      ((cmdRPUSH key (regs.map decimal) st).1,
        unitOutcome (cmdRPUSH key (regs.map decimal) st).2 (importError regs)) := by
  obtain ⟨f, rfl⟩ : ∃ f, fuel = f + regs.length + 18 := ⟨fuel - (regs.length + 18), by omega⟩
  exact import_eq st key regs f hn hr

/-- 5120 registers or more: `unpack` raises (miniredis), nothing is written. -/
theorem lua_importRegisters_overflow (st : Store) (key : String) (regs : List Nat) (fuel : Nat)
    (hfuel : regs.length + 18 ≤ fuel) (hbig : 5120 ≤ regs.length) (hmax : regs.length < 67108864)
    (hr : ∀ r ∈ regs, r ≤ 2 ^ 53) :
    run fuel hyperloglog_redis_importRegistersScript [key] (regs.map decimal) st =
      (st, .error "registry overflow") := by
  obtain ⟨f, rfl⟩ : ∃ f, fuel = f + regs.length + 18 := ⟨fuel - (regs.length + 18), by omega⟩
  exact import_overflow st key regs f hbig hmax hr

/-- the Redis list at `key` spells the numbers the Json-level store (Model/Json.lean) holds at
    `k` (an absent key on both sides; Redis has no empty lists). -/
def NumsRepr (js : Json.Store) (k : Json.Key) (st : Store) (key : String) : Prop :=
  match js k with
  | .absent => st key = none
  | .nums l => l ≠ [] ∧ st key = some (.list (l.map decimal))
  | _ => False

/-- the extracted script simulates the hand model `Json.HLLRedis.importRegisters limit` (whose
    `limit` is the `unpack` limit) for every `limit` the register count respects: same success,
    and the resulting stores still correspond. -/
theorem lua_importRegisters_json (js : Json.Store) (id : Nat) (st : Store) (key : String)
    (regs : List Nat) (limit fuel : Nat) (hfuel : regs.length + 18 ≤ fuel)
    (hn : regs.length ≤ 4800) (hlim : regs.length ≤ limit) (hr : ∀ r ∈ regs, r ≤ 2 ^ 53)
    (hrepr : NumsRepr js (.rand id) st key) :
    ∃ st', run fuel hyperloglog_redis_importRegistersScript [key] (regs.map decimal) st =
        (st', if (Json.HLLRedis.importRegisters limit js id regs).2 then .reply (.int 1)
              else .error (importError regs)) ∧
      NumsRepr (Json.HLLRedis.importRegisters limit js id regs).1 (.rand id) st' key := by
  rw [lua_importRegisters_eq st key regs fuel hfuel hn hr]
  unfold Json.HLLRedis.importRegisters
  cases regs with
  | nil =>
    refine ⟨st, ?_, by simpa using hrepr⟩
    simp [cmdRPUSH, unitOutcome]
  | cons r rs =>
    have hne : ¬ (r :: rs = [] ∨ limit < (r :: rs).length) := by
      intro h; rcases h with h | h
      · cases h
      · omega
    rw [if_neg hne]
    unfold NumsRepr at hrepr
    cases hj : js (.rand id) with
    | absent =>
      rw [hj] at hrepr
      simp only at hrepr
      refine ⟨st.set key (.list ((r :: rs).map decimal)), ?_, ?_⟩
      · rw [cmdRPUSH_none hrepr (by simp)]; rfl
      · simp [NumsRepr, Json.Store.rpushNums, Json.Store.set, Json.Store.getNums, hj, Json.Val.toNums,
          Store.set]
    | nums l =>
      rw [hj] at hrepr
      simp only at hrepr
      refine ⟨st.set key (.list (l.map decimal ++ (r :: rs).map decimal)), ?_, ?_⟩
      · unfold cmdRPUSH; rw [hrepr.2]; simp [unitOutcome]
      · simp [NumsRepr, Json.Store.rpushNums, Json.Store.set, Json.Store.getNums, hj, Json.Val.toNums,
          Store.set]
    | str _ => rw [hj] at hrepr; exact hrepr.elim
    | int _ => rw [hj] at hrepr; exact hrepr.elim
    | strs _ => rw [hj] at hrepr; exact hrepr.elim
    | keys _ => rw [hj] at hrepr; exact hrepr.elim
    | hash _ => rw [hj] at hrepr; exact hrepr.elim

/-- … and when the register count is beyond both limits (5120 ≤ n, `limit < n`) both fail
    without writing. -/
theorem lua_importRegisters_json_overflow (js : Json.Store) (id : Nat) (st : Store) (key : String)
    (regs : List Nat) (limit fuel : Nat) (hfuel : regs.length + 18 ≤ fuel)
    (hbig : 5120 ≤ regs.length) (hmax : regs.length < 67108864) (hlim : limit < regs.length)
    (hr : ∀ r ∈ regs, r ≤ 2 ^ 53) :
    run fuel hyperloglog_redis_importRegistersScript [key] (regs.map decimal) st =
        (st, .error "registry overflow") ∧
      Json.HLLRedis.importRegisters limit js id regs = (js, false) := by
  refine ⟨lua_importRegisters_overflow st key regs fuel hfuel hbig hmax hr, ?_⟩
  unfold Json.HLLRedis.importRegisters
  rw [if_pos (Or.inr hlim)]

/-! ## `importHeapScript` (TopKRedis.importHeap) -/

/-- the extracted `importHeapScript`, on `ARGV = element, count, element, count, …` as `importHeap`
    builds it, is the sequence of `ZADD`s (`zaddAll`, built from `cmdZADD`): same store, same
    outcome (a key of the wrong type: WRONGTYPE from the first `ZADD`). -/
theorem lua_importHeap_eq (st : Store) (key : String) (ps : List (String × Nat)) (fuel : Nat)
    (hfuel : ps.length + 15 ≤ fuel) (hlen : 2 * ps.length < 67108864)
    (hsc : ∀ p ∈ ps, p.2 ≤ 2 ^ 53) :
    run fuel top_k_redis_importHeapScript [key] (heapArgs ps) st =
      ((zaddAll key ps st).1, unitOutcome (zaddAll key ps st).2 msgWrongType) := by
  obtain ⟨f, rfl⟩ : ∃ f, fuel = f + ps.length + 15 := ⟨fuel - (ps.length + 15), by omega⟩
  exact importHeap_eq st key ps f hlen hsc

/-- on a key that holds the sorted set `z` (or nothing, `z = []`) the script answers `1` and the
    key then holds `Json.importHeap` of the hand model of `Import` (Model/Json.lean), with the
    bytewise order on member names; other keys are untouched. -/
theorem lua_importHeap_json (st : Store) (key : String) (z : List HElem) (ps : List (String × Nat))
    (fuel : Nat) (hfuel : ps.length + 15 ≤ fuel) (hlen : 2 * ps.length < 67108864)
    (hsc : ∀ p ∈ ps, p.2 ≤ 2 ^ 53) (hz : zsetAt st key = some z) :
    ∃ st', run fuel top_k_redis_importHeapScript [key] (heapArgs ps) st = (st', .reply (.int 1)) ∧
      zsetAt st' key = some (Json.importHeap (fun a b : String => decide (a < b)) z ps) ∧
      ∀ k, k ≠ key → st' k = st k := by
  obtain ⟨st', h1, h2, h3⟩ := zaddAll_zset key ps st z hz
  refine ⟨st', ?_, ?_, h3⟩
  · rw [lua_importHeap_eq st key ps fuel hfuel hlen hsc, h1]; rfl
  · rw [h2, json_importHeap_eq]

/-! ## `equals` (TopKRedis.compareHeaps) -/

theorem withScores_inj : ∀ (z1 z2 : List HElem), withScores z1 = withScores z2 → z1 = z2 := by
  intro z1
  induction z1 with
  | nil =>
    intro z2 h
    cases z2 with
    | nil => rfl
    | cons e z2 => simp [withScores] at h
  | cons e z1 ih =>
    intro z2 h
    cases z2 with
    | nil => simp [withScores] at h
    | cons e2 z2 =>
      simp only [withScores, List.foldr_cons, List.cons.injEq] at h
      obtain ⟨h1, h2, h3⟩ := h
      have := ih z2 h3
      subst this
      obtain ⟨a, b⟩ := e
      obtain ⟨a2, b2⟩ := e2
      simp only at h1 h2
      rw [h1, decimal_inj h2]

theorem compareHeaps_eq_decide (z1 z2 : List HElem) :
    Equals.compareHeaps z1 z2 = some (decide (z1 = z2)) := by
  cases h : Equals.compareHeaps z1 z2 with
  | none => exact absurd h (Equals.compareHeaps_ne_none z1 z2)
  | some b =>
    cases b with
    | true => rw [(Equals.compareHeaps_true_iff z1 z2).mp h]; simp
    | false =>
      have : z1 ≠ z2 := fun e => by
        have := (Equals.compareHeaps_true_iff z1 z2).mpr e
        rw [h] at this; cases this
      simp [this]

/-- the extracted `equals` of top_k_redis.go, called as `compareHeaps` does, is
    `Equals.compareHeaps` (Model/Equals.lean) of the sorted sets at the two keys: store untouched,
    reply `1` for `true`, nil for `false`. -/
theorem lua_topkEquals_eq (st : Store) (key1 key2 : String) (k fuel : Nat) (z1 z2 : List HElem)
    (hfuel : 2 * z1.length + 17 ≤ fuel) (hlen : 2 * z1.length < 67108864)
    (h1 : zsetAt st key1 = some z1) (h2 : zsetAt st key2 = some z2) :
    run fuel top_k_redis_equals [key1, key2] [decimal k] st =
      (st, boolOutcome (Equals.compareHeaps z1 z2)) := by
  obtain ⟨f, rfl⟩ : ∃ f, fuel = f + 2 * z1.length + 17 := ⟨fuel - (2 * z1.length + 17), by omega⟩
  rw [topkEquals_eq st key1 key2 k f z1 z2 h1 h2 hlen, compareHeaps_eq_decide]
  congr 3
  by_cases h : z1 = z2
  · simp [h]
  · have : withScores z1 ≠ withScores z2 := fun e => h (withScores_inj z1 z2 e)
    simp [h, this]

/-! ## where the hypotheses are needed, and non-vacuity: concrete runs -/

section examples

/-- a decidable view of an outcome. -/
def outcomeTag : Outcome → Nat × String
  | .reply (.int n) => (0, renderInt n)
  | .reply .nil => (1, "")
  | .reply _ => (2, "")
  | .error msg => (3, msg)
  | .unsupported w => (4, w)
  | .outOfFuel => (5, "")

/-- a decidable sufficient condition for `Numeral`. -/
def numeralB (c : String) : Bool :=
  match parseDecimal c with
  | some n => decide (n ≤ 2 ^ 53)
  | none => false

theorem Numeral_of_check {c : String} (h : numeralB c = true) : Numeral c := by
  unfold numeralB at h
  cases hp : parseDecimal c with
  | none => rw [hp] at h; cases h
  | some n => rw [hp] at h; exact ⟨n, hp, by simpa [numLimit] using h⟩

theorem numerals_of_check {l : List String} (h : l.all numeralB = true) : ∀ c ∈ l, Numeral c :=
  fun c hc => Numeral_of_check (List.all_eq_true.mp h c hc)

def exH : HLLHandle := { m := 4, key := "bbbbbbbbbbbbbbbb", metadataKey := "bbbbbbbbbbbbbbbc" }
def exG : HLLHandle := { m := 4, key := "cccccccccccccccc", metadataKey := "cccccccccccccccd" }

/-- two sketches as the library's own constructors and updates leave them (hand models). -/
def exS₀ : Store := (hllInit exG (hllInit exH Store.empty).1).1
def exS₁ : Store := (hllUpdate exG 0 9 (hllUpdate exH 1 3 (hllUpdate exH 2 7 exS₀).1).1).1

example : exS₁ exH.key = some (.list ["0", "3", "7", "0"]) := by decide +kernel
example : exS₁ exG.key = some (.list ["9", "0", "0", "0"]) := by decide +kernel

/-! ### `initList` -/

/-- the theorem on the empty database … -/
example : run 30 hyperloglog_redis_initList [exH.key] [decimal 4] Store.empty =
    ((hllInit exH Store.empty).1, unitOutcome (hllInit exH Store.empty).2 (initListError 4)) :=
  lua_initList_eq Store.empty exH 30 (by decide +kernel) (by decide +kernel) (by decide +kernel)
/-- … and what it says there, evaluated by the kernel: reply `1`, four zeros. -/
example : outcomeTag (run 30 hyperloglog_redis_initList [exH.key] [decimal 4] Store.empty).2 = (0, "1") := by
  decide +kernel
example : (run 30 hyperloglog_redis_initList [exH.key] [decimal 4] Store.empty).1 exH.key =
    some (.list ["0", "0", "0", "0"]) := by decide +kernel
/-- `C08_hll_init` through the script. -/
example : ∃ s', run 30 hyperloglog_redis_initList [exH.key] [decimal 4] Store.empty = (s', .reply (.int 1)) ∧
    absHLL s' exH = some (HLL.new 4) ∧ ∀ k, k ≠ exH.key → s' k = Store.empty k :=
  lua_initList_abs Store.empty exH 30 (by decide) rfl (by decide) (by decide) (by decide)
/-- the failure cases are covered too: `m = 0` pushes nothing. -/
example : outcomeTag (run 30 hyperloglog_redis_initList ["k"] [decimal 0] Store.empty).2 =
    (3, "ERR wrong number of arguments for 'lpush' command") := by decide +kernel
example : (hllInit { m := 0, key := "k", metadataKey := "mk" } Store.empty).2 = none := by decide +kernel

/-- `heven` is needed: for an odd `m` the bound `m/2` is a float, outside the interpreter's
    numbers (`unsupported`), while the hand model pushes `⌊m/2⌋` zeros twice (as real Lua does). -/
theorem lua_initList_odd :
    outcomeTag (run 30 hyperloglog_redis_initList ["k"] [decimal 3] Store.empty).2 =
      (4, "division with a remainder (float result)") ∧
    (hllInit { m := 3, key := "k", metadataKey := "mk" } Store.empty).2 = some () := by decide +kernel

/-- `hsafe` is needed: `lua_initList_overflow` at 10240 registers, on the empty database, where the
    hand model succeeds. -/
example : run 6000 hyperloglog_redis_initList ["k"] [decimal 10240] Store.empty =
    (Store.empty, .error "registry overflow") :=
  lua_initList_overflow Store.empty { m := 10240, key := "k", metadataKey := "mk" } 6000
    (by decide +kernel) (by decide +kernel) (by decide +kernel) (by decide +kernel)
example : ∃ s', hllInit { m := 10240, key := "k", metadataKey := "mk" } Store.empty = (s', some ()) := by
  obtain ⟨s', h, _⟩ := C08_hll_init { m := 10240, key := "k", metadataKey := "mk" } Store.empty rfl
    (by decide) (by decide)
  exact ⟨s', h⟩

/-! ### `updateList` -/

example : run 20 hyperloglog_redis_updateList [exH.key] [decimal 1, decimal 5] exS₁ =
    ((hllUpdate exH 1 5 exS₁).1, unitOutcome (hllUpdate exH 1 5 exS₁).2 (updateListError exS₁ exH.key)) :=
  lua_updateList_eq exS₁ exH 1 5 20 (by decide +kernel) (by decide +kernel) (by decide +kernel) (by
    intro l c hl hc
    have : exS₁ exH.key = some (.list ["0", "3", "7", "0"]) := by decide +kernel
    rw [this] at hl; injection hl with hl; injection hl with hl; subst hl
    exact numerals_of_check (l := ["0", "3", "7", "0"]) (by decide +kernel) c (List.mem_of_getElem? hc))
example : outcomeTag (run 20 hyperloglog_redis_updateList [exH.key] [decimal 1, decimal 5] exS₁).2 = (0, "1") := by
  decide +kernel
example : (run 20 hyperloglog_redis_updateList [exH.key] [decimal 1, decimal 5] exS₁).1 exH.key =
    some (.list ["0", "5", "7", "0"]) := by decide +kernel
/-- `C08_hll_update` through the script, on the concrete store. -/
example : ∃ s' c', HLL.update ⟨4, [0, 3, 7, 0]⟩ 1 5 = .ok c' ∧
    run 20 hyperloglog_redis_updateList [exH.key] [decimal 1, decimal 5] exS₁ = (s', .reply (.int 1)) ∧
    absHLL s' exH = some c' ∧ ∀ k, k ≠ exH.key → s' k = exS₁ k :=
  lua_updateList_abs exS₁ exH ⟨4, [0, 3, 7, 0]⟩ 1 5 20 (by decide) (by decide) (by decide) (by decide)
    (by decide) (by decide)
/-- a smaller value leaves the register. -/
example : (run 20 hyperloglog_redis_updateList [exH.key] [decimal 2, decimal 5] exS₁).1 exH.key =
    some (.list ["0", "3", "7", "0"]) := by decide +kernel
/-- index out of range: both sides fail, nothing written (`updateListError`). -/
example : outcomeTag (run 20 hyperloglog_redis_updateList [exH.key] [decimal 4, decimal 1] exS₁).2 =
    (3, "attempt to compare number with nil") := by decide +kernel
example : (hllUpdate exH 4 1 exS₁).2 = none := by decide +kernel

/-- a register that is not a decimal numeral. -/
def exD : Store := Store.empty.set exH.key (.list ["0", "0x10", "7", "0"])

/-- `hreg` is needed: on the register `"0x10"` gopher-lua's `tonumber` answers 16 (the script
    goes on and answers `1`), the hand model's `parseDecimal` answers nil (the script fails). -/
theorem lua_updateList_differs :
    outcomeTag (run 20 hyperloglog_redis_updateList [exH.key] [decimal 1, decimal 5] exD).2 = (0, "1") ∧
    (hllUpdate exH 1 5 exD).2 = none := by decide +kernel

/-- `hidx` is needed (in this form: an interpreter limit, numbers beyond 2^53 are not modelled). -/
theorem lua_updateList_big :
    outcomeTag (run 20 hyperloglog_redis_updateList [exH.key] [decimal (2 ^ 53 + 1), decimal 5] exS₁).2 =
      (4, "tonumber of a numeral beyond 2^53") := by decide +kernel

/-! ### `mergeRegistersScript` -/

example : run 30 hyperloglog_redis_mergeRegistersScript [exH.key, exG.key] [decimal 4] exS₁ =
    ((hllMerge exH exG exS₁).1, unitOutcome (hllMerge exH exG exS₁).2
      (mergeErrorMsg 4 ["0", "3", "7", "0"] ["9", "0", "0", "0"])) :=
  lua_merge_eq exS₁ exH exG 30 ["0", "3", "7", "0"] ["9", "0", "0", "0"] rfl (by decide +kernel) (by decide +kernel)
    (cmdLRANGE_list (by decide +kernel)) (cmdLRANGE_list (by decide +kernel)) (by decide +kernel)
    (numerals_of_check (by decide +kernel)) (numerals_of_check (by decide +kernel))
example : outcomeTag (run 30 hyperloglog_redis_mergeRegistersScript [exH.key, exG.key] [decimal 4] exS₁).2 =
    (0, "1") := by decide +kernel
example : (run 30 hyperloglog_redis_mergeRegistersScript [exH.key, exG.key] [decimal 4] exS₁).1 exH.key =
    some (.list ["9", "3", "7", "0"]) := by decide +kernel
/-- a failure case that is covered: the argument has fewer registers than `size`. -/
example : outcomeTag (run 30 hyperloglog_redis_mergeRegistersScript [exH.key, "nokey"] [decimal 4] exS₁).2 =
    (3, "attempt to compare number with nil") := by decide +kernel
example : (hllMergeScript exH.key "nokey" 4 exS₁).2 = none := by decide +kernel

/-- a key of the wrong type. -/
def exW : Store := Store.empty.set exH.key (.hash [("a", "b")])

/-- the `ListAt` hypotheses are needed: a receiver key of the wrong type and `size = 0`.  The hand
    model follows real Redis (the failed `pcall` gives an error table that `unpack` takes as an empty
    table: `DEL`, failed `RPUSH`, `return true`); the interpreter follows miniredis (`pcall` gives
    nil: `DEL`, then `unpack(nil)` raises). -/
theorem lua_merge_differs_wrongtype :
    outcomeTag (run 30 hyperloglog_redis_mergeRegistersScript [exH.key, exG.key] [decimal 0] exW).2 =
      (3, "bad argument #1 to unpack (table expected)") ∧
    (hllMergeScript exH.key exG.key 0 exW).2 = some () := by decide +kernel

/-- … while for `size > 0` the two sides agree on it (`lua_mergeRegisters_wrongtype`). -/
example : run 30 hyperloglog_redis_mergeRegistersScript [exH.key, exG.key] [decimal 4] exW =
    ((hllMergeScript exH.key exG.key 4 exW).1,
      unitOutcome (hllMergeScript exH.key exG.key 4 exW).2 "attempt to index a non-table object(nil)") :=
  lua_mergeRegisters_wrongtype exW exH.key exG.key 4 30 (by decide) (by decide) (by decide) (Or.inl rfl)
example : outcomeTag (run 30 hyperloglog_redis_mergeRegistersScript [exH.key, exG.key] [decimal 4] exW).2 =
    (3, "attempt to index a non-table object(nil)") := by decide +kernel

/-- the `Numeral` hypotheses are needed (as for `updateList`). -/
theorem lua_merge_differs_numeral :
    outcomeTag (run 30 hyperloglog_redis_mergeRegistersScript [exH.key, exG.key] [decimal 4] exD).2 = (3, "attempt to compare number with nil") ∧
    outcomeTag (run 30 hyperloglog_redis_mergeRegistersScript [exH.key, exH.key] [decimal 4] exD).2 = (0, "1") ∧
    (hllMergeScript exH.key exH.key 4 exD).2 = none := by decide +kernel

/-- `C08_hll_merge` through the script, on the concrete store. -/
example : ∃ s' c, HLL.merge ⟨4, [0, 3, 7, 0]⟩ ⟨4, [9, 0, 0, 0]⟩ = .ok c ∧
    run 30 hyperloglog_redis_mergeRegistersScript [exH.key, exG.key] [decimal 4] exS₁ = (s', .reply (.int 1)) ∧
    absHLL s' exH = some c ∧ ∀ k, k ≠ exH.key → s' k = exS₁ k :=
  lua_merge_abs exS₁ exH exG ⟨4, [0, 3, 7, 0]⟩ ⟨4, [9, 0, 0, 0]⟩ 30 rfl (by decide) (by decide) (by decide)
    (by decide) (by decide) (by decide) (by decide)

/-! ### `equals` (HyperLogLog) -/

example : run 30 hyperloglog_redis_equals [exH.key, exG.key] [decimal 4] exS₁ =
    ((hllEquals exH exG exS₁).1, boolOutcome (hllEquals exH exG exS₁).2) :=
  lua_hllEquals_eq exS₁ exH exG 30 ["0", "3", "7", "0"] ["9", "0", "0", "0"] rfl (by decide +kernel) (by decide +kernel)
    (cmdLRANGE_list (by decide +kernel)) (cmdLRANGE_list (by decide +kernel))
    (numerals_of_check (by decide +kernel)) (numerals_of_check (by decide +kernel))
example : outcomeTag (run 30 hyperloglog_redis_equals [exH.key, exG.key] [decimal 4] exS₁).2 = (1, "") := by decide +kernel
example : outcomeTag (run 30 hyperloglog_redis_equals [exH.key, exH.key] [decimal 4] exS₁).2 = (0, "1") := by decide +kernel
example : (hllEquals exH exG exS₁).2 = some false := by decide +kernel

/-- the `ListAt` hypotheses are needed: the hand model reads a key of the wrong type as an empty
    table (real Redis), the interpreter as nil (miniredis), and indexing nil raises. -/
theorem lua_hllEquals_differs_wrongtype :
    outcomeTag (run 30 hyperloglog_redis_equals [exH.key, "nokey"] [decimal 4] exW).2 =
      (3, "attempt to index a non-table object(nil)") ∧
    (hllEquals exH { exG with key := "nokey" } exW).2 = some true := by decide +kernel

/-- the `Numeral` hypotheses are needed: `"0x10"` and `"16"` are the same number for gopher-lua's
    `tonumber`, while the hand model reads the first as nil. -/
def exD' : Store := (Store.empty.set exH.key (.list ["0x10"])).set exG.key (.list ["16"])

theorem lua_hllEquals_differs_numeral :
    outcomeTag (run 30 hyperloglog_redis_equals [exH.key, exG.key] [decimal 1] exD').2 = (0, "1") ∧
    (hllEquals { exH with m := 1 } { exG with m := 1 } exD').2 = some false := by decide +kernel

/-- `C08_hll_equals` through the script, on the concrete store. -/
example : run 30 hyperloglog_redis_equals [exH.key, exG.key] [decimal 4] exS₁ =
    (exS₁, boolOutcome (some (HLL.equals ⟨4, [0, 3, 7, 0]⟩ ⟨4, [9, 0, 0, 0]⟩))) :=
  lua_hllEquals_abs exS₁ exH exG ⟨4, [0, 3, 7, 0]⟩ ⟨4, [9, 0, 0, 0]⟩ 30 rfl (by decide) (by decide)
    (by decide) (by decide) (by decide) (by decide)

/-! ### `importRegistersScript` -/

example : run 30 hyperloglog_redis_importRegistersScript ["k"] ([3, 0, 7].map decimal) Store.empty =
    ((cmdRPUSH "k" ([3, 0, 7].map decimal) Store.empty).1,
      unitOutcome (cmdRPUSH "k" ([3, 0, 7].map decimal) Store.empty).2 (importError [3, 0, 7])) :=
  lua_importRegisters_eq Store.empty "k" [3, 0, 7] 30 (by decide +kernel) (by decide +kernel) (by decide +kernel)
example : outcomeTag (run 30 hyperloglog_redis_importRegistersScript ["k"] ([3, 0, 7].map decimal) Store.empty).2 =
    (0, "1") := by decide +kernel
example : (run 30 hyperloglog_redis_importRegistersScript ["k"] ([3, 0, 7].map decimal) Store.empty).1 "k" =
    some (.list ["3", "0", "7"]) := by decide +kernel
/-- `Import` appends to what the key holds (no `DEL`). -/
example : (run 30 hyperloglog_redis_importRegistersScript [exH.key] ([1].map decimal) exS₁).1 exH.key =
    some (.list ["0", "3", "7", "0", "1"]) := by decide +kernel
/-- the Json-level hand model, simulated: the key is absent on both sides before, holds the
    registers on both sides after. -/
example : ∃ st', run 30 hyperloglog_redis_importRegistersScript ["k"] ([3, 0, 7].map decimal) Store.empty =
      (st', if (Json.HLLRedis.importRegisters 8000 (fun _ => .absent) 5 [3, 0, 7]).2 then .reply (.int 1)
            else .error (importError [3, 0, 7])) ∧
    NumsRepr (Json.HLLRedis.importRegisters 8000 (fun _ => .absent) 5 [3, 0, 7]).1 (.rand 5) st' "k" :=
  lua_importRegisters_json (fun _ => .absent) 5 Store.empty "k" [3, 0, 7] 8000 30 (by decide) (by decide)
    (by decide) (by decide) rfl
/-- no register: the error of `RPUSH` without values. -/
example : outcomeTag (run 30 hyperloglog_redis_importRegistersScript ["k"] [] Store.empty).2 =
    (3, "ERR wrong number of arguments for 'rpush' command") := by decide +kernel

/-! ### `importHeapScript` -/

def exPairs : List (String × Nat) := [("x", 3), ("y", 1), ("x", 2)]

example : run 30 top_k_redis_importHeapScript ["hk"] (heapArgs exPairs) Store.empty =
    ((zaddAll "hk" exPairs Store.empty).1, unitOutcome (zaddAll "hk" exPairs Store.empty).2 msgWrongType) :=
  lua_importHeap_eq Store.empty "hk" exPairs 30 (by decide +kernel) (by decide +kernel) (by decide +kernel)
example : heapArgs exPairs = ["x", "3", "y", "1", "x", "2"] := by decide +kernel
example : outcomeTag (run 30 top_k_redis_importHeapScript ["hk"] (heapArgs exPairs) Store.empty).2 = (0, "1") := by
  decide +kernel
/-- the later score of `x` wins; `ZRANGE` order is (score, member). -/
example : (run 30 top_k_redis_importHeapScript ["hk"] (heapArgs exPairs) Store.empty).1 "hk" =
    some (.zset [("y", 1), ("x", 2)]) := by decide +kernel
example : Json.importHeap (fun a b : String => decide (a < b)) [] exPairs = [("y", 1), ("x", 2)] := by decide +kernel
example : ∃ st', run 30 top_k_redis_importHeapScript ["hk"] (heapArgs exPairs) Store.empty = (st', .reply (.int 1)) ∧
    zsetAt st' "hk" = some (Json.importHeap (fun a b : String => decide (a < b)) [] exPairs) ∧
    ∀ k, k ≠ "hk" → st' k = Store.empty k :=
  lua_importHeap_json Store.empty "hk" [] exPairs 30 (by decide) (by decide) (by decide) rfl
/-- a failure case that is covered: a key of the wrong type. -/
example : outcomeTag (run 30 top_k_redis_importHeapScript [exH.key] (heapArgs exPairs) exW).2 =
    (3, msgWrongType) := by decide +kernel
example : (zaddAll exH.key exPairs exW).2 = none := by decide +kernel

/-! ### `equals` (Top-K) -/

def exZ : Store :=
  (Store.empty.set "h1" (.zset [("y", 1), ("x", 2)])).set "h2" (.zset [("y", 1), ("x", 3)])

example : run 30 top_k_redis_equals ["h1", "h2"] [decimal 2] exZ =
    (exZ, boolOutcome (Equals.compareHeaps [("y", 1), ("x", 2)] [("y", 1), ("x", 3)])) :=
  lua_topkEquals_eq exZ "h1" "h2" 2 30 _ _ (by decide +kernel) (by decide +kernel) (by decide +kernel) (by decide +kernel)
example : outcomeTag (run 30 top_k_redis_equals ["h1", "h2"] [decimal 2] exZ).2 = (1, "") := by decide +kernel
example : outcomeTag (run 30 top_k_redis_equals ["h1", "h1"] [decimal 2] exZ).2 = (0, "1") := by decide +kernel
/-- different sizes: the length test answers. -/
example : outcomeTag (run 30 top_k_redis_equals ["h1", "nokey"] [decimal 2] exZ).2 = (1, "") := by decide +kernel
example : Equals.compareHeaps [("y", 1), ("x", 2)] [("y", 1), ("x", 3)] = some false := by decide +kernel

/-- the sorted-set hypotheses are needed: on a key of another type the `pcall`ed `ZRANGE` gives nil
    (miniredis) and `#vals1` raises; `Equals.compareHeaps` is a function of two sorted sets. -/
theorem lua_topkEquals_differs_wrongtype :
    outcomeTag (run 30 top_k_redis_equals [exH.key, "h2"] [decimal 2] exW).2 =
      (3, "attempt to get length of a nil value") := by decide +kernel

/-! ### `harmonicMeanScript`: outside the interpreter's subset -/

theorem lua_harmonicMean_unsupported :
    outcomeTag (run 50 hyperloglog_redis_harmonicMeanScript [exH.key] [decimal 4] exS₁).2 =
      (4, "number literal 0.0") := by decide +kernel

end examples

end Gostatix.LuaHLL
