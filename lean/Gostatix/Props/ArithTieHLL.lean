/-
  ArithTieHLL — arithmetic tie, HyperLogLog `getRegisterIndexAndCount` and the truncations of its callers: the definitions of Generated/Arith.lean (translated from the Go
  sources by extract/arith.go on every run) agree with the hand-written `Nat` model for ALL inputs.
  One file per structure, so that a change of one structure's arithmetic breaks only the obligations
  of the properties of that structure.  A kernel the translator could not translate is missing from
  Generated/Arith.lean and the theorems about it fail to elaborate.  See Props/ArithTie.lean.
-/
import Gostatix.Generated.Arith
import Gostatix.Proofs.GoArith
import Gostatix.Model.CMS
import Gostatix.Model.HLL
import Gostatix.Model.Cuckoo
import Gostatix.Model.Bloom
import Gostatix.Model.Murmur
set_option linter.unusedSimpArgs false

namespace Gostatix.ArithTie
open Gostatix.Generated.Arith Gostatix.GoArith

/-- closes `A % m = B % m` where `A`, `B` are the same sum of `toNat` products, reduced modulo
    2^64 at different places and with the operands in any order (products become atoms of `omega`). -/
local macro "mod64_congr" : tactic =>
  `(tactic| (congr 1; (try simp only [Nat.mul_comm]); omega))

/-! ### HyperLogLog: `getRegisterIndexAndCount` and the truncations of its callers -/

theorem clz64_le (x : Nat) : HLL.clz64 x ≤ 64 := by unfold HLL.clz64; split <;> omega

/-- `uint64(1 + bits.LeadingZeros64(hash << numBytesPerHash))` is `HLL.indexOf`, for EVERY
    `numBytesPerHash` (for 64 and more both sides shift everything out and give 65). -/
theorem tie_hllRegisterIndex (hash nb : UInt64) :
    (hllRegisterIndex hash nb).toNat = HLL.indexOf hash.toNat nb.toNat := by
  have h := clz64_le ((hash.toNat * 2 ^ nb.toNat) % 2 ^ 64)
  simp [hllRegisterIndex, HLL.indexOf, toNat_clz64u, toNat_goShl] at h ⊢
  omega

/-- the `uint8(registerIndex)` of the Redis `Update` loses nothing (the index is at most 65). -/
theorem tie_hllStoredIndexRedis (hash nb : UInt64) :
    (hllStoredIndexRedis (hllRegisterIndex hash nb)).toNat = HLL.indexOf hash.toNat nb.toNat := by
  have h := clz64_le ((hash.toNat * 2 ^ nb.toNat) % 2 ^ 64)
  have h' := tie_hllRegisterIndex hash nb
  simp only [HLL.indexOf] at h' ⊢
  simp [hllStoredIndexRedis, toNat_trunc8, h'] at h ⊢
  omega

/-- `count := hash >> uint(32 - numBytesPerHash)`, before the callers' truncation, in the range
    `numBytesPerHash ≤ 32` (p = log2 of the register count). -/
theorem tie_hllCount (hash nb : UInt64) (hp : nb.toNat ≤ 32) :
    (hllCount hash nb).toNat = hash.toNat / 2 ^ (32 - nb.toNat) := by
  have hk : ((32 : UInt64) - nb).toNat = 32 - nb.toNat := by
    rw [UInt64.toNat_sub]
    have : (32 : UInt64).toNat = 32 := rfl
    omega
  simp [hllCount, toNat_goShr, hk]

/-- Redis `Update`: the `uint8(count)` passed to `updateRegisters` is `HLL.valueOf`. -/
theorem tie_hllStoredValueRedis (hash nb : UInt64) (hp : nb.toNat ≤ 32) :
    (hllStoredValueRedis (hllCount hash nb)).toNat = HLL.valueOf hash.toNat nb.toNat := by
  have h := tie_hllCount hash nb hp
  simp [hllStoredValueRedis, toNat_trunc8, HLL.valueOf, h]

/-- outside the range (more than 2^32 registers) model and code differ: in Go `32 - p` wraps to a
    shift count ≥ 64 and the count is 0, the `Nat` model truncates `32 - p` to 0. -/
theorem hllValue_differs_above_32 :
    (hllStoredValueRedis (hllCount 1 33)).toNat = 0 ∧ HLL.valueOf 1 33 = 1 := by decide

example : (hllRegisterIndex 1 4).toNat = 60 ∧ HLL.indexOf 1 4 = 60 := by decide
example : (hllRegisterIndex 5 64).toNat = 65 ∧ HLL.indexOf 5 64 = 65 := by decide
example : (hllStoredValueRedis (hllCount 0xABCDEF0123456789 4)).toNat = 0x12
    ∧ HLL.valueOf 0xABCDEF0123456789 4 = 0x12 := by decide


end Gostatix.ArithTie
