/-
  C11Reach — the images of REACHABLE states are well formed, so the codec theorems of C11
  (round trip, byte counts), C18 (truncation) and C10 (JSON) apply to every state the five
  in-memory structures can actually reach.

  Props/C11.lean and Props/C18.lean quantify over image records `s` with `s.WF`.  This file closes
  the gap between those records and the operational models (Model/Bloom.lean, CMS.lean, HLL.lean,
  Cuckoo.lean with `BucketMem`, TopK.lean):

    reachable model state  --imgOf…-->  image record,   and   `(imgOf… state).WF`.

  WHAT IS PROVED, per structure (definitions and invariants: Proofs/C11Reach.lean)

  * image functions `imgOfBloom`, `imgOfCMS`, `imgOfHLL`, `imgOfCuckoo`/`imgOfBucket`,
    `imgOfTopK`: field by field what the Go `WriteTo` functions write (bloom_filter.go +
    bitset_mem.go + bitset.WriteTo, count_min_sketch.go, hyperloglog.go, cuckoo_filter.go +
    bucket_mem.go, top_k.go) and what the harness lines `enc.<kind>` of s_persist.go compare.
    Fields the model state does not carry are explicit arguments with the hypothesis `< 2^64`
    (they are Go `uint64`/`float64` values, so the hypothesis always holds in the code):
    `allSum` (CMS; for histories its actual value `ownSum`/`tkTotal` is also provided),
    `numBytesPerHash` and the bit pattern of `correctionBias` (HLL), the bit patterns of
    `errorRate`/`accuracy` (Top-K).  Strings are mapped to bytes by `strBytes` (UTF-8 bytes of
    the model's `String`); the general cuckoo/Top-K theorems take any encoder `enc`.
    The Bloom image is shown to lose nothing (`C11_bloom_img_bits`), and the HLL image too as
    long as the offered register values are bytes (`C11_hll_img_regs`).

  * reachable states: a constructor followed by ANY history of the structure's operations —
      Bloom  : `Bloom.run probes (Bloom.new size k) ops`, ops = Insert/Lookup, any probe lists;
      CMS    : `CMSHist` = `new rows cols`, then `update pos c` / `merge other` where `other` is
               again any `CMSHist` (a failing Merge — dimensions differ — changes nothing);
      HLL    : `HLLHist` = `new m`, `update idx val` (a panicking Update, finding D4, changes
               nothing), `merge other`;
      Cuckoo : `Cuckoo.run (BucketMem.ops emp) alt (Mem.empty …) ops` with `COp` = Insert
               (destructive or not, any side, any slot choices, succeeding or failing with or
               without roll-back) / Remove / Lookup, ANY positions (in range or not), any `alt`,
               any fingerprints — the empty one of finding D3 included; and the byte-level
               `runB` of Proofs/C02Concrete.lean (positions computed by `getPositions` from the
               element bytes, murmur3 included) for ALL byte strings, no validity hypothesis;
      Top-K  : `tkRun (tkInit k rows cols) ops`, ops = Insert(name, positions, count), any
               positions, any counts (the Go code panics on count 0; the theorem does not care);
               `TopK.runInserts posOf` is the special case (`runInserts_eq_tkRun`).

  * `C11_reachable_wf_<x>`: the image of every such state is `WF`.  Hypotheses:
      - constructor parameters `< 2^64` (they are Go `uint`/`uint64`: always true in the code).
        `rows, cols ≥ 1` (else `NewCountMinSketch` fails), `m` a power of two ≠ 0, bloom
        `size ≥ 1` are what the constructors need to succeed; the WF theorems do not need them
        and do not assume them.
      - NO-OVERFLOW (the exact boundary between model and code: the models count in `Nat`, the
        Go counters are `uint64` and wrap):
          CMS   `h.total < 2^64`   (all counts that reached the matrix, merged sketches included)
          Top-K `tkTotal ops < 2^64`
          Cuckoo `numInserts ops < 2^64` (bounds `length`, which finding D3 lets grow without
                 storing anything; `C11_cuckoo_length_needs_bound`)
        Without them the MODEL state leaves WF (`decide` examples below) whereas the Go state
        stays a `uint64` (it wraps): beyond the bound model and code disagree, inside it they
        agree and the image is WF.
      - string lengths `< 2^64`: for the byte-level cuckoo histories this is PROVED
        (fingerprints have at most 20 digits); for the abstract `COp` histories and for Top-K
        names it is a hypothesis on the inserted strings (Go `len` is an `int`: always true).
        No `decide` counter-example exists for these (nor for the parameter ranges): a violating
        state contains a list of 2^64 bytes / a number no Go variable can hold; where a
        witness can at least be STATED it is a theorem (`C11_bloom_size_needs_uint`,
        `C11_cuckoo_length_leaves_wf`).
    There is NO clause of the binary `WF` predicates that reachability fails to imply: in
    particular the D3 states (empty fingerprint counted but not stored, `length` ≠ occupied
    slots) have well-formed images and round-trip (`exD3`).

  * corollaries `C11_roundtrip_reachable_<x>`, `C11_count_reachable_<x>`,
    `C18_truncated_reachable_<x>` (plug the above into C11/C18), and for JSON
    `C10_roundtrip_reachable_<x>`:
      - Bloom/CMS/HLL: the C10 round trips are unconditional; stated for the reachable states.
      - Cuckoo: `CuckooMem.WF` (Proofs/Json.lean) additionally needs `bucket.length =
        #non-empty slots`, which holds along histories of VALID operations (non-empty
        fingerprint, positions in range: C13) — `C10_roundtrip_reachable_cuckoo` — and FAILS for
        the reachable D3 states (`C10_cuckooMem_counterexample` in C10.lean, `exD3_json` here):
        a real gap of the code, not of the proof.
      - Top-K: needs `rows, cols ≥ 1` and every inserted name fixed by the JSON UTF-8 coercion
        (finding D23); then every tracked name is (`C10_roundtrip_reachable_topk`).

  The image functions were additionally cross-checked against the Go code: for one history per
  structure (bloom 48 bits / 3 inserts; CMS 2x3 with a merge; HLL m = 128 with a merge; cuckoo
  4x3 with a hole; the D3 state; Top-K 2x3, k = 2, five inserts with an eviction) the bytes
  `enc… (imgOf… state)` computed by the model equal the bytes `WriteTo` produced (see the report).

  WHAT IS NOT PROVED / MODEL BOUNDARIES
  * `length - 1` in `Cuckoo.remove`/`BucketMem.remove` is truncated subtraction in the model and
    wraps in Go.  For valid histories no decrement happens at 0 (C13_remove_present).  In a D3
    state it does: `Remove` of an element with the empty fingerprint "finds" an empty slot and
    decrements a zero counter — Go: 2^64-1 (checked by running the code, see the report), model:
    0 (`exD3_remove`).  Both images are WF and round-trip; they are different images.
  * Bloom: `bitset.Set` beyond the bitset length would GROW the bitset; probes are always
    `< size` in the code (C01_probe_in_range), the model ignores out-of-range probes.
    `NewMemBloomFilterFromBitSet(empty slice)` (bitset of length 0 under `size = 1`) is not a
    `Bloom.new` state.  For `size > 2^64 - 64` bitset's own `wordsNeeded` is capped (one word
    fewer than `(size+63)/64`); such a filter cannot be allocated.
  * HLL: `HLL.update` takes any `val : Nat`; the code offers `uint8(count)`.  The image truncates
    (`UInt8.ofNat`), so it is faithful exactly under `ValsOK` (`C11_hll_img_needs_bytes`).
  * ReadFrom/Import are not operations of the histories here (C19 covers imports).
-/
import Gostatix.Proofs.C11Reach
import Gostatix.Props.C10
import Gostatix.Props.C13
import Gostatix.Props.C02Concrete
namespace Gostatix.Codec
open Gostatix.Reach Gostatix.Cuckoo

/-! ## Bloom filter -/

/-- **reachable ⇒ WF.**  `NewMemBloomFilterWithParameters`/`…FromBitSet` (size and numHashes are
    `uint`s), then any Insert/Lookup history with any probe lists. -/
theorem C11_reachable_wf_bloom {E : Type} (probes : E → List Nat) (size k : Nat)
    (hs : size < 2 ^ 64) (hk : k < 2 ^ 64) (ops : List (BloomOp E)) :
    (imgOfBloom (Bloom.run probes (Bloom.new size k) ops)).WF := by
  have hp := bloom_run_params probes (Bloom.new size k) ops
  have hl := Bloom.run_length probes (Bloom.new size k) ops
  have h1 : max size 1 < 2 ^ 64 := by omega
  have h2 : max k 1 < 2 ^ 64 := by omega
  apply imgOfBloom_wf
  · rw [hp.1]; exact h1
  · rw [hp.2]; exact h2
  · rw [hl]; simpa [Bloom.new] using h1

/-- the three size fields of the image agree (for `size ≥ 1`: `BloomFilter.size`,
    `BitSetMem.size` and `bitset.length` are the same number) -/
theorem C11_bloom_img_sizes {E : Type} (probes : E → List Nat) (size k : Nat) (hs : 1 ≤ size)
    (ops : List (BloomOp E)) :
    let img := imgOfBloom (Bloom.run probes (Bloom.new size k) ops)
    img.size = size ∧ img.bsSize = size ∧ img.bsLen = size := by
  have hp := bloom_run_params probes (Bloom.new size k) ops
  have hl := Bloom.run_length probes (Bloom.new size k) ops
  have h1 : max size 1 = size := by omega
  refine ⟨?_, ?_, ?_⟩
  · show (Bloom.run probes (Bloom.new size k) ops).size = size
    rw [hp.1]; exact h1
  · show (Bloom.run probes (Bloom.new size k) ops).bits.length = size
    rw [hl]; simpa [Bloom.new] using h1
  · show (Bloom.run probes (Bloom.new size k) ops).bits.length = size
    rw [hl]; simpa [Bloom.new] using h1

/-- the image loses nothing: bit `i` of the state is bit `i mod 64` of word `i / 64` -/
theorem C11_bloom_img_bits (b : Bloom) (i : Nat) (hi : i < b.bits.length) :
    ((imgOfBloom b).words.getD (i / 64) 0).testBit (i % 64) = b.bits.getD i false :=
  packN_testBit _ _ i (by unfold wordsNeeded; omega)

/-- a size that is not a `uint` has no well-formed image (and no Go counterpart) -/
theorem C11_bloom_size_needs_uint : ¬ (imgOfBloom (Bloom.new (2 ^ 64) 1)).WF := by
  intro h
  have : max (2 ^ 64) 1 < 2 ^ 64 := h.1
  omega

theorem C11_roundtrip_reachable_bloom {E : Type} (probes : E → List Nat) (size k : Nat)
    (hs : size < 2 ^ 64) (hk : k < 2 ^ 64) (ops : List (BloomOp E)) :
    let img := imgOfBloom (Bloom.run probes (Bloom.new size k) ops)
    ∀ rest, Dec.run decBloom (encBloom img ++ rest) = some (img, rest) :=
  C11_roundtrip_bloom _ (C11_reachable_wf_bloom probes size k hs hk ops)

theorem C11_count_reachable_bloom {E : Type} (probes : E → List Nat) (size k : Nat)
    (hs : size < 2 ^ 64) (hk : k < 2 ^ 64) (ops : List (BloomOp E)) :
    let img := imgOfBloom (Bloom.run probes (Bloom.new size k) ops)
    (encBloom img).length = countBloom img :=
  C11_count_bloom _ (C11_reachable_wf_bloom probes size k hs hk ops)

theorem C18_truncated_reachable_bloom {E : Type} (probes : E → List Nat) (size k : Nat)
    (hs : size < 2 ^ 64) (hk : k < 2 ^ 64) (ops : List (BloomOp E)) :
    let img := imgOfBloom (Bloom.run probes (Bloom.new size k) ops)
    ∀ p, p <+: encBloom img → p ≠ encBloom img → Dec.run decBloom p = none :=
  C18_truncated_bloom _ (C11_reachable_wf_bloom probes size k hs hk ops)

/-- JSON side: the reachable in-memory filter (`BitSetMem.size = bitset.length`) is reproduced
    exactly by Export/Import, whatever instance it is imported into -/
theorem C10_roundtrip_reachable_bloom {E : Type} (probes : E → List Nat) (size k : Nat)
    (ops : List (BloomOp E)) (t : Json.BloomMem) :
    let b := Bloom.run probes (Bloom.new size k) ops
    let s : Json.BloomMem := ⟨b.size, b.k, b.bits.length, b.bits⟩
    Json.BloomMem.importDoc s.exportDoc t = s :=
  Json.C10_roundtrip_bloomMem_exact _ t rfl

/-! ## Count-Min sketch -/

/-- **reachable ⇒ WF** under the no-overflow hypothesis `h.total < 2^64`. -/
theorem C11_reachable_wf_cms (h : CMSHist) (hr : h.rows < 2 ^ 64) (hc : h.cols < 2 ^ 64)
    (hno : h.total < 2 ^ 64) (allSum : Nat) (ha : allSum < 2 ^ 64) :
    (imgOfCMS h.state allSum).WF := by
  obtain ⟨h1, h2, h3, h4⟩ := h.inv
  exact imgOfCMS_wf h.state allSum h.total (by rw [h1, h2]; exact h3) h4
    (by rw [h1]; exact hr) (by rw [h2]; exact hc) ha hno

/-- with the `allSum` the code actually holds (sum of the receiver's own Update counts) -/
theorem C11_reachable_wf_cms_ownSum (h : CMSHist) (hr : h.rows < 2 ^ 64) (hc : h.cols < 2 ^ 64)
    (hno : h.total < 2 ^ 64) : (imgOfCMS h.state h.ownSum).WF :=
  C11_reachable_wf_cms h hr hc hno _ (Nat.lt_of_le_of_lt h.ownSum_le_total hno)

/-- **the no-overflow hypothesis is needed**: one `Update(x, 2^64)` — or two sketches holding
    `2^63` merged — puts `2^64` into a cell of the MODEL (the Go cell wraps to 0: beyond the
    bound model and code disagree). -/
example : ¬ (imgOfCMS (CMSHist.update (.new 1 1) [0] (2 ^ 64)).state 0).WF := by decide
example :
    let a := CMSHist.update (.new 1 2) [1] (2 ^ 63)
    a.total < 2 ^ 64 ∧ (imgOfCMS a.state 0).WF ∧ (CMSHist.merge a a).total = 2 ^ 64 ∧
      ¬ (imgOfCMS (CMSHist.merge a a).state 0).WF := by decide

theorem C11_roundtrip_reachable_cms (h : CMSHist) (hr : h.rows < 2 ^ 64) (hc : h.cols < 2 ^ 64)
    (hno : h.total < 2 ^ 64) (allSum : Nat) (ha : allSum < 2 ^ 64) :
    ∀ rest, Dec.run decCMS (encCMS (imgOfCMS h.state allSum) ++ rest)
      = some (imgOfCMS h.state allSum, rest) :=
  C11_roundtrip_cms _ (C11_reachable_wf_cms h hr hc hno allSum ha)

theorem C11_count_reachable_cms (h : CMSHist) (hr : h.rows < 2 ^ 64) (hc : h.cols < 2 ^ 64)
    (hno : h.total < 2 ^ 64) (allSum : Nat) (ha : allSum < 2 ^ 64) :
    (encCMS (imgOfCMS h.state allSum)).length = countCMS (imgOfCMS h.state allSum) :=
  C11_count_cms _ (C11_reachable_wf_cms h hr hc hno allSum ha)

theorem C18_truncated_reachable_cms (h : CMSHist) (hr : h.rows < 2 ^ 64) (hc : h.cols < 2 ^ 64)
    (hno : h.total < 2 ^ 64) (allSum : Nat) (ha : allSum < 2 ^ 64) :
    ∀ p, p <+: encCMS (imgOfCMS h.state allSum) → p ≠ encCMS (imgOfCMS h.state allSum) →
      Dec.run decCMS p = none :=
  C18_truncated_cms _ (C11_reachable_wf_cms h hr hc hno allSum ha)

/-- JSON side: unconditional (C10_roundtrip_cmsMem), here for the reachable state -/
theorem C10_roundtrip_reachable_cms (h : CMSHist) (t : Json.CMSMem) :
    Json.CMSMem.importDoc (Json.CMSMem.exportDoc ⟨h.state, h.ownSum⟩) t = ⟨h.state, h.ownSum⟩ :=
  Json.C10_roundtrip_cmsMem _ t

/-! ## HyperLogLog -/

/-- **reachable ⇒ WF**: registers are bytes, nothing can overflow. -/
theorem C11_reachable_wf_hll (h : HLLHist) (hm : h.m < 2 ^ 64) (nbp bias : Nat)
    (h1 : nbp < 2 ^ 64) (h2 : bias < 2 ^ 64) : (imgOfHLL h.state nbp bias).WF := by
  obtain ⟨a, b⟩ := h.inv
  exact ⟨by show h.state.m < 2 ^ 64; rw [a]; exact hm, h1, h2, by
    show (h.state.regs.map UInt8.ofNat).length = h.state.m
    rw [List.length_map, a, b]⟩

/-- the image loses nothing when every offered register value is a byte (always, in the code) -/
theorem C11_hll_img_regs (h : HLLHist) (hv : h.ValsOK) (nbp bias : Nat) :
    (imgOfHLL h.state nbp bias).regs.map UInt8.toNat = h.state.regs :=
  map_toNat_ofNat _ (h.regs_lt hv)

/-- … and only then: a model `update` with value 256 (the code would have cut it to 0 before
    taking the maximum) is not represented by its image -/
theorem C11_hll_img_needs_bytes :
    let h := HLLHist.update (.new 2) 1 256
    (imgOfHLL h.state 1 0).WF ∧ h.state.regs = [0, 256] ∧
      (imgOfHLL h.state 1 0).regs.map UInt8.toNat = [0, 0] := by decide

theorem C11_roundtrip_reachable_hll (h : HLLHist) (hm : h.m < 2 ^ 64) (nbp bias : Nat)
    (h1 : nbp < 2 ^ 64) (h2 : bias < 2 ^ 64) :
    ∀ rest, Dec.run decHLL (encHLL (imgOfHLL h.state nbp bias) ++ rest)
      = some (imgOfHLL h.state nbp bias, rest) :=
  C11_roundtrip_hll _ (C11_reachable_wf_hll h hm nbp bias h1 h2)

theorem C11_count_reachable_hll (h : HLLHist) (hm : h.m < 2 ^ 64) (nbp bias : Nat)
    (h1 : nbp < 2 ^ 64) (h2 : bias < 2 ^ 64) :
    (encHLL (imgOfHLL h.state nbp bias)).length = countHLL (imgOfHLL h.state nbp bias) :=
  C11_count_hll _ (C11_reachable_wf_hll h hm nbp bias h1 h2)

theorem C18_truncated_reachable_hll (h : HLLHist) (hm : h.m < 2 ^ 64) (nbp bias : Nat)
    (h1 : nbp < 2 ^ 64) (h2 : bias < 2 ^ 64) :
    ∀ p, p <+: encHLL (imgOfHLL h.state nbp bias) → p ≠ encHLL (imgOfHLL h.state nbp bias) →
      Dec.run decHLL p = none :=
  C18_truncated_hll _ (C11_reachable_wf_hll h hm nbp bias h1 h2)

/-- JSON side: unconditional (C10_roundtrip_hllMem), here for the reachable state -/
theorem C10_roundtrip_reachable_hll (h : HLLHist) (nbp bias : Nat) (t : Json.HLLMem) :
    Json.HLLMem.importDoc (Json.HLLMem.exportDoc ⟨h.state, nbp, bias⟩) t = ⟨h.state, nbp, bias⟩ :=
  Json.C10_roundtrip_hllMem _ t

/-! ## Cuckoo filter -/

section cuckoo
variable {F : Type} [DecidableEq F] [Inhabited (BucketMem F)]

/-- **reachable ⇒ WF**, abstract histories: any fingerprint type `F` with encoder `enc`, any
    `alt`, any positions, any mode / random choices / outcome.  `hdef` concerns the bucket the
    model reads for an index outside the table (the instance for `String` has no slots). -/
theorem C11_reachable_wf_cuckoo (enc : F → Bytes) (emp : F) (alt : Nat → F → Nat)
    (n bsize fpl retries : Nat) (ops : List (COp F))
    (hn : n < 2 ^ 64) (hb : bsize < 2 ^ 64) (hf : fpl < 2 ^ 64) (hr : retries < 2 ^ 64)
    (hemp : (enc emp).length < 2 ^ 64)
    (hdef : ∀ e ∈ (default : BucketMem F).elements, (enc e).length < 2 ^ 64)
    (hfp : ∀ op ∈ ops, (enc (COp.fp op)).length < 2 ^ 64)
    (hno : numInserts ops < 2 ^ 64) :
    (imgOfCuckoo enc (run (BucketMem.ops emp) alt (Mem.empty emp n bsize fpl retries) ops)).WF := by
  obtain ⟨a, b⟩ := run_ok (P := fun e => (enc e).length < 2 ^ 64) emp hemp hdef alt
    (Mem.empty emp n bsize fpl retries) ops (empty_ok emp hemp n bsize fpl retries) hfp
  obtain ⟨p1, p2, p3, p4⟩ := run_params (o := BucketMem.ops emp) alt (Mem.empty emp n bsize fpl retries) ops
  have hl0 : (Mem.empty emp n bsize fpl retries).length = 0 := rfl
  apply imgOfCuckoo_wf enc _ a
  · rw [p1]; exact hn
  · rw [p2]; exact hb
  · rw [p3]; exact hf
  · omega
  · rw [p4]; exact hr

end cuckoo

/-- the abstract theorem for the actual in-memory structure (`String` fingerprints, `""` the empty
    slot, `[]byte(str)` the bytes): the hypotheses about `""` and the default bucket are discharged -/
theorem C11_reachable_wf_cuckoo_str (alt : Nat → String → Nat) (n bsize fpl retries : Nat)
    (ops : List (COp String))
    (hn : n < 2 ^ 64) (hb : bsize < 2 ^ 64) (hf : fpl < 2 ^ 64) (hr : retries < 2 ^ 64)
    (hfp : ∀ op ∈ ops, (strBytes (COp.fp op)).length < 2 ^ 64) (hno : numInserts ops < 2 ^ 64) :
    (imgOfCuckoo strBytes (run (BucketMem.ops "") alt (Mem.empty "" n bsize fpl retries) ops)).WF :=
  C11_reachable_wf_cuckoo strBytes "" alt n bsize fpl retries ops hn hb hf hr
    (by rw [strBytes_empty]; decide) (by intro e he; cases he) hfp hno

/-- **reachable ⇒ WF**, the in-memory filter on real element bytes: `NewCuckooFilterWithRetries
    (n, bsize, fpl, retries)` and ANY history of Insert/Remove/Lookup of ANY byte strings
    (`getPositions` and murmur3 as coded, finding D3 included).  The string-length clauses of
    `WF` are proved, not assumed. -/
theorem C11_reachable_wf_cuckoo_bytes (n bsize fpl retries : Nat) (h : List BOp)
    (hn : n < 2 ^ 64) (hb : bsize < 2 ^ 64) (hf : fpl < 2 ^ 64) (hr : retries < 2 ^ 64)
    (hno : numInsertsB h < 2 ^ 64) :
    (imgOfCuckoo strBytes (runB (BucketMem.ops "") (Mem.empty "" n bsize fpl retries) h)).WF := by
  have hemp : (strBytes "").length ≤ 80 := by rw [strBytes_empty]; exact Nat.zero_le _
  obtain ⟨a, b⟩ := runB_ok (Mem.empty "" n bsize fpl retries) h (empty_ok "" hemp n bsize fpl retries)
  obtain ⟨p1, p2, p3, p4⟩ := runB_params (o := BucketMem.ops "") (Mem.empty "" n bsize fpl retries) h
  have hl0 : (Mem.empty "" n bsize fpl retries).length = 0 := rfl
  have a' : COK (fun e => (strBytes e).length < 2 ^ 64)
      (runB (BucketMem.ops "") (Mem.empty "" n bsize fpl retries) h) :=
    ⟨a.1, fun b hb' => by
      obtain ⟨k1, k2, k3, k4⟩ := a.2 b hb'
      exact ⟨k1, k2, k3, fun e he => Nat.lt_of_le_of_lt (k4 e he) (by decide)⟩⟩
  apply imgOfCuckoo_wf strBytes _ a'
  · rw [p1]; exact hn
  · rw [p2]; exact hb
  · rw [p3]; exact hf
  · omega
  · rw [p4]; exact hr

/-- **the bound on the number of inserts is needed** (in the model): with the empty fingerprint
    of finding D3 every `Insert` answers true, stores nothing and counts, so `k` inserts give
    `length = k` in a filter with one cell; `2^64` of them leave WF (the Go counter wraps to 0:
    `2^64` calls are out of reach of any execution, this only delimits the model). -/
theorem C11_cuckoo_length_needs_bound (k : Nat) :
    (run (BucketMem.ops "") (fun _ _ => 0) (Mem.empty "" 1 1 20 500)
      (List.replicate k (COp.insert "" 0 false false []))).length = k := by
  have key : ∀ (k l : Nat),
      (run (BucketMem.ops "") (fun _ _ => 0) ⟨1, 1, 20, 500, [BucketMem.new "" 1], l⟩
        (List.replicate k (COp.insert "" 0 false false []))).length = l + k := by
    intro k
    induction k with
    | zero => intro l; rfl
    | succ k ih =>
      intro l
      rw [List.replicate_succ, run_cons]
      have : (step (BucketMem.ops "") (fun _ _ => 0) ⟨1, 1, 20, 500, [BucketMem.new "" 1], l⟩
          (COp.insert "" 0 false false [])).1 = ⟨1, 1, 20, 500, [BucketMem.new "" 1], l + 1⟩ := rfl
      rw [this, ih]; omega
  have := key k 0
  rw [Nat.zero_add] at this
  exact this

theorem C11_cuckoo_length_leaves_wf (k : Nat) (hk : 2 ^ 64 ≤ k) :
    ¬ (imgOfCuckoo strBytes (run (BucketMem.ops "") (fun _ _ => 0) (Mem.empty "" 1 1 20 500)
      (List.replicate k (COp.insert "" 0 false false [])))).WF := by
  intro h
  have h4 : (run (BucketMem.ops "") (fun _ _ => 0) (Mem.empty "" 1 1 20 500)
      (List.replicate k (COp.insert "" 0 false false []))).length < 2 ^ 64 := h.2.2.2.1
  rw [C11_cuckoo_length_needs_bound k] at h4
  omega

section cuckoo
variable {F : Type} [DecidableEq F] [Inhabited (BucketMem F)]

theorem C11_roundtrip_reachable_cuckoo (enc : F → Bytes) (emp : F) (alt : Nat → F → Nat)
    (n bsize fpl retries : Nat) (ops : List (COp F))
    (hn : n < 2 ^ 64) (hb : bsize < 2 ^ 64) (hf : fpl < 2 ^ 64) (hr : retries < 2 ^ 64)
    (hemp : (enc emp).length < 2 ^ 64)
    (hdef : ∀ e ∈ (default : BucketMem F).elements, (enc e).length < 2 ^ 64)
    (hfp : ∀ op ∈ ops, (enc (COp.fp op)).length < 2 ^ 64)
    (hno : numInserts ops < 2 ^ 64) :
    let img := imgOfCuckoo enc (run (BucketMem.ops emp) alt (Mem.empty emp n bsize fpl retries) ops)
    ∀ rest, Dec.run decCuckoo (encCuckoo img ++ rest) = some (img, rest) :=
  C11_roundtrip_cuckoo _
    (C11_reachable_wf_cuckoo enc emp alt n bsize fpl retries ops hn hb hf hr hemp hdef hfp hno)

theorem C11_count_reachable_cuckoo (enc : F → Bytes) (emp : F) (alt : Nat → F → Nat)
    (n bsize fpl retries : Nat) (ops : List (COp F))
    (hn : n < 2 ^ 64) (hb : bsize < 2 ^ 64) (hf : fpl < 2 ^ 64) (hr : retries < 2 ^ 64)
    (hemp : (enc emp).length < 2 ^ 64)
    (hdef : ∀ e ∈ (default : BucketMem F).elements, (enc e).length < 2 ^ 64)
    (hfp : ∀ op ∈ ops, (enc (COp.fp op)).length < 2 ^ 64)
    (hno : numInserts ops < 2 ^ 64) :
    let img := imgOfCuckoo enc (run (BucketMem.ops emp) alt (Mem.empty emp n bsize fpl retries) ops)
    (encCuckoo img).length = countCuckoo img :=
  C11_count_cuckoo _
    (C11_reachable_wf_cuckoo enc emp alt n bsize fpl retries ops hn hb hf hr hemp hdef hfp hno)

theorem C18_truncated_reachable_cuckoo (enc : F → Bytes) (emp : F) (alt : Nat → F → Nat)
    (n bsize fpl retries : Nat) (ops : List (COp F))
    (hn : n < 2 ^ 64) (hb : bsize < 2 ^ 64) (hf : fpl < 2 ^ 64) (hr : retries < 2 ^ 64)
    (hemp : (enc emp).length < 2 ^ 64)
    (hdef : ∀ e ∈ (default : BucketMem F).elements, (enc e).length < 2 ^ 64)
    (hfp : ∀ op ∈ ops, (enc (COp.fp op)).length < 2 ^ 64)
    (hno : numInserts ops < 2 ^ 64) :
    let img := imgOfCuckoo enc (run (BucketMem.ops emp) alt (Mem.empty emp n bsize fpl retries) ops)
    ∀ p, p <+: encCuckoo img → p ≠ encCuckoo img → Dec.run decCuckoo p = none :=
  C18_truncated_cuckoo _
    (C11_reachable_wf_cuckoo enc emp alt n bsize fpl retries ops hn hb hf hr hemp hdef hfp hno)

end cuckoo

theorem C11_roundtrip_reachable_cuckoo_bytes (n bsize fpl retries : Nat) (h : List BOp)
    (hn : n < 2 ^ 64) (hb : bsize < 2 ^ 64) (hf : fpl < 2 ^ 64) (hr : retries < 2 ^ 64)
    (hno : numInsertsB h < 2 ^ 64) :
    let img := imgOfCuckoo strBytes (runB (BucketMem.ops "") (Mem.empty "" n bsize fpl retries) h)
    ∀ rest, Dec.run decCuckoo (encCuckoo img ++ rest) = some (img, rest) :=
  C11_roundtrip_cuckoo _ (C11_reachable_wf_cuckoo_bytes n bsize fpl retries h hn hb hf hr hno)

theorem C11_count_reachable_cuckoo_bytes (n bsize fpl retries : Nat) (h : List BOp)
    (hn : n < 2 ^ 64) (hb : bsize < 2 ^ 64) (hf : fpl < 2 ^ 64) (hr : retries < 2 ^ 64)
    (hno : numInsertsB h < 2 ^ 64) :
    let img := imgOfCuckoo strBytes (runB (BucketMem.ops "") (Mem.empty "" n bsize fpl retries) h)
    (encCuckoo img).length = countCuckoo img :=
  C11_count_cuckoo _ (C11_reachable_wf_cuckoo_bytes n bsize fpl retries h hn hb hf hr hno)

theorem C18_truncated_reachable_cuckoo_bytes (n bsize fpl retries : Nat) (h : List BOp)
    (hn : n < 2 ^ 64) (hb : bsize < 2 ^ 64) (hf : fpl < 2 ^ 64) (hr : retries < 2 ^ 64)
    (hno : numInsertsB h < 2 ^ 64) :
    let img := imgOfCuckoo strBytes (runB (BucketMem.ops "") (Mem.empty "" n bsize fpl retries) h)
    ∀ p, p <+: encCuckoo img → p ≠ encCuckoo img → Dec.run decCuckoo p = none :=
  C18_truncated_cuckoo _ (C11_reachable_wf_cuckoo_bytes n bsize fpl retries h hn hb hf hr hno)

/-- JSON side: `CuckooMem.WF` (what `Import(Export(·))` needs) holds along histories of VALID
    operations — non-empty fingerprints, first position in range, slot choices in range, `alt`
    staying in the table — from the C13 invariant.  For the D3 states it fails and so does the
    round trip (`C10_cuckooMem_counterexample`, `exD3_json`). -/
theorem C10_reachable_wf_cuckoo (alt : Nat → String → Nat) (n bsize fpl retries : Nat)
    (ops : List (COp String)) (hAlt : ∀ j f, j < n → alt j f < n) (hb : 0 < bsize)
    (hv : ∀ op ∈ ops, ValidOp "" n bsize op) :
    Json.CuckooMem.WF (run (BucketMem.ops "") alt (Mem.empty "" n bsize fpl retries) ops) := by
  have hwf := Mem.C13_wf_preserved "" alt (Mem.empty "" n bsize fpl retries) ops
    (Mem.empty_wf "" n bsize fpl retries) hAlt hb hv
  refine ⟨hwf.nbuckets, ?_⟩
  intro b hb'
  obtain ⟨k1, k2, k3⟩ := hwf.bucket b hb'
  refine ⟨k1, by rw [k2, k1], ?_⟩
  rw [k3]
  unfold occ Json.occupied
  congr 1

theorem C10_roundtrip_reachable_cuckoo (alt : Nat → String → Nat) (n bsize fpl retries : Nat)
    (ops : List (COp String)) (hAlt : ∀ j f, j < n → alt j f < n) (hb : 0 < bsize)
    (hv : ∀ op ∈ ops, ValidOp "" n bsize op) (t : Json.CuckooMem) :
    let s := run (BucketMem.ops "") alt (Mem.empty "" n bsize fpl retries) ops
    Json.CuckooMem.importDoc (Json.CuckooMem.exportDoc s) t = .ok s :=
  Json.C10_roundtrip_cuckooMem_partial _ t (C10_reachable_wf_cuckoo alt n bsize fpl retries ops hAlt hb hv)

/-! ## Top-K -/

/-- **reachable ⇒ WF** under the no-overflow hypothesis `tkTotal ops < 2^64` (every cell of the
    sketch and every tracked frequency is bounded by the sum of all inserted counts). -/
theorem C11_reachable_wf_topk (enc : String → Bytes) (k rows cols : Nat) (ops : List TKOp)
    (hk : k < 2 ^ 64) (hr : rows < 2 ^ 64) (hc : cols < 2 ^ 64)
    (hq : ∀ o ∈ ops, (enc o.1).length < 2 ^ 64) (hno : tkTotal ops < 2 ^ 64)
    (er acc allSum : Nat) (her : er < 2 ^ 64) (hacc : acc < 2 ^ 64) (ha : allSum < 2 ^ 64) :
    (imgOfTopK enc (tkRun (tkInit k rows cols) ops) er acc allSum).WF := by
  obtain ⟨a, b⟩ := tkRun_inv (fun x => (enc x).length < 2 ^ 64) rows cols 0 (tkInit k rows cols) ops
    (tkInit_inv _ k rows cols) hq
  rw [Nat.zero_add] at a
  exact imgOfTopK_wf enc _ er acc allSum rows cols (tkTotal ops) a (by rw [b]; exact hk) hr hc hno
    her hacc ha

/-- with the `allSum` the code actually holds: the sum of the inserted counts -/
theorem C11_reachable_wf_topk_allSum (enc : String → Bytes) (k rows cols : Nat) (ops : List TKOp)
    (hk : k < 2 ^ 64) (hr : rows < 2 ^ 64) (hc : cols < 2 ^ 64)
    (hq : ∀ o ∈ ops, (enc o.1).length < 2 ^ 64) (hno : tkTotal ops < 2 ^ 64)
    (er acc : Nat) (her : er < 2 ^ 64) (hacc : acc < 2 ^ 64) :
    (imgOfTopK enc (tkRun (tkInit k rows cols) ops) er acc (tkTotal ops)).WF :=
  C11_reachable_wf_topk enc k rows cols ops hk hr hc hq hno er acc _ her hacc hno

/-- **the no-overflow hypothesis is needed**: one `Insert("a", 2^64)` (model; the Go cell and the
    tracked frequency wrap to 0) -/
example : ¬ (imgOfTopK strBytes (tkRun (tkInit 1 1 1) [("a", [0], 2 ^ 64)]) 0 0 0).WF := by
  decide +kernel

theorem C11_roundtrip_reachable_topk (enc : String → Bytes) (k rows cols : Nat) (ops : List TKOp)
    (hk : k < 2 ^ 64) (hr : rows < 2 ^ 64) (hc : cols < 2 ^ 64)
    (hq : ∀ o ∈ ops, (enc o.1).length < 2 ^ 64) (hno : tkTotal ops < 2 ^ 64)
    (er acc allSum : Nat) (her : er < 2 ^ 64) (hacc : acc < 2 ^ 64) (ha : allSum < 2 ^ 64) :
    let img := imgOfTopK enc (tkRun (tkInit k rows cols) ops) er acc allSum
    ∀ rest, Dec.run decTopK (encTopK img ++ rest) = some (img, rest) :=
  C11_roundtrip_topk _ (C11_reachable_wf_topk enc k rows cols ops hk hr hc hq hno er acc allSum her hacc ha)

theorem C11_count_reachable_topk (enc : String → Bytes) (k rows cols : Nat) (ops : List TKOp)
    (hk : k < 2 ^ 64) (hr : rows < 2 ^ 64) (hc : cols < 2 ^ 64)
    (hq : ∀ o ∈ ops, (enc o.1).length < 2 ^ 64) (hno : tkTotal ops < 2 ^ 64)
    (er acc allSum : Nat) (her : er < 2 ^ 64) (hacc : acc < 2 ^ 64) (ha : allSum < 2 ^ 64) :
    let img := imgOfTopK enc (tkRun (tkInit k rows cols) ops) er acc allSum
    (encTopK img).length = countTopK img :=
  C11_count_topk _ (C11_reachable_wf_topk enc k rows cols ops hk hr hc hq hno er acc allSum her hacc ha)

theorem C18_truncated_reachable_topk (enc : String → Bytes) (k rows cols : Nat) (ops : List TKOp)
    (hk : k < 2 ^ 64) (hr : rows < 2 ^ 64) (hc : cols < 2 ^ 64)
    (hq : ∀ o ∈ ops, (enc o.1).length < 2 ^ 64) (hno : tkTotal ops < 2 ^ 64)
    (er acc allSum : Nat) (her : er < 2 ^ 64) (hacc : acc < 2 ^ 64) (ha : allSum < 2 ^ 64) :
    let img := imgOfTopK enc (tkRun (tkInit k rows cols) ops) er acc allSum
    ∀ p, p <+: encTopK img → p ≠ encTopK img → Dec.run decTopK p = none :=
  C18_truncated_topk _ (C11_reachable_wf_topk enc k rows cols ops hk hr hc hq hno er acc allSum her hacc ha)

/-- the same for `TopK.runInserts` (positions a function of the name, as in C04) -/
theorem C11_reachable_wf_topk_runInserts (enc : String → Bytes) (posOf : String → List Nat)
    (k rows cols : Nat) (ops : List (String × Nat))
    (hk : k < 2 ^ 64) (hr : rows < 2 ^ 64) (hc : cols < 2 ^ 64)
    (hq : ∀ o ∈ ops, (enc o.1).length < 2 ^ 64) (hno : sumL (ops.map (·.2)) < 2 ^ 64)
    (er acc allSum : Nat) (her : er < 2 ^ 64) (hacc : acc < 2 ^ 64) (ha : allSum < 2 ^ 64) :
    (imgOfTopK enc (TopK.runInserts posOf (tkInit k rows cols) ops) er acc allSum).WF := by
  rw [runInserts_eq_tkRun]
  apply C11_reachable_wf_topk enc k rows cols _ hk hr hc _ _ er acc allSum her hacc ha
  · intro o ho
    obtain ⟨o', ho', rfl⟩ := List.mem_map.1 ho
    exact hq o' ho'
  · simpa [tkTotal, List.map_map, Function.comp_def] using hno

/-- JSON side: `rows, cols ≥ 1` and every INSERTED name fixed by the UTF-8 coercion of
    `encoding/json` (finding D23) — then every tracked name is, and Export/Import reproduces the
    state (`k`, rates, sketch with `allSum`, heap slice in order). -/
theorem C10_roundtrip_reachable_topk (utf8fix : String → String) (k rows cols : Nat)
    (ops : List TKOp) (hr : 0 < rows) (hc : 0 < cols) (hfix : ∀ o ∈ ops, utf8fix o.1 = o.1)
    (er acc : Nat) (t : Json.TopKMem String) :
    let r := tkRun (tkInit k rows cols) ops
    let s : Json.TopKMem String := ⟨r.k, er, acc, ⟨r.sketch, tkTotal ops⟩, r.heap.toList⟩
    Json.TopKMem.importDoc (s.exportDoc.jsonTrip utf8fix) t = .ok s := by
  obtain ⟨a, _⟩ := tkRun_inv (fun x => utf8fix x = x) rows cols 0 (tkInit k rows cols) ops
    (tkInit_inv _ k rows cols) hfix
  exact Json.C10_roundtrip_topkMem_partial utf8fix _ t (by show 0 < (tkRun _ ops).sketch.rows; rw [a.srows]; exact hr)
    (by show 0 < (tkRun _ ops).sketch.cols; rw [a.scols]; exact hc) (fun e he => (a.entries e he).1)

/-! ## non-vacuity: concrete histories, all hypotheses discharged by `decide`, the image and the
    round trip through the byte-level codec evaluated by the kernel -/

/-! ### Bloom: 70 bits (two words), three probes per element, inserts and lookups -/

def exBloomProbes (e : Nat) : List Nat := Bloom.probesOf (e * 7 + 1) (e * 13 + 5) 3 70
def exBloomOps : List (BloomOp Nat) := [.insert 1, .lookup 2, .insert 5, .insert 9, .lookup 1]
def exBloomState : Bloom := Bloom.run exBloomProbes (Bloom.new 70 3) exBloomOps

theorem exBloomState_wf : (imgOfBloom exBloomState).WF :=
  C11_reachable_wf_bloom exBloomProbes 70 3 (by decide) (by decide) exBloomOps
/-- the image: probes 8,26,45 / 36,36,37 / 64,46,29 -/
example : imgOfBloom exBloomState = ⟨70, 3, 70, 70, [105759878676736, 1]⟩ := by decide +kernel
example : Dec.run decBloom (encBloom (imgOfBloom exBloomState) ++ [0xAA])
    = some (imgOfBloom exBloomState, [0xAA]) := by decide +kernel
example : (encBloom (imgOfBloom exBloomState)).length = 48 := by
  rw [C11_count_bloom _ exBloomState_wf]; decide +kernel
example : Dec.run decBloom ((encBloom (imgOfBloom exBloomState)).take 47) = none := by
  apply C18_truncated_bloom _ exBloomState_wf _ (List.take_prefix _ _)
  intro e
  have hl := congrArg List.length e
  rw [List.length_take, C11_count_bloom _ exBloomState_wf] at hl
  revert hl; decide +kernel

/-! ### CMS: two updates, a successful merge of a sketch with its own update, a rejected merge -/

def exCMSHist : CMSHist :=
  .merge (.merge (.update (.update (.new 2 3) [1, 2] 5) [0, 2] 7) (.update (.new 2 3) [1, 1] 4))
    (.update (.new 1 1) [0] (2 ^ 64))
example : exCMSHist.state = ⟨2, 3, [[7, 9, 0], [0, 4, 12]]⟩ ∧ exCMSHist.total = 16 ∧
    exCMSHist.ownSum = 12 := by decide
example : (imgOfCMS exCMSHist.state exCMSHist.ownSum).WF :=
  C11_reachable_wf_cms_ownSum exCMSHist (by decide) (by decide) (by decide)
example : Dec.run decCMS (encCMS (imgOfCMS exCMSHist.state 12) ++ [0xAA])
    = some (⟨2, 3, 12, [[7, 9, 0], [0, 4, 12]]⟩, [0xAA]) := by decide +kernel
example : Dec.run decCMS ((encCMS (imgOfCMS exCMSHist.state 12)).take 71) = none := by
  apply C18_truncated_reachable_cms exCMSHist (by decide) (by decide) (by decide) 12 (by decide) _
    (List.take_prefix _ _)
  intro e
  have hl := congrArg List.length e
  rw [List.length_take, C11_count_reachable_cms exCMSHist (by decide) (by decide) (by decide) 12 (by decide)] at hl
  revert hl; decide +kernel

/-! ### HLL: updates (one of them out of range: panics, no effect), a merge, a rejected merge -/

def exHLLHist : HLLHist :=
  .merge (.merge (.update (.update (.update (.new 4) 1 200) 3 7) 9 1) (.update (.new 4) 1 255))
    (.new 8)
example : exHLLHist.state = ⟨4, [0, 255, 0, 7]⟩ ∧ exHLLHist.ValsOK := by decide
example : (imgOfHLL exHLLHist.state 2 0x3FE1C3B13B13B13B).WF :=
  C11_reachable_wf_hll exHLLHist (by decide) _ _ (by decide) (by decide)
example : (imgOfHLL exHLLHist.state 2 0).regs.map UInt8.toNat = exHLLHist.state.regs :=
  C11_hll_img_regs exHLLHist (by decide) 2 0
example : Dec.run decHLL (encHLL (imgOfHLL exHLLHist.state 2 0x3FE1C3B13B13B13B) ++ [0xAA])
    = some (⟨4, 2, 0x3FE1C3B13B13B13B, [0, 255, 0, 7]⟩, [0xAA]) := by decide +kernel

/-! ### Cuckoo, abstract history: 3 buckets of 3 slots; seven inserts (the seventh relocates "12"
    from the full bucket 0 to bucket 2), a remove that leaves a hole in the MIDDLE of bucket 1,
    an insert with the empty fingerprint (D3), a failing destructive insert -/

def exAlt (j : Nat) (f : String) : Nat := if f = "12" then 2 else (j + 1) % 3
def exCOps : List (COp String) :=
  [.insert "11" 0 false true [], .insert "12" 0 false true [], .insert "13" 0 false true [],
   .insert "21" 1 false true [], .insert "22" 1 false true [], .insert "23" 1 false true [],
   .insert "14" 0 false true [1, 0], .remove "22" 1, .insert "" 1 false true [], .lookup "12" 0]
def exCState : Cuckoo (BucketMem String) :=
  run (BucketMem.ops "") exAlt (Mem.empty "" 3 3 2 5) exCOps

example : exCState = ⟨3, 3, 2, 5,
    [⟨3, ["11", "14", "13"], 3⟩, ⟨3, ["21", "", "23"], 2⟩, ⟨3, ["12", "", ""], 1⟩], 7⟩ := by
  decide +kernel
theorem exCState_wf : (imgOfCuckoo strBytes exCState).WF :=
  C11_reachable_wf_cuckoo_str exAlt 3 3 2 5 exCOps (by decide) (by decide) (by decide)
    (by decide) (by decide +kernel) (by decide)
example : Dec.run decCuckoo (encCuckoo (imgOfCuckoo strBytes exCState) ++ [0xAA])
    = some (imgOfCuckoo strBytes exCState, [0xAA]) := by decide +kernel
example : (encCuckoo (imgOfCuckoo strBytes exCState)).length = 172 := by
  rw [C11_count_cuckoo _ exCState_wf]; decide +kernel

/-! ### Cuckoo, byte-level history (real `getPositions`/murmur3): 4 buckets of 3 slots, two-digit
    fingerprints.  "w15", "w23", "w39" fill bucket 1; "w3" (both candidates = bucket 1) evicts
    "18" (= "w15") from slot 0 into its alternate bucket 2 — one relocation; removing "w23"
    leaves the hole in the middle of bucket 1; "w15" is still found. -/

def exBHist : List BOp :=
  [.insert (bytes "w15") false true [0, 0, 0], .insert (bytes "w23") false true [0, 0, 0],
   .insert (bytes "w39") false true [0, 0, 0], .insert (bytes "w3") false true [0, 0, 0],
   .remove (bytes "w23"), .lookup (bytes "w15")]
def exBState : Cuckoo (BucketMem String) := runB (BucketMem.ops "") (Mem.empty "" 4 3 2 3) exBHist

example : positions 4 2 (bytes "w15") = ("18", 1, 2) ∧ positions 4 2 (bytes "w3") = ("13", 1, 1) ∧
    (runB (BucketMem.ops "") (Mem.empty "" 4 3 2 3) (exBHist.take 3)).buckets
      = [⟨3, ["", "", ""], 0⟩, ⟨3, ["18", "14", "16"], 3⟩, ⟨3, ["", "", ""], 0⟩, ⟨3, ["", "", ""], 0⟩] ∧
    exBState = ⟨4, 3, 2, 3,
      [⟨3, ["", "", ""], 0⟩, ⟨3, ["13", "", "16"], 2⟩, ⟨3, ["18", "", ""], 1⟩, ⟨3, ["", "", ""], 0⟩], 3⟩ ∧
    lookupB (BucketMem.ops "") exBState (bytes "w15") = true := by decide +kernel
theorem exBState_wf : (imgOfCuckoo strBytes exBState).WF :=
  C11_reachable_wf_cuckoo_bytes 4 3 2 3 exBHist (by decide) (by decide) (by decide) (by decide)
    (by decide)
example : imgOfCuckoo strBytes exBState = ⟨4, 3, 2, 3, 3,
    [⟨3, 0, [[], [], []]⟩, ⟨3, 2, [[0x31, 0x33], [], [0x31, 0x36]]⟩, ⟨3, 1, [[0x31, 0x38], [], []]⟩,
     ⟨3, 0, [[], [], []]⟩]⟩ := by decide +kernel
example : Dec.run decCuckoo (encCuckoo (imgOfCuckoo strBytes exBState) ++ [0xAA])
    = some (imgOfCuckoo strBytes exBState, [0xAA]) := by decide +kernel
example : (encCuckoo (imgOfCuckoo strBytes exBState)).length = 206 := by
  rw [C11_count_cuckoo _ exBState_wf]; decide +kernel
example : Dec.run decCuckoo ((encCuckoo (imgOfCuckoo strBytes exBState)).take 205) = none := by
  apply C18_truncated_cuckoo _ exBState_wf _ (List.take_prefix _ _)
  intro e
  have hl := congrArg List.length e
  rw [List.length_take, C11_count_cuckoo _ exBState_wf] at hl
  revert hl; decide +kernel

/-! ### the D3 state (`fingerPrintLength = 20`, "a" has a 19-digit hash): reachable, `length = 2`
    over ONE stored fingerprint — its BINARY image is well formed and round-trips (the Go code
    agrees: see the report); its JSON image does not (`CuckooMem.WF` fails: counters) -/

def exD3 : Cuckoo (BucketMem String) :=
  runB (BucketMem.ops "") (Mem.empty "" 4 1 20 3)
    [.insert (bytes "a") false true [0], .insert (bytes "e") false true [0]]
example : exD3 = ⟨4, 1, 20, 3,
    [⟨1, ["14246735316212115860"], 1⟩, ⟨1, [""], 0⟩, ⟨1, [""], 0⟩, ⟨1, [""], 0⟩], 2⟩ := by
  decide +kernel
theorem exD3_wf : (imgOfCuckoo strBytes exD3).WF :=
  C11_reachable_wf_cuckoo_bytes 4 1 20 3 _ (by decide) (by decide) (by decide) (by decide) (by decide)
example : Dec.run decCuckoo (encCuckoo (imgOfCuckoo strBytes exD3))
    = some (imgOfCuckoo strBytes exD3, []) := by decide +kernel
example : (encCuckoo (imgOfCuckoo strBytes exD3)).length = 156 := by
  rw [C11_count_cuckoo _ exD3_wf]; decide +kernel

/-- where model and code part in a D3 state: `Remove("a")` on the NEW filter "finds" the empty
    fingerprint in the empty slot of bucket 0 and decrements two counters that are 0.  Model
    (truncated subtraction): both stay 0.  Go (`uint64`): both become 2^64 - 1 (run on the real
    code).  Either image is WF and round-trips; they are not the same image. -/
theorem exD3_remove :
    (runB (BucketMem.ops "") (Mem.empty "" 4 1 20 3) [.remove (bytes "a")])
      = Mem.empty "" 4 1 20 3 ∧
    (stepB (BucketMem.ops "") (Mem.empty "" 4 1 20 3) (.remove (bytes "a"))).2 = true := by
  decide +kernel

/-- the JSON side of a D3 state: two one-slot buckets are filled, then a DESTRUCTIVE insert of an
    element with the empty fingerprint fails after its single retry has written "" over a stored
    fingerprint (cached bucket length 1 over an empty slot).  Reachable, binary image WF and
    round-tripping — but not `CuckooMem.WF`, and JSON Export/Import gives a different state. -/
def exD3Json : Cuckoo (BucketMem String) :=
  run (BucketMem.ops "") (fun j _ => (j + 1) % 2) (Mem.empty "" 2 1 20 1)
    [.insert "15172694540135229311" 1 false true [], .insert "10000000000000000000" 0 false true [],
     .insert "" 0 true true [0]]
theorem exD3Json_eq :
    exD3Json = ⟨2, 1, 20, 1, [⟨1, [""], 1⟩, ⟨1, ["15172694540135229311"], 1⟩], 2⟩ := by
  decide +kernel
theorem exD3_json :
    (imgOfCuckoo strBytes exD3Json).WF ∧
    Dec.run decCuckoo (encCuckoo (imgOfCuckoo strBytes exD3Json))
      = some (imgOfCuckoo strBytes exD3Json, []) ∧
    ¬ Json.CuckooMem.WF exD3Json ∧
    Json.CuckooMem.importDoc (Json.CuckooMem.exportDoc exD3Json) exD3Json
      = .ok ⟨2, 1, 20, 1, [⟨1, [""], 0⟩, ⟨1, ["15172694540135229311"], 1⟩], 2⟩ := by
  have wf : (imgOfCuckoo strBytes exD3Json).WF :=
    C11_reachable_wf_cuckoo strBytes "" _ 2 1 20 1 _ (by decide) (by decide) (by decide)
      (by decide) (by decide +kernel) (by intro e he; cases he) (by decide +kernel) (by decide)
  refine ⟨wf, ?_, ?_, ?_⟩
  · simpa using C11_roundtrip_cuckoo _ wf []
  · intro h
    rw [exD3Json_eq] at h
    have := (h.bucket ⟨1, [""], 1⟩ (by simp)).2.2
    revert this; decide
  · rw [exD3Json_eq]; decide

/-! ### Top-K: a partially filled heap (2 of k = 3), and a full heap after one eviction (k = 2) -/

def exTKOps : List TKOp :=
  [("a", [1, 2], 2), ("bb", [2, 1], 1), ("dddd", [1, 2], 1), ("bb", [2, 1], 2)]

/-- k = 3, first two inserts: heap holds 2 entries -/
example : (tkRun (tkInit 3 2 3) (exTKOps.take 2)).heap = #[("bb", 1), ("a", 2)] := by decide +kernel
/-- k = 2, all four inserts: "dddd" collides with "a" (estimate 3), "a" (2) is evicted -/
example : (tkRun (tkInit 2 2 3) (exTKOps.take 2)).heap = #[("bb", 1), ("a", 2)] ∧
    (tkRun (tkInit 2 2 3) (exTKOps.take 3)).heap = #[("a", 2), ("dddd", 3)] ∧
    (tkRun (tkInit 2 2 3) exTKOps).heap = #[("bb", 3), ("dddd", 3)] ∧
    (tkRun (tkInit 2 2 3) exTKOps).sketch = ⟨2, 3, [[0, 3, 3], [0, 3, 3]]⟩ ∧
    tkTotal exTKOps = 6 := by decide +kernel

theorem exTK_partial_wf :
    (imgOfTopK strBytes (tkRun (tkInit 3 2 3) (exTKOps.take 2)) 0x3FE0000000000000 0x3FC999999999999A 3).WF :=
  C11_reachable_wf_topk_allSum strBytes 3 2 3 (exTKOps.take 2) (by decide) (by decide) (by decide)
    (by decide +kernel) (by decide) _ _ (by decide) (by decide)
theorem exTK_evicted_wf :
    (imgOfTopK strBytes (tkRun (tkInit 2 2 3) exTKOps) 0x3FE0000000000000 0x3FC999999999999A 6).WF :=
  C11_reachable_wf_topk_allSum strBytes 2 2 3 exTKOps (by decide) (by decide) (by decide)
    (by decide +kernel) (by decide) _ _ (by decide) (by decide)

example : imgOfTopK strBytes (tkRun (tkInit 2 2 3) exTKOps) 0x3FE0000000000000 0x3FC999999999999A 6
    = ⟨2, 0x3FE0000000000000, 0x3FC999999999999A, ⟨2, 3, 6, [[0, 3, 3], [0, 3, 3]]⟩,
        [([0x62, 0x62], 3), ([0x64, 0x64, 0x64, 0x64], 3)]⟩ := by decide +kernel
example : Dec.run decTopK
    (encTopK (imgOfTopK strBytes (tkRun (tkInit 2 2 3) exTKOps) 0x3FE0000000000000 0x3FC999999999999A 6) ++ [0xAA])
    = some (imgOfTopK strBytes (tkRun (tkInit 2 2 3) exTKOps) 0x3FE0000000000000 0x3FC999999999999A 6, [0xAA]) := by
  decide +kernel
example : Dec.run decTopK
    (encTopK (imgOfTopK strBytes (tkRun (tkInit 3 2 3) (exTKOps.take 2)) 0x3FE0000000000000 0x3FC999999999999A 3))
    = some (imgOfTopK strBytes (tkRun (tkInit 3 2 3) (exTKOps.take 2)) 0x3FE0000000000000 0x3FC999999999999A 3, []) := by
  decide +kernel
example : (encTopK (imgOfTopK strBytes (tkRun (tkInit 2 2 3) exTKOps) 0x3FE0000000000000 0x3FC999999999999A 6)).length = 142 := by
  rw [C11_count_topk _ exTK_evicted_wf]; decide +kernel
example : Dec.run decTopK
    ((encTopK (imgOfTopK strBytes (tkRun (tkInit 2 2 3) exTKOps) 0x3FE0000000000000 0x3FC999999999999A 6)).take 134) = none := by
  apply C18_truncated_topk _ exTK_evicted_wf _ (List.take_prefix _ _)
  intro e
  have hl := congrArg List.length e
  rw [List.length_take, C11_count_topk _ exTK_evicted_wf] at hl
  revert hl; decide +kernel

/-- JSON side of the same two histories (ASCII names are fixed by the coercion) -/
example (utf8fix : String → String) (hascii : ∀ s ∈ ["a", "bb", "dddd"], utf8fix s = s)
    (t : Json.TopKMem String) :
    let r := tkRun (tkInit 2 2 3) exTKOps
    let s : Json.TopKMem String := ⟨r.k, 1, 2, ⟨r.sketch, tkTotal exTKOps⟩, r.heap.toList⟩
    Json.TopKMem.importDoc (s.exportDoc.jsonTrip utf8fix) t = .ok s := by
  apply C10_roundtrip_reachable_topk utf8fix 2 2 3 exTKOps (by decide) (by decide)
  intro o ho
  simp only [exTKOps, List.mem_cons, List.not_mem_nil, or_false] at ho
  rcases ho with rfl | rfl | rfl | rfl <;> exact hascii _ (by simp)

/-! ## the image functions against the bytes the Go code wrote

  For one history per structure the positions/probes/register values were printed by the Go code
  (`getIndex`, `getPositions`, `getRegisterIndexAndCount` on the elements "a", "bb", "ccc", …)
  together with the hex dump of what `WriteTo` wrote; the model is run on the same abstract
  history and `enc… (imgOf… state)` is compared with that dump: same length, same big-endian
  value (`beVal`), i.e. the same bytes (kernel evaluation). -/

/-- `NewMemBloomFilterWithParameters(10, 0.1)` (48 bits, 3 hashes), Insert "a", "bb", "ccc" -/
example :
    let bs := encBloom (imgOfBloom (Bloom.run
      (fun (e : Nat) => if e = 0 then [3, 43, 20] else if e = 1 then [22, 33, 45] else [38, 39, 41])
      (Bloom.new 48 3) [.insert 0, .insert 1, .insert 2]))
    bs.length = 40 ∧ beVal bs =
      0x3000000000000000030000000000000030000000000000003000002ac200500008 := by
  decide +kernel

/-- `NewCountMinSketch(2, 3)`: Update("a", 5), Update("bb", 7), Merge of a sketch with
    Update("ccc", 4); `allSum` stays 12 -/
example :
    let h : CMSHist := .merge (.update (.update (.new 2 3) [0, 1] 5) [1, 0] 7) (.update (.new 2 3) [2, 0] 4)
    let bs := encCMS (imgOfCMS h.state h.ownSum)
    bs.length = 72 ∧ beVal bs =
      0x20000000000000003000000000000000c000000000000000500000000000000070000000000000004000000000000000b00000000000000050000000000000000 := by
  decide +kernel

/-- `NewHyperLogLog(128)`: Update "a" (register 2, byte 11), "bb" (register 2, byte 174), Merge of a
    sketch with "ccc" (register 1, byte 247); `numBytesPerHash = 7`, bias `0x3fe6e37ef20b947a`.
    (the dump is `…073fe6e37ef20b947a 00 f7 ae` followed by 125 zero registers) -/
example :
    let h : HLLHist := .merge (.update (.update (.new 128) 2 11) 2 174) (.update (.new 128) 1 247)
    let bs := encHLL (imgOfHLL h.state 7 0x3fe6e37ef20b947a)
    bs.length = 152 ∧ beVal bs = 0x8000000000000000073fe6e37ef20b947a00f7ae * 256 ^ 125 := by
  decide +kernel

/-- `NewCuckooFilterWithRetries(4, 3, 2, 3)`: Insert "w15", "w23", "w39", Remove "w23" (hole in
    the middle of bucket 1) -/
example :
    let bs := encCuckoo (imgOfCuckoo strBytes (runB (BucketMem.ops "") (Mem.empty "" 4 3 2 3)
      [.insert (bytes "w15") false true [], .insert (bytes "w23") false true [],
       .insert (bytes "w39") false true [], .remove (bytes "w23")]))
    bs.length = 204 ∧ beVal bs =
      0x400000000000000030000000000000002000000000000000200000000000000030000000000000003000000000000000000000000000000000000000000000000000000000000000000000000000000030000000000000002000000000000000231380000000000000000000000000000000231360000000000000003000000000000000000000000000000000000000000000000000000000000000000000000000000030000000000000000000000000000000000000000000000000000000000000000 := by
  decide +kernel

/-- `NewTopK(2, 1, 0.2)` (sketch 2 x 3): Insert ("a",2), ("bb",1), ("dddd",1), ("bb",2), ("e",1) —
    "bb" is re-inserted (heap.Remove + Push) and "dddd", "e" are refused -/
example :
    let ops : List TKOp :=
      [("a", [0, 1], 2), ("bb", [1, 0], 1), ("dddd", [1, 2], 1), ("bb", [1, 0], 2), ("e", [2, 1], 1)]
    let bs := encTopK (imgOfTopK strBytes (tkRun (tkInit 2 2 3) ops) 0x3ff0000000000000
      0x3fc999999999999a (tkTotal ops))
    bs.length = 139 ∧ beVal bs =
      0x23ff00000000000003fc999999999999a00000000000000020000000000000003000000000000000700000000000000020000000000000004000000000000000100000000000000030000000000000003000000000000000100000000000000020000000000000001610000000000000002000000000000000262620000000000000003 := by
  decide +kernel

end Gostatix.Codec
