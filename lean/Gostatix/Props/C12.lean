/-
  C12 — merging Count-Min sketches = sketching the combined stream.

  Same setting as C03 (`run`, `PosOK`, `WF` are defined in `Props/C03.lean`): arbitrary
  well-formed position function, histories of `(element, count)` updates.
  The model is functional: `CMS.merge a b` returns the new receiver (`.ok`) or `.err`; in the
  `.err` case nothing is produced, i.e. the receiver `a` is simply still `a`.

  Helper lemmas: `Gostatix/Proofs/CMS.lean`.
-/
import Gostatix.Props.C03
namespace Gostatix.CMS

/-- sequencing of `Merge` results (an error aborts). -/
def Res.bind {α β : Type} : Res α → (α → Res β) → Res β
  | .ok a, f => f a
  | .err, _ => .err

section props
variable {E : Type}

/-- **Merge = union of streams**: merging the sketches of `a` and `b` (same dimensions, same
    position function) gives exactly the sketch of `a ++ b`. -/
theorem C12_merge_union (pos : E → List Nat) (rows cols : Nat) (a b : List (E × Nat))
    (hpos : PosOK pos rows cols) :
    CMS.merge (run pos (CMS.new rows cols) a) (run pos (CMS.new rows cols) b)
      = .ok (run pos (CMS.new rows cols) (a ++ b)) := by
  have da := C03_run_dims pos (CMS.new rows cols) a
  have db := C03_run_dims pos (CMS.new rows cols) b
  have dab := C03_run_dims pos (CMS.new rows cols) (a ++ b)
  have hm := addRows_foldl pos rows cols hpos (CMS.new rows cols) (CMS.new rows cols)
    (new_shape rows cols) (new_shape rows cols) a b
  rw [addRows_new] at hm
  rw [merge_ok _ _ (by rw [da.1, db.1]) (by rw [da.2, db.2])]
  show Res.ok _ = Res.ok _
  congr 1
  exact cms_ext _ _ (by rw [dab.1]; exact da.1) (by rw [dab.2]; exact da.2) hm

/-- general-state version: merging runs from two well-formed states of equal dimensions is the
    run of the concatenated history from the merged states. -/
theorem C12_merge_union_general (pos : E → List Nat) (s₁ s₂ : CMS) (a b : List (E × Nat))
    (h₁ : WF s₁) (h₂ : WF s₂) (hr : s₁.rows = s₂.rows) (hc : s₁.cols = s₂.cols)
    (hpos : PosOK pos s₁.rows s₁.cols) :
    CMS.merge (run pos s₁ a) (run pos s₂ b) = (CMS.merge s₁ s₂).bind
      (fun s => .ok (run pos s (a ++ b))) := by
  have da := C03_run_dims pos s₁ a
  have db := C03_run_dims pos s₂ b
  have h₂' : Shape s₂.m s₁.rows s₁.cols := by rw [hr, hc]; exact h₂
  have hm := addRows_foldl pos s₁.rows s₁.cols hpos s₁ s₂ h₁ h₂' a b
  have dab := C03_run_dims pos { s₁ with m := addRows s₁.m s₂.m } (a ++ b)
  rw [merge_ok s₁ s₂ hr hc, merge_ok _ _ (by rw [da.1, db.1, hr]) (by rw [da.2, db.2, hc])]
  show Res.ok _ = Res.ok _
  congr 1
  exact cms_ext _ _ (by rw [dab.1]; exact da.1) (by rw [dab.2]; exact da.2) hm

/-- `Merge` is commutative on well-formed sketches (as whole results, including the error case). -/
theorem C12_merge_comm (a b : CMS) (ha : WF a) (hb : WF b) : CMS.merge a b = CMS.merge b a := by
  by_cases hr : a.rows = b.rows
  · by_cases hc : a.cols = b.cols
    · have hb' : Shape b.m a.rows a.cols := by rw [hr, hc]; exact hb
      rw [merge_ok a b hr hc, merge_ok b a hr.symm hc.symm]
      show Res.ok _ = Res.ok _
      congr 1
      exact cms_ext _ _ hr hc (addRows_comm a.m b.m a.rows a.cols ha hb')
    · rw [merge_err a b (Or.inr hc), merge_err b a (Or.inr fun h => hc h.symm)]
  · rw [merge_err a b (Or.inl hr), merge_err b a (Or.inl fun h => hr h.symm)]

/-- the matrix form: both merge orders succeed with the same matrix. -/
theorem C12_merge_comm_m (a b : CMS) (ha : WF a) (hb : WF b)
    (hr : a.rows = b.rows) (hc : a.cols = b.cols) :
    ∃ x y, CMS.merge a b = .ok x ∧ CMS.merge b a = .ok y ∧ x.m = y.m := by
  have h := C12_merge_comm a b ha hb
  refine ⟨_, _, merge_ok a b hr hc, ?_, rfl⟩
  rw [← h]; exact merge_ok a b hr hc

/-- merging keeps well-formedness. -/
theorem C12_merge_wf (a b s : CMS) (ha : WF a) (hb : WF b) (h : CMS.merge a b = .ok s) : WF s := by
  unfold merge at h
  split at h
  · cases h
  · split at h
    · cases h
    · rename_i hr hc
      have hr : a.rows = b.rows := Decidable.of_not_not hr
      have hc : a.cols = b.cols := Decidable.of_not_not hc
      cases h
      exact addRows_shape a.m b.m a.rows a.cols ha (by rw [hr, hc]; exact hb)

/-- `Merge` is associative on well-formed sketches: merging three sketches in either grouping
    gives the same result (the same error when the dimensions differ). -/
theorem C12_merge_assoc (a b c : CMS) (ha : WF a) (hb : WF b) (hc : WF c) :
    (CMS.merge a b).bind (fun ab => CMS.merge ab c)
      = (CMS.merge b c).bind (fun bc => CMS.merge a bc) := by
  by_cases h₁ : a.rows = b.rows ∧ a.cols = b.cols
  · by_cases h₂ : b.rows = c.rows ∧ b.cols = c.cols
    · have hb' : Shape b.m a.rows a.cols := by rw [h₁.1, h₁.2]; exact hb
      have hc' : Shape c.m a.rows a.cols := by rw [h₁.1, h₁.2, h₂.1, h₂.2]; exact hc
      rw [merge_ok a b h₁.1 h₁.2, merge_ok b c h₂.1 h₂.2]
      show CMS.merge _ c = CMS.merge a _
      rw [merge_ok { a with m := addRows a.m b.m } c (h₁.1.trans h₂.1) (h₁.2.trans h₂.2),
        merge_ok a { b with m := addRows b.m c.m } h₁.1 h₁.2]
      show Res.ok _ = Res.ok _
      congr 1
      exact cms_ext _ _ rfl rfl (addRows_assoc a.m b.m c.m a.rows a.cols ha hb' hc')
    · have h₂' : b.rows ≠ c.rows ∨ b.cols ≠ c.cols := by
        by_cases e : b.rows = c.rows
        · exact Or.inr fun e' => h₂ ⟨e, e'⟩
        · exact Or.inl e
      rw [merge_ok a b h₁.1 h₁.2, merge_err b c h₂']
      show CMS.merge _ c = Res.err
      apply merge_err
      show a.rows ≠ c.rows ∨ a.cols ≠ c.cols
      rw [h₁.1, h₁.2]; exact h₂'
  · have h₁' : a.rows ≠ b.rows ∨ a.cols ≠ b.cols := by
      by_cases e : a.rows = b.rows
      · exact Or.inr fun e' => h₁ ⟨e, e'⟩
      · exact Or.inl e
    rw [merge_err a b h₁']
    show Res.err = _
    by_cases h₂ : b.rows = c.rows ∧ b.cols = c.cols
    · rw [merge_ok b c h₂.1 h₂.2]
      exact (merge_err a { b with m := addRows b.m c.m } h₁').symm
    · have h₂' : b.rows ≠ c.rows ∨ b.cols ≠ c.cols := by
        by_cases e : b.rows = c.rows
        · exact Or.inr fun e' => h₂ ⟨e, e'⟩
        · exact Or.inl e
      rw [merge_err b c h₂']; rfl

/-- with commutativity, every order/grouping of three well-formed sketches agrees. -/
theorem C12_merge_assoc_comm (a b c : CMS) (ha : WF a) (hb : WF b) (hc : WF c) :
    (CMS.merge a b).bind (fun ab => CMS.merge ab c)
      = (CMS.merge c b).bind (fun cb => CMS.merge cb a) := by
  rw [C12_merge_assoc a b c ha hb hc, C12_merge_comm b c hb hc]
  cases h : CMS.merge c b with
  | err => rfl
  | ok cb => exact C12_merge_comm a cb ha (C12_merge_wf c b cb hc hb h)

/-- merging and then continuing to update = sketching the whole stream. -/
theorem C12_merge_then_update (pos : E → List Nat) (rows cols : Nat) (a b c : List (E × Nat))
    (hpos : PosOK pos rows cols) :
    (CMS.merge (run pos (CMS.new rows cols) a) (run pos (CMS.new rows cols) b)).bind
        (fun s => .ok (run pos s c))
      = .ok (run pos (CMS.new rows cols) (a ++ b ++ c)) := by
  rw [C12_merge_union pos rows cols a b hpos]
  show Res.ok _ = Res.ok _
  congr 1
  simp only [run, List.foldl_append]

/-- every estimate on the merged sketch equals the estimate on the single sketch of the combined
    stream (for every position list, in particular `pos x`). -/
theorem C12_counts_after_merge (pos : E → List Nat) (rows cols : Nat) (a b : List (E × Nat))
    (hpos : PosOK pos rows cols) :
    ∃ s, CMS.merge (run pos (CMS.new rows cols) a) (run pos (CMS.new rows cols) b) = .ok s
      ∧ ∀ x, s.count (pos x) = (run pos (CMS.new rows cols) (a ++ b)).count (pos x) :=
  ⟨_, C12_merge_union pos rows cols a b hpos, fun _ => rfl⟩

/-- hence the merged estimate obeys the C03 bounds w.r.t. the combined stream. -/
theorem C12_merged_bounds [DecidableEq E] (pos : E → List Nat) (rows cols : Nat)
    (a b : List (E × Nat)) (x : E) (hrows : 1 ≤ rows) (hpos : PosOK pos rows cols) :
    ∃ s, CMS.merge (run pos (CMS.new rows cols) a) (run pos (CMS.new rows cols) b) = .ok s
      ∧ trueCount a x + trueCount b x ≤ s.count (pos x)
      ∧ s.count (pos x) ≤ total a + total b := by
  refine ⟨_, C12_merge_union pos rows cols a b hpos, ?_, ?_⟩
  · have := C03_lower pos rows cols (a ++ b) x hrows hpos
    simpa [trueCount, List.filter_append, sumL_append] using this
  · have := C03_upper pos rows cols (a ++ b) x hpos
    simpa [total, sumL_append] using this

/-- dimension mismatch is an error (nothing is produced; the receiver is not modified). -/
theorem C12_mismatch (a b : CMS) (h : a.rows ≠ b.rows ∨ a.cols ≠ b.cols) :
    CMS.merge a b = .err :=
  merge_err a b h

/-- conversely, equal dimensions always merge. -/
theorem C12_match_ok (a b : CMS) (hr : a.rows = b.rows) (hc : a.cols = b.cols) :
    CMS.merge a b = .ok { a with m := addRows a.m b.m } :=
  merge_ok a b hr hc

end props

/-! ### non-vacuity -/

example :
    let a := [(1, 2), (5, 4), (9, 1)]
    let b := [(1, 3), (2, 1), (5, 2), (13, 6)]
    let sa := run exPos (CMS.new 3 4) a
    let sb := run exPos (CMS.new 3 4) b
    CMS.merge sa sb = .ok (run exPos (CMS.new 3 4) (a ++ b))
    ∧ CMS.merge sa sb = CMS.merge sb sa
    ∧ sa ≠ sb ∧ sa.m ≠ (CMS.new 3 4).m
    ∧ (CMS.merge sa sb).bind (fun s => .ok (s.count (exPos 13))) = .ok 7
    ∧ CMS.merge sa (CMS.new 3 5) = .err ∧ CMS.merge sa (CMS.new 2 4) = .err := by decide

end Gostatix.CMS
