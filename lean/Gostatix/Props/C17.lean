/-
  C17 — Equals agrees with observable behaviour.

  For every structure S (both backends) and the transcription `S.equals : S → S → Option Bool`
  of Model/Equals.lean (`none` = Go panic, `some b` = returned boolean, `(false, err)` = `some false`):

    C17_total_S    : WF a → WF b → equals a b ≠ none          (never panics, whatever the parameters)
    C17_sound_S    : WF a → WF b → equals a b = some true → a = b
                     (same parameters AND same payload; every query of the model is a function of
                      this state, so all queries agree; contrapositive: states differing in any
                      stored entry / counter / register / tracked element are reported unequal)
    C17_complete_S : WF a → equals a a = some true
                     (operations are functions of the state, so same parameters + same operations
                      give the same state, which is equal to itself)
    C17_symm_S     : WF a → WF b → equals a b = equals b a
    C17_spec_S     : WF a → WF b → equals a b = some (decide (a = b))      (all of the above at once)

  `WF` describes the states reachable through the constructors and operations: the payload
  dimensions agree with the parameter fields.  Where `WF` carries more than dimensions (Top-K:
  non-nil sketch, float parameters that are positive finite numbers; Redis bloom: the key exists)
  a `…_outside_WF` example shows that the clause is needed, i.e. what the code does without it.
-/
import Gostatix.Proofs.Equals
namespace Gostatix.Equals

/-! ## Bloom filter, in memory -/

/-- `set` was allocated by `bitset.New(length)` / `From` / `ReadFrom`: `len(set) = wordsNeeded(length)`;
    no uint wrap-around in the word count (a bitset of ≥ 2^64-63 bits cannot be allocated). -/
def BloomMem.WF (a : BloomMem) : Prop :=
  a.length ≤ 2 ^ 64 - 64 ∧ a.words.length = wordsNeeded a.length

instance (a : BloomMem) : Decidable a.WF := by unfold BloomMem.WF; infer_instance

theorem C17_total_BloomMem {a b : BloomMem} (ha : a.WF) (hb : b.WF) : a.equals b ≠ none := by
  obtain ⟨hla, hwa⟩ := ha; obtain ⟨hlb, hwb⟩ := hb
  unfold BloomMem.equals bitsetEqual
  split
  · simp
  · split
    · simp
    · next hl =>
      split
      · simp
      · have hl' : a.length = b.length := by omega
        apply forN_goIdxEq_ne_none
        · rw [hwb, ← hl', wordCount_eq_wordsNeeded hla]; exact Nat.le_refl _
        · rw [hwa, wordCount_eq_wordsNeeded hla]; exact Nat.le_refl _

theorem C17_sound_BloomMem {a b : BloomMem} (ha : a.WF) (hb : b.WF)
    (h : a.equals b = some true) : a = b := by
  obtain ⟨hla, hwa⟩ := ha; obtain ⟨hlb, hwb⟩ := hb
  unfold BloomMem.equals bitsetEqual at h
  split at h
  · cases h
  · next hp =>
    split at h
    · cases h
    · next hl =>
      have hp' : a.size = b.size ∧ a.k = b.k := by omega
      have hl' : a.length = b.length := by omega
      have hw : a.words = b.words := by
        split at h
        · next h0 =>
          have h1 : a.words.length = 0 := by rw [hwa, h0]; rfl
          have h2 : b.words.length = 0 := by rw [hwb, ← hl', h0]; rfl
          rw [List.eq_nil_of_length_eq_zero h1, List.eq_nil_of_length_eq_zero h2]
        · exact (forN_goIdxEq_true _ _ _ h
            (by rw [hwb, ← hl', wordCount_eq_wordsNeeded hla])
            (by rw [hwa, wordCount_eq_wordsNeeded hla])).symm
      cases a; cases b; simp_all

theorem C17_complete_BloomMem {a : BloomMem} (ha : a.WF) : a.equals a = some true := by
  obtain ⟨hla, hwa⟩ := ha
  unfold BloomMem.equals bitsetEqual
  simp only [ne_eq, not_true_eq_false, or_self, if_false]
  split
  · rfl
  · apply forN_goIdxEq_self
    rw [hwa, wordCount_eq_wordsNeeded hla]; exact Nat.le_refl _

theorem C17_spec_BloomMem {a b : BloomMem} (ha : a.WF) (hb : b.WF) :
    a.equals b = some (decide (a = b)) :=
  spec_of BloomMem.equals BloomMem.WF (fun _ _ => C17_total_BloomMem) (fun _ _ => C17_sound_BloomMem)
    (fun _ => C17_complete_BloomMem) a b ha hb

theorem C17_symm_BloomMem {a b : BloomMem} (ha : a.WF) (hb : b.WF) : a.equals b = b.equals a :=
  symm_of_spec BloomMem.equals BloomMem.WF (fun _ _ => C17_spec_BloomMem) a b ha hb

/-- differ only in the last word -/
example :
    let a : BloomMem := ⟨128, 3, 128, [5, 0]⟩
    let b : BloomMem := ⟨128, 3, 128, [5, 1]⟩
    a.WF ∧ b.WF ∧ a.equals b = some false ∧ b.equals a = some false := by decide
/-- different parameters (size and hence word count): `some false`, not a panic -/
example :
    let a : BloomMem := ⟨128, 3, 128, [5, 0]⟩
    let b : BloomMem := ⟨64, 3, 64, [5]⟩
    let c : BloomMem := ⟨128, 4, 128, [5, 0]⟩
    a.WF ∧ b.WF ∧ c.WF ∧ a.equals b = some false ∧ b.equals a = some false ∧
      a.equals c = some false := by decide

/-! ## Bloom filter, Redis -/

/-- the bitmap key exists (`newBitSetRedis` always `SET`s it). -/
def BloomRedis.WF (a : BloomRedis) : Prop := a.str.isSome = true

instance (a : BloomRedis) : Decidable a.WF := by unfold BloomRedis.WF; infer_instance

theorem C17_total_BloomRedis {a b : BloomRedis} (_ : a.WF) (_ : b.WF) : a.equals b ≠ none := by
  unfold BloomRedis.equals
  split
  · simp
  · split
    · simp
    · split <;> simp

theorem C17_sound_BloomRedis {a b : BloomRedis} (_ : a.WF) (_ : b.WF)
    (h : a.equals b = some true) : a = b := by
  unfold BloomRedis.equals at h
  split at h
  · cases h
  · next hp =>
    have hp' : a.size = b.size ∧ a.k = b.k := by omega
    split at h
    · cases h
    · next x hx =>
      split at h
      · cases h
      · next y hy =>
        have : x = y := by simpa using h
        cases a; cases b; simp_all

theorem C17_complete_BloomRedis {a : BloomRedis} (ha : a.WF) : a.equals a = some true := by
  unfold BloomRedis.WF at ha
  unfold BloomRedis.equals
  cases hs : a.str with
  | none => simp [hs] at ha
  | some x => simp

theorem C17_spec_BloomRedis {a b : BloomRedis} (ha : a.WF) (hb : b.WF) :
    a.equals b = some (decide (a = b)) :=
  spec_of BloomRedis.equals BloomRedis.WF (fun _ _ => C17_total_BloomRedis)
    (fun _ _ => C17_sound_BloomRedis) (fun _ => C17_complete_BloomRedis) a b ha hb

theorem C17_symm_BloomRedis {a b : BloomRedis} (ha : a.WF) (hb : b.WF) : a.equals b = b.equals a :=
  symm_of_spec BloomRedis.equals BloomRedis.WF (fun _ _ => C17_spec_BloomRedis) a b ha hb

/-- differ only in the last byte -/
example :
    let a : BloomRedis := ⟨16, 3, some [0, 128]⟩
    let b : BloomRedis := ⟨16, 3, some [0, 129]⟩
    a.WF ∧ b.WF ∧ a.equals b = some false ∧ b.equals a = some false := by decide
/-- different parameters -/
example :
    let a : BloomRedis := ⟨16, 3, some [0, 128]⟩
    let b : BloomRedis := ⟨8, 3, some [0]⟩
    a.WF ∧ b.WF ∧ a.equals b = some false ∧ b.equals a = some false := by decide
/-- outside WF: a handle whose bitmap key was deleted is not equal to itself (`(false, redis.Nil)`) -/
theorem BloomRedis_outside_WF :
    let a : BloomRedis := ⟨16, 3, none⟩
    ¬ a.WF ∧ a.equals a = some false := by decide

/-! ## Cuckoo filter, in memory -/

/-- `len(buckets) = size`, every bucket was made by `newBucketMem(bucketSize)`:
    `bucket.size = bucketSize` and `len(elements) = size` slots. -/
def CuckooMem.WF (a : CuckooMem) : Prop :=
  a.buckets.length = a.n ∧ ∀ b ∈ a.buckets, b.size = a.bsize ∧ b.elements.length = b.size

instance (a : CuckooMem) : Decidable (CuckooMem.WF a) := by unfold CuckooMem.WF; infer_instance

theorem MBucket.equals_ne_none (x y : MBucket) (h : x.elements.length = y.elements.length) :
    MBucket.equals x y ≠ none := by
  unfold MBucket.equals
  split
  · simp
  · exact forN_goIdxEq_ne_none _ _ _ (by omega) (by omega)

theorem MBucket.equals_true (x y : MBucket) (h : x.elements.length = y.elements.length)
    (ht : MBucket.equals x y = some true) : x = y := by
  unfold MBucket.equals at ht
  split at ht
  · cases ht
  · next hp =>
    have hp' : x.size = y.size ∧ x.length = y.length := by omega
    have := forN_goIdxEq_true _ _ _ ht h.symm rfl
    cases x; cases y; simp_all

theorem MBucket.equals_self (x : MBucket) : MBucket.equals x x = some true := by
  unfold MBucket.equals
  simp only [ne_eq, not_true_eq_false, or_self, if_false]
  exact forN_goIdxEq_self _ _ (Nat.le_refl _)

theorem C17_total_CuckooMem {a b : CuckooMem} (ha : CuckooMem.WF a) (hb : CuckooMem.WF b) :
    CuckooMem.equals a b ≠ none := by
  obtain ⟨hna, hba⟩ := ha; obtain ⟨hnb, hbb⟩ := hb
  unfold CuckooMem.equals
  split
  · simp
  · next hp =>
    apply bucketLoop_ne_none _ _ _ (by omega)
    intro i x y hx hy
    have h1 := hba x (List.mem_of_getElem? hx)
    have h2 := hbb y (List.mem_of_getElem? hy)
    apply MBucket.equals_ne_none
    omega

theorem C17_sound_CuckooMem {a b : CuckooMem} (ha : CuckooMem.WF a) (hb : CuckooMem.WF b)
    (h : CuckooMem.equals a b = some true) : a = b := by
  obtain ⟨hna, hba⟩ := ha; obtain ⟨hnb, hbb⟩ := hb
  unfold CuckooMem.equals at h
  split at h
  · cases h
  · next hp =>
    have hbk : a.buckets = b.buckets := by
      apply bucketLoop_true _ _ _ (by omega) _ h
      intro i x y hx hy ht
      have h1 := hba x (List.mem_of_getElem? hx)
      have h2 := hbb y (List.mem_of_getElem? hy)
      exact MBucket.equals_true y x (by omega) ht
    have hp' : a.n = b.n ∧ a.bsize = b.bsize ∧ a.fpl = b.fpl ∧ a.retries = b.retries ∧
        a.length = b.length := by omega
    cases a; cases b; simp_all

theorem C17_complete_CuckooMem {a : CuckooMem} (_ : CuckooMem.WF a) :
    CuckooMem.equals a a = some true := by
  unfold CuckooMem.equals
  simp only [ne_eq, not_true_eq_false, or_self, if_false]
  exact bucketLoop_self _ _ (fun x _ => MBucket.equals_self x)

theorem C17_spec_CuckooMem {a b : CuckooMem} (ha : CuckooMem.WF a) (hb : CuckooMem.WF b) :
    CuckooMem.equals a b = some (decide (a = b)) :=
  spec_of CuckooMem.equals CuckooMem.WF (fun _ _ => C17_total_CuckooMem)
    (fun _ _ => C17_sound_CuckooMem) (fun _ => C17_complete_CuckooMem) a b ha hb

theorem C17_symm_CuckooMem {a b : CuckooMem} (ha : CuckooMem.WF a) (hb : CuckooMem.WF b) :
    CuckooMem.equals a b = CuckooMem.equals b a :=
  symm_of_spec CuckooMem.equals CuckooMem.WF (fun _ _ => C17_spec_CuckooMem) a b ha hb

/-- differ only in the last slot of the last bucket (same cached lengths) -/
example :
    let a : CuckooMem := ⟨2, 2, 3, 500, [⟨2, ["123", ""], 1⟩, ⟨2, ["456", "789"], 2⟩], 3⟩
    let b : CuckooMem := ⟨2, 2, 3, 500, [⟨2, ["123", ""], 1⟩, ⟨2, ["456", "780"], 2⟩], 3⟩
    CuckooMem.WF a ∧ CuckooMem.WF b ∧ CuckooMem.equals a b = some false ∧
      CuckooMem.equals b a = some false := by decide
/-- different parameters: more buckets / larger buckets / other fingerprint length; no panic in
    either argument order (the pre-fix code D14 panicked here) -/
example :
    let a : CuckooMem := ⟨2, 2, 3, 500, [⟨2, ["", ""], 0⟩, ⟨2, ["", ""], 0⟩], 0⟩
    let b : CuckooMem := ⟨1, 2, 3, 500, [⟨2, ["", ""], 0⟩], 0⟩
    let c : CuckooMem := ⟨2, 3, 3, 500, [⟨3, ["", "", ""], 0⟩, ⟨3, ["", "", ""], 0⟩], 0⟩
    let d : CuckooMem := ⟨2, 2, 4, 500, [⟨2, ["", ""], 0⟩, ⟨2, ["", ""], 0⟩], 0⟩
    CuckooMem.WF a ∧ CuckooMem.WF b ∧ CuckooMem.WF c ∧ CuckooMem.WF d ∧
      CuckooMem.equals a b = some false ∧ CuckooMem.equals b a = some false ∧
      CuckooMem.equals a c = some false ∧ CuckooMem.equals c a = some false ∧
      CuckooMem.equals a d = some false := by decide

/-! ## Cuckoo filter, Redis -/

/-- one bucket handle per index, each made by `newBucketRedis(key, bucketSize)`; the Redis list
    never holds more than `size` entries (`LPUSH` only happens when `<key>_len < size` and the list
    has no hole, i.e. its length equals `<key>_len`). -/
def CuckooRedis.WF (a : CuckooRedis) : Prop :=
  a.buckets.length = a.n ∧ ∀ b ∈ a.buckets, b.size = a.bsize ∧ b.list.length ≤ b.size

instance (a : CuckooRedis) : Decidable a.WF := by unfold CuckooRedis.WF; infer_instance

theorem RBucket.equals_ne_none (x y : RBucket) : RBucket.equals x y ≠ none := by
  unfold RBucket.equals
  split
  · simp
  · exact forN_luaIdxEq_ne_none _ _ _

/-- PRECISELY what the Lua comparison establishes, with no assumption on the lists: equal `size`
    fields and equal `size`-prefixes of the two lists (entries beyond `size` are never looked at;
    a list shorter than `size` only matches a list of the same length, because a missing entry is
    `nil` and `nil ~= ""`). -/
theorem RBucket.equals_true_iff (x y : RBucket) :
    RBucket.equals x y = some true ↔ x.size = y.size ∧ x.list.take x.size = y.list.take x.size := by
  unfold RBucket.equals
  split
  · next hp => simp; omega
  · next hp =>
    rw [forN_luaIdxEq_true_iff]
    have : x.size = y.size := by omega
    simp [this]

theorem RBucket.equals_true (x y : RBucket) (hx : x.list.length ≤ x.size) (hy : y.list.length ≤ y.size)
    (ht : RBucket.equals x y = some true) : x = y := by
  obtain ⟨hs, hl⟩ := (RBucket.equals_true_iff x y).1 ht
  rw [List.take_of_length_le hx, List.take_of_length_le (by omega)] at hl
  cases x; cases y; simp_all

theorem RBucket.equals_self (x : RBucket) : RBucket.equals x x = some true :=
  (RBucket.equals_true_iff x x).2 ⟨rfl, rfl⟩

theorem C17_total_CuckooRedis {a b : CuckooRedis} (ha : a.WF) (hb : b.WF) : a.equals b ≠ none := by
  obtain ⟨hna, hba⟩ := ha; obtain ⟨hnb, hbb⟩ := hb
  unfold CuckooRedis.equals
  split
  · simp
  · next hp =>
    apply bucketLoop_ne_none _ _ _ (by omega)
    intro i x y _ _
    exact RBucket.equals_ne_none y x

theorem C17_sound_CuckooRedis {a b : CuckooRedis} (ha : a.WF) (hb : b.WF)
    (h : a.equals b = some true) : a = b := by
  obtain ⟨hna, hba⟩ := ha; obtain ⟨hnb, hbb⟩ := hb
  unfold CuckooRedis.equals at h
  split at h
  · cases h
  · next hp =>
    have hbk : a.buckets = b.buckets := by
      apply bucketLoop_true _ _ _ (by omega) _ h
      intro i x y hx hy ht
      have h1 := hba x (List.mem_of_getElem? hx)
      have h2 := hbb y (List.mem_of_getElem? hy)
      exact RBucket.equals_true y x h2.2 h1.2 ht
    have hp' : a.n = b.n ∧ a.bsize = b.bsize ∧ a.fpl = b.fpl ∧ a.retries = b.retries ∧
        a.length = b.length := by omega
    cases a; cases b; simp_all

/-- soundness WITHOUT the bound on the list lengths (only bucket counts assumed): parameters,
    length, bucket sizes agree and the lists agree on their first `size` entries. -/
theorem C17_sound_CuckooRedis_prefix {a b : CuckooRedis}
    (h : a.equals b = some true) :
    a.n = b.n ∧ a.bsize = b.bsize ∧ a.fpl = b.fpl ∧ a.retries = b.retries ∧ a.length = b.length ∧
    a.buckets.length = b.buckets.length ∧
    ∀ (i : Nat) (x y : RBucket), a.buckets[i]? = some x → b.buckets[i]? = some y →
      x.size = y.size ∧ x.list.take x.size = y.list.take x.size := by
  unfold CuckooRedis.equals at h
  split at h
  · cases h
  · next hp =>
    refine ⟨by omega, by omega, by omega, by omega, by omega, by omega, ?_⟩
    intro i x y hx hy
    unfold bucketLoop at h
    rw [forN_eq_true_iff] at h
    have hi := (List.getElem?_eq_some_iff.1 hx).1
    have := h i hi
    rw [hx, hy] at this
    obtain ⟨hs, hl⟩ := (RBucket.equals_true_iff y x).1 this
    exact ⟨hs.symm, by rw [← hs]; exact hl.symm⟩

theorem C17_complete_CuckooRedis {a : CuckooRedis} (_ : a.WF) : a.equals a = some true := by
  unfold CuckooRedis.equals
  simp only [ne_eq, not_true_eq_false, or_self, if_false]
  exact bucketLoop_self _ _ (fun x _ => RBucket.equals_self x)

theorem C17_spec_CuckooRedis {a b : CuckooRedis} (ha : a.WF) (hb : b.WF) :
    a.equals b = some (decide (a = b)) :=
  spec_of CuckooRedis.equals CuckooRedis.WF (fun _ _ => C17_total_CuckooRedis)
    (fun _ _ => C17_sound_CuckooRedis) (fun _ => C17_complete_CuckooRedis) a b ha hb

theorem C17_symm_CuckooRedis {a b : CuckooRedis} (ha : a.WF) (hb : b.WF) : a.equals b = b.equals a :=
  symm_of_spec CuckooRedis.equals CuckooRedis.WF (fun _ _ => C17_spec_CuckooRedis) a b ha hb

/-- differ only in the last entry of the last bucket; and a trailing hole `""` versus a shorter
    list (`nil`) is a difference too -/
example :
    let a : CuckooRedis := ⟨2, 2, 3, 500, 3, [⟨2, ["123"]⟩, ⟨2, ["456", "789"]⟩]⟩
    let b : CuckooRedis := ⟨2, 2, 3, 500, 3, [⟨2, ["123"]⟩, ⟨2, ["456", "780"]⟩]⟩
    let c : CuckooRedis := ⟨2, 2, 3, 500, 3, [⟨2, ["123", ""]⟩, ⟨2, ["456", "789"]⟩]⟩
    a.WF ∧ b.WF ∧ c.WF ∧ a.equals b = some false ∧ b.equals a = some false ∧
      a.equals c = some false ∧ c.equals a = some false := by decide
/-- different parameters, both argument orders (pre-fix D14b: nil-pointer panic) -/
example :
    let a : CuckooRedis := ⟨2, 2, 3, 500, 0, [⟨2, []⟩, ⟨2, []⟩]⟩
    let b : CuckooRedis := ⟨1, 2, 3, 500, 0, [⟨2, []⟩]⟩
    let c : CuckooRedis := ⟨2, 3, 3, 500, 0, [⟨3, []⟩, ⟨3, []⟩]⟩
    a.WF ∧ b.WF ∧ c.WF ∧ a.equals b = some false ∧ b.equals a = some false ∧
      a.equals c = some false ∧ c.equals a = some false := by decide

/-! ## Count-Min sketch -/

/-- `rows` rows of `cols` cells (`NewCountMinSketch` / `initMatrix`). -/
def CMSWF (a : CMS) : Prop := a.m.length = a.rows ∧ ∀ r ∈ a.m, r.length = a.cols

instance (a : CMS) : Decidable (CMSWF a) := by unfold CMSWF; infer_instance

theorem C17_total_CMSMem {a b : CMS} (ha : CMSWF a) (hb : CMSWF b) : CMSMem.equals a b ≠ none := by
  obtain ⟨hra, hca⟩ := ha; obtain ⟨hrb, hcb⟩ := hb
  unfold CMSMem.equals
  split
  · simp
  · next hp =>
    apply forN_ne_none
    intro i hi
    have hib : i < b.m.length := by omega
    rw [List.getElem?_eq_getElem hi]
    apply forN_ne_none
    intro j hj
    rw [List.getElem?_eq_getElem hib]
    have h1 := hca _ (List.getElem_mem hi)
    have h2 := hcb _ (List.getElem_mem hib)
    exact goIdxEq_ne_none _ _ _ hj (by omega)

theorem C17_sound_CMSMem {a b : CMS} (ha : CMSWF a) (hb : CMSWF b)
    (h : CMSMem.equals a b = some true) : a = b := by
  obtain ⟨hra, hca⟩ := ha; obtain ⟨hrb, hcb⟩ := hb
  unfold CMSMem.equals at h
  split at h
  · cases h
  · next hp =>
    have hp' : a.rows = b.rows ∧ a.cols = b.cols := by omega
    rw [forN_eq_true_iff] at h
    have hm : a.m = b.m := by
      apply List.ext_getElem?
      intro i
      by_cases hi : i < a.m.length
      · have hib : i < b.m.length := by omega
        have hx := List.getElem?_eq_getElem hi
        have hy := List.getElem?_eq_getElem hib
        have hrow := h i hi
        rw [hx] at hrow
        simp only [hy] at hrow
        have h1 := hca _ (List.getElem_mem hi)
        have h2 := hcb _ (List.getElem_mem hib)
        rw [hx, hy, forN_goIdxEq_true _ _ _ hrow rfl (by omega)]
      · rw [List.getElem?_eq_none (by omega), List.getElem?_eq_none (by omega)]
    cases a; cases b; simp_all

theorem C17_complete_CMSMem {a : CMS} (_ : CMSWF a) : CMSMem.equals a a = some true := by
  unfold CMSMem.equals
  simp only [ne_eq, not_true_eq_false, or_self, if_false]
  rw [forN_eq_true_iff]
  intro i hi
  rw [List.getElem?_eq_getElem hi]
  exact forN_goIdxEq_self _ _ (Nat.le_refl _)

theorem C17_spec_CMSMem {a b : CMS} (ha : CMSWF a) (hb : CMSWF b) :
    CMSMem.equals a b = some (decide (a = b)) :=
  spec_of CMSMem.equals CMSWF (fun _ _ => C17_total_CMSMem) (fun _ _ => C17_sound_CMSMem)
    (fun _ => C17_complete_CMSMem) a b ha hb

theorem C17_symm_CMSMem {a b : CMS} (ha : CMSWF a) (hb : CMSWF b) :
    CMSMem.equals a b = CMSMem.equals b a :=
  symm_of_spec CMSMem.equals CMSWF (fun _ _ => C17_spec_CMSMem) a b ha hb

/-- differ only in the last cell of the last row -/
example :
    let a : CMS := ⟨2, 3, [[1, 0, 2], [0, 3, 0]]⟩
    let b : CMS := ⟨2, 3, [[1, 0, 2], [0, 3, 1]]⟩
    CMSWF a ∧ CMSWF b ∧ CMSMem.equals a b = some false ∧ CMSMem.equals b a = some false ∧
      CMSRedis.equals a b = some false ∧ CMSRedis.equals b a = some false := by decide
/-- differ in ONE dimension only (pre-fix D10 compared cell-wise here: `true` or a panic) -/
example :
    let a : CMS := ⟨2, 3, [[0, 0, 0], [0, 0, 0]]⟩
    let b : CMS := ⟨2, 2, [[0, 0], [0, 0]]⟩
    let c : CMS := ⟨1, 3, [[0, 0, 0]]⟩
    CMSWF a ∧ CMSWF b ∧ CMSWF c ∧
      CMSMem.equals a b = some false ∧ CMSMem.equals b a = some false ∧
      CMSMem.equals a c = some false ∧ CMSMem.equals c a = some false ∧
      CMSRedis.equals a b = some false ∧ CMSRedis.equals b a = some false ∧
      CMSRedis.equals a c = some false ∧ CMSRedis.equals c a = some false := by decide

/-! ### Redis -/

theorem C17_total_CMSRedis {a b : CMS} (_ : CMSWF a) (_ : CMSWF b) : CMSRedis.equals a b ≠ none := by
  unfold CMSRedis.equals
  split
  · simp
  · exact forN_ne_none _ _ (fun i _ => forN_luaIdxEq_ne_none _ _ _)

theorem C17_sound_CMSRedis {a b : CMS} (ha : CMSWF a) (hb : CMSWF b)
    (h : CMSRedis.equals a b = some true) : a = b := by
  obtain ⟨hra, hca⟩ := ha; obtain ⟨hrb, hcb⟩ := hb
  unfold CMSRedis.equals at h
  split at h
  · cases h
  · next hp =>
    have hp' : a.rows = b.rows ∧ a.cols = b.cols := by omega
    rw [forN_eq_true_iff] at h
    have hm : a.m = b.m := by
      apply List.ext_getElem?
      intro i
      by_cases hi : i < a.m.length
      · have hib : i < b.m.length := by omega
        have hx := List.getElem?_eq_getElem hi
        have hy := List.getElem?_eq_getElem hib
        have hrow := h i (by omega)
        rw [hx, hy] at hrow
        simp only [Option.getD_some] at hrow
        have h1 := hca _ (List.getElem_mem hi)
        have h2 := hcb _ (List.getElem_mem hib)
        rw [hx, hy, forN_luaIdxEq_true _ _ _ hrow (by omega) (by omega)]
      · rw [List.getElem?_eq_none (by omega), List.getElem?_eq_none (by omega)]
    cases a; cases b; simp_all

theorem C17_complete_CMSRedis {a : CMS} (_ : CMSWF a) : CMSRedis.equals a a = some true := by
  unfold CMSRedis.equals
  simp only [ne_eq, not_true_eq_false, or_self, if_false]
  rw [forN_eq_true_iff]
  intro i _
  exact forN_luaIdxEq_self _ _

theorem C17_spec_CMSRedis {a b : CMS} (ha : CMSWF a) (hb : CMSWF b) :
    CMSRedis.equals a b = some (decide (a = b)) :=
  spec_of CMSRedis.equals CMSWF (fun _ _ => C17_total_CMSRedis) (fun _ _ => C17_sound_CMSRedis)
    (fun _ => C17_complete_CMSRedis) a b ha hb

theorem C17_symm_CMSRedis {a b : CMS} (ha : CMSWF a) (hb : CMSWF b) :
    CMSRedis.equals a b = CMSRedis.equals b a :=
  symm_of_spec CMSRedis.equals CMSWF (fun _ _ => C17_spec_CMSRedis) a b ha hb

/-! ## HyperLogLog -/

/-- `len(registers) = numRegisters` (`make([]uint8, numRegisters)` / `initRegisters`). -/
def HLLWF (a : HLL) : Prop := a.regs.length = a.m

instance (a : HLL) : Decidable (HLLWF a) := by unfold HLLWF; infer_instance

theorem C17_total_HLLMem {a b : HLL} (ha : HLLWF a) (hb : HLLWF b) : HLLMem.equals a b ≠ none := by
  unfold HLLWF at ha hb
  unfold HLLMem.equals
  split
  · simp
  · exact forN_goIdxEq_ne_none _ _ _ (by omega) (by omega)

theorem C17_sound_HLLMem {a b : HLL} (ha : HLLWF a) (hb : HLLWF b)
    (h : HLLMem.equals a b = some true) : a = b := by
  unfold HLLWF at ha hb
  unfold HLLMem.equals at h
  split at h
  · cases h
  · next hp =>
    have hm : a.m = b.m := by omega
    have := forN_goIdxEq_true _ _ _ h ha (by omega)
    cases a; cases b; simp_all

theorem C17_complete_HLLMem {a : HLL} (ha : HLLWF a) : HLLMem.equals a a = some true := by
  unfold HLLWF at ha
  unfold HLLMem.equals
  simp only [ne_eq, not_true_eq_false, if_false]
  exact forN_goIdxEq_self _ _ (by omega)

theorem C17_spec_HLLMem {a b : HLL} (ha : HLLWF a) (hb : HLLWF b) :
    HLLMem.equals a b = some (decide (a = b)) :=
  spec_of HLLMem.equals HLLWF (fun _ _ => C17_total_HLLMem) (fun _ _ => C17_sound_HLLMem)
    (fun _ => C17_complete_HLLMem) a b ha hb

theorem C17_symm_HLLMem {a b : HLL} (ha : HLLWF a) (hb : HLLWF b) :
    HLLMem.equals a b = HLLMem.equals b a :=
  symm_of_spec HLLMem.equals HLLWF (fun _ _ => C17_spec_HLLMem) a b ha hb

theorem C17_total_HLLRedis {a b : HLL} (_ : HLLWF a) (_ : HLLWF b) : HLLRedis.equals a b ≠ none := by
  unfold HLLRedis.equals
  split
  · simp
  · exact forN_luaIdxEq_ne_none _ _ _

theorem C17_sound_HLLRedis {a b : HLL} (ha : HLLWF a) (hb : HLLWF b)
    (h : HLLRedis.equals a b = some true) : a = b := by
  unfold HLLWF at ha hb
  unfold HLLRedis.equals at h
  split at h
  · cases h
  · next hp =>
    have hm : a.m = b.m := by omega
    have := forN_luaIdxEq_true _ _ _ h (by omega) (by omega)
    cases a; cases b; simp_all

theorem C17_complete_HLLRedis {a : HLL} (_ : HLLWF a) : HLLRedis.equals a a = some true := by
  unfold HLLRedis.equals
  simp only [ne_eq, not_true_eq_false, if_false]
  exact forN_luaIdxEq_self _ _

theorem C17_spec_HLLRedis {a b : HLL} (ha : HLLWF a) (hb : HLLWF b) :
    HLLRedis.equals a b = some (decide (a = b)) :=
  spec_of HLLRedis.equals HLLWF (fun _ _ => C17_total_HLLRedis) (fun _ _ => C17_sound_HLLRedis)
    (fun _ => C17_complete_HLLRedis) a b ha hb

theorem C17_symm_HLLRedis {a b : HLL} (ha : HLLWF a) (hb : HLLWF b) :
    HLLRedis.equals a b = HLLRedis.equals b a :=
  symm_of_spec HLLRedis.equals HLLWF (fun _ _ => C17_spec_HLLRedis) a b ha hb

/-- differ only in the LAST register (pre-fix D8 skipped it) -/
example :
    let a : HLL := ⟨4, [0, 2, 0, 5]⟩
    let b : HLL := ⟨4, [0, 2, 0, 6]⟩
    HLLWF a ∧ HLLWF b ∧ HLLMem.equals a b = some false ∧ HLLMem.equals b a = some false ∧
      HLLRedis.equals a b = some false ∧ HLLRedis.equals b a = some false := by decide
/-- different register counts -/
example :
    let a : HLL := ⟨4, [0, 0, 0, 0]⟩
    let b : HLL := ⟨2, [0, 0]⟩
    HLLWF a ∧ HLLWF b ∧ HLLMem.equals a b = some false ∧ HLLMem.equals b a = some false ∧
      HLLRedis.equals a b = some false ∧ HLLRedis.equals b a = some false := by decide

/-! ## Top-K -/

/-- the sketch pointer is non-nil and the sketch is well-formed -/
def sketchWF : Option CMS → Prop
  | some s => CMSWF s
  | none => False

instance : (o : Option CMS) → Decidable (sketchWF o)
  | some s => by unfold sketchWF; infer_instance
  | none => by unfold sketchWF; infer_instance

/-- `errorRate` and `accuracy` are positive finite floats (what the sizing formulas of
    `NewCountMinSketchFromEstimates` need to produce a sketch at all), the sketch exists, and the
    heap holds at most `k` entries. -/
def TopKMem.WF (a : TopKMem) : Prop :=
  F64.PosFinite a.er ∧ F64.PosFinite a.acc ∧ sketchWF a.sketch ∧ a.heap.length ≤ a.k

instance (a : TopKMem) : Decidable a.WF := by unfold TopKMem.WF; infer_instance

theorem sketchWF_some {o : Option CMS} (h : sketchWF o) : ∃ s, o = some s ∧ CMSWF s := by
  cases o with
  | none => exact h.elim
  | some s => exact ⟨s, rfl, h⟩

theorem C17_total_TopKMem {a b : TopKMem} (ha : a.WF) (hb : b.WF) : a.equals b ≠ none := by
  obtain ⟨_, _, hsa, _⟩ := ha; obtain ⟨_, _, hsb, _⟩ := hb
  obtain ⟨sa, ea, wa⟩ := sketchWF_some hsa
  obtain ⟨sb, eb, wb⟩ := sketchWF_some hsb
  unfold TopKMem.equals
  rw [ea, eb]
  split
  · simp
  · split
    · simp
    · split
      · simp
      · simp only
        have := C17_total_CMSMem wa wb
        split
        · next hn => exact absurd hn this
        · simp
        · split
          · simp
          · exact forN_goIdxEq_ne_none _ _ _ (Nat.le_refl _) (by omega)

theorem C17_sound_TopKMem {a b : TopKMem} (ha : a.WF) (hb : b.WF)
    (h : a.equals b = some true) : a = b := by
  obtain ⟨hea, haa, hsa, _⟩ := ha; obtain ⟨heb, hab, hsb, _⟩ := hb
  obtain ⟨sa, ea, wa⟩ := sketchWF_some hsa
  obtain ⟨sb, eb, wb⟩ := sketchWF_some hsb
  unfold TopKMem.equals at h
  rw [ea, eb] at h
  split at h
  · cases h
  · next hk =>
    split at h
    · cases h
    · next hacc =>
      split at h
      · cases h
      · next her =>
        simp only at h
        split at h
        · cases h
        · cases h
        · next hsk =>
          split at h
          · cases h
          · next hlen =>
            have h1 : a.k = b.k := by omega
            have h2 : a.acc = b.acc := (F64.ne_eq_false_iff haa hab).1 (by simpa using hacc)
            have h3 : a.er = b.er := (F64.ne_eq_false_iff hea heb).1 (by simpa using her)
            have h4 : sa = sb := C17_sound_CMSMem wa wb hsk
            have h5 : a.heap = b.heap := forN_goIdxEq_true _ _ _ h rfl (by omega)
            cases a; cases b; simp_all

theorem C17_complete_TopKMem {a : TopKMem} (ha : a.WF) : a.equals a = some true := by
  obtain ⟨hea, haa, hsa, _⟩ := ha
  obtain ⟨sa, ea, wa⟩ := sketchWF_some hsa
  unfold TopKMem.equals
  rw [ea]
  simp only [ne_eq, not_true_eq_false, if_false, F64.ne_self haa, F64.ne_self hea,
    Bool.false_eq_true, C17_complete_CMSMem wa]
  exact forN_goIdxEq_self _ _ (Nat.le_refl _)

theorem C17_spec_TopKMem {a b : TopKMem} (ha : a.WF) (hb : b.WF) :
    a.equals b = some (decide (a = b)) :=
  spec_of TopKMem.equals TopKMem.WF (fun _ _ => C17_total_TopKMem) (fun _ _ => C17_sound_TopKMem)
    (fun _ => C17_complete_TopKMem) a b ha hb

theorem C17_symm_TopKMem {a b : TopKMem} (ha : a.WF) (hb : b.WF) : a.equals b = b.equals a :=
  symm_of_spec TopKMem.equals TopKMem.WF (fun _ _ => C17_spec_TopKMem) a b ha hb

/-- 0.01 and 0.99 as float64 bits -/
def f001 : Nat := 0x3F847AE147AE147B
def f099 : Nat := 0x3FEFAE147AE147AE

/-- differ only in the last heap entry (frequency; then the tracked element) -/
example :
    let s : CMS := ⟨1, 2, [[3, 4]]⟩
    let a : TopKMem := ⟨2, f001, f099, some s, [("p", 3), ("q", 4)]⟩
    let b : TopKMem := ⟨2, f001, f099, some s, [("p", 3), ("q", 5)]⟩
    let c : TopKMem := ⟨2, f001, f099, some s, [("p", 3), ("r", 4)]⟩
    a.WF ∧ b.WF ∧ c.WF ∧ a.equals b = some false ∧ b.equals a = some false ∧
      a.equals c = some false ∧ c.equals a = some false := by decide
/-- different parameters (k; heap lengths; sketch dimensions): `some false`, no panic
    (pre-fix: `u.heap[i]` out of range when the receiver tracks more elements) -/
example :
    let s : CMS := ⟨1, 2, [[3, 4]]⟩
    let s' : CMS := ⟨1, 3, [[3, 4, 0]]⟩
    let a : TopKMem := ⟨2, f001, f099, some s, [("p", 3), ("q", 4)]⟩
    let b : TopKMem := ⟨3, f001, f099, some s, [("p", 3), ("q", 4)]⟩
    let c : TopKMem := ⟨2, f001, f099, some s, [("p", 3)]⟩
    let d : TopKMem := ⟨2, f099, f099, some s', [("p", 3), ("q", 4)]⟩
    a.WF ∧ b.WF ∧ c.WF ∧ d.WF ∧ a.equals b = some false ∧ b.equals a = some false ∧
      a.equals c = some false ∧ c.equals a = some false ∧
      a.equals d = some false ∧ d.equals a = some false := by decide

/-- outside WF (1): `NewTopK(k, errorRate, 1.0)` — `NewCountMinSketchFromEstimates` computes
    `rows = ceil(log(1/1.0)) = 0`, returns `(nil, err)`, `NewTopK` drops the error and stores the nil
    sketch.  `Equals` on two such values passes the three parameter guards and then dereferences
    the nil sketch: PANIC, even against itself. -/
theorem TopKMem_outside_WF_nil_sketch :
    let a : TopKMem := ⟨2, f001, 0x3FF0000000000000, none, []⟩
    ¬ a.WF ∧ a.equals a = none := by decide

/-- outside WF (2): a NaN parameter (reachable only through `ReadFrom` of a crafted stream; JSON
    cannot carry NaN): the structure is not equal to itself. -/
theorem TopKMem_outside_WF_nan :
    let a : TopKMem := ⟨2, 0x7FF8000000000001, f099, some ⟨1, 2, [[0, 0]]⟩, []⟩
    ¬ a.WF ∧ a.equals a = some false := by decide

/-- outside WF (3): `+0.0` and `-0.0` compare equal as floats although the stored bits differ. -/
theorem TopKMem_outside_WF_zero :
    let a : TopKMem := ⟨2, 0, f099, some ⟨1, 2, [[0, 0]]⟩, []⟩
    let b : TopKMem := ⟨2, 0x8000000000000000, f099, some ⟨1, 2, [[0, 0]]⟩, []⟩
    a ≠ b ∧ a.equals b = some true := by decide

/-! ### Redis -/

/-- as in memory; the sorted set holds at most `k` members. -/
def TopKRedis.WF (a : TopKRedis) : Prop :=
  F64.PosFinite a.er ∧ F64.PosFinite a.acc ∧ sketchWF a.sketch ∧ a.zset.length ≤ a.k

instance (a : TopKRedis) : Decidable a.WF := by unfold TopKRedis.WF; infer_instance

theorem compareHeaps_ne_none (z1 z2 : List (String × Nat)) : compareHeaps z1 z2 ≠ none := by
  unfold compareHeaps
  simp only
  split
  · simp
  · exact forN_luaIdxEq_ne_none _ _ _

theorem compareHeaps_true_iff (z1 z2 : List (String × Nat)) :
    compareHeaps z1 z2 = some true ↔ z1 = z2 := by
  unfold compareHeaps
  simp only
  constructor
  · intro h
    split at h
    · cases h
    · next hl =>
      exact withScores_injective _ _ (forN_luaIdxEq_true _ _ _ h (Nat.le_refl _) (by omega))
  · intro h
    subst h
    simp only [ne_eq, not_true_eq_false, if_false]
    exact forN_luaIdxEq_self _ _

theorem C17_total_TopKRedis {a b : TopKRedis} (ha : a.WF) (hb : b.WF) : a.equals b ≠ none := by
  obtain ⟨_, _, hsa, _⟩ := ha; obtain ⟨_, _, hsb, _⟩ := hb
  obtain ⟨sa, ea, wa⟩ := sketchWF_some hsa
  obtain ⟨sb, eb, wb⟩ := sketchWF_some hsb
  unfold TopKRedis.equals
  rw [ea, eb]
  split
  · simp
  · split
    · simp
    · split
      · simp
      · simp only
        have := C17_total_CMSRedis wa wb
        split
        · next hn => exact absurd hn this
        · simp
        · exact compareHeaps_ne_none _ _

theorem C17_sound_TopKRedis {a b : TopKRedis} (ha : a.WF) (hb : b.WF)
    (h : a.equals b = some true) : a = b := by
  obtain ⟨hea, haa, hsa, _⟩ := ha; obtain ⟨heb, hab, hsb, _⟩ := hb
  obtain ⟨sa, ea, wa⟩ := sketchWF_some hsa
  obtain ⟨sb, eb, wb⟩ := sketchWF_some hsb
  unfold TopKRedis.equals at h
  rw [ea, eb] at h
  split at h
  · cases h
  · next hk =>
    split at h
    · cases h
    · next hacc =>
      split at h
      · cases h
      · next her =>
        simp only at h
        split at h
        · cases h
        · cases h
        · next hsk =>
          have h1 : a.k = b.k := by omega
          have h2 : a.acc = b.acc := (F64.ne_eq_false_iff haa hab).1 (by simpa using hacc)
          have h3 : a.er = b.er := (F64.ne_eq_false_iff hea heb).1 (by simpa using her)
          have h4 : sa = sb := C17_sound_CMSRedis wa wb hsk
          have h5 : a.zset = b.zset := (compareHeaps_true_iff _ _).1 h
          cases a; cases b; simp_all

theorem C17_complete_TopKRedis {a : TopKRedis} (ha : a.WF) : a.equals a = some true := by
  obtain ⟨hea, haa, hsa, _⟩ := ha
  obtain ⟨sa, ea, wa⟩ := sketchWF_some hsa
  unfold TopKRedis.equals
  rw [ea]
  simp only [ne_eq, not_true_eq_false, if_false, F64.ne_self haa, F64.ne_self hea,
    Bool.false_eq_true, C17_complete_CMSRedis wa]
  exact (compareHeaps_true_iff _ _).2 rfl

theorem C17_spec_TopKRedis {a b : TopKRedis} (ha : a.WF) (hb : b.WF) :
    a.equals b = some (decide (a = b)) :=
  spec_of TopKRedis.equals TopKRedis.WF (fun _ _ => C17_total_TopKRedis)
    (fun _ _ => C17_sound_TopKRedis) (fun _ => C17_complete_TopKRedis) a b ha hb

theorem C17_symm_TopKRedis {a b : TopKRedis} (ha : a.WF) (hb : b.WF) : a.equals b = b.equals a :=
  symm_of_spec TopKRedis.equals TopKRedis.WF (fun _ _ => C17_spec_TopKRedis) a b ha hb

/-- differ only in the last zset entry: its score; its member; and the D18 pair (same scores,
    members swapped) which the pre-fix script called equal -/
example :
    let s : CMS := ⟨1, 2, [[3, 4]]⟩
    let a : TopKRedis := ⟨2, f001, f099, some s, [("p", 1), ("q", 2)]⟩
    let b : TopKRedis := ⟨2, f001, f099, some s, [("p", 1), ("q", 3)]⟩
    let c : TopKRedis := ⟨2, f001, f099, some s, [("p", 1), ("r", 2)]⟩
    let d : TopKRedis := ⟨2, f001, f099, some s, [("q", 1), ("p", 2)]⟩
    a.WF ∧ b.WF ∧ c.WF ∧ d.WF ∧ a.equals b = some false ∧ b.equals a = some false ∧
      a.equals c = some false ∧ c.equals a = some false ∧
      a.equals d = some false ∧ d.equals a = some false := by decide
/-- different parameters / different number of tracked elements -/
example :
    let s : CMS := ⟨1, 2, [[3, 4]]⟩
    let a : TopKRedis := ⟨2, f001, f099, some s, [("p", 1), ("q", 2)]⟩
    let b : TopKRedis := ⟨3, f001, f099, some s, [("p", 1), ("q", 2)]⟩
    let c : TopKRedis := ⟨2, f001, f099, some s, [("p", 1)]⟩
    let d : TopKRedis := ⟨2, f001, f001, some ⟨2, 2, [[3, 4], [0, 0]]⟩, [("p", 1), ("q", 2)]⟩
    a.WF ∧ b.WF ∧ c.WF ∧ d.WF ∧ a.equals b = some false ∧ b.equals a = some false ∧
      a.equals c = some false ∧ c.equals a = some false ∧
      a.equals d = some false ∧ d.equals a = some false := by decide

/-- outside WF: `NewTopKRedisFromKey` on a metadata key whose `sketchKey` no longer resolves
    stores a nil sketch (the error of `NewCountMinSketchRedisFromKey` is dropped); `Equals` then
    dereferences it: PANIC. -/
theorem TopKRedis_outside_WF_nil_sketch :
    let a : TopKRedis := ⟨2, f001, f099, none, []⟩
    ¬ a.WF ∧ a.equals a = none := by decide

end Gostatix.Equals
