/-
  ArithTie — the integer kernels the extractor translates from the CURRENT Go sources
  (extract/arith.go -> Gostatix/Generated/Arith.lean, regenerated on every run) agree with the
  hand-written `Nat` models for ALL inputs, not only on the sampled inputs of the differential suite.

  Reading a theorem: a Go `uint64`/`uint`/`int` value is the `UInt64` holding its 64-bit pattern,
  `.toNat` is the unsigned reading.  The Go code panics on a zero modulus; the theorems carry
  `modulus ≠ 0` to state the range in which the Go side is defined (the equalities themselves also
  hold at 0 under Lean's `x % 0 = x` convention on both sides, which says nothing about Go).

  The proofs deliberately go through the general `toNat` lemmas (`simp`/`omega`), not through the
  shape of the generated terms: an equivalent rewrite of the Go expression (operands swapped, a
  local introduced or inlined) keeps them valid; a change of the arithmetic breaks them; a Go
  construct outside the translator's subset removes the definition and breaks the build here.
-/
import Gostatix.Generated.Arith
import Gostatix.Proofs.GoArith
import Gostatix.Model.CMS
import Gostatix.Model.HLL
import Gostatix.Model.Cuckoo
import Gostatix.Model.Bloom
import Gostatix.Model.Murmur
-- commutativity lemmas are passed to `simp` so that an operand swap in the Go source keeps the
-- proofs valid; on the current sources some of them are not needed
set_option linter.unusedSimpArgs false

namespace Gostatix.ArithTie
open Gostatix.Generated.Arith Gostatix.GoArith

/-- closes `A % m = B % m` where `A`, `B` are the same sum of `toNat` products, reduced modulo
    2^64 at different places and with the operands in any order (products become atoms of `omega`). -/
local macro "mod64_congr" : tactic =>
  `(tactic| (congr 1; (try simp only [Nat.mul_comm]); omega))

/-- every kernel was translated (a readable error before the individual theorems fail). -/
theorem all_kernels_translated : Generated.Arith.unsupported = [] := rfl

/-! ### count-min sketch: `getPositions` -/

/-- `positions[c] = uint((hash1 + uint64(c)*hash2) % uint64(cms.columns))` is `CMS.position`. -/
theorem tie_cmsPosition (h1 h2 c cols : UInt64) (_hc : cols ≠ 0) :
    (cmsPosition h1 h2 c cols).toNat = CMS.position h1.toNat h2.toNat c.toNat cols.toNat := by
  simp only [cmsPosition, CMS.position, UInt64.toNat_mod, UInt64.toNat_add, UInt64.toNat_mul]
  mod64_congr

/-- the whole row list of `getPositions` (loop variable `c = 0 .. rows-1`, `rows < 2^64`). -/
theorem tie_cmsPositionsOf (h1 h2 cols : UInt64) (rows : Nat) (hr : rows ≤ 2 ^ 64) (hc : cols ≠ 0) :
    (List.range rows).map (fun c => (cmsPosition h1 h2 (UInt64.ofNat c) cols).toNat)
      = CMS.positionsOf h1.toNat h2.toNat rows cols.toNat := by
  unfold CMS.positionsOf
  apply List.map_congr_left
  intro c hcr
  have hlt : c < UInt64.size := by
    have := List.mem_range.1 hcr
    show c < 2 ^ 64
    omega
  rw [tie_cmsPosition _ _ _ _ hc, UInt64.toNat_ofNat_of_lt' hlt]

example : (cmsPosition 18446744073709551615 3 2 10).toNat = 5 := by decide
example : CMS.position 18446744073709551615 3 2 10 = 5 := by decide

/-! ### HyperLogLog: `getRegisterIndexAndCount` and the truncations of its callers -/

theorem clz64_le (x : Nat) : HLL.clz64 x ≤ 64 := by unfold HLL.clz64; split <;> omega

/-- `uint64(1 + bits.LeadingZeros64(hash << numBytesPerHash))` is `HLL.indexOf`, for EVERY
    `numBytesPerHash` (for 64 and more both sides shift everything out and give 65). -/
theorem tie_hllRegisterIndex (hash nb : UInt64) :
    (hllRegisterIndex hash nb).toNat = HLL.indexOf hash.toNat nb.toNat := by
  have h := clz64_le ((hash.toNat * 2 ^ nb.toNat) % 2 ^ 64)
  simp [hllRegisterIndex, HLL.indexOf, toNat_clz64u, toNat_goShl] at h ⊢
  omega

/-- the `uint8(registerIndex)` of the Redis `Update` loses nothing (the index is at most 65). -/
theorem tie_hllStoredIndexRedis (hash nb : UInt64) :
    (hllStoredIndexRedis (hllRegisterIndex hash nb)).toNat = HLL.indexOf hash.toNat nb.toNat := by
  have h := clz64_le ((hash.toNat * 2 ^ nb.toNat) % 2 ^ 64)
  have h' := tie_hllRegisterIndex hash nb
  simp only [HLL.indexOf] at h' ⊢
  simp [hllStoredIndexRedis, toNat_trunc8, h'] at h ⊢
  omega

/-- `count := hash >> uint(32 - numBytesPerHash)`, before the callers' truncation, in the range
    `numBytesPerHash ≤ 32` (p = log2 of the register count). -/
theorem tie_hllCount (hash nb : UInt64) (hp : nb.toNat ≤ 32) :
    (hllCount hash nb).toNat = hash.toNat / 2 ^ (32 - nb.toNat) := by
  have hk : ((32 : UInt64) - nb).toNat = 32 - nb.toNat := by
    rw [UInt64.toNat_sub]
    have : (32 : UInt64).toNat = 32 := rfl
    omega
  simp [hllCount, toNat_goShr, hk]

/-- in-memory `Update`: the stored `uint(uint8(count))` is `HLL.valueOf`. -/
theorem tie_hllStoredValueMem (hash nb : UInt64) (hp : nb.toNat ≤ 32) :
    (hllStoredValueMem (hllCount hash nb)).toNat = HLL.valueOf hash.toNat nb.toNat := by
  have h := tie_hllCount hash nb hp
  simp [hllStoredValueMem, toNat_trunc8, HLL.valueOf, h]

/-- Redis `Update`: the `uint8(count)` passed to `updateRegisters` is `HLL.valueOf`. -/
theorem tie_hllStoredValueRedis (hash nb : UInt64) (hp : nb.toNat ≤ 32) :
    (hllStoredValueRedis (hllCount hash nb)).toNat = HLL.valueOf hash.toNat nb.toNat := by
  have h := tie_hllCount hash nb hp
  simp [hllStoredValueRedis, toNat_trunc8, HLL.valueOf, h]

/-- outside the range (more than 2^32 registers) model and code differ: in Go `32 - p` wraps to a
    shift count ≥ 64 and the count is 0, the `Nat` model truncates `32 - p` to 0. -/
theorem hllValue_differs_above_32 :
    (hllStoredValueMem (hllCount 1 33)).toNat = 0 ∧ HLL.valueOf 1 33 = 1 := by decide

example : (hllRegisterIndex 1 4).toNat = 60 ∧ HLL.indexOf 1 4 = 60 := by decide
example : (hllRegisterIndex 5 64).toNat = 65 ∧ HLL.indexOf 5 64 = 65 := by decide
example : (hllStoredValueMem (hllCount 0xABCDEF0123456789 4)).toNat = 0x12
    ∧ HLL.valueOf 0xABCDEF0123456789 4 = 0x12 := by decide

/-! ### cuckoo filter: `getPositions` and the eviction loops -/

/-- `firstIndex := hash % cuckooFilter.size`. -/
theorem tie_cuckooFirstIndex (hash size : UInt64) (_hs : size ≠ 0) :
    (cuckooFirstIndex hash size).toNat = hash.toNat % size.toNat := by
  simp [cuckooFirstIndex]

/-- `secondIndex := (firstIndex ^ secondHash) % cuckooFilter.size` is `Cuckoo.altOf` of the first
    index, for any fingerprint hash function `H` with `H fp = secondHash`. -/
theorem tie_cuckooSecondIndex {F : Type} (H : F → Nat) (fp : F) (hash secondHash size : UInt64)
    (hH : H fp = secondHash.toNat) (_hs : size ≠ 0) :
    (cuckooSecondIndex hash secondHash size).toNat
      = Cuckoo.altOf H size.toNat (hash.toNat % size.toNat) fp := by
  simp [cuckooSecondIndex, Cuckoo.altOf, hH, Nat.xor_comm]

/-- `Cuckoo.positions` (the model of `getPositions` on the element bytes) computes exactly the
    generated index expressions on the murmur hash words, when the fingerprint length is valid. -/
theorem tie_cuckooPositions (size : UInt64) (fpl : Nat) (data : List UInt8) (_hs : size ≠ 0)
    (hfpl : fpl ≤ (toString (Murmur.getHash data)).length) :
    let hash := (Murmur.sum128 data).1
    let r := Cuckoo.positions size.toNat fpl data
    let secondHash := (Murmur.sum128 r.1.toUTF8.toList).1
    r.2.1 = (cuckooFirstIndex hash size).toNat
      ∧ r.2.2 = (cuckooSecondIndex hash secondHash size).toNat := by
  have h : ¬ fpl > (toString (Murmur.getHash data)).length := by omega
  simp only [Cuckoo.positions, h, ↓reduceIte]
  simp [cuckooFirstIndex, cuckooSecondIndex, Cuckoo.hashStr, Murmur.getHash, Nat.xor_comm]

/-- eviction loop of cuckoo_filter.go: `newIndex := (index ^ hash) % uint64(len(cuckooFilter.buckets))`
    is `Cuckoo.altOf` with modulus `len(buckets)` (a slice length: an `int`, here its 64-bit pattern). -/
theorem tie_cuckooKickIndexMem {F : Type} (H : F → Nat) (fp : F) (index hash len : UInt64)
    (hH : H fp = hash.toNat) (_hl : len ≠ 0) :
    (cuckooKickIndexMem index hash len).toNat = Cuckoo.altOf H len.toNat index.toNat fp := by
  simp [cuckooKickIndexMem, Cuckoo.altOf, hH, Nat.xor_comm]

/-- eviction loop of cuckoo_filter_redis.go: same expression, the modulus is the length of the
    `buckets` MAP (`len(cuckooFilter.buckets)`), not the `size` field. -/
theorem tie_cuckooKickIndexRedis {F : Type} (H : F → Nat) (fp : F) (index hash len : UInt64)
    (hH : H fp = hash.toNat) (_hl : len ≠ 0) :
    (cuckooKickIndexRedis index hash len).toNat = Cuckoo.altOf H len.toNat index.toNat fp := by
  simp [cuckooKickIndexRedis, Cuckoo.altOf, hH, Nat.xor_comm]

/-- the eviction step and the second index of `getPositions` are the same function when
    `len(buckets) = size` (what the constructors establish; not checked by the translator). -/
theorem cuckooKick_eq_second (hash secondHash size : UInt64) :
    cuckooSecondIndex hash secondHash size = cuckooKickIndexMem (cuckooFirstIndex hash size) secondHash size
      ∧ cuckooKickIndexMem = cuckooKickIndexRedis := by
  constructor
  · simp [cuckooSecondIndex, cuckooKickIndexMem, cuckooFirstIndex, UInt64.xor_comm]
  · funext a b c; simp [cuckooKickIndexMem, cuckooKickIndexRedis, UInt64.xor_comm]

example : (cuckooSecondIndex 1000 77 64).toNat = 37
    ∧ Cuckoo.altOf (fun _ : Unit => 77) 64 (1000 % 64) () = 37 := by decide
example : (cuckooKickIndexMem 40 77 64).toNat = 37 := by decide

/-! ### Bloom filter: the integer part of `getIndex` -/

/-- `(hashes[0] + j*hashes[1] + cubic) % uint64(size)` with `j = uint64(i)` is `Bloom.getIndex`,
    PROVIDED the float sub-term `uint64(math.Floor((j^3 - j)/6))` (an opaque input `cubic` of the
    generated definition; floats are not modelled) has the value the model assumes. -/
theorem tie_bloomIndexInt (h0 h1 i cubic size : UInt64) (_hs : size ≠ 0)
    (hcubic : cubic.toNat = (i.toNat ^ 3 - i.toNat) / 6) :
    (bloomIndexInt h0 h1 i cubic size).toNat
      = Bloom.getIndex h0.toNat h1.toNat i.toNat size.toNat := by
  unfold Bloom.getIndex
  rw [← hcubic]
  simp only [bloomIndexInt, UInt64.toNat_mod, UInt64.toNat_add, UInt64.toNat_mul]
  mod64_congr

example : (bloomIndexInt 18446744073709551610 7 5 20 11).toNat = 5
    ∧ Bloom.getIndex 18446744073709551610 7 5 11 = 5 ∧ (5 ^ 3 - 5) / 6 = 20 := by decide

end Gostatix.ArithTie
