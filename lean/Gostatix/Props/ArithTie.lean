/-
  ArithTie — the integer kernels the extractor translates from the CURRENT Go sources
  (extract/arith.go -> Gostatix/Generated/Arith.lean, regenerated on every run) agree with the
  hand-written `Nat` models for ALL inputs, not only on the sampled inputs of the differential suite.

  Reading a theorem: a Go `uint64`/`uint`/`int` value is the `UInt64` holding its 64-bit pattern,
  `.toNat` is the unsigned reading.  The Go code panics on a zero modulus; the theorems carry
  `modulus ≠ 0` to state the range in which the Go side is defined (the equalities themselves also
  hold at 0 under Lean's `x % 0 = x` convention on both sides, which says nothing about Go).

  The proofs deliberately go through the general `toNat` lemmas (`simp`/`omega`), not through the
  shape of the generated terms: an equivalent rewrite of the Go expression (operands swapped, a
  local introduced or inlined) keeps them valid; a change of the arithmetic breaks them; a Go
  construct outside the translator's subset removes the definition and breaks the build here.
-/
import Gostatix.Props.ArithTieCMS
import Gostatix.Props.ArithTieHLL
import Gostatix.Props.ArithTieCuckoo
import Gostatix.Props.ArithTieBloom
namespace Gostatix.ArithTie

/-- every kernel named in extract/arith.go was translated (an unsupported Go construct is listed
    in `Generated.Arith.unsupported` instead of becoming a definition) -/
theorem all_kernels_translated : Generated.Arith.unsupported = [] := rfl

end Gostatix.ArithTie
