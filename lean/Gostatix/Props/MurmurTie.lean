/-
  MurmurTie — murmur3 x64_128 as written in /repo/murmur.go (translated by extract/murmur.go into
  Generated/Murmur.lean on every run, assembled by the hand-written Model/GoMurmur.lean) computes
  the hand transcription Model/Murmur.lean, for ALL byte strings:

      tie_murmur_sum128_words : Generated.Murmur.sum128 data = Murmur.sum128 data        (both words)
      tie_murmur_sum128       : (Generated.Murmur.sum128 data).1.toNat = Murmur.getHash data
      tie_murmur_getHash      : (Generated.Murmur.getHash data).toNat = Murmur.getHash data

  assembled from `tie_bmixBlock`, `tie_blockLoad`, `tie_tailMix`, `tie_finalize` (which contains `fmix64`:
  the translator inlines straight-line helper functions) and the induction over the blocks `tie_bmix`.  `Murmur.getHash` is the hash function the cuckoo model
  (`Cuckoo.positions`, `Cuckoo.hashStr`) is instantiated with; before this file it was tied to the
  code only by differential testing.

  What is GENERATED: every definition of Generated/Murmur.lean (`blockLoad`, `bmixBlock`, loop header,
  `tailMix`, `finalize`, `digestSum128`, seeds, `nblocksOf`, `tailStart`, `lengthArg`, `getHashWord`).
  These are role names chosen by the translator; no hand-written file mentions a name derived from a
  Go identifier, so renaming constants / locals / helpers in murmur.go does not break this file.  What is hand-written ASSEMBLY: `Generated.Murmur.bmix` (the loop as a fold),
  `Generated.Murmur.sum128` and `Generated.Murmur.getHash` in Model/GoMurmur.lean, and the three
  primitives of Model/GoBits.lean (`rotl64`, `byteAt`, `le64` / `loadLE64`).
  Assumptions (not proved, stated in the generated header): little-endian target for the
  `(*[2]uint64)(unsafe.Pointer(&p[i*16]))` load; 64-bit `int`/`uint`, slice lengths < 2^63.

  A piece the translator refuses has no definition and this file (and GoMurmur.lean) stops building;
  a piece whose arithmetic changed (a constant, a rotation count, a shift, the block stride, the
  loop bound `dlen / 16`, the seed, the order of non-commuting statements) makes the corresponding
  `tie_*` theorem fail.
-/
import Gostatix.Model.GoMurmur
import Gostatix.Proofs.MurmurTie
set_option linter.unusedSimpArgs false

namespace Gostatix.MurmurTie
open Gostatix Gostatix.Generated.Murmur

/-! ### the pieces -/

/-- the loop body of `bmix` (after the load) is one iteration of `Murmur.bmix`. -/
theorem tie_bmixBlock (h1 h2 k1 k2 : UInt64) : bmixBlock h1 h2 k1 k2 = modelBlock h1 h2 k1 k2 := by
  simp (disch := decide) only [bmixBlock, modelBlock, model_rotl, UInt64.reduceToNat,
    Murmur.c1, Murmur.c2] <;> ac_rfl

/-- the unsafe `[2]uint64` view of block `i` (little-endian target) reads the two words the model
    loads from the list with the first `16*i` bytes dropped. -/
theorem tie_blockLoad (p : List UInt8) (i : Nat) :
    blockLoad p i = (Murmur.le64 (p.drop (16 * i)), Murmur.le64 ((p.drop (16 * i)).drop 8)) := by
  simp only [blockLoad, GoBits.loadLE64, le64_take, List.drop_drop, Nat.add_zero, Nat.mul_comm i 16]

/-- the finalisation of `Sum128` (the calls of `fmix64` are inlined by the translator) is the
    finalisation of `Murmur.sum128`, `Murmur.fmix64` included. -/
theorem tie_finalize (h1 h2 dlen : UInt64) : finalize h1 h2 dlen = modelFinal h1 h2 dlen := by
  simp only [finalize, modelFinal, Murmur.fmix64] <;> ac_rfl

/-- one length of the tail: evaluate the guards `len & 15 ≥ c`, read the bytes, fold the
    `k ^= uint64(tail[i]) << 8i` chain into the little-endian value, rotate. -/
local macro "tail_case" : tactic =>
  `(tactic| (
    simp only [modelTail, ge_iff_le, Nat.reduceLeDiff, ↓reduceIte, GoBits.byteAt,
      List.getD_cons_succ, List.getD_cons_zero, List.length_cons, List.length_nil, Nat.reduceAdd,
      gt_iff_lt, Nat.reduceLT, Nat.lt_irrefl, Nat.not_succ_le_zero, Nat.le_refl, le64_take,
      List.drop_succ_cons, List.take_succ_cons, List.drop_zero, List.take_zero, List.take_nil,
      List.drop_nil]
    <;> simp (disch := decide) only [le64_start0, le64_start1, le64_last, le64_step,
      UInt64.shiftLeft_zero, model_rotl, UInt64.reduceToNat, Murmur.c1, Murmur.c2]))

/-- the `switch len(tail) & 15 { case 15: ...; fallthrough; ... case 1: ... }` of `Sum128` is the
    tail part of `Murmur.sum128`, for every tail shorter than a block. -/
theorem tie_tailMix (tail : List UInt8) (h1 h2 : UInt64) (hl : tail.length < 16) :
    tailMix tail h1 h2 = modelTail tail h1 h2 := by
  unfold tailMix
  rw [and15 _ hl]
  match tail, hl with
  | [], _ => tail_case
  | [_], _ => tail_case
  | [_, _], _ => tail_case
  | [_, _, _], _ => tail_case
  | [_, _, _, _], _ => tail_case
  | [_, _, _, _, _], _ => tail_case
  | [_, _, _, _, _, _], _ => tail_case
  | [_, _, _, _, _, _, _], _ => tail_case
  | [_, _, _, _, _, _, _, _], _ => tail_case
  | [_, _, _, _, _, _, _, _, _], _ => tail_case
  | [_, _, _, _, _, _, _, _, _, _], _ => tail_case
  | [_, _, _, _, _, _, _, _, _, _, _], _ => tail_case
  | [_, _, _, _, _, _, _, _, _, _, _, _], _ => tail_case
  | [_, _, _, _, _, _, _, _, _, _, _, _, _], _ => tail_case
  | [_, _, _, _, _, _, _, _, _, _, _, _, _, _], _ => tail_case
  | [_, _, _, _, _, _, _, _, _, _, _, _, _, _, _], _ => tail_case
  | _ :: _ :: _ :: _ :: _ :: _ :: _ :: _ :: _ :: _ :: _ :: _ :: _ :: _ :: _ :: _ :: _, h =>
    simp only [List.length_cons] at h; omega

/-! ### the loop -/

/-- `n` iterations of the Go loop starting at block `j` are `Murmur.bmix n` on the list with the
    first `16*j` bytes dropped (induction over the blocks). -/
theorem tie_bmix_from (p : List UInt8) (n j : Nat) (h1 h2 : UInt64) :
    Murmur.bmix n (p.drop (16 * j)) h1 h2 =
      (((List.range' j n 1).foldl
          (fun s i => bmixBlock s.1 s.2 (blockLoad p i).1 (blockLoad p i).2) (h1, h2)).1,
       ((List.range' j n 1).foldl
          (fun s i => bmixBlock s.1 s.2 (blockLoad p i).1 (blockLoad p i).2) (h1, h2)).2,
       p.drop (16 * (j + n))) := by
  induction n generalizing j h1 h2 with
  | zero => simp [bmix_zero]
  | succ n ih =>
    have hd : List.drop 16 (List.drop (16 * j) p) = List.drop (16 * (j + 1)) p := by
      rw [List.drop_drop]; congr 1
    rw [bmix_succ, hd, ih (j + 1), List.range'_succ, List.foldl_cons, tie_bmixBlock, tie_blockLoad]
    have e : 16 * (j + 1 + n) = 16 * (j + (n + 1)) := by omega
    rw [e]

/-- `(*digest128).bmix(data, nblocks)` from the state `(h1, h2)` is `Murmur.bmix nblocks data`. -/
theorem tie_bmix (p : List UInt8) (n : Nat) (h1 h2 : UInt64) :
    Murmur.bmix n p h1 h2
      = ((Generated.Murmur.bmix p n h1 h2).1, (Generated.Murmur.bmix p n h1 h2).2, p.drop (16 * n)) := by
  have h := tie_bmix_from p n 0 h1 h2
  simp only [Nat.mul_zero, List.drop_zero, Nat.zero_add] at h
  simp only [Generated.Murmur.bmix, bmixLoopFrom, bmixLoopStep, Nat.sub_zero]
  exact h

/-! ### the whole function -/

/-- both words of `sum128` of murmur.go, for every input. -/
theorem tie_murmur_sum128_words (data : List UInt8) :
    Generated.Murmur.sum128 data = Murmur.sum128 data := by
  have hb := tie_bmix data (data.length / 16) 0 0
  have hl : (data.drop (16 * (data.length / 16))).length < 16 := by
    rw [List.length_drop]; omega
  rw [model_sum128 data _ _ _ hb, ← tie_tailMix _ _ _ hl, ← tie_finalize]
  simp only [Generated.Murmur.sum128, digestSum128, nblocksOf, tailStart, lengthArg, seedH1, seedH2,
    Nat.mul_comm (data.length / 16) 16, Nat.toUInt64]

/-- the first word, as the `Nat` the cuckoo model works with (`Murmur.getHash`). -/
theorem tie_murmur_sum128 (data : List UInt8) :
    (Generated.Murmur.sum128 data).1.toNat = Murmur.getHash data := by
  rw [tie_murmur_sum128_words]; rfl

/-- the second word. -/
theorem tie_murmur_sum128_snd (data : List UInt8) :
    (Generated.Murmur.sum128 data).2 = (Murmur.sum128 data).2 := by
  rw [tie_murmur_sum128_words]

/-- `getHash` of base_cuckoo_filter.go (which word it takes is read from the source). -/
theorem tie_murmur_getHash (data : List UInt8) :
    (Generated.Murmur.getHash data).toNat = Murmur.getHash data := by
  simp only [Generated.Murmur.getHash, getHashWord, tie_murmur_sum128]

/-- nothing was refused by the translator. -/
theorem murmur_all_translated : Generated.Murmur.unsupported = [] := rfl

/-! ### non-vacuity: both sides evaluated on concrete inputs

  The expected values are the output of the REAL Go function: `sum128` / `getHash` run by `go test`
  in a scratch copy of /repo (test printing `sum128([]byte(s))` for the strings below; go1.23.5,
  linux/amd64, i.e. a little-endian target).  Lengths 0, 1, 16 (one block, empty tail), 17 (one
  block + 1), 40 (two blocks + 8: only the `k1` half of the switch), 15 (no block, all 15 cases). -/

/-- `''` (0 bytes): Go prints `0 0` -/
example : Generated.Murmur.sum128 [] = (0, 0)
    ∧ Murmur.sum128 [] = (0, 0)
    ∧ Murmur.getHash [] = 0 := by decide

/-- `'a'` (1 bytes): Go prints `9607679276477937801 16624257681780017498` -/
example : Generated.Murmur.sum128 [97] = (9607679276477937801, 16624257681780017498)
    ∧ Murmur.sum128 [97] = (9607679276477937801, 16624257681780017498)
    ∧ Murmur.getHash [97] = 9607679276477937801 := by decide

/-- `'0123456789abcdef'` (16 bytes): Go prints `5467490433528156583 9782763267945859290` -/
example : Generated.Murmur.sum128 [48, 49, 50, 51, 52, 53, 54, 55, 56, 57, 97, 98, 99, 100, 101, 102] = (5467490433528156583, 9782763267945859290)
    ∧ Murmur.sum128 [48, 49, 50, 51, 52, 53, 54, 55, 56, 57, 97, 98, 99, 100, 101, 102] = (5467490433528156583, 9782763267945859290)
    ∧ Murmur.getHash [48, 49, 50, 51, 52, 53, 54, 55, 56, 57, 97, 98, 99, 100, 101, 102] = 5467490433528156583 := by decide

/-- `'0123456789abcdefg'` (17 bytes): Go prints `10246358950979434974 576729866477728494` -/
example : Generated.Murmur.sum128 [48, 49, 50, 51, 52, 53, 54, 55, 56, 57, 97, 98, 99, 100, 101, 102, 103] = (10246358950979434974, 576729866477728494)
    ∧ Murmur.sum128 [48, 49, 50, 51, 52, 53, 54, 55, 56, 57, 97, 98, 99, 100, 101, 102, 103] = (10246358950979434974, 576729866477728494)
    ∧ Murmur.getHash [48, 49, 50, 51, 52, 53, 54, 55, 56, 57, 97, 98, 99, 100, 101, 102, 103] = 10246358950979434974 := by decide

/-- `'0123456789abcdefghijklmnopqrstuvwxyzABCD'` (40 bytes): Go prints `1784887533826638729 13095193262717793959` -/
example : Generated.Murmur.sum128 [48, 49, 50, 51, 52, 53, 54, 55, 56, 57, 97, 98, 99, 100, 101, 102, 103, 104, 105, 106, 107, 108, 109, 110, 111, 112, 113, 114, 115, 116, 117, 118, 119, 120, 121, 122, 65, 66, 67, 68] = (1784887533826638729, 13095193262717793959)
    ∧ Murmur.sum128 [48, 49, 50, 51, 52, 53, 54, 55, 56, 57, 97, 98, 99, 100, 101, 102, 103, 104, 105, 106, 107, 108, 109, 110, 111, 112, 113, 114, 115, 116, 117, 118, 119, 120, 121, 122, 65, 66, 67, 68] = (1784887533826638729, 13095193262717793959)
    ∧ Murmur.getHash [48, 49, 50, 51, 52, 53, 54, 55, 56, 57, 97, 98, 99, 100, 101, 102, 103, 104, 105, 106, 107, 108, 109, 110, 111, 112, 113, 114, 115, 116, 117, 118, 119, 120, 121, 122, 65, 66, 67, 68] = 1784887533826638729 := by decide

/-- `'hello, world!!!'` (15 bytes): Go prints `12035381082801483794 14804553198186399093` -/
example : Generated.Murmur.sum128 [104, 101, 108, 108, 111, 44, 32, 119, 111, 114, 108, 100, 33, 33, 33] = (12035381082801483794, 14804553198186399093)
    ∧ Murmur.sum128 [104, 101, 108, 108, 111, 44, 32, 119, 111, 114, 108, 100, 33, 33, 33] = (12035381082801483794, 14804553198186399093)
    ∧ Murmur.getHash [104, 101, 108, 108, 111, 44, 32, 119, 111, 114, 108, 100, 33, 33, 33] = 12035381082801483794 := by decide

end Gostatix.MurmurTie
