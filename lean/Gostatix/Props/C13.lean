/-
  C13 — cuckoo filter deletion and `length` accounting.
  In-memory filter (`BucketMem.ops emp`, namespace `Gostatix.Cuckoo.Mem`) and, at the end of the file,
  the Redis-backed filter (`BucketRedis.ops emp`, namespace `Gostatix.Cuckoo.Redis`); arbitrary
  fingerprint type `F` with empty value `emp`.
  Everything here holds for ANY number of buckets `n` and ANY alternate-bucket map `alt` that stays
  in range (no involution hypothesis), and for every choice of `side` / `slots` (slots `< bsize`).
  Helper lemmas: `Gostatix/Proofs/Cuckoo*.lean`.
-/
import Gostatix.Proofs.CuckooMem
import Gostatix.Proofs.CuckooRedis
namespace Gostatix.Cuckoo.Mem

section
variable {F : Type} [DecidableEq F] [Inhabited (BucketMem F)]

/-- `Insert` keeps the filter well-formed: both outcomes, both destructive modes, all choices. -/
theorem C13_wf_preserved_insert (emp : F) (alt : Nat → F → Nat) (c : Cuckoo (BucketMem F))
    (fp : F) (i1 i2 : Nat) (d side : Bool) (slots : List Nat)
    (hwf : WF emp c) (hAlt : ∀ j f, j < c.n → alt j f < c.n) (hb : 0 < c.bsize) (hfp : fp ≠ emp)
    (hi1 : i1 < c.n) (hi2 : i2 < c.n) (hsl : ∀ x ∈ slots, x < c.bsize) :
    WF emp (insert (BucketMem.ops emp) alt c fp i1 i2 d side slots).val :=
  (wf_iff emp _).mpr (insert_wf (BucketMem.lawful emp) alt c fp i1 i2 d side slots
    ((wf_iff emp c).mp hwf) hAlt hb hfp hi1 hi2 hsl).1

/-- `Remove` keeps the filter well-formed (both outcomes). -/
theorem C13_wf_preserved_remove (emp : F) (c : Cuckoo (BucketMem F)) (fp : F) (i1 i2 : Nat)
    (hwf : WF emp c) (hfp : fp ≠ emp) (hi1 : i1 < c.n) (hi2 : i2 < c.n) :
    WF emp (remove (BucketMem.ops emp) c fp i1 i2).1 := by
  cases hl : lookup (BucketMem.ops emp) c fp i1 i2 with
  | true =>
    exact (wf_iff emp _).mpr
      (remove_present (BucketMem.lawful emp) c fp i1 i2 ((wf_iff emp c).mp hwf) hfp hi1 hi2 hl).2.wf
  | false => rw [remove_absent c fp i1 i2 hl]; exact hwf

/-- Well-formedness is an invariant of every history of inserts (any mode, any choices, any
    outcome), removes and lookups of elements with valid positions. -/
theorem C13_wf_preserved (emp : F) (alt : Nat → F → Nat) (c : Cuckoo (BucketMem F))
    (h : List (COp F)) (hwf : WF emp c) (hAlt : ∀ j f, j < c.n → alt j f < c.n) (hb : 0 < c.bsize)
    (hv : ∀ op ∈ h, ValidOp emp c.n c.bsize op) :
    WF emp (run (BucketMem.ops emp) alt c h) :=
  (wf_iff emp _).mpr (run_inv (BucketMem.lawful emp) alt c.n c.bsize hAlt hb c h
    ⟨(wf_iff emp c).mp hwf, rfl, rfl⟩ hv).1.1

/-- **`length` is exact.** After any history run from the new filter, `length` equals the number
    of occupied slots and equals (#successful inserts − #successful removes). -/
theorem C13_length_exact (emp : F) (alt : Nat → F → Nat) (n bsize fpl retries : Nat)
    (h : List (COp F)) (hAlt : ∀ j f, j < n → alt j f < n) (hb : 0 < bsize)
    (hv : ∀ op ∈ h, ValidOp emp n bsize op) :
    let c0 := empty emp n bsize fpl retries
    let c := run (BucketMem.ops emp) alt c0 h
    c.length = stored emp c ∧
    c.length + okRemoves (BucketMem.ops emp) alt allSel c0 h
      = okInserts (BucketMem.ops emp) alt allSel c0 h := by
  intro c0 c
  have hI : Inv (BucketMem.lawful emp) n bsize c0 :=
    ⟨(wf_iff emp c0).mp (empty_wf emp n bsize fpl retries), rfl, rfl⟩
  obtain ⟨h1, h2, _⟩ := run_inv (BucketMem.lawful emp) alt n bsize hAlt hb c0 h hI hv
  refine ⟨((wf_iff emp c).mpr h1.1).length, ?_⟩
  have : c0.length = 0 := rfl
  rw [this] at h2
  simpa using h2

/-- `length` accounting from an arbitrary well-formed start state. -/
theorem C13_length_accounting (emp : F) (alt : Nat → F → Nat) (c0 : Cuckoo (BucketMem F))
    (h : List (COp F)) (hwf : WF emp c0) (hAlt : ∀ j f, j < c0.n → alt j f < c0.n) (hb : 0 < c0.bsize)
    (hv : ∀ op ∈ h, ValidOp emp c0.n c0.bsize op) :
    (run (BucketMem.ops emp) alt c0 h).length + okRemoves (BucketMem.ops emp) alt allSel c0 h
      = c0.length + okInserts (BucketMem.ops emp) alt allSel c0 h :=
  (run_inv (BucketMem.lawful emp) alt c0.n c0.bsize hAlt hb c0 h
    ⟨(wf_iff emp c0).mp hwf, rfl, rfl⟩ hv).2.1

/-- **Capacity.** After any history run from the new filter every bucket still has exactly `bsize`
    slots, its cached length is its number of occupied slots, and that is at most `bsize`. -/
theorem C13_capacity (emp : F) (alt : Nat → F → Nat) (n bsize fpl retries : Nat)
    (h : List (COp F)) (hAlt : ∀ j f, j < n → alt j f < n) (hb : 0 < bsize)
    (hv : ∀ op ∈ h, ValidOp emp n bsize op) :
    ∀ b ∈ (run (BucketMem.ops emp) alt (empty emp n bsize fpl retries) h).buckets,
      b.elements.length = bsize ∧ b.length = occ emp b.elements ∧ b.length ≤ bsize := by
  intro b hb'
  have hI : Inv (BucketMem.lawful emp) n bsize (empty emp n bsize fpl retries) :=
    ⟨(wf_iff emp _).mp (empty_wf emp n bsize fpl retries), rfl, rfl⟩
  obtain ⟨⟨hw, _, hs⟩, _, _⟩ := run_inv (BucketMem.lawful emp) alt n bsize hAlt hb _ h hI hv
  obtain ⟨_, h2, h3⟩ := hw.bs.wfb b hb'
  rw [hs] at h2
  have := occ_le_length emp b.elements
  exact ⟨h2, h3, by omega⟩

/-- **Removing a present element.** If `Lookup` is true then `Remove` returns true, the filter
    stays well-formed, `length` and the number of occupied slots drop by exactly one, and exactly
    one stored copy of `fp` disappears (every other fingerprint keeps its multiplicity). -/
theorem C13_remove_present (emp : F) (c : Cuckoo (BucketMem F)) (fp : F) (i1 i2 : Nat)
    (hwf : WF emp c) (hfp : fp ≠ emp) (hi1 : i1 < c.n) (hi2 : i2 < c.n)
    (hl : lookup (BucketMem.ops emp) c fp i1 i2 = true) :
    (remove (BucketMem.ops emp) c fp i1 i2).2 = true ∧
    WF emp (remove (BucketMem.ops emp) c fp i1 i2).1 ∧
    (remove (BucketMem.ops emp) c fp i1 i2).1.length + 1 = c.length ∧
    stored emp (remove (BucketMem.ops emp) c fp i1 i2).1 + 1 = stored emp c ∧
    ∀ g, g ≠ emp →
      (allSlots (remove (BucketMem.ops emp) c fp i1 i2).1).count g + (if g = fp then 1 else 0)
        = (allSlots c).count g := by
  obtain ⟨h1, sp⟩ :=
    remove_present (BucketMem.lawful emp) c fp i1 i2 ((wf_iff emp c).mp hwf) hfp hi1 hi2 hl
  refine ⟨h1, (wf_iff emp _).mpr sp.wf, sp.length, by rw [stored_eq, stored_eq]; exact sp.tocc, ?_⟩
  intro g hg
  have := sp.tcnt g hg
  rw [ind_eq_comm fp g] at this
  rw [count_allSlots_eq emp, count_allSlots_eq emp]
  exact this

/-- **Removing an absent element.** If `Lookup` is false then `Remove` returns false and the state
    is unchanged (no hypotheses). -/
theorem C13_remove_absent (emp : F) (c : Cuckoo (BucketMem F)) (fp : F) (i1 i2 : Nat)
    (hl : lookup (BucketMem.ops emp) c fp i1 i2 = false) :
    remove (BucketMem.ops emp) c fp i1 i2 = (c, false) :=
  remove_absent c fp i1 i2 hl

/-- `Remove` returns exactly what `Lookup` reports. -/
theorem C13_remove_result (emp : F) (c : Cuckoo (BucketMem F)) (fp : F) (i1 i2 : Nat)
    (hwf : WF emp c) (hfp : fp ≠ emp) (hi1 : i1 < c.n) (hi2 : i2 < c.n) :
    (remove (BucketMem.ops emp) c fp i1 i2).2 = lookup (BucketMem.ops emp) c fp i1 i2 := by
  cases hl : lookup (BucketMem.ops emp) c fp i1 i2 with
  | true => exact (C13_remove_present emp c fp i1 i2 hwf hfp hi1 hi2 hl).1
  | false => rw [remove_absent c fp i1 i2 hl]

/-- **Empty again.** A well-formed filter with `length = 0` has the buckets of a new filter, and
    every lookup of a valid element is false. -/
theorem C13_empty_after_all_removed (emp : F) (c : Cuckoo (BucketMem F)) (hwf : WF emp c)
    (h0 : c.length = 0) :
    c.buckets = List.replicate c.n (BucketMem.new emp c.bsize) ∧
    ∀ fp i1 i2, fp ≠ emp → i1 < c.n → i2 < c.n → lookup (BucketMem.ops emp) c fp i1 i2 = false := by
  have hbs := buckets_eq_empty emp c hwf h0
  refine ⟨hbs, ?_⟩
  intro fp i1 i2 hfp hi1 hi2
  have hz : ∀ j, j < c.n → cntB (BucketMem.lawful emp) c.buckets j fp = 0 := by
    intro j hj
    rw [hbs]
    exact empty_cnt emp c.n c.bsize 0 0 j fp hj hfp
  cases hl : lookup (BucketMem.ops emp) c fp i1 i2 with
  | false => rfl
  | true =>
    have := (lookup_iff (BucketMem.lawful emp) c fp i1 i2).mp hl
    rw [hz i1 hi1, hz i2 hi2] at this
    omega

/-- **A balanced history leaves a new filter.** If, in a history run from the new filter, every
    successful insert has been matched by a successful remove, the resulting state IS the new
    filter (same buckets, same `length`, same configuration). -/
theorem C13_balanced_history_is_new (emp : F) (alt : Nat → F → Nat) (n bsize fpl retries : Nat)
    (h : List (COp F)) (hAlt : ∀ j f, j < n → alt j f < n) (hb : 0 < bsize)
    (hv : ∀ op ∈ h, ValidOp emp n bsize op)
    (hbal : okInserts (BucketMem.ops emp) alt allSel (empty emp n bsize fpl retries) h
          = okRemoves (BucketMem.ops emp) alt allSel (empty emp n bsize fpl retries) h) :
    run (BucketMem.ops emp) alt (empty emp n bsize fpl retries) h = empty emp n bsize fpl retries := by
  obtain ⟨_, hlen⟩ := C13_length_exact emp alt n bsize fpl retries h hAlt hb hv
  have hwf := C13_wf_preserved emp alt (empty emp n bsize fpl retries) h
    (empty_wf emp n bsize fpl retries) hAlt hb hv
  obtain ⟨p1, p2, p3, p4⟩ :=
    run_params (o := BucketMem.ops emp) alt (empty emp n bsize fpl retries) h
  generalize run (BucketMem.ops emp) alt (empty emp n bsize fpl retries) h = c at *
  have h0 : c.length = 0 := by omega
  have hbs := (C13_empty_after_all_removed emp c hwf h0).1
  cases c
  simp only [empty] at *
  subst p1; subst p2; subst p3; subst p4; subst h0; subst hbs
  rfl

end

/-! ### non-vacuity -/

/-- insert two elements with the same fingerprint orbit, remove both: the filter is new again -/
example : run (BucketMem.ops 0) (fun j f => (j ^^^ f) % 2) (empty 0 2 1 0 3)
    [.insert 5 0 false true [0], .insert 7 1 false true [0], .lookup 5 0, .remove 5 0, .remove 5 0,
     .remove 7 1] = empty 0 2 1 0 3 := by decide

/-- The hypothesis `fp ≠ emp` is needed: inserting the empty fingerprint (what `getPositions`
    yields when the fingerprint length exceeds the hash's decimal length, the error being ignored)
    reports success and bumps `length` although `bucket.add` refuses to store it. -/
theorem C13_emp_fingerprint_miscounts :
    insert (BucketMem.ops 0) (fun j f => (j ^^^ f) % 2) (empty 0 2 1 0 3) 0 0 0 false true [0]
      = .ok ⟨2, 1, 0, 3, [⟨1, [0], 0⟩, ⟨1, [0], 0⟩], 1⟩ := by decide

end Gostatix.Cuckoo.Mem

/-! ## the same theorems for the Redis-backed filter (`BucketRedis.ops emp`) -/
namespace Gostatix.Cuckoo.Redis

section
variable {F : Type} [DecidableEq F] [Inhabited (BucketRedis F)]

/-- `Insert` keeps the filter well-formed: both outcomes, both destructive modes, all choices. -/
theorem C13_wf_preserved_insert (emp : F) (alt : Nat → F → Nat) (c : Cuckoo (BucketRedis F))
    (fp : F) (i1 i2 : Nat) (d side : Bool) (slots : List Nat)
    (hwf : WF emp c) (hAlt : ∀ j f, j < c.n → alt j f < c.n) (hb : 0 < c.bsize) (hfp : fp ≠ emp)
    (hi1 : i1 < c.n) (hi2 : i2 < c.n) (hsl : ∀ x ∈ slots, x < c.bsize) :
    WF emp (insert (BucketRedis.ops emp) alt c fp i1 i2 d side slots).val :=
  (wf_iff emp _).mpr (insert_wf (BucketRedis.lawful emp) alt c fp i1 i2 d side slots
    ((wf_iff emp c).mp hwf) hAlt hb hfp hi1 hi2 hsl).1

/-- `Remove` keeps the filter well-formed (both outcomes). -/
theorem C13_wf_preserved_remove (emp : F) (c : Cuckoo (BucketRedis F)) (fp : F) (i1 i2 : Nat)
    (hwf : WF emp c) (hfp : fp ≠ emp) (hi1 : i1 < c.n) (hi2 : i2 < c.n) :
    WF emp (remove (BucketRedis.ops emp) c fp i1 i2).1 := by
  cases hl : lookup (BucketRedis.ops emp) c fp i1 i2 with
  | true =>
    exact (wf_iff emp _).mpr
      (remove_present (BucketRedis.lawful emp) c fp i1 i2 ((wf_iff emp c).mp hwf) hfp hi1 hi2 hl).2.wf
  | false => rw [remove_absent c fp i1 i2 hl]; exact hwf

/-- Well-formedness is an invariant of every history of inserts (any mode, any choices, any
    outcome), removes and lookups of elements with valid positions. -/
theorem C13_wf_preserved (emp : F) (alt : Nat → F → Nat) (c : Cuckoo (BucketRedis F))
    (h : List (COp F)) (hwf : WF emp c) (hAlt : ∀ j f, j < c.n → alt j f < c.n) (hb : 0 < c.bsize)
    (hv : ∀ op ∈ h, ValidOp emp c.n c.bsize op) :
    WF emp (run (BucketRedis.ops emp) alt c h) :=
  (wf_iff emp _).mpr (run_inv (BucketRedis.lawful emp) alt c.n c.bsize hAlt hb c h
    ⟨(wf_iff emp c).mp hwf, rfl, rfl⟩ hv).1.1

/-- **`length` is exact.** After any history run from the new filter, `length` equals the number
    of occupied slots and equals (#successful inserts − #successful removes). -/
theorem C13_length_exact (emp : F) (alt : Nat → F → Nat) (n bsize fpl retries : Nat)
    (h : List (COp F)) (hAlt : ∀ j f, j < n → alt j f < n) (hb : 0 < bsize)
    (hv : ∀ op ∈ h, ValidOp emp n bsize op) :
    let c0 := (empty n bsize fpl retries : Cuckoo (BucketRedis F))
    let c := run (BucketRedis.ops emp) alt c0 h
    c.length = stored emp c ∧
    c.length + okRemoves (BucketRedis.ops emp) alt allSel c0 h
      = okInserts (BucketRedis.ops emp) alt allSel c0 h := by
  intro c0 c
  have hI : Inv (BucketRedis.lawful emp) n bsize c0 :=
    ⟨(wf_iff emp c0).mp (empty_wf emp n bsize fpl retries), rfl, rfl⟩
  obtain ⟨h1, h2, _⟩ := run_inv (BucketRedis.lawful emp) alt n bsize hAlt hb c0 h hI hv
  refine ⟨((wf_iff emp c).mpr h1.1).length, ?_⟩
  have : c0.length = 0 := rfl
  rw [this] at h2
  simpa using h2

/-- `length` accounting from an arbitrary well-formed start state. -/
theorem C13_length_accounting (emp : F) (alt : Nat → F → Nat) (c0 : Cuckoo (BucketRedis F))
    (h : List (COp F)) (hwf : WF emp c0) (hAlt : ∀ j f, j < c0.n → alt j f < c0.n) (hb : 0 < c0.bsize)
    (hv : ∀ op ∈ h, ValidOp emp c0.n c0.bsize op) :
    (run (BucketRedis.ops emp) alt c0 h).length + okRemoves (BucketRedis.ops emp) alt allSel c0 h
      = c0.length + okInserts (BucketRedis.ops emp) alt allSel c0 h :=
  (run_inv (BucketRedis.lawful emp) alt c0.n c0.bsize hAlt hb c0 h
    ⟨(wf_iff emp c0).mp hwf, rfl, rfl⟩ hv).2.1

/-- **Removing a present element.** If `Lookup` is true then `Remove` returns true, the filter
    stays well-formed, `length` and the number of occupied slots drop by exactly one, and exactly
    one stored copy of `fp` disappears (every other fingerprint keeps its multiplicity). -/
theorem C13_remove_present (emp : F) (c : Cuckoo (BucketRedis F)) (fp : F) (i1 i2 : Nat)
    (hwf : WF emp c) (hfp : fp ≠ emp) (hi1 : i1 < c.n) (hi2 : i2 < c.n)
    (hl : lookup (BucketRedis.ops emp) c fp i1 i2 = true) :
    (remove (BucketRedis.ops emp) c fp i1 i2).2 = true ∧
    WF emp (remove (BucketRedis.ops emp) c fp i1 i2).1 ∧
    (remove (BucketRedis.ops emp) c fp i1 i2).1.length + 1 = c.length ∧
    stored emp (remove (BucketRedis.ops emp) c fp i1 i2).1 + 1 = stored emp c ∧
    ∀ g, g ≠ emp →
      (allSlots (remove (BucketRedis.ops emp) c fp i1 i2).1).count g + (if g = fp then 1 else 0)
        = (allSlots c).count g := by
  obtain ⟨h1, sp⟩ :=
    remove_present (BucketRedis.lawful emp) c fp i1 i2 ((wf_iff emp c).mp hwf) hfp hi1 hi2 hl
  refine ⟨h1, (wf_iff emp _).mpr sp.wf, sp.length, by rw [stored_eq, stored_eq]; exact sp.tocc, ?_⟩
  intro g hg
  have := sp.tcnt g hg
  rw [ind_eq_comm fp g] at this
  rw [count_allSlots_eq emp, count_allSlots_eq emp]
  exact this

/-- **Removing an absent element.** If `Lookup` is false then `Remove` returns false and the state
    is unchanged (no hypotheses). -/
theorem C13_remove_absent (emp : F) (c : Cuckoo (BucketRedis F)) (fp : F) (i1 i2 : Nat)
    (hl : lookup (BucketRedis.ops emp) c fp i1 i2 = false) :
    remove (BucketRedis.ops emp) c fp i1 i2 = (c, false) :=
  remove_absent c fp i1 i2 hl

/-- `Remove` returns exactly what `Lookup` reports. -/
theorem C13_remove_result (emp : F) (c : Cuckoo (BucketRedis F)) (fp : F) (i1 i2 : Nat)
    (hwf : WF emp c) (hfp : fp ≠ emp) (hi1 : i1 < c.n) (hi2 : i2 < c.n) :
    (remove (BucketRedis.ops emp) c fp i1 i2).2 = lookup (BucketRedis.ops emp) c fp i1 i2 := by
  cases hl : lookup (BucketRedis.ops emp) c fp i1 i2 with
  | true => exact (C13_remove_present emp c fp i1 i2 hwf hfp hi1 hi2 hl).1
  | false => rw [remove_absent c fp i1 i2 hl]


/-- **Capacity.** After any history run from the new filter every bucket list has at most `bsize`
    entries, its counter is its number of non-empty entries, and that is at most `bsize`. -/
theorem C13_capacity (emp : F) (alt : Nat → F → Nat) (n bsize fpl retries : Nat)
    (h : List (COp F)) (hAlt : ∀ j f, j < n → alt j f < n) (hb : 0 < bsize)
    (hv : ∀ op ∈ h, ValidOp emp n bsize op) :
    ∀ b ∈ (run (BucketRedis.ops emp) alt (empty n bsize fpl retries : Cuckoo (BucketRedis F)) h).buckets,
      b.list.length ≤ bsize ∧ b.len = occ emp b.list ∧ b.len ≤ bsize := by
  intro b hb'
  have hI : Inv (BucketRedis.lawful emp) n bsize (empty n bsize fpl retries : Cuckoo (BucketRedis F)) :=
    ⟨(wf_iff emp _).mp (empty_wf emp n bsize fpl retries), rfl, rfl⟩
  obtain ⟨⟨hw, _, hs⟩, _, _⟩ := run_inv (BucketRedis.lawful emp) alt n bsize hAlt hb _ h hI hv
  obtain ⟨_, h2, h3⟩ := hw.bs.wfb b hb'
  rw [hs] at h2
  have := occ_le_length emp b.list
  exact ⟨h2, h3, by omega⟩

/-- **Empty again.** In a well-formed filter with `length = 0` every list entry is the empty
    string and every lookup of a valid element is false. -/
theorem C13_empty_after_all_removed (emp : F) (c : Cuckoo (BucketRedis F)) (hwf : WF emp c)
    (h0 : c.length = 0) :
    (∀ b ∈ c.buckets, ∀ x ∈ b.list, x = emp) ∧
    ∀ fp i1 i2, fp ≠ emp → i1 < c.n → i2 < c.n → lookup (BucketRedis.ops emp) c fp i1 i2 = false := by
  refine ⟨?_, ?_⟩
  · have ht : tocc (BucketRedis.lawful emp) c.buckets = 0 := by rw [← stored_eq, ← hwf.length, h0]
    unfold tocc at ht
    rw [tot_eq_zero_iff] at ht
    intro b hb
    exact (occ_eq_zero_iff emp _).mp (ht b hb)
  · intro fp i1 i2 hfp hi1 hi2
    cases hl : lookup (BucketRedis.ops emp) c fp i1 i2 with
    | false => rfl
    | true =>
      have := (lookup_iff (BucketRedis.lawful emp) c fp i1 i2).mp hl
      have z1 := cnt_eq_zero_of_length_zero emp c hwf h0 i1 hi1 fp hfp
      have z2 := cnt_eq_zero_of_length_zero emp c hwf h0 i2 hi2 fp hfp
      unfold cnt at z1 z2
      unfold cntB at this
      change 0 < (bucketAt c.buckets i1).list.count fp ∨ 0 < (bucketAt c.buckets i2).list.count fp at this
      omega

/-- **A balanced history leaves an empty filter.** If every successful insert has been matched by a
    successful remove, `length` is 0 and every lookup of a valid element is false, as in a new filter
    (the Redis lists may keep empty-string holes, which no operation can observe). -/
theorem C13_balanced_history_is_new (emp : F) (alt : Nat → F → Nat) (n bsize fpl retries : Nat)
    (h : List (COp F)) (hAlt : ∀ j f, j < n → alt j f < n) (hb : 0 < bsize)
    (hv : ∀ op ∈ h, ValidOp emp n bsize op)
    (hbal : okInserts (BucketRedis.ops emp) alt allSel (empty n bsize fpl retries : Cuckoo (BucketRedis F)) h
          = okRemoves (BucketRedis.ops emp) alt allSel (empty n bsize fpl retries : Cuckoo (BucketRedis F)) h) :
    (run (BucketRedis.ops emp) alt (empty n bsize fpl retries : Cuckoo (BucketRedis F)) h).length = 0 ∧
    ∀ fp i1 i2, fp ≠ emp → i1 < n → i2 < n →
      lookup (BucketRedis.ops emp)
        (run (BucketRedis.ops emp) alt (empty n bsize fpl retries : Cuckoo (BucketRedis F)) h) fp i1 i2 = false := by
  obtain ⟨_, hlen⟩ := C13_length_exact emp alt n bsize fpl retries h hAlt hb hv
  have hwf := C13_wf_preserved emp alt (empty n bsize fpl retries : Cuckoo (BucketRedis F)) h
    (empty_wf emp n bsize fpl retries) hAlt hb hv
  obtain ⟨p1, _, _, _⟩ :=
    run_params (o := BucketRedis.ops emp) alt (empty n bsize fpl retries : Cuckoo (BucketRedis F)) h
  generalize run (BucketRedis.ops emp) alt (empty n bsize fpl retries : Cuckoo (BucketRedis F)) h = c at *
  have h0 : c.length = 0 := by omega
  refine ⟨h0, ?_⟩
  intro fp i1 i2 hfp hi1 hi2
  have hn : c.n = n := p1
  exact (C13_empty_after_all_removed emp c hwf h0).2 fp i1 i2 hfp (by omega) (by omega)

end

/-! ### non-vacuity (Redis): a removed entry leaves a hole `0` that the next insert re-uses -/

example :
    let alt : Nat → Nat → Nat := fun j f => (j ^^^ f) % 2
    let c := run (BucketRedis.ops 0) alt (empty 2 2 0 3 : Cuckoo (BucketRedis Nat))
      [.insert 5 0 false true [0], .insert 7 0 false true [0], .remove 5 0, .insert 9 0 false true [0]]
    c.buckets = [⟨2, [7, 9], 2⟩, ⟨2, [], 0⟩] ∧ c.length = 2 := by decide

end Gostatix.Cuckoo.Redis
