/-
  LoopTieCMS — the LOOPS of the in-memory Count-Min sketch are the list recursions of the machine
  model, for all inputs.

  extract/loops.go translates four functions of the CURRENT Go source as WHOLE bodies, loops
  included, statement by statement, into Generated/Loops.lean on every run:

      base_count_min_sketch.go  getPositions  ->  Generated.Loops.cmsGetPositions
      count_min_sketch.go       Update        ->  Generated.Loops.cmsUpdate
                                Count         ->  Generated.Loops.cmsCount
                                Merge         ->  Generated.Loops.cmsMerge

  over the record `Generated.Loops.Sketch` of the struct's fields (`rows columns allSum : UInt64`,
  `matrix : List (List UInt64)`), with the semantics of Model/GoLoop.lean: every index is checked,
  `none` is a Go run-time panic, `metro.Hash128` is an arbitrary function `H` (its two result words
  are `h1 H data`, `h2 H data`), the lock calls are skipped (they are the lock table's business).

  PROVED, for every `H`, `data`, `count` and every sketch satisfying the structure's invariant

      WFM s  :=  len(matrix) = rows  ∧  every row has `columns` entries  ∧  0 < columns     (decidable)

   * `tie_loop_getPositions`   getPositions fills EVERY entry `c = 0 .. rows-1` with
                               `(h1 + uint64(c)*h2) % columns` (`posOf`, `tie_loop_getPositionsU`), and read as
                               numbers the result is `CMS.positionsOf` (`positions`), the position list of the
                               models (needs only `0 < columns`);
   * `tie_loop_update`         `cmsUpdate H s data count = some (ofM s (CMSM.updateM (toM s) (positions H s data) count))`
                               (every row exactly once, with the position of THAT row; then `allSum`);
   * `tie_loop_count`          `cmsCount H s data = some (CMSM.countM (toM s) (positions H s data))`
                               (the minimum over all rows, started from the first row's cell);
   * `tie_loop_merge`          `cmsMerge a b` is `(a, errRow)` when the row counts differ, else `(a, errColumn)`
                               when the column counts differ (the receiver is UNCHANGED in both: `tie_loop_merge_rejected`),
                               else `(a with every cell `cellMerge`d, nil)`; `tie_loop_merge_model` states it with
                               `CMSM.mergeM (toM a) (toM b)`;
   * `WFM_new`, `WFM_update`, `WFM_merge`   the constructor establishes `WFM`, the operations keep it
                               (`Count` does not store to the receiver: its generated result type has no receiver component);
   * `loops_all_translated`    `Generated.Loops.unsupported = []`.
  Props/LoopTieCMSKernels.lean adds that the statements inside the loops, as loops.go translates them, are the
  kernels of Generated/Arith.lean (arith.go) which Props/ArithTieCMS*.lean tie to the models; this file does NOT
  import Generated/Arith.lean, so a harmless rewrite that only arith.go refuses leaves it green.
  A function the translator could not translate has NO definition in Generated/Loops.lean and the
  theorems naming it fail to elaborate.

  OUTSIDE `WFM` nothing is claimed about equality with the model: the model treats an out-of-range
  position as a no-op (Model/CMSM.lean), the Go code PANICS on a short row, and so does the
  generated definition (`none`): see the `decide` examples at the end (a short row; zero columns).

  NOT covered: the byte-level hash (an arbitrary function here), locking (Generated/LockTable.lean),
  the lengths Go cannot have (a slice longer than 2^63-1; `WFM` bounds `len(matrix)` by `rows < 2^64`),
  rows of the matrix that share storage (slices are values here; `NewCountMinSketch`, `Import` and
  `ReadFrom` make every row separately).
-/
import Gostatix.Proofs.LoopTieCMS
set_option linter.unusedSimpArgs false
set_option linter.unusedVariables false

namespace Gostatix.LoopTie
open Gostatix Gostatix.GoLoop Gostatix.Generated.Loops

/-- the opaque hash: `metro.Hash128(data, seed)` -/
abbrev Hash := List UInt8 → UInt64 → UInt64 × UInt64

/-- the two hash words `getPositions` uses (seed 1373, as in the source: see `tie_loop_getPositions`) -/
def h1 (H : Hash) (data : List UInt8) : UInt64 := (H data 1373).1
def h2 (H : Hash) (data : List UInt8) : UInt64 := (H data 1373).2

/-- the structure's invariant -/
def WFM (s : Sketch) : Prop :=
  s.matrix.length = s.rows.toNat ∧ (∀ row ∈ s.matrix, row.length = s.columns.toNat) ∧ 0 < s.columns

instance (s : Sketch) : Decidable (WFM s) := by unfold WFM; infer_instance

/-- the record of the generated code as a state of the machine model, and back -/
def toM (s : Sketch) : CMSM :=
  { rows := s.rows.toNat, cols := s.columns.toNat, allSum := s.allSum, m := s.matrix }

/-- the model state `t` put back into the record (`rows` / `columns` are never stored to) -/
def ofM (s : Sketch) (t : CMSM) : Sketch := { s with allSum := t.allSum, matrix := t.m }

theorem ofM_toM (s : Sketch) : ofM s (toM s) = s := rfl

/-- `NewCountMinSketch(rows, columns)` (after its `rows <= 0 || columns <= 0` check) -/
def newSketch (rows columns : UInt64) : Sketch :=
  { rows := rows, columns := columns, allSum := 0,
    matrix := List.replicate rows.toNat (List.replicate columns.toNat 0) }

theorem toM_new (rows columns : UInt64) : toM (newSketch rows columns) = CMSM.new rows.toNat columns.toNat := rfl

/-- the positions of `data` in the models: `CMS.positionsOf` of the two hash words -/
def positions (H : Hash) (s : Sketch) (data : List UInt8) : List Nat :=
  CMS.positionsOf (h1 H data).toNat (h2 H data).toNat s.rows.toNat s.columns.toNat

/-- the same list as the Go code holds it (`[]uint`), entry `c` is `posOf h1 h2 columns c`, the
    expression of the source (`uint((hash1 + uint64(c)*hash2) % uint64(cms.columns))`) -/
def positionsU (H : Hash) (s : Sketch) (data : List UInt8) : List UInt64 :=
  (List.range s.rows.toNat).map (posOf (h1 H data) (h2 H data) s.columns)

/-- one entry, read as a number, is `CMS.position` (for ALL hash words, rows, columns) -/
theorem posOf_toNat (a b cols : UInt64) (c : Nat) (hc : c < 2 ^ 64) :
    (posOf a b cols c).toNat = CMS.position a.toNat b.toNat c cols.toNat := by
  simp only [posOf, CMS.position, UInt64.toNat_mod, UInt64.toNat_add, UInt64.toNat_mul,
    UInt64.toNat_ofNat_of_lt' hc]
  congr 1
  (try simp only [Nat.mul_comm])
  omega

theorem positionsU_toNat (H : Hash) (s : Sketch) (data : List UInt8) :
    (positionsU H s data).map UInt64.toNat = positions H s data := by
  simp only [positionsU, positions, CMS.positionsOf, List.map_map]
  apply List.map_congr_left
  intro c hcr
  have := List.mem_range.1 hcr
  exact posOf_toNat _ _ _ c (Nat.lt_trans this s.rows.toNat_lt)

/-! ### getPositions -/

/-- **`getPositions` fills every entry**: `rows` entries, entry `c` is `cmsPosition h1 h2 c columns`. -/
theorem tie_loop_getPositionsU (H : Hash) (s : Sketch) (data : List UInt8) (hc : 0 < s.columns) :
    cmsGetPositions H s data = some (positionsU H s data) := by
  have hc' : s.columns ≠ 0 := by intro h; rw [h] at hc; exact absurd hc (by decide)
  have hlen : (List.replicate s.rows.toNat (0 : UInt64)).length = s.rows.toNat := by simp
  have := getPositions_loop s (h1 H data) (h2 H data) (List.replicate s.rows.toNat 0) hlen hc'
  rw [hlen] at this
  simp [cmsGetPositions, positionsU, h1, h2] at this ⊢
  exact this

/-- **`getPositions` = `positions` of the model** (read as numbers). -/
theorem tie_loop_getPositions (H : Hash) (s : Sketch) (data : List UInt8) (hc : 0 < s.columns) :
    (cmsGetPositions H s data).map (List.map UInt64.toNat) = some (positions H s data) := by
  rw [tie_loop_getPositionsU H s data hc, Option.map_some, positionsU_toNat H s data]

/-- the positions are inside the rows -/
theorem positionsU_lt (H : Hash) (s : Sketch) (data : List UInt8) (hc : 0 < s.columns)
    (j : Nat) (h : j < (positionsU H s data).length) : ((positionsU H s data)[j]).toNat < s.columns.toNat := by
  have hc' : 0 < s.columns.toNat := by
    have := UInt64.lt_iff_toNat_lt.1 hc
    simpa using this
  simp only [positionsU, List.getElem_map, posOf, UInt64.toNat_mod]
  exact Nat.mod_lt _ hc'

theorem positionsU_length (H : Hash) (s : Sketch) (data : List UInt8) :
    (positionsU H s data).length = s.rows.toNat := by simp [positionsU]

/-- the facts the loop lemmas need, from `WFM` -/
theorem WFM.row_length {s : Sketch} (h : WFM s) (j : Nat) (hj : j < s.matrix.length) :
    (s.matrix[j]).length = s.columns.toNat := h.2.1 _ (List.getElem_mem hj)

theorem WFM.length_le {s : Sketch} (h : WFM s) : s.matrix.length ≤ 2 ^ 64 := by
  rw [h.1]; exact Nat.le_of_lt s.rows.toNat_lt

/-! ### Update -/

/-- **`Update`, the whole function**: every row once, the cell at the position of that row, then `allSum`. -/
theorem tie_loop_update (H : Hash) (s : Sketch) (data : List UInt8) (count : UInt64) (h : WFM s) :
    cmsUpdate H s data count = some (ofM s (CMSM.updateM (toM s) (positions H s data) count)) := by
  have hl := update_loop s count (positionsU H s data)
    (by rw [positionsU_length, h.1]) h.1
    (fun j hj hj' => by rw [h.row_length j hj']; exact positionsU_lt H s data h.2.2 j hj)
  rw [positionsU_toNat H s data] at hl
  simp [cmsUpdate, tie_loop_getPositionsU H s data h.2.2, hl, ofM, toM, CMSM.updateM, CMSM.allSumUpdate]

/-- the same, spelled out on the record -/
theorem tie_loop_update_fields (H : Hash) (s : Sketch) (data : List UInt8) (count : UInt64) (h : WFM s) :
    cmsUpdate H s data count
      = some { s with matrix := CMSM.updRowsM s.matrix (positions H s data) count,
                      allSum := s.allSum + count } := by
  rw [tie_loop_update H s data count h]; rfl

/-! ### Count -/

/-- **`Count`, the whole function**: the minimum over ALL rows, started from the first row's cell. -/
theorem tie_loop_count (H : Hash) (s : Sketch) (data : List UInt8) (h : WFM s) :
    cmsCount H s data = some (CMSM.countM (toM s) (positions H s data)) := by
  have hl := count_loop s (positionsU H s data)
    (by rw [positionsU_length, h.1]) h.1
    (fun j hj hj' => by rw [h.row_length j hj']; exact positionsU_lt H s data h.2.2 j hj)
  rw [positionsU_toNat H s data] at hl
  simp [cmsCount, tie_loop_getPositionsU H s data h.2.2, hl, toM, CMSM.countM]

/-! ### Merge -/

/-- **`Merge`, the whole function**, both error exits included. -/
theorem tie_loop_merge (a b : Sketch) (ha : WFM a) (hb : WFM b) :
    cmsMerge a b
      = some (if a.rows ≠ b.rows then (a, cmsMergeErr.errRow)
              else if a.columns ≠ b.columns then (a, cmsMergeErr.errColumn)
              else ({ a with matrix := CMSM.addRowsM a.matrix b.matrix }, cmsMergeErr.nil)) := by
  by_cases hr : a.rows = b.rows
  · by_cases hc : a.columns = b.columns
    · have hlen : b.matrix.length = a.matrix.length := by rw [ha.1, hb.1, hr]
      have h1 := merge_loop1 b (List.replicate b.matrix.length []) (by simp) hb.1
      have h2 := merge_loop2 a b.matrix hlen ha.1 (fun j hj' => ha.row_length j hj')
        (fun j hj => by rw [hb.row_length j hj, hc])
      simp [cmsMerge, hr, hc, h1, h2]
    · simp [cmsMerge, hr, hc]
  · simp [cmsMerge, hr]

/-- a rejected merge leaves the receiver unchanged (and says which check failed) -/
theorem tie_loop_merge_rejected (a b : Sketch) (ha : WFM a) (hb : WFM b)
    (h : a.rows ≠ b.rows ∨ a.columns ≠ b.columns) :
    ∃ e, e ≠ cmsMergeErr.nil ∧ cmsMerge a b = some (a, e)
      ∧ (e = cmsMergeErr.errRow ↔ a.rows ≠ b.rows) := by
  rw [tie_loop_merge a b ha hb]
  by_cases hr : a.rows = b.rows
  · have hc : a.columns ≠ b.columns := by
      cases h with
      | inl h => exact absurd hr h
      | inr h => exact h
    exact ⟨.errColumn, by decide, by simp [hr, hc], by simp [hr]⟩
  · exact ⟨.errRow, by decide, by simp [hr], by simp [hr]⟩

/-- with the model: `mergeM` rejects exactly when the code returns an error (and then nothing is
    stored), and otherwise the new receiver is the model's result. -/
theorem tie_loop_merge_model (a b : Sketch) (ha : WFM a) (hb : WFM b) :
    match CMSM.mergeM (toM a) (toM b) with
    | .err => ∃ e, e ≠ cmsMergeErr.nil ∧ cmsMerge a b = some (a, e)
    | .ok t => cmsMerge a b = some (ofM a t, cmsMergeErr.nil) := by
  rw [tie_loop_merge a b ha hb]
  have er : (toM a).rows = (toM b).rows ↔ a.rows = b.rows := by
    simp [toM, UInt64.toNat_inj]
  have ec : (toM a).cols = (toM b).cols ↔ a.columns = b.columns := by
    simp [toM, UInt64.toNat_inj]
  by_cases hr : a.rows = b.rows
  · by_cases hc : a.columns = b.columns
    · simp [CMSM.mergeM, er, ec, hr, hc, ofM, toM]
    · simp [CMSM.mergeM, er, ec, hr, hc]
  · simp [CMSM.mergeM, er, hr]

/-! ### the invariant -/

theorem WFM_new (rows columns : UInt64) (hc : 0 < columns) : WFM (newSketch rows columns) := by
  refine ⟨by simp [newSketch], ?_, hc⟩
  intro row hrow
  simp [newSketch] at hrow
  simp [newSketch, hrow.2]

theorem mem_updRowsM_length (m : List (List UInt64)) (ps : List UInt64) (c : UInt64) (n : Nat)
    (h : ∀ row ∈ m, row.length = n) : ∀ row ∈ CMSM.updRowsM m (ps.map UInt64.toNat) c, row.length = n := by
  intro row hrow
  obtain ⟨j, hj, hget⟩ := List.mem_iff_getElem.1 hrow
  have h1 := getElem?_updRowsM m ps c j
  rw [List.getElem?_eq_getElem hj, hget] at h1
  cases hm : m[j]? with
  | none => rw [hm] at h1; simp at h1
  | some r0 =>
    rw [hm] at h1
    have hr0 : r0 ∈ m := List.mem_of_getElem? hm
    have : row = rowStep ps (fun cell => CMSM.cellUpdate cell c) j r0 := by simpa using h1
    rw [this, rowStep]
    split <;> simp [h r0 hr0]

theorem length_updRowsM (m : List (List UInt64)) (pos : List Nat) (c : UInt64) :
    (CMSM.updRowsM m pos c).length = m.length := by
  induction m generalizing pos with
  | nil => cases pos <;> rfl
  | cons row m ih => cases pos <;> simp [CMSM.updRowsM, ih]

theorem length_addRowsM (a b : List (List UInt64)) : (CMSM.addRowsM a b).length = a.length := by
  induction a generalizing b with
  | nil => cases b <;> rfl
  | cons row a ih => cases b <;> simp [CMSM.addRowsM, ih]

/-- `Update` keeps the invariant -/
theorem WFM_update (H : Hash) (s : Sketch) (data : List UInt8) (count : UInt64) (h : WFM s) :
    ∃ s', cmsUpdate H s data count = some s' ∧ WFM s' := by
  refine ⟨_, tie_loop_update H s data count h, ?_, ?_, h.2.2⟩
  · simp [ofM, toM, CMSM.updateM, length_updRowsM, h.1]
  · rw [← positionsU_toNat H s data]
    exact mem_updRowsM_length s.matrix _ count _ h.2.1

/-- `Merge` keeps the invariant (whether it is rejected or not) -/
theorem WFM_merge (a b : Sketch) (ha : WFM a) (hb : WFM b) :
    ∃ a' e, cmsMerge a b = some (a', e) ∧ WFM a' := by
  rw [tie_loop_merge a b ha hb]
  by_cases hr : a.rows = b.rows
  · by_cases hc : a.columns = b.columns
    · refine ⟨{ a with matrix := CMSM.addRowsM a.matrix b.matrix }, .nil, by simp [hr, hc], ?_, ?_, ha.2.2⟩
      · simp [length_addRowsM, ha.1]
      · intro row hrow
        obtain ⟨j, hj, hget⟩ := List.mem_iff_getElem.1 hrow
        have hj' : j < a.matrix.length := by simpa [length_addRowsM] using hj
        have hjb : j < b.matrix.length := by rw [hb.1, ← hr, ← ha.1]; exact hj'
        have h1 := getElem?_addRowsM a.matrix b.matrix j
        rw [List.getElem?_eq_getElem hj, hget, List.getElem?_eq_getElem hj'] at h1
        have : row = rowMerge b.matrix j a.matrix[j] := by simpa using h1
        rw [this]
        simp [rowMerge, hjb, ha.row_length j hj', hb.row_length j hjb, hc]
    · exact ⟨a, .errColumn, by simp [hr, hc], ha⟩
  · exact ⟨a, .errRow, by simp [hr], ha⟩

/-! ### nothing was refused -/

/-- all four functions were translated -/
theorem loops_all_translated : Generated.Loops.unsupported = [] := rfl

/-! ### examples; states outside `WFM` -/

/-- a hash for the examples: the two words are the first two bytes -/
def exH : Hash := fun data _ => ((data.getD 0 0).toUInt64, (data.getD 1 0).toUInt64)

/-- 3 rows, 4 columns, `h1 = 1`, `h2 = 2`: positions 1, 3, 1 -/
example : cmsGetPositions exH (newSketch 3 4) [1, 2] = some [1, 3, 1] := by decide

example : (cmsUpdate exH (newSketch 3 4) [1, 2] 5).map (·.matrix)
    = some [[0, 5, 0, 0], [0, 0, 0, 5], [0, 5, 0, 0]] := by decide

example : ((cmsUpdate exH (newSketch 3 4) [1, 2] 5).bind fun s => cmsCount exH s [1, 2]) = some 5 := by decide

/-- Count starts from the FIRST row's cell (not from 0): rows hold 7, 9 at the probed cells -/
example : cmsCount exH { rows := 2, columns := 1, allSum := 0, matrix := [[7], [9]] } [0, 0] = some 7 := by decide
example : cmsCount exH { rows := 2, columns := 1, allSum := 0, matrix := [[9], [7]] } [0, 0] = some 7 := by decide

example : cmsMerge (newSketch 2 2) (newSketch 3 2) = some (newSketch 2 2, cmsMergeErr.errRow) := by decide
example : cmsMerge (newSketch 2 2) (newSketch 2 3) = some (newSketch 2 2, cmsMergeErr.errColumn) := by decide
example : cmsMerge { rows := 1, columns := 2, allSum := 3, matrix := [[1, 18446744073709551615]] }
                   { rows := 1, columns := 2, allSum := 4, matrix := [[2, 2]] }
    = some ({ rows := 1, columns := 2, allSum := 3, matrix := [[3, 1]] }, cmsMergeErr.nil) := by decide

/-- OUTSIDE `WFM`: a short row.  The Go code panics (index out of range); the generated definition
    yields `none`, whereas the model `CMSM.updateM` treats the position as a no-op. -/
def shortRow : Sketch := { rows := 2, columns := 4, allSum := 0, matrix := [[0, 0, 0, 0], [0, 0]] }

example : ¬ WFM shortRow := by decide
example : cmsGetPositions exH shortRow [1, 2] = some [1, 3] := by decide
example : cmsUpdate exH shortRow [1, 2] 5 = none := by decide
example : cmsCount exH shortRow [1, 2] = none := by decide
example : (CMSM.updateM (toM shortRow) (positions exH shortRow [1, 2]) 5).m = [[0, 5, 0, 0], [0, 0]] := by decide
/-- a missing row: `Merge` panics on `other[i]`; zero columns: `getPositions` divides by zero -/
example : cmsMerge { rows := 2, columns := 1, allSum := 0, matrix := [[1], [2]] }
                   { rows := 2, columns := 1, allSum := 0, matrix := [[1]] } = none := by decide
example : cmsGetPositions exH { rows := 1, columns := 0, allSum := 0, matrix := [[]] } [1, 2] = none := by decide

end Gostatix.LoopTie
