/-
  C10 (JSON round trip) — what the hand-written codec of Model/Json.lean silently ASSUMES about
  the Go mirror structs and the Export / Import methods, decided over the table REGENERATED from
  /repo's current sources on every run (`Gostatix/Generated/JsonTable.lean`, extract/layout.go).

  Model/Json.lean works at the level of the mirror struct: the Go `*JSON` struct is a Lean record
  (`BloomDoc`, `BucketDoc`, `CuckooDoc`, `CMSDoc`, `HLLDoc`, `TopKDoc`), `exportDoc` builds it,
  `importDoc` consumes it, and `encoding/json` (struct ⇄ bytes) is trusted to be the identity on
  it.  That trust is only justified when
    (1) every field of the mirror struct is always written and read under a key of its own:
        no `omitempty` (retries 0, length 0, k 0, an empty key name are values), no `,string`,
        no `-`, no unexported or untagged field, no two fields with one key;
    (2) Export fills every field of the struct and Import consumes every field Export fills —
        the differences (bucket size/length recomputed on import, key fields of the in-memory
        variants) are exactly the ones the Lean `importDoc` documents as "ignored";
    (3) the record fields of the Lean `…Doc` types are the JSON keys of the Go struct.

  The table has one entry per function that goes through `encoding/json` or touches a mirror field.
  Calls to UNEXPORTED functions of the package are expanded by the extractor into the caller's entry
  (sets, reads, marshal calls, receiver wiring), so the entries of the exported `Export` / `Import`
  methods do not change when a private helper is extracted from them; unexported functions that cannot
  be expanded (called through an interface) keep an entry and are listed in `callees`.

  What is proved, and how far it reaches
  * (1), (2) and the receiver-field wiring (`C10_wiring_*`) are theorems by `decide` about the
    regenerated table, i.e. about the CURRENT Go source as the syntactic extractor reads it; they
    are universal in the sense that they cover every mirror struct / every Export and Import in
    the package (`C10_table_covers` pins the set), but they say nothing the extractor does not
    record (no data flow beyond "this field is assigned / read in this function").
  * (3) compares the table with `structFieldNames% T`: the field names of the Lean record `T`
    read from the environment at elaboration time (Proofs/StructFields.lean).  This is universal
    for the record DECLARATION (it does not depend on any sample), but it is a build-time reading:
    the kernel sees a list literal.  Correspondences that are not by name are spelled out in the
    statements: Lean `mkey` ↔ JSON "mk" (`mk` is the constructor name), the Top-K heap entry is
    a pair `(name, frequency)` ↔ keys "v", "f".
  * `C10_memDocs_have_no_redis_keys` is universal (all states) and kernel-checked: the in-memory
    `exportDoc`s leave the key fields at `none`, which is how the model writes Go's `""`.
  * The `C10_sample_*` theorems are CHECKS ON CONCRETE DATA: on one state per variant, with
    pairwise different component values, `exportDoc` is evaluated and shown to put each state
    component under the key under which the Go code puts the like-named receiver field
    (`C10_wires_*`, from the table).  They pin the field order of the Lean constructor calls
    (`⟨s.size, s.k, …⟩`); they are not statements about all states.
-/
import Gostatix.Generated.JsonTable
import Gostatix.Model.Json
import Gostatix.Proofs.StructFields
namespace Gostatix.Generated
open Gostatix.Json

/-! ### reading the table -/

def subset {α : Type} [BEq α] (a b : List α) : Bool := a.all b.contains
/-- equal as sets -/
def sameSet {α : Type} [BEq α] (a b : List α) : Bool := subset a b && subset b a
def disjoint {α : Type} [BEq α] (a b : List α) : Bool := a.all (fun x => !b.contains x)

def structNamed (n : String) : Option JsonStruct := jsonStructs.find? (fun s => s.name == n)
def fieldsNamed (n : String) : List JsonField := ((structNamed n).map (·.fields)).getD []
/-- JSON keys of a mirror struct, in declaration order -/
def keysOf (n : String) : List String := (fieldsNamed n).map (·.key)
/-- (JSON key, Go type) -/
def keyTypes (n : String) : List (String × String) := (fieldsNamed n).map (fun f => (f.key, f.goType))
/-- (struct, Go field name) for every field -/
def fieldsOfStruct (n : String) : List (String × String) := (fieldsNamed n).map (fun f => (n, f.goName))

def useOf (fn : String) : Option JsonUse := jsonUses.find? (fun u => u.fn == fn)
def usesWithCallees (fn : String) : List JsonUse :=
  match useOf fn with
  | none => []
  | some u => u :: u.callees.filterMap useOf
/-- mirror-struct fields SET by `fn` or by a function it calls (one level) -/
def exported (fn : String) : List (String × String) :=
  ((usesWithCallees fn).flatMap (·.sets)).map (fun f => (f.strct, f.field))
/-- mirror-struct fields READ by `fn` or by a function it calls (one level) -/
def imported (fn : String) : List (String × String) :=
  ((usesWithCallees fn).flatMap (·.reads)).map (fun f => (f.strct, f.field))

/-- `ex` marshals exactly `root`, `im` unmarshals exactly `root`;
    Export sets all fields of the mirror structs `structs` except `zero` (left at the zero value);
    Import reads exactly the fields Export sets, except `ignored` (exported, never looked at). -/
def roundTrip (ex im root : String) (structs : List String) (zero ignored : List (String × String)) : Bool :=
  (useOf ex).any (fun u => u.marshals == [root] && u.unmarshals == []) &&
  (useOf im).any (fun u => u.unmarshals == [root] && u.marshals == [] && u.sets == []) &&
  sameSet (exported ex ++ zero) (structs.flatMap fieldsOfStruct) && disjoint (exported ex) zero &&
  sameSet (imported im ++ ignored) (exported ex) && disjoint (imported im) ignored

/-- JSON key of a (struct, Go field) -/
def keyOfField (strct field : String) : String :=
  (((fieldsNamed strct).find? (fun f => f.goName == field)).map (·.key)).getD "?"

/-- (JSON key, receiver field it is filled from) for the fields of `strct` that `fn` fills straight
    from a receiver field / receiver method / string literal -/
def wiresOut (fn strct : String) : List (String × String) :=
  (((useOf fn).map (·.sets)).getD []).filterMap
    (fun f => if f.strct == strct && f.wire != "" then some (keyOfField strct f.field, f.wire) else none)

/-- (JSON key, receiver field it is assigned to) for `recv.x = v.Field` assignments of `fn` -/
def wiresIn (fn strct : String) : List (String × String) :=
  (((useOf fn).map (·.reads)).getD []).filterMap
    (fun f => if f.strct == strct && f.wire != "" then some (keyOfField strct f.field, f.wire) else none)

/-- a field Export takes from receiver field `.x` is never assigned to another receiver field by Import -/
def wiringConsistent (ex im : String) : Bool :=
  match useOf ex, useOf im with
  | some e, some i =>
    e.sets.all (fun s => i.reads.all (fun r =>
      !(s.strct == r.strct && s.field == r.field) || s.wire == "" || r.wire == "" || s.wire == r.wire))
  | _, _ => false

/-! ## (0) the table is complete and was understood -/

/-- nothing was reported as `unknown`: every tag, every `json.Marshal` / `json.Unmarshal` argument,
    every literal of a mirror struct and every use of a mirror value had a shape the extractor reads -/
theorem C10_table_understood :
    jsonStructs.all (fun s => !s.unknown && s.fields.all (fun f => !f.unknown)) = true ∧
    jsonUses.all (fun u => !u.unknown) = true := by decide

/-- is `fn` listed among the `callees` of an exported entry -/
def reachedFromExported (fn : String) : Bool :=
  (jsonUses.filter (·.exported)).any (fun u => u.callees.contains fn)

/-- The EXPORTED functions of the package that go through `encoding/json` or touch a field of a mirror
    struct — directly or through unexported helpers, whose bodies the extractor expands into the entry of
    their caller — are the ten Export / Import pairs (BloomFilter's serve both the in-memory and the Redis
    filter), each moving exactly its own mirror struct.
    Every other entry of the table is an unexported function that could not be expanded (the two
    `BitSetRedis` methods, called through the `IBitSet` interface): it is reached from an exported entry
    (`callees`), marshals / unmarshals a plain `string` (base64 text), and sets / reads no mirror field.
    So a new private helper of an Export / Import needs no change here; a new exported function, or an
    unexported one that nothing exported reaches, that marshals / unmarshals or touches a mirror struct does. -/
theorem C10_table_covers :
    (jsonUses.filter (·.exported)).map (fun u => (u.fn, u.marshals, u.unmarshals)) =
      [("BloomFilter.Export", ["bloomFilterType"], []), ("BloomFilter.Import", [], ["bloomFilterType"]),
       ("CountMinSketch.Export", ["countMinSketchJSON"], []), ("CountMinSketch.Import", [], ["countMinSketchJSON"]),
       ("CountMinSketchRedis.Export", ["countMinSketchJSON"], []), ("CountMinSketchRedis.Import", [], ["countMinSketchJSON"]),
       ("CuckooFilter.Export", ["cuckooFilterMemJSON"], []), ("CuckooFilter.Import", [], ["cuckooFilterMemJSON"]),
       ("CuckooFilterRedis.Export", ["cuckooFilterRedisJSON"], []), ("CuckooFilterRedis.Import", [], ["cuckooFilterRedisJSON"]),
       ("HyperLogLog.Export", ["hyperLogLogJSON"], []), ("HyperLogLog.Import", [], ["hyperLogLogJSON"]),
       ("HyperLogLogRedis.Export", ["hyperLogLogJSON"], []), ("HyperLogLogRedis.Import", [], ["hyperLogLogJSON"]),
       ("TopK.Export", ["topKJSON"], []), ("TopK.Import", [], ["topKJSON"]),
       ("TopKRedis.Export", ["topKJSON"], []), ("TopKRedis.Import", [], ["topKJSON"])] ∧
    (jsonUses.filter (fun u => !u.exported)).all (fun h =>
      reachedFromExported h.fn && h.sets.isEmpty && h.reads.isEmpty &&
      !(h.marshals ++ h.unmarshals).isEmpty && (h.marshals ++ h.unmarshals).all (· == "string")) = true ∧
    jsonStructs.map (·.name) =
      ["bloomFilterType", "bucketMemJSON", "bucketRedisJSON", "countMinSketchJSON", "cuckooFilterMemJSON",
       "cuckooFilterRedisJSON", "heapElementJSON", "hyperLogLogJSON", "topKJSON"] := by decide

/-! ## (1) tags -/

/-- every field of every mirror struct is exported, carries a `json` tag, and the tag has no
    `omitempty`, no `,string`, and is not `-`: a zero value is written like any other value
    (retries 0, length 0, k 0, empty matrix, empty key name) -/
theorem C10_tags_plain :
    jsonStructs.all (fun s => s.fields.all (fun f =>
      f.tagged && f.exported && !f.omitempty && !f.asString && !f.skip)) = true := by decide

/-- no two fields of one struct share a JSON key (and none has the empty key) -/
theorem C10_keys_distinct :
    jsonStructs.all (fun s => decide ((s.fields.map (·.key)).Nodup) && s.fields.all (fun f => f.key != "")) = true := by
  decide

/-! ## (2) Export fills, Import consumes

  One statement per variant.  `zero`: fields Export leaves at the zero value; `ignored`: fields
  Export fills and Import never looks at.  Both lists are tight (`disjoint` in `roundTrip`). -/

/-- Bloom, in memory AND Redis (one pair of methods; the bit set goes through `filter.marshal()` /
    `filter.unmarshal(f.B)`, bloom_filter.go:263/279 — for BitSetRedis these are the two callees,
    which marshal a `string` and touch no mirror struct) -/
theorem C10_fields_bloom :
    roundTrip "BloomFilter.Export" "BloomFilter.Import" "bloomFilterType" ["bloomFilterType"] [] [] = true ∧
    (useOf "BloomFilter.Export").map (·.callees) = some ["BitSetRedis.marshal"] ∧
    (useOf "BloomFilter.Import").map (·.callees) = some ["BitSetRedis.unmarshal"] ∧
    exported "BitSetRedis.marshal" = [] ∧ imported "BitSetRedis.unmarshal" = [] := by decide

/-- Cuckoo, in memory.  Ignored: the per-bucket `s` and `l` — Import builds every bucket with
    `newBucketMem(f.BucketSize)` and counts the non-empty elements itself (cuckoo_filter.go:221-227);
    `CuckooMem.restoreBucket` in Model/Json.lean does the same. -/
theorem C10_fields_cuckooMem :
    roundTrip "CuckooFilter.Export" "CuckooFilter.Import" "cuckooFilterMemJSON"
      ["cuckooFilterMemJSON", "bucketMemJSON"] []
      [("bucketMemJSON", "Size"), ("bucketMemJSON", "Length")] = true := by decide

/-- Cuckoo, Redis.  Ignored: per bucket `s`, `l` and the bucket's key name `k` — Import derives the
    key from the filter key (`filter.getIndexKey(i)`, cuckoo_filter_redis.go:275), creates the bucket
    with `f.BucketSize` and counts the non-empty elements (:276-284); `CuckooRedis.importBucket`.
    `k` / `mk` of the filter ARE read (:267-268), in the `withNewRedisKey = false` branch. -/
theorem C10_fields_cuckooRedis :
    roundTrip "CuckooFilterRedis.Export" "CuckooFilterRedis.Import" "cuckooFilterRedisJSON"
      ["cuckooFilterRedisJSON", "bucketRedisJSON"] []
      [("bucketRedisJSON", "Size"), ("bucketRedisJSON", "Length"), ("bucketRedisJSON", "Key")] = true := by decide

/-- Count-Min, in memory.  Ignored: `k`, which Export sets to `""` (count_min_sketch.go:107). -/
theorem C10_fields_cmsMem :
    roundTrip "CountMinSketch.Export" "CountMinSketch.Import" "countMinSketchJSON"
      ["countMinSketchJSON"] [] [("countMinSketchJSON", "Key")] = true := by decide

/-- Count-Min, Redis: all five fields (`k` read in the `withNewKey = false` branch,
    count_min_sketch_redis.go:212). -/
theorem C10_fields_cmsRedis :
    roundTrip "CountMinSketchRedis.Export" "CountMinSketchRedis.Import" "countMinSketchJSON"
      ["countMinSketchJSON"] [] [] = true := by decide

/-- HyperLogLog, in memory.  Ignored: `k`, which Export sets to `""` (hyperloglog.go:113). -/
theorem C10_fields_hllMem :
    roundTrip "HyperLogLog.Export" "HyperLogLog.Import" "hyperLogLogJSON"
      ["hyperLogLogJSON"] [] [("hyperLogLogJSON", "Key")] = true := by decide

/-- HyperLogLog, Redis: all five fields (`k` read at hyperloglog_redis.go:145). -/
theorem C10_fields_hllRedis :
    roundTrip "HyperLogLogRedis.Export" "HyperLogLogRedis.Import" "hyperLogLogJSON"
      ["hyperLogLogJSON"] [] [] = true := by decide

/-- Top-K, in memory.  Zero: the sketch's `k` (the `var sketch countMinSketchJSON` of top_k.go:162 is
    filled field by field, Key is not among them).  Ignored: `hk`, set to `""` (top_k.go:171). -/
theorem C10_fields_topkMem :
    roundTrip "TopK.Export" "TopK.Import" "topKJSON"
      ["topKJSON", "countMinSketchJSON", "heapElementJSON"]
      [("countMinSketchJSON", "Key")] [("topKJSON", "HeapKey")] = true := by decide

/-- Top-K, Redis.  Ignored: the sketch's key name `k` (exported at top_k_redis.go:189) — Import always
    creates a new sketch under fresh names (`NewCountMinSketchRedis`, :220), also when
    `withNewKey = false`; `TopKRedis.importDoc` / `newSketch` in Model/Json.lean do the same.
    `hk` is read (:210). -/
theorem C10_fields_topkRedis :
    roundTrip "TopKRedis.Export" "TopKRedis.Import" "topKJSON"
      ["topKJSON", "countMinSketchJSON", "heapElementJSON"]
      [] [("countMinSketchJSON", "Key")] = true := by decide

/-! ### wiring: which receiver field travels under which key

  Go side of the `C10_sample_*` checks below.  `wiresOut`: key ↦ receiver field Export takes the value
  from (only the fields filled straight from `recv.x`, `recv.x.y`, `recv.M()` or a string literal);
  `wiresIn`: key ↦ receiver field Import assigns the value to (only plain `recv.x = v.Field`). -/

/-- the same (key, receiver field) pairs, in any order (a reordering of the struct's fields together with
    its positional literal changes nothing) -/
def sameWires (a b : List (String × String)) : Bool := sameSet a b && a.length == b.length

theorem C10_wiring_consistent :
    [("BloomFilter.Export", "BloomFilter.Import"), ("CuckooFilter.Export", "CuckooFilter.Import"),
     ("CuckooFilterRedis.Export", "CuckooFilterRedis.Import"), ("CountMinSketch.Export", "CountMinSketch.Import"),
     ("CountMinSketchRedis.Export", "CountMinSketchRedis.Import"), ("HyperLogLog.Export", "HyperLogLog.Import"),
     ("HyperLogLogRedis.Export", "HyperLogLogRedis.Import"), ("TopK.Export", "TopK.Import"),
     ("TopKRedis.Export", "TopKRedis.Import")].all (fun p => wiringConsistent p.1 p.2) = true := by decide

theorem C10_wires_bloom :
    sameWires (wiresOut "BloomFilter.Export" "bloomFilterType") [("m", ".size"), ("k", ".numHashes")] = true ∧
    sameWires (wiresIn "BloomFilter.Import" "bloomFilterType") [("m", ".size"), ("k", ".numHashes")] = true := by decide

theorem C10_wires_cuckoo :
    sameWires (wiresOut "CuckooFilter.Export" "cuckooFilterMemJSON")
      [("s", ".size"), ("bs", ".bucketSize"), ("fpl", ".fingerPrintLength"), ("l", ".length"), ("r", ".retries")] = true ∧
    sameWires (wiresIn "CuckooFilter.Import" "cuckooFilterMemJSON")
      [("s", ".size"), ("bs", ".bucketSize"), ("fpl", ".fingerPrintLength"), ("l", ".length"), ("r", ".retries")] = true ∧
    sameWires (wiresOut "CuckooFilterRedis.Export" "cuckooFilterRedisJSON")
      [("s", ".size"), ("bs", ".bucketSize"), ("fpl", ".fingerPrintLength"), ("l", ".Length()"), ("r", ".retries"),
       ("k", ".key"), ("mk", ".metadataKey")] = true ∧
    sameWires (wiresIn "CuckooFilterRedis.Import" "cuckooFilterRedisJSON")
      [("s", ".size"), ("bs", ".bucketSize"), ("fpl", ".fingerPrintLength"), ("r", ".retries"),
       ("k", ".key"), ("mk", ".metadataKey")] = true := by decide

theorem C10_wires_cms :
    sameWires (wiresOut "CountMinSketch.Export" "countMinSketchJSON")
      [("r", ".rows"), ("c", ".columns"), ("s", ".allSum"), ("m", ".matrix"), ("k", "\"\"")] = true ∧
    sameWires (wiresIn "CountMinSketch.Import" "countMinSketchJSON")
      [("r", ".rows"), ("c", ".columns"), ("s", ".allSum"), ("m", ".matrix")] = true ∧
    sameWires (wiresOut "CountMinSketchRedis.Export" "countMinSketchJSON")
      [("r", ".rows"), ("c", ".columns"), ("s", ".allSum"), ("k", ".key")] = true ∧
    sameWires (wiresIn "CountMinSketchRedis.Import" "countMinSketchJSON")
      [("r", ".rows"), ("c", ".columns"), ("s", ".allSum"), ("k", ".key")] = true := by decide

theorem C10_wires_hll :
    sameWires (wiresOut "HyperLogLog.Export" "hyperLogLogJSON")
      [("nr", ".numRegisters"), ("nbp", ".numBytesPerHash"), ("c", ".correctionBias"), ("r", ".registers"), ("k", "\"\"")] = true ∧
    sameWires (wiresIn "HyperLogLog.Import" "hyperLogLogJSON")
      [("nr", ".numRegisters"), ("nbp", ".numBytesPerHash"), ("c", ".correctionBias"), ("r", ".registers")] = true ∧
    sameWires (wiresOut "HyperLogLogRedis.Export" "hyperLogLogJSON")
      [("nr", ".numRegisters"), ("nbp", ".numBytesPerHash"), ("c", ".correctionBias"), ("k", ".key")] = true ∧
    sameWires (wiresIn "HyperLogLogRedis.Import" "hyperLogLogJSON")
      [("nr", ".numRegisters"), ("nbp", ".numBytesPerHash"), ("c", ".correctionBias"), ("k", ".key")] = true := by decide

theorem C10_wires_topk :
    sameWires (wiresOut "TopK.Export" "topKJSON") [("k", ".k"), ("er", ".errorRate"), ("a", ".accuracy"), ("hk", "\"\"")] = true ∧
    sameWires (wiresOut "TopK.Export" "countMinSketchJSON")
      [("s", ".sketch.allSum"), ("c", ".sketch.columns"), ("r", ".sketch.rows"), ("m", ".sketch.matrix")] = true ∧
    sameWires (wiresIn "TopK.Import" "topKJSON") [("k", ".k"), ("a", ".accuracy"), ("er", ".errorRate")] = true ∧
    sameWires (wiresOut "TopKRedis.Export" "topKJSON") [("k", ".k"), ("er", ".errorRate"), ("a", ".accuracy"), ("hk", ".heapKey")] = true ∧
    sameWires (wiresOut "TopKRedis.Export" "countMinSketchJSON")
      [("s", ".sketch.allSum"), ("c", ".sketch.columns"), ("r", ".sketch.rows"), ("k", ".sketch.key")] = true ∧
    sameWires (wiresIn "TopKRedis.Import" "topKJSON") [("k", ".k"), ("a", ".accuracy"), ("er", ".errorRate"), ("hk", ".heapKey")] = true := by
  decide

/-! ## (3) the keys are the ones the Lean codec uses

  `structFieldNames% T` = field names of the Lean record `T` of Model/Json.lean.  The records serve both
  variants of a structure; the Redis-only fields are `Option`s (`none` in memory, see
  `C10_memDocs_have_no_redis_keys`).  Name map: identity, except `mkey` ↦ "mk". -/

def leanKey (f : String) : String := if f == "mkey" then "mk" else f

def bloomDocKeys : List String := (structFieldNames% BloomDoc).map leanKey
def bucketDocKeys : List String := (structFieldNames% BucketDoc).map leanKey
def cuckooDocKeys : List String := (structFieldNames% CuckooDoc).map leanKey
def cmsDocKeys : List String := (structFieldNames% CMSDoc).map leanKey
def hllDocKeys : List String := (structFieldNames% HLLDoc).map leanKey
def topkDocKeys : List String := (structFieldNames% TopKDoc).map leanKey

/-- same keys, same number of them (no key twice: `C10_keys_distinct`).  The comparison is up to
    order: `encoding/json` finds a key wherever it stands in the object. -/
def sameKeys (go lean : List String) : Bool := sameSet go lean && go.length == lean.length

theorem C10_keys_match :
    sameKeys (keysOf "bloomFilterType") bloomDocKeys = true ∧
    sameKeys (keysOf "cuckooFilterRedisJSON") cuckooDocKeys = true ∧
    -- in memory: the same record without the two key names
    sameKeys (keysOf "cuckooFilterMemJSON") (cuckooDocKeys.filter (fun k => !["k", "mk"].contains k)) = true ∧
    sameKeys (keysOf "bucketRedisJSON") bucketDocKeys = true ∧
    sameKeys (keysOf "bucketMemJSON") (bucketDocKeys.filter (fun k => k != "k")) = true ∧
    sameKeys (keysOf "countMinSketchJSON") cmsDocKeys = true ∧
    sameKeys (keysOf "hyperLogLogJSON") hllDocKeys = true ∧
    sameKeys (keysOf "topKJSON") topkDocKeys = true ∧
    -- `TopKDoc.h : List (N × Nat)`: first component = Value "v", second = Frequency "f"
    sameWires ((fieldsNamed "heapElementJSON").map (fun f => (f.goName, f.key))) [("Value", "v"), ("Frequency", "f")] = true := by
  decide

/-- the literal lists, for the reader (and so that a renamed record field shows up here) -/
theorem C10_lean_keys :
    bloomDocKeys = ["m", "k", "b"] ∧ bucketDocKeys = ["s", "l", "e", "k"] ∧
    cuckooDocKeys = ["s", "bs", "fpl", "l", "r", "b", "k", "mk"] ∧ cmsDocKeys = ["r", "c", "s", "m", "k"] ∧
    hllDocKeys = ["nr", "nbp", "c", "r", "k"] ∧ topkDocKeys = ["k", "er", "a", "s", "h", "hk"] := by decide

/-- key ↦ Go type.  The Lean records carry `Nat` for `uint` / `uint64` (the C10 theorems assume the
    values fit: `WF` hypotheses), `Nat` bit patterns for `float64`, lists for slices, the nested
    record for the nested struct, `Option` key names for `string` keys. -/
theorem C10_key_types :   -- as sets: with `C10_keys_distinct` and `C10_keys_match` (lengths) nothing is left over
    sameSet (keyTypes "bloomFilterType") [("m", "uint"), ("k", "uint"), ("b", "[]byte")] = true ∧
    sameSet (keyTypes "bucketMemJSON") [("s", "uint64"), ("l", "uint64"), ("e", "[]string")] = true ∧
    sameSet (keyTypes "bucketRedisJSON") [("s", "uint64"), ("l", "uint64"), ("e", "[]string"), ("k", "string")] = true ∧
    sameSet (keyTypes "cuckooFilterMemJSON")
      [("s", "uint64"), ("bs", "uint64"), ("fpl", "uint64"), ("l", "uint64"), ("r", "uint64"), ("b", "[]bucketMemJSON")] = true ∧
    sameSet (keyTypes "cuckooFilterRedisJSON")
      [("s", "uint64"), ("bs", "uint64"), ("fpl", "uint64"), ("l", "uint64"), ("r", "uint64"), ("b", "[]bucketRedisJSON"),
       ("k", "string"), ("mk", "string")] = true ∧
    sameSet (keyTypes "countMinSketchJSON")
      [("r", "uint"), ("c", "uint"), ("s", "uint64"), ("m", "[][]uint64"), ("k", "string")] = true ∧
    sameSet (keyTypes "hyperLogLogJSON")
      [("nr", "uint64"), ("nbp", "uint64"), ("c", "float64"), ("r", "[]uint8"), ("k", "string")] = true ∧
    sameSet (keyTypes "topKJSON")
      [("k", "uint"), ("er", "float64"), ("a", "float64"), ("s", "countMinSketchJSON"), ("h", "[]heapElementJSON"),
       ("hk", "string")] = true ∧
    sameSet (keyTypes "heapElementJSON") [("v", "string"), ("f", "uint64")] = true := by decide

/-- UNIVERSAL: the in-memory `exportDoc`s leave every key-name field at `none` — the model's way of
    writing the `""` the Go code puts there (`C10_wires_cms`, `C10_wires_hll`, `C10_wires_topk`: wire
    `""`; the sketch inside the in-memory Top-K document: `zero` in `C10_fields_topkMem`), resp. the
    absence of the field in the in-memory cuckoo structs (`C10_keys_match`). -/
theorem C10_memDocs_have_no_redis_keys :
    (∀ c : CuckooMem, (CuckooMem.exportDoc c).k = none ∧ (CuckooMem.exportDoc c).mkey = none ∧
      ∀ b ∈ (CuckooMem.exportDoc c).b, b.k = none) ∧
    (∀ s : CMSMem, s.exportDoc.k = none) ∧ (∀ s : HLLMem, s.exportDoc.k = none) ∧
    (∀ (N : Type) (t : TopKMem N), t.exportDoc.hk = none ∧ t.exportDoc.s.k = none) := by
  refine ⟨fun c => ⟨rfl, rfl, ?_⟩, fun _ => rfl, fun _ => rfl, fun _ _ => ⟨rfl, rfl⟩⟩
  intro b hb
  simp only [CuckooMem.exportDoc, List.mem_map] at hb
  obtain ⟨i, _, rfl⟩ := hb
  cases c.buckets[i]? <;> rfl

/-! ## checks on concrete data: which state component the Lean codec puts under which key

  One state per variant with pairwise different components.  Read together with `C10_wires_*`:
  e.g. cuckoo — Go: "l" ← `.length`, "r" ← `.retries`; Lean: `l := 6` (the `length` component),
  `r := 5` (the `retries` component). -/

theorem C10_sample_bloom :
    (BloomMem.exportDoc ⟨8, 3, 9, [true, false, false, true]⟩ : BloomDoc (List Bool)) =
      { m := 8, k := 3, b := [true, false, false, true] } ∧
    BloomMem.importDoc { m := 8, k := 3, b := [true, false, false, true] } ⟨64, 1, 64, []⟩ =
      { size := 8, k := 3, bsSize := 4, bits := [true, false, false, true] } ∧
    (let st : Store := fun k => if k = .rand 1 then .str [0x80, 0x01, 0x00] else .absent
     BloomRedis.exportDoc { size := 3, k := 2, bsSize := 5, key := 1, metadataKey := 10 } st =
      { m := 3, k := 2, b := [0, 0, 0, 0, 0, 0, 0, 5, 0x00, 0x80, 0x01] }) := by decide

/-- sample cuckoo filter: n 2, bsize 3, fpl 4, retries 5, length 6 -/
def sampleCuckooMem : CuckooMem :=
  { n := 2, bsize := 3, fpl := 4, retries := 5, length := 6,
    buckets := [⟨3, ["17", "", ""], 1⟩, ⟨3, ["", "", ""], 0⟩] }

theorem C10_sample_cuckooMem :
    CuckooMem.exportDoc sampleCuckooMem =
      { s := 2, bs := 3, fpl := 4, l := 6, r := 5,
        b := [{ s := 3, l := 1, e := ["17", "", ""] }, { s := 3, l := 0, e := ["", "", ""] }] } ∧
    CuckooMem.importDoc
      { s := 2, bs := 3, fpl := 4, l := 6, r := 5,
        b := [{ s := 9, l := 9, e := ["17", "", ""] }, { s := 9, l := 9, e := ["", "", ""] }] }
      (Cuckoo.mk 1 1 1 1 [] 1) = .ok sampleCuckooMem := by decide

def sampleCuckooStore : Store := fun k =>
  if k = .cuckooBucket 10 0 then .strs ["17", ""] else
  if k = .cuckooBucketLen 10 0 then .int 1 else
  if k = .rand 11 then .hash [("length", 6)] else .absent

theorem C10_sample_cuckooRedis :
    CuckooRedis.exportDoc { n := 2, bsize := 3, fpl := 4, retries := 5, key := 10, metadataKey := 11, nb := 2 }
        sampleCuckooStore =
      { s := 2, bs := 3, fpl := 4, l := 6, r := 5,
        b := [{ s := 3, l := 1, e := ["17", ""], k := some (.cuckooBucket 10 0) },
              { s := 3, l := 0, e := [], k := some (.cuckooBucket 10 1) }],
        k := some 10, mkey := some 11 } := by decide

theorem C10_sample_cms :
    CMSMem.exportDoc { core := { rows := 2, cols := 3, m := [[1, 0, 4], [0, 5, 0]] }, allSum := 7 } =
      { r := 2, c := 3, s := 7, m := [[1, 0, 4], [0, 5, 0]] } ∧
    CMSMem.importDoc { r := 2, c := 3, s := 7, m := [[1, 0, 4], [0, 5, 0]] } ⟨⟨1, 1, [[9]]⟩, 9⟩ =
      { core := { rows := 2, cols := 3, m := [[1, 0, 4], [0, 5, 0]] }, allSum := 7 } ∧
    (let st : Store := fun k => if k = .cmsRow 10 0 then .nums [1, 0, 4] else
        if k = .cmsRow 10 1 then .nums [0, 5, 0] else .absent
     CMSRedis.exportDoc { rows := 2, cols := 3, allSum := 7, key := 10, metadataKey := 11 } st =
      { r := 2, c := 3, s := 7, m := [[1, 0, 4], [0, 5, 0]], k := some 10 }) := by decide

theorem C10_sample_hll :
    HLLMem.exportDoc { core := { m := 4, regs := [0, 17, 3, 255] }, nbp := 2, bias := 99 } =
      { nr := 4, nbp := 2, c := 99, r := [0, 17, 3, 255] } ∧
    HLLMem.importDoc { nr := 4, nbp := 2, c := 99, r := [0, 17, 3, 255] } ⟨⟨16, []⟩, 4, 1⟩ =
      { core := { m := 4, regs := [0, 17, 3, 255] }, nbp := 2, bias := 99 } ∧
    (let st : Store := fun k => if k = .rand 10 then .nums [0, 17, 3, 255] else .absent
     HLLRedis.exportDoc { m := 4, nbp := 2, bias := 99, key := 10, metadataKey := 11 } st =
      { nr := 4, nbp := 2, c := 99, r := [0, 17, 3, 255], k := some 10 }) := by decide

theorem C10_sample_topkMem :
    let t : TopKMem String :=
      { k := 5, errorRate := 11, accuracy := 12,
        sketch := { core := { rows := 2, cols := 3, m := [[1, 0, 4], [0, 5, 0]] }, allSum := 7 },
        heap := [("a", 2), ("b", 9)] }
    let d := t.exportDoc
    d.k = 5 ∧ d.er = 11 ∧ d.a = 12 ∧ d.s = { r := 2, c := 3, s := 7, m := [[1, 0, 4], [0, 5, 0]] } ∧
    d.h = [("a", 2), ("b", 9)] ∧ d.hk = none := by decide

theorem C10_sample_topkRedis :
    let st : Store := fun k => if k = .cmsRow 10 0 then .nums [1, 0, 4] else
        if k = .cmsRow 10 1 then .nums [0, 5, 0] else .absent
    let z : ZStore String := fun k => if k = 20 then [("a", 2), ("b", 9)] else []
    let h : TopKRedis :=
      { k := 5, errorRate := 11, accuracy := 12,
        sketch := { rows := 2, cols := 3, allSum := 7, key := 10, metadataKey := 11 }, heapKey := 20, metadataKey := 21 }
    let d := h.exportDoc st z
    d.k = 5 ∧ d.er = 11 ∧ d.a = 12 ∧ d.s = { r := 2, c := 3, s := 7, m := [[1, 0, 4], [0, 5, 0]], k := some 10 } ∧
    d.h = [("a", 2), ("b", 9)] ∧ d.hk = some 20 := by decide

end Gostatix.Generated
