/-
  C08 (cuckoo bucket part) — the Redis-backed bucket answers as the list-and-counter model.

  `Gostatix.BucketRedis` (Model/Cuckoo.lean) models a bucket of bucket_redis.go as a list and a
  `len` counter, and every cuckoo-filter theorem about the Redis variant is stated over it.
  Model/RedisCuckoo.lean goes one level down: the bucket is the Redis list `bk` and the Redis
  string `bk ++ "_len"` of a `Store`, and the Lua scripts (`isFree`, `addElement`,
  `removeElement`, `exists`) and plain commands (LINDEX, LSET, GET, LRANGE, INCRBY) are
  transcribed command by command, with `redis.call` aborting and `redis.pcall` continuing.
  `absBucket st bk size` reads the model bucket back from a store.

  Each theorem: on a store with `absBucket st bk size = some b`, the Redis-level operation returns
  what `BucketRedis.ops ""` returns on `b`, leaves a store that represents the model's new bucket,
  and changes no key other than `bk` and `bk ++ "_len"`.

  Preconditions, and where they come from:
    * all: `absBucket st bk size = some b` — the list key is absent (= empty list) or a list, and the
      counter key holds the canonical decimal spelling of `b.len` (`newBucketRedis` creates "0").
    * `C08_bucket_remove`: the element is present (the Go caller `Remove` calls `lookup` first) AND
      `0 < b.len`.  The second one is NOT implied by the first: see
      `C08_bucket_remove_underflow` below — with the empty fingerprint (known finding D3) the
      counter goes to "-1" where the model keeps 0.  For a well-formed bucket (`len` = number of
      non-empty entries) and a non-empty element it is implied: `C08_bucket_remove_wf`.
    * `C08_bucket_at`, `C08_bucket_set` need NO range precondition: out of range, LINDEX answers
      nil (the callers read ""), LSET fails without writing, and the model's `getD`/`List.set`
      do the same.
  The frames `C19_frame_bucket_*` say each operation is `SupportedOn [bk, bk ++ "_len"]`, hence
  (for `i < n`) on the key set of the filter's handle: `C19_frame_bucket_in_handle`.
-/
import Gostatix.Proofs.RedisBucket
import Gostatix.Proofs.RedisFrameOps
namespace Gostatix.Redis

/-! ### simulation -/

/-- what `absBucket` means. -/
theorem C08_bucket_abs_iff (st : Store) (bk : String) (size : Nat) (b : BucketRedis String) :
    absBucket st bk size = some b ↔
      b.size = size ∧ (st bk = none ∧ b.list = [] ∨ st bk = some (.list b.list)) ∧
      st (bk ++ "_len") = some (.str (asciiBytes (decimal b.len))) :=
  absBucket_eq_some_iff st bk size b

/-- `newBucketRedis` on two fresh keys creates the empty bucket. -/
theorem C08_bucket_new (st : Store) (bk : String) (size : Nat)
    (h1 : st bk = none) (h2 : st (bk ++ "_len") = none) :
    ∃ st', bucketNew bk st = (st', some ()) ∧ absBucket st' bk size = some (BucketRedis.new size) ∧
      ∀ k, k ≠ bk ++ "_len" → st' k = st k :=
  bucket_new_abs st bk size h1 h2

theorem C08_bucket_isFree (st : Store) (bk : String) (size : Nat) (b : BucketRedis String)
    (habs : absBucket st bk size = some b) :
    bucketIsFree bk size st = (st, (BucketRedis.ops "").isFree b) :=
  bucket_isFree_abs st bk size b habs

/-- `add`: the Boolean is the Go method's first result (`false` for "" and for a full bucket). -/
theorem C08_bucket_add (st : Store) (bk : String) (size : Nat) (b : BucketRedis String) (e : String)
    (habs : absBucket st bk size = some b) :
    ∃ st', bucketAdd bk size e st =
        (st', decide (e ≠ "" ∧ (BucketRedis.ops "").isFree b = true)) ∧
      absBucket st' bk size = some ((BucketRedis.ops "").add b e) ∧
      ∀ k, k ≠ bk → k ≠ bk ++ "_len" → st' k = st k :=
  bucket_add_abs st bk size b e habs

/-- `remove` of a present element from a bucket whose counter is positive. -/
theorem C08_bucket_remove (st : Store) (bk : String) (size : Nat) (b : BucketRedis String)
    (e : String) (habs : absBucket st bk size = some b)
    (hpresent : (BucketRedis.ops "").lookup b e = true) (hlen : 0 < b.len) :
    ∃ st', bucketRemove bk e st = (st', some true) ∧
      absBucket st' bk size = some ((BucketRedis.ops "").remove b e) ∧
      ∀ k, k ≠ bk → k ≠ bk ++ "_len" → st' k = st k :=
  bucket_remove_abs st bk size b e habs hpresent hlen

/-- number of non-empty entries. -/
def occupied (l : List String) : Nat := (l.filter (· ≠ "")).length

/-- for a well-formed bucket (`len` counts the non-empty entries — what `add`/`remove` of
    non-empty elements maintain) a present NON-EMPTY element is enough. -/
theorem C08_bucket_remove_wf (st : Store) (bk : String) (size : Nat) (b : BucketRedis String)
    (e : String) (habs : absBucket st bk size = some b)
    (hpresent : (BucketRedis.ops "").lookup b e = true) (he : e ≠ "")
    (hwf : b.len = occupied b.list) :
    ∃ st', bucketRemove bk e st = (st', some true) ∧
      absBucket st' bk size = some ((BucketRedis.ops "").remove b e) ∧
      ∀ k, k ≠ bk → k ≠ bk ++ "_len" → st' k = st k := by
  refine bucket_remove_abs st bk size b e habs hpresent ?_
  rw [hwf]; unfold occupied
  have hmem : e ∈ b.list := List.contains_iff_mem.mp hpresent
  exact List.length_pos_of_mem (List.mem_filter.mpr ⟨hmem, by simpa using he⟩)

/-- an absent element (not what the Go caller does, but the script is safe): LPOS answers nil,
    `redis.call('LSET', key, false, '')` raises, nothing is written; the model's `remove` is the
    identity too. -/
theorem C08_bucket_remove_absent (st : Store) (bk : String) (size : Nat) (b : BucketRedis String)
    (e : String) (habs : absBucket st bk size = some b)
    (habsent : (BucketRedis.ops "").lookup b e = false) :
    bucketRemove bk e st = (st, none) ∧ (BucketRedis.ops "").remove b e = b :=
  bucket_remove_absent st bk size b e habs habsent

theorem C08_bucket_lookup (st : Store) (bk : String) (size : Nat) (b : BucketRedis String)
    (e : String) (habs : absBucket st bk size = some b) :
    bucketLookup bk e st = (st, some ((BucketRedis.ops "").lookup b e)) :=
  bucket_lookup_abs st bk size b e habs

/-- `at` as its callers read it (error dropped); any index. -/
theorem C08_bucket_at (st : Store) (bk : String) (size : Nat) (b : BucketRedis String) (i : Nat)
    (habs : absBucket st bk size = some b) :
    bucketAt bk i st = (st, (BucketRedis.ops "").get b i) :=
  bucket_at_abs st bk size b i habs

/-- `set`: succeeds exactly for an index inside the list; any index. -/
theorem C08_bucket_set (st : Store) (bk : String) (size : Nat) (b : BucketRedis String)
    (i : Nat) (e : String) (habs : absBucket st bk size = some b) :
    ∃ st', bucketSet bk i e st = (st', if i < b.list.length then some () else none) ∧
      absBucket st' bk size = some ((BucketRedis.ops "").set b i e) ∧
      ∀ k, k ≠ bk → st' k = st k :=
  bucket_set_abs st bk size b i e habs

/-- `getLength` (used to draw the slot of an eviction): the counter, saturating at the largest
    `int64`. -/
theorem C08_bucket_getLength (st : Store) (bk : String) (size : Nat) (b : BucketRedis String)
    (habs : absBucket st bk size = some b) :
    bucketGetLength bk st = (st, min b.len (2 ^ 63 - 1)) :=
  bucket_getLength_abs st bk size b habs

theorem C08_bucket_elements (st : Store) (bk : String) (size : Nat) (b : BucketRedis String)
    (habs : absBucket st bk size = some b) :
    bucketElements bk st = (st, some b.list) :=
  bucket_elements_abs st bk size b habs

/-! ### the filter's `length` field (HINCRBY / HGET on the metadata hash) -/

theorem C08_cuckoo_incrLength (st : Store) (h : CuckooHandle) (n : Nat)
    (habs : absCuckooLength st h = some n) :
    ∃ st', cuckooIncrLength h st = (st', some ((n + 1 : Nat) : Int)) ∧
      absCuckooLength st' h = some (n + 1) ∧ ∀ k, k ≠ h.metadataKey → st' k = st k :=
  cuckoo_length_step st h n 1 (n + 1) habs (by omega)

/-- `decrLength` needs a positive length (see `C08_cuckoo_decrLength_underflow`). -/
theorem C08_cuckoo_decrLength (st : Store) (h : CuckooHandle) (n : Nat)
    (habs : absCuckooLength st h = some n) (hpos : 0 < n) :
    ∃ st', cuckooDecrLength h st = (st', some ((n - 1 : Nat) : Int)) ∧
      absCuckooLength st' h = some (n - 1) ∧ ∀ k, k ≠ h.metadataKey → st' k = st k :=
  cuckoo_length_step st h n (-1) (n - 1) habs (by omega)

theorem C08_cuckoo_length (st : Store) (h : CuckooHandle) (n : Nat)
    (habs : absCuckooLength st h = some n) :
    cuckooLength h st = (st, min n (2 ^ 63 - 1)) :=
  cuckoo_length_abs st h n habs

/-- the constructor's metadata `HSET` records length 0. -/
theorem C08_cuckoo_create_length (st : Store) (h : CuckooHandle) (hfresh : st h.metadataKey = none) :
    absCuckooLength (cuckooCreate h st).1 h = some 0 := by
  unfold cuckooCreate cuckooSetMetadata cmdHSET
  rw [hfresh]
  refine (absCuckooLength_eq_some_iff _ _ _).mpr ⟨_, Store.set_self _ _ _, ?_⟩
  simp [hashSetAll, hashSet, hashGet]

/-! ### frames -/

theorem C19_frame_bucket_new (bk : String) : SupportedOn [bk, bk ++ "_len"] (bucketNew bk) :=
  supported_bucketNew bk

theorem C19_frame_bucket_isFree (bk : String) (size : Nat) :
    SupportedOn [bk, bk ++ "_len"] (bucketIsFree bk size) := supported_bucketIsFree bk size

theorem C19_frame_bucket_add (bk : String) (size : Nat) (e : String) :
    SupportedOn [bk, bk ++ "_len"] (bucketAdd bk size e) := supported_bucketAdd bk size e

theorem C19_frame_bucket_remove (bk e : String) :
    SupportedOn [bk, bk ++ "_len"] (bucketRemove bk e) := supported_bucketRemove bk e

theorem C19_frame_bucket_lookup (bk e : String) :
    SupportedOn [bk, bk ++ "_len"] (bucketLookup bk e) := supported_bucketLookup bk e

theorem C19_frame_bucket_at (bk : String) (i : Nat) :
    SupportedOn [bk, bk ++ "_len"] (bucketAt bk i) := supported_bucketAt bk i

theorem C19_frame_bucket_set (bk : String) (i : Nat) (e : String) :
    SupportedOn [bk, bk ++ "_len"] (bucketSet bk i e) := supported_bucketSet bk i e

theorem C19_frame_bucket_getLength (bk : String) :
    SupportedOn [bk, bk ++ "_len"] (bucketGetLength bk) := supported_bucketGetLength bk

theorem C19_frame_bucket_elements (bk : String) :
    SupportedOn [bk, bk ++ "_len"] (bucketElements bk) := supported_bucketElements bk

theorem C19_frame_cuckoo_incrLength (h : CuckooHandle) :
    SupportedOn [h.metadataKey] (cuckooIncrLength h) := supported_cuckooIncrLength h

theorem C19_frame_cuckoo_decrLength (h : CuckooHandle) :
    SupportedOn [h.metadataKey] (cuckooDecrLength h) := supported_cuckooDecrLength h

theorem C19_frame_cuckoo_length (h : CuckooHandle) :
    SupportedOn [h.metadataKey] (cuckooLength h) := supported_cuckooLength h

/-- the two keys of bucket `i < n` are the handle's `bucket`/`blen` keys, so every bucket
    operation framed by `[bk, bk ++ "_len"]` is framed by `keysOf` of the filter (and by
    `C19_disjoint` does not touch any other structure). -/
theorem C19_frame_bucket_in_handle {ρ : Type} (h : CuckooHandle) (i : Nat) (hi : i < h.n)
    (op : Op ρ)
    (hop : SupportedOn [cuckooBucketKey h.key i, cuckooBucketKey h.key i ++ "_len"] op) :
    SupportedOn h.keysOf op := by
  refine hop.mono ?_
  intro k hk
  unfold CuckooHandle.keysOf CuckooHandle.descr
  simp only [List.mem_cons, List.not_mem_nil, or_false] at hk
  rcases hk with rfl | rfl
  · refine List.mem_map.mpr ⟨KeyD.bucket h.key i, ?_, rfl⟩
    simp only [List.mem_append, List.mem_cons, List.mem_map, List.mem_range, reduceCtorEq,
      List.not_mem_nil, or_false, false_or]
    exact Or.inl ⟨i, hi, rfl⟩
  · refine List.mem_map.mpr ⟨KeyD.blen h.key i, ?_, rfl⟩
    simp only [List.mem_append, List.mem_cons, List.mem_map, List.mem_range, reduceCtorEq,
      List.not_mem_nil, or_false, false_or]
    exact Or.inr ⟨i, hi, rfl⟩

theorem C19_frame_cuckoo_length_in_handle {ρ : Type} (h : CuckooHandle) (op : Op ρ)
    (hop : SupportedOn [h.metadataKey] op) : SupportedOn h.keysOf op := by
  refine hop.mono ?_
  intro k hk
  simp only [List.mem_cons, List.not_mem_nil, or_false] at hk
  subst hk
  unfold CuckooHandle.keysOf CuckooHandle.descr
  exact List.mem_map.mpr ⟨KeyD.base h.metadataKey, by simp, rfl⟩

/-! ### where the scripts do NOT refine the model: decrementing a zero counter -/

section underflow

/-- bucket "b" of size 2 after `newBucketRedis`, `add "12"`, `remove "12"`: list `[""]`,
    counter "0" — reached through the operations themselves. -/
def ufS : Store :=
  (bucketRemove "b" "12" (bucketAdd "b" 2 "12" (bucketNew "b" Store.empty).1).1).1

def ufB : BucketRedis String := ⟨2, [""], 0⟩
/-- the store after `remove("")` … -/
def ufS₁ : Store := (bucketRemove "b" "" ufS).1
/-- … and after two further `add`s; the model bucket after the same three operations. -/
def ufS₂ : Store := (bucketAdd "b" 2 "8" (bucketAdd "b" 2 "7" ufS₁).1).1
def ufB₂ : BucketRedis String :=
  (BucketRedis.ops "").add ((BucketRedis.ops "").add ((BucketRedis.ops "").remove ufB "") "7") "8"

/-- **`removeElement` with the empty fingerprint on a bucket whose counter is 0.**
    `lookup("")` is true (LPOS finds the hole), so `CuckooFilterRedis.Remove` calls `remove("")`:
    LPOS/LSET rewrite the hole and `INCRBY len -1` stores "-1".  `BucketRedis.remove` keeps
    `len = 0` (`Nat` subtraction).  From there the two disagree observably: `getLength()` reads
    2^64 - 1; after two further `add`s the Redis bucket still reports free and accepts a third
    fingerprint into a bucket of size 2, while the model bucket is full.
    The empty fingerprint is reachable (finding D3: `fingerPrintLength` larger than the number of
    decimal digits of the hash makes `getPositions` return `("", 0, 0)`). -/
theorem C08_bucket_remove_underflow :
    -- the store represents `ufB`, and the Go caller's guard passes on both sides
    absBucket ufS "b" 2 = some ufB ∧
    (bucketLookup "b" "" ufS).2 = some true ∧ (BucketRedis.ops "").lookup ufB "" = true ∧
    -- the script succeeds, the counter is now "-1": no model bucket is represented …
    (bucketRemove "b" "" ufS).2 = some true ∧
    ufS₁ "b_len" = some (.str (asciiBytes "-1")) ∧
    absBucket ufS₁ "b" 2 = none ∧
    -- … in particular not the model's `remove`, which keeps `len = 0`
    (BucketRedis.ops "").remove ufB "" = ufB ∧
    (bucketGetLength "b" ufS₁).2 = 2 ^ 64 - 1 ∧
    -- two adds later the store represents a bucket again, but one count behind the model
    absBucket ufS₂ "b" 2 = some ⟨2, ["8", "7"], 1⟩ ∧ ufB₂ = ⟨2, ["8", "7"], 2⟩ ∧
    (bucketIsFree "b" 2 ufS₂).2 = true ∧ (BucketRedis.ops "").isFree ufB₂ = false ∧
    (bucketAdd "b" 2 "9" ufS₂).2 = true ∧
    (bucketElements "b" (bucketAdd "b" 2 "9" ufS₂).1).2 = some ["9", "8", "7"] ∧
    ((BucketRedis.ops "").add ufB₂ "9").list = ["8", "7"] := by
  decide

def ufH : CuckooHandle :=
  { n := 1, bsize := 2, fpl := 2, retries := 1, key := "aaaaaaaaaaaaaaaa", metadataKey := "aaaaaaaaaaaaaaab" }

/-- the same for the filter's own `length` field: `Remove` of an element with the empty
    fingerprint finds a hole, calls `decrLength`, and `HINCRBY length -1` on "0" stores "-1";
    `Length()` then returns 2^64 - 1 (the model's `Cuckoo.remove` keeps 0). -/
theorem C08_cuckoo_decrLength_underflow :
    let st := (cuckooCreate ufH Store.empty).1
    absCuckooLength st ufH = some 0 ∧
    (cuckooDecrLength ufH st).2 = some (-1) ∧
    absCuckooLength (cuckooDecrLength ufH st).1 ufH = none ∧
    (cuckooLength ufH (cuckooDecrLength ufH st).1).2 = 2 ^ 64 - 1 := by
  decide

end underflow

/-! ### non-vacuity: concrete runs -/

section examples

def exBk : String := cuckooBucketKey "aaaaaaaaaaaaaaae" 3
def exV₀ : Store := (bucketNew exBk Store.empty).1
def exV₁ : Store := (bucketAdd exBk 2 "41" exV₀).1
def exV₂ : Store := (bucketAdd exBk 2 "77" exV₁).1
def exV₃ : Store := (bucketRemove exBk "41" exV₂).1
def exV₄ : Store := (bucketAdd exBk 2 "13" exV₃).1

example : exBk = "cuckoo_aaaaaaaaaaaaaaae_bucket_3" := by decide
example : exV₀ "cuckoo_aaaaaaaaaaaaaaae_bucket_3_len" = some (.str [0x30]) := by decide
example : absBucket exV₀ exBk 2 = some (BucketRedis.new 2) := by decide
example : absBucket exV₁ exBk 2 = some ⟨2, ["41"], 1⟩ := by decide
/-- LPUSH prepends … -/
example : absBucket exV₂ exBk 2 = some ⟨2, ["77", "41"], 2⟩ := by decide
example : (bucketIsFree exBk 2 exV₁).2 = true ∧ (bucketIsFree exBk 2 exV₂).2 = false := by decide
example : (bucketAdd exBk 2 "99" exV₂).2 = false ∧ absBucket (bucketAdd exBk 2 "99" exV₂).1 exBk 2
    = some ⟨2, ["77", "41"], 2⟩ := by decide
/-- … `remove` leaves a hole, and the next `add` re-uses it through `LPOS key ''`/`LSET`. -/
example : absBucket exV₃ exBk 2 = some ⟨2, ["77", ""], 1⟩ := by decide
example : absBucket exV₄ exBk 2 = some ⟨2, ["77", "13"], 2⟩ := by decide
example : (bucketLookup exBk "13" exV₄).2 = some true ∧ (bucketLookup exBk "41" exV₄).2 = some false := by
  decide
example : (bucketAt exBk 1 exV₄).2 = "13" ∧ (bucketAt exBk 5 exV₄).2 = "" := by decide
example : (bucketSet exBk 5 "x" exV₄).2 = none ∧ (bucketSet exBk 0 "x" exV₄).2 = some () := by decide
example : (bucketGetLength exBk exV₄).2 = 2 := by decide
example : (bucketRemove exBk "nope" exV₄).2 = none := by decide
/-- the model operations on the model bucket give the same. -/
example : (BucketRedis.ops "").add ((BucketRedis.ops "").remove ⟨2, ["77", "41"], 2⟩ "41") "13"
    = ⟨2, ["77", "13"], 2⟩ := by decide
/-- a store without the counter represents no bucket, and `isFree` reads as false on it. -/
example : absBucket Store.empty exBk 2 = none ∧ (bucketIsFree exBk 2 Store.empty).2 = false := by decide
/-- a non-canonical counter ("01") represents no bucket: INCRBY would refuse it. -/
example : absBucket (Store.empty.set (exBk ++ "_len") (.str [0x30, 0x31])) exBk 2 = none := by decide
example : (cmdINCRBY "c" 1 (Store.empty.set "c" (.str [0x30, 0x31]))).2 = none := by decide

example : absCuckooLength (cuckooIncrLength ufH (cuckooCreate ufH Store.empty).1).1 ufH = some 1 := by
  decide
example : (cuckooLength ufH (cuckooIncrLength ufH (cuckooCreate ufH Store.empty).1).1).2 = 1 := by decide

end examples

end Gostatix.Redis
