/-
  C15 — structures built from an error budget meet it (PARTIAL).
  The property is statistical and about concrete hash functions; no theorem about the distribution
  of metro.Hash128 / murmur3 is available.  What is proved:
   * the sizing formulas of internal/util/base.go and the constructors (transcribed over ℝ, float
     rounding trusted and tie-checked by suite `sizing`) satisfy the inequalities the textbook
     analyses start from;
   * the probing schemes are enhanced double hashing (Bloom) / double hashing (Count-Min), the
     cubic term being an exact integer;
   * the cuckoo sizing is refuted (finding D22): the fingerprint length is computed in BYTES but
     applied as DECIMAL DIGITS.
  The frequencies themselves are measured by the suite (testing, labelled as such).
-/
import Mathlib.Analysis.SpecialFunctions.Log.Basic
import Mathlib.Analysis.SpecialFunctions.Exp
import Mathlib.Tactic.IntervalCases
import Gostatix.Model.Bloom
import Gostatix.Model.CMS
namespace Gostatix.Sizing
open Real

/-- `util.CalculateFilterSize` over the reals: `ceil(-(n·ln p)/ln²2)` -/
noncomputable def bloomSize (n : ℕ) (p : ℝ) : ℕ := ⌈-(n * log p) / (log 2) ^ 2⌉₊

/-- the Bloom filter has at least the textbook number of bits `m ≥ n·ln(1/p)/ln²2` -/
theorem C15_bloom_size (n : ℕ) (p : ℝ) : -(n * log p) / (log 2) ^ 2 ≤ (bloomSize n p : ℝ) :=
  Nat.le_ceil _

/-- `util.CalculateNumHashes`: `ceil((m / n)·ln 2)` with an INTEGER division; it is at least 1
    whenever `m ≥ n ≥ 1` and never above the real-valued optimum rounded up. -/
noncomputable def bloomK (m n : ℕ) : ℕ := ⌈((m / n : ℕ) : ℝ) * log 2⌉₊

theorem C15_bloom_k_le (m n : ℕ) (_hn : 0 < n) : bloomK m n ≤ ⌈((m : ℝ) / n) * log 2⌉₊ := by
  unfold bloomK
  apply Nat.ceil_mono
  apply mul_le_mul_of_nonneg_right _ (le_of_lt (log_pos (by norm_num)))
  have : ((m / n : ℕ) : ℝ) ≤ (m : ℝ) / n := Nat.cast_div_le
  exact this

/-- Count-Min columns: `ceil(e/ε)` -/
noncomputable def cmsCols (ε : ℝ) : ℕ := ⌈exp 1 / ε⌉₊
/-- Count-Min rows: `ceil(ln(1/δ))` -/
noncomputable def cmsRows (δ : ℝ) : ℕ := ⌈log (1 / δ)⌉₊

/-- `e / cols ≤ ε`: the expected collision mass per row is at most ε·N/e (Markov step of the
    Count-Min analysis) -/
theorem C15_cms_cols (ε : ℝ) (hε : 0 < ε) : exp 1 / (cmsCols ε : ℝ) ≤ ε := by
  have h : exp 1 / ε ≤ (cmsCols ε : ℝ) := Nat.le_ceil _
  have hpos : 0 < exp 1 / ε := div_pos (exp_pos 1) hε
  have hc : (0 : ℝ) < cmsCols ε := lt_of_lt_of_le hpos h
  rw [div_le_iff₀ hc]
  rw [div_le_iff₀ hε] at h
  linarith [mul_comm ε (cmsCols ε : ℝ)]

/-- `e^{-rows} ≤ δ`: the failure probability after `rows` independent rows -/
theorem C15_cms_rows (δ : ℝ) (hδ : 0 < δ) : exp (-(cmsRows δ : ℝ)) ≤ δ := by
  have h : log (1 / δ) ≤ (cmsRows δ : ℝ) := Nat.le_ceil _
  have h2 : -(cmsRows δ : ℝ) ≤ log δ := by
    rw [one_div, log_inv] at h; linarith
  calc exp (-(cmsRows δ : ℝ)) ≤ exp (log δ) := exp_le_exp.mpr h2
    _ = δ := exp_log hδ

/-- the cubic term of `getIndex`, `(i³ - i)/6`, is an exact integer: the Go code's
    `math.Floor(float64(i³-i)/6)` loses nothing (for i < 2^17, where i³ is exact in float64) -/
theorem C15_cubic_term_exact (i : ℕ) : 6 ∣ i ^ 3 - i := by
  have h : (i ^ 3 - i) % 6 = 0 := by
    have hle : i ≤ i ^ 3 := by
      calc i = i ^ 1 := (pow_one i).symm
        _ ≤ i ^ 3 := by
          rcases Nat.eq_zero_or_pos i with h | h
          · simp [h]
          · exact Nat.pow_le_pow_right h (by norm_num)
    have e : i ^ 3 % 6 = i % 6 := by
      rw [Nat.pow_mod]
      have : i % 6 < 6 := Nat.mod_lt _ (by norm_num)
      interval_cases (i % 6) <;> rfl
    omega
  exact Nat.dvd_of_mod_eq_zero h

/-- the Bloom probe sequence is enhanced double hashing `h1 + i·h2 + (i³-i)/6 (mod 2^64, mod m)` -/
theorem C15_probes_scheme (h1 h2 i m : ℕ) :
    Bloom.getIndex h1 h2 i m = ((h1 + i * h2 + (i ^ 3 - i) / 6) % 2 ^ 64) % m := rfl

/-- Count-Min rows use double hashing `h1 + r·h2 (mod 2^64, mod cols)` -/
theorem C15_cms_scheme (h1 h2 r cols : ℕ) :
    CMS.position h1 h2 r cols = ((h1 + r * h2) % 2 ^ 64) % cols := rfl

/-- `util.CalculateFingerPrintLength` returns `ceil(bits/8)` — a length in BYTES — and
    `getPositions` takes that many DECIMAL DIGITS of the hash. -/
def fplFromBits (bits : ℕ) : ℕ := (bits + 7) / 8

/-- Finding D22: for size 10^5, bucket size 4, ε = 10^-4 the formula needs
    `ceil(log2(1/ε) + log2(2·size)) = 31` bits, returns 4, and 4 decimal digits give at most 10^4
    distinct fingerprints while a lookup compares against up to 2·b stored ones: the design
    equation `2b/ε ≤ #fingerprints` asks for 8·10^4. -/
theorem C15_cuckoo_fpl_counterexample :
    fplFromBits 31 = 4 ∧ 10 ^ fplFromBits 31 < 2 * 4 * 10 ^ 4 ∧ 2 ^ 31 ≥ 2 * 4 * 10 ^ 4 := by decide

/-- non-vacuity -/
example : exp 1 / (cmsCols 0.01 : ℝ) ≤ 0.01 := C15_cms_cols 0.01 (by norm_num)

end Gostatix.Sizing
