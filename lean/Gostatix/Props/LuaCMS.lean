/-
  LuaCMS — the Count-Min scripts EXTRACTED from count_min_sketch_redis.go compute the hand-written
  models of Model/Redis.lean (and of Model/Equals.lean for `Equals`, of Model/Json.lean for Import/Export).

  `Generated/LuaScripts.lean` is regenerated from the Go sources on every run; `Lua.run` (Model/Lua.lean)
  gives the extracted ASTs their meaning.  The property theorems of C08/C09/C16/C19 are about hand-written
  models (`cmsInit`, `cmsUpdate`, `cmsCount`, `cmsMerge`, `CMSRedis.equals`).  Here the two are tied:
  for every store and all arguments that satisfy the stated preconditions, interpreting the extracted
  script on the KEYS/ARGV the Go code builds gives the store of the hand model and the reply that
  corresponds to its result.  A change of a script in the Go sources changes `LuaScripts.lean` and breaks
  these proofs unless the new script still computes the model.

  Covered (all 7 scripts of count_min_sketch_redis.go):
    * `count_min_sketch_redis_updateLists`         = `cmsUpdate`     (`lua_count_min_sketch_redis_updateLists_eq`)
    * `count_min_sketch_redis_countLists`          = `cmsCount`      (`lua_count_min_sketch_redis_countLists_eq`)
    * `count_min_sketch_redis_initMatrixRedis`     = `cmsInit`       (`lua_count_min_sketch_redis_initMatrixRedis_eq`)
    * `count_min_sketch_redis_mergeMatrixScript`   = `cmsMerge`      (`lua_count_min_sketch_redis_mergeMatrixScript_eq`)
    * `count_min_sketch_redis_compareMatrixScript` = `CMSRedis.equals` of Model/Equals.lean
                                                                     (`lua_count_min_sketch_redis_compareMatrixScript_eq`)
    * `count_min_sketch_redis_setMatrixScript`     = `Json.CMSRedis.setMatrix` of Model/Json.lean
                                                                     (`lua_count_min_sketch_redis_setMatrixScript_eq`)
    * `count_min_sketch_redis_fetchMatrixAsTable`  = `Json.CMSRedis.matrix` of Model/Json.lean
                                                                     (`lua_count_min_sketch_redis_fetchMatrixAsTable_eq`)
  Each with the corollary that transports the C08 theorem about the hand model to the extracted script
  (`lua_updateLists_abs`, `lua_countLists_abs`, `lua_initMatrixRedis_abs`, `lua_mergeMatrixScript_abs`).

  Shape of the statements.  The hand models return `Option α`: `none` = the script raised an error (the
  writes made so far stay).  The interpreter then returns `Outcome.error msg`; the message depends on which
  command or operator failed and is not part of the hand models, so the statements are
  `∃ msg, Lua.run … = (store of the model, match result of the model with | some a => .reply … | none => .error msg)`:
  same store in every case, a reply exactly when the model succeeds, the error message left open.

  Preconditions (each is needed; `…_differs` examples at the end show a run where the two sides differ
  without it):
    * numbers: the count, the columns and every list entry the script reads with `tonumber` stay `≤ 2^53`
      (`Lua.numLimit`), also after the addition the script performs: beyond that the interpreter answers
      `unsupported` (float64 is no longer exact) while the hand models count in `Nat`;
    * entries: every list entry that is READ is read the same way by `tonumber` (gopher-lua: blanks
      trimmed, `0x…`, signs) and by the hand models' `parseDecimal` (plain digits): `EntryAgrees`, i.e. it
      is a string of digits, or it is a string both reject.  Established by the library itself: every
      writer (`initMatrix`, `Update`, `Merge`, `setMatrix`) writes `decimal n`; on a store with
      `absCMS st h = some c` it holds (`updReadsAgree_of_abs`, `cntReadsAgree_of_abs`,
      `mergeReadsAgree_of_rows`).  No hypothesis on the TYPE of the keys is needed for Update, Count,
      init and Merge: an absent key, a key of another type and a short list make both sides fail
      (`redis.call` raises, the hand model returns `none`) with the same store.
      For Merge the condition is stated along the run (`MergeReadsAgree`: in every round, on the store
      reached so far), because a round rewrites a row that a later round may read when the row keys of the
      two sketches overlap; for distinct base keys it follows from the initial store
      (`mergeReadsAgree_of_rows`).
    * `unpack`: `columns ≤ 4800` (`Lua.unpackSafe`) for init and Merge — gopher-lua's fixed data stack;
      the hand models have no such limit (Model/Redis.lean header).
    * tables: `2 * rows < 2^26` resp. `columns + 1 < 2^26` (gopher-lua's array part, `Lua.maxArrayIndex`).
    * Equals (`redis.pcall`): the rows are canonical decimal lists or absent (`CanonRows`).  The hand
      model of Model/Equals.lean lives on matrices of naturals and ASSUMES canonical formatting; `pcall`
      of a failed `LRANGE` gives `nil` in miniredis (then `vals1[j]` raises) and an error table in Redis.
    * setMatrix (Import): the hand model `Json.CMSRedis.setMatrix` lives on the typed store of
      Model/Json.lean, so the statement relates the two stores (`CmsRel`); `1 ≤ columns ≤ 4800` and the cells
      fill whole rows (`cells = iters * columns`) — the script's `rows = (#ARGV - 1) / columns` is a float
      in Lua and `unsupported` for the interpreter unless the division is exact.

    * getMatrix (Export): hand model `Json.CMSRedis.matrix`, again through `CmsRel`; the reply is the
      array of the rows, each an array of bulk strings (the decimal spellings; the Go side reads them back
      with `strconv.Atoi`, `atoi_decimal`).  `CmsRel` makes every row key a list or absent; on a key of
      another type `redis.call('LRANGE')` raises while `Json.Store.getNums` reads `[]` (example at the end).

  Fuel: explicit linear bounds (`rows + columns + 60` at most; `2 * rows` is not needed: one unit per round).

  NOT covered: nothing of this group.

  The concrete examples at the end are checked with `decide +kernel` (plain `decide` runs out of heartbeats
  in the elaborator's `whnf` on the interpreter; the kernel evaluates the same terms in a second, and no axiom
  beyond propext / Classical.choice / Quot.sound is involved: `#print axioms`).  `Outcome`/`Reply` have no
  decidable equality, hence the Boolean observers `Outcome.cmsIsInt` etc.

  Everything here is in the namespace `Gostatix.LuaCMS` (so that lemma names cannot clash with the other
  Lua tie modules); the interpreter is `Gostatix.Lua`.
  Proofs: Proofs/LuaCoreb.lean (numerals, one-step equations of the evaluator, builtins, Redis commands,
  the loop lemmas `numForLoop_spec` and `ipairsLoop_spec`), Proofs/LuaCMS.lean (one lemma per loop body, the
  loops, the scripts).
-/
import Gostatix.Proofs.LuaCMS
import Gostatix.Props.C08
namespace Gostatix.LuaCMS
open Gostatix.Lua Gostatix.Redis Gostatix.Generated.LuaScripts

/-! ## Update -/

/-- `CountMinSketchRedis.Update(data, count)` with `pos = getPositions(data)`:
    KEYS = `r₀, c₀, r₁, c₁, …` (`cmsPosKeys`), ARGV = `len(KEYS), cms.key, count`. -/
theorem lua_count_min_sketch_redis_updateLists_eq (st : Store) (h : CMSHandle) (pos : List Nat) (count : Nat)
    (fuel : Nat) (hfuel : pos.length + 30 ≤ fuel)
    (hlen : 2 * pos.length < maxArrayIndex) (hcount : count ≤ numLimit) (hpos : ∀ c ∈ pos, c ≤ numLimit)
    (hreads : UpdReadsAgree h.key count pos st) :
    ∃ msg, Lua.run fuel count_min_sketch_redis_updateLists (cmsPosKeys pos)
        [decimal (2 * pos.length), h.key, decimal count] st =
      ((cmsUpdate h pos count st).1,
        match (cmsUpdate h pos count st).2 with
        | some _ => .reply (.int 1)
        | none => .error msg) :=
  upd_run h.key count pos st fuel hfuel hlen hcount hpos hreads

/-- `C08_cms_update` through the extracted script: on a store that represents the sketch `c` the script
    replies `true` and leaves a store that represents `c.update pos count`. -/
theorem lua_updateLists_abs (st : Store) (h : CMSHandle) (c : CMS) (pos : List Nat) (count : Nat) (fuel : Nat)
    (hfuel : pos.length + 30 ≤ fuel) (habs : absCMS st h = some c)
    (hlen : pos.length ≤ h.rows) (hpos : ∀ p ∈ pos, p < h.cols)
    (hrows : 2 * h.rows < maxArrayIndex) (hcols : h.cols ≤ numLimit) (hcount : count ≤ numLimit)
    (hb : ∀ row ∈ c.m, ∀ x ∈ row, x + count ≤ numLimit) :
    ∃ st', Lua.run fuel count_min_sketch_redis_updateLists (cmsPosKeys pos)
        [decimal (2 * pos.length), h.key, decimal count] st = (st', .reply (.int 1)) ∧
      absCMS st' h = some (c.update pos count) := by
  obtain ⟨msg, hrun⟩ := lua_count_min_sketch_redis_updateLists_eq st h pos count fuel hfuel (by omega) hcount
    (fun p hp => Nat.le_trans (Nat.le_of_lt (hpos p hp)) hcols) (updReadsAgree_of_abs habs pos count hlen hb)
  obtain ⟨st', hm, habs'⟩ := C08_cms_update h st c pos count habs hlen hpos
  rw [hm] at hrun
  exact ⟨st', hrun, habs'⟩

/-! ## Count -/

/-- `CountMinSketchRedis.Count(data)`: KEYS as for `Update`, ARGV = `len(KEYS), cms.key`. -/
theorem lua_count_min_sketch_redis_countLists_eq (st : Store) (h : CMSHandle) (pos : List Nat)
    (fuel : Nat) (hfuel : pos.length + 30 ≤ fuel)
    (hlen : 2 * pos.length < maxArrayIndex) (hpos : ∀ c ∈ pos, c ≤ numLimit)
    (hreads : CntReadsAgree h.key pos st) :
    ∃ msg, Lua.run fuel count_min_sketch_redis_countLists (cmsPosKeys pos)
        [decimal (2 * pos.length), h.key] st =
      ((cmsCount h pos st).1,
        match (cmsCount h pos st).2 with
        | some mn => .reply (.int mn)
        | none => .error msg) :=
  cnt_run h.key pos st fuel hfuel hlen hpos hreads

/-- `C08_cms_count` through the extracted script: the reply is the in-memory estimate. -/
theorem lua_countLists_abs (st : Store) (h : CMSHandle) (c : CMS) (pos : List Nat) (fuel : Nat)
    (hfuel : pos.length + 30 ≤ fuel) (habs : absCMS st h = some c)
    (hlen : pos.length ≤ h.rows) (hpos : ∀ p ∈ pos, p < h.cols)
    (hrows : 2 * h.rows < maxArrayIndex) (hcols : h.cols ≤ numLimit)
    (hb : ∀ row ∈ c.m, ∀ x ∈ row, x ≤ numLimit) :
    Lua.run fuel count_min_sketch_redis_countLists (cmsPosKeys pos) [decimal (2 * pos.length), h.key] st =
      (st, .reply (.int (c.count pos))) := by
  obtain ⟨msg, hrun⟩ := lua_count_min_sketch_redis_countLists_eq st h pos fuel hfuel (by omega)
    (fun p hp => Nat.le_trans (Nat.le_of_lt (hpos p hp)) hcols) (cntReadsAgree_of_abs habs pos hlen hb)
  rw [C08_cms_count h st c pos habs hlen hpos] at hrun
  exact hrun

/-! ## initMatrix -/

/-- `initMatrix()` of the constructor: KEYS = `cms.key`, ARGV = `rows, columns`. -/
theorem lua_count_min_sketch_redis_initMatrixRedis_eq (st : Store) (h : CMSHandle)
    (fuel : Nat) (hfuel : h.rows + h.cols + 45 ≤ fuel)
    (hcols : h.cols ≤ unpackSafe) (hrows : h.rows ≤ numLimit) :
    ∃ msg, Lua.run fuel count_min_sketch_redis_initMatrixRedis [h.key] [decimal h.rows, decimal h.cols] st =
      ((cmsInit h st).1,
        match (cmsInit h st).2 with
        | some _ => .reply (.int 1)
        | none => .error msg) :=
  init_run h.key h.rows h.cols st fuel hfuel hcols hrows

/-- `C08_cms_init` through the extracted script: it leaves the all-zero sketch. -/
theorem lua_initMatrixRedis_abs (st : Store) (h : CMSHandle) (fuel : Nat) (hfuel : h.rows + h.cols + 45 ≤ fuel)
    (hpos : 0 < h.cols) (hcols : h.cols ≤ unpackSafe) (hrows : h.rows ≤ numLimit) :
    ∃ st', Lua.run fuel count_min_sketch_redis_initMatrixRedis [h.key] [decimal h.rows, decimal h.cols] st =
        (st', .reply (.int 1)) ∧
      absCMS st' h = some (CMS.new h.rows h.cols) := by
  obtain ⟨msg, hrun⟩ := lua_count_min_sketch_redis_initMatrixRedis_eq st h fuel hfuel hcols hrows
  obtain ⟨st', hm, habs'⟩ := C08_cms_init h st hpos
  rw [hm] at hrun
  exact ⟨st', hrun, habs'⟩

/-! ## Merge -/

/-- `mergeMatrix(key)`, reached from `Merge` after the Go-side dimension checks (`hr`, `hc`):
    KEYS = `cms.key, cms1.key`, ARGV = `rows, columns`. -/
theorem lua_count_min_sketch_redis_mergeMatrixScript_eq (st : Store) (h₁ h₂ : CMSHandle)
    (hr : h₁.rows = h₂.rows) (hc : h₁.cols = h₂.cols)
    (fuel : Nat) (hfuel : h₁.rows + h₁.cols + 60 ≤ fuel)
    (hcols : h₁.cols ≤ unpackSafe) (hrows : h₁.rows ≤ numLimit)
    (hreads : MergeReadsAgree h₁.key h₂.key h₁.cols 0 h₁.rows st) :
    ∃ msg, Lua.run fuel count_min_sketch_redis_mergeMatrixScript [h₁.key, h₂.key]
        [decimal h₁.rows, decimal h₁.cols] st =
      ((cmsMerge h₁ h₂ st).1,
        match (cmsMerge h₁ h₂ st).2 with
        | some _ => .reply (.int 1)
        | none => .error msg) := by
  have e : cmsMerge h₁ h₂ = cmsMergeLoop h₁.key h₂.key h₁.cols 0 h₁.rows := by
    unfold cmsMerge
    rw [if_neg (fun hne => hne hr), if_neg (fun hne => hne hc)]
  rw [e]
  exact merge_run h₁.key h₂.key h₁.rows h₁.cols st fuel hfuel hcols hrows hreads

/-- `C08_cms_merge` through the extracted script: two sketches of equal dimensions under different row
    keys, all sums `≤ 2^53`: the script replies `true`, the first handle then represents the sum, the
    second is unchanged. -/
theorem lua_mergeMatrixScript_abs (st : Store) (h₁ h₂ : CMSHandle) (a b : CMS)
    (ha : absCMS st h₁ = some a) (hb : absCMS st h₂ = some b)
    (hr : h₁.rows = h₂.rows) (hc : h₁.cols = h₂.cols)
    (fuel : Nat) (hfuel : h₁.rows + h₁.cols + 60 ≤ fuel)
    (hpos : 0 < h₁.cols) (hcols : h₁.cols ≤ unpackSafe) (hrows : h₁.rows ≤ numLimit)
    (hd : ∀ i j, i < h₁.rows → j < h₂.rows → cmsRowKey h₁.key i ≠ cmsRowKey h₂.key j)
    (hsum : ∀ p ∈ List.zip a.m b.m, ∀ q ∈ List.zip p.1 p.2, q.1 + q.2 ≤ numLimit) :
    ∃ st', Lua.run fuel count_min_sketch_redis_mergeMatrixScript [h₁.key, h₂.key]
        [decimal h₁.rows, decimal h₁.cols] st = (st', .reply (.int 1)) ∧
      absCMS st' h₁ = some { a with m := CMS.addRows a.m b.m } ∧ absCMS st' h₂ = some b := by
  obtain ⟨a1, a2, a3, a4⟩ := (absCMS_eq_some_iff _ _ _).mp ha
  obtain ⟨b1, b2, b3, b4⟩ := (absCMS_eq_some_iff _ _ _).mp hb
  have hreads : MergeReadsAgree h₁.key h₂.key h₁.cols 0 h₁.rows st :=
    mergeReadsAgree_of_rows h₁.key h₂.key h₁.cols h₁.rows (fun i j hi hj => hd i j hi (by omega))
      h₁.rows 0 st a.m b.m (by omega) a3 (by omega) a4 (hc ▸ b4) hsum
  obtain ⟨msg, hrun⟩ := lua_count_min_sketch_redis_mergeMatrixScript_eq st h₁ h₂ hr hc fuel hfuel hcols hrows hreads
  have hm := C08_cms_merge h₁ h₂ st a b ha hb hpos hd
  have hmerge : CMS.merge a b = .ok { a with m := CMS.addRows a.m b.m } := by
    unfold CMS.merge
    rw [if_neg (by omega), if_neg (by omega)]
  rw [hmerge] at hm
  obtain ⟨st', hm', h1', h2'⟩ := hm
  rw [hm'] at hrun
  exact ⟨st', hrun, h1', h2'⟩

/-! ## Equals -/

/-- rows `0 … rows-1` under `key` hold the canonical decimal spelling of the matrix `m`
    (a missing row of `m` = an absent key or an empty list). -/
def CanonRows (st : Store) (key : String) (rows : Nat) (m : List (List Nat)) : Prop :=
  ∀ i, i < rows → lrangeO st (cmsRowKey key i) = some ((m[i]?.getD []).map decimal)

/-- `compareMatrix(key)`, reached from `Equals` after the Go-side dimension guard (`hr`, `hc`):
    KEYS = `cms.key, cms1.key`, ARGV = `rows, columns`.  The store is not written; the reply is `1` for
    `true` and nil for `false` (a Lua `false` reaches go-redis as a nil reply). -/
theorem lua_count_min_sketch_redis_compareMatrixScript_eq (st : Store) (key₁ key₂ : String) (a b : CMS)
    (hr : a.rows = b.rows) (hc : a.cols = b.cols)
    (fuel : Nat) (hfuel : a.rows + a.cols + 60 ≤ fuel)
    (hcols : a.cols + 1 < maxArrayIndex) (hrows : a.rows ≤ numLimit)
    (h₁ : CanonRows st key₁ a.rows a.m) (h₂ : CanonRows st key₂ a.rows b.m) :
    Lua.run fuel count_min_sketch_redis_compareMatrixScript [key₁, key₂] [decimal a.rows, decimal a.cols] st =
      (st, match Equals.CMSRedis.equals a b with
        | some true => .reply (.int 1)
        | _ => .reply .nil) := by
  have e : Equals.CMSRedis.equals a b =
      Equals.forN a.rows (fun i => Equals.forN a.cols (Equals.luaIdxEq ((a.m[i]?).getD []) ((b.m[i]?).getD []))) := by
    unfold Equals.CMSRedis.equals
    rw [if_neg (by omega)]
  rw [e]
  exact cmp_run key₁ key₂ a.rows a.cols st a.m b.m fuel hfuel hcols hrows h₁ h₂

/-! ## setMatrix (Import) -/

/-- `setMatrix(matrix)`: KEYS = `cms.key`, ARGV = `len(matrix[0]), cell, cell, …` (the flattened matrix).
    Its hand model `Json.CMSRedis.setMatrix` (Model/Json.lean, used by C16) lives on the typed store
    `Json.Store`; `CmsRel key id js st` says that the rows of sketch `id` there are the rows under `key` in the
    Redis store (`absent` = no key, `nums l` = the list of the decimal spellings).  On related stores, for a
    matrix whose first row has `1 ≤ columns ≤ 4800` entries and whose cells fill `iters` whole rows (every
    rectangular matrix: `iters = len(matrix)`), both succeed and leave related stores.  The cells are
    never parsed by the script, so no bound on them is needed. -/
theorem lua_count_min_sketch_redis_setMatrixScript_eq (js : Json.Store) (st : Store) (key : String) (id : Nat)
    (row0 : List Nat) (rest : List (List Nat)) (iters : Nat) (fuel : Nat)
    (hrel : CmsRel key id js st)
    (hfuel : iters + row0.length + 60 ≤ fuel) (hcols : 1 ≤ row0.length) (hcols' : row0.length ≤ unpackSafe)
    (hcells : (row0 :: rest).flatten.length = iters * row0.length)
    (hn : 2 + (row0 :: rest).flatten.length < maxArrayIndex) :
    ∃ js' st', Json.CMSRedis.setMatrix js id (row0 :: rest) = some (js', true) ∧
      Lua.run fuel count_min_sketch_redis_setMatrixScript [key]
        (decimal row0.length :: (row0 :: rest).flatten.map decimal) st = (st', .reply (.int 1)) ∧
      CmsRel key id js' st' :=
  set_json js st key id row0 rest iters fuel hrel hfuel hcols hcols' hcells hn

/-- the store the script leaves, explicitly (`setRowsLoop`: row `r` := cells `r*columns … (r+1)*columns - 1`),
    for arbitrary cell strings. -/
theorem lua_setMatrixScript_store (st : Store) (key : String) (cols iters : Nat) (cells : List String) (fuel : Nat)
    (hfuel : iters + cols + 60 ≤ fuel) (hcols : 1 ≤ cols) (hcols' : cols ≤ unpackSafe)
    (hcells : cells.length = iters * cols) (hn : 2 + cells.length < maxArrayIndex) :
    Lua.run fuel count_min_sketch_redis_setMatrixScript [key] (decimal cols :: cells) st =
      (setRowsLoop key cols (decimal cols :: cells) 0 iters st, .reply (.int 1)) :=
  set_run key cols iters cells st fuel hfuel hcols hcols' hcells hn

/-! ## getMatrix (Export) -/

/-- `getMatrix()`: KEYS = `cms.key`, ARGV = `rows`.  On related stores (`CmsRel`) the script does not write
    and replies the matrix `Json.CMSRedis.matrix` reads, every cell as the bulk string of its decimal
    spelling.  `L` bounds the row lengths (for the fuel only). -/
theorem lua_count_min_sketch_redis_fetchMatrixAsTable_eq (js : Json.Store) (st : Store) (key : String)
    (h : Json.CMSRedis) (L fuel : Nat) (hrel : CmsRel key h.key js st) (hfuel : h.rows + L + 60 ≤ fuel)
    (hn : h.rows + 1 < maxArrayIndex) (hL : L + 1 < maxArrayIndex)
    (hlen : ∀ row ∈ h.matrix js, row.length ≤ L) :
    Lua.run fuel count_min_sketch_redis_fetchMatrixAsTable [key] [decimal h.rows] st =
      (st, .reply (.array ((h.matrix js).map fun row => .array (row.map fun x => .bulk (decimal x))))) :=
  fetch_json js st key h L fuel hrel hfuel hn hL hlen

/-- the same on the Redis store alone: row `r` is whatever list `LRANGE` returns (`[]` for an absent key). -/
theorem lua_fetchMatrixAsTable_reply (st : Store) (key : String) (n L : Nat) (rows : Nat → List String) (fuel : Nat)
    (hfuel : n + L + 60 ≤ fuel) (hn : n + 1 < maxArrayIndex) (hL : L + 1 < maxArrayIndex)
    (hrows : ∀ r, r < n → lrangeO st (cmsRowKey key r) = some (rows r)) (hlen : ∀ r, r < n → (rows r).length ≤ L) :
    Lua.run fuel count_min_sketch_redis_fetchMatrixAsTable [key] [decimal n] st =
      (st, .reply (.array ((List.range n).map fun r => .array ((rows r).map .bulk)))) :=
  fetch_run key st n L rows fuel hfuel hn hL hrows hlen

/-! ## non-vacuity: concrete runs, and runs where the two sides differ without a precondition -/

section examples

def _root_.Gostatix.Lua.Outcome.cmsIsInt : Outcome → Int → Bool
  | .reply (.int m), n => m == n
  | _, _ => false
def _root_.Gostatix.Lua.Outcome.cmsIsNil : Outcome → Bool
  | .reply .nil => true
  | _ => false
def _root_.Gostatix.Lua.Outcome.cmsIsError : Outcome → Bool
  | .error _ => true
  | _ => false
def _root_.Gostatix.Lua.Outcome.cmsIsUnsupported : Outcome → Bool
  | .unsupported _ => true
  | _ => false

def exH : CMSHandle := { rows := 2, cols := 3, key := "aaaaaaaaaaaaaaaa", metadataKey := "aaaaaaaaaaaaaaab" }
def exG : CMSHandle := { rows := 2, cols := 3, key := "cccccccccccccccc", metadataKey := "cccccccccccccccd" }

/-- the constructor's script on the empty database … -/
def exL₀ : Store :=
  (Lua.run 100 count_min_sketch_redis_initMatrixRedis [exH.key] [decimal 2, decimal 3] Store.empty).1
/-- … then `Update(·, 5)` at positions `[1, 2]` and `Update(·, 2)` at `[1, 0]`, all through the interpreter. -/
def exL₁ : Store :=
  (Lua.run 100 count_min_sketch_redis_updateLists (cmsPosKeys [1, 2]) [decimal 4, exH.key, decimal 5] exL₀).1
def exL₂ : Store :=
  (Lua.run 100 count_min_sketch_redis_updateLists (cmsPosKeys [1, 0]) [decimal 4, exH.key, decimal 2] exL₁).1

example : cmsPosKeys [1, 2] = ["0", "1", "1", "2"] := by decide +kernel
example : exL₀ "aaaaaaaaaaaaaaaa0" = some (.list ["0", "0", "0"]) := by decide +kernel
example : absCMS exL₀ exH = some (CMS.new 2 3) := by decide +kernel
example : exL₂ "aaaaaaaaaaaaaaaa0" = some (.list ["0", "7", "0"]) := by decide +kernel
example : exL₂ "aaaaaaaaaaaaaaaa1" = some (.list ["2", "0", "5"]) := by decide +kernel
/-- the same stores as the hand models give (C08's `exS₀`, `exS₂`), key by key -/
example : exL₂ "aaaaaaaaaaaaaaaa0" = exS₂ "aaaaaaaaaaaaaaaa0" ∧ exL₂ "aaaaaaaaaaaaaaaa1" = exS₂ "aaaaaaaaaaaaaaaa1" := by
  decide +kernel
example : ((Lua.run 100 count_min_sketch_redis_updateLists (cmsPosKeys [1, 2])
    [decimal 4, exH.key, decimal 5] exL₀).2).cmsIsInt 1 = true := by decide +kernel
example : ((Lua.run 100 count_min_sketch_redis_countLists (cmsPosKeys [1, 2])
    [decimal 4, exH.key] exL₂).2).cmsIsInt 5 = true := by decide +kernel
example : ((Lua.run 100 count_min_sketch_redis_countLists (cmsPosKeys [1, 0])
    [decimal 4, exH.key] exL₂).2).cmsIsInt 2 = true := by decide +kernel
example : (cmsCount exH [1, 0] exL₂).2 = some 2 := by decide +kernel

/-- the theorems instantiated: `Update` and `Count` on the store the constructor leaves. -/
example : ∃ st', Lua.run 100 count_min_sketch_redis_updateLists (cmsPosKeys [1, 2])
      [decimal 4, exH.key, decimal 5] exS₀ = (st', .reply (.int 1)) ∧
    absCMS st' exH = some ((CMS.new 2 3).update [1, 2] 5) :=
  lua_updateLists_abs exS₀ exH (CMS.new 2 3) [1, 2] 5 100 (by decide) (by decide +kernel) (by decide)
    (by decide) (by decide) (by decide) (by decide) (by decide)

example : Lua.run 100 count_min_sketch_redis_countLists (cmsPosKeys [1, 2]) [decimal 4, exH.key] exS₂ =
    (exS₂, .reply (.int 5)) :=
  lua_countLists_abs exS₂ exH { rows := 2, cols := 3, m := [[0, 7, 0], [2, 0, 5]] } [1, 2] 100 (by decide)
    (by decide +kernel) (by decide) (by decide) (by decide) (by decide) (by decide)

/-- both sides fail alike on a store without the rows, on a column beyond the row, on a key of another type -/
example : ((Lua.run 100 count_min_sketch_redis_updateLists (cmsPosKeys [1, 2])
    [decimal 4, exH.key, decimal 5] Store.empty).2).cmsIsError = true ∧
    (cmsUpdate exH [1, 2] 5 Store.empty).2 = none := by decide +kernel
example : ((Lua.run 100 count_min_sketch_redis_updateLists (cmsPosKeys [1, 7])
    [decimal 4, exH.key, decimal 5] exL₀).2).cmsIsError = true ∧
    (cmsUpdate exH [1, 7] 5 exL₀).2 = none := by decide +kernel
example : ((Lua.run 100 count_min_sketch_redis_countLists (cmsPosKeys [1, 2])
    [decimal 4, exH.key] (exL₀.set "aaaaaaaaaaaaaaaa0" (.str []))).2).cmsIsError = true ∧
    (cmsCount exH [1, 2] (exL₀.set "aaaaaaaaaaaaaaaa0" (.str []))).2 = none := by decide +kernel

/-- Merge and Equals: a second sketch, merged into the first. -/
def exM₀ : Store :=
  (Lua.run 100 count_min_sketch_redis_initMatrixRedis [exG.key] [decimal 2, decimal 3] exL₂).1
def exM₁ : Store :=
  (Lua.run 100 count_min_sketch_redis_updateLists (cmsPosKeys [1, 1]) [decimal 4, exG.key, decimal 4] exM₀).1
def exM₂ : Store :=
  (Lua.run 100 count_min_sketch_redis_mergeMatrixScript [exH.key, exG.key] [decimal 2, decimal 3] exM₁).1

example : absCMS exM₁ exG = some { rows := 2, cols := 3, m := [[0, 4, 0], [0, 4, 0]] } := by decide +kernel
example : absCMS exM₂ exH = some { rows := 2, cols := 3, m := [[0, 11, 0], [2, 4, 5]] } := by decide +kernel
example : exM₂ "aaaaaaaaaaaaaaaa0" = (cmsMerge exH exG exM₁).1 "aaaaaaaaaaaaaaaa0" := by decide +kernel
example : ((Lua.run 100 count_min_sketch_redis_compareMatrixScript [exH.key, exG.key]
    [decimal 2, decimal 3] exM₂).2).cmsIsNil = true := by decide +kernel
example : ((Lua.run 100 count_min_sketch_redis_compareMatrixScript [exH.key, exH.key]
    [decimal 2, decimal 3] exM₂).2).cmsIsInt 1 = true := by decide +kernel
example : Equals.CMSRedis.equals { rows := 2, cols := 3, m := [[0, 11, 0], [2, 4, 5]] }
    { rows := 2, cols := 3, m := [[0, 4, 0], [0, 4, 0]] } = some false := by decide +kernel

/-! ### the preconditions are needed -/

/-- entries: `tonumber` trims blanks, `parseDecimal` does not: on a row holding `" 5"` the script updates the
    entry and replies `true`, the hand model aborts. -/
def exBlank : Store := Store.empty.set "k0" (.list [" 5"])
def exK : CMSHandle := { rows := 1, cols := 1, key := "k", metadataKey := "m" }

theorem lua_updateLists_differs :
    ((Lua.run 100 count_min_sketch_redis_updateLists (cmsPosKeys [0]) [decimal 2, "k", decimal 1] exBlank).2).cmsIsInt 1
        = true ∧
      (Lua.run 100 count_min_sketch_redis_updateLists (cmsPosKeys [0]) [decimal 2, "k", decimal 1] exBlank).1 "k0"
        = some (.list ["6"]) ∧
      (cmsUpdate exK [0] 1 exBlank).2 = none ∧ ¬ UpdReadsAgree "k" 1 [0] exBlank := by
  refine ⟨by decide +kernel, by decide +kernel, by decide +kernel, ?_⟩
  intro h
  rcases h 0 0 [" 5"] " 5" rfl (by decide +kernel) rfl with ⟨n, hp, _⟩ | ⟨_, hl⟩
  · have : parseDecimal " 5" = none := by decide +kernel
    rw [this] at hp
    exact nomatch hp
  · have : luaToNumber " 5" = .num 5 := by rfl
    rw [this] at hl
    exact nomatch hl

/-- numbers: a count beyond 2^53 is `unsupported` for the interpreter (float64), the hand model adds it. -/
theorem lua_updateLists_differs_big :
    ((Lua.run 100 count_min_sketch_redis_updateLists (cmsPosKeys [1, 2])
        [decimal 4, exH.key, decimal (2 ^ 53 + 1)] exS₀).2).cmsIsUnsupported = true ∧
      (cmsUpdate exH [1, 2] (2 ^ 53 + 1) exS₀).2 = some () := by
  exact ⟨by decide +kernel, by decide +kernel⟩

/-- `unpack`: with `columns ≥ 5120` (and below 2^26) the extracted `initMatrix` raises "registry overflow" in
    its first round, after the `DEL` of row 0 (gopher-lua's data stack; the constructor ignores the error),
    while the hand model `cmsInit` builds the matrix (`C08_cms_init`).  Hence `columns ≤ 4800` in
    `lua_count_min_sketch_redis_initMatrixRedis_eq` (between 4801 and 5119 the interpreter says `unsupported`). -/
theorem lua_initMatrixRedis_differs (st : Store) (h : CMSHandle) (fuel : Nat) (hfuel : h.cols + 50 ≤ fuel)
    (hcols : unpackOverflow ≤ h.cols) (hcols' : h.cols + 1 < maxArrayIndex)
    (hrows : 1 ≤ h.rows) (hrows' : h.rows ≤ numLimit) :
    Lua.run fuel count_min_sketch_redis_initMatrixRedis [h.key] [decimal h.rows, decimal h.cols] st =
        (st.del (cmsRowKey h.key 0), .error "registry overflow") ∧
      ∃ st', cmsInit h st = (st', some ()) ∧ absCMS st' h = some (CMS.new h.rows h.cols) :=
  ⟨init_exec_overflow h.key h.rows h.cols st fuel hfuel hcols hcols' hrows hrows',
    C08_cms_init h st (by unfold unpackOverflow at hcols; omega)⟩

/-- Count: a hexadecimal entry is a number for `tonumber` only. -/
theorem lua_countLists_differs :
    ((Lua.run 100 count_min_sketch_redis_countLists (cmsPosKeys [0]) [decimal 2, "k"]
        (Store.empty.set "k0" (.list ["0x10"]))).2).cmsIsInt 16 = true ∧
      (cmsCount exK [0] (Store.empty.set "k0" (.list ["0x10"]))).2 = none := by
  exact ⟨by decide +kernel, by decide +kernel⟩

/-- Merge: a signed entry. -/
theorem lua_mergeMatrixScript_differs :
    ((Lua.run 100 count_min_sketch_redis_mergeMatrixScript ["k", "l"] [decimal 1, decimal 1]
        ((Store.empty.set "k0" (.list ["+1"])).set "l0" (.list ["2"]))).2).cmsIsInt 1 = true ∧
      (cmsMerge exK { exK with key := "l" } ((Store.empty.set "k0" (.list ["+1"])).set "l0" (.list ["2"]))).2
        = none := by
  exact ⟨by decide +kernel, by decide +kernel⟩

/-- Equals compares strings: `"07"` and `"7"` are the same number for `absCMS` but different entries for
    the script (so `CanonRows`, not `absCMS`, is the precondition) … -/
def exLead : Store := (Store.empty.set "k0" (.list ["07"])).set "l0" (.list ["7"])

theorem lua_compareMatrixScript_differs :
    absCMS exLead exK = some { rows := 1, cols := 1, m := [[7]] } ∧
      absCMS exLead { exK with key := "l" } = some { rows := 1, cols := 1, m := [[7]] } ∧
      Equals.CMSRedis.equals { rows := 1, cols := 1, m := [[7]] } { rows := 1, cols := 1, m := [[7]] } = some true ∧
      ((Lua.run 100 count_min_sketch_redis_compareMatrixScript ["k", "l"] [decimal 1, decimal 1] exLead).2).cmsIsNil
        = true := by
  exact ⟨by decide +kernel, by decide +kernel, by decide +kernel, by decide +kernel⟩

/-- … and a row key of another type: the `pcall`ed `LRANGE` gives `nil` in the interpreter (miniredis), indexing
    it raises; the hand model reads a missing row as the empty table. -/
theorem lua_compareMatrixScript_differs_type :
    ((Lua.run 100 count_min_sketch_redis_compareMatrixScript ["k", "l"] [decimal 1, decimal 1]
        (Store.empty.set "k0" (.str []))).2).cmsIsError = true ∧
      Equals.CMSRedis.equals { rows := 1, cols := 1, m := [] } { rows := 1, cols := 1, m := [] } = some true := by
  exact ⟨by decide +kernel, by decide +kernel⟩

/-- setMatrix: a concrete Import … -/
def exI : Store :=
  (Lua.run 100 count_min_sketch_redis_setMatrixScript ["k"] (decimal 2 :: [1, 2, 3, 4].map decimal) exBlank).1

example : exI "k0" = some (.list ["1", "2"]) ∧ exI "k1" = some (.list ["3", "4"]) := by decide +kernel
example : ((Lua.run 100 count_min_sketch_redis_setMatrixScript ["k"]
    (decimal 2 :: [1, 2, 3, 4].map decimal) exBlank).2).cmsIsInt 1 = true := by decide +kernel
example : (Json.CMSRedis.setMatrix (fun _ => .absent) 7 [[1, 2], [3, 4]]).map
    (fun p => (p.1 (.cmsRow 7 0), p.1 (.cmsRow 7 1), p.2)) = some (.nums [1, 2], .nums [3, 4], true) := by decide +kernel

/-- … and a ragged matrix `[[1,2],[3]]`: `rows = 3 / 2` is the float 1.5 in Lua (one round, as the hand model
    says); the interpreter, exact on integers only, answers `unsupported`: hence `hcells`. -/
theorem lua_setMatrixScript_differs :
    ((Lua.run 100 count_min_sketch_redis_setMatrixScript ["k"] (decimal 2 :: [1, 2, 3].map decimal)
        Store.empty).2).cmsIsUnsupported = true ∧
      (Json.CMSRedis.setMatrix (fun _ => .absent) 7 [[1, 2], [3]]).map
        (fun p => (p.1 (.cmsRow 7 0), p.1 (.cmsRow 7 1), p.2)) = some (.nums [1, 2], .absent, true) := by
  exact ⟨by decide +kernel, by decide +kernel⟩

/-- getMatrix: the reply as lists of strings. -/
def _root_.Gostatix.Lua.Outcome.cmsRowsOf : Outcome → Option (List (List String))
  | .reply (.array l) => l.mapM fun r => match r with
      | .array cells => cells.mapM fun c => match c with | .bulk s => some s | _ => none
      | _ => none
  | _ => none

example : ((Lua.run 100 count_min_sketch_redis_fetchMatrixAsTable ["k"] [decimal 2] exI).2).cmsRowsOf =
    some [["1", "2"], ["3", "4"]] := by decide +kernel
example : ((Lua.run 100 count_min_sketch_redis_fetchMatrixAsTable [exH.key] [decimal 2] exL₂).2).cmsRowsOf =
    some [["0", "7", "0"], ["2", "0", "5"]] := by decide +kernel
/-- an absent row reads as the empty row on both sides; a key of another type raises in the script. -/
example : ((Lua.run 100 count_min_sketch_redis_fetchMatrixAsTable ["k"] [decimal 3] exI).2).cmsRowsOf =
    some [["1", "2"], ["3", "4"], []] := by decide +kernel
example : ((Lua.run 100 count_min_sketch_redis_fetchMatrixAsTable ["k"] [decimal 2]
    (exI.set "k1" (.str []))).2).cmsIsError = true := by decide +kernel

/-- the theorem instantiated: a typed store with two rows and the Redis store it stands for. -/
def exJ : Json.Store := fun k => if k = .cmsRow 7 0 then .nums [1, 2] else if k = .cmsRow 7 1 then .nums [3, 4] else .absent

theorem exJ_rel : CmsRel "k" 7 exJ ((Store.empty.set "k0" (.list ["1", "2"])).set "k1" (.list ["3", "4"])) := by
  intro r
  match r with
  | 0 => exact (by decide +kernel : ["1", "2"] = [1, 2].map decimal)
  | 1 => exact (by decide +kernel : ["3", "4"] = [3, 4].map decimal)
  | r + 2 =>
    have h0 : cmsRowKey "k" (r + 2) ≠ "k0" := fun e => by
      have := cmsRowKey_inj (key := "k") (a := r + 2) (b := 0) e; omega
    have h1 : cmsRowKey "k" (r + 2) ≠ "k1" := fun e => by
      have := cmsRowKey_inj (key := "k") (a := r + 2) (b := 1) e; omega
    have e1 : exJ (.cmsRow 7 (r + 2)) = .absent := by
      have a : ¬ (Json.Key.cmsRow 7 (r + 2) = Json.Key.cmsRow 7 0) := fun e => by injection e with _ e; omega
      have b : ¬ (Json.Key.cmsRow 7 (r + 2) = Json.Key.cmsRow 7 1) := fun e => by injection e with _ e; omega
      simp only [exJ, a, b, if_false]
    simp only [e1, Store.set, Store.empty, h0, h1, if_false, RelVal]

example : Lua.run 100 count_min_sketch_redis_fetchMatrixAsTable ["k"] [decimal 2]
      ((Store.empty.set "k0" (.list ["1", "2"])).set "k1" (.list ["3", "4"])) =
    ((Store.empty.set "k0" (.list ["1", "2"])).set "k1" (.list ["3", "4"]),
      .reply (.array [.array [.bulk "1", .bulk "2"], .array [.bulk "3", .bulk "4"]])) := by
  have := lua_count_min_sketch_redis_fetchMatrixAsTable_eq exJ _ "k" ⟨2, 2, 0, 7, 8⟩ 2 100 exJ_rel (by decide)
    (by decide) (by decide) (by decide)
  rw [this]
  rfl

end examples

end Gostatix.LuaCMS
