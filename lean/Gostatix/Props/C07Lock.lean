/-
  C07 (premise 1) — the lock discipline, decided over the table REGENERATED from /repo's current
  sources by /verif/extract on every run (`Gostatix/Generated/LockTable.lean`).
  If a method of an in-memory structure touches mutable state outside a critical section of its
  instance's mutex (or writes under a read lock, or the extractor does not understand its shape),
  `decide` fails, the build fails, and bin/check falls back to the race-detector search.
-/
import Gostatix.Generated.LockTable
import Gostatix.Model.Conc
namespace Gostatix.Conc
open Gostatix.Generated

/-- every method of the five in-memory types that is inside the property's call classes keeps the
    lock discipline -/
theorem C07_lock_discipline : lockDisciplineOK lockTable = true := by decide

/-- the table really covers the operations the property names (a method that disappears from the
    table would otherwise pass vacuously) -/
def requiredMethods : List (String × String) := [
  ("BloomFilter", "Insert"), ("BloomFilter", "Lookup"), ("BloomFilter", "Export"), ("BloomFilter", "WriteTo"), ("BloomFilter", "BloomPositiveRate"),
  ("CuckooFilter", "Insert"), ("CuckooFilter", "Lookup"), ("CuckooFilter", "Remove"), ("CuckooFilter", "Length"), ("CuckooFilter", "Export"), ("CuckooFilter", "WriteTo"),
  ("CountMinSketch", "Update"), ("CountMinSketch", "Count"), ("CountMinSketch", "Merge"), ("CountMinSketch", "Export"), ("CountMinSketch", "WriteTo"),
  ("HyperLogLog", "Update"), ("HyperLogLog", "Count"), ("HyperLogLog", "Merge"), ("HyperLogLog", "Reset"), ("HyperLogLog", "Export"), ("HyperLogLog", "WriteTo"),
  ("TopK", "Insert"), ("TopK", "Values"), ("TopK", "Export"), ("TopK", "WriteTo")]

theorem C07_lock_table_covers :
    requiredMethods.all (fun r => lockTable.any (fun f =>
      f.typ == r.1 && f.method == r.2 && f.touchesMutable && f.guarded && !f.exempt)) = true := by decide

end Gostatix.Conc
