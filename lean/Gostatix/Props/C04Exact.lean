/-
  C04Exact — the EXACTNESS clause of C04 (Top-K) end to end, from collision-freeness of the
  position function.

  `C04_exact_without_collisions` (Props/C04.lean) has the hypothesis `Exact evs` on the event list
  (every recorded estimate equals the running true total).  Here that hypothesis is discharged
  from the Count-Min sketch: it follows from a condition on the position function and the
  insertion history alone.

  WHAT IS PROVED  (pos : String → List Nat arbitrary with `CMS.PosOK pos rows cols`;
                   h : List (String × Nat) the insertion history; counters are `Nat`)
  * `NoCollision pos rows h`: every inserted element has a row `r < rows` in which it shares its
    cell with no OTHER inserted element.  `PrefixFree pos rows h` is the weaker, order-aware form:
    insert `i` has such a row with respect to the elements inserted up to and including `i`.
    `C04_noCollision_prefixFree : NoCollision → PrefixFree`.
  * `C04_count_exact_of_free_row` (any element type): one row free of the other elements of the
    history makes the Count-Min estimate exact (generalises `C03_exact_single`).
  * `C04_exact_of_noCollision` / `C04_exact_of_prefixFree`:
        `Exact (sketchEvents pos (CMS.new rows cols) h)`.
    `1 ≤ rows` is NOT a hypothesis: `NoCollision` with a non-empty history implies it
    (`C04_noCollision_rows_pos`), and for the empty history there is nothing to prove.
  * `C04_exact_iff_prefixFree`: for histories with all counts ≥ 1 (the only ones the Go code
    accepts) `Exact (sketchEvents …) ↔ PrefixFree`; `C04_exact_iff_needs_countsPos` shows the
    count hypothesis is needed for `→`.
  * `C04_exact_reach_sketch`: for EVERY heap the specification can reach on the events of the run
    (any tie-breaking, any `k`): no duplicates, `min k distinct` entries, every reported element
    was inserted and its count EQUALS `CMS.trueCount h`, and every inserted but unreported element
    has a true count ≤ every reported count (= true count): an exact top-k up to ties at the
    boundary.
  * `C04_end_to_end_exact_mem` / `C04_end_to_end_exact_redis` (+ `_of_prefixFree` forms,
    + `C04_end_to_end_exact_mem_values` for `Values()`): the same for the run of `TopK.insert` /
    `insertRedis` from the fresh state, stated on `h` alone.
  * hypotheses are needed: `C04_exact_needs_noCollision` (with collisions in every row a reported
    count is 3 for a true count of 1) and `C04_exact_needs_posOK` (positions of the wrong length:
    `NoCollision` holds, the estimate is 0).  `NoCollision` is sufficient, NOT necessary
    (`C04_noCollision_not_necessary`); `PrefixFree` is the sharper sufficient condition.

  THE RANGE `k ≥ 1`
  The header of C04E2E.lean says "any k (also 0)".  That is true of the MODEL, not of the code:
  top_k.go evaluates `uint(len(t.heap)) < t.k || frequency >= t.heap[0].frequency`; with `k = 0`
  the first disjunct is false and `t.heap[0]` on the empty slice PANICS (index out of range) at
  the very first `Insert`.  The model reads `heap.getD 0 ("", 0)`, the guard is true, the entry is
  pushed and popped again, and the heap stays empty (`C04_k_zero_model_differs`,
  `C04_k_zero_run`).  So for the in-memory variant the model is the code only for `k ≥ 1`;
  `C04_end_to_end_exact_mem` therefore carries the hypothesis `1 ≤ k` (the proof does not use it:
  at `k = 0` the statement is about a run the code does not have).  top_k_redis.go guards with
  `len(minElement) > 0 && …`, does not panic at `k = 0` and leaves the sorted set empty, as
  `offerRedis` does (`C04_k_zero_model_differs`, last conjunct), so the Redis theorem has no such
  hypothesis.
  Likewise `Insert(x, 0)` panics in BOTH Go variants (`count <= 0` → "count must be greater than
  zero"); the model accepts a count of 0 and the theorems hold for it, but only histories with
  all counts ≥ 1 are runs of the code.  (The comment in Model/TopKSpec.lean that calls
  `Insert(x, 0)` legal is wrong about /repo/top_k.go.)

  WHAT IS NOT PROVED
  * that the concrete `getPositions` (murmur-based) satisfies `NoCollision` for a given history –
    it is a hypothesis, checkable by `decide` for concrete data (the instances below);
  * anything about uint64 overflow: the statements hold for the code while `CMS.total h < 2^64`;
  * a converse for `NoCollision` (exactness ⇒ `NoCollision`): false, see
    `C04_noCollision_not_necessary`; the converse holds for `PrefixFree` and positive counts.

  Core Lean only.  Helper lemmas: Gostatix/Proofs/C04Exact.lean.
-/
import Gostatix.Props.C04E2E
import Gostatix.Proofs.C04Exact
namespace Gostatix.TopK

/-! ### the hypotheses -/

/-- every inserted element has a row in which it shares its cell with no other inserted element -/
def NoCollision (pos : String → List Nat) (rows : Nat) (h : List (String × Nat)) : Prop :=
  ∀ x ∈ h.map (·.1), ∃ r, r < rows ∧
    ∀ y ∈ h.map (·.1), y ≠ x → (pos y).getD r 0 ≠ (pos x).getD r 0

/-- order-aware form: insert `i` has a row in which its element shares its cell with no other
    element inserted up to and including `i` -/
def PrefixFree (pos : String → List Nat) (rows : Nat) (h : List (String × Nat)) : Prop :=
  ∀ i (hi : i < h.length), ∃ r, r < rows ∧
    ∀ ec ∈ h.take (i + 1), ec.1 ≠ h[i].1 → (pos ec.1).getD r 0 ≠ (pos h[i].1).getD r 0

instance (pos : String → List Nat) (rows : Nat) (h : List (String × Nat)) :
    Decidable (NoCollision pos rows h) := by
  unfold NoCollision; infer_instance

instance (pos : String → List Nat) (rows : Nat) (h : List (String × Nat)) :
    Decidable (PrefixFree pos rows h) := by
  unfold PrefixFree; infer_instance

theorem C04_noCollision_prefixFree {pos : String → List Nat} {rows : Nat}
    {h : List (String × Nat)} (hnc : NoCollision pos rows h) : PrefixFree pos rows h := by
  intro i hi
  obtain ⟨r, hr, hf⟩ := hnc h[i].1 (List.mem_map.2 ⟨h[i], List.getElem_mem hi, rfl⟩)
  refine ⟨r, hr, fun ec hec hne => hf ec.1 ?_ hne⟩
  exact List.mem_map.2 ⟨ec, List.mem_of_mem_take hec, rfl⟩

/-- `NoCollision` on a non-empty history forces at least one row (so `1 ≤ rows` is not a
    hypothesis of the theorems below) -/
theorem C04_noCollision_rows_pos {pos : String → List Nat} {rows : Nat}
    {h : List (String × Nat)} (hnc : NoCollision pos rows h) (hne : h ≠ []) : 1 ≤ rows := by
  cases h with
  | nil => exact absurd rfl hne
  | cons o h =>
    obtain ⟨r, hr, _⟩ := hnc o.1 (by simp)
    omega

/-! ### the Count-Min sketch is exact on a collision-free row -/

/-- From the fresh `rows × cols` sketch: if some row `r < rows` keeps the cell of `x` apart from
    the cells of all OTHER elements of the history, `Count(x)` is the true count of `x`
    (any element type; `x` itself need not occur in `h`). -/
theorem C04_count_exact_of_free_row {E : Type} [DecidableEq E] (pos : E → List Nat)
    (rows cols : Nat) (hpos : CMS.PosOK pos rows cols) (h : List (E × Nat)) (x : E) (r : Nat)
    (hr : r < rows)
    (hfree : ∀ ec ∈ h, ec.1 ≠ x → (pos ec.1).getD r 0 ≠ (pos x).getD r 0) :
    (CMS.run pos (CMS.new rows cols) h).count (pos x) = CMS.trueCount h x :=
  CMS.count_exact_of_free_row pos rows cols hpos h x r hr hfree

/-- **every recorded estimate equals the true running total**, order-aware hypothesis -/
theorem C04_exact_of_prefixFree {pos : String → List Nat} {rows cols : Nat}
    (hpos : CMS.PosOK pos rows cols) {h : List (String × Nat)} (hpf : PrefixFree pos rows h) :
    Exact (sketchEvents pos (CMS.new rows cols) h) :=
  sketchEvents_exact_of_free pos rows cols hpos h hpf

/-- **every recorded estimate equals the true running total** under `NoCollision`: the
    hypothesis `Exact` of `C04_exact_without_collisions`, from the position function alone. -/
theorem C04_exact_of_noCollision {pos : String → List Nat} {rows cols : Nat}
    (hpos : CMS.PosOK pos rows cols) {h : List (String × Nat)} (hnc : NoCollision pos rows h) :
    Exact (sketchEvents pos (CMS.new rows cols) h) :=
  C04_exact_of_prefixFree hpos (C04_noCollision_prefixFree hnc)

/-- **`PrefixFree` is exactly the condition** when all counts are positive (which both Go
    `Insert`s enforce by panicking on a count of 0): the events of the run are exact IFF every
    insert finds a row free of the other elements inserted so far. -/
theorem C04_exact_iff_prefixFree {pos : String → List Nat} {rows cols : Nat}
    (hpos : CMS.PosOK pos rows cols) {h : List (String × Nat)} (hc : ∀ o ∈ h, 1 ≤ o.2) :
    Exact (sketchEvents pos (CMS.new rows cols) h) ↔ PrefixFree pos rows h :=
  ⟨sketchEvents_free_of_exact pos rows cols hpos h hc, C04_exact_of_prefixFree hpos⟩

/-- positive counts are needed for the direction `Exact → PrefixFree`: a colliding element
    inserted with count 0 disturbs nobody ("a" and "dddd" share both cells under `exPosS`). -/
theorem C04_exact_iff_needs_countsPos :
    Exact (sketchEvents exPosS (CMS.new 2 3) [("dddd", 0), ("a", 1)]) ∧
    ¬ PrefixFree exPosS 2 [("dddd", 0), ("a", 1)] := by
  decide

/-! ### exact top-k for every reachable heap of the run's events -/

/-- For every heap the specification reaches on the events of the run (any tie-breaking, any
    `k`), restated on the history `h`:
    * no element is reported twice; exactly `min k (distinct inserted elements)` are reported;
    * every reported element was inserted and its count EQUALS its true count;
    * every inserted element that is not reported has a true count ≤ every reported count, which
      is the reported element's true count. -/
theorem C04_exact_reach_sketch (pos : String → List Nat) (rows cols k : Nat)
    (h : List (String × Nat)) (hpos : CMS.PosOK pos rows cols) (hpf : PrefixFree pos rows h)
    (heap : List HElem) (hr : Reach k (sketchEvents pos (CMS.new rows cols) h) heap) :
    (heap.map (·.1)).Nodup ∧
    heap.length = min k (distinct (h.map (·.1))).length ∧
    (∀ p ∈ heap, p.1 ∈ h.map (·.1) ∧ p.2 = CMS.trueCount h p.1) ∧
    (∀ y ∈ h.map (·.1), (∀ p ∈ heap, p.1 ≠ y) →
      ∀ p ∈ heap, CMS.trueCount h y ≤ p.2 ∧ CMS.trueCount h y ≤ CMS.trueCount h p.1) := by
  have hx := C04_exact_of_prefixFree (cols := cols) hpos hpf
  have he := C04_exact_estOK _ hx
  obtain ⟨hcnt, hlight⟩ := C04_exact_without_collisions hr he hx
  refine ⟨C04_nodup hr, ?_, ?_, ?_⟩
  · have := C04_size hr he
    unfold numDistinct at this
    rwa [sketchEvents_map_x] at this
  · intro p hp
    have hm := reach_mem_history hr he p hp
    rw [sketchEvents_map_x] at hm
    have := hcnt p hp
    rw [sketchEvents_trueTotal] at this
    exact ⟨hm, this⟩
  · intro y hy hno p hp
    have hy' : ∃ e ∈ sketchEvents pos (CMS.new rows cols) h, e.x = y := by
      rw [← sketchEvents_map_x pos (CMS.new rows cols) h] at hy
      obtain ⟨e, he, hx⟩ := List.mem_map.1 hy
      exact ⟨e, he, hx⟩
    have h1 := hlight y hy' hno p hp
    have h2 := hcnt p hp
    rw [sketchEvents_trueTotal, sketchEvents_trueTotal] at h1
    rw [sketchEvents_trueTotal] at h2
    exact ⟨by rw [h2]; exact h1, h1⟩

/-! ### end to end, in-memory variant -/

/-- order-aware hypothesis, any `k` in the model (see the header for `k = 0`) -/
theorem C04_end_to_end_exact_mem_of_prefixFree (pos : String → List Nat) (rows cols k : Nat)
    (h : List (String × Nat)) (hpos : CMS.PosOK pos rows cols) (hpf : PrefixFree pos rows h) :
    let t := h.foldl (fun t o => t.insert o.1 (pos o.1) o.2) (⟨k, CMS.new rows cols, #[]⟩ : TopK)
    (t.heap.toList.map (·.1)).Nodup ∧
    t.heap.size = min k (distinct (h.map (·.1))).length ∧
    (∀ p ∈ t.heap.toList, p.1 ∈ h.map (·.1) ∧ p.2 = CMS.trueCount h p.1) ∧
    (∀ y ∈ h.map (·.1), (∀ p ∈ t.heap.toList, p.1 ≠ y) →
      ∀ p ∈ t.heap.toList,
        CMS.trueCount h y ≤ p.2 ∧ CMS.trueCount h y ≤ CMS.trueCount h p.1) ∧
    HeapInv t.heap := by
  intro t
  obtain ⟨hr, hinv, _⟩ := C04_insert_run pos ⟨k, CMS.new rows cols, #[]⟩ rfl h
  change Reach k (sketchEvents pos (CMS.new rows cols) h) t.heap.toList at hr
  obtain ⟨h1, h2, h3, h4⟩ := C04_exact_reach_sketch pos rows cols k h hpos hpf _ hr
  exact ⟨h1, by simpa using h2, h3, h4, hinv⟩

/-- **Top-K is exact without collisions, in-memory variant.**  Run `TopK.insert` over ANY
    insertion history `h` from the fresh state `⟨k, CMS.new rows cols, #[]⟩`, `k ≥ 1`, with a
    well-formed position function under which every inserted element has a row of its own
    (`NoCollision`).  In the final heap:
    * no element is reported twice, and exactly `min k (number of distinct inserted elements)`
      entries are reported;
    * every reported `(x, f)` has `x` inserted and `f = trueCount h x`  (EQUALITY);
    * every inserted element `y` that is not reported has `trueCount h y ≤ f` for every reported
      count `f` (so ≤ the smallest reported count), i.e. `trueCount h y ≤ trueCount h x` for
      every reported `x`: the reported set is an exact top `k`, up to ties at the boundary;
    * the array is heap-ordered.
    `_hk` is not used by the proof: it restricts the statement to the range in which the model is
    the code (`C04_k_zero_model_differs`). -/
theorem C04_end_to_end_exact_mem (pos : String → List Nat) (rows cols k : Nat)
    (h : List (String × Nat)) (_hk : 1 ≤ k) (hpos : CMS.PosOK pos rows cols)
    (hnc : NoCollision pos rows h) :
    let t := h.foldl (fun t o => t.insert o.1 (pos o.1) o.2) (⟨k, CMS.new rows cols, #[]⟩ : TopK)
    (t.heap.toList.map (·.1)).Nodup ∧
    t.heap.size = min k (distinct (h.map (·.1))).length ∧
    (∀ p ∈ t.heap.toList, p.1 ∈ h.map (·.1) ∧ p.2 = CMS.trueCount h p.1) ∧
    (∀ y ∈ h.map (·.1), (∀ p ∈ t.heap.toList, p.1 ≠ y) →
      ∀ p ∈ t.heap.toList,
        CMS.trueCount h y ≤ p.2 ∧ CMS.trueCount h y ≤ CMS.trueCount h p.1) ∧
    HeapInv t.heap :=
  C04_end_to_end_exact_mem_of_prefixFree pos rows cols k h hpos (C04_noCollision_prefixFree hnc)

/-- `Values()` of the final state: the same entries in the order count descending, element
    ascending (strict); every listed count is the element's true count, so the list is sorted by
    TRUE count. -/
theorem C04_end_to_end_exact_mem_values (pos : String → List Nat) (rows cols k : Nat)
    (h : List (String × Nat)) (hk : 1 ≤ k) (hpos : CMS.PosOK pos rows cols)
    (hnc : NoCollision pos rows h) :
    let t := h.foldl (fun t o => t.insert o.1 (pos o.1) o.2) (⟨k, CMS.new rows cols, #[]⟩ : TopK)
    (values t.heap.toList).Perm t.heap.toList ∧
    (values t.heap.toList).length = min k (distinct (h.map (·.1))).length ∧
    (∀ p ∈ values t.heap.toList, p.1 ∈ h.map (·.1) ∧ p.2 = CMS.trueCount h p.1) ∧
    List.Pairwise (fun a b => CMS.trueCount h a.1 > CMS.trueCount h b.1 ∨
        (CMS.trueCount h a.1 = CMS.trueCount h b.1 ∧ a.1 < b.1)) (values t.heap.toList) := by
  intro t
  obtain ⟨h1, h2, h3, _, _⟩ := C04_end_to_end_exact_mem pos rows cols k h hk hpos hnc
  have hp := values_perm t.heap.toList
  have h3' : ∀ p ∈ values t.heap.toList, p.1 ∈ h.map (·.1) ∧ p.2 = CMS.trueCount h p.1 :=
    fun p hm => h3 p (hp.mem_iff.1 hm)
  refine ⟨hp, ?_, h3', ?_⟩
  · rw [hp.length_eq]; simpa using h2
  · refine List.Pairwise.imp_of_mem ?_ (C04_values_sorted_strict _ h1)
    intro a b ha hb hab
    rw [← (h3' a ha).2, ← (h3' b hb).2]
    exact hab

/-! ### end to end, Redis variant -/

/-- order-aware hypothesis -/
theorem C04_end_to_end_exact_redis_of_prefixFree (pos : String → List Nat) (rows cols k : Nat)
    (h : List (String × Nat)) (hpos : CMS.PosOK pos rows cols) (hpf : PrefixFree pos rows h) :
    let st := h.foldl (fun st o => insertRedis k st o.1 (pos o.1) o.2) (CMS.new rows cols, [])
    (st.2.map (·.1)).Nodup ∧
    st.2.length = min k (distinct (h.map (·.1))).length ∧
    (∀ p ∈ st.2, p.1 ∈ h.map (·.1) ∧ p.2 = CMS.trueCount h p.1) ∧
    (∀ y ∈ h.map (·.1), (∀ p ∈ st.2, p.1 ≠ y) →
      ∀ p ∈ st.2, CMS.trueCount h y ≤ p.2 ∧ CMS.trueCount h y ≤ CMS.trueCount h p.1) ∧
    st.2.Pairwise (fun a b => zLt a b = true) := by
  intro st
  have hz : st.2 = (sketchEvents pos (CMS.new rows cols) h).foldl
      (fun z e => offerRedis k z e.x e.f) [] :=
    runInsertsRedis_zset pos k (CMS.new rows cols, []) h
  obtain ⟨hr, hsorted, _⟩ := C04_redis_reach k (sketchEvents pos (CMS.new rows cols) h)
  rw [← hz] at hr hsorted
  obtain ⟨h1, h2, h3, h4⟩ := C04_exact_reach_sketch pos rows cols k h hpos hpf _ hr
  exact ⟨h1, h2, h3, h4, hsorted⟩

/-- **Top-K is exact without collisions, Redis variant**: the same run with the sorted set in
    place of the heap; same conclusions, and the list is sorted by (score, member).  No
    hypothesis on `k`: at `k = 0` top_k_redis.go does not panic and keeps the set empty, as the
    model does. -/
theorem C04_end_to_end_exact_redis (pos : String → List Nat) (rows cols k : Nat)
    (h : List (String × Nat)) (hpos : CMS.PosOK pos rows cols) (hnc : NoCollision pos rows h) :
    let st := h.foldl (fun st o => insertRedis k st o.1 (pos o.1) o.2) (CMS.new rows cols, [])
    (st.2.map (·.1)).Nodup ∧
    st.2.length = min k (distinct (h.map (·.1))).length ∧
    (∀ p ∈ st.2, p.1 ∈ h.map (·.1) ∧ p.2 = CMS.trueCount h p.1) ∧
    (∀ y ∈ h.map (·.1), (∀ p ∈ st.2, p.1 ≠ y) →
      ∀ p ∈ st.2, CMS.trueCount h y ≤ p.2 ∧ CMS.trueCount h y ≤ CMS.trueCount h p.1) ∧
    st.2.Pairwise (fun a b => zLt a b = true) :=
  C04_end_to_end_exact_redis_of_prefixFree pos rows cols k h hpos (C04_noCollision_prefixFree hnc)

/-! ### the hypotheses are needed -/

/-- `NoCollision` cannot be dropped: with the well-formed positions `exPosS` of C04E2E ("a" and
    "dddd" collide in both rows) the events are not exact, and the final sorted set reports
    "dddd" with 3 although it was inserted once. -/
theorem C04_exact_needs_noCollision :
    ¬ NoCollision exPosS 2 exOps ∧ ¬ PrefixFree exPosS 2 exOps ∧
    ¬ Exact (sketchEvents exPosS (CMS.new 2 3) exOps) ∧
    ¬ (∀ p ∈ (exOps.foldl (fun st o => insertRedis 2 st o.1 (exPosS o.1) o.2)
          (CMS.new 2 3, [])).2, p.2 = CMS.trueCount exOps p.1) := by
  decide

/-- `PosOK` cannot be dropped: position lists of the wrong length (here: empty, for one row)
    never touch the matrix; `NoCollision` holds, the estimate is 0, the true count is 1. -/
theorem C04_exact_needs_posOK :
    NoCollision (fun _ => []) 1 [("a", 1)] ∧
    ¬ Exact (sketchEvents (fun _ => []) (CMS.new 1 1) [("a", 1)]) := by
  decide

/-- positions for `C04_noCollision_not_necessary`: 2 rows, 2 columns; "x" shares row 0 with "p"
    and row 1 with "q" -/
def exPosN (s : String) : List Nat :=
  if s = "x" then [0, 0] else if s = "p" then [0, 1] else if s = "q" then [1, 0] else [1, 1]

/-- `NoCollision` is sufficient, not necessary: "x" has no row of its own, but "p" arrives only
    after the last insert of "x", so every estimate is exact (`PrefixFree` holds). -/
theorem C04_noCollision_not_necessary :
    ¬ NoCollision exPosN 2 [("q", 1), ("x", 1), ("p", 1)] ∧
    PrefixFree exPosN 2 [("q", 1), ("x", 1), ("p", 1)] ∧
    Exact (sketchEvents exPosN (CMS.new 2 2) [("q", 1), ("x", 1), ("p", 1)]) := by
  decide

/-! ### `k = 0`: the model is not the code -/

/-- **At `k = 0` the in-memory model differs from top_k.go.**  On the empty heap with `k = 0` the
    Go guard `uint(len(t.heap)) < t.k || frequency >= t.heap[0].frequency` must evaluate
    `t.heap[0]` on an empty slice: a runtime PANIC.  In the model:
    1. the first disjunct is false and the second, read through `getD 0 ("", 0)`, is true;
    2. `offer` then pushes and pops: the result is the empty heap, no failure;
    3. so a whole `TopK.insert` at `k = 0` returns normally with an empty heap.
    4. The Redis variant (`len(minElement) > 0 && …`) neither enters the branch nor fails – there
       model and code agree. -/
theorem C04_k_zero_model_differs :
    (¬ (#[] : Array HElem).size < 0 ∧ 1 ≥ ((#[] : Array HElem).getD 0 ("", 0)).2) ∧
    offer 0 #[] "a" 1 = #[] ∧
    (TopK.insert ⟨0, CMS.new 1 1, #[]⟩ "a" [0] 1).heap = #[] ∧
    offerRedis 0 [] "a" 1 = [] := by
  rw [TopK.insert, offer_eq_offerL]
  decide

/-- … for every element and estimate, and for a whole run: at `k = 0` the model's heap is empty
    after ANY history (where the code has panicked at the first `Insert`). -/
theorem C04_k_zero_offer (x : String) (f : Nat) :
    offer 0 #[] x f = #[] ∧ offerRedis 0 [] x f = [] :=
  ⟨offer_zero_empty x f, offerRedis_zero_empty x f⟩

theorem C04_k_zero_run (pos : String → List Nat) (s : CMS) (h : List (String × Nat)) :
    (h.foldl (fun t o => t.insert o.1 (pos o.1) o.2) (⟨0, s, #[]⟩ : TopK)).heap = #[] := by
  have := runInserts_heap pos ⟨0, s, #[]⟩ h
  unfold runInserts at this
  rw [this]
  generalize sketchEvents pos s h = evs
  induction evs with
  | nil => rfl
  | cons e evs ih => simp only [List.foldl_cons, offer_zero_empty]; exact ih

/-! ### non-vacuity -/

/-- 2 rows, 3 columns; "a" and "bb" collide in row 0, "ccc" and "dddd" collide in row 1; every
    element has a row of its own -/
def exPosX (s : String) : List Nat :=
  if s = "a" then [1, 2] else if s = "bb" then [1, 0] else if s = "ccc" then [0, 1]
  else if s = "dddd" then [2, 1] else [0, 0]

theorem exPosX_ok : CMS.PosOK exPosX 2 3 := by
  intro e
  unfold exPosX
  repeat' split
  all_goals exact ⟨rfl, by decide⟩

/-- k = 2; six inserts of four distinct elements; "a", "bb", "dddd" all end with a true count of
    3 (a three-way tie at the boundary), "ccc" with 1 -/
def exOpsX : List (String × Nat) :=
  [("a", 2), ("bb", 1), ("ccc", 1), ("dddd", 3), ("bb", 2), ("a", 1)]

theorem exOpsX_noCollision : NoCollision exPosX 2 exOpsX := by decide

/-- the collisions are real: the cell of "a" in row 0 holds 6 = 3 ("a") + 3 ("bb") at the end -/
example : ((CMS.run exPosX (CMS.new 2 3) exOpsX).m.getD 0 []).getD 1 0 = 6 ∧
    (CMS.run exPosX (CMS.new 2 3) exOpsX).count (exPosX "a") = 3 := by decide

example : Exact (sketchEvents exPosX (CMS.new 2 3) exOpsX) :=
  C04_exact_of_noCollision exPosX_ok exOpsX_noCollision

example : CMS.trueCount exOpsX "a" = 3 ∧ CMS.trueCount exOpsX "bb" = 3 ∧
    CMS.trueCount exOpsX "ccc" = 1 ∧ CMS.trueCount exOpsX "dddd" = 3 ∧
    (distinct (exOpsX.map (·.1))).length = 4 := by decide

/-- the final heap of the in-memory run: two of the three elements with true count 3 -/
example :
    (exOpsX.foldl (fun t o => t.insert o.1 (exPosX o.1) o.2) (⟨2, CMS.new 2 3, #[]⟩ : TopK)).heap
      = #[("a", 3), ("dddd", 3)] := by
  have := runInserts_heap exPosX ⟨2, CMS.new 2 3, #[]⟩ exOpsX
  unfold runInserts at this
  rw [this, offer_eq_offerL]
  decide

/-- the sorted set resolves the tie differently ("a" is popped, "bb" stays) – both are exact
    top-2 sets -/
example :
    (exOpsX.foldl (fun st o => insertRedis 2 st o.1 (exPosX o.1) o.2) (CMS.new 2 3, [])).2
      = [("bb", 3), ("dddd", 3)] := by decide

/-- the theorems apply to the example (hypotheses are satisfiable) -/
example :=
  C04_end_to_end_exact_mem exPosX 2 3 2 exOpsX (by decide) exPosX_ok exOpsX_noCollision

example :=
  C04_end_to_end_exact_redis exPosX 2 3 2 exOpsX exPosX_ok exOpsX_noCollision

example :=
  C04_end_to_end_exact_mem_values exPosX 2 3 2 exOpsX (by decide) exPosX_ok exOpsX_noCollision

/-- the unreported "ccc" (true count 1) is below every reported true count -/
example : ∀ p ∈ (exOpsX.foldl (fun st o => insertRedis 2 st o.1 (exPosX o.1) o.2)
      (CMS.new 2 3, [])).2, CMS.trueCount exOpsX "ccc" ≤ CMS.trueCount exOpsX p.1 := fun p hp =>
  ((C04_end_to_end_exact_redis exPosX 2 3 2 exOpsX exPosX_ok exOpsX_noCollision).2.2.2.1
    "ccc" (by decide) (by decide) p hp).2

end Gostatix.TopK
