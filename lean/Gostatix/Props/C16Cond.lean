/-
  C16Cond — property C16 ("concurrent updates through Redis are not lost") for the two structures
  where it FAILS in general (finding D21: `CuckooFilterRedis.Insert`, `TopKRedis.Insert`, see
  `C16_cuckoo_counterexample`, `C16_topk_counterexample` in Props/C16.lean): the conditions under
  which it holds, and where exactly it stops holding.

  GRANULARITY AND ASSUMPTIONS (as in Props/C16.lean): one Redis command / one Lua script is one
  atomic step on the shared store; a client call is the list of steps it issues; an execution is
  an `Interleaving` of the clients' lists.  The programs are the transcriptions of Props/C16.lean:
    * cuckoo: `C16CuckooN` (Proofs/C16Cond.lean) is `C16Cuckoo` with a natural number instead of a
      Boolean as client name, hence ANY number of clients; `C16_cuckoo_model_contains_two_client`
      shows that the two-client model is its restriction to the clients 0 and 1.  As there, the
      eviction loop is not modelled: a client that finds both candidates full sets `evicting`;
    * Top-K: the writer is client `false` of `C16TopK` (ZCARD, ZRANGE 0 0, ZSCORE, ZREM, ZADD,
      ZCARD, ZPOPMIN; the estimate `f` is a parameter, the sketch part is `C16_cms`); a reader's
      `Values()` is ONE command `ZRANGE heap 0 -1 WITHSCORES` whose reply is recorded (`C16TopKR`).

  PART 1 — CUCKOO
    * `C16_cuckoo_disjoint_buckets` (PROVED): any number of clients, one `Insert` each; the candidate
      bucket pairs of different clients are disjoint (`Disjoint`) and every client has a candidate
      with room in the initial store.  Then for EVERY interleaving: the final state (store and all
      locals) IS the state of running the clients one after another; that state is the one the
      sequential model `Cuckoo.insert` computes (`modelRun`: every insert answers `.ok`); every
      client has acknowledged and none entered the eviction loop; `length` = initial `length` +
      number of inserts; every inserted non-empty fingerprint is found; the number of stored
      fingerprints grew by the number of inserts.  Proof: commands of different clients that address
      different buckets commute in every state (`step_comm`), and independent threads can be
      serialised (`exec_interleaving_of_indep`).
    * the weaker variant "same bucket allowed, but room for all" — the answer is split:
        - AS STATED ("ends in the state of THE sequential application") it is FALSE:
          `C16_cuckoo_shared_bucket_order` (schedule by `decide`): two clients, one bucket with two
          free slots; an interleaving ends with the list `[7, 9]`, running client 0 then client 1
          ends with `[9, 7]` (LPUSH order).  The final state is that of the OTHER sequential order.
        - what does hold is PROVED: `C16_cuckoo_room_for_all`.  If every targeted bucket has
          `len + #clients targeting it ≤ size` (`RoomForAll`; "targeting" = the bucket the client
          adds to when it runs alone: its first candidate if that has room in the initial store,
          else its second; so in particular every client has a candidate with room), then
          after EVERY interleaving every client has acknowledged, none evicts, `length` grew by the
          number of inserts, every non-empty fingerprint is found in its target bucket, the number of
          stored fingerprints grew by the number of inserts (so `length = stored` is preserved):
          the postcondition `post` of `C16_cuckoo_counterexample`.  Proof: an invariant of every
          interleaving (`Inv`, `inv_step`, `inv_interleaving` in Proofs/C16Cond.lean).
        - `C16_cuckoo_room_needed`: with room for one and two clients (`RoomForAll` fails by one)
          the conclusion fails — this is D21 again, in the N-client model.
  PART 2 — TOP-K
    * `C16_topk_single_writer` (PROVED): one writer doing any list of inserts, any number of readers
      doing any number of `Values()`.  For every interleaving the store ends as after the writer
      alone, i.e. the fold of `TopK.offerRedis`; and every reply a reader got is in
      `observable k z₀ ins`: the sorted set after 0, 1, …, 7 commands of some insert (`zAfter`), i.e.
      for an insert of `(x, f)` into `z` that passes the guard one of
          z   |   z without x (between ZREM and ZADD, if x had a positive score)   |
          zadd z x f (between ZADD and ZPOPMIN: possibly k + 1 entries)   |   offerRedis k z x f.
      `exec_take` (Proofs/C16Cond.lean) is an EQUALITY, so each of these sets is what a reader
      scheduled at that point gets.  `C16_topk_reader_bound`: never more than `k + 1` entries.
    * "every reader sees a heap that some prefix of the writer's INSERTS produced" is FALSE:
      `C16_topk_reader_sees_k_plus_one` and `C16_topk_reader_misses_tracked_member` (schedules by
      `decide`): a reader can see `k + 1` entries, and it can see the set WITHOUT a member that is
      tracked before and after the insert (the ZREM/ZADD window, not mentioned in the task).
    * two writers refreshing members that are both already tracked:
        - `C16_topk_two_refreshers` (PROVED): two DIFFERENT members, both in the canonical sorted
          set, at most `k` entries, each new estimate ≥ the member's current score (a Count-Min
          estimate never decreases).  Every interleaving ends in `zadd (zadd z₀ x f) y g`, which is
          also where both sequential orders end.  No ZPOPMIN ever runs.
        - without `estimate ≥ current score` it is FALSE: `C16_topk_refresh_needs_monotone`
          (a writer that would be rejected sequentially slips through while the other member is
          removed: ZCARD sees `k - 1`), and for the SAME member it is FALSE:
          `C16_topk_refresh_same_member` (the lower estimate overwrites the higher one; both
          sequential orders keep the higher).  Both by `decide`.

  NOT PROVED / NOT MODELLED: the eviction loop under concurrency; removals concurrent with inserts;
  more than two Top-K writers; that the command lists are what the Go code issues (transcription,
  as in Props/C16.lean); atomicity of single commands and scripts (assumption).
-/
import Gostatix.Proofs.C16Cond
namespace Gostatix
open Conc

/-! ## Part 1 — cuckoo -/
section cuckoo
open C16CuckooN

/-- the two-client model of Props/C16.lean is the restriction of the N-client model to clients 0
    and 1: running the translated schedule and forgetting the other clients gives the same state -/
theorem C16_cuckoo_model_contains_two_client (s : St) (w : List C16Cuckoo.Cmd) :
    toTwo (exec step s (w.map ofCmd)) = exec C16Cuckoo.step (toTwo s) w :=
  toTwo_exec s w

theorem hasRoom_of_forall {s0 : St} {reqs : List Req}
    (hf : ∀ r ∈ reqs, (s0.bucket r.2.1).isFree = true ∨ (s0.bucket r.2.2).isFree = true) :
    HasRoom s0 reqs := by
  intro j hj
  apply hf
  simp [req, List.getD_eq_getElem?_getD, List.getElem?_eq_getElem hj]

theorem mem_reqs_iff_req {reqs : List Req} {r : Req} (h : r ∈ reqs) :
    ∃ j, j < reqs.length ∧ req reqs j = r := by
  obtain ⟨j, hj, e⟩ := List.mem_iff_getElem.1 h
  exact ⟨j, hj, by simp [req, List.getD_eq_getElem?_getD, List.getElem?_eq_getElem hj, e]⟩

/-- **shared buckets with room for everybody.**  Any number of clients, one `Insert` each, fresh
    locals; every targeted bucket has room for all the clients that target it (`RoomForAll`:
    `len + #{clients whose first candidate with room it is} ≤ size`).  Then after EVERY command-granularity
    interleaving: every insert is acknowledged and none entered the eviction loop, `length` grew by
    the number of inserts, every non-empty fingerprint is found, and the number of stored
    fingerprints grew by the number of inserts. -/
theorem C16_cuckoo_room_for_all (s0 : St) (reqs : List Req) (w : List Cmd)
    (hloc : ∀ c, c < reqs.length → s0.loc c = {})
    (hroom : RoomForAll s0 reqs)
    (hi : Interleaving (progs reqs) w) :
    (∀ c, c < reqs.length →
      ((exec step s0 w).loc c).acked = true ∧ ((exec step s0 w).loc c).evicting = false) ∧
    (exec step s0 w).length = s0.length + reqs.length ∧
    (∀ r ∈ reqs, r.1 ≠ 0 → found (exec step s0 w) r = true) ∧
    ((∀ r ∈ reqs, r.1 ≠ 0) → stored (exec step s0 w) = stored s0 + reqs.length) := by
  obtain ⟨pc, hpc, hI⟩ := inv_interleaving hroom (progs reqs) w hi (fun _ => 0) s0
    (rem_zero 0 reqs).symm (inv_init s0 reqs hloc)
  refine ⟨?_, ?_, ?_, ?_⟩
  · intro c hc
    rw [hI.locs c hc]
    exact locAt_done _ _ (hpc c hc)
  · rw [hI.length, cnt_all _ _ (fun j hj => by simpa using hpc j hj)]
  · intro r hr' hne
    obtain ⟨j, hj, rfl⟩ := mem_reqs_iff_req hr'
    have hm := hI.found j hj (addedAt_done _ _ (hpc j hj)) hne
    have hl : ((exec step s0 w).bucket (tj s0 reqs j)).lookup (req reqs j).1 = true := by
      simpa [BucketRedis.lookup] using hm
    unfold found
    rcases tj_mem (s0 := s0) (reqs := reqs) j with e | e
    · rw [e] at hl; rw [hl]; rfl
    · rw [e] at hl; rw [hl, Bool.or_true]
  · intro hne
    rw [hI.stored (fun j hj => hne _ (by
      simp only [req, List.getD_eq_getElem?_getD, List.getElem?_eq_getElem hj, Option.getD_some]
      exact List.getElem_mem hj)),
      cnt_all _ _ (fun j hj => addedAt_done _ _ (hpc j hj))]

/-- corollary: the postcondition of `C16_cuckoo_counterexample` — `length` counts the stored
    fingerprints — is preserved by every interleaving -/
theorem C16_cuckoo_room_for_all_length_is_stored (s0 : St) (reqs : List Req) (w : List Cmd)
    (hloc : ∀ c, c < reqs.length → s0.loc c = {})
    (hroom : RoomForAll s0 reqs) (hne : ∀ r ∈ reqs, r.1 ≠ 0)
    (h0 : s0.length = stored s0) (hi : Interleaving (progs reqs) w) :
    (exec step s0 w).length = stored (exec step s0 w) := by
  obtain ⟨_, h1, _, h2⟩ := C16_cuckoo_room_for_all s0 reqs w hloc hroom hi
  rw [h1, h2 hne, h0]

/-- **disjoint candidate buckets.**  Any number of clients, one `Insert` each, fresh locals; no
    bucket is a candidate of two different clients, and every client has a candidate bucket with
    room in the initial store (so no eviction loop runs).  Then EVERY command-granularity
    interleaving
      (1) ends in the state (store AND locals) of running the clients one after another,
      (2) which is the state the sequential model `Cuckoo.insert` computes — every insert `.ok`,
      (3) every client has acknowledged, none entered the eviction loop,
      (4) `length` = initial `length` + number of inserts,
      (5) every non-empty fingerprint is found, and the stored fingerprints grew by the number of
          inserts.
    `alt`, `d`, `side`, `slots` and the configuration of `cm` are irrelevant (no walk runs). -/
theorem C16_cuckoo_disjoint_buckets (s0 : St) (reqs : List Req) (w : List Cmd)
    (alt : Nat → C16Cuckoo.Fp → Nat) (d side : Bool) (slots : List Nat)
    (cm : Cuckoo (BucketRedis C16Cuckoo.Fp))
    (hcb : cm.buckets = s0.buckets) (hcl : cm.length = s0.length)
    (hloc : ∀ c, s0.loc c = {})
    (hd : Disjoint reqs)
    (hf : ∀ r ∈ reqs, (s0.bucket r.2.1).isFree = true ∨ (s0.bucket r.2.2).isFree = true)
    (hi : Interleaving (progs reqs) w) :
    exec step s0 w = exec step s0 (progs reqs).flatten ∧
    (∃ cm', modelRun alt d side slots cm reqs = some cm' ∧
      (exec step s0 w).buckets = cm'.buckets ∧ (exec step s0 w).length = cm'.length) ∧
    (∀ c, c < reqs.length →
      ((exec step s0 w).loc c).acked = true ∧ ((exec step s0 w).loc c).evicting = false) ∧
    (exec step s0 w).length = s0.length + reqs.length ∧
    (∀ r ∈ reqs, r.1 ≠ 0 → found (exec step s0 w) r = true) ∧
    ((∀ r ∈ reqs, r.1 ≠ 0) → stored (exec step s0 w) = stored s0 + reqs.length) := by
  have hseq : exec step s0 w = exec step s0 (progs reqs).flatten :=
    exec_interleaving_of_indep step hi (progs_indep reqs hd) s0
  obtain ⟨cm', m1, m2, m3, _, _, _, _⟩ :=
    seq_run alt d side slots reqs 0 s0 cm hcb hcl (fun e _ => hloc e) hd hf
  have hr := hasRoom_of_forall hf
  obtain ⟨a, b, c, e⟩ := C16_cuckoo_room_for_all s0 reqs w (fun c _ => hloc c)
    (roomForAll_of_disjoint hd hr) hi
  refine ⟨hseq, ⟨cm', m1, ?_, ?_⟩, a, b, c, e⟩
  · rw [hseq]; exact m2
  · rw [hseq]; exact m3

/-! ### the weaker variant as stated is false; the hypothesis of the positive part is sharp -/

/-- two buckets of size 2, both empty; client 0 inserts fingerprint 7, client 1 fingerprint 9, both
    with candidates 0 and 1: bucket 0 is shared and has room for both -/
def sShared : St := { buckets := [BucketRedis.new 2, BucketRedis.new 2], length := 0 }
def rShared : List Req := [(7, 0, 1), (9, 0, 1)]
/-- both run `isFree(0)`, then client 1's `add` runs before client 0's -/
def wShared : List Cmd :=
  [.isFree1 0 0, .isFree1 1 0, .add1 1 0 9, .add1 0 0 7, .isFree2 0 1, .add2 0 1 7, .finish 0,
   .isFree2 1 1, .add2 1 1 9, .finish 1]

theorem wShared_interleaving : Interleaving (progs rShared) wShared :=
  Interleaving.of_pick (is := [0, 1, 1, 0, 0, 0, 0, 1, 1, 1]) (by decide)

/-- **"same bucket, room for all" does NOT give the state of THE sequential application**: the
    interleaving `wShared` ends with bucket 0 = `[7, 9]`, running client 0 then client 1 ends with
    `[9, 7]` (`LPUSH` prepends).  It ends where the other sequential order ends — the two
    sequential orders already disagree — and everything `C16_cuckoo_room_for_all` promises holds. -/
theorem C16_cuckoo_shared_bucket_order :
    (exec step sShared wShared).buckets = [⟨2, [7, 9], 2⟩, ⟨2, [], 0⟩] ∧
    (exec step sShared (progs rShared).flatten).buckets = [⟨2, [9, 7], 2⟩, ⟨2, [], 0⟩] ∧
    (exec step sShared (insertProg 1 (9, 0, 1) ++ insertProg 0 (7, 0, 1))).buckets
      = [⟨2, [7, 9], 2⟩, ⟨2, [], 0⟩] ∧
    (let s := exec step sShared wShared
     (s.loc 0).acked = true ∧ (s.loc 1).acked = true ∧ s.length = 2 ∧ stored s = 2 ∧
     found s (7, 0, 1) = true ∧ found s (9, 0, 1) = true) := by decide

theorem sShared_hasRoom : HasRoom sShared rShared := by
  intro j hj
  have : j = 0 ∨ j = 1 := by simp [rShared] at hj; omega
  rcases this with rfl | rfl <;> decide

theorem sShared_roomForAll : RoomForAll sShared rShared := by
  intro i hi
  have : i = 0 ∨ i = 1 := by simp [rShared] at hi; omega
  rcases this with rfl | rfl <;> decide

/-- the positive theorem applied to that schedule -/
example : (exec step sShared wShared).length = sShared.length + 2 :=
  (C16_cuckoo_room_for_all sShared rShared wShared (fun _ _ => rfl)
    sShared_roomForAll wShared_interleaving).2.1

/-- the same two clients on buckets of size ONE (room for one, two clients target bucket 0) -/
def sTight : St := { buckets := [BucketRedis.new 1, BucketRedis.new 1], length := 0 }

/-- **`RoomForAll` is sharp**: with room for one and two clients targeting the bucket the same
    schedule acknowledges both inserts, sets `length = 2`, stores ONE fingerprint and cannot find
    the other (finding D21 in the N-client model); `RoomForAll` fails by exactly one. -/
theorem C16_cuckoo_room_needed :
    Interleaving (progs rShared) wShared ∧ HasRoom sTight rShared ∧ ¬ RoomForAll sTight rShared ∧
    (let s := exec step sTight wShared
     (s.loc 0).acked = true ∧ (s.loc 1).acked = true ∧ s.length = 2 ∧ stored s = 1 ∧
     found s (7, 0, 1) = false ∧ found s (9, 0, 1) = true) := by
  refine ⟨wShared_interleaving, ?_, ?_, by decide⟩
  · intro j hj
    have : j = 0 ∨ j = 1 := by simp [rShared] at hj; omega
    rcases this with rfl | rfl <;> decide
  · intro h
    have := h 0 (by decide)
    revert this
    decide

/-! ### non-vacuity: three clients on six buckets, disjoint candidate pairs -/

/-- six buckets of size 2; 0 is full, 1 has a hole, 2 and 3 have room, 4 is full, 5 has room -/
def sSix : St :=
  { buckets := [⟨2, [3, 4], 2⟩, ⟨2, [0, 5], 1⟩, ⟨2, [6], 1⟩, ⟨2, [], 0⟩, ⟨2, [8, 1], 2⟩, ⟨2, [2], 1⟩],
    length := 7 }
/-- client 0: first candidate full, second has a hole; client 1: first candidate has room;
    client 2: first candidate full, second has room -/
def rSix : List Req := [(11, 0, 1), (12, 2, 3), (13, 4, 5)]

theorem rSix_disjoint : Disjoint rSix := by
  intro i j r r' hne hi hj
  have hi' : i < 3 := by
    rcases Nat.lt_or_ge i 3 with h | h
    · exact h
    · rw [List.getElem?_eq_none (by simpa [rSix] using h)] at hi; cases hi
  have hj' : j < 3 := by
    rcases Nat.lt_or_ge j 3 with h | h
    · exact h
    · rw [List.getElem?_eq_none (by simpa [rSix] using h)] at hj; cases hj
  have : (i = 0 ∨ i = 1 ∨ i = 2) ∧ (j = 0 ∨ j = 1 ∨ j = 2) := by omega
  rcases this with ⟨rfl | rfl | rfl, rfl | rfl | rfl⟩ <;>
    simp [rSix] at hi hj hne ⊢ <;> subst hi <;> subst hj <;> decide

theorem rSix_free : ∀ r ∈ rSix, (sSix.bucket r.2.1).isFree = true ∨ (sSix.bucket r.2.2).isFree = true := by
  intro r hr
  simp only [rSix, List.mem_cons, List.not_mem_nil, or_false] at hr
  rcases hr with rfl | rfl | rfl <;> decide

/-- a schedule in which the three clients are thoroughly mixed -/
def wSix : List Cmd :=
  [.isFree1 2 4, .isFree1 0 0, .isFree1 1 2, .add1 1 2 12, .add1 0 0 11, .add1 2 4 13,
   .isFree2 0 1, .isFree2 2 5, .add2 2 5 13, .isFree2 1 3, .add2 0 1 11, .finish 2,
   .add2 1 3 12, .finish 0, .finish 1]

theorem wSix_interleaving : Interleaving (progs rSix) wSix :=
  Interleaving.of_pick (is := [2, 0, 1, 1, 0, 2, 0, 2, 2, 1, 0, 2, 1, 0, 1]) (by decide)

/-- the theorem applied: the mixed schedule ends in the sequential state -/
example : exec step sSix wSix = exec step sSix (progs rSix).flatten :=
  (C16_cuckoo_disjoint_buckets sSix rSix wSix (fun i _ => i) false true []
    ⟨6, 2, 1, 3, sSix.buckets, sSix.length⟩ rfl rfl (fun _ => rfl) rSix_disjoint rSix_free
    wSix_interleaving).1

/-- and concretely: the hole of bucket 1 is filled, buckets 2 and 5 got an `LPUSH`, `length` 10 -/
example : (exec step sSix wSix).buckets
      = [⟨2, [3, 4], 2⟩, ⟨2, [11, 5], 2⟩, ⟨2, [12, 6], 2⟩, ⟨2, [], 0⟩, ⟨2, [8, 1], 2⟩, ⟨2, [13, 2], 2⟩] ∧
    (exec step sSix wSix).length = 10 ∧ stored (exec step sSix wSix) = 10 := by decide

/-- the sequential model on the same requests -/
example : modelRun (fun i _ => i) false true [] ⟨6, 2, 1, 3, sSix.buckets, sSix.length⟩ rSix
    = some ⟨6, 2, 1, 3, (exec step sSix wSix).buckets, 10⟩ := by decide

end cuckoo

/-! ## Part 2 — Top-K -/
section topk
open C16TopK (St Cmd step insertProg)
open C16TopKR

/-- **one writer, any number of readers.**  The writer runs the inserts `ins` (element, estimate),
    every other thread only issues `Values()` reads.  For EVERY interleaving:
      * the shared store and the writer's locals end exactly as when the writer runs alone, and the
        sorted set is the fold of the sequential model `TopK.offerRedis`;
      * every reply a reader received is in `observable k z₀ ins`: the sorted set after 0…7
        commands of one of the inserts (`zAfter`) — NOT necessarily a set that exists between two
        inserts. -/
theorem C16_topk_single_writer (k : Nat) (s0 : St) (ins : List HElem) (readers : List (List RCmd))
    (hr : ∀ t ∈ readers, ∀ a ∈ t, getW a = none) (w : List RCmd)
    (hi : Interleaving (writerProg ins :: readers) w) :
    (exec (rstep k) ⟨s0, []⟩ w).st = exec (step k) s0 (writerCmds ins) ∧
    (exec (rstep k) ⟨s0, []⟩ w).st.z = ins.foldl (fun z e => TopK.offerRedis k z e.1 e.2) s0.z ∧
    ∀ o ∈ (exec (rstep k) ⟨s0, []⟩ w).obs, o.2 ∈ observable k s0.z ins := by
  have hw : w.filterMap getW = writerCmds ins := by
    rw [interleaving_filterMap hi (by
      intro i hi' a ha
      obtain ⟨j, rfl⟩ : ∃ j, i = j + 1 := ⟨i - 1, by omega⟩
      simp only [List.getElem?_cons_succ] at ha
      cases hj : readers[j]? with
      | none => simp [hj] at ha
      | some t =>
        simp only [hj, Option.getD_some] at ha
        exact hr t (List.mem_iff_getElem?.2 ⟨j, hj⟩) a ha)]
    simp [filterMap_writerProg]
  obtain ⟨h1, new, h2, h3⟩ := exec_rstep k w ⟨s0, []⟩
  rw [hw] at h1 h3
  refine ⟨h1, by rw [h1]; exact writer_seq k ins s0, ?_⟩
  intro o ho
  rw [h2] at ho
  simp only [List.nil_append] at ho
  obtain ⟨p, q, hpq, hz⟩ := h3 o ho
  rw [hz]
  exact prefix_observable k ins s0 p q hpq

/-- a reader never sees more than `k + 1` entries (when the set starts with at most `k`) -/
theorem C16_topk_reader_bound (k : Nat) (s0 : St) (ins : List HElem) (readers : List (List RCmd))
    (hr : ∀ t ∈ readers, ∀ a ∈ t, getW a = none) (w : List RCmd)
    (hi : Interleaving (writerProg ins :: readers) w) (hk : s0.z.length ≤ k) :
    ∀ o ∈ (exec (rstep k) ⟨s0, []⟩ w).obs, o.2.length ≤ k + 1 := fun o ho =>
  observable_length k ins s0.z hk o.2 ((C16_topk_single_writer k s0 ins readers hr w hi).2.2 o ho)

/-- the sets that exist BETWEEN two inserts of the writer -/
def betweenInserts (k : Nat) (z : List HElem) (ins : List HElem) : List (List HElem) :=
  (List.range (ins.length + 1)).map fun j =>
    (ins.take j).foldl (fun z e => TopK.offerRedis k z e.1 e.2) z

/-- k = 2, set `[a:1, b:5]`, the writer inserts `c` with estimate 7; the reader's `ZRANGE` runs
    between the writer's ZADD and its second ZCARD -/
def wPlusOne : List RCmd :=
  (writerProg [("c", 7)]).take 5 ++ [.read 0] ++ (writerProg [("c", 7)]).drop 5

/-- **a reader can see `k + 1` entries**, a set that exists neither before nor after the insert -/
theorem C16_topk_reader_sees_k_plus_one :
    Interleaving [writerProg [("c", 7)], [.read 0]] wPlusOne ∧
    (exec (rstep 2) ⟨{ z := [("a", 1), ("b", 5)] }, []⟩ wPlusOne).obs
      = [(0, [("a", 1), ("b", 5), ("c", 7)])] ∧
    [("a", 1), ("b", 5), ("c", 7)] ∉ betweenInserts 2 [("a", 1), ("b", 5)] [("c", 7)] ∧
    (exec (rstep 2) ⟨{ z := [("a", 1), ("b", 5)] }, []⟩ wPlusOne).st.z = [("b", 5), ("c", 7)] :=
  ⟨Interleaving.of_pick (is := [0, 0, 0, 0, 0, 1, 0, 0]) (by decide), by decide, by decide, by decide⟩

/-- the writer refreshes the tracked member `b` (5 → 7); the reader's `ZRANGE` runs between the
    writer's ZREM and its ZADD -/
def wMissing : List RCmd :=
  (writerProg [("b", 7)]).take 4 ++ [.read 0] ++ (writerProg [("b", 7)]).drop 4

/-- **a reader can miss a member that is tracked before AND after the insert** -/
theorem C16_topk_reader_misses_tracked_member :
    Interleaving [writerProg [("b", 7)], [.read 0]] wMissing ∧
    (exec (rstep 2) ⟨{ z := [("a", 1), ("b", 5)] }, []⟩ wMissing).obs = [(0, [("a", 1)])] ∧
    [("a", 1)] ∉ betweenInserts 2 [("a", 1), ("b", 5)] [("b", 7)] ∧
    (exec (rstep 2) ⟨{ z := [("a", 1), ("b", 5)] }, []⟩ wMissing).st.z = [("a", 1), ("b", 7)] :=
  ⟨Interleaving.of_pick (is := [0, 0, 0, 0, 1, 0, 0, 0]) (by decide), by decide, by decide, by decide⟩

/-- both replies are in `observable`, as `C16_topk_single_writer` says -/
example : [("a", 1), ("b", 5), ("c", 7)] ∈ observable 2 [("a", 1), ("b", 5)] [("c", 7)] ∧
    [("a", 1)] ∈ observable 2 [("a", 1), ("b", 5)] [("b", 7)] := by decide

/-- non-vacuity of `C16_topk_single_writer`: two inserts, two readers with three reads -/
def wTwoReaders : List RCmd :=
  (writerProg [("b", 7), ("c", 9)]).take 4 ++ [.read 0, .read 1] ++
    ((writerProg [("b", 7), ("c", 9)]).drop 4).take 8 ++ [.read 0] ++
    (writerProg [("b", 7), ("c", 9)]).drop 12

theorem wTwoReaders_interleaving :
    Interleaving [writerProg [("b", 7), ("c", 9)], [.read 0, .read 0], [.read 1]] wTwoReaders :=
  Interleaving.of_pick (is := [0, 0, 0, 0, 1, 2, 0, 0, 0, 0, 0, 0, 0, 0, 1, 0, 0]) (by decide)

example : (exec (rstep 2) ⟨{ z := [("a", 1), ("b", 5)] }, []⟩ wTwoReaders).st.z
    = [("b", 7), ("c", 9)].foldl (fun z e => TopK.offerRedis 2 z e.1 e.2) [("a", 1), ("b", 5)] :=
  (C16_topk_single_writer 2 { z := [("a", 1), ("b", 5)] } [("b", 7), ("c", 9)]
    [[.read 0, .read 0], [.read 1]]
    (by
      intro t ht a ha
      simp only [List.mem_cons, List.not_mem_nil, or_false] at ht
      rcases ht with rfl | rfl <;> simp only [List.mem_cons, List.not_mem_nil, or_false] at ha
      · rcases ha with rfl | rfl <;> rfl
      · subst ha; rfl)
    wTwoReaders wTwoReaders_interleaving).2.1

example : (exec (rstep 2) ⟨{ z := [("a", 1), ("b", 5)] }, []⟩ wTwoReaders).obs
      = [(0, [("a", 1)]), (1, [("a", 1)]), (0, [("a", 1), ("b", 7), ("c", 9)])] ∧
    (exec (rstep 2) ⟨{ z := [("a", 1), ("b", 5)] }, []⟩ wTwoReaders).st.z = [("b", 7), ("c", 9)] := by
  decide

/-! ### two writers that refresh tracked members -/

theorem interleaving_swap {α : Type} (a b : List α) : Interleaving [a, b] (b ++ a) := by
  induction b with
  | nil => simpa using Interleaving.sequential [a, []]
  | cons x b ih => exact .step _ 1 x b _ (by simp) (by simpa using ih)

/-- **two writers refreshing two different tracked members.**  `z₀` canonical with at most `k`
    entries, `x ≠ y` both members of `z₀` with scores `sx`, `sy`, new estimates `f ≥ sx`, `g ≥ sy`.
    EVERY interleaving of the two `Insert` command sequences ends with the sorted set
    `zadd (zadd z₀ x f) y g` — both members at their new scores, nothing else touched — and so do
    both sequential orders. -/
theorem C16_topk_two_refreshers (k : Nat) (z0 : List HElem) (x y : String) (sx f sy g : Nat)
    (hwf : Redis.ZWf z0) (hlen : z0.length ≤ k) (hne : x ≠ y)
    (hx : (x, sx) ∈ z0) (hy : (y, sy) ∈ z0) (hf : sx ≤ f) (hg : sy ≤ g)
    (s0 : St) (hz : s0.z = z0) (w : List Cmd)
    (hi : Interleaving [insertProg false x f, insertProg true y g] w) :
    (exec (step k) s0 w).z = TopK.zadd (TopK.zadd z0 x f) y g ∧
    (exec (step k) s0 (insertProg false x f ++ insertProg true y g)).z = (exec (step k) s0 w).z ∧
    (exec (step k) s0 (insertProg true y g ++ insertProg false x f)).z = (exec (step k) s0 w).z := by
  have H : C16TopK2.Hyp k z0 (fun c => if c then ⟨y, sy, g⟩ else ⟨x, sx, f⟩) :=
    ⟨hwf, hlen, hne, fun c => by cases c <;> assumption, fun c => by cases c <;> assumption⟩
  have key := fun w' hi' => C16TopK2.two_refreshers H s0 hz w' hi'
  have h1 := key w hi
  have h2 := key (insertProg false x f ++ insertProg true y g)
    (by simpa using Interleaving.sequential [insertProg false x f, insertProg true y g])
  have h3 := key (insertProg true y g ++ insertProg false x f) (interleaving_swap _ _)
  exact ⟨h1, h2.trans h1.symm, h3.trans h1.symm⟩

/-- k = 2, `z₀ = [y:10, x:50]`; writer A offers `x` with the LOWER estimate 5, writer B refreshes
    `y` to 20.  A's ZCARD runs while `y` is removed and sees one entry -/
def wNonMono : List Cmd :=
  [.zcard true, .zrange true 20, .zscore true "y", .zrem true "y",
   .zcard false, .zrange false 5, .zscore false "x", .zrem false "x", .zadd false "x" 5,
   .zcard2 false, .zpopmin false, .zadd true "y" 20, .zcard2 true, .zpopmin true]

/-- **without `estimate ≥ current score` the claim is false**: both sequential orders reject A's
    offer (5 < minimum, set full) and end in `[y:20, x:50]`; the interleaving lets A through
    (ZCARD = 1 < k while `y` is removed) and ends in `[x:5, y:20]`. -/
theorem C16_topk_refresh_needs_monotone :
    Interleaving [insertProg false "x" 5, insertProg true "y" 20] wNonMono ∧
    (exec (step 2) { z := [("y", 10), ("x", 50)] } wNonMono).z = [("x", 5), ("y", 20)] ∧
    (exec (step 2) { z := [("y", 10), ("x", 50)] }
      (insertProg false "x" 5 ++ insertProg true "y" 20)).z = [("y", 20), ("x", 50)] ∧
    (exec (step 2) { z := [("y", 10), ("x", 50)] }
      (insertProg true "y" 20 ++ insertProg false "x" 5)).z = [("y", 20), ("x", 50)] :=
  ⟨Interleaving.of_pick (is := [1, 1, 1, 1, 0, 0, 0, 0, 0, 0, 0, 1, 1, 1]) (by decide),
    by decide, by decide, by decide⟩

/-- k = 2, `z₀ = [x:5, w:9]`; both writers refresh the SAME member `x`, A with 7, B with 8; B's
    ZADD runs before A's -/
def wSame : List Cmd :=
  [.zcard false, .zrange false 7, .zcard true, .zrange true 8, .zscore false "x", .zscore true "x",
   .zrem true "x", .zadd true "x" 8, .zcard2 true, .zpopmin true,
   .zrem false "x", .zadd false "x" 7, .zcard2 false, .zpopmin false]

/-- **for the same member the claim is false**: both sequential orders end with `x:8` (after B, A's
    7 is below the minimum of the full set and is rejected); the interleaving ends with `x:7`. -/
theorem C16_topk_refresh_same_member :
    Interleaving [insertProg false "x" 7, insertProg true "x" 8] wSame ∧
    (exec (step 2) { z := [("x", 5), ("w", 9)] } wSame).z = [("x", 7), ("w", 9)] ∧
    (exec (step 2) { z := [("x", 5), ("w", 9)] }
      (insertProg false "x" 7 ++ insertProg true "x" 8)).z = [("x", 8), ("w", 9)] ∧
    (exec (step 2) { z := [("x", 5), ("w", 9)] }
      (insertProg true "x" 8 ++ insertProg false "x" 7)).z = [("x", 8), ("w", 9)] :=
  ⟨Interleaving.of_pick (is := [0, 0, 1, 1, 0, 1, 1, 1, 1, 1, 0, 0, 0, 0]) (by decide),
    by decide, by decide, by decide⟩

/-- non-vacuity of `C16_topk_two_refreshers`: k = 3, `[y:1, x:5, w:9]`, `x → 6`, `y → 7`; a schedule
    in which both members are removed at the same time -/
def wRefresh : List Cmd :=
  [.zcard false, .zcard true, .zrange true 7, .zrange false 6, .zscore true "y", .zrem true "y",
   .zscore false "x", .zrem false "x", .zadd true "y" 7, .zcard2 true, .zadd false "x" 6,
   .zpopmin true, .zcard2 false, .zpopmin false]

theorem wRefresh_interleaving :
    Interleaving [insertProg false "x" 6, insertProg true "y" 7] wRefresh :=
  Interleaving.of_pick (is := [0, 1, 1, 0, 1, 1, 0, 0, 1, 1, 0, 1, 0, 0]) (by decide)

example : (exec (step 3) { z := [("y", 1), ("x", 5), ("w", 9)] } wRefresh).z
    = TopK.zadd (TopK.zadd [("y", 1), ("x", 5), ("w", 9)] "x" 6) "y" 7 :=
  (C16_topk_two_refreshers 3 [("y", 1), ("x", 5), ("w", 9)] "x" "y" 5 6 1 7 (by decide) (by decide)
    (by decide) (by decide) (by decide) (by decide) (by decide) _ rfl wRefresh wRefresh_interleaving).1

example : (exec (step 3) { z := [("y", 1), ("x", 5), ("w", 9)] } wRefresh).z
    = [("x", 6), ("y", 7), ("w", 9)] := by decide

end topk
end Gostatix
