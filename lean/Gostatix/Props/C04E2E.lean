/-
  C04E2E — Top-K end to end, with NO hypothesis on the estimates.

  C04 proves the Top-K guarantees for every heap the specification can reach, under the
  hypothesis `EstOK` on the estimates `f` of the event history.  Here `EstOK` is discharged from
  the Count-Min sketch itself: in a run of `TopK.insert` from `⟨k, CMS.new rows cols, #[]⟩` the
  estimate recorded at insert `i` is `count` of the sketch after updates `0..i`, which C03 bounds
  by the element's true count (below) and the stream total (above), and `C04_insert_run` gives
  the monotonicity.  The conclusions are stated on the insertion history `h : List (String × Nat)`
  alone (`CMS.trueCount h x`, `CMS.total h`, `distinct (h.map (·.1))`): no event list, no `Reach`,
  no `EstOK` appears in the statements.

  `pos : String → List Nat` is an ARBITRARY position function that is well formed for the
  `rows × cols` sketch (`CMS.PosOK`); any `k` (also 0), any counts (also 0).
  `1 ≤ cols` follows from `PosOK` and `1 ≤ rows`; it is listed because the constructors demand it.
  Counters are `Nat`: the statements hold for the code while `CMS.total h < 2^64`.
  Helper lemmas: Gostatix/Proofs/TopKE2E.lean.
-/
import Gostatix.Props.C04
import Gostatix.Proofs.TopKE2E
namespace Gostatix.TopK

/-- **`EstOK` holds for every run from a fresh sketch** (the hypothesis of the C04 theorems). -/
theorem C04_estOK_of_sketch (pos : String → List Nat) (rows cols : Nat) (hrows : 1 ≤ rows)
    (hpos : CMS.PosOK pos rows cols) (h : List (String × Nat)) :
    EstOK (sketchEvents pos (CMS.new rows cols) h) :=
  sketchEvents_estOK pos rows cols hrows hpos h

/-- the event history of a run speaks about the insertion history: same elements, same true
    counts, same total -/
theorem C04_sketchEvents_history (pos : String → List Nat) (s : CMS) (h : List (String × Nat)) :
    (sketchEvents pos s h).map (·.x) = h.map (·.1) ∧
    (∀ y, trueTotal (sketchEvents pos s h) y = CMS.trueCount h y) ∧
    total (sketchEvents pos s h) = CMS.total h :=
  ⟨sketchEvents_map_x pos s h, sketchEvents_trueTotal pos s h, sketchEvents_total pos s h⟩

/-- what C04 gives for a reachable heap of the events of a run, restated on the history `h` -/
theorem C04_reach_sketch (pos : String → List Nat) (rows cols k : Nat) (h : List (String × Nat))
    (hrows : 1 ≤ rows) (hpos : CMS.PosOK pos rows cols) (heap : List HElem)
    (hr : Reach k (sketchEvents pos (CMS.new rows cols) h) heap) :
    (heap.map (·.1)).Nodup ∧
    heap.length = min k (distinct (h.map (·.1))).length ∧
    (∀ p ∈ heap, CMS.trueCount h p.1 ≤ p.2 ∧ p.2 ≤ CMS.total h) ∧
    (∀ y ∈ h.map (·.1), (∀ p ∈ heap, p.1 ≠ y) → ∀ p ∈ heap, CMS.trueCount h y ≤ p.2) := by
  have he := C04_estOK_of_sketch pos rows cols hrows hpos h
  refine ⟨C04_nodup hr, ?_, ?_, ?_⟩
  · have := C04_size hr he
    unfold numDistinct at this
    rwa [sketchEvents_map_x] at this
  · intro p hp
    have := C04_count_bounds hr he p hp
    rwa [sketchEvents_trueTotal, sketchEvents_total] at this
  · intro y hy hno p hp
    have hy' : ∃ e ∈ sketchEvents pos (CMS.new rows cols) h, e.x = y := by
      rw [← sketchEvents_map_x pos (CMS.new rows cols) h] at hy
      obtain ⟨e, he, hx⟩ := List.mem_map.1 hy
      exact ⟨e, he, hx⟩
    have := C04_unreported_light hr he y hy' hno p hp
    rwa [sketchEvents_trueTotal] at this

/-- **Top-K end to end, in-memory variant.**  Run `TopK.insert` over ANY insertion history `h`
    from the fresh state `⟨k, CMS.new rows cols, #[]⟩`.  In the final heap:
    * no element is reported twice;
    * exactly `min k (number of distinct inserted elements)` entries are reported;
    * every reported `(x, f)` has `trueCount h x ≤ f ≤ total h`;
    * every inserted element `y` that is not reported has `trueCount h y ≤ f` for every reported
      count `f` (so at most the smallest reported count);
    * the array is heap-ordered (`container/heap` invariant). -/
theorem C04_end_to_end_mem (pos : String → List Nat) (rows cols k : Nat)
    (h : List (String × Nat)) (hrows : 1 ≤ rows) (_hcols : 1 ≤ cols)
    (hpos : CMS.PosOK pos rows cols) :
    let t := h.foldl (fun t o => t.insert o.1 (pos o.1) o.2) (⟨k, CMS.new rows cols, #[]⟩ : TopK)
    (t.heap.toList.map (·.1)).Nodup ∧
    t.heap.size = min k (distinct (h.map (·.1))).length ∧
    (∀ p ∈ t.heap.toList, CMS.trueCount h p.1 ≤ p.2 ∧ p.2 ≤ CMS.total h) ∧
    (∀ y ∈ h.map (·.1), (∀ p ∈ t.heap.toList, p.1 ≠ y) →
      ∀ p ∈ t.heap.toList, CMS.trueCount h y ≤ p.2) ∧
    HeapInv t.heap := by
  intro t
  obtain ⟨hr, hinv, _⟩ := C04_insert_run pos ⟨k, CMS.new rows cols, #[]⟩ rfl h
  change Reach k (sketchEvents pos (CMS.new rows cols) h) t.heap.toList at hr
  obtain ⟨h1, h2, h3, h4⟩ := C04_reach_sketch pos rows cols k h hrows hpos _ hr
  exact ⟨h1, by simpa using h2, h3, h4, hinv⟩

/-- the sketch of the run is the sketch of C03 (so `C03_lower`/`C03_upper` speak about it) and
    `k` is unchanged -/
theorem C04_end_to_end_mem_sketch (pos : String → List Nat) (rows cols k : Nat)
    (h : List (String × Nat)) :
    let t := h.foldl (fun t o => t.insert o.1 (pos o.1) o.2) (⟨k, CMS.new rows cols, #[]⟩ : TopK)
    t.sketch = CMS.run pos (CMS.new rows cols) h ∧ t.k = k :=
  ⟨runInserts_sketch pos ⟨k, CMS.new rows cols, #[]⟩ h,
   runInserts_k pos ⟨k, CMS.new rows cols, #[]⟩ h⟩

/-- `Values()` of the final state: the same entries, ordered by count descending then element
    ascending (strictly), hence all of the above about the reported list. -/
theorem C04_end_to_end_mem_values (pos : String → List Nat) (rows cols k : Nat)
    (h : List (String × Nat)) (hrows : 1 ≤ rows) (hcols : 1 ≤ cols)
    (hpos : CMS.PosOK pos rows cols) :
    let t := h.foldl (fun t o => t.insert o.1 (pos o.1) o.2) (⟨k, CMS.new rows cols, #[]⟩ : TopK)
    (values t.heap.toList).Perm t.heap.toList ∧
    (values t.heap.toList).length = min k (distinct (h.map (·.1))).length ∧
    List.Pairwise (fun a b => a.2 > b.2 ∨ (a.2 = b.2 ∧ a.1 < b.1)) (values t.heap.toList) ∧
    (∀ p ∈ values t.heap.toList, CMS.trueCount h p.1 ≤ p.2 ∧ p.2 ≤ CMS.total h) := by
  intro t
  obtain ⟨h1, h2, h3, _, _⟩ := C04_end_to_end_mem pos rows cols k h hrows hcols hpos
  have hp := values_perm t.heap.toList
  refine ⟨hp, ?_, C04_values_sorted_strict _ h1, fun p hm => h3 p (hp.mem_iff.1 hm)⟩
  rw [hp.length_eq]
  simpa using h2

/-- **Top-K end to end, Redis variant.**  The same run with the sorted set in place of the heap
    (`insertRedis`: sketch update, estimate, `offerRedis`), from the fresh sketch and the empty
    sorted set.  Same conclusions; in place of the heap order the list is sorted by
    (score, member) — the order of the Redis sorted set. -/
theorem C04_end_to_end_redis (pos : String → List Nat) (rows cols k : Nat)
    (h : List (String × Nat)) (hrows : 1 ≤ rows) (_hcols : 1 ≤ cols)
    (hpos : CMS.PosOK pos rows cols) :
    let st := h.foldl (fun st o => insertRedis k st o.1 (pos o.1) o.2) (CMS.new rows cols, [])
    (st.2.map (·.1)).Nodup ∧
    st.2.length = min k (distinct (h.map (·.1))).length ∧
    (∀ p ∈ st.2, CMS.trueCount h p.1 ≤ p.2 ∧ p.2 ≤ CMS.total h) ∧
    (∀ y ∈ h.map (·.1), (∀ p ∈ st.2, p.1 ≠ y) → ∀ p ∈ st.2, CMS.trueCount h y ≤ p.2) ∧
    st.2.Pairwise (fun a b => zLt a b = true) := by
  intro st
  have hz : st.2 = (sketchEvents pos (CMS.new rows cols) h).foldl
      (fun z e => offerRedis k z e.x e.f) [] :=
    runInsertsRedis_zset pos k (CMS.new rows cols, []) h
  obtain ⟨hr, hsorted, _⟩ := C04_redis_reach k (sketchEvents pos (CMS.new rows cols) h)
  rw [← hz] at hr hsorted
  obtain ⟨h1, h2, h3, h4⟩ := C04_reach_sketch pos rows cols k h hrows hpos _ hr
  exact ⟨h1, h2, h3, h4, hsorted⟩

/-- the stated fold is "the estimates produced by the same sketch": the sorted set of the run is
    the fold of `offerRedis` over the events `(x, c, estimate)` of the in-memory run, and the two
    variants hold the same sketch -/
theorem C04_end_to_end_redis_same_estimates (pos : String → List Nat) (rows cols k : Nat)
    (h : List (String × Nat)) :
    let st := h.foldl (fun st o => insertRedis k st o.1 (pos o.1) o.2) (CMS.new rows cols, [])
    let t := h.foldl (fun t o => t.insert o.1 (pos o.1) o.2) (⟨k, CMS.new rows cols, #[]⟩ : TopK)
    st.2 = (sketchEvents pos (CMS.new rows cols) h).foldl (fun z e => offerRedis k z e.x e.f) [] ∧
    t.heap = (sketchEvents pos (CMS.new rows cols) h).foldl (fun a e => offer k a e.x e.f) #[] ∧
    st.1 = t.sketch := by
  refine ⟨runInsertsRedis_zset pos k (CMS.new rows cols, []) h,
    runInserts_heap pos ⟨k, CMS.new rows cols, #[]⟩ h, ?_⟩
  exact (runInsertsRedis_sketch pos k (CMS.new rows cols, []) h).trans
    (runInserts_sketch pos ⟨k, CMS.new rows cols, #[]⟩ h).symm

/-- the concrete position scheme of the code (`getPositions`): any two hash words per element -/
theorem C04_end_to_end_mem_concrete (hash : String → Nat × Nat) (rows cols k : Nat)
    (h : List (String × Nat)) (hrows : 1 ≤ rows) (hcols : 1 ≤ cols) :
    let pos := fun e => CMS.positionsOf (hash e).1 (hash e).2 rows cols
    let t := h.foldl (fun t o => t.insert o.1 (pos o.1) o.2) (⟨k, CMS.new rows cols, #[]⟩ : TopK)
    (t.heap.toList.map (·.1)).Nodup ∧
    t.heap.size = min k (distinct (h.map (·.1))).length ∧
    (∀ p ∈ t.heap.toList, CMS.trueCount h p.1 ≤ p.2 ∧ p.2 ≤ CMS.total h) ∧
    (∀ y ∈ h.map (·.1), (∀ p ∈ t.heap.toList, p.1 ≠ y) →
      ∀ p ∈ t.heap.toList, CMS.trueCount h y ≤ p.2) ∧
    HeapInv t.heap :=
  C04_end_to_end_mem _ rows cols k h hrows hcols (CMS.C03_positionsOf_PosOK hash rows cols hcols)

/-! ### non-vacuity -/

/-- positions used by the example: 2 rows, 3 columns; "a" and "dddd" collide in both rows
    (defined by cases on the string so that the examples evaluate in the kernel) -/
def exPosS (s : String) : List Nat :=
  if s = "a" ∨ s = "dddd" then [1, 2] else if s = "bb" then [2, 1] else [0, 0]

theorem exPosS_ok : CMS.PosOK exPosS 2 3 := by
  intro e
  unfold exPosS
  split
  · exact ⟨rfl, by decide⟩
  · split
    · exact ⟨rfl, by decide⟩
    · exact ⟨rfl, by decide⟩

/-- k = 2, four inserts of three distinct elements -/
def exOps : List (String × Nat) := [("a", 2), ("bb", 1), ("dddd", 1), ("bb", 2)]

/-- the final heap of the run: "dddd" is reported with the over-estimate 3 (true count 1; it
    collides with "a"), "bb" with its exact count 3, and "a" (true count 2 ≤ 3) is not reported -/
example :
    (exOps.foldl (fun t o => t.insert o.1 (exPosS o.1) o.2) (⟨2, CMS.new 2 3, #[]⟩ : TopK)).heap
      = #[("bb", 3), ("dddd", 3)] := by
  have := runInserts_heap exPosS ⟨2, CMS.new 2 3, #[]⟩ exOps
  unfold runInserts at this
  rw [this, offer_eq_offerL]
  decide

example :
    (exOps.foldl (fun st o => insertRedis 2 st o.1 (exPosS o.1) o.2) (CMS.new 2 3, [])).2
      = [("bb", 3), ("dddd", 3)] := by decide

example : CMS.trueCount exOps "dddd" = 1 ∧ CMS.trueCount exOps "a" = 2 ∧ CMS.total exOps = 6 ∧
    (distinct (exOps.map (·.1))).length = 3 := by decide

/-- the theorem applies to the example (hypotheses are satisfiable) -/
example :=
  C04_end_to_end_mem exPosS 2 3 2 exOps (by decide) (by decide) exPosS_ok

example :=
  C04_end_to_end_redis exPosS 2 3 2 exOps (by decide) (by decide) exPosS_ok

/-- and its size clause computes to 2 = min 2 3 -/
example :
    (exOps.foldl (fun t o => t.insert o.1 (exPosS o.1) o.2)
      (⟨2, CMS.new 2 3, #[]⟩ : TopK)).heap.size = 2 := by
  have := (C04_end_to_end_mem exPosS 2 3 2 exOps (by decide) (by decide) exPosS_ok).2.1
  have hd : (distinct (exOps.map (·.1))).length = 3 := by decide
  rw [hd] at this
  exact this

end Gostatix.TopK
