/-
  C06 — HyperLogLog is duplicate- and order-insensitive; merge equals union.

  Elements are an abstract type `E`; `iv : E → Nat × Nat` is an ARBITRARY function giving the
  (register index, value) of an element (`getRegisterIndexAndCount`); the correspondence suite
  checks that the implementation is the instance `(HLL.indexOf hash p, HLL.valueOf hash p)`.
  The statements are about the register file, so they transfer to ANY function of the registers
  (`Count`, `Export`, `Equals`): see `C06_count_depends_only_on_set`.

  Helper lemmas: `Gostatix/Proofs/HLL.lean`.
-/
import Gostatix.Proofs.HLL
namespace Gostatix.HLL

/-! ### definitions used by the statements -/

section defs
variable {E : Type}

/-- registers after inserting the elements of `h` (total update: out-of-range is a no-op). -/
def runR (iv : E → Nat × Nat) (regs : List Nat) (h : List E) : List Nat :=
  h.foldl (fun r e => HLL.upd r (iv e)) regs

/-- the sketch with `m` registers after inserting `h` into a fresh one. -/
def run (iv : E → Nat × Nat) (m : Nat) (h : List E) : HLL :=
  ⟨m, runR iv (List.replicate m 0) h⟩

/-- inserting `h` with the partial `Update` of the code (a panic / error aborts). -/
def runU (iv : E → Nat × Nat) (s : HLL) (h : List E) : Res HLL :=
  h.foldl (fun acc e => match acc with
    | .ok s => s.update (iv e).1 (iv e).2
    | r => r) (.ok s)

end defs

section props
variable {E : Type}

/-! ### single updates -/

theorem C06_upd_comm (r : List Nat) (a b : Nat × Nat) : upd (upd r a) b = upd (upd r b) a :=
  upd_comm r a b

theorem C06_upd_idem (r : List Nat) (a : Nat × Nat) : upd (upd r a) a = upd r a :=
  upd_idem r a

/-- the partial `Update` agrees with `upd` when the index is in range … -/
theorem C06_update_ok (s : HLL) (idx val : Nat) (h : idx < s.regs.length) :
    s.update idx val = .ok { s with regs := upd s.regs (idx, val) } := by
  simp [update, upd, h]

/-- … and panics (in-memory) otherwise. -/
theorem C06_update_panic (s : HLL) (idx val : Nat) (h : ¬ idx < s.regs.length) :
    s.update idx val = .panic := by
  simp [update, h]

/-- a whole history with in-range indices never panics and computes `runR`. -/
theorem C06_runU_ok (iv : E → Nat × Nat) (s : HLL) (h : List E)
    (hr : ∀ e ∈ h, (iv e).1 < s.regs.length) :
    runU iv s h = .ok { s with regs := runR iv s.regs h } := by
  induction h generalizing s with
  | nil => rfl
  | cons e h ih =>
    have h0 := hr e List.mem_cons_self
    have := ih { s with regs := upd s.regs (iv e) } (by
      intro e' he'
      show (iv e').1 < (upd s.regs (iv e)).length
      rw [upd_length]; exact hr e' (List.mem_cons_of_mem _ he'))
    simp only [runU, List.foldl_cons]
    rw [C06_update_ok s _ _ h0]
    exact this

theorem C06_runU_fresh (iv : E → Nat × Nat) (m : Nat) (h : List E)
    (hr : ∀ e ∈ h, (iv e).1 < m) : runU iv (HLL.new m) h = .ok (run iv m h) :=
  C06_runU_ok iv (HLL.new m) h (by simpa [new] using hr)

/-! ### order- and duplicate-insensitivity -/

theorem C06_runR_length (iv : E → Nat × Nat) (r : List Nat) (h : List E) :
    (runR iv r h).length = r.length := foldl_upd_length iv r h

/-- **Order-insensitive**: permuting the stream does not change the registers. -/
theorem C06_perm (iv : E → Nat × Nat) (r : List Nat) (h₁ h₂ : List E) (p : h₁.Perm h₂) :
    runR iv r h₁ = runR iv r h₂ := foldl_upd_perm iv r h₁ h₂ p

/-- **Duplicate-insensitive**: inserting an element that was inserted before changes nothing. -/
theorem C06_dup (iv : E → Nat × Nat) (r : List Nat) (h : List E) (x : E) (hx : x ∈ h) :
    runR iv r (h ++ [x]) = runR iv r h := by
  simp only [runR, List.foldl_append, List.foldl_cons, List.foldl_nil]
  exact foldl_upd_absorb iv r h x hx

/-- The registers depend only on the SET of distinct elements of the stream. -/
theorem C06_depends_only_on_set (iv : E → Nat × Nat) (r : List Nat) (h₁ h₂ : List E)
    (hset : ∀ e, e ∈ h₁ ↔ e ∈ h₂) : runR iv r h₁ = runR iv r h₂ :=
  foldl_upd_set iv r h₁ h₂ hset

/-- Hence any function of the registers (`Count`, `Export`, …) depends only on that set. -/
theorem C06_count_depends_only_on_set {β : Type} (est : List Nat → β) (iv : E → Nat × Nat)
    (r : List Nat) (h₁ h₂ : List E) (hset : ∀ e, e ∈ h₁ ↔ e ∈ h₂) :
    est (runR iv r h₁) = est (runR iv r h₂) := by
  rw [C06_depends_only_on_set iv r h₁ h₂ hset]

/-- the structure-level form for fresh sketches. -/
theorem C06_run_depends_only_on_set (iv : E → Nat × Nat) (m : Nat) (h₁ h₂ : List E)
    (hset : ∀ e, e ∈ h₁ ↔ e ∈ h₂) : run iv m h₁ = run iv m h₂ := by
  unfold run; rw [C06_depends_only_on_set iv _ h₁ h₂ hset]

/-! ### merge -/

/-- **Merge = union** on register files: the right register file must be at least as long as the
    left one (equal lengths in the code: `Merge` checks `m`). -/
theorem C06_merge_union (iv : E → Nat × Nat) (r₁ r₂ : List Nat) (a b : List E)
    (hl : r₁.length ≤ r₂.length) :
    mergeRegs (runR iv r₁ a) (runR iv r₂ b) = runR iv (mergeRegs r₁ r₂) (a ++ b) :=
  mergeRegs_foldl iv r₁ r₂ a b hl

/-- the length hypothesis of `C06_merge_union` cannot be dropped. -/
theorem C06_merge_union_needs_length :
    ¬ (∀ (iv : Nat → Nat × Nat) (r₁ r₂ : List Nat) (a b : List Nat),
        mergeRegs (runR iv r₁ a) (runR iv r₂ b) = runR iv (mergeRegs r₁ r₂) (a ++ b)) := by
  intro H
  have := H (fun e => (e, 5)) [0, 0] [0] [] [1]
  revert this; decide

/-- **Merge = union** for sketches: merging the sketches of `a` and `b` is the sketch of `a ++ b`. -/
theorem C06_merge_union_fresh (iv : E → Nat × Nat) (m : Nat) (a b : List E) :
    HLL.merge (run iv m a) (run iv m b) = .ok (run iv m (a ++ b)) := by
  have := C06_merge_union iv (List.replicate m 0) (List.replicate m 0) a b (Nat.le_refl _)
  rw [mergeRegs_zero] at this
  simp only [merge, run, ne_eq, not_true_eq_false, if_false]
  rw [this]

theorem C06_merge_comm (r₁ r₂ : List Nat) (hl : r₁.length = r₂.length) :
    mergeRegs r₁ r₂ = mergeRegs r₂ r₁ := mergeRegs_comm r₁ r₂ hl

/-- sketch-level commutativity for sketches whose register file has `m` registers. -/
theorem C06_merge_comm_hll (a b : HLL) (ha : a.regs.length = a.m) (hb : b.regs.length = b.m) :
    HLL.merge a b = HLL.merge b a := by
  by_cases h : a.m = b.m
  · have hl : a.regs.length = b.regs.length := by rw [ha, hb, h]
    cases a; cases b
    simp only at h hl
    subst h
    simp [merge, mergeRegs_comm _ _ hl]
  · have h' : ¬ b.m = a.m := fun e => h e.symm
    simp [merge, h, h']

theorem C06_merge_idem (r : List Nat) : mergeRegs r r = r := mergeRegs_idem r

theorem C06_merge_assoc (r₁ r₂ r₃ : List Nat) (hl : r₁.length ≤ r₂.length) :
    mergeRegs (mergeRegs r₁ r₂) r₃ = mergeRegs r₁ (mergeRegs r₂ r₃) := mergeRegs_assoc r₁ r₂ r₃ hl

/-- merging and then continuing to insert = sketching the whole stream. -/
theorem C06_merge_then_update (iv : E → Nat × Nat) (m : Nat) (a b c : List E) :
    runR iv (mergeRegs (runR iv (List.replicate m 0) a) (runR iv (List.replicate m 0) b)) c
      = runR iv (List.replicate m 0) (a ++ b ++ c) := by
  rw [C06_merge_union iv _ _ a b (Nat.le_refl _), mergeRegs_zero]
  simp only [runR, List.foldl_append]

/-- general start registers. -/
theorem C06_merge_then_update_general (iv : E → Nat × Nat) (r₁ r₂ : List Nat) (a b c : List E)
    (hl : r₁.length ≤ r₂.length) :
    runR iv (mergeRegs (runR iv r₁ a) (runR iv r₂ b)) c
      = runR iv (mergeRegs r₁ r₂) (a ++ b ++ c) := by
  rw [C06_merge_union iv _ _ a b hl]
  simp only [runR, List.foldl_append]

/-- merging a sketch of a sub-stream into the sketch of the whole stream changes nothing
    (in particular `Merge` with itself is a no-op). -/
theorem C06_merge_absorbs_subset (iv : E → Nat × Nat) (m : Nat) (a b : List E)
    (hsub : ∀ e ∈ b, e ∈ a) :
    HLL.merge (run iv m a) (run iv m b) = .ok (run iv m a) := by
  rw [C06_merge_union_fresh]
  show Res.ok _ = Res.ok _
  congr 1
  unfold run
  congr 1
  exact foldl_upd_subset iv _ a b hsub

/-- sketches with different register counts do not merge (the model is functional: no new
    receiver state is produced). -/
theorem C06_merge_mismatch (a b : HLL) (h : a.m ≠ b.m) : HLL.merge a b = .err := by
  simp [merge, h]

end props

/-! ### non-vacuity -/

/-- index/value function used by the examples: 4 registers. -/
def exIV (e : Nat) : Nat × Nat := (e % 4, e / 4 % 7)

example :
    let a := [5, 22, 9, 5, 31]
    let b := [31, 12, 22, 18, 18]
    run exIV 4 a = ⟨4, [0, 2, 5, 0]⟩ ∧ run exIV 4 b = ⟨4, [3, 0, 5, 0]⟩
    ∧ run exIV 4 a = run exIV 4 [31, 9, 22, 5]
    ∧ HLL.merge (run exIV 4 a) (run exIV 4 b) = .ok (run exIV 4 (a ++ b))
    ∧ HLL.merge (run exIV 4 a) (run exIV 4 b) = HLL.merge (run exIV 4 b) (run exIV 4 a)
    ∧ runU exIV (HLL.new 4) a = .ok (run exIV 4 a)
    ∧ HLL.merge (run exIV 4 a) (run exIV 8 b) = .err
    ∧ (HLL.new 4).update 4 1 = .panic := by decide

end Gostatix.HLL
