/-
  LoopTieCMSKernels — the two translators agree: the statements INSIDE the loops, as extract/loops.go
  translates them within the whole function bodies (Generated/Loops.lean), are the kernels that
  extract/arith.go translates from the same source lines (Generated/Arith.lean: `cmsPosition`,
  `cmsCellUpdate`, `cmsAllSumUpdate`, `cmsCellMerge`) and that Props/ArithTieCMS.lean /
  Props/ArithTieCMSCells.lean tie to the models.  So the loop theorems of Props/LoopTieCMS.lean can
  be read as "the loops of `CMSM` around the kernels of arith.go".

  This file is separate from Props/LoopTieCMS.lean on purpose: arith.go refuses several harmless
  rewrites of the statements (a renamed loop variable in `getPositions`, the row slice taken into a
  local, the cell statement in a helper with other parameter names); then the ArithTie files and
  THIS file stop building, while Props/LoopTieCMS.lean (which does not import Generated/Arith.lean)
  still proves the whole functions equal to the model.
-/
import Gostatix.Props.LoopTieCMS
import Gostatix.Props.ArithTieCMS
import Gostatix.Props.ArithTieCMSCells
set_option linter.unusedSimpArgs false

namespace Gostatix.LoopTie
open Gostatix Gostatix.GoLoop Gostatix.Generated.Loops Gostatix.Generated.Arith

/-- entry `c` of `getPositions`, as the loop translation computes it, is arith.go's `cmsPosition` -/
theorem loops_position_is_kernel (a b cols : UInt64) (c : Nat) :
    posOf a b cols c = cmsPosition a b (UInt64.ofNat c) cols := rfl

/-- hence `getPositions` is the list of the kernel's values, and `positions` is the list that
    Props/ArithTieCMS.lean (`tie_cmsPositionsOf`) derives from the kernel -/
theorem tie_loop_getPositions_kernel (H : Hash) (s : Sketch) (data : List UInt8) (hc : 0 < s.columns) :
    cmsGetPositions H s data
      = some ((List.range s.rows.toNat).map fun c => cmsPosition (h1 H data) (h2 H data) (UInt64.ofNat c) s.columns) :=
  tie_loop_getPositionsU H s data hc

/-- `Update` on the record, with the kernels named -/
theorem tie_loop_update_kernels (H : Hash) (s : Sketch) (data : List UInt8) (count : UInt64) (h : WFM s) :
    cmsUpdate H s data count
      = some { s with matrix := ArithTie.updRowsG s.matrix (positions H s data) count,
                      allSum := cmsAllSumUpdate s.allSum count } := by
  rw [tie_loop_update_fields H s data count h, ArithTie.tie_updRows]; rfl

/-- the cell statement of `Update` inside its loop, as loops.go translates it, is arith.go's kernel:
    one iteration of the generated loop stores `cmsCellUpdate cell count` (on a 1 x 1 sketch) -/
theorem loops_cell_update_is_kernel (H : Hash) (cell count allSum : UInt64) (data : List UInt8) :
    cmsUpdate H { rows := 1, columns := 1, allSum := allSum, matrix := [[cell]] } data count
      = some { rows := 1, columns := 1, allSum := cmsAllSumUpdate allSum count,
               matrix := [[cmsCellUpdate cell count]] } := by
  rw [tie_loop_update_fields H _ data count ⟨rfl, by simp, show (0 : UInt64) < 1 by decide⟩]
  have : positions H { rows := 1, columns := 1, allSum := allSum, matrix := [[cell]] } data = [0] := by
    simp [positions, CMS.positionsOf, CMS.position, List.range_succ, Nat.mod_one]
  rw [this]
  rfl

/-- the cell statement of `Merge` inside its loops is arith.go's kernel `cmsCellMerge` -/
theorem loops_cell_merge_is_kernel (x y s1 s2 : UInt64) :
    cmsMerge { rows := 1, columns := 1, allSum := s1, matrix := [[x]] }
             { rows := 1, columns := 1, allSum := s2, matrix := [[y]] }
      = some ({ rows := 1, columns := 1, allSum := s1, matrix := [[cmsCellMerge x y]] }, cmsMergeErr.nil) := by
  rw [tie_loop_merge _ _ ⟨rfl, by simp, show (0 : UInt64) < 1 by decide⟩ ⟨rfl, by simp, show (0 : UInt64) < 1 by decide⟩]
  rfl

end Gostatix.LoopTie
