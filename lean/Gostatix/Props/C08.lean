/-
  C08 — Redis-backed and in-memory variants answer identically.

  The Redis variants keep their state in Redis lists/strings and run Lua scripts; Model/Redis.lean
  transcribes those scripts command by command on a store.  `absCMS`/`absHLL`/`absBloom` read the
  in-memory state (Model/CMS.lean, HLL.lean, Bloom.lean) back from a store.  Each theorem says:
  on a store that represents the in-memory state `c`, the script succeeds, returns the in-memory
  operation's answer, and leaves a store that represents the in-memory operation's new state.

  Scope: count-min sketch (init, update, count, merge), HyperLogLog registers (init, update,
  merge, equals), Bloom bitset (init, insert, lookup).  Numbers are decimal strings
  (`C19_decimal_roundtrip`); counters are unbounded naturals here, while Lua numbers are float64
  (exact below 2^53) and the Go counters uint64 — the correspondence suite ties that at run time.
-/
import Gostatix.Proofs.RedisCMSMerge
import Gostatix.Proofs.RedisHLL
import Gostatix.Proofs.RedisBloom
namespace Gostatix.Redis

/-! ### Count-Min Sketch -/

/-- `initMatrix` builds the all-zero matrix of `CMS.new` (the constructor demands `columns > 0`). -/
theorem C08_cms_init (h : CMSHandle) (s : Store) (hcols : 0 < h.cols) :
    ∃ s', cmsInit h s = (s', some ()) ∧ absCMS s' h = some (CMS.new h.rows h.cols) :=
  cms_init_abs h s hcols

/-- `Update`: `pos = getPositions(data)` has one in-range column per row. -/
theorem C08_cms_update (h : CMSHandle) (s : Store) (c : CMS) (pos : List Nat) (count : Nat)
    (habs : absCMS s h = some c) (hlen : pos.length ≤ h.rows) (hpos : ∀ p ∈ pos, p < h.cols) :
    ∃ s', cmsUpdate h pos count s = (s', some ()) ∧ absCMS s' h = some (c.update pos count) :=
  cms_update_abs h s c pos count habs hlen hpos

/-- `Count` returns the in-memory estimate and writes nothing. -/
theorem C08_cms_count (h : CMSHandle) (s : Store) (c : CMS) (pos : List Nat)
    (habs : absCMS s h = some c) (hlen : pos.length ≤ h.rows) (hpos : ∀ p ∈ pos, p < h.cols) :
    cmsCount h pos s = (s, some (c.count pos)) :=
  cms_count_abs h s c pos habs hlen hpos

/-- `Merge`: same error cases (rows, then columns); on success the receiver represents the
    cell-wise sum and the argument is unchanged.  `hd`: no row key of one is a row key of the
    other (true for distinct 16-letter keys, `C08_cms_merge_base`). -/
theorem C08_cms_merge (h₁ h₂ : CMSHandle) (s : Store) (a b : CMS)
    (ha : absCMS s h₁ = some a) (hb : absCMS s h₂ = some b) (hcols : 0 < h₁.cols)
    (hd : ∀ i j, i < h₁.rows → j < h₂.rows → cmsRowKey h₁.key i ≠ cmsRowKey h₂.key j) :
    match CMS.merge a b with
    | .ok c => ∃ s', cmsMerge h₁ h₂ s = (s', some ()) ∧ absCMS s' h₁ = some c ∧ absCMS s' h₂ = some b
    | .err => cmsMerge h₁ h₂ s = (s, none) :=
  cms_merge_abs h₁ h₂ s a b ha hb hcols hd

theorem C08_cms_merge_base (h₁ h₂ : CMSHandle) (s : Store) (a b : CMS)
    (ha : absCMS s h₁ = some a) (hb : absCMS s h₂ = some b) (hcols : 0 < h₁.cols)
    (hb₁ : IsBase h₁.key) (hb₂ : IsBase h₂.key) (hne : h₁.key ≠ h₂.key) :
    match CMS.merge a b with
    | .ok c => ∃ s', cmsMerge h₁ h₂ s = (s', some ()) ∧ absCMS s' h₁ = some c ∧ absCMS s' h₂ = some b
    | .err => cmsMerge h₁ h₂ s = (s, none) :=
  cms_merge_abs h₁ h₂ s a b ha hb hcols (fun i j _ _ => cmsRowKey_ne_of_base hb₁ hb₂ hne i j)

/-- a whole history of updates: every script succeeds and the store represents the in-memory
    sketch after the same updates (so every later `Count` agrees, by `C08_cms_count`). -/
theorem C08_cms_history (h : CMSHandle) (ups : List (List Nat × Nat))
    (hwf : ∀ u ∈ ups, u.1.length ≤ h.rows ∧ ∀ p ∈ u.1, p < h.cols) :
    ∀ (s : Store) (c : CMS), absCMS s h = some c →
    ∃ s', runOps (ups.map fun u => cmsUpdate h u.1 u.2) s = (s', ups.map fun _ => some ()) ∧
      absCMS s' h = some (ups.foldl (fun c u => c.update u.1 u.2) c) := by
  induction ups with
  | nil => intro s c habs; exact ⟨s, rfl, habs⟩
  | cons u ups ih =>
    intro s c habs
    obtain ⟨hl, hp⟩ := hwf u List.mem_cons_self
    obtain ⟨s₁, hrun, habs₁⟩ := C08_cms_update h s c u.1 u.2 habs hl hp
    obtain ⟨s', hrun', habs'⟩ := ih (fun v hv => hwf v (List.mem_cons_of_mem _ hv)) s₁ _ habs₁
    refine ⟨s', ?_, habs'⟩
    simp only [List.map_cons, runOps, hrun, hrun']

/-! ### HyperLogLog registers -/

/-- `initRegisters` on a fresh key (`m` a power of two ≥ 2; for `m = 1` the script pushes nothing
    and Redis rejects the `LPUSH`). -/
theorem C08_hll_init (h : HLLHandle) (s : Store) (hfresh : s h.key = none)
    (hm : 0 < h.m) (heven : h.m % 2 = 0) :
    ∃ s', hllInit h s = (s', some ()) ∧ absHLL s' h = some (HLL.new h.m) ∧
      ∀ k, k ≠ h.key → s' k = s k :=
  hll_init_abs h s hfresh hm heven

theorem C08_hll_update (h : HLLHandle) (s : Store) (c : HLL) (idx val : Nat)
    (habs : absHLL s h = some c) (hidx : idx < h.m) :
    ∃ s' c', HLL.update c idx val = .ok c' ∧ hllUpdate h idx val s = (s', some ()) ∧
      absHLL s' h = some c' ∧ ∀ k, k ≠ h.key → s' k = s k :=
  hll_update_abs h s c idx val habs hidx

/-- where the two variants differ in kind (not in state): an out-of-range register index makes
    the in-memory variant panic and the Redis variant return an error; neither writes. -/
theorem C08_hll_update_out_of_range (h : HLLHandle) (s : Store) (c : HLL) (idx val : Nat)
    (habs : absHLL s h = some c) (hidx : h.m ≤ idx) :
    HLL.update c idx val = .panic ∧ hllUpdate h idx val s = (s, none) :=
  hll_update_out_of_range h s c idx val habs hidx

/-- `Merge` (after the fix `DEL` + `RPUSH`). -/
theorem C08_hll_merge (h g : HLLHandle) (s : Store) (a b : HLL)
    (ha : absHLL s h = some a) (hb : absHLL s g = some b) (hm : 0 < h.m) :
    match HLL.merge a b with
    | .ok c => ∃ s', hllMerge h g s = (s', some ()) ∧ absHLL s' h = some c ∧
        (h.key ≠ g.key → absHLL s' g = some b) ∧ ∀ k, k ≠ h.key → s' k = s k
    | .err => hllMerge h g s = (s, none)
    | .panic => False :=
  hll_merge_abs h g s a b ha hb hm

theorem C08_hll_equals (h g : HLLHandle) (s : Store) (a b : HLL)
    (ha : absHLL s h = some a) (hb : absHLL s g = some b) :
    hllEquals h g s = (s, some (HLL.equals a b)) :=
  hll_equals_abs h g s a b ha hb

/-! ### Bloom bitset -/

/-- `newBitSetRedis`: the zero string represents the empty filter. -/
theorem C08_bloom_init (h : BloomHandle) (s : Store) (hsize : 1 ≤ h.size) (hk : 1 ≤ h.k) :
    ∃ s', bloomInit h s = (s', some ()) ∧ absBloom s' h = some (Bloom.new h.size h.k) ∧
      ∀ k, k ≠ h.bitsetKey → s' k = s k :=
  bloom_init_abs h s hsize hk

/-- `SETBIT n` ↔ bit `n` of the in-memory array (byte `n/8`, bit `7 - n%8`), for in-range probes
    (`getIndex` reduces modulo `size`). -/
theorem C08_bloom_insert (h : BloomHandle) (s : Store) (b : Bloom) (ps : List Nat)
    (habs : absBloom s h = some b) (hps : ∀ p ∈ ps, p < h.size) :
    ∃ s', bloomInsert h ps s = (s', some ()) ∧ absBloom s' h = some (b.insert ps) ∧
      ∀ k, k ≠ h.bitsetKey → s' k = s k :=
  bloom_insert_abs h s b ps habs hps

theorem C08_bloom_lookup (h : BloomHandle) (s : Store) (b : Bloom) (ps : List Nat)
    (habs : absBloom s h = some b) (hps : ∀ p ∈ ps, p < h.size) :
    bloomLookup h ps s = (s, some (b.lookup ps)) :=
  bloom_lookup_abs h s b ps habs hps

/-- the bit addressing itself. -/
theorem C08_bloom_setbit_getbit (bytes : List UInt8) (n p : Nat) (hn : n < 8 * bytes.length) :
    getBit (setBit bytes n) p = (decide (p = n) || getBit bytes p) :=
  getBit_setBit bytes n p hn

/-! ### non-vacuity: concrete runs -/

section examples

def exH : CMSHandle := { rows := 2, cols := 3, key := "aaaaaaaaaaaaaaaa", metadataKey := "aaaaaaaaaaaaaaab" }
def exS₀ : Store := (cmsInit exH Store.empty).1
def exS₁ : Store := (cmsUpdate exH [1, 2] 5 exS₀).1
def exS₂ : Store := (cmsUpdate exH [1, 0] 2 exS₁).1

example : exS₀ "aaaaaaaaaaaaaaaa0" = some (.list ["0", "0", "0"]) := by decide
example : absCMS exS₀ exH = some (CMS.new 2 3) := by decide
example : absCMS exS₁ exH = some { rows := 2, cols := 3, m := [[0, 5, 0], [0, 0, 5]] } := by decide
example : exS₂ "aaaaaaaaaaaaaaaa0" = some (.list ["0", "7", "0"]) := by decide
example : (cmsCount exH [1, 2] exS₂).2 = some 5 := by decide
example : (cmsCount exH [1, 0] exS₂).2 = some 2 := by decide
example : ((CMS.new 2 3).update [1, 2] 5 |>.update [1, 0] 2 |>.count [1, 2]) = 5 := by decide
/-- a store that does not represent a sketch (missing rows) has no abstraction … -/
example : absCMS Store.empty exH = none := by decide
/-- … and the script fails on it, as does an out-of-range column. -/
example : (cmsUpdate exH [1, 2] 5 Store.empty).2 = none := by decide
example : (cmsUpdate exH [1, 7] 5 exS₀).2 = none := by decide

def exHL : HLLHandle := { m := 4, key := "bbbbbbbbbbbbbbbb", metadataKey := "bbbbbbbbbbbbbbbc" }
def exHL' : HLLHandle := { m := 4, key := "cccccccccccccccc", metadataKey := "cccccccccccccccd" }
def exT₀ : Store := (hllInit exHL' (hllInit exHL Store.empty).1).1
def exT₁ : Store := (hllUpdate exHL' 0 9 (hllUpdate exHL 1 3 (hllUpdate exHL 2 7 exT₀).1).1).1

example : absHLL exT₀ exHL = some (HLL.new 4) := by decide
example : absHLL exT₁ exHL = some { m := 4, regs := [0, 3, 7, 0] } := by decide
example : absHLL (hllMerge exHL exHL' exT₁).1 exHL = some { m := 4, regs := [9, 3, 7, 0] } := by decide
example : (hllEquals exHL exHL' exT₁).2 = some false := by decide
example : (hllEquals exHL exHL exT₁).2 = some true := by decide
example : (hllUpdate exHL 4 1 exT₁).2 = none := by decide
example : HLL.update { m := 4, regs := [0, 3, 7, 0] } 4 1 = .panic := by decide

def exB : BloomHandle := { size := 10, k := 2, bitsetKey := "dddddddddddddddd", metadataKey := "ddddddddddddddde" }
def exU₀ : Store := (bloomInit exB Store.empty).1
def exU₁ : Store := (bloomInsert exB [1, 9] exU₀).1

example : absBloom exU₀ exB = some (Bloom.new 10 2) := by decide
/-- bit 1 is `0x40` of byte 0, bit 9 is `0x40` of byte 1 (most significant bit first). -/
example : exU₁ "dddddddddddddddd" = some (.str [0x40, 0x40, 0, 0, 0, 0, 0, 0, 0, 0]) := by decide
example : absBloom exU₁ exB = some ((Bloom.new 10 2).insert [1, 9]) := by decide
example : (bloomLookup exB [1, 9] exU₁).2 = some true := by decide
example : (bloomLookup exB [1, 8] exU₁).2 = some false := by decide

end examples

end Gostatix.Redis
