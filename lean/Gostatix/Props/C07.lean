/-
  C07 — in-memory structures under concurrent use.

  What is proved here (for ALL schedules, all thread counts, all call bodies):
   * a schedule of calls `acq; body; rel` that respects the mutex is equal — final state and the
     result of every call — to the SEQUENTIAL execution of the calls in lock-acquisition order
     (`C07_serializable`); that order keeps every thread's program order
     (`C07_program_order_preserved`) and contains every call exactly once (`C07_no_lost_update`).
   * for Bloom / Count-Min / HyperLogLog the update steps commute, so the final state does not
     depend on the order at all (`C07_order_independent_*`,
     `C07_any_interleaving_equals_sequential`).
  What is NOT proved here: that the Go methods really are of the shape `acq; body; rel`, i.e. that
  every access to mutable state is inside a critical section of the receiver's mutex.  That
  premise is the obligation `Conc.lockDisciplineOK table = true` over the table the extractor
  regenerates from the Go source on every run.  The Go memory model (a mutex orders the critical
  sections) is an assumption.
-/
import Gostatix.Proofs.Conc
namespace Gostatix
open Conc

universe u v

/-! ### serializability of mutex-guarded calls -/
section serial
variable {σ : Type u} {ρ : Type v}

/-- Every schedule of guarded calls that is valid for the mutex has the same final state and the
    same result for every call as running the calls one after another in the order in which the
    mutex was acquired. -/
theorem C07_serializable (threads : List (List (σ → σ × ρ))) (s : σ) (w : List Act)
    (hi : Interleaving (sched threads) w) (hv : validMutex w) :
    execConc threads s w = execSerial threads s (acqOrder w) := by
  unfold execConc execSerial
  rw [exec_stepAct_eq, bodies_eq_acqOrder hi hv]

theorem sched_calls (threads : List (List (σ → σ × ρ))) (t : Nat) :
    (((threads.map List.length)[t]?).getD 0) = ((threads[t]?).getD []).length := by
  rw [List.getElem?_map]; cases threads[t]? <;> rfl

/-- The serial order restricted to thread `t` is `t`'s calls in program order `0, 1, 2, …`:
    a caller's later calls come after its own completed updates. -/
theorem C07_program_order_preserved (threads : List (List (σ → σ × ρ))) (w : List Act)
    (hi : Interleaving (sched threads) w) (hv : validMutex w) (t : Nat) :
    (acqOrder w).filter (fun c => c.1 == t)
      = (List.range ((threads[t]?).getD []).length).map (fun i => (t, i)) := by
  rw [← bodies_eq_acqOrder hi hv, bodiesOf_filter, proj_progs hi t, bodiesOf_prog, sched_calls]

/-- same, as a subsequence statement -/
theorem C07_own_writes_visible (threads : List (List (σ → σ × ρ))) (w : List Act)
    (hi : Interleaving (sched threads) w) (hv : validMutex w) (t : Nat) :
    ((List.range ((threads[t]?).getD []).length).map (fun i => (t, i))).Sublist (acqOrder w) := by
  rw [← C07_program_order_preserved threads w hi hv t]
  exact List.filter_sublist

theorem acqOrder_perm_allCalls {ns : List Nat} {w : List Act} (hi : Interleaving (progs ns) w)
    (hv : validMutex w) : (acqOrder w).Perm (allCalls ns) := by
  rw [← bodies_eq_acqOrder hi hv, allCalls, ← bodiesOf_flatten_progsFrom]
  exact bodiesOf_perm hi.perm

/-- The serial order is a permutation of all calls, without repetition: every call's body is
    applied exactly once. -/
theorem C07_no_lost_update (threads : List (List (σ → σ × ρ))) (w : List Act)
    (hi : Interleaving (sched threads) w) (hv : validMutex w) :
    (acqOrder w).Perm (allCalls (threads.map List.length)) ∧
    (allCalls (threads.map List.length)).Nodup ∧
    ∀ c ∈ allCalls (threads.map List.length), (acqOrder w).count c = 1 := by
  have hp := acqOrder_perm_allCalls hi hv
  have hn := callIdsFrom_nodup 0 (threads.map List.length)
  refine ⟨hp, hn, ?_⟩
  intro c hc
  rw [hp.count_eq c]
  rw [allCalls] at hc
  simp [allCalls, hn.count, hc]

/-- the call ids are exactly the positions that hold a body -/
theorem C07_calls_are_bodies (threads : List (List (σ → σ × ρ))) (c : CallId) :
    c ∈ allCalls (threads.map List.length) ↔ (bodyAt threads c).isSome = true := by
  rw [allCalls, mem_callIdsFrom]
  simp only [Nat.zero_le, true_and, Nat.sub_zero, List.getElem?_map, bodyAt]
  cases h : threads[c.1]? with
  | none => simp
  | some calls =>
    simp only [Option.map_some, Option.some.injEq, exists_eq_left']
    constructor
    · intro hlt; simp [List.getElem?_eq_getElem hlt]
    · intro hs
      rcases Nat.lt_or_ge c.2 calls.length with h | h
      · exact h
      · simp [List.getElem?_eq_none h] at hs

theorem filterMap_getElem?_range {β : Type u} (l : List β) :
    (List.range l.length).filterMap (fun i => l[i]?) = l := by
  induction l with
  | nil => rfl
  | cons a l ih =>
    simp only [List.length_cons, List.range_succ_eq_map, List.filterMap_cons, List.getElem?_cons_zero,
      List.filterMap_map]
    congr 1

theorem filterMap_bodyAt_callIdsFrom (all ths : List (List (σ → σ × ρ))) (t : Nat)
    (h : ∀ i, all[t + i]? = ths[i]?) :
    (callIdsFrom t (ths.map List.length)).filterMap (bodyAt all) = ths.flatten := by
  induction ths generalizing t with
  | nil => rfl
  | cons x xs ih =>
    simp only [List.map_cons, callIdsFrom, List.filterMap_append, List.flatten_cons, List.filterMap_map]
    have h0 : all[t]? = some x := by simpa using h 0
    have hx : (bodyAt all ∘ fun i => (t, i)) = fun i => x[i]? := by
      funext i; simp [bodyAt, h0]
    rw [hx, filterMap_getElem?_range, ih (t + 1)]
    intro i
    have := h (i + 1)
    rw [List.getElem?_cons_succ] at this
    rw [← this]; congr 1; omega

/-- the state part of a serial execution is the fold of the bodies -/
theorem execSerial_state (threads : List (List (σ → σ × ρ))) (r : σ × List (CallId × ρ))
    (order : List CallId) :
    (exec (runCall threads) r order).1
      = (order.filterMap (bodyAt threads)).foldl (fun s f => (f s).1) r.1 := by
  induction order generalizing r with
  | nil => rfl
  | cons c order ih =>
    simp only [exec, List.foldl_cons] at ih ⊢
    rw [ih]
    cases hb : bodyAt threads c with
    | none => simp [runCall, hb]
    | some f => simp [runCall, hb]

/-- **no lost update, on the state**: the final state of every valid schedule is the result of
    applying the bodies of ALL calls of all threads, each exactly once, in some order. -/
theorem C07_final_state_applies_all_bodies (threads : List (List (σ → σ × ρ))) (s : σ) (w : List Act)
    (hi : Interleaving (sched threads) w) (hv : validMutex w) :
    ∃ l : List (σ → σ × ρ), l.Perm threads.flatten ∧
      (execConc threads s w).1 = l.foldl (fun s f => (f s).1) s := by
  refine ⟨(acqOrder w).filterMap (bodyAt threads), ?_, ?_⟩
  · have hp := acqOrder_perm_allCalls hi hv
    have := hp.filterMap (bodyAt threads)
    rw [allCalls, filterMap_bodyAt_callIdsFrom threads threads 0 (by intro i; simp)] at this
    exact this
  · rw [C07_serializable threads s w hi hv, execSerial, execSerial_state]

end serial

/-! ### order-independent structures -/

/-- generic: pairwise commuting steps ⇒ the fold only depends on the multiset of steps -/
theorem C07_perm_foldl_of_commute {σ : Type u} {α : Type v} (f : σ → α → σ)
    (hc : ∀ s a b, f (f s a) b = f (f s b) a) {l₁ l₂ : List α} (p : l₁.Perm l₂) (s : σ) :
    l₁.foldl f s = l₂.foldl f s :=
  foldl_perm_of_commute hc p s

/-- generic: with commuting steps EVERY interleaving of the threads' update lists ends in the
    state of running the threads one after another. -/
theorem C07_any_interleaving_equals_sequential {σ : Type u} {α : Type v} (f : σ → α → σ)
    (hc : ∀ s a b, f (f s a) b = f (f s b) a) (ts : List (List α)) (w : List α)
    (hi : Interleaving ts w) (s : σ) :
    exec f s w = execThreads f s ts :=
  exec_interleaving_of_commute hc hi s

/-- `Bloom.insert` calls: any two orders of the same multiset of calls give the same filter. -/
theorem C07_order_independent_bloom (b : Bloom) (l₁ l₂ : List (List Nat)) (p : l₁.Perm l₂) :
    l₁.foldl Bloom.insert b = l₂.foldl Bloom.insert b :=
  foldl_perm_of_commute Bloom.insert_commute p b

/-- `CMS.update` calls (element positions, count): any order gives the same matrix.  No
    well-formedness of the matrix is needed. -/
theorem C07_order_independent_cms (s : CMS) (l₁ l₂ : List (List Nat × Nat)) (p : l₁.Perm l₂) :
    l₁.foldl (fun s u => s.update u.1 u.2) s = l₂.foldl (fun s u => s.update u.1 u.2) s :=
  foldl_perm_of_commute cmsStep_commute p s

/-- `HLL.upd` calls (register index, value): any order gives the same registers. -/
theorem C07_order_independent_hll (regs : List Nat) (l₁ l₂ : List (Nat × Nat)) (p : l₁.Perm l₂) :
    l₁.foldl HLL.upd regs = l₂.foldl HLL.upd regs :=
  foldl_perm_of_commute HLL.upd_commute p regs

theorem C07_any_interleaving_bloom (b : Bloom) (ts : List (List (List Nat))) (w : List (List Nat))
    (hi : Interleaving ts w) : exec Bloom.insert b w = execThreads Bloom.insert b ts :=
  exec_interleaving_of_commute Bloom.insert_commute hi b

theorem C07_any_interleaving_cms (s : CMS) (ts : List (List (List Nat × Nat))) (w : List (List Nat × Nat))
    (hi : Interleaving ts w) : exec cmsStep s w = execThreads cmsStep s ts :=
  exec_interleaving_of_commute cmsStep_commute hi s

theorem C07_any_interleaving_hll (regs : List Nat) (ts : List (List (Nat × Nat))) (w : List (Nat × Nat))
    (hi : Interleaving ts w) : exec HLL.upd regs w = execThreads HLL.upd regs ts :=
  exec_interleaving_of_commute HLL.upd_commute hi regs

/-- mutex model and commutation together: threads of guarded `Insert` calls on one Bloom filter,
    ANY valid schedule: the final filter is the fold of all inserts in ANY order. -/
theorem C07_bloom_concurrent_inserts (b : Bloom) (threads : List (List (List Nat))) (w : List Act)
    (hi : Interleaving (sched (threads.map (List.map (fun ps (b : Bloom) => (b.insert ps, ()))))) w)
    (hv : validMutex w) (order : List (List Nat)) (ho : order.Perm threads.flatten) :
    (execConc (threads.map (List.map (fun ps (b : Bloom) => (b.insert ps, ())))) b w).1
      = order.foldl Bloom.insert b := by
  obtain ⟨l, hl, he⟩ := C07_final_state_applies_all_bodies _ b w hi hv
  rw [he]
  have hflat : (threads.map (List.map (fun ps (b : Bloom) => (b.insert ps, ())))).flatten
      = threads.flatten.map (fun ps (b : Bloom) => (b.insert ps, ())) := by
    rw [List.map_flatten]
  rw [hflat] at hl
  -- fold over the bodies = fold of `Bloom.insert` over the probe lists
  have hfold : ∀ (ps : List (List Nat)) (s : Bloom),
      (ps.map (fun ps (b : Bloom) => (b.insert ps, ()))).foldl (fun s f => (f s).1) s
        = ps.foldl Bloom.insert s := by
    intro ps; induction ps with
    | nil => intro s; rfl
    | cons p ps ih => intro s; simp only [List.map_cons, List.foldl_cons]; exact ih _
  -- the bodies that occur are inserts, and inserts commute
  have hcomm : ∀ f ∈ l, ∀ g ∈ l, ∀ s : Bloom, (g (f s).1).1 = (f (g s).1).1 := by
    intro f hf g hg s
    obtain ⟨p, _, rfl⟩ := List.mem_map.1 (hl.mem_iff.1 hf)
    obtain ⟨q, _, rfl⟩ := List.mem_map.1 (hl.mem_iff.1 hg)
    exact Bloom.insert_commute s p q
  rw [foldl_perm_of_commute_on hl hcomm, hfold]
  exact C07_order_independent_bloom b _ _ ho.symm

/-! ### the lock-table obligation is decidable, and not vacuous -/

/-- what a passing table says: every non-exempt method that touches mutable state does so under
    the receiver's mutex, and writers hold the exclusive lock. -/
theorem C07_lock_discipline_meaning (table : List MethodFact) (h : lockDisciplineOK table = true) :
    ∀ m ∈ table, m.exempt = false → m.touchesMutable = true →
      m.guarded = true ∧ (m.writesMutable = true → m.exclusive = true) := by
  intro m hm he ht
  have := List.all_eq_true.1 h m hm
  simp only [MethodFact.ok, he, ht, Bool.false_or, Bool.not_true, Bool.and_eq_true,
    Bool.or_eq_true, Bool.not_eq_true'] at this
  refine ⟨this.1, fun hw => ?_⟩
  rcases this.2 with h | h
  · rw [hw] at h; cases h
  · exact h

example : lockDisciplineOK
    [ ⟨"CountMinSketch", "Update", true, true, true, true, false⟩,
      ⟨"CountMinSketch", "Count", true, false, true, false, false⟩,
      ⟨"CountMinSketch", "Import", true, true, false, false, true⟩ ] = true := by decide

/-- an unguarded writer (Top-K without a mutex, defect D20) fails the obligation -/
example : lockDisciplineOK [ ⟨"TopK", "Insert", true, true, false, false, false⟩ ] = false := by decide
/-- a writer that only takes the read lock fails too -/
example : lockDisciplineOK [ ⟨"HyperLogLog", "Reset", true, true, true, false, false⟩ ] = false := by decide

/-! ### non-vacuity: two threads of two inserts each, one explicit valid schedule -/
namespace C07Example

def ins (ps : List Nat) : Bloom → Bloom × Bool := fun b => (b.insert ps, b.lookup ps)

/-- thread 0 inserts probes [0,1] then [2,5]; thread 1 inserts [1,3] then [0,1] -/
def threads : List (List (Bloom → Bloom × Bool)) := [[ins [0, 1], ins [2, 5]], [ins [1, 3], ins [0, 1]]]

/-- thread 0's first call, both calls of thread 1, thread 0's second call -/
def w : List Act :=
  [.acq 0, .body 0 0, .rel 0, .acq 1, .body 1 0, .rel 1, .acq 1, .body 1 1, .rel 1, .acq 0, .body 0 1, .rel 0]

theorem w_interleaving : Interleaving (sched threads) w :=
  Interleaving.of_pick (is := [0, 0, 0, 1, 1, 1, 1, 1, 1, 0, 0, 0]) (by decide)

theorem w_valid : validMutex w := by decide

/-- a schedule in which thread 1 takes the mutex inside thread 0's critical section is rejected -/
example : ¬ validMutex [.acq 0, .acq 1, .body 0 0, .body 1 0, .rel 0, .rel 1] := by decide

theorem w_order : acqOrder w = [(0, 0), (1, 0), (1, 1), (0, 1)] := by decide

/-- `C07_serializable` instantiated, with the concrete final filter and results: the second
    `[0,1]` insert (call (1,1)) sees the bits thread 0 set — result `true`. -/
example :
    execConc threads (Bloom.new 8 2) w = execSerial threads (Bloom.new 8 2) [(0, 0), (1, 0), (1, 1), (0, 1)] ∧
    (execConc threads (Bloom.new 8 2) w).1.bits = [true, true, true, true, false, true, false, false] ∧
    (execConc threads (Bloom.new 8 2) w).2 = [((0, 0), false), ((1, 0), false), ((1, 1), true), ((0, 1), false)] := by
  refine ⟨?_, by decide, by decide⟩
  rw [← w_order]; exact C07_serializable threads _ w w_interleaving w_valid

example : (acqOrder w).filter (fun c => c.1 == 1) = [(1, 0), (1, 1)] :=
  C07_program_order_preserved threads w w_interleaving w_valid 1

example : (acqOrder w).Perm [(0, 0), (0, 1), (1, 0), (1, 1)] :=
  (C07_no_lost_update threads w w_interleaving w_valid).1

/-- order independence: the four inserts in program order of thread 1 then thread 0 -/
example : (execConc threads (Bloom.new 8 2) w).1
    = [[1, 3], [0, 1], [0, 1], [2, 5]].foldl Bloom.insert (Bloom.new 8 2) := by decide

end C07Example

end Gostatix
