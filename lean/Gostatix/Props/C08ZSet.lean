/-
  C08 (Top-K part) — the Redis sorted set behind `TopKRedis` computes `TopK.offerRedis`.

  `TopK.offerRedis k z x f` (Model/TopK.lean) models the heap part of `TopKRedis.Insert` as a
  function on a list sorted by (score, member); the Top-K theorems about the Redis variant are
  stated over it.  Model/RedisTopK.lean goes one level down: the heap is the sorted-set value at
  `heapKey` of a `Store`, with the commands ZCARD, ZRANGE 0 0, ZSCORE, ZREM, ZADD, ZPOPMIN,
  ZRANGE 0 -1, and `topkInsertCmds` is the exact sequence of separate commands issued by
  top_k_redis.go (including `if index > 0 { ZREM }` where `index` is the ZSCORE reply).
  `absZSet st key` reads the list back, provided it is canonical (`ZWf`: sorted by
  (score, member), members pairwise different) — the form in which `ZRANGE 0 -1` lists any
  sorted set.

  * `C08_topk_insert_cmds` — on a store with `absZSet st heapKey = some z`, the command
    sequence run ALONE (no other client between the commands; the check-then-act window is known
    finding D21) succeeds, leaves a store with `absZSet = some (offerRedis k z x f)`, and touches
    no other key.  No precondition on the scores: a member whose score is 0 is not ZREM'd by the
    Go code (`index > 0` is false), but ZADD replaces its entry anyway, so the result is the same
    (`C08_zset_zadd_zrem`); the example below runs that case.
  * `C08_zset_*` — the commands keep the canonical form, and on it they mean what Redis means:
    the head is the (score, member)-minimum, ZSCORE is the score of the member's only entry,
    ZADD yields the entries of the other members plus the new pair.
  * `C08_topk_values` — `Values()` = `TopK.values` of the set (the Go-side reversal is irrelevant).
  * `C19_frame_topk_insert_cmds`, `C19_frame_topk_values` — `SupportedOn [heapKey]`.
-/
import Gostatix.Proofs.RedisZSet
import Gostatix.Proofs.RedisFrameOps
namespace Gostatix.Redis
open Gostatix.TopK

/-! ### the command sequence of `TopKRedis.Insert` -/

theorem C08_topk_insert_cmds (st : Store) (heapKey : String) (k : Nat) (x : String) (f : Nat)
    (z : List HElem) (habs : absZSet st heapKey = some z) :
    ∃ st', topkInsertCmds heapKey k x f st = (st', some ()) ∧
      absZSet st' heapKey = some (TopK.offerRedis k z x f) ∧
      ∀ key, key ≠ heapKey → st' key = st key :=
  topkInsertCmds_abs st heapKey k x f z habs

/-- the same on the raw content (no canonical-form hypothesis is needed for the equation). -/
theorem C08_topk_insert_cmds_raw (st : Store) (heapKey : String) (k : Nat) (x : String) (f : Nat)
    (z : List HElem) (hz : zsetAt st heapKey = some z) :
    ∃ st', topkInsertCmds heapKey k x f st = (st', some ()) ∧
      zsetAt st' heapKey = some (TopK.offerRedis k z x f) ∧
      ∀ key, key ≠ heapKey → st' key = st key :=
  topkInsertCmds_spec st heapKey k x f z hz

/-- a whole history of inserts (estimates given): every command sequence succeeds and the store
    represents the model's heap after the same offers. -/
theorem C08_topk_insert_history (heapKey : String) (k : Nat) (xs : List (String × Nat)) :
    ∀ (st : Store) (z : List HElem), absZSet st heapKey = some z →
    ∃ st', runOps (xs.map fun xf => topkInsertCmds heapKey k xf.1 xf.2) st
        = (st', xs.map fun _ => some ()) ∧
      absZSet st' heapKey = some (xs.foldl (fun z xf => TopK.offerRedis k z xf.1 xf.2) z) := by
  induction xs with
  | nil => intro st z h; exact ⟨st, rfl, h⟩
  | cons xf xs ih =>
    intro st z h
    obtain ⟨st₁, hrun, habs₁, _⟩ := C08_topk_insert_cmds st heapKey k xf.1 xf.2 z h
    obtain ⟨st', hrun', habs'⟩ := ih st₁ _ habs₁
    refine ⟨st', ?_, habs'⟩
    simp only [List.map_cons, runOps, hrun, hrun']

/-- `Values()`: ZRANGE 0 -1, reversed, sorted by (count descending, element ascending). -/
theorem C08_topk_values (st : Store) (heapKey : String) (z : List HElem)
    (habs : absZSet st heapKey = some z) :
    topkValues heapKey st = (st, some (TopK.values z)) := by
  obtain ⟨hz, _⟩ := (absZSet_eq_some_iff _ _ _).mp habs
  rw [topkValues_abs st heapKey z hz, values_eq_of_perm (List.reverse_perm z)]

/-! ### the sorted-set commands on the canonical form -/

theorem C08_zset_abs_iff (st : Store) (key : String) (z : List HElem) :
    absZSet st key = some z ↔
      (st key = none ∧ z = [] ∨ st key = some (.zset z)) ∧
      z.Pairwise (fun a b => zLt a b = true) ∧ (z.map (·.1)).Nodup := by
  rw [absZSet_eq_some_iff]
  refine and_congr ?_ Iff.rfl
  unfold zsetAt
  constructor
  · intro h
    split at h
    · rename_i h0; cases h; exact Or.inl ⟨h0, rfl⟩
    · rename_i z' h0; cases h; exact Or.inr h0
    · cases h
  · rintro (⟨h0, rfl⟩ | h0) <;> rw [h0]

/-- ZRANGE 0 0 / ZPOPMIN: the head of the canonical list is strictly below every other element
    in the sorted-set order, in particular its score is minimal. -/
theorem C08_zset_head_min (m : HElem) (t : List HElem) (h : ZWf (m :: t)) :
    ∀ p ∈ t, zLt m p = true ∧ m.2 ≤ p.2 :=
  fun p hp => ⟨head_min m t h p hp, zLt_freq_le m p (head_min m t h p hp)⟩

/-- ZSCORE: the score of the member's only entry. -/
theorem C08_zset_zscore (z : List HElem) (x : String) (n : Nat) (h : ZWf z) :
    zscore z x = some n ↔ (x, n) ∈ z := zscore_eq_some_iff z x n h

/-- ZADD keeps the canonical form; its entries are those of the other members and `(x, f)`. -/
theorem C08_zset_zadd (z : List HElem) (x : String) (f : Nat) (h : ZWf z) :
    ZWf (zadd z x f) ∧ (zadd z x f).Perm (z.filter (fun e => e.1 ≠ x) ++ [(x, f)]) :=
  ⟨zadd_wf z x f h, zadd_perm z x f⟩

theorem C08_zset_zrem (z : List HElem) (x : String) (h : ZWf z) :
    ZWf (zrem z x) ∧ ∀ e, e ∈ zrem z x ↔ e ∈ z ∧ e.1 ≠ x := by
  refine ⟨zrem_wf z x h, fun e => ?_⟩
  unfold zrem; simp [List.mem_filter]

theorem C08_zset_zpopmin (z : List HElem) (h : ZWf z) : ZWf z.tail := tail_wf z h

/-- why the Go code's `if index > 0 { ZREM }` is harmless either way. -/
theorem C08_zset_zadd_zrem (z : List HElem) (x : String) (f : Nat) :
    zadd (zrem z x) x f = zadd z x f := zadd_zrem z x f

/-- every command writes back a canonical set. -/
theorem C08_zset_cmds_wf (st : Store) (key : String) (z : List HElem) (x : String) (f : Nat)
    (habs : absZSet st key = some z) :
    absZSet (cmdZADD key x f st).1 key = some (zadd z x f) ∧
    absZSet (cmdZREM key x st).1 key = some (zrem z x) ∧
    absZSet (cmdZPOPMIN key st).1 key = some z.tail ∧
    cmdZCARD key st = (st, some z.length) ∧
    cmdZRANGE0 key st = (st, some (z.take 1)) ∧
    cmdZSCORE key x st = (st, some (zscore z x)) ∧
    cmdZRANGEALL key st = (st, some z) := by
  obtain ⟨hz, hw⟩ := (absZSet_eq_some_iff _ _ _).mp habs
  refine ⟨?_, ?_, ?_, cmdZCARD_eq hz, cmdZRANGE0_eq hz, cmdZSCORE_eq hz x, cmdZRANGEALL_eq hz⟩
  · rw [cmdZADD_eq hz]
    exact (absZSet_eq_some_iff _ _ _).mpr ⟨zsetAt_zsetPut _ _ _, zadd_wf z x f hw⟩
  · rw [cmdZREM_eq hz]
    exact (absZSet_eq_some_iff _ _ _).mpr ⟨zsetAt_zsetPut _ _ _, zrem_wf z x hw⟩
  · rw [cmdZPOPMIN_eq hz]
    exact (absZSet_eq_some_iff _ _ _).mpr ⟨zsetAt_zsetPut _ _ _, tail_wf z hw⟩

/-! ### frames -/

theorem C19_frame_topk_insert_cmds (heapKey : String) (k : Nat) (x : String) (f : Nat) :
    SupportedOn [heapKey] (topkInsertCmds heapKey k x f) := supported_topkInsertCmds heapKey k x f

theorem C19_frame_topk_values (heapKey : String) : SupportedOn [heapKey] (topkValues heapKey) :=
  supported_topkValues heapKey

/-- … hence on the key set of the Top-K handle. -/
theorem C19_frame_topk_in_handle {ρ : Type} (h : TopKHandle) (op : Op ρ)
    (hop : SupportedOn [h.heapKey] op) : SupportedOn h.keysOf op := by
  refine hop.mono ?_
  intro key hk
  simp only [List.mem_cons, List.not_mem_nil, or_false] at hk
  subst hk
  unfold TopKHandle.keysOf TopKHandle.descr
  exact List.mem_map.mpr ⟨KeyD.base h.heapKey, by simp, rfl⟩

/-! ### non-vacuity: concrete runs -/

section examples

def exHeap : String := "Zaaaaaaaaaaaaaaa"
/-- k = 2: offers (a,3) (b,1) (c,2) (b,5) -/
def exZ₁ : Store := (topkInsertCmds exHeap 2 "a" 3 Store.empty).1
def exZ₂ : Store := (topkInsertCmds exHeap 2 "b" 1 exZ₁).1
def exZ₃ : Store := (topkInsertCmds exHeap 2 "c" 2 exZ₂).1
def exZ₄ : Store := (topkInsertCmds exHeap 2 "b" 5 exZ₃).1

example : absZSet Store.empty exHeap = some [] := by decide
example : exZ₁ exHeap = some (.zset [("a", 3)]) := by decide
example : absZSet exZ₂ exHeap = some [("b", 1), ("a", 3)] := by decide
/-- (c,2) ≥ min 1: added, then ZPOPMIN evicts (b,1) -/
example : absZSet exZ₃ exHeap = some [("c", 2), ("a", 3)] := by decide
example : absZSet exZ₄ exHeap = some [("a", 3), ("b", 5)] := by decide
example : (topkInsertCmds exHeap 2 "b" 5 exZ₃).2 = some () := by decide
example : TopK.offerRedis 2 (TopK.offerRedis 2 (TopK.offerRedis 2 (TopK.offerRedis 2 [] "a" 3) "b" 1) "c" 2) "b" 5
    = [("a", 3), ("b", 5)] := by decide
/-- an offer below the minimum of a full set changes nothing -/
example : absZSet (topkInsertCmds exHeap 2 "d" 1 exZ₄).1 exHeap = some [("a", 3), ("b", 5)] := by decide
/-- an existing member is re-scored, not duplicated (ZSCORE 3 > 0: ZREM, ZADD) -/
example : absZSet (topkInsertCmds exHeap 2 "a" 9 exZ₄).1 exHeap = some [("b", 5), ("a", 9)] := by decide
example : (topkValues exHeap exZ₄).2 = some [("b", 5), ("a", 3)] := by decide
/-- ties in the score are ordered by member -/
example : absZSet (topkInsertCmds exHeap 3 "aa" 5 exZ₄).1 exHeap = some [("a", 3), ("aa", 5), ("b", 5)] := by
  decide

/-- a member with score 0 (unreachable through `Insert`, whose counts are ≥ 1, but possible
    through `Import`): `index > 0` is false, no ZREM, and ZADD still replaces the entry. -/
def exZ0 : Store := Store.empty.set exHeap (.zset [("a", 0), ("b", 4)])
example : absZSet exZ0 exHeap = some [("a", 0), ("b", 4)] := by decide
example : (cmdZSCORE exHeap "a" exZ0).2 = some (some 0) := by decide
example : absZSet (topkInsertCmds exHeap 2 "a" 7 exZ0).1 exHeap = some [("b", 4), ("a", 7)] := by decide
example : TopK.offerRedis 2 [("a", 0), ("b", 4)] "a" 7 = [("b", 4), ("a", 7)] := by decide

/-- k = 0: an accepted offer is added and the minimum popped at once. -/
example : (topkInsertCmds exHeap 0 "a" 1 exZ0).1 exHeap = some (.zset [("b", 4)]) := by decide
/-- popping the last element deletes the key, as Redis does. -/
example : (cmdZPOPMIN exHeap exZ₁).1 exHeap = none := by decide
/-- a non-canonical list is not the content of a sorted set; another type is an error. -/
example : absZSet (Store.empty.set exHeap (.zset [("b", 4), ("a", 0)])) exHeap = none := by decide
example : absZSet (Store.empty.set exHeap (.zset [("a", 1), ("a", 2)])) exHeap = none := by decide
example : (topkInsertCmds exHeap 2 "a" 1 (Store.empty.set exHeap (.list ["x"]))).2 = none := by decide

end examples

end Gostatix.Redis
