/-
  C09 (stability) — a Redis-backed structure can be re-attached through its metadata key at ANY
  point of a history, not only right after its creation.

  Props/C09.lean proves `attach (create h s) = some h` and that an operation framed by a key set
  NOT containing the metadata key cannot change what attach reads
  (`C09_attach_after_foreign_op`).  The C19 frames of a structure's OWN operations are stated on
  `h.keysOf`, which contains the metadata key, so they cannot be fed into that theorem.  Here:

  1. `C09_frame_<op>_data` — every modelled operation of every structure is `SupportedOn` the DATA
     keys of its handle: `h.dataKeys` = `h.keysOf` minus the metadata key (`keysMinus`; for Top-K
     minus its own AND the nested sketch's metadata key, because `NewTopKRedisFromKey` reads both).
       Count-Min: init, update, count, merge      HyperLogLog: init, update, merge, equals
       Bloom: init (`newBitSetRedis`), insert, lookup
       Top-K: `topkInsertCmds`, `topkValues`, the nested sketch's init/update/count, and the whole
              `TopKRedis.Insert` (`topkInsert` = Update (error dropped); Count; sorted-set commands)
       Cuckoo: the nine bucket operations of bucket_redis.go on any bucket `i < n`.
     The frame of `hllEquals` did not exist; it is proved here (`C09_frame_hll_equals_all`).
     Hypothesis of every frame: no data key is SPELLED like the metadata key (`RowsAvoid`,
     `key ≠ metadataKey`, `MetaSep`, `BucketsAvoid`).  It follows from the C19 hypotheses — base
     keys are 16 letters and pairwise different (`C09_sep_*_of_isBase`) — and it is needed:
     `C09_frame_*_needs_sep` are concrete handles for which the frame is FALSE.
     The three accessors of the cuckoo filter's `length` field are NOT framed by the data keys
     (`C09_cuckoo_incrLength_not_data`): they write the metadata hash.  See 3.
  2. `C09_attach_stable(_cms|_hll|_bloom|_cuckoo|_topk)` — `op` `SupportedOn K`, metadata key `∉ K`
     ⇒ attach after `op` = attach before.  For Top-K the key named by the `sketchKey` field must
     be outside `K` too (`C09_attach_stable_topk_needs_sketch`: deleting the sketch's hash breaks it).
  3. `C09_attach_stable_cuckoo_length` — `cuckooAttach` is insensitive to the `length` field:
     `HINCRBY metadataKey "length" d` (what `Insert`/`Remove` issue) never changes what it returns,
     whatever the key holds (absent, hash with/without the field, unparsable field, wrong type).
     Contrast `C09_cuckoo_other_field_matters`: the same on field `size` does change it.
  4. `C09_attach_any_time_<x>` — after `create`, ANY list of steps, each of which is an own
     operation of the handle (`…Handle.Step`, one constructor per operation above, arguments
     arbitrary) or ANY store transformer that keeps the metadata key (`other`: in particular every
     operation of every other structure, by C19), attach still returns `some h` — the same
     parameters and base keys, hence the same Redis keys and the same operations.  The list is
     arbitrary, so this covers adaptive clients (every run is some list) and every intermediate
     point (every prefix is a list).  `C09_attach_history_<x>`: the same from any start store.
     `…_base` variants take the C19 hypotheses instead of the separation predicates.

  NOT proved / left out:
    * the cuckoo filter's `Insert`/`Remove`/`Lookup` as single store-level operations (they are
      not modelled as such: Model/RedisCuckoo.lean has the bucket operations and the `length`
      accessors they are composed of; every composition of those is a list of steps here);
    * `Export`/`Import` (Import does not rewrite the metadata hash: finding D25) and the
      metadata-writing constructors as steps — `cuckooSetMetadata` with any `length` is covered as
      the CREATING step only;
    * necessity, at the level of ATTACH, of the hypotheses on the OTHER handle `g` of a merge/equals
      step (`g.RowsAvoid h.metadataKey`, `g.key ≠ h.metadataKey`) and of the separation hypotheses
      of HyperLogLog and Cuckoo: they are what the frame argument needs, and the FRAMES are false
      without them (`C09_frame_hll_needs_sep`, `C09_frame_bucket_needs_sep`), but in the model a
      script that meets the metadata hash where it expects a list or a string aborts with
      WRONGTYPE before it writes, so attach may well survive; neither that nor the contrary is
      proved.  For Count-Min, Bloom and Top-K the hypothesis IS needed at the attach level
      (`C09_attach_any_time_{cms,bloom,topk}_needs_sep`: `DEL`/`SET` do not check types).
  Helpers: Gostatix/Proofs/C09Stable.lean.  Core Lean only.
-/
import Gostatix.Proofs.C09Stable
import Gostatix.Props.C09
import Gostatix.Props.C19
namespace Gostatix.Redis

/-! ### 0. data keys and the separation hypotheses -/

/-- the data keys are `keysOf` minus the metadata key(s) — by definition. -/
theorem C09_dataKeys_def (c : CMSHandle) (y : HLLHandle) (b : BloomHandle) (f : CuckooHandle)
    (t : TopKHandle) :
    c.dataKeys = keysMinus c.keysOf c.metadataKey ∧ y.dataKeys = keysMinus y.keysOf y.metadataKey ∧
    b.dataKeys = keysMinus b.keysOf b.metadataKey ∧ f.dataKeys = keysMinus f.keysOf f.metadataKey ∧
    t.dataKeys = keysMinus (keysMinus t.keysOf t.metadataKey) t.sketch.metadataKey :=
  ⟨rfl, rfl, rfl, rfl, rfl⟩

theorem C09_mem_keysMinus {K : List String} {mk k : String} :
    k ∈ keysMinus K mk ↔ k ∈ K ∧ k ≠ mk := mem_keysMinus

/-- the metadata key is not a data key (no hypothesis). -/
theorem C09_metadataKey_not_data (c : CMSHandle) (y : HLLHandle) (b : BloomHandle) (f : CuckooHandle)
    (t : TopKHandle) :
    c.metadataKey ∉ c.dataKeys ∧ y.metadataKey ∉ y.dataKeys ∧ b.metadataKey ∉ b.dataKeys ∧
    f.metadataKey ∉ f.dataKeys ∧ t.metadataKey ∉ t.dataKeys ∧ t.sketch.metadataKey ∉ t.dataKeys :=
  ⟨c.metadataKey_not_mem_dataKeys, y.metadataKey_not_mem_dataKeys, b.metadataKey_not_mem_dataKeys,
    f.metadataKey_not_mem_dataKeys, t.metadataKey_not_mem_dataKeys,
    t.sketchMetadataKey_not_mem_dataKeys⟩

/-- under the separation hypothesis the data keys are exactly the keys holding data. -/
theorem C09_dataKeys_cms (h : CMSHandle) (hsep : h.RowsAvoid h.metadataKey) :
    h.dataKeys = (List.range h.rows).map (cmsRowKey h.key) := h.dataKeys_eq hsep

theorem C09_dataKeys_hll (h : HLLHandle) (hne : h.key ≠ h.metadataKey) : h.dataKeys = [h.key] :=
  h.dataKeys_eq hne

theorem C09_dataKeys_bloom (h : BloomHandle) (hne : h.bitsetKey ≠ h.metadataKey) :
    h.dataKeys = [h.bitsetKey] := h.dataKeys_eq hne

/-- the separation hypotheses follow from the C19 hypotheses (16-letter base keys, pairwise
    different within the handle). -/
theorem C09_sep_cms_of_isBase (h : CMSHandle) (hb : ∀ b ∈ h.bases, IsBase b) :
    h.RowsAvoid h.metadataKey :=
  h.rowsAvoid_of_isBase (hb _ (by simp [CMSHandle.bases])) (hb _ (by simp [CMSHandle.bases]))

/-- … also against the metadata key of any OTHER handle (the hypothesis of the merge steps). -/
theorem C09_sep_cms_of_isBase_foreign (g : CMSHandle) (mk : String) (hg : IsBase g.key)
    (hmk : IsBase mk) : g.RowsAvoid mk := g.rowsAvoid_of_isBase hg hmk

theorem C09_sep_hll_of_nodup (h : HLLHandle) (hn : h.bases.Nodup) : h.key ≠ h.metadataKey := by
  simp only [HLLHandle.bases, List.nodup_cons, List.mem_cons, List.not_mem_nil, or_false] at hn
  exact hn.1

theorem C09_sep_bloom_of_nodup (h : BloomHandle) (hn : h.bases.Nodup) :
    h.bitsetKey ≠ h.metadataKey := by
  simp only [BloomHandle.bases, List.nodup_cons, List.mem_cons, List.not_mem_nil, or_false] at hn
  exact hn.1

theorem C09_sep_cuckoo_of_isBase (h : CuckooHandle) (hb : ∀ b ∈ h.bases, IsBase b) :
    h.BucketsAvoid h.metadataKey :=
  h.bucketsAvoid_of_isBase (hb _ (by simp [CuckooHandle.bases])) (hb _ (by simp [CuckooHandle.bases]))

theorem C09_sep_topk_of_isBase (h : TopKHandle) (hb : ∀ b ∈ h.bases, IsBase b) (hn : h.bases.Nodup) :
    h.MetaSep := h.metaSep_of_isBase hb hn

/-! ### 1. every own operation is framed by the data keys -/

/-! #### Count-Min Sketch -/

theorem C09_frame_cms_init_data (h : CMSHandle) (hsep : h.RowsAvoid h.metadataKey) :
    SupportedOn h.dataKeys (cmsInit h) := supported_cmsInit_data h hsep

/-- `pos` is `getPositions(data)`, one column per row (`len(pos) = rows`). -/
theorem C09_frame_cms_update_data (h : CMSHandle) (pos : List Nat) (count : Nat)
    (hlen : pos.length ≤ h.rows) (hsep : h.RowsAvoid h.metadataKey) :
    SupportedOn h.dataKeys (cmsUpdate h pos count) := supported_cmsUpdate_data h pos count hlen hsep

theorem C09_frame_cms_count_data (h : CMSHandle) (pos : List Nat) (hlen : pos.length ≤ h.rows)
    (hsep : h.RowsAvoid h.metadataKey) : SupportedOn h.dataKeys (cmsCount h pos) :=
  supported_cmsCount_data h pos hlen hsep

/-- `Merge` reads the argument's rows and writes the receiver's; neither metadata hash. -/
theorem C09_frame_cms_merge_data (h₁ h₂ : CMSHandle) (hsep₁ : h₁.RowsAvoid h₁.metadataKey)
    (hsep₂ : h₂.RowsAvoid h₂.metadataKey) :
    SupportedOn (h₁.dataKeys ++ h₂.dataKeys) (cmsMerge h₁ h₂) :=
  supported_cmsMerge_data h₁ h₂ hsep₁ hsep₂

/-! #### HyperLogLog -/

theorem C09_frame_hll_init_data (h : HLLHandle) (hne : h.key ≠ h.metadataKey) :
    SupportedOn h.dataKeys (hllInit h) := supported_hllInit_on _ h (h.key_mem_data hne)

theorem C09_frame_hll_update_data (h : HLLHandle) (idx val : Nat) (hne : h.key ≠ h.metadataKey) :
    SupportedOn h.dataKeys (hllUpdate h idx val) :=
  supported_hllUpdate_on _ h idx val (h.key_mem_data hne)

theorem C09_frame_hll_merge_data (h g : HLLHandle) (hne : h.key ≠ h.metadataKey)
    (gne : g.key ≠ g.metadataKey) : SupportedOn (h.dataKeys ++ g.dataKeys) (hllMerge h g) :=
  supported_hllMerge_on _ h g (List.mem_append_left _ (h.key_mem_data hne))
    (List.mem_append_right _ (g.key_mem_data gne))

/-- the C19-style frame of `Equals`, which was missing: two `LRANGE`s. -/
theorem C09_frame_hll_equals_all (h g : HLLHandle) : SupportedOn (h.keysOf ++ g.keysOf) (hllEquals h g) :=
  supported_hllEquals h g

theorem C09_frame_hll_equals_data (h g : HLLHandle) (hne : h.key ≠ h.metadataKey)
    (gne : g.key ≠ g.metadataKey) : SupportedOn (h.dataKeys ++ g.dataKeys) (hllEquals h g) :=
  supported_hllEquals_on _ h g (List.mem_append_left _ (h.key_mem_data hne))
    (List.mem_append_right _ (g.key_mem_data gne))

/-! #### Bloom filter -/

/-- `newBitSetRedis`: `SET bitsetKey <zero bytes>`. -/
theorem C09_frame_bloom_init_data (h : BloomHandle) (hne : h.bitsetKey ≠ h.metadataKey) :
    SupportedOn h.dataKeys (bloomInit h) := supported_SET (h.bitsetKey_mem_data hne) _

theorem C09_frame_bloom_insert_data (h : BloomHandle) (ps : List Nat)
    (hne : h.bitsetKey ≠ h.metadataKey) : SupportedOn h.dataKeys (bloomInsert h ps) :=
  supported_bloomInsertLoop _ _ (h.bitsetKey_mem_data hne) ps

theorem C09_frame_bloom_lookup_data (h : BloomHandle) (ps : List Nat)
    (hne : h.bitsetKey ≠ h.metadataKey) : SupportedOn h.dataKeys (bloomLookup h ps) :=
  supported_bloomLookupLoop _ _ (h.bitsetKey_mem_data hne) ps

/-! #### Top-K -/

/-- the sorted-set part of `Insert`, for any `k`, element and frequency. -/
theorem C09_frame_topk_insert_cmds_data (h : TopKHandle) (hsep : h.MetaSep) (k : Nat) (x : String)
    (f : Nat) : SupportedOn h.dataKeys (topkInsertCmds h.heapKey k x f) :=
  supported_topkInsertCmds_data h hsep k x f

theorem C09_frame_topk_values_data (h : TopKHandle) (hsep : h.MetaSep) :
    SupportedOn h.dataKeys (topkValues h.heapKey) := supported_topkValues_data h hsep

theorem C09_frame_topk_sketch_init_data (h : TopKHandle) (hsep : h.MetaSep) :
    SupportedOn h.dataKeys (cmsInit h.sketch) := supported_topkSketchInit_data h hsep

theorem C09_frame_topk_sketch_update_data (h : TopKHandle) (hsep : h.MetaSep) (pos : List Nat)
    (count : Nat) (hlen : pos.length ≤ h.sketch.rows) :
    SupportedOn h.dataKeys (cmsUpdate h.sketch pos count) :=
  supported_topkSketchUpdate_data h hsep pos count hlen

theorem C09_frame_topk_sketch_count_data (h : TopKHandle) (hsep : h.MetaSep) (pos : List Nat)
    (hlen : pos.length ≤ h.sketch.rows) : SupportedOn h.dataKeys (cmsCount h.sketch pos) :=
  supported_topkSketchCount_data h hsep pos hlen

/-- the whole `TopKRedis.Insert(data, count)` (`topkInsert`, Proofs/C09Stable.lean):
    `sketch.Update` with its error dropped, `sketch.Count`, then the sorted-set commands with the
    frequency just read. -/
theorem C09_frame_topk_insert_data (h : TopKHandle) (hsep : h.MetaSep) (x : String) (pos : List Nat)
    (count : Nat) (hlen : pos.length ≤ h.sketch.rows) :
    SupportedOn h.dataKeys (topkInsert h x pos count) :=
  supported_topkInsert_data h hsep x pos count hlen

/-- `topkInsert` spelled out. -/
theorem C09_topkInsert_def (h : TopKHandle) (x : String) (pos : List Nat) (count : Nat) :
    topkInsert h x pos count =
      (Script.try_ (cmsUpdate h.sketch pos count) >>=ₛ fun _ =>
       cmsCount h.sketch pos >>=ₛ fun f => topkInsertCmds h.heapKey h.k x f) := rfl

/-! #### Cuckoo filter: the bucket operations -/

/-- any operation framed by the two keys of bucket `i < n` is framed by the data keys. -/
theorem C09_frame_bucket_in_data {ρ : Type} (h : CuckooHandle) (hsep : h.BucketsAvoid h.metadataKey)
    (i : Nat) (hi : i < h.n) (op : Op ρ)
    (hop : SupportedOn [cuckooBucketKey h.key i, cuckooBucketKey h.key i ++ "_len"] op) :
    SupportedOn h.dataKeys op := supported_bucket_in_data h hsep i hi op hop

section bucket
variable (h : CuckooHandle) (hsep : h.BucketsAvoid h.metadataKey) (i : Nat) (hi : i < h.n)
include hsep hi

theorem C09_frame_bucket_new_data : SupportedOn h.dataKeys (bucketNew (cuckooBucketKey h.key i)) :=
  supported_bucket_in_data h hsep i hi _ (supported_bucketNew _)

theorem C09_frame_bucket_isFree_data (size : Nat) :
    SupportedOn h.dataKeys (bucketIsFree (cuckooBucketKey h.key i) size) :=
  supported_bucket_in_data h hsep i hi _ (supported_bucketIsFree _ size)

theorem C09_frame_bucket_add_data (size : Nat) (e : String) :
    SupportedOn h.dataKeys (bucketAdd (cuckooBucketKey h.key i) size e) :=
  supported_bucket_in_data h hsep i hi _ (supported_bucketAdd _ size e)

theorem C09_frame_bucket_remove_data (e : String) :
    SupportedOn h.dataKeys (bucketRemove (cuckooBucketKey h.key i) e) :=
  supported_bucket_in_data h hsep i hi _ (supported_bucketRemove _ e)

theorem C09_frame_bucket_lookup_data (e : String) :
    SupportedOn h.dataKeys (bucketLookup (cuckooBucketKey h.key i) e) :=
  supported_bucket_in_data h hsep i hi _ (supported_bucketLookup _ e)

theorem C09_frame_bucket_at_data (j : Nat) :
    SupportedOn h.dataKeys (bucketAt (cuckooBucketKey h.key i) j) :=
  supported_bucket_in_data h hsep i hi _ (supported_bucketAt _ j)

theorem C09_frame_bucket_set_data (j : Nat) (e : String) :
    SupportedOn h.dataKeys (bucketSet (cuckooBucketKey h.key i) j e) :=
  supported_bucket_in_data h hsep i hi _ (supported_bucketSet _ j e)

theorem C09_frame_bucket_getLength_data :
    SupportedOn h.dataKeys (bucketGetLength (cuckooBucketKey h.key i)) :=
  supported_bucket_in_data h hsep i hi _ (supported_bucketGetLength _)

theorem C09_frame_bucket_elements_data :
    SupportedOn h.dataKeys (bucketElements (cuckooBucketKey h.key i)) :=
  supported_bucket_in_data h hsep i hi _ (supported_bucketElements _)

end bucket

/-! ### 2. an operation that does not touch the metadata key does not change attach -/

/-- the general statement: the store at the metadata key is unchanged, so every attach that
    reads only that key is. -/
theorem C09_attach_stable {ρ : Type} (K : List String) (op : Op ρ) (hsup : SupportedOn K op)
    (mk : String) (hmk : mk ∉ K) (s : Store) :
    (op s).1 mk = s mk ∧
    cmsAttach (op s).1 mk = cmsAttach s mk ∧ hllAttach (op s).1 mk = hllAttach s mk ∧
    bloomAttach (op s).1 mk = bloomAttach s mk ∧ cuckooAttach (op s).1 mk = cuckooAttach s mk :=
  have e := hsup.1 s mk hmk
  ⟨e, cmsAttach_congr e, hllAttach_congr e, bloomAttach_congr e, cuckooAttach_congr e⟩

theorem C09_attach_stable_cms {ρ : Type} (h : CMSHandle) (K : List String) (op : Op ρ)
    (hsup : SupportedOn K op) (hmk : h.metadataKey ∉ K) (s : Store) :
    cmsAttach (op s).1 h.metadataKey = cmsAttach s h.metadataKey :=
  cmsAttach_congr (hsup.1 s _ hmk)

theorem C09_attach_stable_hll {ρ : Type} (h : HLLHandle) (K : List String) (op : Op ρ)
    (hsup : SupportedOn K op) (hmk : h.metadataKey ∉ K) (s : Store) :
    hllAttach (op s).1 h.metadataKey = hllAttach s h.metadataKey :=
  hllAttach_congr (hsup.1 s _ hmk)

theorem C09_attach_stable_bloom {ρ : Type} (h : BloomHandle) (K : List String) (op : Op ρ)
    (hsup : SupportedOn K op) (hmk : h.metadataKey ∉ K) (s : Store) :
    bloomAttach (op s).1 h.metadataKey = bloomAttach s h.metadataKey :=
  bloomAttach_congr (hsup.1 s _ hmk)

theorem C09_attach_stable_cuckoo {ρ : Type} (h : CuckooHandle) (K : List String) (op : Op ρ)
    (hsup : SupportedOn K op) (hmk : h.metadataKey ∉ K) (s : Store) :
    cuckooAttach (op s).1 h.metadataKey = cuckooAttach s h.metadataKey :=
  cuckooAttach_congr (hsup.1 s _ hmk)

/-- Top-K reads a second hash, the one named by the `sketchKey` field of its own: that key must
    be outside `K` as well. -/
theorem C09_attach_stable_topk {ρ : Type} (h : TopKHandle) (K : List String) (op : Op ρ)
    (hsup : SupportedOn K op) (hmk : h.metadataKey ∉ K) (s : Store)
    (hsk : ∀ vals, (cmdHGETALL h.metadataKey s).2 = some vals → field vals "sketchKey" ∉ K) :
    topkAttach (op s).1 h.metadataKey = topkAttach s h.metadataKey :=
  (topkAttach_congr (hsup.1 s _ hmk).symm
    (fun vals hv => (hsup.1 s _ (hsk vals hv)).symm)).symm

/-- the same when attach is known to return `h` (then `sketchKey` IS `h.sketch.metadataKey`). -/
theorem C09_attach_stable_topk_some {ρ : Type} (h : TopKHandle) (K : List String) (op : Op ρ)
    (hsup : SupportedOn K op) (hmk : h.metadataKey ∉ K) (hsk : h.sketch.metadataKey ∉ K) (s : Store)
    (hat : topkAttach s h.metadataKey = some h) : topkAttach (op s).1 h.metadataKey = some h :=
  topkAttach_stable_of_some hat (hsup.1 s _ hmk) (hsup.1 s _ hsk)

/-! ### 3. `cuckooAttach` is insensitive to the `length` field -/

/-- `HINCRBY metadataKey "length" d`, for every `d` and every store. -/
theorem C09_attach_stable_cuckoo_length (mk : String) (d : Int) (s : Store) :
    cuckooAttach (cmdHINCRBY mk "length" d s).1 mk = cuckooAttach s mk :=
  cuckooAttach_HINCRBY_length mk d s

/-- `incrLength` / `decrLength` / `Length` of cuckoo_filter_redis.go. -/
theorem C09_attach_stable_cuckoo_length_ops (h : CuckooHandle) (s : Store) :
    cuckooAttach (cuckooIncrLength h s).1 h.metadataKey = cuckooAttach s h.metadataKey ∧
    cuckooAttach (cuckooDecrLength h s).1 h.metadataKey = cuckooAttach s h.metadataKey ∧
    cuckooAttach (cuckooLength h s).1 h.metadataKey = cuckooAttach s h.metadataKey :=
  ⟨cuckooAttach_HINCRBY_length _ _ s, cuckooAttach_HINCRBY_length _ _ s,
    cuckooAttach_congr (by show (cmdHGET h.metadataKey "length" s).1 _ = _; unfold cmdHGET; split <;> rfl)⟩

/-- at the level of the hash: any rewrite of the field `length`. -/
theorem C09_attach_cuckoo_ignores_length (s : Store) (mk : String) (m : List (String × String))
    (v : String) :
    cuckooAttach (s.set mk (.hash (hashSet m "length" v))) mk = cuckooAttach (s.set mk (.hash m)) mk :=
  cuckooAttach_set_length s mk m v

/-- in particular `setMetadata(length)` gives the same handle for every `length`. -/
theorem C09_attach_cuckoo_any_length (h : CuckooHandle) (l₁ l₂ : Nat) (s : Store)
    (hs : HashOrAbsent s h.metadataKey) :
    cuckooAttach (cuckooSetMetadata h l₁ s).1 h.metadataKey =
      cuckooAttach (cuckooSetMetadata h l₂ s).1 h.metadataKey := by
  unfold cuckooSetMetadata
  rw [cmdHSET_ok hs, cmdHSET_ok hs]
  simp only [hashSetAll, List.foldl_cons, List.foldl_nil]
  rw [cuckooAttach_set_length, cuckooAttach_set_length]

/-! ### 4. attach at any point of a history -/

/-- a step framed by a key set without `mk` keeps `mk`. -/
theorem C09_keepsKey_of_supported {ρ : Type} (K : List String) (op : Op ρ) (hsup : SupportedOn K op)
    (mk : String) (hmk : mk ∉ K) : KeepsKey mk (fun s => (op s).1) := hsup.keepsKey hmk

/-- every own step of a handle keeps its metadata key (Top-K: both). -/
theorem C09_own_step_keeps_cms (h : CMSHandle) (hsep : h.RowsAvoid h.metadataKey)
    (t : Store → Store) (ht : h.Step t) : KeepsKey h.metadataKey t := ht.keeps hsep

theorem C09_own_step_keeps_hll (h : HLLHandle) (hne : h.key ≠ h.metadataKey)
    (t : Store → Store) (ht : h.Step t) : KeepsKey h.metadataKey t := ht.keeps hne

theorem C09_own_step_keeps_bloom (h : BloomHandle) (hne : h.bitsetKey ≠ h.metadataKey)
    (t : Store → Store) (ht : h.Step t) : KeepsKey h.metadataKey t := ht.keeps hne

theorem C09_own_step_keeps_topk (h : TopKHandle) (hsep : h.MetaSep)
    (t : Store → Store) (ht : h.Step t) :
    KeepsKey h.metadataKey t ∧ KeepsKey h.sketch.metadataKey t := ht.keeps hsep

/-- a cuckoo step may rewrite the metadata hash (`length`), but not what attach reads. -/
theorem C09_own_step_stable_cuckoo (h : CuckooHandle) (hsep : h.BucketsAvoid h.metadataKey)
    (t : Store → Store) (ht : h.Step t) (s : Store) :
    cuckooAttach (t s) h.metadataKey = cuckooAttach s h.metadataKey := ht.attach_stable hsep s

/-- the general history theorem: steps that keep `mk` leave the store at `mk`, hence every
    attach through `mk`, unchanged. -/
theorem C09_attach_history (mk : String) (ts : List (Store → Store))
    (hts : ∀ t ∈ ts, KeepsKey mk t) (s : Store) :
    runSteps ts s mk = s mk ∧
    cmsAttach (runSteps ts s) mk = cmsAttach s mk ∧ hllAttach (runSteps ts s) mk = hllAttach s mk ∧
    bloomAttach (runSteps ts s) mk = bloomAttach s mk ∧
    cuckooAttach (runSteps ts s) mk = cuckooAttach s mk :=
  have e := runSteps_keeps mk ts hts s
  ⟨e, cmsAttach_congr e, hllAttach_congr e, bloomAttach_congr e, cuckooAttach_congr e⟩

/-! #### Count-Min Sketch -/

/-- from ANY store: a history of own/foreign steps does not change the metadata hash. -/
theorem C09_attach_history_cms (h : CMSHandle) (hsep : h.RowsAvoid h.metadataKey)
    (ts : List (Store → Store)) (hts : ∀ t ∈ ts, h.Step t) (s : Store) :
    runSteps ts s h.metadataKey = s h.metadataKey ∧
    cmsAttach (runSteps ts s) h.metadataKey = cmsAttach s h.metadataKey :=
  have e := runSteps_keeps _ ts (fun t ht => (hts t ht).keeps hsep) s
  ⟨e, cmsAttach_congr e⟩

theorem C09_attach_any_time_cms (h : CMSHandle) (s : Store) (ts : List (Store → Store))
    (hs : HashOrAbsent s h.metadataKey)
    (h1 : 0 < h.rows) (h2 : 0 < h.cols) (h3 : h.rows < 2 ^ 63) (h4 : h.cols < 2 ^ 63)
    (hsep : h.RowsAvoid h.metadataKey) (hts : ∀ t ∈ ts, h.Step t) :
    cmsAttach (runSteps ts (cmsCreate h s).1) h.metadataKey = some h := by
  rw [(C09_attach_history_cms h hsep ts hts _).2]
  exact C09_attach_roundtrip_cms h s hs h1 h2 h3 h4

/-- with the C19 hypotheses instead of `RowsAvoid`. -/
theorem C09_attach_any_time_cms_base (h : CMSHandle) (s : Store) (ts : List (Store → Store))
    (hs : HashOrAbsent s h.metadataKey)
    (h1 : 0 < h.rows) (h2 : 0 < h.cols) (h3 : h.rows < 2 ^ 63) (h4 : h.cols < 2 ^ 63)
    (hb : ∀ b ∈ h.bases, IsBase b) (hts : ∀ t ∈ ts, h.Step t) :
    cmsAttach (runSteps ts (cmsCreate h s).1) h.metadataKey = some h :=
  C09_attach_any_time_cms h s ts hs h1 h2 h3 h4 (C09_sep_cms_of_isBase h hb) hts

/-! #### HyperLogLog -/

theorem C09_attach_history_hll (h : HLLHandle) (hne : h.key ≠ h.metadataKey)
    (ts : List (Store → Store)) (hts : ∀ t ∈ ts, h.Step t) (s : Store) :
    runSteps ts s h.metadataKey = s h.metadataKey ∧
    hllAttach (runSteps ts s) h.metadataKey = hllAttach s h.metadataKey :=
  have e := runSteps_keeps _ ts (fun t ht => (hts t ht).keeps hne) s
  ⟨e, hllAttach_congr e⟩

theorem C09_attach_any_time_hll (h : HLLHandle) (s : Store) (ts : List (Store → Store))
    (hs : HashOrAbsent s h.metadataKey)
    (h1 : 0 < h.m) (h2 : h.m &&& (h.m - 1) = 0) (h3 : h.m < 2 ^ 63)
    (hne : h.key ≠ h.metadataKey) (hts : ∀ t ∈ ts, h.Step t) :
    hllAttach (runSteps ts (hllCreate h s).1) h.metadataKey = some h := by
  rw [(C09_attach_history_hll h hne ts hts _).2]
  exact C09_attach_roundtrip_hll h s hs h1 h2 h3

theorem C09_attach_any_time_hll_base (h : HLLHandle) (s : Store) (ts : List (Store → Store))
    (hs : HashOrAbsent s h.metadataKey)
    (h1 : 0 < h.m) (h2 : h.m &&& (h.m - 1) = 0) (h3 : h.m < 2 ^ 63)
    (hn : h.bases.Nodup) (hts : ∀ t ∈ ts, h.Step t) :
    hllAttach (runSteps ts (hllCreate h s).1) h.metadataKey = some h :=
  C09_attach_any_time_hll h s ts hs h1 h2 h3 (C09_sep_hll_of_nodup h hn) hts

/-! #### Bloom filter -/

theorem C09_attach_history_bloom (h : BloomHandle) (hne : h.bitsetKey ≠ h.metadataKey)
    (ts : List (Store → Store)) (hts : ∀ t ∈ ts, h.Step t) (s : Store) :
    runSteps ts s h.metadataKey = s h.metadataKey ∧
    bloomAttach (runSteps ts s) h.metadataKey = bloomAttach s h.metadataKey :=
  have e := runSteps_keeps _ ts (fun t ht => (hts t ht).keeps hne) s
  ⟨e, bloomAttach_congr e⟩

theorem C09_attach_any_time_bloom (h : BloomHandle) (s : Store) (ts : List (Store → Store))
    (hs : HashOrAbsent s h.metadataKey) (h1 : h.size < 2 ^ 63) (h2 : h.k < 2 ^ 63)
    (hne : h.bitsetKey ≠ h.metadataKey) (hts : ∀ t ∈ ts, h.Step t) :
    bloomAttach (runSteps ts (bloomCreate h s).1) h.metadataKey = some h := by
  rw [(C09_attach_history_bloom h hne ts hts _).2]
  exact C09_attach_roundtrip_bloom h s hs h1 h2

/-- the constructor `NewRedisBloomFilterWithParameters` (clamped parameters, fix fa61ac6): at any
    later point attach returns the handle the constructor returned. -/
theorem C09_attach_any_time_bloom_params (size numHashes : Nat) (bk mk : String) (s : Store)
    (ts : List (Store → Store)) (hs : HashOrAbsent s mk) (h1 : size < 2 ^ 63)
    (h2 : numHashes < 2 ^ 63) (hne : bk ≠ mk)
    (hts : ∀ t ∈ ts, BloomHandle.Step
      { size := max size 1, k := max numHashes 1, bitsetKey := bk, metadataKey := mk } t) :
    bloomAttach (runSteps ts (bloomCreateRaw size numHashes bk mk s).1) mk =
      (bloomCreateRaw size numHashes bk mk s).2 := by
  have e := (C09_attach_history_bloom
    { size := max size 1, k := max numHashes 1, bitsetKey := bk, metadataKey := mk } hne ts hts
    (bloomCreateRaw size numHashes bk mk s).1).2
  simp only at e
  rw [e]
  exact (C09_attach_roundtrip_bloom_params size numHashes bk mk s hs h1 h2).1

theorem C09_attach_any_time_bloom_base (h : BloomHandle) (s : Store) (ts : List (Store → Store))
    (hs : HashOrAbsent s h.metadataKey) (h1 : h.size < 2 ^ 63) (h2 : h.k < 2 ^ 63)
    (hn : h.bases.Nodup) (hts : ∀ t ∈ ts, h.Step t) :
    bloomAttach (runSteps ts (bloomCreate h s).1) h.metadataKey = some h :=
  C09_attach_any_time_bloom h s ts hs h1 h2 (C09_sep_bloom_of_nodup h hn) hts

/-! #### Cuckoo filter -/

/-- the steps may rewrite the `length` field; attach does not notice. -/
theorem C09_attach_history_cuckoo (h : CuckooHandle) (hsep : h.BucketsAvoid h.metadataKey)
    (ts : List (Store → Store)) (hts : ∀ t ∈ ts, h.Step t) (s : Store) :
    cuckooAttach (runSteps ts s) h.metadataKey = cuckooAttach s h.metadataKey :=
  runSteps_invariant (fun s => cuckooAttach s h.metadataKey) ts
    (fun t ht s => (hts t ht).attach_stable hsep s) s

/-- `setMetadata(length)` (constructor: 0; `Import`: the exported length), then any history:
    the same parameters and base key. -/
theorem C09_attach_any_time_cuckoo (h : CuckooHandle) (length : Nat) (s : Store)
    (ts : List (Store → Store)) (hs : HashOrAbsent s h.metadataKey)
    (h1 : h.n < 2 ^ 63) (h2 : h.bsize < 2 ^ 63) (h3 : h.fpl < 2 ^ 63) (h4 : h.retries < 2 ^ 63)
    (hsep : h.BucketsAvoid h.metadataKey) (hts : ∀ t ∈ ts, h.Step t) :
    cuckooAttach (runSteps ts (cuckooSetMetadata h length s).1) h.metadataKey = some h := by
  rw [C09_attach_history_cuckoo h hsep ts hts]
  exact C09_attach_roundtrip_cuckoo h length s hs h1 h2 h3 h4

/-- hence the bucket handles re-created by `localInitBuckets` name the same Redis keys. -/
theorem C09_attach_any_time_cuckoo_same_keys (h : CuckooHandle) (length : Nat) (s : Store)
    (ts : List (Store → Store)) (hs : HashOrAbsent s h.metadataKey)
    (h1 : h.n < 2 ^ 63) (h2 : h.bsize < 2 ^ 63) (h3 : h.fpl < 2 ^ 63) (h4 : h.retries < 2 ^ 63)
    (hsep : h.BucketsAvoid h.metadataKey) (hts : ∀ t ∈ ts, h.Step t) :
    (cuckooAttach (runSteps ts (cuckooSetMetadata h length s).1) h.metadataKey).map
      CuckooHandle.keysOf = some h.keysOf := by
  rw [C09_attach_any_time_cuckoo h length s ts hs h1 h2 h3 h4 hsep hts]; rfl

theorem C09_attach_any_time_cuckoo_base (h : CuckooHandle) (length : Nat) (s : Store)
    (ts : List (Store → Store)) (hs : HashOrAbsent s h.metadataKey)
    (h1 : h.n < 2 ^ 63) (h2 : h.bsize < 2 ^ 63) (h3 : h.fpl < 2 ^ 63) (h4 : h.retries < 2 ^ 63)
    (hb : ∀ b ∈ h.bases, IsBase b) (hts : ∀ t ∈ ts, h.Step t) :
    cuckooAttach (runSteps ts (cuckooSetMetadata h length s).1) h.metadataKey = some h :=
  C09_attach_any_time_cuckoo h length s ts hs h1 h2 h3 h4 (C09_sep_cuckoo_of_isBase h hb) hts

/-! #### Top-K -/

/-- from any store on which attach returns `h`. -/
theorem C09_attach_history_topk (h : TopKHandle) (hsep : h.MetaSep)
    (ts : List (Store → Store)) (hts : ∀ t ∈ ts, h.Step t) (s : Store)
    (hat : topkAttach s h.metadataKey = some h) :
    topkAttach (runSteps ts s) h.metadataKey = some h :=
  topkAttach_stable_of_some hat
    (runSteps_keeps _ ts (fun t ht => ((hts t ht).keeps hsep).1) s)
    (runSteps_keeps _ ts (fun t ht => ((hts t ht).keeps hsep).2) s)

theorem C09_attach_any_time_topk (h : TopKHandle) (s : Store) (ts : List (Store → Store))
    (hs : HashOrAbsent s h.metadataKey) (hs' : HashOrAbsent s h.sketch.metadataKey)
    (hne : h.metadataKey ≠ h.sketch.metadataKey) (hk : h.k < 2 ^ 32)
    (h1 : 0 < h.sketch.rows) (h2 : 0 < h.sketch.cols)
    (h3 : h.sketch.rows < 2 ^ 63) (h4 : h.sketch.cols < 2 ^ 63)
    (hsep : h.MetaSep) (hts : ∀ t ∈ ts, h.Step t) :
    topkAttach (runSteps ts (topkCreate h s).1) h.metadataKey = some h :=
  C09_attach_history_topk h hsep ts hts _
    (C09_attach_roundtrip_topk h s hs hs' hne hk h1 h2 h3 h4)

theorem C09_attach_any_time_topk_base (h : TopKHandle) (s : Store) (ts : List (Store → Store))
    (hs : HashOrAbsent s h.metadataKey) (hs' : HashOrAbsent s h.sketch.metadataKey)
    (hk : h.k < 2 ^ 32) (h1 : 0 < h.sketch.rows) (h2 : 0 < h.sketch.cols)
    (h3 : h.sketch.rows < 2 ^ 63) (h4 : h.sketch.cols < 2 ^ 63)
    (hb : ∀ b ∈ h.bases, IsBase b) (hn : h.bases.Nodup) (hts : ∀ t ∈ ts, h.Step t) :
    topkAttach (runSteps ts (topkCreate h s).1) h.metadataKey = some h := by
  have hne : h.metadataKey ≠ h.sketch.metadataKey := by
    simp only [TopKHandle.bases, CMSHandle.bases, List.cons_append, List.nil_append,
      List.nodup_cons, List.mem_cons, List.not_mem_nil, or_false, not_or] at hn
    exact hn.2.1.2
  exact C09_attach_any_time_topk h s ts hs hs' hne hk h1 h2 h3 h4
    (C09_sep_topk_of_isBase h hb hn) hts

/-! ### 5. the hypotheses are needed -/

section counterexamples

/-- a sketch whose row key `"x" ++ "0"` is spelled like its metadata key. -/
def badSk : CMSHandle := { rows := 1, cols := 2, key := "x", metadataKey := "x0" }
def badBloom : BloomHandle := { size := 8, k := 1, bitsetKey := "b", metadataKey := "b" }
def badHy : HLLHandle := { m := 2, key := "y", metadataKey := "y" }
def badCk : CuckooHandle :=
  { n := 1, bsize := 2, fpl := 2, retries := 1, key := "k", metadataKey := "cuckoo_k_bucket_0" }
def badTk : TopKHandle :=
  { k := 2, errorRate := "0.01", accuracy := "0.01", heapKey := "hp", metadataKey := "x0",
    sketch := { rows := 1, cols := 2, key := "x", metadataKey := "sm" } }

example : ¬ badSk.RowsAvoid badSk.metadataKey := by decide
example : ¬ badCk.BucketsAvoid badCk.metadataKey := by decide
example : ¬ badTk.MetaSep := by decide

/-- **Count-Min**: without `RowsAvoid` the frame on the data keys is false: `initMatrix` deletes
    the metadata hash (`DEL` does not look at the type) … -/
theorem C09_frame_cms_needs_sep : ¬ SupportedOn badSk.dataKeys (cmsInit badSk) := by
  intro h
  have := h.1 (cmsCreate badSk Store.empty).1 badSk.metadataKey badSk.metadataKey_not_mem_dataKeys
  revert this; decide

/-- … and attach, fine right after creation, fails after that one own step. -/
theorem C09_attach_any_time_cms_needs_sep :
    cmsAttach (cmsCreate badSk Store.empty).1 badSk.metadataKey = some badSk ∧
    cmsAttach (runSteps [fun s => (cmsInit badSk s).1] (cmsCreate badSk Store.empty).1)
      badSk.metadataKey = none := by decide

/-- **Bloom**: `bitsetKey = metadataKey`: `newBitSetRedis`'s `SET` overwrites the hash. -/
theorem C09_frame_bloom_needs_sep : ¬ SupportedOn badBloom.dataKeys (bloomInit badBloom) := by
  intro h
  have := h.1 (bloomCreate badBloom Store.empty).1 badBloom.metadataKey
    badBloom.metadataKey_not_mem_dataKeys
  revert this; decide

theorem C09_attach_any_time_bloom_needs_sep :
    bloomAttach (bloomCreate badBloom Store.empty).1 badBloom.metadataKey = some badBloom ∧
    bloomAttach (runSteps [fun s => (bloomInit badBloom s).1] (bloomCreate badBloom Store.empty).1)
      badBloom.metadataKey = none := by decide

/-- **HyperLogLog**: `key = metadataKey`: on a fresh store `initRegisters` writes that key. -/
theorem C09_frame_hll_needs_sep : ¬ SupportedOn badHy.dataKeys (hllInit badHy) := by
  intro h
  have := h.1 Store.empty badHy.metadataKey badHy.metadataKey_not_mem_dataKeys
  revert this; decide

/-- **Cuckoo**: a bucket key spelled like the metadata key: `getElements` of that bucket reads
    the metadata hash (two stores that agree on every data key give different answers). -/
theorem C09_frame_bucket_needs_sep :
    ¬ SupportedOn badCk.dataKeys (bucketElements (cuckooBucketKey badCk.key 0)) := by
  intro h
  have := (h.2 (cuckooCreate badCk Store.empty).1 Store.empty (by decide)).1
  revert this; decide

/-- **Top-K**: a row key of the nested sketch spelled like the Top-K's metadata key. -/
theorem C09_frame_topk_needs_sep : ¬ SupportedOn badTk.dataKeys (cmsInit badTk.sketch) := by
  intro h
  have := h.1 (topkCreate badTk Store.empty).1 badTk.metadataKey badTk.metadataKey_not_mem_dataKeys
  revert this; decide

theorem C09_attach_any_time_topk_needs_sep :
    topkAttach (topkCreate badTk Store.empty).1 badTk.metadataKey = some badTk ∧
    topkAttach (runSteps [fun s => (cmsInit badTk.sketch s).1] (topkCreate badTk Store.empty).1)
      badTk.metadataKey = none := by decide

/-- the `length` accessors of the cuckoo filter are NOT framed by the data keys: `incrLength`
    writes the metadata hash.  (That is why item 3 is needed.) -/
theorem C09_cuckoo_incrLength_not_data :
    ¬ SupportedOn exCk.dataKeys (cuckooIncrLength exCk) := by
  intro h
  have := h.1 Store.empty exCk.metadataKey exCk.metadataKey_not_mem_dataKeys
  revert this; decide

/-- … and the insensitivity is special to `length`: the same `HINCRBY` on `size` changes the
    handle attach returns. -/
theorem C09_cuckoo_other_field_matters :
    cuckooAttach (cmdHINCRBY exCk.metadataKey "size" 1 (cuckooCreate exCk Store.empty).1).1
      exCk.metadataKey = some { exCk with n := 101 } := by decide

/-- Top-K: an operation that keeps the Top-K's own metadata key but not the sketch's (here: `DEL`
    of the sketch's hash, framed by `[sketch.metadataKey]`) does change attach. -/
theorem C09_attach_stable_topk_needs_sketch :
    SupportedOn [exTk.sketch.metadataKey] (cmdDEL exTk.sketch.metadataKey) ∧
    exTk.metadataKey ∉ [exTk.sketch.metadataKey] ∧
    topkAttach (topkCreate exTk Store.empty).1 exTk.metadataKey = some exTk ∧
    topkAttach (cmdDEL exTk.sketch.metadataKey (topkCreate exTk Store.empty).1).1 exTk.metadataKey
      = none :=
  ⟨supported_DEL List.mem_cons_self, by decide, by decide, by decide⟩

end counterexamples

/-! ### 6. non-vacuity: concrete histories -/

section examples

def sSk : CMSHandle := { rows := 3, cols := 4, key := "aaaaaaaaaaaaaaaa", metadataKey := "aaaaaaaaaaaaaaab" }
def sSk₂ : CMSHandle := { rows := 3, cols := 4, key := "aaaaaaaaaaaaaaac", metadataKey := "aaaaaaaaaaaaaaad" }
def sHy : HLLHandle := { m := 4, key := "aaaaaaaaaaaaaaae", metadataKey := "aaaaaaaaaaaaaaaf" }
def sHy₂ : HLLHandle := { m := 4, key := "aaaaaaaaaaaaaaag", metadataKey := "aaaaaaaaaaaaaaah" }
def sBl : BloomHandle := { size := 16, k := 2, bitsetKey := "aaaaaaaaaaaaaaai", metadataKey := "aaaaaaaaaaaaaaaj" }
def sCk : CuckooHandle :=
  { n := 2, bsize := 2, fpl := 2, retries := 5, key := "aaaaaaaaaaaaaaak", metadataKey := "aaaaaaaaaaaaaaal" }
def sTk : TopKHandle :=
  { k := 2, errorRate := "0.01", accuracy := "0.01", heapKey := "aaaaaaaaaaaaaaam",
    metadataKey := "aaaaaaaaaaaaaaan", sketch := sSk₂ }

/-- the separation hypotheses hold for these handles: by evaluation, and from the C19 hypotheses. -/
example : sSk.RowsAvoid sSk.metadataKey := by decide
example : sSk.RowsAvoid sSk.metadataKey := C09_sep_cms_of_isBase sSk (by decide)
example : sCk.BucketsAvoid sCk.metadataKey := by decide
example : sCk.BucketsAvoid sCk.metadataKey := C09_sep_cuckoo_of_isBase sCk (by decide)
example : sTk.MetaSep := by decide
example : sTk.MetaSep := C09_sep_topk_of_isBase sTk (by decide) (by decide)

/-- the data keys, spelled out. -/
example : sSk.dataKeys = ["aaaaaaaaaaaaaaaa0", "aaaaaaaaaaaaaaaa1", "aaaaaaaaaaaaaaaa2"] := by decide
example : sHy.dataKeys = ["aaaaaaaaaaaaaaae"] := by decide
example : sCk.dataKeys = ["aaaaaaaaaaaaaaak", "cuckoo_aaaaaaaaaaaaaaak_bucket_0",
    "cuckoo_aaaaaaaaaaaaaaak_bucket_1", "cuckoo_aaaaaaaaaaaaaaak_bucket_0_len",
    "cuckoo_aaaaaaaaaaaaaaak_bucket_1_len"] := by decide
example : sTk.dataKeys = ["aaaaaaaaaaaaaaam", "aaaaaaaaaaaaaaac0", "aaaaaaaaaaaaaaac1",
    "aaaaaaaaaaaaaaac2"] := by decide

/-! Count-Min: create; init; a second sketch is created, initialised and updated in between (a
    foreign step); two updates; merge of the second sketch; count. -/

def cmsHist : List (Store → Store) :=
  [ fun s => (cmsInit sSk s).1,
    fun s => (cmsUpdate sSk₂ [0, 1, 2] 4 (cmsInit sSk₂ (cmsCreate sSk₂ s).1).1).1,
    fun s => (cmsUpdate sSk [1, 2, 3] 5 s).1,
    fun s => (cmsUpdate sSk [1, 0, 3] 2 s).1,
    fun s => (cmsMerge sSk sSk₂ s).1,
    fun s => (cmsCount sSk [1, 2, 3] s).1 ]

theorem cmsHist_steps : ∀ t ∈ cmsHist, sSk.Step t := by
  intro t ht
  simp only [cmsHist, List.mem_cons, List.not_mem_nil, or_false] at ht
  rcases ht with rfl | rfl | rfl | rfl | rfl | rfl
  · exact .init
  · -- the foreign step: three operations of `sSk₂`, each framed by `sSk₂.keysOf`
    refine .other _ ?_
    have hmk : sSk.metadataKey ∉ sSk₂.keysOf := by decide
    exact ((C19_frame_cms_create sSk₂).keepsKey hmk).comp
      (((C19_frame_cms_init sSk₂).keepsKey hmk).comp
        ((C19_frame_cms_update sSk₂ [0, 1, 2] 4 (by decide)).keepsKey hmk))
  · exact .update _ _ (by decide)
  · exact .update _ _ (by decide)
  · exact .mergeFrom sSk₂ (by decide)
  · exact .count _ (by decide)

/-- by the theorem … -/
example : cmsAttach (runSteps cmsHist (cmsCreate sSk Store.empty).1) sSk.metadataKey = some sSk :=
  C09_attach_any_time_cms sSk Store.empty cmsHist (Or.inl rfl) (by decide) (by decide) (by decide)
    (by decide) (by decide) cmsHist_steps

/-- … and by running the model: the same answer, on a store whose data did change (the count of
    the element at `[1, 2, 3]` is 5, the merged row 0 holds 4 at column 0 and 7 at column 1). -/
example : cmsAttach (runSteps cmsHist (cmsCreate sSk Store.empty).1) sSk.metadataKey = some sSk := by
  decide
example : (cmsCount sSk [1, 2, 3] (runSteps cmsHist (cmsCreate sSk Store.empty).1)).2 = some 5 := by
  decide
example : runSteps cmsHist (cmsCreate sSk Store.empty).1 "aaaaaaaaaaaaaaaa0" =
    some (.list ["4", "7", "0", "0"]) := by decide
/-- … at every intermediate point as well. -/
example : ∀ n, n ≤ cmsHist.length →
    cmsAttach (runSteps (cmsHist.take n) (cmsCreate sSk Store.empty).1) sSk.metadataKey = some sSk :=
  fun n _ => C09_attach_any_time_cms sSk Store.empty _ (Or.inl rfl) (by decide) (by decide)
    (by decide) (by decide) (by decide) (fun t ht => cmsHist_steps t (List.mem_of_mem_take ht))

/-! HyperLogLog: init, updates, merge with and comparison against a second sketch. -/

def hllPre : Store := (hllUpdate sHy₂ 1 6 (hllInit sHy₂ (hllCreate sHy₂ Store.empty).1).1).1

def hllHist : List (Store → Store) :=
  [ fun s => (hllInit sHy s).1, fun s => (hllUpdate sHy 2 3 s).1, fun s => (hllUpdate sHy 0 1 s).1,
    fun s => (hllEquals sHy sHy₂ s).1, fun s => (hllMerge sHy sHy₂ s).1,
    fun s => (hllMerge sHy₂ sHy s).1, fun s => (hllEquals sHy₂ sHy s).1 ]

theorem hllHist_steps : ∀ t ∈ hllHist, sHy.Step t := by
  intro t ht
  simp only [hllHist, List.mem_cons, List.not_mem_nil, or_false] at ht
  rcases ht with rfl | rfl | rfl | rfl | rfl | rfl | rfl
  · exact .init
  · exact .update _ _
  · exact .update _ _
  · exact .equals sHy₂ (by decide)
  · exact .mergeFrom sHy₂ (by decide)
  · exact .mergeInto sHy₂ (by decide)
  · exact .equalsRev sHy₂ (by decide)

example : hllAttach (runSteps hllHist (hllCreate sHy hllPre).1) sHy.metadataKey = some sHy :=
  C09_attach_any_time_hll sHy hllPre hllHist (Or.inl (by decide)) (by decide) (by decide) (by decide)
    (by decide) hllHist_steps

example : hllAttach (runSteps hllHist (hllCreate sHy hllPre).1) sHy.metadataKey = some sHy := by decide
example : runSteps hllHist (hllCreate sHy hllPre).1 sHy.key = some (.list ["1", "6", "3", "0"]) := by
  decide
/-- the other sketch, created before `sHy`, is still attachable too: every step of the history
    keeps its metadata key as well. -/
example : hllAttach (runSteps hllHist (hllCreate sHy hllPre).1) sHy₂.metadataKey = some sHy₂ := by
  decide

/-! Bloom: init, inserts, lookups. -/

def bloomHist : List (Store → Store) :=
  [ fun s => (bloomInit sBl s).1, fun s => (bloomInsert sBl [3, 9] s).1,
    fun s => (bloomLookup sBl [3, 9] s).1, fun s => (bloomInsert sBl [9, 12] s).1 ]

theorem bloomHist_steps : ∀ t ∈ bloomHist, sBl.Step t := by
  intro t ht
  simp only [bloomHist, List.mem_cons, List.not_mem_nil, or_false] at ht
  rcases ht with rfl | rfl | rfl | rfl
  · exact .init
  · exact .insert _
  · exact .lookup _
  · exact .insert _

example : bloomAttach (runSteps bloomHist (bloomCreate sBl Store.empty).1) sBl.metadataKey = some sBl :=
  C09_attach_any_time_bloom sBl Store.empty bloomHist (Or.inl rfl) (by decide) (by decide)
    (by decide) bloomHist_steps

example : bloomAttach (runSteps bloomHist (bloomCreate sBl Store.empty).1) sBl.metadataKey = some sBl := by
  decide
example : (bloomLookup sBl [3, 12] (runSteps bloomHist (bloomCreate sBl Store.empty).1)).2 = some true ∧
    (bloomLookup sBl [3, 4] (runSteps bloomHist (bloomCreate sBl Store.empty).1)).2 = some false := by
  decide

/-! Cuckoo: both buckets created; two fingerprints added (each followed by `incrLength`), one
    looked up and removed (`decrLength`), `Length` read: the metadata hash is rewritten three
    times, attach keeps returning the same handle. -/

def ckHist : List (Store → Store) :=
  [ fun s => (bucketNew (cuckooBucketKey sCk.key 0) s).1,
    fun s => (bucketNew (cuckooBucketKey sCk.key 1) s).1,
    fun s => (bucketIsFree (cuckooBucketKey sCk.key 1) sCk.bsize s).1,
    fun s => (bucketAdd (cuckooBucketKey sCk.key 1) sCk.bsize "41" s).1,
    fun s => (cuckooIncrLength sCk s).1,
    fun s => (bucketAdd (cuckooBucketKey sCk.key 0) sCk.bsize "77" s).1,
    fun s => (cuckooIncrLength sCk s).1,
    fun s => (cuckooIncrLength sCk s).1,
    fun s => (bucketLookup (cuckooBucketKey sCk.key 1) "41" s).1,
    fun s => (bucketRemove (cuckooBucketKey sCk.key 1) "41" s).1,
    fun s => (cuckooDecrLength sCk s).1,
    fun s => (cuckooLength sCk s).1 ]

theorem ckHist_steps : ∀ t ∈ ckHist, sCk.Step t := by
  intro t ht
  simp only [ckHist, List.mem_cons, List.not_mem_nil, or_false] at ht
  rcases ht with rfl | rfl | rfl | rfl | rfl | rfl | rfl | rfl | rfl | rfl | rfl | rfl
  · exact .bucketNew 0 (by decide)
  · exact .bucketNew 1 (by decide)
  · exact .isFree 1 (by decide) _
  · exact .add 1 (by decide) _ _
  · exact .incrLength
  · exact .add 0 (by decide) _ _
  · exact .incrLength
  · exact .incrLength
  · exact .lookup 1 (by decide) _
  · exact .remove 1 (by decide) _
  · exact .decrLength
  · exact .length

example : cuckooAttach (runSteps ckHist (cuckooCreate sCk Store.empty).1) sCk.metadataKey = some sCk :=
  C09_attach_any_time_cuckoo sCk 0 Store.empty ckHist (Or.inl rfl) (by decide) (by decide)
    (by decide) (by decide) (by decide) ckHist_steps

example : cuckooAttach (runSteps ckHist (cuckooCreate sCk Store.empty).1) sCk.metadataKey = some sCk := by
  decide
/-- the metadata hash is NOT what the constructor wrote (length "2" after +1 +1 +1 -1) … -/
example : runSteps ckHist (cuckooCreate sCk Store.empty).1 sCk.metadataKey =
    some (.hash [("size", "2"), ("bucketSize", "2"), ("fingerPrintLength", "2"), ("retries", "5"),
      ("key", "aaaaaaaaaaaaaaak"), ("length", "2")]) := by decide
example : runSteps ckHist (cuckooCreate sCk Store.empty).1 sCk.metadataKey ≠
    (cuckooCreate sCk Store.empty).1 sCk.metadataKey := by decide
/-- … and the buckets hold what was put there. -/
example : (bucketElements (cuckooBucketKey sCk.key 0) (runSteps ckHist (cuckooCreate sCk Store.empty).1)).2
    = some ["77"] ∧
    (bucketElements (cuckooBucketKey sCk.key 1) (runSteps ckHist (cuckooCreate sCk Store.empty).1)).2
    = some [""] := by decide
/-- even a `length` the library cannot parse, or a negative one, is ignored by attach. -/
example : cuckooAttach (cuckooDecrLength sCk (cuckooCreate sCk Store.empty).1).1 sCk.metadataKey =
    some sCk ∧
    (cuckooDecrLength sCk (cuckooCreate sCk Store.empty).1).1 sCk.metadataKey =
      some (.hash [("size", "2"), ("bucketSize", "2"), ("fingerPrintLength", "2"), ("retries", "5"),
        ("key", "aaaaaaaaaaaaaaak"), ("length", "-1")]) := by decide

/-! Top-K: the nested sketch initialised, three whole `Insert`s, a bare sorted-set offer, `Values`. -/

def tkHist : List (Store → Store) :=
  [ fun s => (cmsInit sTk.sketch s).1,
    fun s => (topkInsert sTk "a" [0, 1, 2] 3 s).1,
    fun s => (topkInsert sTk "b" [1, 1, 3] 1 s).1,
    fun s => (topkInsert sTk "c" [2, 0, 0] 2 s).1,
    fun s => (topkInsertCmds sTk.heapKey sTk.k "b" 5 s).1,
    fun s => (topkValues sTk.heapKey s).1 ]

theorem tkHist_steps : ∀ t ∈ tkHist, sTk.Step t := by
  intro t ht
  simp only [tkHist, List.mem_cons, List.not_mem_nil, or_false] at ht
  rcases ht with rfl | rfl | rfl | rfl | rfl | rfl
  · exact .sketchInit
  · exact .insert _ _ _ (by decide)
  · exact .insert _ _ _ (by decide)
  · exact .insert _ _ _ (by decide)
  · exact .insertCmds _ _
  · exact .values

example : topkAttach (runSteps tkHist (topkCreate sTk Store.empty).1) sTk.metadataKey = some sTk :=
  C09_attach_any_time_topk sTk Store.empty tkHist (Or.inl rfl) (Or.inl rfl) (by decide) (by decide)
    (by decide) (by decide) (by decide) (by decide) (by decide) tkHist_steps

example : topkAttach (runSteps tkHist (topkCreate sTk Store.empty).1) sTk.metadataKey = some sTk := by
  decide
/-- the heap after the history (k = 2: (b,1) was evicted by (c,2), then b re-offered with 5). -/
example : (topkValues sTk.heapKey (runSteps tkHist (topkCreate sTk Store.empty).1)).2 =
    some [("b", 5), ("a", 3)] := by decide
example : (cmsCount sTk.sketch [1, 1, 3] (runSteps tkHist (topkCreate sTk Store.empty).1)).2 = some 1 := by
  decide

end examples

end Gostatix.Redis
