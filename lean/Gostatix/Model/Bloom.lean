/-
  Gostatix.Model.Bloom — model of bloom_filter.go (+ bitset_mem.go / bitset_redis.go as an
  abstract bit array).  `Insert` sets the probed bits, `Lookup` tests them.

  Go:  for i < numHashes { filter.insert(getIndex(hashes, i)) }         (Insert, in-memory)
       indexes[i] = getIndex(hashes,i); filter.insertMulti(indexes)     (Insert, Redis: pipelined SETBIT)
       for i < numHashes { if !filter.has(getIndex(hashes,i)) return false }; return true   (Lookup)
-/
import Gostatix.Model.Basic
namespace Gostatix

structure Bloom where
  size : Nat
  k : Nat
  bits : List Bool
  deriving Repr, DecidableEq

namespace Bloom

/-- `NewBloomFilterWithBitSet`: both parameters are clamped to at least 1. -/
def new (size k : Nat) : Bloom :=
  { size := max size 1, k := max k 1, bits := List.replicate (max size 1) false }

def setBits (bits : List Bool) (ps : List Nat) : List Bool :=
  ps.foldl (fun bs p => bs.set p true) bits

/-- Insert with the element's probe positions. -/
def insert (b : Bloom) (ps : List Nat) : Bloom := { b with bits := setBits b.bits ps }

/-- Lookup with the element's probe positions. -/
def lookup (b : Bloom) (ps : List Nat) : Bool := ps.all (fun p => b.bits.getD p false)

/-- `getIndex` of bloom_filter.go, on naturals:
    `(h1 + j*h2 + floor((j^3 - j)/6)) mod 2^64 mod size`.
    (The Go code computes the cubic term through float64; it is exact for j < 2^17.) -/
def getIndex (h1 h2 : Nat) (i size : Nat) : Nat :=
  ((h1 + i * h2 + (i ^ 3 - i) / 6) % 2 ^ 64) % size

/-- the probe list of an element whose two hash words are `h1 h2`. -/
def probesOf (h1 h2 : Nat) (k size : Nat) : List Nat :=
  (List.range k).map (fun i => getIndex h1 h2 i size)

/-- `util.CalculateNumHashes` integer part: `ceil(float64(size / length) * ln 2)` – the division
    is an integer division in the Go code.  The float multiplication is evaluated by the driver
    in `Float`; here only the integer quotient is modelled. -/
def sizeQuot (size length : Nat) : Nat := size / length

end Bloom

/-- Operations of a Bloom history over an abstract element type. -/
inductive BloomOp (E : Type) where
  | insert : E → BloomOp E
  | lookup : E → BloomOp E

namespace Bloom
variable {E : Type}

/-- one step; lookups do not change the state. -/
def step (probes : E → List Nat) (b : Bloom) : BloomOp E → Bloom
  | .insert e => b.insert (probes e)
  | .lookup _ => b

def run (probes : E → List Nat) (b : Bloom) (h : List (BloomOp E)) : Bloom :=
  h.foldl (step probes) b

end Bloom
end Gostatix
