/-
  Gostatix.Model.TopK — model of top_k.go (container/heap over a slice of (value, frequency))
  and top_k_redis.go (sorted set: ZADD / ZREM / ZPOPMIN, ordered by (score, member bytes)).
  The Count-Min sketch inside is `Gostatix.CMS`.
-/
import Gostatix.Model.CMS
namespace Gostatix

abbrev HElem := String × Nat   -- (value, frequency)

namespace GoHeap
/-! `container/heap` of the Go standard library, transcribed. `Less i j := h[i].frequency < h[j].frequency`. -/

def less (h : Array HElem) (i j : Nat) : Bool := (h.getD i ("", 0)).2 < (h.getD j ("", 0)).2
def swap (h : Array HElem) (i j : Nat) : Array HElem :=
  let a := h.getD i ("", 0); let b := h.getD j ("", 0)
  (h.setIfInBounds i b).setIfInBounds j a

/-- `up(h, j)`; fuel bounds the loop (j strictly decreases) -/
def up : Nat → Array HElem → Nat → Array HElem
  | 0, h, _ => h
  | f+1, h, j =>
    let i := (j - 1) / 2
    if i == j || !less h j i then h else up f (swap h i j) i

/-- `down(h, i0, n)`; returns the heap and the final position -/
def down : Nat → Array HElem → Nat → Nat → Array HElem × Nat
  | 0, h, i, _ => (h, i)
  | f+1, h, i, n =>
    let j1 := 2 * i + 1
    if j1 >= n then (h, i) else
    let j := if j1 + 1 < n && less h (j1 + 1) j1 then j1 + 1 else j1
    if !less h j i then (h, i) else down f (swap h i j) j n

def push (h : Array HElem) (x : HElem) : Array HElem :=
  let h := h.push x
  up h.size h (h.size - 1)

/-- `heap.Pop`: swap(0,n); down(0,n); drop last -/
def pop (h : Array HElem) : Array HElem :=
  let n := h.size - 1
  let h := swap h 0 n
  let (h, _) := down (n + 1) h 0 n
  h.pop

/-- `heap.Remove(h, i)` -/
def remove (h : Array HElem) (i : Nat) : Array HElem :=
  let n := h.size - 1
  if n != i then
    let h := swap h i n
    let (h', i') := down (n + 1) h i n
    let h'' := if i' > i then h' else up (n + 1) h' i
    h''.pop
  else h.pop

def indexOf (h : Array HElem) (x : String) : Option Nat := h.findIdx? (fun e => e.1 == x)

end GoHeap

structure TopK where
  k : Nat
  sketch : CMS
  heap : Array HElem
  deriving Repr, DecidableEq

namespace TopK

/-- heap part of `TopK.Insert` once the sketch estimate `f` of the element is known -/
def offer (k : Nat) (heap : Array HElem) (x : String) (f : Nat) : Array HElem :=
  if heap.size < k ∨ f ≥ (heap.getD 0 ("", 0)).2 then
    let heap := match GoHeap.indexOf heap x with
      | some i => GoHeap.remove heap i
      | none => heap
    let heap := GoHeap.push heap (x, f)
    if heap.size > k then GoHeap.pop heap else heap
  else heap

def insert (t : TopK) (x : String) (pos : List Nat) (c : Nat) : TopK :=
  let sk := t.sketch.update pos c
  let f := sk.count pos
  { t with sketch := sk, heap := offer t.k t.heap x f }

/-- order of `Values`: count descending, then element ascending (bytewise) -/
def valueLt (a b : HElem) : Bool := a.2 > b.2 || (a.2 == b.2 && a.1 < b.1)

def insertSorted (lt : HElem → HElem → Bool) (x : HElem) : List HElem → List HElem
  | [] => [x]
  | y :: ys => if lt x y then x :: y :: ys else y :: insertSorted lt x ys

def sortBy (lt : HElem → HElem → Bool) (l : List HElem) : List HElem :=
  l.foldr (insertSorted lt) []

def values (heap : List HElem) : List HElem := sortBy valueLt heap

/-! ### Redis sorted set -/

/-- zset order: (score, member bytes) ascending -/
def zLt (a b : HElem) : Bool := a.2 < b.2 || (a.2 == b.2 && a.1 < b.1)

/-- ZADD: replaces the member's score, keeps the set sorted -/
def zadd (z : List HElem) (x : String) (f : Nat) : List HElem :=
  insertSorted zLt (x, f) (z.filter (fun e => e.1 != x))

/-- heap part of `TopKRedis.Insert`: ZCARD, ZRANGE 0 0, (ZSCORE, ZREM), ZADD, ZCARD, ZPOPMIN -/
def offerRedis (k : Nat) (z : List HElem) (x : String) (f : Nat) : List HElem :=
  if decide (z.length < k) || (match z.head? with | some mn => decide (f ≥ mn.2) | none => false) then
    let z := zadd z x f
    if z.length > k then z.tail else z
  else z

end TopK
end Gostatix
