/-
  Gostatix.Model.Basic — small list helpers shared by all models.
  Core Lean only (the driver links against this).
-/
namespace Gostatix

/-- `setAt l i v` = `l` with position `i` replaced by `v` (no-op when out of range). -/
abbrev setAt {α} (l : List α) (i : Nat) (v : α) : List α := l.set i v

/-- modify position `i` of `l` with `f` (no-op when out of range). -/
def modAt {α} (l : List α) (i : Nat) (f : α → α) : List α :=
  match l, i with
  | [], _ => []
  | a :: as, 0 => f a :: as
  | a :: as, i+1 => a :: modAt as i f

@[simp] theorem modAt_length {α} (l : List α) (i : Nat) (f : α → α) :
    (modAt l i f).length = l.length := by
  induction l generalizing i with
  | nil => rfl
  | cons a as ih => cases i <;> simp [modAt, ih]

theorem modAt_getD {α} (l : List α) (i j : Nat) (f : α → α) (d : α) (hi : i < l.length) :
    (modAt l i f).getD j d = if j = i then f (l.getD i d) else l.getD j d := by
  induction l generalizing i j with
  | nil => simp at hi
  | cons a as ih =>
    cases i with
    | zero => cases j <;> simp [modAt]
    | succ i =>
      cases j with
      | zero => simp [modAt]
      | succ j =>
        have := ih i j (by simpa using hi)
        simpa [modAt] using this

theorem modAt_getD_ne {α} (l : List α) (i j : Nat) (f : α → α) (d : α) (h : j ≠ i) :
    (modAt l i f).getD j d = l.getD j d := by
  induction l generalizing i j with
  | nil => simp [modAt]
  | cons a as ih =>
    cases i with
    | zero => cases j with
      | zero => exact absurd rfl h
      | succ j => simp [modAt]
    | succ i =>
      cases j with
      | zero => simp [modAt]
      | succ j =>
        have := ih i j (by omega)
        simpa [modAt] using this

theorem modAt_of_ge {α} (l : List α) (i : Nat) (f : α → α) (h : l.length ≤ i) :
    modAt l i f = l := by
  induction l generalizing i with
  | nil => rfl
  | cons a as ih =>
    cases i with
    | zero => simp at h
    | succ i => simp [modAt, ih i (by simpa using h)]

/-- sum of a list of naturals -/
def sumL : List Nat → Nat
  | [] => 0
  | a :: as => a + sumL as

@[simp] theorem sumL_nil : sumL [] = 0 := rfl
@[simp] theorem sumL_cons (a : Nat) (as : List Nat) : sumL (a :: as) = a + sumL as := rfl
theorem sumL_append (a b : List Nat) : sumL (a ++ b) = sumL a + sumL b := by
  induction a with
  | nil => simp
  | cons x xs ih => simp [ih]; omega

end Gostatix
