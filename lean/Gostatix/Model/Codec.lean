/-
  Gostatix.Model.Codec — the five binary formats (WriteTo / ReadFrom of the in-memory
  structures), byte-exact.  Decoders are written in the free monad `Dec` (return | fail |
  read n bytes then continue), which is what makes "every strict prefix is rejected" a generic
  theorem (`Dec.prefix_rejected`, Proofs/Codec.lean).

  All integers are big-endian uint64 (`binary.Write(stream, binary.BigEndian, uint64)`), floats
  travel as their 64-bit patterns, strings as `uint64 length ++ bytes`.
-/
import Gostatix.Model.Basic
namespace Gostatix

abbrev Bytes := List UInt8

inductive Dec (α : Type) where
  | ret : α → Dec α
  | err : Dec α
  | read : Nat → (Bytes → Dec α) → Dec α

namespace Dec
variable {α β : Type}

/-- run a decoder on an input; `some (a, rest)` on success -/
def run : Dec α → Bytes → Option (α × Bytes)
  | ret a, bs => some (a, bs)
  | err, _ => none
  | read n k, bs => if bs.length < n then none else run (k (bs.take n)) (bs.drop n)

def bind : Dec α → (α → Dec β) → Dec β
  | ret a, f => f a
  | err, _ => err
  | read n k, f => read n (fun bs => bind (k bs) f)

instance : Monad Dec where
  pure := ret
  bind := bind

/-- repeat a decoder `n` times -/
def replicateM : Nat → Dec α → Dec (List α)
  | 0, _ => ret []
  | n+1, d => bind d (fun a => bind (replicateM n d) (fun as => ret (a :: as)))

end Dec

namespace Codec

/-! ### primitives -/

/-- big-endian bytes of `n` (low `k` bytes) -/
def beBytes : Nat → Nat → Bytes
  | 0, _ => []
  | k+1, n => UInt8.ofNat (n / 256 ^ k % 256) :: beBytes k n

def encU64 (n : Nat) : Bytes := beBytes 8 n

def beVal : Bytes → Nat
  | bs => bs.foldl (fun acc b => acc * 256 + b.toNat) 0

def decU64 : Dec Nat := .read 8 (fun bs => .ret (beVal bs))

def encStr (s : Bytes) : Bytes := encU64 s.length ++ s
def decStr : Dec Bytes := Dec.bind decU64 (fun n => .read n (fun bs => .ret bs))

def encList {α} (f : α → Bytes) (l : List α) : Bytes := (l.map f).flatten   -- concatenation

/-! ### bits-and-blooms/bitset image inside BitSetMem / BloomFilter -/

structure BloomImg where
  size : Nat        -- BloomFilter.size
  k : Nat           -- BloomFilter.numHashes
  bsSize : Nat      -- BitSetMem.size
  bsLen : Nat       -- bitset.BitSet.length (bits)
  words : List Nat  -- ceil(bsLen/64) words
  deriving Repr, DecidableEq

def wordsNeeded (bits : Nat) : Nat := (bits + 63) / 64

def encBloom (s : BloomImg) : Bytes :=
  encU64 s.size ++ encU64 s.k ++ encU64 s.bsSize ++ encU64 s.bsLen ++ encList encU64 s.words

def decBloom : Dec BloomImg :=
  Dec.bind decU64 fun size =>
  Dec.bind decU64 fun k =>
  Dec.bind decU64 fun bsSize =>
  Dec.bind decU64 fun bsLen =>
  Dec.bind (Dec.replicateM (wordsNeeded bsLen) decU64) fun words =>
  .ret ⟨size, k, bsSize, bsLen, words⟩

/-- bytes reported by WriteTo / ReadFrom: 2*8 (bloom) + 8 (BitSetMem) + BinaryStorageSize -/
def countBloom (s : BloomImg) : Nat := 16 + 8 + 8 + 8 * wordsNeeded s.bsLen

/-! ### Count-Min sketch -/

structure CMSImg where
  rows : Nat
  cols : Nat
  allSum : Nat
  matrix : List (List Nat)
  deriving Repr, DecidableEq

def encCMS (s : CMSImg) : Bytes :=
  encU64 s.rows ++ encU64 s.cols ++ encU64 s.allSum ++ encList (encList encU64) s.matrix

def decCMS : Dec CMSImg :=
  Dec.bind decU64 fun rows =>
  Dec.bind decU64 fun cols =>
  Dec.bind decU64 fun allSum =>
  Dec.bind (Dec.replicateM rows (Dec.replicateM cols decU64)) fun m =>
  .ret ⟨rows, cols, allSum, m⟩

def countCMS (s : CMSImg) : Nat := 24 + s.rows * (8 * s.cols)

/-! ### HyperLogLog -/

structure HLLImg where
  m : Nat
  nbp : Nat          -- numBytesPerHash
  bias : Nat         -- correctionBias, float64 bit pattern
  regs : List UInt8
  deriving Repr, DecidableEq

def encHLL (s : HLLImg) : Bytes := encU64 s.m ++ encU64 s.nbp ++ encU64 s.bias ++ s.regs

def decHLL : Dec HLLImg :=
  Dec.bind decU64 fun m =>
  Dec.bind decU64 fun nbp =>
  Dec.bind decU64 fun bias =>
  .read m fun regs => .ret ⟨m, nbp, bias, regs⟩

def countHLL (s : HLLImg) : Nat := s.m + 24

/-! ### Cuckoo filter (bucket_mem.go + cuckoo_filter.go) -/

structure BucketImg where
  size : Nat
  length : Nat
  elements : List Bytes
  deriving Repr, DecidableEq

def encBucket (b : BucketImg) : Bytes := encU64 b.size ++ encU64 b.length ++ encList encStr b.elements

def decBucket : Dec BucketImg :=
  Dec.bind decU64 fun size =>
  Dec.bind decU64 fun length =>
  Dec.bind (Dec.replicateM size decStr) fun es =>
  .ret ⟨size, length, es⟩

def countBucket (b : BucketImg) : Nat := 16 + sumL (b.elements.map (fun e => 8 + e.length))

structure CuckooImg where
  n : Nat
  bsize : Nat
  fpl : Nat
  length : Nat
  retries : Nat
  buckets : List BucketImg
  deriving Repr, DecidableEq

def encCuckoo (s : CuckooImg) : Bytes :=
  encU64 s.n ++ encU64 s.bsize ++ encU64 s.fpl ++ encU64 s.length ++ encU64 s.retries ++
    encList encBucket s.buckets

def decCuckoo : Dec CuckooImg :=
  Dec.bind decU64 fun n =>
  Dec.bind decU64 fun bsize =>
  Dec.bind decU64 fun fpl =>
  Dec.bind decU64 fun length =>
  Dec.bind decU64 fun retries =>
  Dec.bind (Dec.replicateM n decBucket) fun bs =>
  .ret ⟨n, bsize, fpl, length, retries, bs⟩

def countCuckoo (s : CuckooImg) : Nat := 40 + sumL (s.buckets.map countBucket)

/-! ### Top-K -/

structure TopKImg where
  k : Nat
  errorRate : Nat    -- float64 bit pattern
  accuracy : Nat     -- float64 bit pattern
  sketch : CMSImg
  heap : List (Bytes × Nat)
  deriving Repr, DecidableEq

def encHeapElem (e : Bytes × Nat) : Bytes := encStr e.1 ++ encU64 e.2
def decHeapElem : Dec (Bytes × Nat) :=
  Dec.bind decStr fun v => Dec.bind decU64 fun f => .ret (v, f)

def encTopK (s : TopKImg) : Bytes :=
  encU64 s.k ++ encU64 s.errorRate ++ encU64 s.accuracy ++ encCMS s.sketch ++
    encU64 s.heap.length ++ encList encHeapElem s.heap

def decTopK : Dec TopKImg :=
  Dec.bind decU64 fun k =>
  Dec.bind decU64 fun er =>
  Dec.bind decU64 fun acc =>
  Dec.bind decCMS fun sk =>
  Dec.bind decU64 fun hl =>
  Dec.bind (Dec.replicateM hl decHeapElem) fun heap =>
  .ret ⟨k, er, acc, sk, heap⟩

def countTopK (s : TopKImg) : Nat :=
  24 + countCMS s.sketch + 8 + sumL (s.heap.map (fun e => e.1.length + 16))

end Codec
end Gostatix
